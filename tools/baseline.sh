#!/bin/bash
# Run mpf's pinned test suite (guard OFF) and compare with /root/.vp/BASELINE.json stable_pass.
# usage: tools/baseline.sh [repo_dir]   exit 0 iff every stable_pass test still passes
REPO="${1:-/repo}"
OUT="$(mktemp -d)"
cd "$REPO" || exit 2
env -u MPF_VERIF PYTHONPATH="$REPO" /venv/bin/python -m pytest -q -p no:cacheprovider --timeout=900 \
   --continue-on-collection-errors -n ${BASELINE_N:-16} --junitxml="$OUT/j.xml" >"$OUT/log" 2>&1
tail -1 "$OUT/log"
/venv/bin/python - "$OUT/j.xml" <<'PY'
import json, sys, xml.etree.ElementTree as ET
base = json.load(open('/root/.vp/BASELINE.json'))
want = set(base['stable_pass'])
got = set()
for tc in ET.parse(sys.argv[1]).getroot().iter('testcase'):
    ok = not any(ch.tag in ('failure', 'error', 'skipped') for ch in tc)
    if ok:
        got.add(tc.get('classname') + '::' + tc.get('name'))
missing = sorted(want - got)
print("stable_pass=%d passed_now=%d missing=%d" % (len(want), len(got), len(missing)))
for m in missing[:20]:
    print("  MISSING", m)
sys.exit(1 if missing else 0)
PY
rc=$?
rm -rf "$OUT"
exit $rc
