#!/usr/bin/env python3
"""Regenerate /verif/MANIFEST.json from the property modules (harness/props/cXX.py) and tools/not_applicable.json."""
import importlib
import json
import os
import sys

V = os.path.dirname(os.path.dirname(os.path.abspath(__file__)))
sys.path.insert(0, os.path.join(V, "harness"))
props = [json.loads(l) for l in open(os.path.join(V, "properties.jsonl"))]
na_reasons = json.load(open(os.path.join(V, "tools", "not_applicable.json")))
checks, na = [], []
integrated = json.load(open(os.path.join(V, "tools", "integrated.json")))
for p in props:
    pid = p["id"]
    f = os.path.join(V, "harness", "props", pid.lower() + ".py")
    if not os.path.exists(f) or pid in na_reasons.get("force", {}):
        na.append({"property_id": pid, "reason": na_reasons.get("force", {}).get(pid) or na_reasons["reasons"].get(pid, "check not built yet (see DESIGN.md section 7)")})
        continue
    src = open(f).read()
    ns = {}
    # read the metadata constants without importing mpf
    import ast
    for node in ast.parse(src).body:
        if isinstance(node, ast.Assign) and isinstance(node.targets[0], ast.Name) and \
                node.targets[0].id in ("LEVEL_TEXT", "LEVEL_NOTE", "TECHNIQUE", "DESIGN_REF", "ID", "READY"):
            try:
                ns[node.targets[0].id] = ast.literal_eval(node.value)
            except Exception:
                ns[node.targets[0].id] = eval(compile(ast.Expression(node.value), f, "eval"), {})
    if not ns.get("READY") or pid not in integrated:
        na.append({"property_id": pid, "reason": na_reasons["reasons"].get(pid, "check under construction, not yet sound enough to register (see DESIGN.md section 7)")})
        continue
    checks.append({
        "property_id": pid,
        "quick_cmd": "./check %s --tier quick" % pid,
        "thorough_cmd": "./check %s --tier thorough" % pid,
        "evidence_file": "/verif/evidence/%s.json" % pid,
        "replay_cmd_template": "./check %s --replay {path}" % pid,
        "engine": "coq-correspondence",
        "level_claimed": {"category": "proof", "text": ns["LEVEL_TEXT"], "design_ref": ns.get("DESIGN_REF", "DESIGN.md section 3")},
        "level_note": ns["LEVEL_NOTE"],
        "technique": ns.get("TECHNIQUE", "Coq proof + correspondence"),
    })
m = {
    "version": 1,
    "setup_cmd": "./check --setup",
    "hooks": {"guard": "MPF_VERIF", "enable": "export MPF_VERIF=1 (set by ./check); no guarded source hooks are currently needed",
              "baseline_off_cmd": "/verif/tools/baseline.sh /repo", "source_commits": [], "add_only": True},
    "engines": [{"name": "coq-correspondence", "path": "/verif/check",
                 "serves_properties": [c["property_id"] for c in checks],
                 "kind_free_text": "Coq 8.16.1 proofs over hand-written/translated executable Gallina models; model tied to /repo on every run by a differential correspondence run (model evaluated by vm_compute inside coqc) plus a direct property oracle on the implementation"}],
    "checks": checks,
    "notes": "See DESIGN.md. ./check <id> --tier quick|thorough; VERIF_REPO overrides the repository path (default /repo); known_findings.json is read-only at run time.",
    "not_applicable": na,
}
json.dump(m, open(os.path.join(V, "MANIFEST.json"), "w"), indent=1)
# merge staged known-findings files into the single committed file
kd = os.path.join(V, "known_findings.d")
kf = os.path.join(V, "known_findings.json")
main = json.load(open(kf))
if os.path.isdir(kd):
    for fn in sorted(os.listdir(kd)):
        if fn.endswith(".json"):
            for e in json.load(open(os.path.join(kd, fn))).get("findings", []):
                if not any(x["property"] == e["property"] and x["sig"] == e["sig"] for x in main["findings"]):
                    main["findings"].append(e)
            os.unlink(os.path.join(kd, fn))
    json.dump(main, open(kf, "w"), indent=1)
print("checks:", [c["property_id"] for c in checks], "not_applicable:", len(na))
