#!/usr/bin/env python3
"""Record every `fix:` commit of /repo in known_findings.json as a `fixed` entry (suppresses nothing)."""
import glob, json, os, re, subprocess
V = os.path.dirname(os.path.dirname(os.path.abspath(__file__)))
log = subprocess.run(["git", "-C", "/repo", "log", "--format=%h\t%s", "da11df3..HEAD"], capture_output=True, text=True).stdout
commits = [l.split("\t", 1) for l in log.strip().splitlines()]
kf = os.path.join(V, "known_findings.json")
d = json.load(open(kf))
by_subject = {}
for md in glob.glob(os.path.join(V, "fixes", "*.md")):
    subj = open(md).readline().strip().lstrip("# ").strip()
    if not subj.startswith("fix:"):
        subj = "fix: " + subj
    by_subject[subj] = os.path.basename(md)[:-3]
for h, s in commits:
    name = by_subject.get(s)
    if name is None and "BCP decode" in s:
        name = "C19-percent-decoded-twice"
    if name is None:
        print("unmatched commit", h, s); continue
    pid, slug = name.split("-", 1)
    what = "fixed: property=%s %s %s" % (pid, h, s[5:])
    ent = [f for f in d["findings"] if f["property"] == pid and f["status"] == "fixed" and (f.get("commit") in (h, None, "PENDING") or f["sig"] == slug or str(f.get("commit", "")).startswith("PENDING"))]
    if ent:
        ent[0].update({"commit": h, "what": what})
    else:
        d["findings"].append({"property": pid, "status": "fixed", "commit": h, "sig": slug, "what": what})
json.dump(d, open(kf, "w"), indent=1)
print(len(commits), "fix commits;", sum(1 for f in d["findings"] if f["status"] == "fixed"), "fixed entries;",
      sum(1 for f in d["findings"] if f["status"] == "known"), "known entries")
