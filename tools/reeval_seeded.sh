#!/bin/bash
# tools/reeval_seeded.sh [Cxx ...] — run the CURRENT quick check of each property on each of its seeded mutants
# (seeded/Cxx/m*/patch.diff) and write seeded/Cxx/status.txt: one line per mutant "Cxx mN caught|tie-only|missed :: <summary line>".
# Properties run in parallel (4 at a time); the mutants of one property run one after the other.
cd /verif
PIDS="$@"
[ -z "$PIDS" ] && PIDS=$(ls seeded)
one() {
  P=$1
  : > seeded/$P/status.txt.new
  for d in seeded/$P/m*; do
    m=$(basename $d)
    [ -f $d/patch.diff ] || continue
    out=$(VERIF_JOBS=4 tools/try_mutant.sh $P $d/patch.diff 2>&1)
    nv=$(echo "$out" | grep -c '^VIOLATION')
    nn=$(echo "$out" | grep '^VIOLATION' | grep -c 'no-failing-input-found')
    if [ "$nv" = 0 ]; then st=missed; elif [ "$nv" = "$nn" ]; then st=tie-only; else st=caught; fi
    echo "$P $m $st :: $(echo "$out" | grep 'tier=' | tail -1 | cut -c1-200)" >> seeded/$P/status.txt.new
  done
  mv seeded/$P/status.txt.new seeded/$P/status.txt
  cat seeded/$P/status.txt
}
export -f one
echo $PIDS | tr ' ' '\n' | xargs -P 4 -I{} bash -c 'one {}'
