#!/bin/bash
# tools/confirm_mutant.sh <dir with patch.diff, demo.py> [pytest files...]
# Confirms: demo passes on clean HEAD, fails with the patch; the given test files pass with the patch.
D="$(readlink -f "$1")"; shift
WT="/tmp/wt_confirm_$$"
git -C /repo worktree add -f "$WT" HEAD >/dev/null 2>&1 || exit 2
cd "$WT"
run_demo() { if grep -q "def test_\|unittest" "$D/demo.py"; then PYTHONPATH="$WT" timeout 600 /venv/bin/python -m pytest -q -p no:cacheprovider "$D/demo.py" >/tmp/demo_$$.log 2>&1; else PYTHONPATH="$WT" timeout 600 /venv/bin/python "$D/demo.py" >/tmp/demo_$$.log 2>&1; fi; echo $?; }
c=$(run_demo); echo "demo on clean tree: exit $c"
git apply "$D/patch.diff" || { echo "patch does not apply"; git -C /repo worktree remove --force "$WT"; exit 2; }
m=$(run_demo); echo "demo with patch: exit $m"; tail -3 /tmp/demo_$$.log
t=0
if [ $# -gt 0 ]; then
  DS=""; for f in "$@"; do DS="$DS --deselect $f::test_config --deselect $f::test_config_directory"; done
  PYTHONPATH="$WT" timeout 3000 /venv/bin/python -m pytest -q -p no:cacheprovider -n 8 $DS "$@" 2>&1 | tail -2; t=${PIPESTATUS[0]}; fi
echo "tests with patch: exit $t"
git -C /repo worktree remove --force "$WT"; git -C /repo worktree prune; rm -f /tmp/demo_$$.log
[ "$c" = 0 ] && [ "$m" != 0 ] && [ "$t" = 0 ]
