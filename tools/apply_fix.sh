#!/bin/bash
# tools/apply_fix.sh <fixes/Cxx-slug.patch> [test files...] : apply to /repo as one "fix:" commit (message from the .md)
P="$(readlink -f "$1")"; shift
MD="${P%.patch}.md"
cd /repo || exit 2
git diff --quiet || { echo "/repo has uncommitted changes"; exit 2; }
git apply --check "$P" || { echo "patch does not apply"; exit 2; }
git apply "$P"
if [ $# -gt 0 ]; then
  PYTHONPATH=/repo /venv/bin/python -m pytest -q -p no:cacheprovider -n 8 "$@" 2>&1 | tail -2
fi
if [ -f "$MD" ]; then MSG="$(sed -e 's/^# *//' "$MD")"; else echo "no .md"; git checkout -- .; exit 2; fi
case "$MSG" in fix:*) ;; *) MSG="fix: $MSG";; esac
git commit -qam "$MSG" && git log --oneline | head -1
