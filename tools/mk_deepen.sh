#!/bin/bash
# tools/mk_deepen.sh <Cxx> <items-file>  -> /tmp/dprompts/Cxx.txt  (prompt for a strengthening builder)
P=$1; ITEMS=$2; mkdir -p /tmp/dprompts
python3 - "$P" "$ITEMS" <<'PY'
import sys
p, items = sys.argv[1], open(sys.argv[2]).read()
t = open('/verif/tools/deepen_prompt.txt').read()
t = t.replace('__PID__', p).replace('__pid__', p.lower()).replace('__ITEMS__', items)
open('/tmp/dprompts/%s.txt' % p, 'w').write(t)
PY
echo /tmp/dprompts/$P.txt
