#!/bin/bash
# tools/eval_mutants.sh <Cxx> [also-check Cyy ...] -- test files...   : confirm + run the check(s) on every /tmp/mutants_<Cxx>/m*
PID="$1"; shift
ALSO=""
while [ $# -gt 0 ] && [ "$1" != "--" ]; do ALSO="$ALSO $1"; shift; done
shift
OUT=/tmp/mutants_$PID/summary.txt; : > $OUT
for d in /tmp/mutants_$PID/m*; do
  m=$(basename $d)
  c=$(/verif/tools/confirm_mutant.sh $d "$@" 2>&1 | grep "exit" | tr '\n' ' ')
  echo "$PID $m confirm: $c" >> $OUT
  for q in $PID $ALSO; do
    r=$(/verif/tools/try_mutant.sh $q $d/patch.diff 2>&1 | grep -v "KNOWN\|pkg_res" | grep "VIOLATION\|tier=" | cut -c1-160 | tr '\n' '|')
    echo "$PID $m check $q: $r" >> $OUT
    mkdir -p /verif/seeded/$PID/$m; cp $d/patch.diff $d/demo.py $d/meta.json /verif/seeded/$PID/$m/ 2>/dev/null
    # keep one replay per caught mutant as an example
  done
done
cat $OUT
