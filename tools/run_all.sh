#!/bin/bash
# tools/run_all.sh [tier] — run every registered check on /repo, one line per property.
TIER="${1:-quick}"
cd /verif
for pid in $(python3 -c "import json;print(' '.join(c['property_id'] for c in json.load(open('MANIFEST.json'))['checks']))"); do
  s=$(date +%s)
  out=$(./check $pid --tier $TIER 2>&1); rc=$?
  e=$(date +%s)
  echo "$pid rc=$rc $((e-s))s :: $(echo "$out" | grep -c '^KNOWN-FINDING') known, $(echo "$out" | grep -c '^VIOLATION') violations :: $(echo "$out" | tail -1 | cut -c1-200)"
  echo "$out" | grep '^VIOLATION'
done
