#!/usr/bin/env python3
"""Regenerate section 8 of DESIGN.md (integrated status per property) from the tree:
theorem names (coq/Cxx/Props.v), findings (known_findings.json), seeded changes (seeded/Cxx/*)."""
import glob
import json
import os
import re

V = os.path.dirname(os.path.dirname(os.path.abspath(__file__)))
SCOPE = {
 "C01": "H. `add_handler` (priority + stable insert), `remove_handler_by_key`, `remove_handler(method)`, `replace_handler`, `_post` incl. fast path, `_run_handlers` (snapshot, kwargs merge, condition, boolean abort, relay), `_process_event`, `process_event_queue` (queue stack + LIFO callbacks) with handlers as scripts; specs `dfs`/`drain`. Four real posting contexts (direct, delay callback, untimed and timed switch handler). Not modelled: `_min_priority`, BCP monitor branch, handler exceptions; `fuel_sufficient` not proved (guard `oof = false`, checked per case).",
 "C02": "H. Small-step machine over the asyncio ready FIFO: `_post`, `process_event_queue`, `_process_queue_event`, `_run_handlers_sequential` as pc machine, `QueuedEvent.wait/clear`, async-handler adapter incl. cancelled coroutines, handler kwargs/registered queue/conditions, relay and boolean folds, `Mode.start` with `use_wait_queue` and repeated start requests. Model = fixed code. Full exactly-once theorem only as `_partial` (uniqueness of post sequence numbers across containers not proved; oracle + correspondence check it).",
 "C03": "H. One switch of `switch_controller.py` with integer-microsecond time: NC inversion, duplicates, `last_change`, untimed/timed registries, deadline table with one wake-up handle, catch-up, removal, re-entrant callbacks, mute/unmute, Switch device events and `ignore_window_ms` recycle. Model = fixed code. History-level `timed_iff_held` kept as comment (per-step theorems proved; wake-up lemma + induction over histories missing; oracle covers it).",
 "C04": "H, ball ledger (31 labels), not a transcription of the coroutines. Proved: bookkeeping layer for all traces. Validated by sampled simulator runs only: that the real coroutines emit only accepted traces and the debounce layer. Not generated: mechanical/player-controlled ejects, jam switches, ball search, several playfields.",
 "C05": "H. Routing functions (`find_path_to_target`, `find_one_available_ball`, `_setup_or_queue_eject_to_target`) compared pointwise on generated acyclic graphs; eject-attempt automaton (16 phases) accepting per-device projections of simulated runs with fault sequences. Liveness only at model level (`_partial`); `queue_reserved_fifo` not done.",
 "C06": "H. `Game._run` and callees as pc machine (18 lifecycle posts + WaitBall/WaitPlayer/Done), env ops at suspension points incl. held `player_adding` queues. Model = fixed code (4 fixes). Oracle-only: ball-ends-iff, game ends after turn (n, balls_per_game), extra balls played = awarded.",
 "C07": "H. Mode phases Idle/Starting/Active/Stopping/Winding, `active_modes` sort, one registry list with classes (event handlers, player keys, switch handlers, mode delays, timer, logic-block delays); queue completions are ops of the history (bus not modelled: C01/C02). `fx` flag selects fixed/unfixed code.",
 "C08": "T + H. `Driver.get_and_verify_*` translated from `driver.py` by an `ast` translator on every run (chained comparisons literal); call-site scan of `hw_driver.(pulse|enable|timed_enable)`; hand model of pulse/enable/timed_enable/disable/_pulse_now/_enable_now, rule settings, and the `timed_disable`/`enable_limit_reached` delays. Values: None/int/float as exact rationals + NaN. Not modelled: PSU timing, platform drivers below the interface.",
 "C09": "H. Light stack ops, `get_color` with blend truncation, `_get_color_and_target_time`, `_schedule_update` suppression rules, channel mapping (RGB, W, RGBW duck_rgb), software/direct fade channel with one pending task, brightness correction factor per tick. Batch system, gamma/whitepoint profiles: oracle only. Model = fixed code.",
 "C10": "H + T. Virtual platform rule table, flipper (single/dual wound, EOS, software repulse), autofire/kickback (delay, timeout protection), `PlatformController.set_*_rule/clear_hw_rule`, default event wiring translated from `config_spec.yaml`. Model = fixed code. Tilt/real game flow: being added as an oracle suite.",
 "C11": "H. `Player.__setattr__/__getattr__` and events, persisted logic blocks, shots (enable flag + profile state), variable_player, hand-over at ball end / extra ball / game end / add player. Achievements and timers: oracle-only `ext` suite.",
 "C12": "T + H. `string_to_ms/secs` translated on every run; binary64 as exact rationals with `rnd53` (relative-error lemma proved); 20 validators, `validate_config_item` (single/list/set/dict/event_handler), unknown-key check, `build_spec` + lru_cache as explicit store. Not modelled: template_*, color*, gain, subconfig, non-ASCII strings (oracle only).",
 "C13": "H. `DelayManager` (table + live timer handles, re-entrant callbacks, observed firing order validated for legality), `PeriodicTask`, timer device (being extended). Model = fixed code.",
 "C14": "T + H. CRC8 table translated from `opp_rs232_intf.py`; OPP `_parse_msg` loop + byte automaton, OPP input/matrix state; FAST/PKONE delimiter readers; FAST Neuron `SA:`/`-L:`/`/L:` switch reports; FAST writer flow control as found (`fixed=false`) and a candidate repair (`fixed=true`, not applicable: breaks two existing tests).",
 "C15": "H. Writer thread as 13-pc machine, shared flags, disk {file,temp} with partial contents, schedule = op list incl. Crash/IoError; machine-var persistence/expiry; `FileManager.save` through the real ruamel dumper (`fsave`). Real thread lock-stepped by intercepting sleep/Event/deepcopy/os.replace/open. Model = fixed code. Not modelled: fsync/power loss, managers racing on `is_busy` from different OS threads.",
 "C16": "T + H. Operator tables translated from `placeholder_manager.py`; `py_eval` (reference) vs `tmpl_eval` (MPF's walk) over None/bool/int/str; subscriptions and the re-evaluate loop over a store of machine vars, settings (incl. indirect `machine_var`), player vars, device attributes. Floats, tuples, subscripts: oracle only. Model = fixed code.",
 "C17": "H. `RunningShow` start/step/loop/sync, stop/pause/resume/advance/step_back/update, ownership part of the light stack, multi-show world. show_player instances and priorities: oracle-only suites. Model = fixed code.",
 "C18": "H. Machine-level Counter/Accrual/Sequence with window and timeout delays, all control ops, event trace. Mode-level blocks and persistence belong to C07/C11.",
 "C19": "H. Byte-level `quote/unquote/parse_qs/urlsplit/urlunparse`, encode/decode, reader as byte-at-a-time machine, `_receive_loop` dispatch order. utf-8, float text, JSON: CPython, data to the model.",
 "C20": "H. Integer model (1/8-unit ticks): credit units, pricing tiers, cap, coin/service/credit events, start gate incl. bursts of presses, expiry delays, free/credit play toggles, audits. Model = fixed code. Inexact binary prices, reboot persistence: not modelled.",
}


def module_meta(pid):
    """LEVEL_TEXT / LEVEL_NOTE / RULE of harness/props/cxx.py (kept truthful by whoever extends the check)."""
    import ast
    f = os.path.join(V, "harness", "props", pid.lower() + ".py")
    ns = {}
    for node in ast.parse(open(f).read()).body:
        if isinstance(node, ast.Assign) and isinstance(node.targets[0], ast.Name) and \
                node.targets[0].id in ("LEVEL_TEXT", "LEVEL_NOTE", "RULE"):
            try:
                ns[node.targets[0].id] = ast.literal_eval(node.value)
            except Exception:
                try:
                    ns[node.targets[0].id] = eval(compile(ast.Expression(node.value), f, "eval"), {})
                except Exception:
                    pass
    return ns


def theorems(pid):
    txt = re.sub(r"\(\*.*?\*\)", "", open(os.path.join(V, "coq", pid, "Props.v")).read(), flags=re.S)
    return re.findall(r"^\s*(?:Theorem|Lemma|Corollary)\s+([A-Za-z0-9_']+)", txt, flags=re.M)


def seeded(pid):
    rows = []
    d = os.path.join(V, "seeded", pid)
    if not os.path.isdir(d):
        return rows
    summ = {}
    st = os.path.join(d, "status.txt")
    if os.path.exists(st):
        for line in open(st):
            m = re.match(r"(C\d+) (m\d+) (?:\(check (C\d+)\) )?(caught|tie-only|missed)", line)
            if m:
                q = m.group(3) or pid
                word = {"caught": "caught", "tie-only": "caught (tie only, no failing input found)", "missed": "MISSED"}[m.group(4)]
                summ.setdefault(m.group(2), []).append((pid, True, False, "%s: %s" % (q, word)))
    sp = os.path.join(d, "summary.txt") if not summ else os.path.join(d, "no-such-file")
    if os.path.exists(sp):
        for line in open(sp):
            m = re.match(r"(C\d+) (m\d+)\b.*?check (C\d+): (.*)", line)
            if m:
                caught = "VIOLATION" in m.group(4)
                nf = "no-failing-input-found" in m.group(4) and m.group(4).count("VIOLATION") == m.group(4).count("no-failing-input-found")
                summ.setdefault(m.group(2), []).append((m.group(3), caught, nf))
            else:
                m = re.match(r"(C\d+) (m\d+) \((.*?)\): (.*)", line)
                if m:
                    summ.setdefault(m.group(2), []).append((pid, "caught" in m.group(4).lower(), False, m.group(4)))
    for md in sorted(glob.glob(os.path.join(d, "m*", "meta.json"))):
        m = os.path.basename(os.path.dirname(md))
        try:
            meta = json.load(open(md))
        except Exception:
            meta = {}
        res = []
        for t in summ.get(m, []):
            if len(t) == 4:
                res.append(t[3])
            else:
                res.append("%s: %s" % (t[0], ("caught (tie only)" if t[2] else "caught") if t[1] else "missed"))
        note = meta.get("later", "")
        rows.append((m, (meta.get("summary") or meta.get("what") or "")[:160].replace("\n", " "), "; ".join(res) + (" — " + note if note else "")))
    return rows


def main():
    kf = json.load(open(os.path.join(V, "known_findings.json")))["findings"]
    out = ["## 8. Integrated status per property (generated by tools/mkdesign8.py)\n",
           "Every property has a Coq project `coq/Cxx` (Model, Lemmas, Props), a module `harness/props/cxx.py`, notes in "
           "`coq/Cxx/NOTES.md` (scope, deviations from section 3, self-tests). H = hand-written model tied by correspondence, "
           "T = part of the model regenerated from the source on every run. \"Model = fixed code\" means the model describes "
           "/repo after the `fix:` commits listed; the unfixed behaviour is kept as a `_refuted` theorem with a `vm_compute` witness.\n",
           "Seeded changes (`seeded/Cxx/m*`: patch.diff, demo.py, meta.json) were written by independent sub-agents that saw only "
           "the property text and a scratch worktree; each was confirmed in a scratch worktree (round 1 m1-m4: `tools/confirm_mutant.sh`, related mpf "
           "tests; round 2 m5-m8: `tools/eval2.sh`, demo passes on HEAD and fails with the patch, the whole pinned suite of "
           "/root/.vp/BASELINE.json still passes with the patch) and run through `tools/try_mutant.sh` (quick tier of the CURRENT "
           "check; `tools/reeval_seeded.sh` refreshes `seeded/Cxx/status.txt`). 'tie only' = the check reported VIOLATION ... "
           "no-failing-input-found (correspondence or proof broke, the oracle found no input).\n"]
    for i in range(1, 21):
        pid = "C%02d" % i
        th = theorems(pid)
        out.append("### %s\n" % pid)
        mm = module_meta(pid)
        out.append("*What is proved and tied (from harness/props/%s.py).* %s\n" % (pid.lower(), mm.get("LEVEL_TEXT", SCOPE[pid])))
        if mm.get("LEVEL_NOTE"):
            out.append("*Trusted / modelled rather than verified.* " + mm["LEVEL_NOTE"] + "\n")
        out.append("*Theorems (%d, all closed under the global context).* %s\n" % (len(th), ", ".join("`%s`" % t for t in th)))
        fx = [f for f in kf if f["property"] == pid and f["status"] == "fixed"]
        kn = [f for f in kf if f["property"] == pid and f["status"] == "known"]
        if fx:
            out.append("*Repaired (`fix:` commits in /repo).* " + "; ".join("%s `%s`" % (f.get("commit", "?"), f["sig"]) for f in fx) + "\n")
        if kn:
            out.append("*Known findings (reported as KNOWN-FINDING, exit 0).*\n")
            for f in kn:
                out.append("- `%s`: %s\n" % (f["sig"], f["what"][:400]))
        rows = seeded(pid)
        if rows:
            out.append("*Seeded changes.*\n")
            for m, s, r in rows:
                out.append("- %s — %s — **%s**\n" % (m, s, r))
        out.append("")
    p = os.path.join(V, "DESIGN.md")
    s = open(p).read()
    k = s.find("## 8. Integrated status per property")
    if k >= 0:
        s = s[:k]
    s = s.rstrip() + "\n\n" + "\n".join(out)
    open(p, "w").write(s)
    print("section 8 written:", len(out), "blocks")


if __name__ == "__main__":
    main()
