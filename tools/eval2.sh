#!/bin/bash
# tools/eval2.sh <Cxx> [srcdir] [also Cyy ...]: confirm and evaluate the independent mutants in srcdir (default /tmp/mutants2_<Cxx>/m*):
#   demo passes on clean HEAD, fails with the patch; the pinned mpf suite (tools/baseline.sh) still passes with the patch;
#   then the quick check of Cxx (and of the also-properties) runs against the patched worktree.
# Confirmed mutants are stored as seeded/Cxx/m<k> (k continues the numbering) with a line in seeded/Cxx/status.txt.
P=$1; SRC=${2:-/tmp/mutants2_$P}; shift; shift; ALSO="$@"
cd /verif
k=$(ls -d seeded/$P/m* 2>/dev/null | sed 's/.*\/m//' | sort -n | tail -1); k=${k:-0}
for d in $SRC/m*; do
  [ -f $d/patch.diff ] || continue
  WT=/tmp/wt_ev2_${P}_$$
  git -C /repo worktree add -f $WT HEAD >/dev/null 2>&1 || { echo "worktree failed"; exit 2; }
  rundemo() { local rc; if grep -q "def test_\|unittest" "$d/demo.py"; then (cd $WT && PYTHONPATH=$WT timeout 900 /venv/bin/python -m pytest -q -p no:cacheprovider "$d/demo.py" >/tmp/ev2demo_$$.log 2>&1); rc=$?; if [ $rc = 5 ]; then (cd $WT && PYTHONPATH=$WT timeout 900 /venv/bin/python "$d/demo.py" >/tmp/ev2demo_$$.log 2>&1); rc=$?; fi; else (cd $WT && PYTHONPATH=$WT timeout 900 /venv/bin/python "$d/demo.py" >/tmp/ev2demo_$$.log 2>&1); rc=$?; fi; echo $rc; }
  c=$(rundemo)
  if ! (cd $WT && git apply $d/patch.diff); then echo "$P $(basename $d): patch does not apply" ; git -C /repo worktree remove --force $WT; continue; fi
  m=$(rundemo)
  b=$(BASELINE_N=4 tools/baseline.sh $WT 2>&1 | grep stable_pass)
  git -C /repo worktree remove --force $WT; git -C /repo worktree prune
  ok=no; [ "$c" = 0 ] && [ "$m" != 0 ] && echo "$b" | grep -q "missing=0" && ok=yes
  if [ $ok != yes ]; then echo "$P $(basename $d) NOT CONFIRMED: demo clean=$c patched=$m baseline: $b"; continue; fi
  k=$((k+1)); dst=seeded/$P/m$k; mkdir -p $dst; cp $d/patch.diff $d/demo.py $d/meta.json $dst/
  python3 - $dst "$c" "$m" "$b" <<'PY'
import json, sys
p = sys.argv[1] + '/meta.json'
try: m = json.load(open(p))
except Exception: m = {}
m['confirmed'] = {'demo_clean_exit': sys.argv[2], 'demo_patched_exit': sys.argv[3], 'pinned_suite_with_patch': sys.argv[4],
                  'by': 'tools/eval2.sh (scratch worktree of /repo HEAD, removed afterwards)'}
m['round'] = int(__import__('os').environ.get('ROUND', '2'))
json.dump(m, open(p, 'w'), indent=1)
PY
  for q in $P $ALSO; do
    out=$(VERIF_JOBS=4 tools/try_mutant.sh $q $dst/patch.diff 2>&1)
    nv=$(echo "$out" | grep -c '^VIOLATION'); nn=$(echo "$out" | grep '^VIOLATION' | grep -c 'no-failing-input-found')
    if [ "$nv" = 0 ]; then st=missed; elif [ "$nv" = "$nn" ]; then st=tie-only; else st=caught; fi
    line="$P m$k $st"; [ $q != $P ] && line="$P m$k (check $q) $st"
    echo "$line :: $(echo "$out" | grep 'tier=' | tail -1 | cut -c1-200)" | tee -a seeded/$P/status.txt
  done
done
