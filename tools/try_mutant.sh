#!/bin/bash
# tools/try_mutant.sh <Cxx> <patch.diff> [tier]  — apply a patch to a scratch worktree of /repo and run ./check Cxx on it.
# Prints the last lines of the check; exit code = the check's exit code.  The worktree is removed afterwards.
PID="$1"; PATCH="$(readlink -f "$2")"; TIER="${3:-quick}"
WT="/tmp/wt_try_${PID}_$$"
git -C /repo worktree add -f "$WT" HEAD >/dev/null 2>&1 || exit 2
( cd "$WT" && { git apply "$PATCH" 2>/dev/null || patch -p1 -s -F3 --no-backup-if-mismatch < "$PATCH"; } ) || { git -C /repo worktree remove --force "$WT"; echo "patch does not apply"; exit 2; }
cd /verif
# evidence/ must keep describing /repo: run on a copy of the evidence file name
cp -f evidence/$PID.json /tmp/ev_$PID_$$.json 2>/dev/null
VERIF_REPO="$WT" ./check "$PID" --tier "$TIER" 2>&1 | tail -6 | cut -c1-400
rc=${PIPESTATUS[0]}
cp -f /tmp/ev_$PID_$$.json evidence/$PID.json 2>/dev/null; rm -f /tmp/ev_$PID_$$.json
git -C /repo worktree remove --force "$WT"; git -C /repo worktree prune
exit $rc
