(* C19/Session.v — histories: send -> wire -> any chunking -> read_message -> _process_command -> handler.
   Also: the exact set of parameter dictionaries that round-trip (the guards of roundtrip_partial are necessary). *)
From Common Require Import Prelude.
From C19 Require Import Model Lemmas Reader.
Open Scope Z_scope.

(* ---------- cutting a stream into reads ---------- *)
Lemma concat_cut lens s : concat (cut lens s) = s.
Proof.
  revert s. induction lens as [|n r IH]; intros s; cbn [cut concat].
  - apply app_nil_r.
  - rewrite IH. apply firstn_skipn.
Qed.

(* ---------- an encoded line does not contain the payload marker ---------- *)
Definition s_byteskey := [98;121;116;101;115].      (* "bytes" *)

Definition no_marker_keys (kw : list (bytes * value)) : Prop :=
  Forall (fun kv : bytes * value => fst kv <> s_byteskey) (tl kw).

Definition no38 (l : bytes) : Prop := forallb (fun c => negb (c =? 38)) l = true.

Lemma find_marker_cons_no38 c t : (c =? 38) = false -> find_marker t = None -> find_marker (c :: t) = None.
Proof.
  intros H F. cbn [find_marker]. cbn [s_marker zs_prefixb]. rewrite Z.eqb_sym, H. cbn [andb].
  rewrite F. reflexivity.
Qed.

Lemma find_marker_app_no38 a b : no38 a -> find_marker b = None -> find_marker (a ++ b) = None.
Proof.
  unfold no38. induction a as [|c a IH]; intros Ha Hb; [exact Hb|].
  cbn [forallb] in Ha. apply andb_true_iff in Ha as [H1 H2]. apply negb_true_iff in H1.
  cbn [app]. apply find_marker_cons_no38; [exact H1|]. apply IH; assumption.
Qed.

Lemma quote_no61 k : Forall is_byte k -> forallb (fun c => negb (c =? 61)) (quote k) = true.
Proof.
  intros Hk. eapply forallb_impl; [|apply quote_qsafe, Hk]. intros x Hx.
  apply negb_true_iff. apply qsafe_not with (x := 61) in Hx; [exact Hx|reflexivity].
Qed.

(* "&" followed by an encoded pair is the marker only when the parameter is called "bytes" *)
Lemma amp_pair_not_marker kv rest :
  pair_ok kv -> fst kv <> s_byteskey -> zs_prefixb s_marker (38 :: encode_pair kv ++ rest) = false.
Proof.
  intros [Hk _] Hne.
  destruct (zs_prefixb s_marker (38 :: encode_pair kv ++ rest)) eqn:E; [|reflexivity].
  exfalso. apply Hne.
  change s_marker with (38 :: (s_byteskey ++ [61])) in E. cbn [zs_prefixb] in E.
  rewrite Z.eqb_refl in E. cbn [andb] in E.
  unfold encode_pair in E. rewrite <- !app_assoc in E. cbn [app] in E.
  apply (prefix_eq_noeq s_byteskey) in E; [| reflexivity | apply quote_no61, Hk].
  rewrite <- (unquote_quote (fst kv) Hk), E. reflexivity.
Qed.

Lemma find_marker_amp_pair kv rest :
  pair_ok kv -> fst kv <> s_byteskey -> find_marker rest = None ->
  find_marker (38 :: encode_pair kv ++ rest) = None.
Proof.
  intros Hp Hne Hr. cbn [find_marker]. rewrite (amp_pair_not_marker kv rest Hp Hne).
  rewrite find_marker_app_no38; [reflexivity | apply encode_pair_noamp, Hp | exact Hr].
Qed.

Lemma find_marker_amp_join kws :
  Forall pair_ok kws -> Forall (fun kv : bytes * value => fst kv <> s_byteskey) kws -> kws <> [] ->
  find_marker (38 :: join 38 (map encode_pair kws)) = None.
Proof.
  induction kws as [|kv r IH]; intros Hp Hn NE; [congruence|].
  inversion Hp as [|? ? Hp1 Hp2]; subst. inversion Hn as [|? ? Hn1 Hn2]; subst.
  destruct r as [|kv2 r].
  - cbn [map join]. rewrite <- (app_nil_r (encode_pair kv)).
    apply find_marker_amp_pair; [assumption|assumption|reflexivity].
  - change (join 38 (map encode_pair (kv :: kv2 :: r)))
      with (encode_pair kv ++ 38 :: join 38 (map encode_pair (kv2 :: r))).
    apply find_marker_amp_pair; [assumption|assumption|].
    apply IH; [assumption|assumption|discriminate].
Qed.

Lemma cmd_no38 cmd : forallb cmd_char cmd = true -> no38 cmd.
Proof.
  intros Hc. unfold no38. eapply forallb_impl; [|exact Hc]. intros x Hx.
  apply cmd_char_not with (x := 38); [exact Hx|reflexivity].
Qed.

Theorem encode_no_marker_l cmd kw :
  forallb cmd_char cmd = true -> Forall pair_ok kw -> no_marker_keys kw ->
  find_marker (encode cmd kw) = None.
Proof.
  intros Hc Hp Hn. unfold encode, unparse. rewrite encode_query_join.
  destruct kw as [|kv r].
  - cbn [map join is_nil]. rewrite <- (app_nil_r cmd). apply find_marker_app_no38; [apply cmd_no38, Hc|reflexivity].
  - inversion Hp as [|? ? Hp1 Hp2]; subst. unfold no_marker_keys in Hn. cbn [tl] in Hn.
    assert (Q : find_marker (join 38 (map encode_pair (kv :: r))) = None).
    { destruct r as [|kv2 r].
      - cbn [map join]. rewrite <- (app_nil_r (encode_pair kv)).
        apply find_marker_app_no38; [apply encode_pair_noamp, Hp1|reflexivity].
      - change (join 38 (map encode_pair (kv :: kv2 :: r)))
          with (encode_pair kv ++ 38 :: join 38 (map encode_pair (kv2 :: r))).
        apply find_marker_app_no38; [apply encode_pair_noamp, Hp1|].
        apply find_marker_amp_join; [assumption|assumption|discriminate]. }
    destruct (is_nil (join 38 (map encode_pair (kv :: r)))).
    + rewrite <- (app_nil_r cmd). apply find_marker_app_no38; [apply cmd_no38, Hc|reflexivity].
    + apply find_marker_app_no38; [apply cmd_no38, Hc|]. cbn [app].
      apply find_marker_cons_no38; [reflexivity|exact Q].
Qed.

(* ---------- messages on the wire ---------- *)
Definition to_rmsg (m : smsg) : rmsg := match m with SM c b p => Msg (send_line c b) p end.

Lemma wire_frame m : wire m = frame (to_rmsg m).
Proof. destruct m as [c b [p|]]; reflexivity. Qed.

Lemma flat_map_wire ms : flat_map wire ms = flat_map frame (map to_rmsg ms).
Proof.
  induction ms as [|m ms IH]; [reflexivity|]. cbn [flat_map map]. rewrite wire_frame, IH. reflexivity.
Qed.

Definition flat_ok (fo : bytes -> bool) (kw : list (bytes * value)) : Prop :=
  NoDup (map fst kw) /\
  Forall (fun kv => Forall is_byte (fst kv) /\ value_ok fo (snd kv)) kw /\
  first_key_not_json kw /\ no_marker_keys kw.

(* a message of the guarded domain: exactly the guards of roundtrip_partial plus "no parameter but the first is
   called bytes"; JSON form: the text produced by json.dumps is data: no raw newline, no marker *)
Definition sm_ok (fo : bytes -> bool) (m : smsg) : Prop :=
  match m with
  | SM cmd (SFlat kw) _ => forallb cmd_char cmd = true /\ flat_ok fo kw
  | SM cmd (SJson t) _ => forallb cmd_char cmd = true /\ no10 t /\ no38 t
  end.

Definition expected (m : smsg) : delivered :=
  match m with
  | SM cmd (SFlat kw) p => Dl (DKw cmd (map (fun kv => (fst kv, DVal (snd kv))) kw)) (attach p)
  | SM cmd (SJson t) p => Dl (DJson cmd t) (attach p)
  end.

Lemma value_ok_pair_ok fo kw :
  Forall (fun kv => Forall is_byte (fst kv) /\ value_ok fo (snd kv)) kw -> Forall pair_ok kw.
Proof.
  intros H. eapply Forall_impl; [|exact H]. intros [k v] [Hk Hv]. split; [exact Hk|].
  cbn [snd] in *. destruct v; cbn in Hv |- *; tauto.
Qed.

Lemma notin_no10 l : ~ In 10 l -> no10 l.
Proof.
  unfold no10. induction l as [|c l IH]; intros H; [reflexivity|]. cbn [forallb].
  apply andb_true_iff; split.
  - apply negb_true_iff, Z.eqb_neq. intros ->. apply H. left; reflexivity.
  - apply IH. intros Hin. apply H. right; exact Hin.
Qed.

Lemma cmd_no10 cmd : forallb cmd_char cmd = true -> no10 cmd.
Proof.
  intros Hc. unfold no10. eapply forallb_impl; [|exact Hc]. intros x Hx.
  apply cmd_char_not with (x := 10); [exact Hx|reflexivity].
Qed.

Lemma sm_ok_wf fo m : sm_ok fo m -> wf_msg (to_rmsg m).
Proof.
  destruct m as [cmd [kw|t] p]; cbn [sm_ok to_rmsg wf_msg send_line].
  - intros [Hc (ND & Hv & NJ & NM)]. pose proof (value_ok_pair_ok _ _ Hv) as Hp. split.
    + apply notin_no10, line_is_single_l; assumption.
    + apply encode_no_marker_l; assumption.
  - intros [Hc [H10 H38]]. unfold encode_json, unparse. cbn [s_json app is_nil]. split.
    + apply no10_app; [apply cmd_no10, Hc|]. unfold no10 in *. cbn [forallb]. cbn. exact H10.
    + apply find_marker_app_no38; [apply cmd_no38, Hc|].
      apply find_marker_cons_no38; [reflexivity|].
      change (106 :: 115 :: 111 :: 110 :: 61 :: t) with ([106;115;111;110;61] ++ t).
      apply find_marker_app_no38; [reflexivity|]. apply find_marker_no38. exact H38.
Qed.

Lemma has_err_dvals cmd (kw : list (bytes * value)) :
  has_err (DKw cmd (map (fun kv => (fst kv, DVal (snd kv))) kw)) = false.
Proof. cbn [has_err]. induction kw as [|kv kw IH]; [reflexivity|]. cbn. exact IH. Qed.

Lemma decode_sm fo m :
  sm_ok fo m -> match to_rmsg m, expected m with Msg line _, Dl d _ => decode fo line = d /\ has_err d = false end.
Proof.
  destruct m as [cmd [kw|t] p]; cbn [sm_ok to_rmsg expected send_line].
  - intros [Hc (ND & Hv & NJ & NM)]. split; [apply roundtrip_partial_l; assumption|apply has_err_dvals].
  - intros [Hc _]. split; [apply json_mode_roundtrip_l; assumption|reflexivity].
Qed.

Lemma process_asyncio fo m : sm_ok fo m -> process fo VAsyncio (to_rmsg m) = PDeliver (expected m).
Proof.
  intros H. pose proof (decode_sm fo m H) as D.
  destruct m as [cmd b p]. cbn [to_rmsg expected] in *. unfold process.
  destruct b as [kw|t]; cbn [expected] in *; destruct D as [D E]; rewrite D, E; reflexivity.
Qed.

Definition sm_cmd (m : smsg) : bytes := match m with SM c _ _ => c end.
Definition not_client_cmd (m : smsg) : Prop := sm_cmd m <> s_hello /\ sm_cmd m <> s_goodbye.

Lemma zs_eqb_false a b : a <> b -> zs_eqb a b = false.
Proof. intros H. destruct (zs_eqb a b) eqn:E; [apply zs_eqb_spec in E; contradiction|reflexivity]. Qed.

Lemma process_mpf fo m :
  sm_ok fo m -> not_client_cmd m -> process fo VMpf (to_rmsg m) = PDeliver (expected m).
Proof.
  intros H [N1 N2]. pose proof (decode_sm fo m H) as D.
  destruct m as [cmd b p]. cbn [to_rmsg expected sm_cmd] in *. unfold process.
  destruct b as [kw|t]; cbn [expected] in *; destruct D as [D E]; rewrite D, E; cbn [decoded_cmd];
    rewrite (zs_eqb_false _ _ N1), (zs_eqb_false _ _ N2); reflexivity.
Qed.

(* BCPClientSocket keeps 'hello' for itself, whatever its parameters *)
Lemma process_mpf_hello fo b p : sm_ok fo (SM s_hello b p) -> process fo VMpf (to_rmsg (SM s_hello b p)) = PConsumed.
Proof.
  intros H. pose proof (decode_sm fo _ H) as D. cbn [to_rmsg expected] in *. unfold process.
  destruct b as [kw|t]; cbn [expected] in *; destruct D as [D E]; rewrite D, E; reflexivity.
Qed.

Lemma deliver_all_ok fo v ms :
  Forall (fun m => process fo v (to_rmsg m) = PDeliver (expected m)) ms ->
  deliver_all fo v (map to_rmsg ms) = (map expected ms, false).
Proof.
  induction 1 as [|m ms Hm Hms IH]; [reflexivity|].
  cbn [map deliver_all]. rewrite Hm, IH. reflexivity.
Qed.

Lemma session_run_framed fo v ms chunks :
  Forall (sm_ok fo) ms -> concat chunks = flat_map wire ms ->
  session_run fo v chunks =
  let '(out, dead) := deliver_all fo v (map to_rmsg ms) in (out, dead || false).
Proof.
  intros Hok E. unfold session_run.
  rewrite (reassembly_in_order_l (map to_rmsg ms) chunks).
  - reflexivity.
  - apply Forall_forall. intros r Hr. apply in_map_iff in Hr as [m [<- Hin]].
    rewrite Forall_forall in Hok. eapply sm_ok_wf, Hok, Hin.
  - rewrite E. apply flat_map_wire.
Qed.

(* THE END-TO-END STATEMENT for a whole history on one connection *)
Theorem session_roundtrip_partial_l fo ms chunks :
  Forall (sm_ok fo) ms -> concat chunks = flat_map wire ms ->
  session_run fo VAsyncio chunks = (map expected ms, false).
Proof.
  intros Hok E. rewrite (session_run_framed fo VAsyncio ms chunks Hok E).
  rewrite deliver_all_ok; [reflexivity|].
  eapply Forall_impl; [|exact Hok]. intros m Hm. apply process_asyncio, Hm.
Qed.

Theorem session_roundtrip_mpf_partial_l fo ms chunks :
  Forall (sm_ok fo) ms -> Forall not_client_cmd ms -> concat chunks = flat_map wire ms ->
  session_run fo VMpf chunks = (map expected ms, false).
Proof.
  intros Hok Hnc E. rewrite (session_run_framed fo VMpf ms chunks Hok E).
  rewrite deliver_all_ok; [reflexivity|].
  apply Forall_forall. intros m Hin. rewrite Forall_forall in Hok, Hnc.
  apply process_mpf; [apply Hok, Hin|apply Hnc, Hin].
Qed.

(* what is delivered for a message is a function of that message alone: no memory between messages *)
Definition deliver1 (fo : bytes -> bool) (m : rmsg) : delivered :=
  match m with Msg line p => Dl (decode fo line) (attach p) end.

Theorem delivery_memoryless_l fo rs :
  forallb (fun m => match m with Msg line _ => negb (has_err (decode fo line)) end) rs = true ->
  deliver_all fo VAsyncio rs = (map (deliver1 fo) rs, false).
Proof.
  induction rs as [|[line p] rs IH]; intros H; [reflexivity|].
  cbn [forallb] in H. apply andb_true_iff in H as [H1 H2]. apply negb_true_iff in H1.
  cbn [deliver_all process map deliver1]. rewrite H1. rewrite IH by exact H2. reflexivity.
Qed.

(* reader -> registered handler / event posted for a trigger *)
Theorem handler_receives_sent_l okf registered in_events ms lens posts :
  let fo := fun t => mem_key t okf in
  Forall (sm_ok fo) ms -> Forall not_client_cmd ms ->
  fst (handler_run (okf, (registered, in_events), ms, lens, posts)) =
  let hs := flat_map (handle registered in_events) (map expected ms) in
  ((filter is_call hs, filter (fun h => negb (is_call h)) hs), false).
Proof.
  intros fo Hok Hnc. unfold handler_run. fold fo.
  rewrite (session_roundtrip_mpf_partial_l fo ms (cut lens (flat_map wire ms)) Hok Hnc (concat_cut _ _)).
  reflexivity.
Qed.

Lemma remove_key_notin k (kw : list (bytes * value)) :
  ~ In k (map fst kw) ->
  remove_key k (map (fun kv => (fst kv, DVal (snd kv))) kw) = map (fun kv => (fst kv, DVal (snd kv))) kw.
Proof.
  unfold remove_key. induction kw as [|[a v] kw IH]; intros H; [reflexivity|].
  cbn [map filter fst snd]. rewrite (zs_eqb_false a k).
  - cbn [negb]. f_equal. apply IH. intros Hin. apply H. right. exact Hin.
  - intros ->. apply H. left. reflexivity.
Qed.

(* a registered command's callback is called with exactly the message that was sent *)
Theorem handle_registered_l registered in_events m :
  sm_cmd m <> s_trigger -> mem_key (sm_cmd m) registered = true ->
  handle registered in_events (expected m) = [HCall (expected m)].
Proof.
  intros NT Hr. destruct m as [cmd [kw|t] p]; cbn [expected handle sm_cmd] in *.
  - rewrite (zs_eqb_false _ _ NT), Hr. reflexivity.
  - rewrite Hr. reflexivity.
Qed.

(* trigger?name=ev&...: the event ev is posted with exactly the other parameters, the payload, and _from_bcp=True *)
Theorem trigger_event_l registered in_events ev kw p :
  mem_key ev in_events = true -> ~ In s_name (map fst kw) ->
  handle registered in_events (expected (SM s_trigger (SFlat ((s_name, VStr ev) :: kw)) p)) =
  [HEvent ev (map (fun kv => (fst kv, DVal (snd kv))) kw ++ [(s_frombcp, DVal (VBool true))]) (attach p)].
Proof.
  intros He Hn. cbn [expected handle map fst snd].
  replace (zs_eqb s_trigger s_trigger) with true by reflexivity.
  cbn [assoc_z]. replace (zs_eqb s_name s_name) with true by reflexivity. rewrite He.
  unfold remove_key at 1. cbn [filter fst]. replace (zs_eqb s_name s_name) with true by reflexivity. cbn [negb].
  fold (remove_key s_name (map (fun kv : bytes * value => (fst kv, DVal (snd kv))) kw)).
  rewrite remove_key_notin by exact Hn. reflexivity.
Qed.

(* the unguarded statement is false: a parameter called "bytes" in second position destroys the framing *)
Definition marker_witness : list smsg :=
  [SM [120] (SFlat [([97], VInt 1); (s_byteskey, VStr [51])]) None;       (* x?a=int:1&bytes=3 *)
   SM [121] (SFlat [([98], VInt 2)]) None].                               (* y?b=int:2 *)

Theorem marker_in_line_refuted_l :
  exists ms,
    Forall (fun m => match m with
                     | SM cmd (SFlat kw) _ =>
                         forallb cmd_char cmd = true /\ NoDup (map fst kw) /\
                         Forall (fun kv => Forall is_byte (fst kv) /\ value_ok all_floats_ok (snd kv)) kw /\
                         first_key_not_json kw
                     | _ => False end) ms /\
    session_run all_floats_ok VAsyncio [flat_map wire ms] <> (map expected ms, false).
Proof.
  exists marker_witness. split.
  - unfold marker_witness. repeat constructor; cbn; try (intuition discriminate); try lia.
  - vm_compute. discriminate.
Qed.

(* ---------- the exact set of dictionaries that round-trip ---------- *)
Definition looks_typed (s : bytes) : bool :=
  zs_prefixb s_int s || zs_prefixb s_float s || zs_eqb (lower_ascii s) s_booltrue
  || zs_eqb (lower_ascii s) s_boolfalse || zs_eqb s s_none.

Lemma looks_typed_unambiguous s : looks_typed s = false <-> str_unambiguous s.
Proof.
  unfold looks_typed, str_unambiguous. rewrite !orb_false_iff. tauto.
Qed.

(* a single string value comes back as the same string exactly when it does not look typed *)
Theorem str_value_roundtrip_iff_l fo s :
  decode_value fo (typed_text (VStr s)) = DVal (VStr s) <-> looks_typed s = false.
Proof.
  cbn [typed_text]. unfold decode_value, looks_typed.
  destruct (zs_prefixb s_int s).
  { cbn [orb]. split; [|discriminate]. destruct (parse_int (skipn 4 s)); discriminate. }
  destruct (zs_prefixb s_float s).
  { cbn [orb]. split; [|discriminate]. destruct (fo (skipn 6 s)); discriminate. }
  destruct (zs_eqb (lower_ascii s) s_booltrue); [cbn [orb]; split; discriminate|].
  destruct (zs_eqb (lower_ascii s) s_boolfalse); [cbn [orb]; split; discriminate|].
  destruct (zs_eqb s s_none); [cbn [orb]; split; discriminate|].
  cbn [orb]. split; reflexivity.
Qed.

Definition no_typed_strings (kw : list (bytes * value)) : Prop :=
  Forall (fun kv : bytes * value => match snd kv with VStr s => looks_typed s = false | _ => True end) kw.

Definition bytes_ok (fo : bytes -> bool) (kw : list (bytes * value)) : Prop :=
  Forall (fun kv : bytes * value =>
            Forall is_byte (fst kv) /\
            match snd kv with VStr s => Forall is_byte s | VFloat t => Forall is_byte t /\ fo t = true | _ => True end) kw.

Lemma bytes_ok_pair_ok fo kw : bytes_ok fo kw -> Forall pair_ok kw.
Proof.
  intros H. eapply Forall_impl; [|exact H]. intros [k v] [Hk Hv]. split; [exact Hk|].
  cbn [snd] in *. destruct v; cbn in Hv |- *; tauto.
Qed.

Lemma decode_query_general fo cmd kw :
  forallb cmd_char cmd = true -> NoDup (map fst kw) -> Forall pair_ok kw -> first_key_not_json kw ->
  decode fo (encode cmd kw) =
  DKw cmd (map (fun kv => (fst kv, decode_value fo (typed_text (snd kv)))) kw).
Proof.
  intros Hc ND Hp NJ. unfold decode, encode, unparse.
  destruct (is_nil (encode_query kw)) eqn:EN.
  - destruct kw as [|kv kw].
    + rewrite strip_scheme_plain by exact Hc. rewrite split_first_none.
      2:{ eapply forallb_impl; [|exact Hc]. intros x Hx. apply cmd_char_not with (x := 63); [exact Hx|reflexivity]. }
      reflexivity.
    + exfalso. rewrite encode_query_join in EN. rewrite join_nonnil in EN; [discriminate|discriminate|].
      apply Forall_forall. intros f Hf. apply in_map_iff in Hf as [x [<- _]]. apply encode_pair_nonnil.
  - cbn [app]. rewrite strip_scheme_query by exact Hc.
    rewrite split_first_app.
    2:{ eapply forallb_impl; [|exact Hc]. intros x Hx. apply cmd_char_not with (x := 63); [exact Hx|reflexivity]. }
    rewrite json_prefix_false by assumption.
    f_equal. unfold parse_qs_first. rewrite parse_qsl_encode by exact Hp.
    rewrite first_values_nodup.
    + rewrite map_map. reflexivity.
    + rewrite map_map. cbn [fst]. exact ND.
    + intros k _ [].
Qed.

Lemma decode_jsonkey fo cmd v kw :
  forallb cmd_char cmd = true -> Forall pair_ok ((s_jsonkey, v) :: kw) ->
  exists t, decode fo (encode cmd ((s_jsonkey, v) :: kw)) = DJson cmd t.
Proof.
  intros Hc Hp. unfold decode, encode, unparse. rewrite encode_query_join. cbn [map].
  destruct (join_head (encode_pair (s_jsonkey, v)) (map encode_pair kw)) as [r ->].
  unfold encode_pair at 1 2. cbn [fst snd].
  change (quote s_jsonkey) with s_jsonkey.
  replace ((s_jsonkey ++ [61] ++ encode_value v) ++ r) with (s_json ++ (encode_value v ++ r))
    by (cbn [s_jsonkey s_json app]; rewrite <- ?app_assoc; reflexivity).
  cbn [s_json app is_nil].
  change (cmd ++ 63 :: 106 :: 115 :: 111 :: 110 :: 61 :: encode_value v ++ r)
    with (cmd ++ 63 :: (s_json ++ (encode_value v ++ r))).
  rewrite strip_scheme_query by exact Hc.
  rewrite split_first_app.
  2:{ eapply forallb_impl; [|exact Hc]. intros x Hx. apply cmd_char_not with (x := 63); [exact Hx|reflexivity]. }
  rewrite zs_prefixb_app. eexists. reflexivity.
Qed.

Lemma map_pointwise {A B} (f g : A -> B) l : map f l = map g l -> Forall (fun x => f x = g x) l.
Proof.
  induction l as [|x l IH]; intros E; [constructor|]. cbn [map] in E. inversion E. constructor; [assumption|].
  apply IH. assumption.
Qed.

(* the guards of roundtrip_partial cannot be narrowed: for well-formed input they are equivalent to
   "decode (encode cmd kw) = (cmd, kw)" *)
Theorem roundtrip_exact_l fo cmd kw :
  forallb cmd_char cmd = true -> NoDup (map fst kw) -> bytes_ok fo kw ->
  (decode fo (encode cmd kw) = DKw cmd (map (fun kv => (fst kv, DVal (snd kv))) kw)
   <-> first_key_not_json kw /\ no_typed_strings kw).
Proof.
  intros Hc ND Hb. pose proof (bytes_ok_pair_ok _ _ Hb) as Hp. split.
  - intros E.
    assert (NJ : first_key_not_json kw).
    { destruct kw as [|[k v] kw]; [exact I|]. cbn [first_key_not_json]. intros ->.
      destruct (decode_jsonkey fo cmd v kw Hc Hp) as [t Ht]. pose proof (eq_trans (eq_sym Ht) E) as X. discriminate X. }
    split; [exact NJ|].
    rewrite (decode_query_general fo cmd kw Hc ND Hp NJ) in E.
    injection E as E. apply map_pointwise in E.
    unfold no_typed_strings. rewrite Forall_forall in *. intros [k v] Hin. cbn [snd].
    specialize (E _ Hin). cbn [fst snd] in E. injection E as E.
    destruct v as [s| | | |]; try exact I. apply str_value_roundtrip_iff_l with (fo := fo). exact E.
  - intros [NJ NT]. apply roundtrip_partial_l; try assumption.
    unfold bytes_ok, no_typed_strings in *. rewrite Forall_forall in *. intros [k v] Hin.
    specialize (Hb _ Hin). specialize (NT _ Hin). cbn [fst snd] in *. destruct Hb as [Hk Hv]. split; [exact Hk|].
    destruct v as [s| |t| |]; cbn [value_ok]; try exact I.
    + split; [exact Hv|]. apply looks_typed_unambiguous, NT.
    + exact Hv.
Qed.

(* ---------- non-vacuity ---------- *)
Example session_example :
  let ms := [SM [100;109;100] (SFlat [(s_byteskey, VInt 3); ([110], VStr [97;32;38])]) (Some [10;38;0;255]);
             SM [100;109;100] (SFlat [(s_byteskey, VInt 3); ([110], VStr [97;32;38])]) None;
             SM [120] (SJson [123;125]) (Some [])] in
  Forall (sm_ok all_floats_ok) ms /\ Forall not_client_cmd ms /\
  session_run all_floats_ok VMpf (cut [3;1;40] (flat_map wire ms)) = (map expected ms, false).
Proof.
  cbv zeta. split; [|split].
  - repeat constructor; cbn; try (intuition discriminate); try lia.
  - repeat constructor; cbn; discriminate.
  - vm_compute. reflexivity.
Qed.

Example handler_example :
  let reg := [[118;104;95;97]] in                       (* vh_a *)
  let ine := [[101;118]] in                             (* ev *)
  let ms := [SM [118;104;95;97] (SFlat [([110], VInt 3)]) (Some [0;10;255]);
             SM s_trigger (SFlat [(s_name, VStr [101;118]); ([107], VStr [118;32;119])]) (Some [1;2;3]);
             SM [118;104;95;97] (SFlat [([110], VInt 3)]) None;
             SM [118;110;111;112;101] (SFlat []) (Some [7])] in
  Forall (sm_ok all_floats_ok) ms /\ Forall not_client_cmd ms /\
  fst (handler_run ([], (reg, ine), ms, [5;1;30], [])) =
  (([HCall (Dl (DKw [118;104;95;97] [([110], DVal (VInt 3))]) (Some [0;10;255]));
     HCall (Dl (DKw [118;104;95;97] [([110], DVal (VInt 3))]) None)],
    [HEvent [101;118] [([107], DVal (VStr [118;32;119])); (s_frombcp, DVal (VBool true))] (Some [1;2;3])]), false).
Proof.
  cbv zeta. split; [|split].
  - repeat constructor; cbn; try (intuition discriminate); try lia.
  - repeat constructor; cbn; discriminate.
  - vm_compute. reflexivity.
Qed.

Example exact_example :
  looks_typed [105;110;116;58;53] = true /\ looks_typed [73;110;116;58;53] = false /\
  looks_typed [66;79;79;76;58;84;114;117;101] = true.
Proof. repeat split; reflexivity. Qed.

(* ---------- BCPClientSocket with hello / goodbye in the stream ---------- *)
Definition is_hello (m : smsg) : bool := zs_eqb (sm_cmd m) s_hello.
Definition is_goodbye (m : smsg) : bool := zs_eqb (sm_cmd m) s_goodbye.

(* goodbye is sent bare: goodbye\n *)
Definition goodbye_bare (m : smsg) : Prop :=
  is_goodbye m = true -> match m with SM _ (SFlat []) p => attach p = None | _ => False end.

Definition kept_by_client (m : smsg) : bool := is_hello m || is_goodbye m.

Lemma process_mpf_cases fo m :
  sm_ok fo m -> goodbye_bare m ->
  process fo VMpf (to_rmsg m) = if kept_by_client m then PConsumed else PDeliver (expected m).
Proof.
  intros H GB. unfold kept_by_client, is_hello, is_goodbye in *.
  destruct (zs_eqb (sm_cmd m) s_hello) eqn:EH.
  - apply zs_eqb_spec in EH. destruct m as [cmd b p]. cbn [sm_cmd] in EH. subst cmd.
    cbn [orb]. apply process_mpf_hello, H.
  - destruct (zs_eqb (sm_cmd m) s_goodbye) eqn:EG; cbn [orb].
    + specialize (GB EG). apply zs_eqb_spec in EG. destruct m as [cmd [kw|t] p]; [|contradiction].
      destruct kw as [|kv kw]; [|contradiction]. cbn [sm_cmd] in EG. subst cmd.
      pose proof (decode_sm fo _ H) as D. cbn [to_rmsg expected map send_line] in D. destruct D as [D E].
      unfold process. cbn [to_rmsg send_line]. rewrite D, E. cbn [decoded_cmd decoded_noargs].
      replace (zs_eqb s_goodbye s_hello) with false by reflexivity.
      replace (zs_eqb s_goodbye s_goodbye) with true by reflexivity.
      rewrite GB. reflexivity.
    + apply process_mpf; [exact H|].
      split; intros E; rewrite E in *; [vm_compute in EH|vm_compute in EG]; discriminate.
Qed.

Lemma deliver_all_mpf fo ms :
  Forall (sm_ok fo) ms -> Forall goodbye_bare ms ->
  deliver_all fo VMpf (map to_rmsg ms) = (map expected (filter (fun m => negb (kept_by_client m)) ms), false).
Proof.
  induction ms as [|m ms IH]; intros Hok Hgb; [reflexivity|].
  inversion Hok as [|? ? H1 H2]; subst. inversion Hgb as [|? ? G1 G2]; subst.
  cbn [map deliver_all filter]. rewrite (process_mpf_cases fo m H1 G1).
  destruct (kept_by_client m); cbn [negb].
  - apply IH; assumption.
  - rewrite (IH H2 G2). reflexivity.
Qed.

(* BCPClientSocket, any history incl. hello (with any parameters / payload) and bare goodbye messages: exactly the other
   messages are returned by read_message, in order *)
Theorem session_roundtrip_mpf_filter_l fo ms chunks :
  Forall (sm_ok fo) ms -> Forall goodbye_bare ms -> concat chunks = flat_map wire ms ->
  session_run fo VMpf chunks = (map expected (filter (fun m => negb (kept_by_client m)) ms), false).
Proof.
  intros Hok Hgb E. rewrite (session_run_framed fo VMpf ms chunks Hok E).
  rewrite deliver_all_mpf by assumption. reflexivity.
Qed.

(* ---------- JSON form: the marker is in the line exactly when it is in the JSON text ---------- *)
Lemma find_marker_app_no38_iff a b : no38 a -> (find_marker (a ++ b) = None <-> find_marker b = None).
Proof.
  unfold no38. induction a as [|c a IH]; intros Ha; [tauto|].
  cbn [forallb] in Ha. apply andb_true_iff in Ha as [H1 H2]. apply negb_true_iff in H1.
  cbn [app find_marker]. cbn [s_marker zs_prefixb]. rewrite (Z.eqb_sym 38 c), H1. cbn [andb].
  specialize (IH H2). destruct (find_marker (a ++ b)) as [[x y]|]; split; intros H.
  - discriminate.
  - apply IH in H. discriminate.
  - apply IH. reflexivity.
  - reflexivity.
Qed.

Theorem json_line_marker_iff_l cmd t :
  forallb cmd_char cmd = true ->
  (find_marker (encode_json cmd t) = None <-> find_marker t = None).
Proof.
  intros Hc. unfold encode_json, unparse. cbn [s_json app is_nil].
  change (cmd ++ 63 :: 106 :: 115 :: 111 :: 110 :: 61 :: t) with (cmd ++ ([63;106;115;111;110;61] ++ t)).
  rewrite (find_marker_app_no38_iff cmd _ (cmd_no38 cmd Hc)).
  apply find_marker_app_no38_iff. reflexivity.
Qed.

Example mpf_filter_example :
  let ms := [SM s_hello (SFlat [([118], VStr [49;46;49])]) (Some [1]);
             SM [120] (SFlat [([97], VInt 1)]) (Some [9;10]);
             SM s_goodbye (SFlat []) None;
             SM [120] (SFlat [([97], VInt 1)]) None] in
  Forall (sm_ok all_floats_ok) ms /\ Forall goodbye_bare ms /\
  session_run all_floats_ok VMpf (cut [2;9] (flat_map wire ms)) =
  ([Dl (DKw [120] [([97], DVal (VInt 1))]) (Some [9;10]); Dl (DKw [120] [([97], DVal (VInt 1))]) None], false).
Proof.
  cbv zeta. split; [|split].
  - repeat constructor; cbn; try (intuition discriminate); try lia.
  - repeat constructor; unfold goodbye_bare; cbn; try discriminate; intros; reflexivity.
  - vm_compute. reflexivity.
Qed.
