(* C19/Pickle.v — bcp_pickle_client.py (fixed): length-prefixed pickles are reassembled from any chunking, in order. *)
From Common Require Import Prelude.
From C19 Require Import Model Lemmas Reader Session.
Open Scope Z_scope.

Lemma unbe32_be32 n : 0 <= n < 4294967296 -> unbe32 (be32 n) = n.
Proof.
  intros H. unfold be32, unbe32.
  assert (E1 : n = 256 * (n / 256) + n mod 256) by (apply Z.div_mod; lia).
  assert (E2 : n / 256 = 256 * (n / 65536) + (n / 256) mod 256).
  { replace (n / 65536) with ((n / 256) / 256) by (rewrite Z.div_div by lia; reflexivity). apply Z.div_mod; lia. }
  assert (E3 : n / 65536 = 256 * (n / 16777216) + (n / 65536) mod 256).
  { replace (n / 16777216) with ((n / 65536) / 256) by (rewrite Z.div_div by lia; reflexivity). apply Z.div_mod; lia. }
  assert (E4 : (n / 16777216) mod 256 = n / 16777216).
  { apply Z.mod_small. split; [apply Z.div_pos; lia|apply Z.div_lt_upper_bound; lia]. }
  rewrite E4. lia.
Qed.

Lemma pkfeed_app st a b :
  pkfeed st (a ++ b) =
  let '(st1, o1) := pkfeed st a in let '(st2, o2) := pkfeed st1 b in (st2, o1 ++ o2).
Proof.
  revert st. induction a as [|x a IH]; intros st; cbn [app pkfeed].
  - destruct (pkfeed st b); reflexivity.
  - destruct (pkstep st x) as [s1 o1]. rewrite IH.
    destruct (pkfeed s1 a) as [s2 o2]. destruct (pkfeed s2 b) as [s3 o3].
    rewrite app_assoc. reflexivity.
Qed.

Theorem pickle_chunking_independent_l st chunks :
  pkfeed_chunks st chunks = pkfeed st (concat chunks).
Proof.
  revert st. induction chunks as [|c cs IH]; intros st; cbn [pkfeed_chunks concat]; [reflexivity|].
  rewrite pkfeed_app. destruct (pkfeed st c) as [s1 o1]. rewrite IH. reflexivity.
Qed.

Lemma pkfeed_body p : forall need acc rest,
  length p = need -> (1 <= need)%nat ->
  pkfeed (PkBody need acc) (p ++ rest) =
  let '(s2, o2) := pkfeed (PkHdr []) rest in (s2, (List.rev acc ++ p) :: o2).
Proof.
  induction p as [|b p IH]; intros need acc rest Hl Hn.
  - cbn in Hl. lia.
  - cbn [length] in Hl. destruct need as [|need]; [lia|]. injection Hl as Hl.
    cbn [app pkfeed pkstep].
    destruct need as [|need'].
    + destruct p; [|discriminate]. cbn [app]. destruct (pkfeed (PkHdr []) rest) as [s2 o2].
      cbn [List.rev app]. reflexivity.
    + rewrite (IH (S need') (b :: acc) rest Hl) by lia.
      destruct (pkfeed (PkHdr []) rest) as [s2 o2]. cbn [List.rev app]. rewrite <- app_assoc. reflexivity.
Qed.

Definition pk_ok (p : bytes) : Prop := Z.of_nat (length p) < 4294967296.

Lemma pkfeed_frame p rest :
  pk_ok p ->
  pkfeed (PkHdr []) (pk_frame p ++ rest) = let '(s2, o2) := pkfeed (PkHdr []) rest in (s2, p :: o2).
Proof.
  intros H. unfold pk_ok in H. unfold pk_frame.
  pose proof (unbe32_be32 (Z.of_nat (length p))) as U.
  remember (Z.of_nat (length p)) as n eqn:En.
  assert (Hn : 0 <= n < 4294967296) by lia. specialize (U Hn).
  unfold be32 in *. rewrite <- app_assoc. cbn [app pkfeed pkstep List.rev].
  cbn [List.rev app] in U |- *. rewrite U.
  destruct (n =? 0) eqn:E0.
  - apply Z.eqb_eq in E0. assert (length p = 0%nat) by lia. destruct p; [|discriminate].
    cbn [app]. destruct (pkfeed (PkHdr []) rest) as [s2 o2]. reflexivity.
  - apply Z.eqb_neq in E0.
    rewrite (pkfeed_body p (Z.to_nat n) [] rest) by lia.
    destruct (pkfeed (PkHdr []) rest) as [s2 o2]. reflexivity.
Qed.

Theorem pickle_in_order_l ps :
  Forall pk_ok ps -> pkfeed (PkHdr []) (flat_map pk_frame ps) = (PkHdr [], ps).
Proof.
  induction 1 as [|p ps Hp Hps IH]; [reflexivity|].
  cbn [flat_map]. rewrite pkfeed_frame by exact Hp. rewrite IH. reflexivity.
Qed.

(* the pickle transport hands every pickle that was sent, unchanged and in order, to pickle.loads - for every chunking *)
Theorem pickle_reassembly_l ps lens :
  Forall pk_ok ps -> snd (pickle_run (ps, lens)) = ps.
Proof.
  intros H. unfold pickle_run. rewrite pickle_chunking_independent_l, concat_cut, pickle_in_order_l by exact H.
  reflexivity.
Qed.

Example pickle_example :
  Forall pk_ok [[128;4;75;1;46]; []; [10;0;255]] /\
  snd (pickle_run ([[128;4;75;1;46]; []; [10;0;255]], [2;1;9])) = [[128;4;75;1;46]; []; [10;0;255]].
Proof. split; [repeat constructor; cbn; lia|vm_compute; reflexivity]. Qed.
