(* C19/Props.v — property theorems only.  Each is closed by [exact] of a lemma from Lemmas.v and
   followed by Print Assumptions (parsed by the check: must be "Closed under the global context").

   Full statement of the property (C19): for every command name and every parameter dictionary,
     decode (encode cmd kw) = (cmd, kw).
   It is FALSE of the faithful model of the current code (roundtrip_refuted_prefix,
   roundtrip_refuted_jsonkey: known findings, reproduced on the implementation on every run);
   [roundtrip_partial] is the statement with exactly the guards that exclude those two classes:
   string values that look like a typed value ("int:..", "float:..", "bool:true/false" in any
   case, "NoneType:") and a first parameter named "json". *)
From Common Require Import Prelude.
From Coq Require Import Sorting.Sorted.
From C19 Require Import Model Lemmas Reader Session Json Pickle Timed.
Open Scope Z_scope.

Theorem roundtrip_partial :
  forall (float_ok : bytes -> bool) (cmd : bytes) (kw : list (bytes * value)),
    forallb cmd_char cmd = true ->                       (* command name in [a-z0-9_]* *)
    NoDup (map fst kw) ->                                (* a Python dict has distinct keys *)
    Forall (fun kv => Forall is_byte (fst kv) /\ value_ok float_ok (snd kv)) kw ->
    first_key_not_json kw ->
    decode float_ok (encode cmd kw) = DKw cmd (map (fun kv => (fst kv, DVal (snd kv))) kw).
Proof. exact roundtrip_partial_l. Qed.
Print Assumptions roundtrip_partial.

Theorem roundtrip_refuted_prefix :
  exists kw, NoDup (map fst kw) /\ first_key_not_json kw /\
    decode all_floats_ok (encode [120] kw) <> DKw [120] (map (fun kv => (fst kv, DVal (snd kv))) kw).
Proof. exact roundtrip_refuted_prefix_l. Qed.
Print Assumptions roundtrip_refuted_prefix.

Theorem roundtrip_refuted_jsonkey :
  exists kw, NoDup (map fst kw) /\
    decode all_floats_ok (encode [120] kw) <> DKw [120] (map (fun kv => (fst kv, DVal (snd kv))) kw).
Proof. exact roundtrip_refuted_jsonkey_l. Qed.
Print Assumptions roundtrip_refuted_jsonkey.

Theorem json_mode_roundtrip :
  forall float_ok cmd txt, forallb cmd_char cmd = true ->
    decode float_ok (encode_json cmd txt) = DJson cmd txt.
Proof. exact json_mode_roundtrip_l. Qed.
Print Assumptions json_mode_roundtrip.

Theorem line_is_single :
  forall cmd kw, forallb cmd_char cmd = true -> Forall pair_ok kw -> ~ In 10 (encode cmd kw).
Proof. exact line_is_single_l. Qed.
Print Assumptions line_is_single.

Theorem unquote_inverts_quote : forall s, Forall is_byte s -> unquote (quote s) = s.
Proof. exact unquote_quote. Qed.
Print Assumptions unquote_inverts_quote.

Theorem int_text_roundtrip : forall z, parse_int (print_int z) = Some z.
Proof. exact parse_print_int. Qed.
Print Assumptions int_text_roundtrip.

Theorem reassembly_chunking_independent :
  forall st chunks, rfeed_chunks st chunks = rfeed st (concat chunks).
Proof. exact reassembly_chunking_independent_l. Qed.
Print Assumptions reassembly_chunking_independent.

(* every framed message (line without newline and without the "&bytes=" marker, optional payload of any
   bytes) comes out exactly once, in the order sent, with its payload, whatever follows it *)
Theorem dispatch_in_order :
  forall ms, Forall wf_msg ms -> rfeed (RLine []) (flat_map frame ms) = (RLine [], ms).
Proof. exact dispatch_in_order_l. Qed.
Print Assumptions dispatch_in_order.

Theorem reassembly_in_order :
  forall ms chunks, Forall wf_msg ms -> concat chunks = flat_map frame ms ->
    rfeed_chunks (RLine []) chunks = (RLine [], ms).
Proof. exact reassembly_in_order_l. Qed.
Print Assumptions reassembly_in_order.

(* commands of one connection: each handler starts only after the previous one has finished, and
   handlers start in the order the commands were sent *)
Theorem dispatch_serial : forall ms, serialb (dispatch_run ms) = true.
Proof. exact dispatch_serial_l. Qed.
Print Assumptions dispatch_serial.

Theorem dispatch_order : forall ms,
  map snd (filter (fun e : bool * Z => fst e) (dispatch_run ms)) = map snd (filter (fun m : bool * Z => fst m) ms).
Proof. exact dispatch_order_l. Qed.
Print Assumptions dispatch_order.

(* ================================================================================================== *)
(* Histories on one connection (Session.v).  [wire m] is what is on the wire for message m (the line
   written by send(), with "&bytes=N\n<N raw bytes>" when a payload is attached); [sm_ok] = the guards of
   roundtrip_partial plus [no_marker_keys] (no parameter but the first is called "bytes"; JSON form: the
   json.dumps text has no raw newline and no '&').  However the concatenated stream of ANY number of
   such messages - the same line may recur with and without payload - is cut into reads, read_message
   returns exactly the messages sent, in order, each with its own parameters and its own payload. *)
Theorem session_roundtrip_partial :
  forall fo ms chunks, Forall (sm_ok fo) ms -> concat chunks = flat_map wire ms ->
    session_run fo VAsyncio chunks = (map expected ms, false).
Proof. exact session_roundtrip_partial_l. Qed.
Print Assumptions session_roundtrip_partial.

(* BCPClientSocket: the same, for commands other than hello/goodbye (which the client keeps for itself) *)
Theorem session_roundtrip_mpf_partial :
  forall fo ms chunks, Forall (sm_ok fo) ms -> Forall not_client_cmd ms -> concat chunks = flat_map wire ms ->
    session_run fo VMpf chunks = (map expected ms, false).
Proof. exact session_roundtrip_mpf_partial_l. Qed.
Print Assumptions session_roundtrip_mpf_partial.

(* BCPClientSocket, histories that also contain hello (any parameters, payload) and bare goodbye messages: exactly the
   other messages are returned, in order *)
Theorem session_roundtrip_mpf_filter :
  forall fo ms chunks, Forall (sm_ok fo) ms -> Forall goodbye_bare ms -> concat chunks = flat_map wire ms ->
    session_run fo VMpf chunks = (map expected (filter (fun m => negb (kept_by_client m)) ms), false).
Proof. exact session_roundtrip_mpf_filter_l. Qed.
Print Assumptions session_roundtrip_mpf_filter.

(* the full statement (without no_marker_keys) is false: known finding marker-in-line *)
Theorem marker_in_line_refuted :
  exists ms,
    Forall (fun m => match m with
                     | SM cmd (SFlat kw) _ =>
                         forallb cmd_char cmd = true /\ NoDup (map fst kw) /\
                         Forall (fun kv => Forall is_byte (fst kv) /\ value_ok all_floats_ok (snd kv)) kw /\
                         first_key_not_json kw
                     | _ => False end) ms /\
    session_run all_floats_ok VAsyncio [flat_map wire ms] <> (map expected ms, false).
Proof. exact marker_in_line_refuted_l. Qed.
Print Assumptions marker_in_line_refuted.

(* an encoded line contains the payload marker "&bytes=" only if a parameter after the first is called "bytes" *)
Theorem encode_no_marker :
  forall cmd kw, forallb cmd_char cmd = true -> Forall pair_ok kw -> no_marker_keys kw ->
    find_marker (encode cmd kw) = None.
Proof. exact encode_no_marker_l. Qed.
Print Assumptions encode_no_marker.

(* JSON form: the line contains the marker exactly when the json.dumps text does *)
Theorem json_line_marker_iff :
  forall cmd t, forallb cmd_char cmd = true ->
    (find_marker (encode_json cmd t) = None <-> find_marker t = None).
Proof. exact json_line_marker_iff_l. Qed.
Print Assumptions json_line_marker_iff.

(* no memory between messages: what is delivered for a framed message is a function of that message alone
   (in particular a line decodes to the same, fresh value every time it recurs) *)
Theorem delivery_memoryless :
  forall fo rs,
    forallb (fun m => match m with Msg line _ => negb (has_err (decode fo line)) end) rs = true ->
    deliver_all fo VAsyncio rs = (map (deliver1 fo) rs, false).
Proof. exact delivery_memoryless_l. Qed.
Print Assumptions delivery_memoryless.

(* reader -> _receive_loop -> process_bcp_message -> registered handler: the handlers are called with exactly
   the messages sent to registered commands, in order, parameters and payload included - for every chunking;
   no configuration (logging) parameter occurs in the model *)
Theorem handler_receives_sent :
  forall okf registered in_events ms lens posts,
    let fo := fun t => mem_key t okf in
    Forall (sm_ok fo) ms -> Forall not_client_cmd ms ->
    fst (handler_run (okf, (registered, in_events), ms, lens, posts)) =
    let hs := flat_map (handle registered in_events) (map expected ms) in
    ((filter is_call hs, filter (fun h => negb (is_call h)) hs), false).
Proof. exact handler_receives_sent_l. Qed.
Print Assumptions handler_receives_sent.

(* ... where a registered command's callback gets exactly the message sent (parameters and payload) ... *)
Theorem handle_registered :
  forall registered in_events m,
    sm_cmd m <> s_trigger -> mem_key (sm_cmd m) registered = true ->
    handle registered in_events (expected m) = [HCall (expected m)].
Proof. exact handle_registered_l. Qed.
Print Assumptions handle_registered.

(* ... and trigger?name=ev&<params> posts ev with exactly <params>, the payload, and _from_bcp=True *)
Theorem trigger_event :
  forall registered in_events ev kw p,
    mem_key ev in_events = true -> ~ In s_name (map fst kw) ->
    handle registered in_events (expected (SM s_trigger (SFlat ((s_name, VStr ev) :: kw)) p)) =
    [HEvent ev (map (fun kv => (fst kv, DVal (snd kv))) kw ++ [(s_frombcp, DVal (VBool true))]) (attach p)].
Proof. exact trigger_event_l. Qed.
Print Assumptions trigger_event.

(* The guards of roundtrip_partial are exact.  For a command name in [a-z0-9_]*, distinct keys, byte strings and
   float texts float() accepts:  decode (encode cmd kw) = (cmd, kw)  IF AND ONLY IF  the first key is not "json"
   and no string value satisfies the decidable predicate [looks_typed] (starts with "int:" or "float:", equals
   "bool:true"/"bool:false" in any letter case, or equals "NoneType:"). *)
Theorem roundtrip_exact :
  forall fo cmd kw,
    forallb cmd_char cmd = true -> NoDup (map fst kw) -> bytes_ok fo kw ->
    (decode fo (encode cmd kw) = DKw cmd (map (fun kv => (fst kv, DVal (snd kv))) kw)
     <-> first_key_not_json kw /\ no_typed_strings kw).
Proof. exact roundtrip_exact_l. Qed.
Print Assumptions roundtrip_exact.

Theorem str_value_roundtrip_iff :
  forall fo s, decode_value fo (typed_text (VStr s)) = DVal (VStr s) <-> looks_typed s = false.
Proof. exact str_value_roundtrip_iff_l. Qed.
Print Assumptions str_value_roundtrip_iff.

(* ================================================================================================== *)
(* JSON form with the text printed by the model (Json.v): nested lists/dicts, None, bool, int, float text, non-ASCII
   strings (escaped \uXXXX, surrogate pairs), key order = dict order. *)
Theorem json_tree_roundtrip :
  forall fo cmd kw, forallb cmd_char cmd = true ->
    decode fo (encode_json cmd (jdumps (JDict kw))) = DJson cmd (jdumps (JDict kw)).
Proof. exact json_tree_roundtrip_l. Qed.
Print Assumptions json_tree_roundtrip.

(* json.dumps never emits a raw newline, and emits '&' only from a string (key or value) that contains '&' *)
Theorem jdumps_no_newline_no_amp :
  forall v, jv_clean v = true -> forallb wsafe (jdumps v) = true.
Proof. exact jdumps_wsafe. Qed.
Print Assumptions jdumps_no_newline_no_amp.

(* hence a JSON-form message whose strings are free of '&' is in the domain of session_roundtrip_partial *)
Theorem json_tree_message_ok :
  forall fo cmd kw p, forallb cmd_char cmd = true -> jv_clean (JDict kw) = true ->
    sm_ok fo (SM cmd (SJson (jdumps (JDict kw))) p).
Proof. exact json_tree_message_ok_l. Qed.
Print Assumptions json_tree_message_ok.

(* ================================================================================================== *)
(* bcp_pickle_client.py with fixes/C19-pickle-client-loads-dumps.patch (Pickle.v) *)
Theorem pickle_chunking_independent :
  forall st chunks, pkfeed_chunks st chunks = pkfeed st (concat chunks).
Proof. exact pickle_chunking_independent_l. Qed.
Print Assumptions pickle_chunking_independent.

Theorem pickle_reassembly :
  forall ps lens, Forall pk_ok ps -> snd (pickle_run (ps, lens)) = ps.
Proof. exact pickle_reassembly_l. Qed.
Print Assumptions pickle_reassembly.

(* ================================================================================================== *)
(* TIME and CONNECTION LIFE CYCLE (Timed.v).  Chunks arrive at instants; a connection ends by EOF of the peer or by
   MPF dropping the transport (read_message cancelled).  Full statement of this clause of C19: "the receiver
   reassembles commands and attached binary payloads identically however - AND WHENEVER - the byte stream arrives". *)

(* the delivered sequence (and the framing state) depends on the concatenated bytes only: not on the instants, not on
   the cutting.  The model has no timer, so a reader that gives up / restarts after a pause cannot match it. *)
Theorem reassembly_time_independent :
  forall st (tcs tcs' : list tchunk),
    concat (map snd tcs) = concat (map snd tcs') ->
    fst (tfeed st tcs) = fst (tfeed st tcs') /\
    map snd (snd (tfeed st tcs)) = map snd (snd (tfeed st tcs')).
Proof. exact reassembly_time_independent_l. Qed.
Print Assumptions reassembly_time_independent.

Theorem timed_reassembly_untimed :
  forall st (tcs : list tchunk),
    fst (tfeed st tcs) = fst (rfeed st (concat (map snd tcs))) /\
    map snd (snd (tfeed st tcs)) = snd (rfeed st (concat (map snd tcs))).
Proof. exact timed_reassembly_untimed_l. Qed.
Print Assumptions timed_reassembly_untimed.

(* dispatch in the order sent, in time: non-decreasing arrival instants give non-decreasing delivery instants *)
Theorem delivery_stamps_sorted :
  forall st (tcs : list tchunk),
    StronglySorted Z.le (map fst tcs) -> StronglySorted Z.le (map fst (snd (tfeed st tcs))).
Proof. exact delivery_stamps_sorted_l. Qed.
Print Assumptions delivery_stamps_sorted.

(* complete frames followed by a torn one (part of a line, or a complete header with fewer payload bytes than
   announced), in any pieces at any instants: exactly the complete frames come out, nothing of the torn one *)
Theorem torn_frame_delivers_nothing :
  forall ms t (tcs : list tchunk),
    Forall wf_msg ms -> torn_ok t ->
    concat (map snd tcs) = flat_map frame ms ++ torn_bytes t ->
    map snd (snd (tfeed (RLine []) tcs)) = ms /\ fst (tfeed (RLine []) tcs) <> RBroken.
Proof. exact torn_frame_delivers_nothing_l. Qed.
Print Assumptions torn_frame_delivers_nothing.

(* what the harness cuts off a wire frame (a strict prefix) is a torn frame in the sense of torn_frame_delivers_nothing *)
Theorem strict_prefix_is_torn :
  forall m p rest, wf_msg m -> frame m = p ++ rest -> rest <> [] -> exists t, torn_ok t /\ torn_bytes t = p.
Proof. exact strict_prefix_is_torn_l. Qed.
Print Assumptions strict_prefix_is_torn.

(* one connection of the real machine (transport manager + interface): the callbacks of the registered commands get
   exactly the completely sent messages, each with its own parameters and payload, whatever the instants, the cutting
   and the torn tail.  _partial: guard sm_ok (no_marker_keys: recorded finding marker-in-line), as session_roundtrip_partial *)
Theorem timed_connection_roundtrip_partial :
  forall fo registered ms t (tcs : list tchunk),
    Forall (sm_ok fo) ms -> Forall not_client_cmd ms -> torn_ok t ->
    concat (map snd tcs) = flat_map wire ms ++ torn_bytes t ->
    (map snd (fst (tconn_run fo registered tcs)), snd (tconn_run fo registered tcs)) =
    (filter (fun x => mem_key (delivered_cmd x) registered) (map expected ms), false).
Proof. exact timed_connection_roundtrip_l. Qed.
Print Assumptions timed_connection_roundtrip_partial.

(* every connection is served from the clean framing state: its result is a function of its own bytes *)
Theorem new_connection_clean :
  forall okf registered conns k c,
    nth_error conns k = Some c ->
    nth_error (srv_run (okf, registered, conns)) k =
    Some (tconn_run (fun t => mem_key t okf) registered (conn_chunks c)).
Proof. exact new_connection_clean_l. Qed.
Print Assumptions new_connection_clean.

(* the code WITHOUT fixes/C19-torn-frame-at-eof.patch: at EOF inside a line readline() returns the partial line,
   message[0:-1] strips its last byte and the rest is dispatched as a command (x?a=int:12 -> x(a=1)) *)
Theorem torn_line_unfixed_refuted :
  exists ms l, Forall wf_msg ms /\ no10 l /\
    let '(st, o) := rfeed (RLine []) (flat_map frame ms ++ l) in o ++ eof_unfixed st <> ms.
Proof. exact torn_line_unfixed_refuted_l. Qed.
Print Assumptions torn_line_unfixed_refuted.
