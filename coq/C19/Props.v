(* C19/Props.v — property theorems only.  Each is closed by [exact] of a lemma from Lemmas.v and
   followed by Print Assumptions (parsed by the check: must be "Closed under the global context").

   Full statement of the property (C19): for every command name and every parameter dictionary,
     decode (encode cmd kw) = (cmd, kw).
   It is FALSE of the faithful model of the current code (roundtrip_refuted_prefix,
   roundtrip_refuted_jsonkey: known findings, reproduced on the implementation on every run);
   [roundtrip_partial] is the statement with exactly the guards that exclude those two classes:
   string values that look like a typed value ("int:..", "float:..", "bool:true/false" in any
   case, "NoneType:") and a first parameter named "json". *)
From Common Require Import Prelude.
From C19 Require Import Model Lemmas Reader.
Open Scope Z_scope.

Theorem roundtrip_partial :
  forall (float_ok : bytes -> bool) (cmd : bytes) (kw : list (bytes * value)),
    forallb cmd_char cmd = true ->                       (* command name in [a-z0-9_]* *)
    NoDup (map fst kw) ->                                (* a Python dict has distinct keys *)
    Forall (fun kv => Forall is_byte (fst kv) /\ value_ok float_ok (snd kv)) kw ->
    first_key_not_json kw ->
    decode float_ok (encode cmd kw) = DKw cmd (map (fun kv => (fst kv, DVal (snd kv))) kw).
Proof. exact roundtrip_partial_l. Qed.
Print Assumptions roundtrip_partial.

Theorem roundtrip_refuted_prefix :
  exists kw, NoDup (map fst kw) /\ first_key_not_json kw /\
    decode all_floats_ok (encode [120] kw) <> DKw [120] (map (fun kv => (fst kv, DVal (snd kv))) kw).
Proof. exact roundtrip_refuted_prefix_l. Qed.
Print Assumptions roundtrip_refuted_prefix.

Theorem roundtrip_refuted_jsonkey :
  exists kw, NoDup (map fst kw) /\
    decode all_floats_ok (encode [120] kw) <> DKw [120] (map (fun kv => (fst kv, DVal (snd kv))) kw).
Proof. exact roundtrip_refuted_jsonkey_l. Qed.
Print Assumptions roundtrip_refuted_jsonkey.

Theorem json_mode_roundtrip :
  forall float_ok cmd txt, forallb cmd_char cmd = true ->
    decode float_ok (encode_json cmd txt) = DJson cmd txt.
Proof. exact json_mode_roundtrip_l. Qed.
Print Assumptions json_mode_roundtrip.

Theorem line_is_single :
  forall cmd kw, forallb cmd_char cmd = true -> Forall pair_ok kw -> ~ In 10 (encode cmd kw).
Proof. exact line_is_single_l. Qed.
Print Assumptions line_is_single.

Theorem unquote_inverts_quote : forall s, Forall is_byte s -> unquote (quote s) = s.
Proof. exact unquote_quote. Qed.
Print Assumptions unquote_inverts_quote.

Theorem int_text_roundtrip : forall z, parse_int (print_int z) = Some z.
Proof. exact parse_print_int. Qed.
Print Assumptions int_text_roundtrip.

Theorem reassembly_chunking_independent :
  forall st chunks, rfeed_chunks st chunks = rfeed st (concat chunks).
Proof. exact reassembly_chunking_independent_l. Qed.
Print Assumptions reassembly_chunking_independent.

(* every framed message (line without newline and without the "&bytes=" marker, optional payload of any
   bytes) comes out exactly once, in the order sent, with its payload, whatever follows it *)
Theorem dispatch_in_order :
  forall ms, Forall wf_msg ms -> rfeed (RLine []) (flat_map frame ms) = (RLine [], ms).
Proof. exact dispatch_in_order_l. Qed.
Print Assumptions dispatch_in_order.

Theorem reassembly_in_order :
  forall ms chunks, Forall wf_msg ms -> concat chunks = flat_map frame ms ->
    rfeed_chunks (RLine []) chunks = (RLine [], ms).
Proof. exact reassembly_in_order_l. Qed.
Print Assumptions reassembly_in_order.

(* commands of one connection: each handler starts only after the previous one has finished, and
   handlers start in the order the commands were sent *)
Theorem dispatch_serial : forall ms, serialb (dispatch_run ms) = true.
Proof. exact dispatch_serial_l. Qed.
Print Assumptions dispatch_serial.

Theorem dispatch_order : forall ms,
  map snd (filter (fun e : bool * Z => fst e) (dispatch_run ms)) = map snd (filter (fun m : bool * Z => fst m) ms).
Proof. exact dispatch_order_l. Qed.
Print Assumptions dispatch_order.
