(* C19/Timed.v — TIME and CONNECTION LIFE CYCLE in the stream model.

   Chunks arrive at instants (units of 1/8 s on the virtual clock).  The receiver of the model has no timers:
   [tfeed] is [rfeed] with every emitted message stamped with the arrival instant of the chunk that contained
   its last byte.  Consequently the delivered sequence is a function of the concatenated bytes alone
   (reassembly_time_independent): a reader that gives up, restarts or re-synchronises after a pause (for
   instance because read_message is cancelled by a timeout between the header line and the payload) cannot
   match it.

   A connection is a list of timed chunks that ends by a disconnect of the peer (EOF) or by MPF dropping the
   transport (read_message cancelled).  Either way NOTHING of a frame that was not complete is delivered
   (model of the code with fixes/C19-torn-frame-at-eof.patch; the unfixed code hands the torn line minus its
   last byte to the decoder: eof_unfixed, torn_line_unfixed_refuted).  Every connection starts in the clean
   framing state [RLine []]: [srv_run] is a map over the connections. *)
From Coq Require Import Sorting.Sorted.
From Common Require Import Prelude.
From C19 Require Import Model Lemmas Reader Session.
Open Scope Z_scope.

Definition tchunk := (Z * bytes)%type.

Fixpoint tfeed (st : rmode) (tcs : list tchunk) : rmode * list (Z * rmsg) :=
  match tcs with
  | [] => (st, [])
  | tc :: r =>
      let '(s1, o1) := rfeed st (snd tc) in
      let '(s2, o2) := tfeed s1 r in (s2, map (pair (fst tc)) o1 ++ o2)
  end.

(* _process_command of the stamped messages (same as deliver_all, stamps kept) *)
Fixpoint tdeliver (fo : bytes -> bool) (v : variant) (ms : list (Z * rmsg)) : list (Z * delivered) * bool :=
  match ms with
  | [] => ([], false)
  | tm :: r =>
      match process fo v (snd tm) with
      | PDie => ([], true)
      | PConsumed => tdeliver fo v r
      | PDeliver x => let '(o, d) := tdeliver fo v r in ((fst tm, x) :: o, d)
      end
  end.

(* one connection handled by BcpTransportManager._receive_loop + process_bcp_message: the registered command
   callbacks called, each with the instant of the call.  The way the connection ends (peer disconnect = EOF,
   or transport dropped by MPF = read_message cancelled) does not occur: nothing is delivered for it. *)
Definition tconn_run (fo : bytes -> bool) (registered : list bytes) (tcs : list tchunk)
  : list (Z * delivered) * bool :=
  let '(st, ms) := tfeed (RLine []) tcs in
  let '(out, dead) := tdeliver fo VMpf ms in
  (filter (fun x => mem_key (delivered_cmd (snd x)) registered) out,
   dead || match st with RBroken => true | _ => false end).

(* the harness side: messages sent completely, then the bytes of a torn frame, cut into reads, with instants *)
Definition conn_in := (list smsg * bytes * list Z * list Z)%type.

Definition conn_chunks (c : conn_in) : list tchunk :=
  let '(ms, torn, lens, times) := c in combine times (cut lens (flat_map wire ms ++ torn)).

Definition srv_run (i : list bytes * list bytes * list conn_in) : list (list (Z * delivered) * bool) :=
  let '(okf, registered, conns) := i in
  map (fun c => tconn_run (fun t => mem_key t okf) registered (conn_chunks c)) conns.

Definition tdel_eqb (a b : Z * delivered) : bool := Z.eqb (fst a) (fst b) && delivered_eqb (snd a) (snd b).
Definition srv_out_eqb (a b : list (list (Z * delivered) * bool)) : bool :=
  list_eqb (fun x y : list (Z * delivered) * bool => list_eqb tdel_eqb (fst x) (fst y) && Bool.eqb (snd x) (snd y)) a b.

(* what the UNFIXED read_message does at EOF inside a line: readline() returns the partial line, message[0:-1]
   strips its last byte, and the rest goes through the normal path *)
Definition eof_unfixed (st : rmode) : list rmsg :=
  match st with RLine (b :: acc) => snd (end_line (List.rev acc)) | _ => [] end.

(* ---------------------------------------------------------------------------------------------- *)
Lemma tfeed_untimed st (tcs : list tchunk) :
  fst (tfeed st tcs) = fst (rfeed_chunks st (map snd tcs)) /\
  map snd (snd (tfeed st tcs)) = snd (rfeed_chunks st (map snd tcs)).
Proof.
  revert st. induction tcs as [|[t c] r IH]; intros st; [split; reflexivity|].
  cbn [tfeed rfeed_chunks map snd fst]. destruct (rfeed st c) as [s1 o1].
  specialize (IH s1). destruct (tfeed s1 r) as [s2 o2]. destruct (rfeed_chunks s1 (map snd r)) as [s3 o3].
  cbn [fst snd] in *. destruct IH as [-> <-]. split; [reflexivity|].
  rewrite map_app, map_map. cbn [snd]. rewrite map_id. reflexivity.
Qed.

Theorem timed_reassembly_untimed_l st (tcs : list tchunk) :
  fst (tfeed st tcs) = fst (rfeed st (concat (map snd tcs))) /\
  map snd (snd (tfeed st tcs)) = snd (rfeed st (concat (map snd tcs))).
Proof. rewrite <- reassembly_chunking_independent_l. apply tfeed_untimed. Qed.

(* the delivered sequence does not depend on WHEN the chunks arrive, nor on how the bytes are cut *)
Theorem reassembly_time_independent_l st (tcs tcs' : list tchunk) :
  concat (map snd tcs) = concat (map snd tcs') ->
  fst (tfeed st tcs) = fst (tfeed st tcs') /\
  map snd (snd (tfeed st tcs)) = map snd (snd (tfeed st tcs')).
Proof.
  intros E. destruct (timed_reassembly_untimed_l st tcs) as [A B].
  destruct (timed_reassembly_untimed_l st tcs') as [A' B'].
  rewrite A, B, A', B', E. split; reflexivity.
Qed.

(* stamps: arrival instants of chunks, never earlier than a lower bound of the arrivals still to come *)
Lemma tfeed_stamps_lb lo st (tcs : list tchunk) :
  Forall (Z.le lo) (map fst tcs) -> Forall (Z.le lo) (map fst (snd (tfeed st tcs))).
Proof.
  revert st. induction tcs as [|[t c] r IH]; intros st H; [constructor|].
  cbn [map fst] in H. inversion H as [|? ? Ht Hr]; subst.
  cbn [tfeed fst snd]. destruct (rfeed st c) as [s1 o1]. specialize (IH s1 Hr).
  destruct (tfeed s1 r) as [s2 o2]. cbn [snd] in *. rewrite map_app. apply Forall_app. split; [|exact IH].
  rewrite map_map. cbn [fst]. apply Forall_forall. intros x Hx. apply in_map_iff in Hx as [y [<- _]]. exact Ht.
Qed.

Lemma sorted_const_app (t : Z) (n : list Z) (l : list Z) :
  Forall (eq t) n -> Forall (Z.le t) l -> StronglySorted Z.le l -> StronglySorted Z.le (n ++ l).
Proof.
  induction n as [|x n IH]; intros Hn Hl Hs; [exact Hs|].
  inversion Hn as [|? ? Hx Hn']; subst. cbn [app]. constructor; [apply IH; assumption|].
  apply Forall_app. split; [|exact Hl].
  eapply Forall_impl; [|exact Hn']. intros a <-. lia.
Qed.

(* messages are handed over in the order of the instants: if the chunks arrive at non-decreasing instants,
   the delivery instants are non-decreasing *)
Theorem delivery_stamps_sorted_l st (tcs : list tchunk) :
  StronglySorted Z.le (map fst tcs) -> StronglySorted Z.le (map fst (snd (tfeed st tcs))).
Proof.
  revert st. induction tcs as [|[t c] r IH]; intros st H; [constructor|].
  cbn [map fst] in H. inversion H as [|? ? Hs Hlb]; subst.
  cbn [tfeed fst snd]. destruct (rfeed st c) as [s1 o1].
  pose proof (IH s1 Hs) as S. pose proof (tfeed_stamps_lb t s1 r Hlb) as L.
  destruct (tfeed s1 r) as [s2 o2]. cbn [snd] in *. rewrite map_app. apply (sorted_const_app t); [|exact L|exact S].
  rewrite map_map. cbn [fst]. apply Forall_forall. intros x Hx. apply in_map_iff in Hx as [y [<- _]]. reflexivity.
Qed.

(* ---- stamped processing = untimed processing ---- *)
Lemma tdeliver_untimed fo v ms :
  (map snd (fst (tdeliver fo v ms)), snd (tdeliver fo v ms)) = deliver_all fo v (map snd ms).
Proof.
  induction ms as [|[t m] r IH]; [reflexivity|].
  cbn [tdeliver deliver_all map snd fst]. destruct (process fo v m) as [x| |]; [|exact IH|reflexivity].
  destruct (tdeliver fo v r) as [o d]. destruct (deliver_all fo v (map snd r)) as [o' d'].
  cbn [fst snd map] in *. injection IH as -> ->. reflexivity.
Qed.

(* ---- torn frames ---- *)
Inductive torn :=
| TLine (l : bytes)                                   (* part of a line, no newline yet *)
| TPay (line : bytes) (n : nat) (p : bytes).          (* complete header line announcing n bytes, fewer than n arrived *)

Definition torn_bytes (t : torn) : bytes :=
  match t with
  | TLine l => l
  | TPay line n p => (line ++ s_marker ++ print_int (Z.of_nat n)) ++ 10 :: p
  end.

Definition torn_ok (t : torn) : Prop :=
  match t with
  | TLine l => no10 l
  | TPay line n p => no10 line /\ find_marker line = None /\ (length p < n)%nat
  end.

Lemma rfeed_bytes_partial m p : forall need acc,
  (length p < need)%nat ->
  rfeed (RBytes m need acc) p = (RBytes m (need - length p) (List.rev p ++ acc), []).
Proof.
  induction p as [|b p IH]; intros need acc H.
  - cbn [length rfeed List.rev app]. rewrite Nat.sub_0_r. reflexivity.
  - cbn [length] in H. destruct need as [|[|n]]; [lia|lia|].
    rewrite rfeed_cons. cbn [rstep]. rewrite IH by lia.
    cbn [length List.rev app Nat.sub]. rewrite <- app_assoc. reflexivity.
Qed.

Lemma rfeed_torn t : torn_ok t ->
  snd (rfeed (RLine []) (torn_bytes t)) = [] /\ fst (rfeed (RLine []) (torn_bytes t)) <> RBroken.
Proof.
  destruct t as [l|line n p]; cbn [torn_ok torn_bytes].
  - intros H. rewrite rfeed_line by exact H. split; [reflexivity|discriminate].
  - intros [H10 [HM HL]].
    rewrite rfeed_full_line.
    2:{ apply no10_app; [exact H10|]. apply no10_app; [reflexivity|apply print_int_no10]. }
    unfold end_line. rewrite find_marker_frame by exact HM.
    rewrite find_marker_no38 by apply print_int_no38.
    rewrite parse_print_int.
    replace (Z.of_nat n <? 0) with false by (symmetry; apply Z.ltb_ge; lia).
    replace (Z.of_nat n =? 0) with false by (symmetry; apply Z.eqb_neq; lia).
    rewrite Nat2Z.id. rewrite rfeed_bytes_partial by exact HL.
    cbn [fst snd app]. split; [reflexivity|discriminate].
Qed.

Lemma rfeed_frames_then ms rest :
  Forall wf_msg ms ->
  rfeed (RLine []) (flat_map frame ms ++ rest) = let '(s, o) := rfeed (RLine []) rest in (s, ms ++ o).
Proof.
  induction 1 as [|m ms Hm Hms IH]; [cbn [flat_map app]; destruct (rfeed (RLine []) rest); reflexivity|].
  cbn [flat_map]. rewrite <- app_assoc. rewrite rfeed_frame by exact Hm. rewrite IH.
  destruct (rfeed (RLine []) rest) as [s o]. reflexivity.
Qed.

(* complete frames followed by a torn one, arriving in any pieces at any instants: exactly the complete frames
   are delivered, nothing of the torn one, and the reader is not broken *)
Theorem torn_frame_delivers_nothing_l ms t (tcs : list tchunk) :
  Forall wf_msg ms -> torn_ok t ->
  concat (map snd tcs) = flat_map frame ms ++ torn_bytes t ->
  map snd (snd (tfeed (RLine []) tcs)) = ms /\ fst (tfeed (RLine []) tcs) <> RBroken.
Proof.
  intros Hw Ht E. destruct (timed_reassembly_untimed_l (RLine []) tcs) as [A B].
  rewrite A, B, E. rewrite rfeed_frames_then by exact Hw.
  destruct (rfeed_torn t Ht) as [O S]. destruct (rfeed (RLine []) (torn_bytes t)) as [s o].
  cbn [fst snd] in *. subst o. rewrite app_nil_r. split; [reflexivity|exact S].
Qed.

(* every strict, non-empty-rest prefix of a well-formed frame is a torn frame in the sense of [torn_ok]: what the
   harness cuts off a wire frame is in the domain of torn_frame_delivers_nothing *)
Lemma no10_app_l a b : no10 (a ++ b) -> no10 a.
Proof. unfold no10. rewrite forallb_app. intros H. apply andb_true_iff in H. apply H. Qed.

Theorem strict_prefix_is_torn_l m p rest :
  wf_msg m -> frame m = p ++ rest -> rest <> [] -> exists t, torn_ok t /\ torn_bytes t = p.
Proof.
  destruct m as [line [pl|]]; intros [H10 HM] E Hr; cbn [frame] in E.
  - assert (Hh : no10 (line ++ s_marker ++ print_int (Z.of_nat (length pl)))).
    { apply no10_app; [exact H10|]. apply no10_app; [reflexivity|apply print_int_no10]. }
    symmetry in E. apply app_eq_app in E as [l [[E1 E2]|[E1 E2]]].
    + destruct l as [|c l'].
      * exists (TLine p). cbn [torn_ok torn_bytes]. rewrite E1, app_nil_r. split; [exact Hh|reflexivity].
      * cbn [app] in E2. injection E2 as <- E2.
        exists (TPay line (length pl) l'). cbn [torn_ok torn_bytes]. split; [|symmetry; exact E1].
        split; [exact H10|]. split; [exact HM|].
        rewrite E2, app_length. destruct rest; [congruence|cbn [length]; lia].
    + exists (TLine p). cbn [torn_ok torn_bytes]. split; [|reflexivity].
      rewrite E1 in Hh. apply no10_app_l in Hh. exact Hh.
  - destruct (exists_last Hr) as [r' [y Er]]. subst rest.
    rewrite app_assoc in E. apply app_inj_tail in E as [E _].
    exists (TLine p). cbn [torn_ok torn_bytes]. split; [|reflexivity].
    rewrite E in H10. apply no10_app_l in H10. exact H10.
Qed.

(* the same at the level of a connection of the real machine: the callbacks of the registered commands get
   exactly the completely sent messages, whatever the instants, the cutting, and the torn tail *)
Theorem timed_connection_roundtrip_l fo registered ms t (tcs : list tchunk) :
  Forall (sm_ok fo) ms -> Forall not_client_cmd ms -> torn_ok t ->
  concat (map snd tcs) = flat_map wire ms ++ torn_bytes t ->
  (map snd (fst (tconn_run fo registered tcs)), snd (tconn_run fo registered tcs)) =
  (filter (fun x => mem_key (delivered_cmd x) registered) (map expected ms), false).
Proof.
  intros Hok Hnc Ht E. unfold tconn_run.
  assert (Hw : Forall wf_msg (map to_rmsg ms)).
  { apply Forall_forall. intros r Hr. apply in_map_iff in Hr as [m [<- Hin]].
    rewrite Forall_forall in Hok. eapply sm_ok_wf, Hok, Hin. }
  rewrite flat_map_wire in E.
  destruct (torn_frame_delivers_nothing_l (map to_rmsg ms) t tcs Hw Ht E) as [M S].
  destruct (tfeed (RLine []) tcs) as [st tms]. cbn [fst snd] in *.
  pose proof (tdeliver_untimed fo VMpf tms) as D. rewrite M in D.
  rewrite deliver_all_ok in D.
  2:{ apply Forall_forall. intros m Hin. rewrite Forall_forall in Hok, Hnc.
      apply process_mpf; [apply Hok, Hin|apply Hnc, Hin]. }
  destruct (tdeliver fo VMpf tms) as [out dead]. cbn [fst snd] in *. injection D as D1 D2. subst dead.
  cbn [fst snd]. f_equal.
  - rewrite <- D1. clear. induction out as [|[s x] out IH]; [reflexivity|].
    cbn [filter map snd]. destruct (mem_key (delivered_cmd x) registered); cbn [map snd]; rewrite IH; reflexivity.
  - destruct st; try reflexivity. congruence.
Qed.

(* every connection is served from the clean framing state, whatever happened on the others *)
Theorem new_connection_clean_l okf registered conns k c :
  nth_error conns k = Some c ->
  nth_error (srv_run (okf, registered, conns)) k =
  Some (tconn_run (fun t => mem_key t okf) registered (conn_chunks c)).
Proof.
  intros H. unfold srv_run.
  exact (map_nth_error (fun c => tconn_run (fun t => mem_key t okf) registered (conn_chunks c)) k conns H).
Qed.

(* UNFIXED code: a peer that disconnects inside a line gets the torn line (minus its last byte) dispatched *)
Theorem torn_line_unfixed_refuted_l :
  exists ms l, Forall wf_msg ms /\ no10 l /\
    let '(st, o) := rfeed (RLine []) (flat_map frame ms ++ l) in o ++ eof_unfixed st <> ms.
Proof.
  exists [], [120;63;97;61;105;110;116;58;49;50].      (* x?a=int:12  ->  x?a=int:1 is dispatched *)
  split; [constructor|]. split; [reflexivity|]. vm_compute. discriminate.
Qed.

Example timed_example :
  let ms := [SM [118;104;95;97] (SFlat [([120], VInt 1)]) (Some [97;10;98])] in
  let tcs := [(0, [118;104;95;97;63;120;61;105;110;116;58;49;38;98;121;116;101;115;61;51;10;97]);
              (40, [10]); (41, [98;118;104;95])] in
  Forall (sm_ok all_floats_ok) ms /\ Forall not_client_cmd ms /\ torn_ok (TLine [118;104;95]) /\
  concat (map snd tcs) = flat_map wire ms ++ torn_bytes (TLine [118;104;95]) /\
  StronglySorted Z.le (map fst tcs) /\
  fst (tconn_run all_floats_ok [[118;104;95;97]] tcs) = [(41, expected (hd (SM [] (SFlat []) None) ms))].
Proof.
  cbn zeta. split; [|split; [|split; [|split; [|split]]]].
  - repeat constructor; cbn; try (intuition discriminate); try lia.
  - repeat constructor; cbn; try discriminate.
  - reflexivity.
  - vm_compute. reflexivity.
  - cbn [map fst]. repeat constructor; lia.
  - vm_compute. reflexivity.
Qed.

Example torn_payload_example :
  torn_ok (TPay [120] 5 [1;2]) /\ rfeed (RLine []) (torn_bytes (TPay [120] 5 [1;2])) = (RBytes [120] 3 [2;1], []).
Proof. split; [repeat split; auto|vm_compute; reflexivity]. Qed.
