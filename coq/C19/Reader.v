(* C19/Reader.v — the receiver delivers exactly the framed messages, in order. *)
From Common Require Import Prelude.
From C19 Require Import Model Lemmas.
Open Scope Z_scope.

Definition no10 (l : bytes) : Prop := forallb (fun c => negb (c =? 10)) l = true.

Lemma rfeed_line acc l : no10 l -> rfeed (RLine acc) l = (RLine (List.rev l ++ acc), []).
Proof.
  unfold no10. revert acc. induction l as [|c l IH]; intros acc H; [reflexivity|].
  cbn [forallb] in H. apply andb_true_iff in H as [H1 H2]. apply negb_true_iff in H1.
  cbn [rfeed rstep]. rewrite H1. rewrite IH by exact H2. cbn [List.rev]. rewrite <- app_assoc. reflexivity.
Qed.

Lemma rfeed_cons st b t :
  rfeed st (b :: t) = let '(s1, o1) := rstep st b in let '(s2, o2) := rfeed s1 t in (s2, o1 ++ o2).
Proof. reflexivity. Qed.

(* a complete line followed by anything *)
Lemma rfeed_full_line l rest :
  no10 l ->
  rfeed (RLine []) (l ++ 10 :: rest) =
  let '(s1, o1) := end_line l in let '(s2, o2) := rfeed s1 rest in (s2, o1 ++ o2).
Proof.
  intros H. rewrite rfeed_app. rewrite rfeed_line by exact H. rewrite app_nil_r.
  rewrite rfeed_cons. cbn [rstep]. rewrite Z.eqb_refl. rewrite rev_involutive.
  destruct (end_line l) as [s1 o1]. destruct (rfeed s1 rest) as [s2 o2]. reflexivity.
Qed.

(* payload collection *)
Lemma rfeed_bytes m p : forall need acc rest,
  length p = need -> (1 <= need)%nat ->
  rfeed (RBytes m need acc) (p ++ rest) =
  let '(s2, o2) := rfeed (RLine []) rest in (s2, Msg m (Some (List.rev acc ++ p)) :: o2).
Proof.
  induction p as [|b p IH]; intros need acc rest Hl Hn.
  - cbn in Hl. lia.
  - cbn [length] in Hl. destruct need as [|need]; [lia|]. injection Hl as Hl.
    cbn [app]. rewrite rfeed_cons. cbn [rstep].
    destruct need as [|need'].
    + destruct p; [|discriminate]. cbn [app]. destruct (rfeed (RLine []) rest) as [s2 o2].
      cbn [List.rev app]. reflexivity.
    + rewrite (IH (S need') (b :: acc) rest Hl) by lia.
      destruct (rfeed (RLine []) rest) as [s2 o2]. cbn [List.rev app]. rewrite <- app_assoc. reflexivity.
Qed.

(* ---- the marker ---- *)
Lemma prefixb_app_long p : forall s x, (length p <= length s)%nat -> zs_prefixb p (s ++ x) = zs_prefixb p s.
Proof.
  induction p as [|a p IH]; intros s x H; [reflexivity|].
  destruct s as [|b s]; [cbn in H; lia|]. cbn [app zs_prefixb]. rewrite IH by (cbn in H; lia). reflexivity.
Qed.

Lemma marker_straddle t d :
  (length t < 7)%nat -> t <> [] -> zs_prefixb s_marker (t ++ s_marker ++ d) = false.
Proof.
  intros Hl Hne.
  destruct t as [|a0 [|a1 [|a2 [|a3 [|a4 [|a5 [|a6 t]]]]]]]; try congruence;
    try (cbn in Hl; lia);
    cbn [app s_marker zs_prefixb]; cbn [Z.eqb Pos.eqb]; rewrite ?andb_false_r; reflexivity.
Qed.

Lemma find_marker_frame line d :
  find_marker line = None -> find_marker (line ++ s_marker ++ d) = Some (line, d).
Proof.
  induction line as [|c t IH]; intros H.
  - cbn [app]. unfold find_marker. destruct (s_marker ++ d) eqn:E; [discriminate|].
    rewrite <- E. rewrite zs_prefixb_app. rewrite E. rewrite <- E.
    replace (skipn 7 (s_marker ++ d)) with d by reflexivity. reflexivity.
  - cbn [find_marker] in H. destruct (zs_prefixb s_marker (c :: t)) eqn:P; [discriminate|].
    destruct (find_marker t) as [[a b]|] eqn:F; [discriminate|].
    cbn [app find_marker].
    assert (P' : zs_prefixb s_marker (c :: t ++ s_marker ++ d) = false).
    { destruct (Nat.le_gt_cases 7 (length (c :: t))) as [L|L].
      - change (c :: t ++ s_marker ++ d) with ((c :: t) ++ s_marker ++ d).
        rewrite prefixb_app_long by exact L. exact P.
      - change (c :: t ++ s_marker ++ d) with ((c :: t) ++ s_marker ++ d).
        apply marker_straddle; [exact L|discriminate]. }
    rewrite P'. rewrite IH by reflexivity. reflexivity.
Qed.

Lemma find_marker_no38 s : forallb (fun c => negb (c =? 38)) s = true -> find_marker s = None.
Proof.
  induction s as [|c t IH]; intros H; [reflexivity|].
  cbn [forallb] in H. apply andb_true_iff in H as [H1 H2]. apply negb_true_iff in H1.
  cbn [find_marker]. cbn [s_marker zs_prefixb]. rewrite Z.eqb_sym, H1. cbn [andb].
  rewrite IH by exact H2. reflexivity.
Qed.

Lemma print_int_no38 z : forallb (fun c => negb (c =? 38)) (print_int z) = true.
Proof.
  eapply forallb_impl; [|apply print_int_unreserved]. intros x Hx.
  apply negb_true_iff, Z.eqb_neq. intros ->. discriminate.
Qed.

Lemma print_int_no10 z : no10 (print_int z).
Proof.
  unfold no10. eapply forallb_impl; [|apply print_int_unreserved]. intros x Hx.
  apply negb_true_iff, Z.eqb_neq. intros ->. discriminate.
Qed.

(* ---- framing ---- *)
Definition frame (m : rmsg) : bytes :=
  match m with
  | Msg line None => line ++ [10]
  | Msg line (Some p) => (line ++ s_marker ++ print_int (Z.of_nat (length p))) ++ 10 :: p
  end.

Definition wf_msg (m : rmsg) : Prop :=
  match m with Msg line _ => no10 line /\ find_marker line = None end.

Lemma no10_app a b : no10 a -> no10 b -> no10 (a ++ b).
Proof. unfold no10. intros Ha Hb. rewrite forallb_app, Ha, Hb. reflexivity. Qed.

Lemma rfeed_frame m rest :
  wf_msg m ->
  rfeed (RLine []) (frame m ++ rest) = let '(s2, o2) := rfeed (RLine []) rest in (s2, m :: o2).
Proof.
  destruct m as [line [p|]]; intros [H10 HM]; cbn [frame].
  - rewrite <- app_assoc. cbn [app].
    rewrite rfeed_full_line.
    2:{ apply no10_app; [exact H10|]. apply no10_app; [reflexivity|apply print_int_no10]. }
    unfold end_line. rewrite find_marker_frame by exact HM.
    rewrite find_marker_no38 by apply print_int_no38.
    rewrite parse_print_int.
    destruct p as [|b p].
    + cbn [length Z.of_nat Z.ltb Z.eqb Z.compare]. cbn [app].
      destruct (rfeed (RLine []) rest) as [s2 o2]. reflexivity.
    + replace (Z.of_nat (length (b :: p)) <? 0) with false by (symmetry; apply Z.ltb_ge; lia).
      replace (Z.of_nat (length (b :: p)) =? 0) with false
        by (symmetry; apply Z.eqb_neq; cbn [length]; lia).
      rewrite Nat2Z.id.
      rewrite (rfeed_bytes line (b :: p) (length (b :: p)) [] rest eq_refl) by (cbn [length]; lia).
      destruct (rfeed (RLine []) rest) as [s2 o2]. cbn [List.rev app]. reflexivity.
  - rewrite <- app_assoc. cbn [app]. rewrite rfeed_full_line by exact H10.
    unfold end_line. rewrite HM.
    destruct (rfeed (RLine []) rest) as [s2 o2]. reflexivity.
Qed.

Theorem dispatch_in_order_l ms :
  Forall wf_msg ms -> rfeed (RLine []) (flat_map frame ms) = (RLine [], ms).
Proof.
  induction 1 as [|m ms Hm Hms IH]; [reflexivity|].
  cbn [flat_map]. rewrite rfeed_frame by exact Hm. rewrite IH. reflexivity.
Qed.

(* whatever the chunking of the framed stream, the same messages come out in the same order *)
Theorem reassembly_in_order_l ms chunks :
  Forall wf_msg ms -> concat chunks = flat_map frame ms ->
  rfeed_chunks (RLine []) chunks = (RLine [], ms).
Proof.
  intros H E. rewrite reassembly_chunking_independent_l, E. apply dispatch_in_order_l, H.
Qed.

Example wf_example :
  Forall wf_msg [Msg [112;63;97;61;49;38;98;61;50] None; Msg [120] (Some [10;38;0]); Msg [121] (Some [])].
Proof. repeat constructor. Qed.

(* ---- dispatch: handlers run one after the other, in the order sent ---- *)
Fixpoint serialb (t : list (bool * Z)) : bool :=
  match t with
  | [] => true
  | (true, i) :: t' =>
      match t' with
      | (false, j) :: r => (i =? j) && serialb r
      | _ => false
      end
  | _ => false
  end.

Theorem dispatch_serial_l ms : serialb (dispatch_run ms) = true.
Proof.
  unfold dispatch_run. induction ms as [|[k i] ms IH]; [reflexivity|].
  cbn [flat_map fst snd]. destruct k; cbn [app]; [|exact IH].
  cbn [serialb]. rewrite Z.eqb_refl. exact IH.
Qed.

Theorem dispatch_order_l ms :
  map snd (filter (fun e : bool * Z => fst e) (dispatch_run ms)) = map snd (filter (fun m : bool * Z => fst m) ms).
Proof.
  unfold dispatch_run. induction ms as [|[k i] ms IH]; [reflexivity|].
  cbn [flat_map fst snd]. destruct k; cbn [app filter fst map snd]; rewrite IH; reflexivity.
Qed.
