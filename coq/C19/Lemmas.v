(* C19/Lemmas.v — proofs about the BCP codec model. *)
From Common Require Import Prelude.
From C19 Require Import Model.
From Coq Require DecimalZ Decimal DecimalFacts DecimalPos.
Open Scope Z_scope.

Definition is_byte (b : Z) : Prop := 0 <= b < 256.

(* ---------- quote / unquote ---------- *)
Lemma hexval_hexdigit n : 0 <= n < 16 -> hexval (hexdigit n) = Some n.
Proof.
  intros H. unfold hexdigit, hexval.
  destruct (n <? 10) eqn:E.
  - apply Z.ltb_lt in E.
    replace ((48 <=? 48 + n) && (48 + n <=? 57)) with true
      by (symmetry; apply andb_true_iff; split; apply Z.leb_le; lia).
    f_equal; lia.
  - apply Z.ltb_ge in E.
    replace ((48 <=? 55 + n) && (55 + n <=? 57)) with false
      by (symmetry; apply andb_false_iff; right; apply Z.leb_gt; lia).
    replace ((65 <=? 55 + n) && (55 + n <=? 70)) with true
      by (symmetry; apply andb_true_iff; split; apply Z.leb_le; lia).
    f_equal; lia.
Qed.

Lemma unreserved_not_pct b : is_unreserved b = true -> (b =? 37) = false.
Proof.
  unfold is_unreserved. intros H. apply Z.eqb_neq. intros ->. cbn in H. discriminate.
Qed.

Lemma unquote_quote_byte b s : is_byte b -> unquote (quote_byte b ++ s) = b :: unquote s.
Proof.
  intros Hb. unfold quote_byte. destruct (is_unreserved b) eqn:U.
  - cbn [app unquote]. rewrite (unreserved_not_pct _ U). reflexivity.
  - cbn [app unquote]. rewrite Z.eqb_refl.
    unfold is_byte in Hb.
    rewrite hexval_hexdigit by (split; [apply Z.div_pos; lia | apply Z.div_lt_upper_bound; lia]).
    rewrite hexval_hexdigit by (apply Z.mod_pos_bound; lia).
    f_equal. rewrite Z.mul_comm. symmetry. apply Z.div_mod. lia.
Qed.

Lemma unquote_quote_app s r : Forall is_byte s -> unquote (quote s ++ r) = s ++ unquote r.
Proof.
  induction 1 as [|b s Hb Hs IH]; [reflexivity|].
  unfold quote in *. cbn [flat_map]. rewrite <- app_assoc.
  rewrite unquote_quote_byte by exact Hb. rewrite IH. reflexivity.
Qed.

Lemma unquote_quote s : Forall is_byte s -> unquote (quote s) = s.
Proof.
  intros H. rewrite <- (app_nil_r (quote s)). rewrite unquote_quote_app by exact H.
  cbn. apply app_nil_r.
Qed.

(* characters that can appear in quote's output *)
Definition qsafe (c : Z) : bool := is_unreserved c || (c =? 37).

Lemma hexdigit_unreserved n : 0 <= n < 16 -> is_unreserved (hexdigit n) = true.
Proof.
  intros H. unfold hexdigit, is_unreserved. destruct (n <? 10) eqn:E.
  - apply Z.ltb_lt in E.
    replace ((48 <=? 48 + n) && (48 + n <=? 57)) with true
      by (symmetry; apply andb_true_iff; split; apply Z.leb_le; lia).
    rewrite !orb_true_r. reflexivity.
  - apply Z.ltb_ge in E.
    replace ((65 <=? 55 + n) && (55 + n <=? 90)) with true
      by (symmetry; apply andb_true_iff; split; apply Z.leb_le; lia).
    reflexivity.
Qed.

Lemma quote_qsafe s : Forall is_byte s -> forallb qsafe (quote s) = true.
Proof.
  induction 1 as [|b s Hb Hs IH]; [reflexivity|].
  unfold quote in *. cbn [flat_map]. rewrite forallb_app, IH, andb_true_r.
  unfold quote_byte. destruct (is_unreserved b) eqn:U.
  - cbn. unfold qsafe. rewrite U. reflexivity.
  - unfold is_byte in Hb. cbn [forallb]. unfold qsafe at 1. cbn [Z.eqb orb].
    unfold qsafe.
    rewrite hexdigit_unreserved by (split; [apply Z.div_pos; lia | apply Z.div_lt_upper_bound; lia]).
    rewrite hexdigit_unreserved by (apply Z.mod_pos_bound; lia).
    reflexivity.
Qed.

Lemma qsafe_not c x : qsafe c = true -> qsafe x = false -> (c =? x) = false.
Proof. intros H1 H2. apply Z.eqb_neq. intros ->. congruence. Qed.

(* values of an encoded pair may also contain ':' *)
Definition vsafe (c : Z) : bool := qsafe c || (c =? 58).

Lemma qsafe_vsafe l : forallb qsafe l = true -> forallb vsafe l = true.
Proof.
  induction l as [|c l IH]; [reflexivity|]. cbn. intros H. apply andb_true_iff in H as [H1 H2].
  unfold vsafe at 1. rewrite H1, IH by exact H2. reflexivity.
Qed.

(* ---------- str(int) / int() ---------- *)
Lemma bytes_uint_uint_bytes u : bytes_uint (uint_bytes u) = Some u.
Proof. induction u; cbn [uint_bytes bytes_uint]; try rewrite IHu; reflexivity. Qed.

Lemma uint_bytes_unreserved u : forallb is_unreserved (uint_bytes u) = true.
Proof. induction u; cbn [uint_bytes forallb]; try rewrite IHu; reflexivity. Qed.

Lemma uint_bytes_nonempty_first u c t : uint_bytes u = c :: t -> (c =? 45) = false /\ (c =? 43) = false.
Proof. destruct u; cbn; intros E; inversion E; subst; split; reflexivity. Qed.

Lemma to_int_nonnil z : match Z.to_int z with Decimal.Pos u | Decimal.Neg u => u <> Decimal.Nil end.
Proof.
  destruct z as [|p|p]; cbn; try discriminate.
  - intros E. apply (f_equal Pos.of_uint) in E. rewrite DecimalPos.Unsigned.of_to in E. discriminate.
  - intros E. apply (f_equal Pos.of_uint) in E. rewrite DecimalPos.Unsigned.of_to in E. discriminate.
Qed.

Lemma uint_bytes_nil u : uint_bytes u = [] -> u = Decimal.Nil.
Proof. destruct u; cbn; congruence. Qed.

Lemma parse_print_int z : parse_int (print_int z) = Some z.
Proof.
  unfold print_int. pose proof (to_int_nonnil z) as NN. pose proof (DecimalZ.of_to z) as OT.
  destruct (Z.to_int z) as [u|u].
  - unfold parse_int. destruct (uint_bytes u) as [|c t] eqn:E.
    + apply uint_bytes_nil in E. contradiction.
    + destruct (uint_bytes_nonempty_first _ _ _ E) as [E1 E2]. rewrite E1, E2.
      rewrite <- E, bytes_uint_uint_bytes. cbn [option_map]. rewrite OT. reflexivity.
  - unfold parse_int. rewrite Z.eqb_refl.
    destruct (uint_bytes u) as [|c t] eqn:E.
    + apply uint_bytes_nil in E. contradiction.
    + rewrite <- E, bytes_uint_uint_bytes. cbn [option_map]. rewrite OT. reflexivity.
Qed.

Lemma quote_unreserved s : forallb is_unreserved s = true -> quote s = s.
Proof.
  induction s as [|c s IH]; [reflexivity|]. cbn [forallb]. intros H.
  apply andb_true_iff in H as [H1 H2]. unfold quote in *. cbn [flat_map].
  unfold quote_byte at 1. rewrite H1. cbn [app]. rewrite IH by exact H2. reflexivity.
Qed.

Lemma print_int_unreserved z : forallb is_unreserved (print_int z) = true.
Proof.
  unfold print_int. destruct (Z.to_int z); cbn [forallb]; rewrite uint_bytes_unreserved; reflexivity.
Qed.

Lemma quote_print_int z : quote (print_int z) = print_int z.
Proof. apply quote_unreserved, print_int_unreserved. Qed.

(* ---------- splitting ---------- *)
Lemma split_first_app sep a b :
  forallb (fun c => negb (c =? sep)) a = true ->
  split_first sep (a ++ sep :: b) = (a, Some b).
Proof.
  induction a as [|c a IH]; cbn [app split_first forallb].
  - rewrite Z.eqb_refl. reflexivity.
  - intros H. apply andb_true_iff in H as [H1 H2]. apply negb_true_iff in H1. rewrite H1.
    rewrite IH by exact H2. reflexivity.
Qed.

Lemma split_first_none sep a :
  forallb (fun c => negb (c =? sep)) a = true -> split_first sep a = (a, None).
Proof.
  induction a as [|c a IH]; cbn [split_first forallb]; [reflexivity|].
  intros H. apply andb_true_iff in H as [H1 H2]. apply negb_true_iff in H1. rewrite H1.
  rewrite IH by exact H2. reflexivity.
Qed.

Lemma split_on_nosep sep a :
  forallb (fun c => negb (c =? sep)) a = true -> split_on sep a = [a].
Proof.
  induction a as [|c a IH]; cbn [split_on forallb]; [reflexivity|].
  intros H. apply andb_true_iff in H as [H1 H2]. apply negb_true_iff in H1. rewrite H1.
  rewrite IH by exact H2. reflexivity.
Qed.

Lemma split_on_app sep a b :
  forallb (fun c => negb (c =? sep)) a = true ->
  split_on sep (a ++ sep :: b) = a :: split_on sep b.
Proof.
  induction a as [|c a IH]; cbn [app split_on forallb].
  - rewrite Z.eqb_refl. reflexivity.
  - intros H. apply andb_true_iff in H as [H1 H2]. apply negb_true_iff in H1. rewrite H1.
    rewrite IH by exact H2. reflexivity.
Qed.

Fixpoint join (sep : Z) (l : list bytes) : bytes :=
  match l with
  | [] => []
  | [x] => x
  | x :: r => x ++ sep :: join sep r
  end.

Lemma removelast_app_sep (x : bytes) sep : removelast (x ++ [sep]) = x.
Proof. apply removelast_last. Qed.

Lemma encode_query_join kw : encode_query kw = join 38 (map encode_pair kw).
Proof.
  unfold encode_query. induction kw as [|kv kw IH]; [reflexivity|].
  cbn [flat_map map]. destruct kw as [|kv2 kw].
  - cbn [flat_map join]. rewrite app_nil_r. apply removelast_last.
  - cbn [join]. change (map encode_pair (kv2 :: kw)) with (encode_pair kv2 :: map encode_pair kw) in *.
    rewrite <- IH. rewrite <- app_assoc. cbn [app].
    rewrite removelast_app.
    + f_equal. cbn [flat_map].
      destruct (encode_pair kv2 ++ [38]) eqn:E; [destruct (encode_pair kv2); discriminate|].
      reflexivity.
    + cbn [flat_map]. destruct (encode_pair kv2); discriminate.
Qed.

Lemma split_on_join sep l :
  l <> [] -> Forall (fun f => forallb (fun c => negb (c =? sep)) f = true) l ->
  split_on sep (join sep l) = l.
Proof.
  induction l as [|x l IH]; [congruence|]. intros _ H. inversion H as [|? ? Hx Hl]; subst.
  destruct l as [|y l].
  - cbn [join]. apply split_on_nosep; exact Hx.
  - cbn [join]. rewrite split_on_app by exact Hx. f_equal. apply IH; [discriminate|exact Hl].
Qed.

(* ---------- cleanliness of encoded pieces ---------- *)
Lemma forallb_impl {A} (p q : A -> bool) l :
  (forall x, p x = true -> q x = true) -> forallb p l = true -> forallb q l = true.
Proof.
  intros Hpq. induction l as [|x l IH]; [reflexivity|]. cbn. intros H.
  apply andb_true_iff in H as [H1 H2]. rewrite (Hpq _ H1), IH by exact H2. reflexivity.
Qed.

Lemma vsafe_no c x : vsafe x = false -> vsafe c = true -> negb (c =? x) = true.
Proof. intros Hx Hc. apply negb_true_iff, Z.eqb_neq. intros ->. congruence. Qed.

Definition float_text_ok (t : bytes) : Prop := Forall is_byte t.

Lemma encode_value_vsafe v :
  match v with VStr s => Forall is_byte s | VFloat t => Forall is_byte t | _ => True end ->
  forallb vsafe (encode_value v) = true.
Proof.
  destruct v as [s|z|t|b|]; cbn [encode_value]; intros H.
  - apply qsafe_vsafe, quote_qsafe, H.
  - rewrite forallb_app. apply andb_true_iff; split; [reflexivity|].
    rewrite quote_print_int. eapply forallb_impl; [|apply print_int_unreserved].
    intros x Hx. unfold vsafe, qsafe. rewrite Hx. reflexivity.
  - rewrite forallb_app. apply andb_true_iff; split; [reflexivity|].
    apply qsafe_vsafe, quote_qsafe, H.
  - destruct b; reflexivity.
  - reflexivity.
Qed.

Lemma plus_to_space_id l : forallb (fun c => negb (c =? 43)) l = true -> plus_to_space l = l.
Proof.
  unfold plus_to_space. induction l as [|c l IH]; [reflexivity|]. cbn [map forallb]. intros H.
  apply andb_true_iff in H as [H1 H2].
  apply negb_true_iff in H1. rewrite H1, IH by exact H2. reflexivity.
Qed.

Lemma unquote_app_nopct p s :
  forallb (fun c => negb (c =? 37)) p = true -> unquote (p ++ s) = p ++ unquote s.
Proof.
  induction p as [|c p IH]; [reflexivity|]. cbn [forallb app unquote]. intros H.
  apply andb_true_iff in H as [H1 H2]. apply negb_true_iff in H1. rewrite H1, IH by exact H2.
  reflexivity.
Qed.

Lemma unreserved_bytes l : forallb is_unreserved l = true -> Forall is_byte l.
Proof.
  induction l as [|c l IH]; intros U; constructor.
  - cbn in U. apply andb_true_iff in U as [U _]. unfold is_unreserved in U. unfold is_byte. lia.
  - apply IH. cbn in U. apply andb_true_iff in U as [_ U]. exact U.
Qed.

Lemma print_int_bytes z : Forall is_byte (print_int z).
Proof. apply unreserved_bytes, print_int_unreserved. Qed.

Definition typed_text (v : value) : bytes :=
  match v with
  | VBool b => s_bool ++ (if b then s_true else s_false)
  | VInt z => s_int ++ print_int z
  | VFloat t => s_float ++ t
  | VNone => s_none
  | VStr s => s
  end.

Lemma unquote_encode_value v :
  match v with VStr s => Forall is_byte s | VFloat t => Forall is_byte t | _ => True end ->
  unquote (encode_value v) = typed_text v.
Proof.
  destruct v as [s|z|t|b|]; cbn [encode_value typed_text]; intros H.
  - apply unquote_quote, H.
  - rewrite unquote_app_nopct by reflexivity. f_equal. apply unquote_quote, print_int_bytes.
  - rewrite unquote_app_nopct by reflexivity. f_equal. apply unquote_quote, H.
  - destruct b; reflexivity.
  - reflexivity.
Qed.

Lemma parse_field_pair k v :
  Forall is_byte k ->
  match v with VStr s => Forall is_byte s | VFloat t => Forall is_byte t | _ => True end ->
  parse_field (encode_pair (k, v)) = (k, typed_text v).
Proof.
  intros Hk Hv. unfold parse_field, encode_pair. cbn [fst snd app].
  rewrite split_first_app.
  2:{ eapply forallb_impl; [|apply quote_qsafe, Hk]. intros x Hx.
      apply negb_true_iff. apply qsafe_not with (x := 61) in Hx; [exact Hx|reflexivity]. }
  rewrite plus_to_space_id.
  2:{ eapply forallb_impl; [|apply quote_qsafe, Hk]. intros x Hx.
      apply negb_true_iff. apply qsafe_not with (x := 43) in Hx; [exact Hx|reflexivity]. }
  rewrite plus_to_space_id.
  2:{ eapply forallb_impl; [|apply encode_value_vsafe, Hv]. intros x Hx.
      apply vsafe_no with (x := 43); [reflexivity|exact Hx]. }
  rewrite unquote_quote by exact Hk. rewrite unquote_encode_value by exact Hv. reflexivity.
Qed.

Definition pair_ok (kv : bytes * value) : Prop :=
  Forall is_byte (fst kv) /\
  match snd kv with VStr s => Forall is_byte s | VFloat t => Forall is_byte t | _ => True end.

Lemma encode_pair_noamp kv : pair_ok kv ->
  forallb (fun c => negb (c =? 38)) (encode_pair kv) = true.
Proof.
  intros [Hk Hv]. unfold encode_pair. rewrite !forallb_app.
  apply andb_true_iff; split; [|apply andb_true_iff; split; [reflexivity|]].
  - eapply forallb_impl; [|apply quote_qsafe, Hk]. intros x Hx.
    apply negb_true_iff. apply qsafe_not with (x := 38) in Hx; [exact Hx|reflexivity].
  - eapply forallb_impl; [|apply encode_value_vsafe, Hv]. intros x Hx.
    apply vsafe_no with (x := 38); [reflexivity|exact Hx].
Qed.

Lemma encode_pair_nonnil kv : is_nil (encode_pair kv) = false.
Proof. unfold encode_pair. destruct (quote (fst kv)); reflexivity. Qed.

Lemma filter_nonnil_pairs kw :
  filter (fun f => negb (is_nil f)) (map encode_pair kw) = map encode_pair kw.
Proof.
  induction kw as [|kv kw IH]; [reflexivity|]. cbn [map filter].
  rewrite encode_pair_nonnil. cbn. rewrite IH. reflexivity.
Qed.

Lemma join_nonnil l : l <> [] -> Forall (fun f => is_nil f = false) l -> is_nil (join 38 l) = false.
Proof.
  destruct l as [|x l]; [congruence|]. intros _ H. inversion H; subst.
  destruct l; cbn [join]; [assumption|]. destruct x; [discriminate|reflexivity].
Qed.

Lemma parse_qsl_encode kw :
  Forall pair_ok kw ->
  parse_qsl (encode_query kw) = map (fun kv => (fst kv, typed_text (snd kv))) kw.
Proof.
  intros H. rewrite encode_query_join. destruct kw as [|kv0 kw0] eqn:EK; [reflexivity|].
  rewrite <- EK in *. assert (NE : kw <> []) by (subst; discriminate).
  unfold parse_qsl. rewrite join_nonnil.
  2:{ destruct kw; [congruence|discriminate]. }
  2:{ apply Forall_forall. intros f Hf. apply in_map_iff in Hf as [kv [<- _]]. apply encode_pair_nonnil. }
  rewrite split_on_join.
  2:{ destruct kw; [congruence|discriminate]. }
  2:{ apply Forall_forall. intros f Hf. apply in_map_iff in Hf as [kv [<- Hin]].
      apply encode_pair_noamp. rewrite Forall_forall in H. apply H, Hin. }
  rewrite filter_nonnil_pairs. rewrite map_map.
  apply map_ext_in. intros [k v] Hin. rewrite Forall_forall in H. destruct (H _ Hin) as [Hk Hv].
  apply parse_field_pair; assumption.
Qed.

(* ---------- dict of first values ---------- *)
Lemma mem_key_false k seen : ~ In k seen -> mem_key k seen = false.
Proof.
  induction seen as [|s seen IH]; [reflexivity|]. cbn. intros H.
  destruct (zs_eqb k s) eqn:E.
  - apply zs_eqb_spec in E. subst. exfalso. apply H. left; reflexivity.
  - cbn. apply IH. intros Hin. apply H. right; exact Hin.
Qed.

Lemma first_values_nodup seen (l : list (bytes * bytes)) :
  NoDup (map fst l) -> (forall k, In k (map fst l) -> ~ In k seen) -> first_values seen l = l.
Proof.
  revert seen. induction l as [|[k v] l IH]; [reflexivity|]. intros seen ND Hd.
  cbn [first_values]. rewrite mem_key_false by (apply Hd; left; reflexivity).
  f_equal. inversion ND as [|? ? Hnin ND']; subst. apply IH; [exact ND'|].
  intros k' Hk' [<-|Hin]; [contradiction|]. apply (Hd k'); [right; exact Hk'|exact Hin].
Qed.

(* ---------- typed decoding ---------- *)
Definition str_unambiguous (s : bytes) : Prop :=
  zs_prefixb s_int s = false /\ zs_prefixb s_float s = false /\
  zs_eqb (lower_ascii s) s_booltrue = false /\ zs_eqb (lower_ascii s) s_boolfalse = false /\
  zs_eqb s s_none = false.

Definition value_ok (float_ok : bytes -> bool) (v : value) : Prop :=
  match v with
  | VStr s => Forall is_byte s /\ str_unambiguous s
  | VFloat t => Forall is_byte t /\ float_ok t = true
  | _ => True
  end.

Lemma decode_value_typed float_ok v :
  value_ok float_ok v -> decode_value float_ok (typed_text v) = DVal v.
Proof.
  destruct v as [s|z|t|b|]; cbn [typed_text value_ok]; intros H.
  - destruct H as [_ (H1 & H2 & H3 & H4 & H5)]. unfold decode_value.
    rewrite H1, H2, H3, H4, H5. reflexivity.
  - unfold decode_value. rewrite zs_prefixb_app. cbn [skipn s_int app]. rewrite parse_print_int.
    reflexivity.
  - destruct H as [_ H]. unfold decode_value. cbn [s_float s_int app zs_prefixb Z.eqb andb].
    cbn [skipn]. rewrite H. reflexivity.
  - destruct b; reflexivity.
  - reflexivity.
Qed.

(* ---------- urlsplit pieces ---------- *)
Definition cmd_char (c : Z) : bool :=
  ((97 <=? c) && (c <=? 122)) || ((48 <=? c) && (c <=? 57)) || (c =? 95).

Lemma cmd_char_not c x : cmd_char c = true -> cmd_char x = false -> negb (c =? x) = true.
Proof. intros H1 H2. apply negb_true_iff, Z.eqb_neq. intros ->. congruence. Qed.

Lemma forallb_scheme_false a b :
  forallb is_scheme_char (a ++ 63 :: b) = false.
Proof. rewrite forallb_app. cbn. apply andb_false_r. Qed.

Lemma split_first_prefix sep a b pre rest :
  (63 =? sep) = false ->
  forallb (fun c => negb (c =? sep)) a = true ->
  split_first sep (a ++ 63 :: b) = (pre, Some rest) -> exists b', pre = a ++ 63 :: b'.
Proof.
  intros Es. revert pre. induction a as [|c a IH]; cbn [app forallb]; intros pre H E.
  - cbn [split_first] in E. rewrite Es in E.
    destruct (split_first sep b) as [x y] eqn:Eb. inversion E; subst. exists x. reflexivity.
  - apply andb_true_iff in H as [H1 H2]. apply negb_true_iff in H1.
    cbn [split_first] in E. rewrite H1 in E.
    destruct (split_first sep (a ++ 63 :: b)) as [x y] eqn:Eb. inversion E; subst.
    destruct (IH x H2 eq_refl) as [b' ->]. exists b'. reflexivity.
Qed.

Lemma strip_scheme_query cmd q :
  forallb cmd_char cmd = true -> strip_scheme (cmd ++ 63 :: q) = cmd ++ 63 :: q.
Proof.
  intros Hc. unfold strip_scheme.
  destruct (split_first 58 (cmd ++ 63 :: q)) as [pre [rest|]] eqn:E; [|reflexivity].
  apply split_first_prefix in E as [b' ->]; [|reflexivity|].
  2:{ eapply forallb_impl; [|exact Hc]. intros x Hx. apply cmd_char_not with (x := 58); [exact Hx|reflexivity]. }
  destruct (cmd ++ 63 :: b') eqn:E2; [reflexivity|]. rewrite <- E2.
  rewrite forallb_scheme_false. rewrite andb_false_r. reflexivity.
Qed.

Lemma strip_scheme_plain cmd :
  forallb cmd_char cmd = true -> strip_scheme cmd = cmd.
Proof.
  intros Hc. unfold strip_scheme. rewrite split_first_none; [reflexivity|].
  eapply forallb_impl; [|exact Hc]. intros x Hx. apply cmd_char_not with (x := 58); [exact Hx|reflexivity].
Qed.

(* "json=" prefix test on an encoded query *)
Lemma prefix_eq_noeq p a r :
  forallb (fun c => negb (c =? 61)) p = true -> forallb (fun c => negb (c =? 61)) a = true ->
  zs_prefixb (p ++ [61]) (a ++ 61 :: r) = true -> a = p.
Proof.
  revert a. induction p as [|x p IH]; intros a Hp Ha H.
  - destruct a as [|y a]; [reflexivity|]. cbn [app zs_prefixb] in H. cbn [forallb] in Ha.
    apply andb_true_iff in Ha as [Ha _]. apply negb_true_iff in Ha.
    apply andb_true_iff in H as [H _]. rewrite Z.eqb_sym in H. congruence.
  - cbn [forallb] in Hp. apply andb_true_iff in Hp as [Hx Hp]. apply negb_true_iff in Hx.
    destruct a as [|y a].
    + cbn [app zs_prefixb] in H. apply andb_true_iff in H as [H _]. congruence.
    + cbn [app zs_prefixb] in H. apply andb_true_iff in H as [H1 H2]. apply Z.eqb_eq in H1. subst y.
      cbn [forallb] in Ha. apply andb_true_iff in Ha as [_ Ha]. f_equal. apply IH; assumption.
Qed.

Definition first_key_not_json (kw : list (bytes * value)) : Prop :=
  match kw with [] => True | (k, _) :: _ => k <> s_jsonkey end.

Lemma join_head x l : exists r, join 38 (x :: l) = x ++ r.
Proof. destruct l; cbn [join]; [exists []; symmetry; apply app_nil_r | eexists; reflexivity]. Qed.

Lemma json_prefix_false kw :
  Forall pair_ok kw -> first_key_not_json kw -> zs_prefixb s_json (encode_query kw) = false.
Proof.
  intros H NJ. destruct kw as [|[k v] kw]; [reflexivity|].
  rewrite encode_query_join. cbn [map]. destruct (join_head (encode_pair (k, v)) (map encode_pair kw)) as [r ->].
  unfold encode_pair. cbn [fst snd]. rewrite <- !app_assoc. cbn [app].
  destruct (zs_prefixb s_json (quote k ++ 61 :: encode_value v ++ r)) eqn:E; [|reflexivity].
  exfalso. inversion H as [|? ? [Hk _] _]; subst. cbn [fst] in Hk.
  apply (prefix_eq_noeq s_jsonkey) in E; [| reflexivity |].
  - apply NJ. rewrite <- (unquote_quote k Hk), E. reflexivity.
  - eapply forallb_impl; [|apply quote_qsafe, Hk]. intros x Hx.
    apply negb_true_iff. apply qsafe_not with (x := 61) in Hx; [exact Hx|reflexivity].
Qed.

(* ---------- the round trip ---------- *)
Theorem roundtrip_partial_l float_ok cmd kw :
  forallb cmd_char cmd = true ->
  NoDup (map fst kw) ->
  Forall (fun kv => Forall is_byte (fst kv) /\ value_ok float_ok (snd kv)) kw ->
  first_key_not_json kw ->
  decode float_ok (encode cmd kw) = DKw cmd (map (fun kv => (fst kv, DVal (snd kv))) kw).
Proof.
  intros Hc ND Hok NJ.
  assert (Hp : Forall pair_ok kw).
  { eapply Forall_impl; [|exact Hok]. intros [k v] [Hk Hv]. split; [exact Hk|].
    cbn [snd] in *. destruct v; cbn in Hv |- *; tauto. }
  unfold decode, encode, unparse.
  destruct (is_nil (encode_query kw)) eqn:EN.
  - (* empty query: kw = [] *)
    destruct kw as [|kv kw].
    + rewrite strip_scheme_plain by exact Hc. rewrite split_first_none.
      2:{ eapply forallb_impl; [|exact Hc]. intros x Hx. apply cmd_char_not with (x := 63); [exact Hx|reflexivity]. }
      reflexivity.
    + exfalso. rewrite encode_query_join in EN. rewrite join_nonnil in EN; [discriminate|discriminate|].
      apply Forall_forall. intros f Hf. apply in_map_iff in Hf as [x [<- _]]. apply encode_pair_nonnil.
  - cbn [app]. rewrite strip_scheme_query by exact Hc.
    rewrite split_first_app.
    2:{ eapply forallb_impl; [|exact Hc]. intros x Hx. apply cmd_char_not with (x := 63); [exact Hx|reflexivity]. }
    rewrite json_prefix_false by assumption.
    f_equal. unfold parse_qs_first. rewrite parse_qsl_encode by exact Hp.
    rewrite first_values_nodup.
    + rewrite map_map. apply map_ext_in. intros [k v] Hin. cbn [fst snd]. f_equal.
      apply decode_value_typed. rewrite Forall_forall in Hok. apply (Hok _ Hin).
    + rewrite map_map. cbn [fst]. exact ND.
    + intros k _ [].
Qed.

(* JSON mode: the payload text comes back unchanged *)
Theorem json_mode_roundtrip_l float_ok cmd txt :
  forallb cmd_char cmd = true ->
  decode float_ok (encode_json cmd txt) = DJson cmd txt.
Proof.
  intros Hc. unfold decode, encode_json, unparse. cbn [s_json app is_nil].
  change (cmd ++ 63 :: 106 :: 115 :: 111 :: 110 :: 61 :: txt) with (cmd ++ 63 :: (s_json ++ txt)).
  rewrite strip_scheme_query by exact Hc.
  rewrite split_first_app.
  2:{ eapply forallb_impl; [|exact Hc]. intros x Hx. apply cmd_char_not with (x := 63); [exact Hx|reflexivity]. }
  rewrite zs_prefixb_app. reflexivity.
Qed.

(* an encoded message is a single line: no raw newline *)
Theorem line_is_single_l cmd kw :
  forallb cmd_char cmd = true -> Forall pair_ok kw ->
  ~ In 10 (encode cmd kw).
Proof.
  intros Hc Hp. unfold encode, unparse.
  assert (Hcmd : ~ In 10 cmd).
  { intros Hin. rewrite forallb_forall in Hc. specialize (Hc _ Hin). discriminate. }
  assert (Hq : ~ In 10 (encode_query kw)).
  { rewrite encode_query_join. clear Hc Hcmd. induction kw as [|kv kw IH]; [intros []|].
    inversion Hp as [|? ? [Hk Hv] Hp']; subst. cbn [map].
    assert (Hkv : ~ In 10 (encode_pair kv)).
    { unfold encode_pair. intros Hin. apply in_app_or in Hin as [Hin|Hin].
      - pose proof (quote_qsafe _ Hk) as Q. rewrite forallb_forall in Q. specialize (Q _ Hin). discriminate.
      - apply in_app_or in Hin as [[E|[]]|Hin]; [discriminate|].
        pose proof (encode_value_vsafe _ Hv) as Q. rewrite forallb_forall in Q. specialize (Q _ Hin). discriminate. }
    destruct kw as [|kv2 kw]; cbn [join map]; [exact Hkv|].
    intros Hin. apply in_app_or in Hin as [Hin|[E|Hin]]; [contradiction|discriminate|].
    apply (IH Hp'). exact Hin. }
  destruct (is_nil (encode_query kw)); [exact Hcmd|].
  intros Hin. apply in_app_or in Hin as [Hin|[E|Hin]]; [contradiction|discriminate|contradiction].
Qed.

(* ---------- refutations of the unguarded statement (kept: the unchanged code has them) ---------- *)
Definition all_floats_ok (_ : bytes) := true.

Theorem roundtrip_refuted_prefix_l :
  exists kw, NoDup (map fst kw) /\ first_key_not_json kw /\
    decode all_floats_ok (encode [120] kw) <> DKw [120] (map (fun kv => (fst kv, DVal (snd kv))) kw).
Proof.
  exists [([97], VStr [105;110;116;58;53])].   (* a = "int:5" *)
  split; [repeat constructor; intros []|]. split; [cbn; discriminate|].
  vm_compute. discriminate.
Qed.

Theorem roundtrip_refuted_jsonkey_l :
  exists kw, NoDup (map fst kw) /\
    decode all_floats_ok (encode [120] kw) <> DKw [120] (map (fun kv => (fst kv, DVal (snd kv))) kw).
Proof.
  exists [(s_jsonkey, VInt 1)].
  split; [repeat constructor; intros []|]. vm_compute. discriminate.
Qed.

(* ---------- the reader ---------- *)
Lemma rfeed_app st a b :
  rfeed st (a ++ b) =
  let '(st1, o1) := rfeed st a in let '(st2, o2) := rfeed st1 b in (st2, o1 ++ o2).
Proof.
  revert st. induction a as [|x a IH]; intros st; cbn [app rfeed].
  - destruct (rfeed st b); reflexivity.
  - destruct (rstep st x) as [s1 o1]. rewrite IH.
    destruct (rfeed s1 a) as [s2 o2]. destruct (rfeed s2 b) as [s3 o3].
    rewrite app_assoc. reflexivity.
Qed.

Theorem reassembly_chunking_independent_l st chunks :
  rfeed_chunks st chunks = rfeed st (concat chunks).
Proof.
  revert st. induction chunks as [|c cs IH]; intros st; cbn [rfeed_chunks concat]; [reflexivity|].
  rewrite rfeed_app. destruct (rfeed st c) as [s1 o1]. rewrite IH. reflexivity.
Qed.

(* non-vacuity: a concrete message satisfies the guards of the round trip *)
Example roundtrip_guards_satisfiable :
  let kw := [([110;97;109;101], VStr [104;105;32;37;52;49;38;61]); ([110], VInt (-42));
             ([102], VFloat [49;46;53]); ([98], VBool true); ([122], VNone)] in
  forallb cmd_char [116;114;105;103] = true /\ NoDup (map fst kw) /\ first_key_not_json kw /\
  decode all_floats_ok (encode [116;114;105;103] kw)
    = DKw [116;114;105;103] (map (fun kv => (fst kv, DVal (snd kv))) kw).
Proof.
  cbv zeta. split; [reflexivity|]. split.
  - repeat constructor; cbn; intuition discriminate.
  - split; [cbn; discriminate|]. vm_compute. reflexivity.
Qed.
