(* C19/Model.v — executable model of mpf/core/bcp/bcp_socket_client.py
   (encode_command_string, decode_command_string, read_message), with byte-level models of the
   pieces of urllib.parse MPF's logic interacts with (quote, unquote, parse_qs, urlsplit's
   scheme/query split, urlunparse).  Strings are UTF-8 byte lists (list Z, 0..255).
   Definitions only; proofs are in Lemmas.v. *)
From Common Require Import Prelude.
From Coq Require Import DecimalZ Decimal.
Open Scope Z_scope.

Definition bytes := list Z.

(* ---- urllib.parse.quote(s, safe='') ------------------------------------------------------- *)
Definition is_unreserved (b : Z) : bool :=
  ((65 <=? b) && (b <=? 90)) || ((97 <=? b) && (b <=? 122)) || ((48 <=? b) && (b <=? 57))
  || (b =? 95) || (b =? 46) || (b =? 45) || (b =? 126).

Definition hexdigit (n : Z) : Z := if n <? 10 then 48 + n else 55 + n.   (* '0'-'9','A'-'F' *)

Definition quote_byte (b : Z) : bytes :=
  if is_unreserved b then [b] else [37; hexdigit (b / 16); hexdigit (b mod 16)].

Definition quote (s : bytes) : bytes := flat_map quote_byte s.

(* ---- urllib.parse.unquote (bytes level: _unquote_impl) ------------------------------------ *)
Definition hexval (c : Z) : option Z :=
  if (48 <=? c) && (c <=? 57) then Some (c - 48)
  else if (65 <=? c) && (c <=? 70) then Some (c - 55)
  else if (97 <=? c) && (c <=? 102) then Some (c - 87)
  else None.

Fixpoint unquote (s : bytes) : bytes :=
  match s with
  | [] => []
  | c :: t =>
      if c =? 37 then
        match t with
        | h :: l :: rest =>
            match hexval h, hexval l with
            | Some a, Some b => (a * 16 + b) :: unquote rest
            | _, _ => 37 :: unquote t
            end
        | _ => 37 :: unquote t
        end
      else c :: unquote t
  end.

(* ---- str.split(sep) on one byte, str.split('=', 1), replace('+',' ') ----------------------- *)
Fixpoint split_on (sep : Z) (s : bytes) : list bytes :=
  match s with
  | [] => [[]]
  | c :: t =>
      if c =? sep then [] :: split_on sep t
      else match split_on sep t with
           | [] => [[c]]          (* unreachable: split_on never returns [] *)
           | h :: r => (c :: h) :: r
           end
  end.

Fixpoint split_first (sep : Z) (s : bytes) : bytes * option bytes :=
  match s with
  | [] => ([], None)
  | c :: t =>
      if c =? sep then ([], Some t)
      else let '(a, b) := split_first sep t in (c :: a, b)
  end.

Definition plus_to_space (s : bytes) : bytes := map (fun c => if c =? 43 then 32 else c) s.

(* ---- urllib.parse.parse_qs(q, keep_blank_values=True) then MPF's v[0] ---------------------- *)
Definition parse_field (nv : bytes) : bytes * bytes :=
  let '(n, v) := split_first 61 nv in
  (unquote (plus_to_space n),
   unquote (plus_to_space (match v with Some x => x | None => [] end))).

Definition is_nil {A} (l : list A) : bool := match l with [] => true | _ => false end.

Definition parse_qsl (q : bytes) : list (bytes * bytes) :=
  if is_nil q then []
  else map parse_field (filter (fun f => negb (is_nil f)) (split_on 38 q)).

Fixpoint mem_key (k : bytes) (l : list bytes) : bool :=
  match l with [] => false | k' :: l' => zs_eqb k k' || mem_key k l' end.

(* dict of first values, in first-occurrence order *)
Fixpoint first_values (seen : list bytes) (l : list (bytes * bytes)) : list (bytes * bytes) :=
  match l with
  | [] => []
  | (k, v) :: l' =>
      if mem_key k seen then first_values seen l'
      else (k, v) :: first_values (k :: seen) l'
  end.

Definition parse_qs_first (q : bytes) : list (bytes * bytes) := first_values [] (parse_qsl q).

(* ---- typed values --------------------------------------------------------------------------- *)
Inductive value :=
| VStr (s : bytes)
| VInt (z : Z)
| VFloat (txt : bytes)     (* str(float): float<->text conversion is CPython, trusted *)
| VBool (b : bool)
| VNone.

Definition value_eqb (a b : value) : bool :=
  match a, b with
  | VStr x, VStr y => zs_eqb x y
  | VInt x, VInt y => Z.eqb x y
  | VFloat x, VFloat y => zs_eqb x y
  | VBool x, VBool y => Bool.eqb x y
  | VNone, VNone => true
  | _, _ => false
  end.

(* str(int) / int(text) through Coq's Decimal library *)
Fixpoint uint_bytes (u : Decimal.uint) : bytes :=
  match u with
  | Nil => []
  | D0 u => 48 :: uint_bytes u | D1 u => 49 :: uint_bytes u | D2 u => 50 :: uint_bytes u
  | D3 u => 51 :: uint_bytes u | D4 u => 52 :: uint_bytes u | D5 u => 53 :: uint_bytes u
  | D6 u => 54 :: uint_bytes u | D7 u => 55 :: uint_bytes u | D8 u => 56 :: uint_bytes u
  | D9 u => 57 :: uint_bytes u
  end.

Definition print_int (z : Z) : bytes :=
  match Z.to_int z with
  | Pos u => uint_bytes u
  | Neg u => 45 :: uint_bytes u
  end.

Fixpoint bytes_uint (s : bytes) : option Decimal.uint :=
  match s with
  | [] => Some Nil
  | c :: t =>
      match bytes_uint t with
      | None => None
      | Some u =>
          if c =? 48 then Some (D0 u) else if c =? 49 then Some (D1 u)
          else if c =? 50 then Some (D2 u) else if c =? 51 then Some (D3 u)
          else if c =? 52 then Some (D4 u) else if c =? 53 then Some (D5 u)
          else if c =? 54 then Some (D6 u) else if c =? 55 then Some (D7 u)
          else if c =? 56 then Some (D8 u) else if c =? 57 then Some (D9 u)
          else None
      end
  end.

(* int(text) for the grammar [+-]?[0-9]+ ; anything else is a ValueError (None).  Python also
   accepts surrounding whitespace, '_' separators and non-ASCII digits: outside the model. *)
Definition parse_int (s : bytes) : option Z :=
  match s with
  | [] => None
  | c :: t =>
      if c =? 45 then
        match t with [] => None | _ => option_map (fun u => Z.of_int (Neg u)) (bytes_uint t) end
      else if c =? 43 then
        match t with [] => None | _ => option_map (fun u => Z.of_int (Pos u)) (bytes_uint t) end
      else option_map (fun u => Z.of_int (Pos u)) (bytes_uint s)
  end.

Definition lower_ascii (s : bytes) : bytes :=
  map (fun c => if (65 <=? c) && (c <=? 90) then c + 32 else c) s.

Definition s_int := [105;110;116;58].                      (* "int:" *)
Definition s_float := [102;108;111;97;116;58].             (* "float:" *)
Definition s_bool := [98;111;111;108;58].                  (* "bool:" *)
Definition s_true := [84;114;117;101].                     (* "True" *)
Definition s_false := [70;97;108;115;101].                 (* "False" *)
Definition s_booltrue := [98;111;111;108;58;116;114;117;101].        (* "bool:true" *)
Definition s_boolfalse := [98;111;111;108;58;102;97;108;115;101].    (* "bool:false" *)
Definition s_none := [78;111;110;101;84;121;112;101;58].   (* "NoneType:" *)
Definition s_json := [106;115;111;110;61].                 (* "json=" *)
Definition s_jsonkey := [106;115;111;110].                 (* "json" *)

(* ---- encode_command_string ------------------------------------------------------------------ *)
Definition encode_value (v : value) : bytes :=
  match v with
  | VBool b => s_bool ++ quote (if b then s_true else s_false)
  | VInt z => s_int ++ quote (print_int z)
  | VFloat t => s_float ++ quote t
  | VNone => s_none
  | VStr s => quote s
  end.

Definition encode_pair (kv : bytes * value) : bytes :=
  quote (fst kv) ++ [61] ++ encode_value (snd kv).

(* the code appends '&' after every pair and strips the last character *)
Definition encode_query (kw : list (bytes * value)) : bytes :=
  removelast (flat_map (fun kv => encode_pair kv ++ [38]) kw).

(* urlunparse(('', '', cmd, '', query, '')) *)
Definition unparse (cmd query : bytes) : bytes :=
  if is_nil query then cmd else cmd ++ [63] ++ query.

Definition encode (cmd : bytes) (kw : list (bytes * value)) : bytes :=
  unparse cmd (encode_query kw).

(* JSON mode: a list or dict value is present; json.dumps output is supplied as text *)
Definition encode_json (cmd jsontext : bytes) : bytes := unparse cmd (s_json ++ jsontext).

(* ---- decode_command_string ------------------------------------------------------------------ *)
Definition is_alpha (c : Z) : bool := ((65 <=? c) && (c <=? 90)) || ((97 <=? c) && (c <=? 122)).
Definition is_scheme_char (c : Z) : bool :=
  is_alpha c || ((48 <=? c) && (c <=? 57)) || (c =? 43) || (c =? 45) || (c =? 46).

(* urlsplit's scheme detection: url[:i] all scheme chars, i>0, first char an ASCII letter *)
Definition strip_scheme (url : bytes) : bytes :=
  match split_first 58 url with
  | (pre, Some rest) =>
      match pre with
      | c :: _ => if is_alpha c && forallb is_scheme_char pre then rest else url
      | [] => url
      end
  | (_, None) => url
  end.

Inductive dvalue := DVal (v : value) | DErr.    (* DErr: int()/float() raised ValueError *)

Definition decode_value (float_ok : bytes -> bool) (v : bytes) : dvalue :=
  if zs_prefixb s_int v then
    match parse_int (skipn 4 v) with Some z => DVal (VInt z) | None => DErr end
  else if zs_prefixb s_float v then
    (if float_ok (skipn 6 v) then DVal (VFloat (skipn 6 v)) else DErr)
  else if zs_eqb (lower_ascii v) s_booltrue then DVal (VBool true)
  else if zs_eqb (lower_ascii v) s_boolfalse then DVal (VBool false)
  else if zs_eqb v s_none then DVal VNone
  else DVal (VStr v).

Inductive decoded :=
| DJson (cmd : bytes) (jsontext : bytes)
| DKw (cmd : bytes) (kw : list (bytes * dvalue)).

Definition decode (float_ok : bytes -> bool) (line : bytes) : decoded :=
  let url := strip_scheme line in
  let '(path, q) := split_first 63 url in
  let query := match q with Some x => x | None => [] end in
  if zs_prefixb s_json query then DJson path (skipn 5 query)
  else DKw path (map (fun kv => (fst kv, decode_value float_ok (snd kv))) (parse_qs_first query)).

(* ---- read_message: readline / "&bytes=N" marker / readexactly -------------------------------- *)
(* The receiver as a byte-at-a-time machine.  Lines are split at '\n' (10).  A line that contains the
   marker "&bytes=" is followed by N raw bytes (N = the decimal text after the marker). *)
Definition s_marker := [38;98;121;116;101;115;61].         (* "&bytes=" *)

Fixpoint find_marker (s : bytes) : option (bytes * bytes) :=
  match s with
  | [] => None
  | c :: t =>
      if zs_prefixb s_marker s then Some ([], skipn 7 s)
      else match find_marker t with
           | Some (a, b) => Some (c :: a, b)
           | None => None
           end
  end.

Inductive rmode :=
| RLine (acc : bytes)                            (* collecting a line, reversed *)
| RBytes (msg : bytes) (need : nat) (acc : bytes) (* collecting a payload, reversed *)
| RBroken.                                       (* int(bytes_needed) raised / two markers *)

Inductive rmsg := Msg (line : bytes) (payload : option bytes).

Definition end_line (line : bytes) : rmode * list rmsg :=
  match find_marker line with
  | None => (RLine [], [Msg line None])
  | Some (m, n) =>
      match find_marker n with
      | Some _ => (RBroken, [])                 (* message.split(marker) yields 3 parts: ValueError *)
      | None =>
          match parse_int n with
          | Some k =>
              if k <? 0 then (RBroken, [])      (* readexactly(n<0) raises ValueError *)
              else if k =? 0 then (RLine [], [Msg m (Some [])])
              else (RBytes m (Z.to_nat k) [], [])
          | None => (RBroken, [])
          end
      end
  end.

Definition rstep (st : rmode) (b : Z) : rmode * list rmsg :=
  match st with
  | RBroken => (RBroken, [])
  | RLine acc => if b =? 10 then end_line (List.rev acc) else (RLine (b :: acc), [])
  | RBytes m need acc =>
      match need with
      | S O => (RLine [], [Msg m (Some (List.rev (b :: acc)))])
      | S n => (RBytes m n (b :: acc), [])
      | O => (RLine [], [Msg m (Some (List.rev acc))])   (* unreachable: need >= 1 *)
      end
  end.

Fixpoint rfeed (st : rmode) (bs : bytes) : rmode * list rmsg :=
  match bs with
  | [] => (st, [])
  | b :: t =>
      let '(st1, o1) := rstep st b in
      let '(st2, o2) := rfeed st1 t in
      (st2, o1 ++ o2)
  end.

(* feeding a list of chunks one after the other *)
Fixpoint rfeed_chunks (st : rmode) (chunks : list bytes) : rmode * list rmsg :=
  match chunks with
  | [] => (st, [])
  | c :: cs =>
      let '(st1, o1) := rfeed st c in
      let '(st2, o2) := rfeed_chunks st1 cs in (st2, o1 ++ o2)
  end.

(* ---- glue for the correspondence check (executed by vm_compute in generated cases files) ---- *)
Definition dvalue_eqb (a b : dvalue) : bool :=
  match a, b with
  | DVal x, DVal y => value_eqb x y
  | DErr, DErr => true
  | _, _ => false
  end.

Definition kv_eqb (a b : bytes * dvalue) : bool := zs_eqb (fst a) (fst b) && dvalue_eqb (snd a) (snd b).

Definition decoded_eqb (a b : decoded) : bool :=
  match a, b with
  | DJson c t, DJson c' t' => zs_eqb c c' && zs_eqb t t'
  | DKw c k, DKw c' k' => zs_eqb c c' && list_eqb kv_eqb k k'
  | _, _ => false
  end.

(* the implementation raises as soon as one value fails to convert *)
Definition has_err (d : decoded) : bool :=
  match d with
  | DJson _ _ => false
  | DKw _ kw => existsb (fun kv => match snd kv with DErr => true | _ => false end) kw
  end.

Inductive codec_in :=
| CKw (okfloats : list bytes) (cmd : bytes) (kw : list (bytes * value))
| CJson (cmd jsontext : bytes).

(* observation: the encoded line, and the decode result (None = ValueError) *)
Definition codec_run (i : codec_in) : bytes * option decoded :=
  match i with
  | CKw okf cmd kw =>
      let line := encode cmd kw in
      let d := decode (fun t => mem_key t okf) line in
      (line, if has_err d then None else Some d)
  | CJson cmd txt =>
      let line := encode_json cmd txt in
      (line, Some (decode (fun _ => true) line))
  end.

Definition codec_out_eqb (a b : bytes * option decoded) : bool :=
  zs_eqb (fst a) (fst b) && option_eqb decoded_eqb (snd a) (snd b).

Definition rmsg_eqb (a b : rmsg) : bool :=
  match a, b with
  | Msg l p, Msg l' p' => zs_eqb l l' && option_eqb zs_eqb p p'
  end.

(* observation of the reader: messages in order and whether the reader died *)
Definition reader_run (chunks : list bytes) : list rmsg * bool :=
  let '(st, out) := rfeed_chunks (RLine []) chunks in
  (out, match st with RBroken => true | _ => false end).

Definition reader_out_eqb (a b : list rmsg * bool) : bool :=
  list_eqb rmsg_eqb (fst a) (fst b) && Bool.eqb (snd a) (snd b).

(* ---- BcpTransportManager._receive_loop: each command's handler is awaited before the next read ---- *)
(* input: per message (is a registered command?, id); observation: (true,id) = handler started,
   (false,id) = handler finished.  A handler may suspend for any time between the two. *)
Definition dispatch_run (ms : list (bool * Z)) : list (bool * Z) :=
  flat_map (fun m : bool * Z => if fst m then [(true, snd m); (false, snd m)] else []) ms.
