(* C19/Model.v — executable model of mpf/core/bcp/bcp_socket_client.py
   (encode_command_string, decode_command_string, read_message), with byte-level models of the
   pieces of urllib.parse MPF's logic interacts with (quote, unquote, parse_qs, urlsplit's
   scheme/query split, urlunparse).  Strings are UTF-8 byte lists (list Z, 0..255).
   Definitions only; proofs are in Lemmas.v. *)
From Common Require Import Prelude.
From Coq Require Import DecimalZ Decimal.
Open Scope Z_scope.

Definition bytes := list Z.

(* ---- urllib.parse.quote(s, safe='') ------------------------------------------------------- *)
Definition is_unreserved (b : Z) : bool :=
  ((65 <=? b) && (b <=? 90)) || ((97 <=? b) && (b <=? 122)) || ((48 <=? b) && (b <=? 57))
  || (b =? 95) || (b =? 46) || (b =? 45) || (b =? 126).

Definition hexdigit (n : Z) : Z := if n <? 10 then 48 + n else 55 + n.   (* '0'-'9','A'-'F' *)

Definition quote_byte (b : Z) : bytes :=
  if is_unreserved b then [b] else [37; hexdigit (b / 16); hexdigit (b mod 16)].

Definition quote (s : bytes) : bytes := flat_map quote_byte s.

(* ---- urllib.parse.unquote (bytes level: _unquote_impl) ------------------------------------ *)
Definition hexval (c : Z) : option Z :=
  if (48 <=? c) && (c <=? 57) then Some (c - 48)
  else if (65 <=? c) && (c <=? 70) then Some (c - 55)
  else if (97 <=? c) && (c <=? 102) then Some (c - 87)
  else None.

Fixpoint unquote (s : bytes) : bytes :=
  match s with
  | [] => []
  | c :: t =>
      if c =? 37 then
        match t with
        | h :: l :: rest =>
            match hexval h, hexval l with
            | Some a, Some b => (a * 16 + b) :: unquote rest
            | _, _ => 37 :: unquote t
            end
        | _ => 37 :: unquote t
        end
      else c :: unquote t
  end.

(* ---- str.split(sep) on one byte, str.split('=', 1), replace('+',' ') ----------------------- *)
Fixpoint split_on (sep : Z) (s : bytes) : list bytes :=
  match s with
  | [] => [[]]
  | c :: t =>
      if c =? sep then [] :: split_on sep t
      else match split_on sep t with
           | [] => [[c]]          (* unreachable: split_on never returns [] *)
           | h :: r => (c :: h) :: r
           end
  end.

Fixpoint split_first (sep : Z) (s : bytes) : bytes * option bytes :=
  match s with
  | [] => ([], None)
  | c :: t =>
      if c =? sep then ([], Some t)
      else let '(a, b) := split_first sep t in (c :: a, b)
  end.

Definition plus_to_space (s : bytes) : bytes := map (fun c => if c =? 43 then 32 else c) s.

(* ---- urllib.parse.parse_qs(q, keep_blank_values=True) then MPF's v[0] ---------------------- *)
Definition parse_field (nv : bytes) : bytes * bytes :=
  let '(n, v) := split_first 61 nv in
  (unquote (plus_to_space n),
   unquote (plus_to_space (match v with Some x => x | None => [] end))).

Definition is_nil {A} (l : list A) : bool := match l with [] => true | _ => false end.

Definition parse_qsl (q : bytes) : list (bytes * bytes) :=
  if is_nil q then []
  else map parse_field (filter (fun f => negb (is_nil f)) (split_on 38 q)).

Fixpoint mem_key (k : bytes) (l : list bytes) : bool :=
  match l with [] => false | k' :: l' => zs_eqb k k' || mem_key k l' end.

(* dict of first values, in first-occurrence order *)
Fixpoint first_values (seen : list bytes) (l : list (bytes * bytes)) : list (bytes * bytes) :=
  match l with
  | [] => []
  | (k, v) :: l' =>
      if mem_key k seen then first_values seen l'
      else (k, v) :: first_values (k :: seen) l'
  end.

Definition parse_qs_first (q : bytes) : list (bytes * bytes) := first_values [] (parse_qsl q).

(* ---- typed values --------------------------------------------------------------------------- *)
Inductive value :=
| VStr (s : bytes)
| VInt (z : Z)
| VFloat (txt : bytes)     (* str(float): float<->text conversion is CPython, trusted *)
| VBool (b : bool)
| VNone.

Definition value_eqb (a b : value) : bool :=
  match a, b with
  | VStr x, VStr y => zs_eqb x y
  | VInt x, VInt y => Z.eqb x y
  | VFloat x, VFloat y => zs_eqb x y
  | VBool x, VBool y => Bool.eqb x y
  | VNone, VNone => true
  | _, _ => false
  end.

(* str(int) / int(text) through Coq's Decimal library *)
Fixpoint uint_bytes (u : Decimal.uint) : bytes :=
  match u with
  | Nil => []
  | D0 u => 48 :: uint_bytes u | D1 u => 49 :: uint_bytes u | D2 u => 50 :: uint_bytes u
  | D3 u => 51 :: uint_bytes u | D4 u => 52 :: uint_bytes u | D5 u => 53 :: uint_bytes u
  | D6 u => 54 :: uint_bytes u | D7 u => 55 :: uint_bytes u | D8 u => 56 :: uint_bytes u
  | D9 u => 57 :: uint_bytes u
  end.

Definition print_int (z : Z) : bytes :=
  match Z.to_int z with
  | Pos u => uint_bytes u
  | Neg u => 45 :: uint_bytes u
  end.

Fixpoint bytes_uint (s : bytes) : option Decimal.uint :=
  match s with
  | [] => Some Nil
  | c :: t =>
      match bytes_uint t with
      | None => None
      | Some u =>
          if c =? 48 then Some (D0 u) else if c =? 49 then Some (D1 u)
          else if c =? 50 then Some (D2 u) else if c =? 51 then Some (D3 u)
          else if c =? 52 then Some (D4 u) else if c =? 53 then Some (D5 u)
          else if c =? 54 then Some (D6 u) else if c =? 55 then Some (D7 u)
          else if c =? 56 then Some (D8 u) else if c =? 57 then Some (D9 u)
          else None
      end
  end.

(* int(text) for the grammar [+-]?[0-9]+ ; anything else is a ValueError (None).  Python also
   accepts surrounding whitespace, '_' separators and non-ASCII digits: outside the model. *)
Definition parse_int (s : bytes) : option Z :=
  match s with
  | [] => None
  | c :: t =>
      if c =? 45 then
        match t with [] => None | _ => option_map (fun u => Z.of_int (Neg u)) (bytes_uint t) end
      else if c =? 43 then
        match t with [] => None | _ => option_map (fun u => Z.of_int (Pos u)) (bytes_uint t) end
      else option_map (fun u => Z.of_int (Pos u)) (bytes_uint s)
  end.

Definition lower_ascii (s : bytes) : bytes :=
  map (fun c => if (65 <=? c) && (c <=? 90) then c + 32 else c) s.

Definition s_int := [105;110;116;58].                      (* "int:" *)
Definition s_float := [102;108;111;97;116;58].             (* "float:" *)
Definition s_bool := [98;111;111;108;58].                  (* "bool:" *)
Definition s_true := [84;114;117;101].                     (* "True" *)
Definition s_false := [70;97;108;115;101].                 (* "False" *)
Definition s_booltrue := [98;111;111;108;58;116;114;117;101].        (* "bool:true" *)
Definition s_boolfalse := [98;111;111;108;58;102;97;108;115;101].    (* "bool:false" *)
Definition s_none := [78;111;110;101;84;121;112;101;58].   (* "NoneType:" *)
Definition s_json := [106;115;111;110;61].                 (* "json=" *)
Definition s_jsonkey := [106;115;111;110].                 (* "json" *)

(* ---- encode_command_string ------------------------------------------------------------------ *)
Definition encode_value (v : value) : bytes :=
  match v with
  | VBool b => s_bool ++ quote (if b then s_true else s_false)
  | VInt z => s_int ++ quote (print_int z)
  | VFloat t => s_float ++ quote t
  | VNone => s_none
  | VStr s => quote s
  end.

Definition encode_pair (kv : bytes * value) : bytes :=
  quote (fst kv) ++ [61] ++ encode_value (snd kv).

(* the code appends '&' after every pair and strips the last character *)
Definition encode_query (kw : list (bytes * value)) : bytes :=
  removelast (flat_map (fun kv => encode_pair kv ++ [38]) kw).

(* urlunparse(('', '', cmd, '', query, '')) *)
Definition unparse (cmd query : bytes) : bytes :=
  if is_nil query then cmd else cmd ++ [63] ++ query.

Definition encode (cmd : bytes) (kw : list (bytes * value)) : bytes :=
  unparse cmd (encode_query kw).

(* JSON mode: a list or dict value is present; json.dumps output is supplied as text *)
Definition encode_json (cmd jsontext : bytes) : bytes := unparse cmd (s_json ++ jsontext).

(* ---- decode_command_string ------------------------------------------------------------------ *)
Definition is_alpha (c : Z) : bool := ((65 <=? c) && (c <=? 90)) || ((97 <=? c) && (c <=? 122)).
Definition is_scheme_char (c : Z) : bool :=
  is_alpha c || ((48 <=? c) && (c <=? 57)) || (c =? 43) || (c =? 45) || (c =? 46).

(* urlsplit's scheme detection: url[:i] all scheme chars, i>0, first char an ASCII letter *)
Definition strip_scheme (url : bytes) : bytes :=
  match split_first 58 url with
  | (pre, Some rest) =>
      match pre with
      | c :: _ => if is_alpha c && forallb is_scheme_char pre then rest else url
      | [] => url
      end
  | (_, None) => url
  end.

Inductive dvalue := DVal (v : value) | DErr.    (* DErr: int()/float() raised ValueError *)

Definition decode_value (float_ok : bytes -> bool) (v : bytes) : dvalue :=
  if zs_prefixb s_int v then
    match parse_int (skipn 4 v) with Some z => DVal (VInt z) | None => DErr end
  else if zs_prefixb s_float v then
    (if float_ok (skipn 6 v) then DVal (VFloat (skipn 6 v)) else DErr)
  else if zs_eqb (lower_ascii v) s_booltrue then DVal (VBool true)
  else if zs_eqb (lower_ascii v) s_boolfalse then DVal (VBool false)
  else if zs_eqb v s_none then DVal VNone
  else DVal (VStr v).

Inductive decoded :=
| DJson (cmd : bytes) (jsontext : bytes)
| DKw (cmd : bytes) (kw : list (bytes * dvalue)).

Definition decode (float_ok : bytes -> bool) (line : bytes) : decoded :=
  let url := strip_scheme line in
  let '(path, q) := split_first 63 url in
  let query := match q with Some x => x | None => [] end in
  if zs_prefixb s_json query then DJson path (skipn 5 query)
  else DKw path (map (fun kv => (fst kv, decode_value float_ok (snd kv))) (parse_qs_first query)).

(* ---- read_message: readline / "&bytes=N" marker / readexactly -------------------------------- *)
(* The receiver as a byte-at-a-time machine.  Lines are split at '\n' (10).  A line that contains the
   marker "&bytes=" is followed by N raw bytes (N = the decimal text after the marker). *)
Definition s_marker := [38;98;121;116;101;115;61].         (* "&bytes=" *)

Fixpoint find_marker (s : bytes) : option (bytes * bytes) :=
  match s with
  | [] => None
  | c :: t =>
      if zs_prefixb s_marker s then Some ([], skipn 7 s)
      else match find_marker t with
           | Some (a, b) => Some (c :: a, b)
           | None => None
           end
  end.

Inductive rmode :=
| RLine (acc : bytes)                            (* collecting a line, reversed *)
| RBytes (msg : bytes) (need : nat) (acc : bytes) (* collecting a payload, reversed *)
| RBroken.                                       (* int(bytes_needed) raised / two markers *)

Inductive rmsg := Msg (line : bytes) (payload : option bytes).

Definition end_line (line : bytes) : rmode * list rmsg :=
  match find_marker line with
  | None => (RLine [], [Msg line None])
  | Some (m, n) =>
      match find_marker n with
      | Some _ => (RBroken, [])                 (* message.split(marker) yields 3 parts: ValueError *)
      | None =>
          match parse_int n with
          | Some k =>
              if k <? 0 then (RBroken, [])      (* readexactly(n<0) raises ValueError *)
              else if k =? 0 then (RLine [], [Msg m (Some [])])
              else (RBytes m (Z.to_nat k) [], [])
          | None => (RBroken, [])
          end
      end
  end.

Definition rstep (st : rmode) (b : Z) : rmode * list rmsg :=
  match st with
  | RBroken => (RBroken, [])
  | RLine acc => if b =? 10 then end_line (List.rev acc) else (RLine (b :: acc), [])
  | RBytes m need acc =>
      match need with
      | S O => (RLine [], [Msg m (Some (List.rev (b :: acc)))])
      | S n => (RBytes m n (b :: acc), [])
      | O => (RLine [], [Msg m (Some (List.rev acc))])   (* unreachable: need >= 1 *)
      end
  end.

Fixpoint rfeed (st : rmode) (bs : bytes) : rmode * list rmsg :=
  match bs with
  | [] => (st, [])
  | b :: t =>
      let '(st1, o1) := rstep st b in
      let '(st2, o2) := rfeed st1 t in
      (st2, o1 ++ o2)
  end.

(* feeding a list of chunks one after the other *)
Fixpoint rfeed_chunks (st : rmode) (chunks : list bytes) : rmode * list rmsg :=
  match chunks with
  | [] => (st, [])
  | c :: cs =>
      let '(st1, o1) := rfeed st c in
      let '(st2, o2) := rfeed_chunks st1 cs in (st2, o1 ++ o2)
  end.

(* ---- json.dumps(kwargs, cls=MpfJSONEncoder): ensure_ascii, separators (', ', ': ') ------------------------- *)
(* strings inside the tree are lists of Unicode code points (the harness prints ord() of every character) *)
Inductive jv :=
| JNull
| JBool (b : bool)
| JInt (z : Z)
| JFloat (txt : bytes)          (* float.__repr__ / NaN / Infinity / -Infinity: CPython, data *)
| JStr (s : list Z)
| JList (l : list jv)
| JDict (l : list (list Z * jv)).

Definition lhex (n : Z) : Z := if n <? 10 then 48 + n else 87 + n.      (* '0'-'9','a'-'f' *)
Definition uesc (n : Z) : bytes :=                                      (* '\\u{0:04x}' *)
  [92; 117; lhex ((n / 4096) mod 16); lhex ((n / 256) mod 16); lhex ((n / 16) mod 16); lhex (n mod 16)].

(* json.encoder.py_encode_basestring_ascii (the C version agrees) *)
Definition jchar (c : Z) : bytes :=
  if c =? 34 then [92;34] else if c =? 92 then [92;92] else if c =? 10 then [92;110]
  else if c =? 13 then [92;114] else if c =? 9 then [92;116] else if c =? 12 then [92;102]
  else if c =? 8 then [92;98]
  else if (32 <=? c) && (c <=? 126) then [c]
  else if c <? 65536 then uesc c
  else uesc (55296 + ((c - 65536) / 1024) mod 1024) ++ uesc (56320 + (c - 65536) mod 1024).

Definition jstring (s : list Z) : bytes := 34 :: flat_map jchar s ++ [34].

Fixpoint jjoin (l : list bytes) : bytes :=
  match l with
  | [] => []
  | [x] => x
  | x :: r => x ++ 44 :: 32 :: jjoin r
  end.

Fixpoint jdumps (v : jv) : bytes :=
  match v with
  | JNull => [110;117;108;108]
  | JBool true => [116;114;117;101]
  | JBool false => [102;97;108;115;101]
  | JInt z => print_int z
  | JFloat t => t
  | JStr s => jstring s
  | JList l => 91 :: jjoin (map jdumps l) ++ [93]
  | JDict l => 123 :: jjoin (map (fun kv => jstring (fst kv) ++ 58 :: 32 :: jdumps (snd kv)) l) ++ [125]
  end.

(* ---- glue for the correspondence check (executed by vm_compute in generated cases files) ---- *)
Definition dvalue_eqb (a b : dvalue) : bool :=
  match a, b with
  | DVal x, DVal y => value_eqb x y
  | DErr, DErr => true
  | _, _ => false
  end.

Definition kv_eqb (a b : bytes * dvalue) : bool := zs_eqb (fst a) (fst b) && dvalue_eqb (snd a) (snd b).

Definition decoded_eqb (a b : decoded) : bool :=
  match a, b with
  | DJson c t, DJson c' t' => zs_eqb c c' && zs_eqb t t'
  | DKw c k, DKw c' k' => zs_eqb c c' && list_eqb kv_eqb k k'
  | _, _ => false
  end.

(* the implementation raises as soon as one value fails to convert *)
Definition has_err (d : decoded) : bool :=
  match d with
  | DJson _ _ => false
  | DKw _ kw => existsb (fun kv => match snd kv with DErr => true | _ => false end) kw
  end.

Inductive codec_in :=
| CKw (okfloats : list bytes) (cmd : bytes) (kw : list (bytes * value))
| CJson (cmd jsontext : bytes)
| CJsonT (cmd : bytes) (kw : list (list Z * jv)).     (* nested values: the model prints the JSON text itself *)

(* observation: the encoded line, and the decode result (None = ValueError) *)
Definition codec_run (i : codec_in) : bytes * option decoded :=
  match i with
  | CKw okf cmd kw =>
      let line := encode cmd kw in
      let d := decode (fun t => mem_key t okf) line in
      (line, if has_err d then None else Some d)
  | CJson cmd txt =>
      let line := encode_json cmd txt in
      (line, Some (decode (fun _ => true) line))
  | CJsonT cmd kw =>
      let line := encode_json cmd (jdumps (JDict kw)) in
      (line, Some (decode (fun _ => true) line))
  end.

Definition codec_out_eqb (a b : bytes * option decoded) : bool :=
  zs_eqb (fst a) (fst b) && option_eqb decoded_eqb (snd a) (snd b).

Definition rmsg_eqb (a b : rmsg) : bool :=
  match a, b with
  | Msg l p, Msg l' p' => zs_eqb l l' && option_eqb zs_eqb p p'
  end.

(* observation of the reader: messages in order and whether the reader died *)
Definition reader_run (chunks : list bytes) : list rmsg * bool :=
  let '(st, out) := rfeed_chunks (RLine []) chunks in
  (out, match st with RBroken => true | _ => false end).

Definition reader_out_eqb (a b : list rmsg * bool) : bool :=
  list_eqb rmsg_eqb (fst a) (fst b) && Bool.eqb (snd a) (snd b).

(* ================================================================================================== *)
(* ---- sessions: send -> frame -> arbitrary chunking -> read_message -> _process_command ----------- *)
(* One long-lived client object.  The model carries NO state from one message to the next except the
   framing state [rmode]: what is delivered for a message is a function of that message alone
   ([process]).  A decoder with memory (cache, shared dicts) is not expressible here, so any such change
   shows up as a correspondence mismatch on streams in which lines recur. *)

(* BCPClientSocket.send / AsyncioBcpClientSocket.send: (encode_command_string(...) + '\n').encode() *)
Inductive sbody := SFlat (kw : list (bytes * value)) | SJson (jsontext : bytes).
Inductive smsg := SM (cmd : bytes) (body : sbody) (payload : option bytes).

Definition send_line (cmd : bytes) (b : sbody) : bytes :=
  match b with SFlat kw => encode cmd kw | SJson t => encode_json cmd t end.

Definition send_bytes (cmd : bytes) (b : sbody) : bytes := send_line cmd b ++ [10].

(* what the peer puts on the wire for a message with an attached payload: line&bytes=N\n<N bytes> *)
Definition wire (m : smsg) : bytes :=
  match m with
  | SM cmd b None => send_bytes cmd b
  | SM cmd b (Some p) => (send_line cmd b ++ s_marker ++ print_int (Z.of_nat (length p))) ++ 10 :: p
  end.

(* `if rawbytes: kwargs['rawbytes'] = rawbytes` : an empty payload is not attached *)
Definition attach (p : option bytes) : option bytes :=
  match p with Some (b :: t) => Some (b :: t) | _ => None end.

Inductive delivered := Dl (d : decoded) (raw : option bytes).
Inductive variant := VAsyncio | VMpf.
Inductive pres := PDeliver (x : delivered) | PConsumed | PDie.

Definition s_hello := [104;101;108;108;111].
Definition s_goodbye := [103;111;111;100;98;121;101].

Definition decoded_cmd (d : decoded) : bytes := match d with DJson c _ => c | DKw c _ => c end.
Definition decoded_noargs (d : decoded) : bool := match d with DKw _ [] => true | _ => false end.

(* _process_command of the two clients.  BCPClientSocket consumes 'hello' (any kwargs) and 'goodbye'
   (a goodbye with parameters or payload is a TypeError: _receive_goodbye() takes none). *)
Definition process (float_ok : bytes -> bool) (v : variant) (m : rmsg) : pres :=
  match m with
  | Msg line p =>
      let d := decode float_ok line in
      if has_err d then PDie
      else match v with
           | VAsyncio => PDeliver (Dl d (attach p))
           | VMpf =>
               if zs_eqb (decoded_cmd d) s_hello then PConsumed
               else if zs_eqb (decoded_cmd d) s_goodbye then
                 (if decoded_noargs d && match attach p with None => true | Some _ => false end
                  then PConsumed else PDie)
               else PDeliver (Dl d (attach p))
           end
  end.

Fixpoint deliver_all (float_ok : bytes -> bool) (v : variant) (ms : list rmsg) : list delivered * bool :=
  match ms with
  | [] => ([], false)
  | m :: r =>
      match process float_ok v m with
      | PDie => ([], true)
      | PConsumed => deliver_all float_ok v r
      | PDeliver x => let '(o, d) := deliver_all float_ok v r in (x :: o, d)
      end
  end.

(* (messages returned by read_message in order, did the reader raise) *)
Definition session_run (float_ok : bytes -> bool) (v : variant) (chunks : list bytes) : list delivered * bool :=
  let '(st, msgs) := rfeed_chunks (RLine []) chunks in
  let '(out, dead) := deliver_all float_ok v msgs in
  (out, dead || match st with RBroken => true | _ => false end).

(* cut a stream into reads of the given lengths (the rest is the last read) *)
Fixpoint cut (lens : list Z) (s : bytes) : list bytes :=
  match lens with
  | [] => [s]
  | n :: r => firstn (Z.to_nat n) s :: cut r (skipn (Z.to_nat n) s)
  end.

Definition delivered_eqb (a b : delivered) : bool :=
  match a, b with Dl d p, Dl d' p' => decoded_eqb d d' && option_eqb zs_eqb p p' end.

Definition sess_out := (list bytes * ((list delivered * bool) * (list delivered * bool)))%type.

(* end to end: what each send() writes, and what each of the two readers delivers from the wire stream *)
Definition session_e2e (i : list bytes * list smsg * list Z) : sess_out :=
  let '(okf, ms, lens) := i in
  let fo := fun t => mem_key t okf in
  let chunks := cut lens (flat_map wire ms) in
  (map (fun m => match m with SM c b _ => send_bytes c b end) ms,
   (session_run fo VAsyncio chunks, session_run fo VMpf chunks)).

Definition sess_res_eqb (a b : list delivered * bool) : bool :=
  list_eqb delivered_eqb (fst a) (fst b) && Bool.eqb (snd a) (snd b).

Definition sess_out_eqb (a b : sess_out) : bool :=
  zss_eqb (fst a) (fst b) && sess_res_eqb (fst (snd a)) (fst (snd b)) && sess_res_eqb (snd (snd a)) (snd (snd b)).

(* ---- from the reader to a registered handler: BcpTransportManager._receive_loop ->
        BcpInterface.process_bcp_message -> bcp_receive_commands[cmd](client=client, **kwargs) ----------
   Logging configuration does not occur in the model: the handler gets exactly what _process_command
   returned, for every configuration.  Commands without a registered handler are dropped (warning). *)
Definition delivered_cmd (x : delivered) : bytes := match x with Dl d _ => decoded_cmd d end.

Definition s_trigger := [116;114;105;103;103;101;114].          (* "trigger" *)
Definition s_name := [110;97;109;101].                          (* "name" *)
Definition s_frombcp := [95;102;114;111;109;95;98;99;112].      (* "_from_bcp" *)

Inductive hevent :=
| HCall (x : delivered)                                               (* callback(client=client, **kwargs) *)
| HEvent (ev : bytes) (kw : list (bytes * dvalue)) (raw : option bytes).   (* event posted for a 'trigger' command *)

Definition remove_key (k : bytes) (l : list (bytes * dvalue)) : list (bytes * dvalue) :=
  filter (fun kv => negb (zs_eqb (fst kv) k)) l.

(* process_bcp_message: a registered command's callback gets the kwargs as they are; the built-in
   _bcp_receive_trigger(client, name, callback=None, **kwargs) sets kwargs['_from_bcp'] = True and posts the event
   `name` with the remaining parameters (modelled for flat messages with a string name and no 'callback' parameter;
   an event nobody listens to has no observable effect); any other command is dropped with a warning *)
Definition handle (registered in_events : list bytes) (x : delivered) : list hevent :=
  match x with
  | Dl (DKw cmd kw) raw =>
      if zs_eqb cmd s_trigger then
        match assoc_z s_name kw with
        | Some (DVal (VStr ev)) =>
            if mem_key ev in_events
            then [HEvent ev (remove_key s_name kw ++ [(s_frombcp, DVal (VBool true))]) raw] else []
        | _ => []
        end
      else if mem_key cmd registered then [HCall x] else []
  | Dl (DJson cmd _) _ => if mem_key cmd registered then [HCall x] else []
  end.

Definition hevent_eqb (a b : hevent) : bool :=
  match a, b with
  | HCall x, HCall y => delivered_eqb x y
  | HEvent e k r, HEvent e' k' r' => zs_eqb e e' && list_eqb kv_eqb k k' && option_eqb zs_eqb r r'
  | _, _ => false
  end.

Definition is_call (h : hevent) : bool := match h with HCall _ => true | HEvent _ _ _ => false end.

(* Observation: the calls of registered command callbacks in order, and the events seen by event handlers in order.
   (Commands are dispatched strictly in the order sent; a posted event is handled by the event queue, FIFO among
   events but possibly after the callback of a later command: that interleaving is not part of the observation.) *)
Definition handler_run (i : list bytes * (list bytes * list bytes) * list smsg * list Z * list smsg)
  : ((list hevent * list hevent) * bool) * list bytes :=
  let '(okf, (registered, in_events), ms, lens, posts) := i in
  let fo := fun t => mem_key t okf in
  let '(out, dead) := session_run fo VMpf (cut lens (flat_map wire ms)) in
  let hs := flat_map (handle registered in_events) out in
  (((filter is_call hs, filter (fun h => negb (is_call h)) hs), dead),
   (* bcp_trigger -> send_to_clients_with_handler -> BCPClientSocket.send: one line per posted event *)
   map (fun m => match m with SM c b _ => send_bytes c b end) posts).

Definition handler_out_eqb (a b : ((list hevent * list hevent) * bool) * list bytes) : bool :=
  list_eqb hevent_eqb (fst (fst (fst a))) (fst (fst (fst b))) &&
  list_eqb hevent_eqb (snd (fst (fst a))) (snd (fst (fst b))) &&
  Bool.eqb (snd (fst a)) (snd (fst b)) && zss_eqb (snd a) (snd b).

(* ---- bcp_pickle_client.py (with fixes/C19-pickle-client-loads-dumps.patch): struct.pack("!I", len) + pickle ---- *)
(* The pickles themselves are opaque byte strings (pickle.dumps / pickle.loads are CPython). *)
Definition be32 (n : Z) : bytes :=
  [(n / 16777216) mod 256; (n / 65536) mod 256; (n / 256) mod 256; n mod 256].

Definition unbe32 (h : bytes) : Z :=
  match h with [a; b; c; d] => ((a * 256 + b) * 256 + c) * 256 + d | _ => 0 end.

(* send(): complete_message = struct.pack("!I", len(message_raw)) + message_raw *)
Definition pk_frame (p : bytes) : bytes := be32 (Z.of_nat (length p)) ++ p.

(* read_message(): readexactly(4), readexactly(length) as a byte-at-a-time machine *)
Inductive pkmode :=
| PkHdr (acc : bytes)                    (* collecting the 4 length bytes, reversed *)
| PkBody (need : nat) (acc : bytes).     (* collecting the pickle, reversed *)

Definition pkstep (st : pkmode) (b : Z) : pkmode * list bytes :=
  match st with
  | PkHdr acc =>
      match acc with
      | [_; _; _] =>
          let n := unbe32 (List.rev (b :: acc)) in
          if n =? 0 then (PkHdr [], [[]]) else (PkBody (Z.to_nat n) [], [])
      | _ => (PkHdr (b :: acc), [])
      end
  | PkBody need acc =>
      match need with
      | S O => (PkHdr [], [List.rev (b :: acc)])
      | S n => (PkBody n (b :: acc), [])
      | O => (PkHdr [], [List.rev acc])          (* unreachable: need >= 1 *)
      end
  end.

Fixpoint pkfeed (st : pkmode) (bs : bytes) : pkmode * list bytes :=
  match bs with
  | [] => (st, [])
  | b :: t =>
      let '(st1, o1) := pkstep st b in
      let '(st2, o2) := pkfeed st1 t in
      (st2, o1 ++ o2)
  end.

Fixpoint pkfeed_chunks (st : pkmode) (chunks : list bytes) : pkmode * list bytes :=
  match chunks with
  | [] => (st, [])
  | c :: cs =>
      let '(st1, o1) := pkfeed st c in
      let '(st2, o2) := pkfeed_chunks st1 cs in (st2, o1 ++ o2)
  end.

(* observation: (the bytes send() wrote for each pickle, the pickles read_message handed to pickle.loads) *)
Definition pickle_run (i : list bytes * list Z) : list bytes * list bytes :=
  let '(blobs, lens) := i in
  (map pk_frame blobs, snd (pkfeed_chunks (PkHdr []) (cut lens (flat_map pk_frame blobs)))).

Definition pickle_out_eqb (a b : list bytes * list bytes) : bool := zss_eqb (fst a) (fst b) && zss_eqb (snd a) (snd b).

(* ---- BcpTransportManager._receive_loop: each command's handler is awaited before the next read ---- *)
(* input: per message (is a registered command?, id); observation: (true,id) = handler started,
   (false,id) = handler finished.  A handler may suspend for any time between the two. *)
Definition dispatch_run (ms : list (bool * Z)) : list (bool * Z) :=
  flat_map (fun m : bool * Z => if fst m then [(true, snd m); (false, snd m)] else []) ms.
