(* C19/Json.v — the JSON form: json.dumps as a Gallina printer; its text never contains a raw newline, and contains
   '&' only inside a string that contains '&'. *)
From Common Require Import Prelude.
From C19 Require Import Model Lemmas Reader Session.
Open Scope Z_scope.

(* characters that are neither a raw newline nor '&' *)
Definition wsafe (c : Z) : bool := negb (c =? 10) && negb (c =? 38).

Lemma wsafe_split l : forallb wsafe l = true -> no10 l /\ no38 l.
Proof.
  unfold no10, no38. induction l as [|c l IH]; [split; reflexivity|]. cbn [forallb]. intros H.
  apply andb_true_iff in H as [H1 H2]. unfold wsafe in H1. apply andb_true_iff in H1 as [A B].
  destruct (IH H2) as [I1 I2]. rewrite A, B, I1, I2. split; reflexivity.
Qed.

Lemma lhex_wsafe n : 0 <= n < 16 -> wsafe (lhex n) = true.
Proof.
  intros H. unfold lhex, wsafe. destruct (n <? 10) eqn:E.
  - apply Z.ltb_lt in E. apply andb_true_iff; split; apply negb_true_iff, Z.eqb_neq; lia.
  - apply Z.ltb_ge in E. apply andb_true_iff; split; apply negb_true_iff, Z.eqb_neq; lia.
Qed.

Lemma uesc_wsafe n : forallb wsafe (uesc n) = true.
Proof.
  unfold uesc. cbn [forallb].
  rewrite !lhex_wsafe by (apply Z.mod_pos_bound; lia). reflexivity.
Qed.

Lemma jchar_wsafe c : (c =? 38) = false -> forallb wsafe (jchar c) = true.
Proof.
  intros H38. unfold jchar.
  repeat match goal with |- context [if ?b then _ else _] => destruct b eqn:? end;
    try reflexivity; try (rewrite forallb_app, !uesc_wsafe; reflexivity); try apply uesc_wsafe.
  (* the raw range 32..126 *)
  cbn [forallb]. unfold wsafe. rewrite H38.
  match goal with H : (32 <=? c) && (c <=? 126) = true |- _ => apply andb_true_iff in H as [A B] end.
  apply Z.leb_le in A. replace (c =? 10) with false by (symmetry; apply Z.eqb_neq; lia). reflexivity.
Qed.

Definition str_clean (s : list Z) : bool := forallb (fun c => negb (c =? 38)) s.

Lemma jstring_wsafe s : str_clean s = true -> forallb wsafe (jstring s) = true.
Proof.
  intros H. unfold jstring. cbn [forallb]. rewrite forallb_app. cbn [forallb].
  replace (wsafe 34) with true by reflexivity. rewrite andb_true_r. cbn [andb].
  unfold str_clean in H. induction s as [|c s IH]; [reflexivity|].
  cbn [forallb] in H. apply andb_true_iff in H as [H1 H2]. apply negb_true_iff in H1.
  cbn [flat_map]. rewrite forallb_app, (jchar_wsafe c H1), (IH H2). reflexivity.
Qed.

Lemma jjoin_wsafe l : forallb (fun x => forallb wsafe x) l = true -> forallb wsafe (jjoin l) = true.
Proof.
  induction l as [|x l IH]; [reflexivity|]. cbn [forallb]. intros H. apply andb_true_iff in H as [H1 H2].
  destruct l as [|y l]; [exact H1|].
  change (jjoin (x :: y :: l)) with (x ++ 44 :: 32 :: jjoin (y :: l)).
  rewrite forallb_app, H1. cbn [forallb andb]. replace (wsafe 44) with true by reflexivity.
  replace (wsafe 32) with true by reflexivity. cbn [andb]. apply IH, H2.
Qed.

(* every string of the tree (keys included) is free of '&'; float texts are free of '\n' and '&' *)
Fixpoint jv_clean (v : jv) : bool :=
  match v with
  | JStr s => str_clean s
  | JFloat t => forallb wsafe t
  | JList l => forallb jv_clean l
  | JDict l => forallb (fun kv => str_clean (fst kv) && jv_clean (snd kv)) l
  | _ => true
  end.

Lemma print_int_wsafe z : forallb wsafe (print_int z) = true.
Proof.
  eapply forallb_impl; [|apply print_int_unreserved]. intros x Hx. unfold wsafe.
  apply andb_true_iff; split; apply negb_true_iff, Z.eqb_neq; intros ->; discriminate.
Qed.

Lemma jdumps_wsafe : forall v, jv_clean v = true -> forallb wsafe (jdumps v) = true.
Proof.
  fix IH 1. intros v. destruct v as [|b|z|t|s|l|l]; cbn [jv_clean jdumps]; intros H.
  - reflexivity.
  - destruct b; reflexivity.
  - apply print_int_wsafe.
  - exact H.
  - apply jstring_wsafe, H.
  - cbn [forallb]. rewrite forallb_app. cbn [forallb]. replace (wsafe 91) with true by reflexivity.
    replace (wsafe 93) with true by reflexivity. rewrite andb_true_r. cbn [andb].
    apply jjoin_wsafe. induction l as [|x l IHl]; [reflexivity|].
    cbn [forallb] in H. apply andb_true_iff in H as [H1 H2]. cbn [map forallb].
    rewrite (IH x H1), (IHl H2). reflexivity.
  - cbn [forallb]. rewrite forallb_app. cbn [forallb]. replace (wsafe 123) with true by reflexivity.
    replace (wsafe 125) with true by reflexivity. rewrite andb_true_r. cbn [andb].
    apply jjoin_wsafe. induction l as [|[k x] l IHl]; [reflexivity|].
    cbn [forallb fst snd] in H. apply andb_true_iff in H as [H1 H2]. apply andb_true_iff in H1 as [Hk Hx].
    cbn [map forallb fst snd]. rewrite forallb_app, (jstring_wsafe k Hk). cbn [forallb andb].
    replace (wsafe 58) with true by reflexivity. replace (wsafe 32) with true by reflexivity. cbn [andb].
    rewrite (IH x Hx), (IHl H2). reflexivity.
Qed.

(* a JSON-form message built from a clean tree is in the guarded domain of session_roundtrip_partial *)
Theorem json_tree_message_ok_l fo cmd kw p :
  forallb cmd_char cmd = true -> jv_clean (JDict kw) = true ->
  sm_ok fo (SM cmd (SJson (jdumps (JDict kw))) p).
Proof.
  intros Hc H. cbn [sm_ok]. split; [exact Hc|]. apply wsafe_split, jdumps_wsafe, H.
Qed.

(* ... and it comes back as exactly the text json.dumps produced *)
Theorem json_tree_roundtrip_l fo cmd kw :
  forallb cmd_char cmd = true ->
  decode fo (encode_json cmd (jdumps (JDict kw))) = DJson cmd (jdumps (JDict kw)).
Proof. intros Hc. apply json_mode_roundtrip_l, Hc. Qed.

Example json_tree_example :
  let kw := [([110;97;109;101], JStr [233;8364;128512;34;10]);
             ([108], JList [JInt (-3); JFloat [49;46;53]; JNull; JBool true; JDict [([107], JList [])]])] in
  jv_clean (JDict kw) = true /\
  jdumps (JDict kw) =
  (* json.dumps of name = e-acute, euro sign, U+1F600, double quote, newline; l = [-3, 1.5, None, True, dict(k=[])] *)
  [123;34;110;97;109;101;34;58;32;34;92;117;48;48;101;57;92;117;50;48;97;99;92;117;100;56;51;100;92;117;100;101;48;48;92;34;92;110;34;
   44;32;34;108;34;58;32;91;45;51;44;32;49;46;53;44;32;110;117;108;108;44;32;116;114;117;101;44;32;123;34;107;34;58;32;91;93;125;93;125].
Proof. split; vm_compute; reflexivity. Qed.
