(* C13/NameLemmas.v — names handed out by DelayManager.add() (name=None) are first-class: [gen_name u] is what the add
   with id u RETURNS; clients keep such names and use them later, stale or not.  Proved here, for all histories:
   a generated name never denotes another delay instance than the one it was returned for, and every operation on a
   stale generated name (its delay has fired / was removed / cleared / its mode has stopped) is a no-op for ever,
   whatever is added later.

   One invariant family [NI ok b]: [ok] = the names the operations of the history pass EXPLICITLY to add-like calls,
   [b] = a bound on ids.  Every live handle and every EAdd event has a name that is [ok], or is the generated name of
   its own id and that id is >= b. *)
From Common Require Import Prelude.
From C13 Require Import Model Owner Lemmas OwnerLemmas.
Open Scope Z_scope.

Definition op_ok (ok : Z -> bool) (o : op) : bool :=
  match o with
  | Add _ n _ _ | AddIfNot _ n _ _ | Reset _ n _ _ => is_anon n || ok n
  | _ => true
  end.
Definition ops_ok (ok : Z -> bool) (ops : list op) : bool := forallb (op_ok ok) ops.
Definition scripts_ok (ok : Z -> bool) (scripts : list (list op)) : bool := forallb (ops_ok ok) scripts.
Definition step_ok (ok : Z -> bool) (s : step) : bool := match s with Ext _ ops => ops_ok ok ops | _ => true end.
Definition steps_ok (ok : Z -> bool) (steps : list step) : bool := forallb (step_ok ok) steps.
Definition mstep_ok (ok : Z -> bool) (s : mstep) : bool := match s with MOps _ ops => ops_ok ok ops | _ => true end.
Definition msteps_ok (ok : Z -> bool) (steps : list mstep) : bool := forallb (mstep_ok ok) steps.

(* the client's own names only: no generated name is passed to an add-like call *)
Definition plain (n : Z) : bool := 0 <=? n.
(* anything but n *)
Definition other_than (n : Z) (x : Z) : bool := negb (x =? n).

(* st' has the same id counter, a subset of the handles and no new EAdd event *)
Definition shrinks (st st' : state) : Prop :=
  next st' = next st /\ incl (timers st') (timers st) /\
  (forall t u n ms c k, In (EAdd t u n ms c k) (log st') -> In (EAdd t u n ms c k) (log st)).

Lemma shrinks_refl st : shrinks st st.
Proof. repeat split; auto. apply incl_refl. Qed.

Lemma shrinks_trans x y z : shrinks x y -> shrinks y z -> shrinks x z.
Proof.
  intros (E1 & S1 & L1) (E2 & S2 & L2). repeat split.
  - congruence.
  - eapply incl_tran; eauto.
  - intros. apply L1, L2. assumption.
Qed.

Lemma shrinks_emit e st : (forall t u n ms c k, e <> EAdd t u n ms c k) -> shrinks st (emit e st).
Proof.
  intro Hne. repeat split; cbn; auto; [apply incl_refl|].
  intros t u n ms c k [H|H]; auto. exfalso. eapply Hne. exact H.
Qed.

Lemma shrinks_cancel u st : shrinks st (do_cancel u st).
Proof.
  unfold do_cancel. destruct (is_live u (timers st)); [|apply shrinks_refl].
  repeat split; cbn; auto.
  - intros x Hx. apply filter_In in Hx. tauto.
  - intros t u' n ms c k [H|H]; [discriminate|auto].
Qed.

Lemma shrinks_remove n st : shrinks st (do_remove n st).
Proof.
  unfold do_remove. destruct (dict_find n (dict st)) as [e|]; [|apply shrinks_refl].
  eapply shrinks_trans; [|apply shrinks_cancel]. repeat split; cbn; auto. apply incl_refl.
Qed.

Lemma shrinks_clear_one st n : shrinks st (clear_one st n).
Proof.
  unfold clear_one. destruct (dict_find n (dict st)) as [e|]; [|apply shrinks_refl].
  eapply shrinks_trans; [apply shrinks_cancel|apply shrinks_remove].
Qed.

Lemma shrinks_fold names : forall st, shrinks st (fold_left clear_one names st).
Proof.
  induction names as [|n names IH]; intro st; cbn; [apply shrinks_refl|].
  eapply shrinks_trans; [apply shrinks_clear_one|apply IH].
Qed.

Lemma shrinks_clear st : shrinks st (do_clear st).
Proof.
  unfold do_clear. destruct (shrinks_fold (map e_name (dict st)) st) as (E & S & L).
  repeat split; cbn; auto. intros t u n ms c k [H|H]; [discriminate|auto].
Qed.

Lemma shrinks_catch_all k st : shrinks st (catch_all k st).
Proof.
  unfold catch_all. destruct (raising st); [|apply shrinks_refl]. apply shrinks_emit. discriminate.
Qed.

Lemma shrinks_catch_key st : shrinks st (catch_key st).
Proof.
  unfold catch_key. destruct (raising st) as [k|]; [|apply shrinks_refl].
  destruct (k =? 1); [|apply shrinks_refl]. apply shrinks_emit. discriminate.
Qed.

Lemma shrinks_with_now t st : shrinks st (mkS t (next st) (dict st) (timers st) (log st)).
Proof. repeat split; cbn; auto. apply incl_refl. Qed.

Section NameInv.
Variable ok : Z -> bool.
Variable b : Z.
Variable lg0 : list ev.      (* the log of the state the invariant is started from: nothing is claimed about it *)

Definition name_ok (n u : Z) : Prop := ok n = true \/ (n = gen_name u /\ b <= u).

Definition NI (st : state) : Prop :=
  b <= next st /\
  (forall tm, In tm (timers st) -> name_ok (t_name tm) (t_id tm)) /\
  (forall t u n ms c k, In (EAdd t u n ms c k) (log st) -> In (EAdd t u n ms c k) lg0 \/ name_ok n u).

Lemma NI_shrinks st st' : shrinks st st' -> NI st -> NI st'.
Proof.
  intros (E & S & L) (Hb & HT & HL). repeat split.
  - rewrite E. exact Hb.
  - intros tm Hin. apply HT, S, Hin.
  - intros t u n ms c k Hin. eapply HL, L, Hin.
Qed.

(* ---- add-like operations ---------------------------------------------------------------- *)
Lemma NI_add_named ms n cb kw st :
  name_ok n (next st) -> NI st -> NI (add_named ms n cb kw st).
Proof.
  intros Hn (Hb & HT & HL). unfold add_named.
  set (st0 := mkS (now st) (next st + 1) (dict st) (timers st) (log st)).
  destruct (shrinks_remove n st0) as (E & S & L). cbn in E.
  repeat split; cbn.
  - rewrite E. lia.
  - intros tm Hin. apply in_app_or in Hin as [Hin|[<-|[]]].
    + apply HT. apply S in Hin. exact Hin.
    + cbn. exact Hn.
  - intros t u n' ms' c k [H|H].
    + inversion H; subst. right. exact Hn.
    + apply L in H. cbn in H. eapply HL; eauto.
Qed.

Lemma NI_do_add ms n0 cb kw st :
  is_anon n0 || ok n0 = true -> NI st -> NI (do_add ms n0 cb kw st).
Proof.
  intros H I. unfold do_add. destruct (usable st n0); auto. apply NI_add_named; auto.
  unfold add_ret. destruct (is_anon n0); cbn in H.
  - right. split; auto. apply I.
  - left. exact H.
Qed.

Lemma NI_skip_id st : NI st -> NI (skip_id st).
Proof. intros (Hb & HT & HL). repeat split; cbn; auto. lia. Qed.

Lemma NI_do_add_if ms n0 cb kw st :
  is_anon n0 || ok n0 = true -> NI st -> NI (do_add_if ms n0 cb kw st).
Proof.
  intros H I. unfold do_add_if. destruct (negb (usable st n0)); auto.
  destruct (negb (is_anon n0) && check st n0); [apply NI_skip_id|apply NI_do_add]; auto.
Qed.

Lemma NI_do_reset ms n0 cb kw st :
  is_anon n0 || ok n0 = true -> NI st -> NI (do_reset ms n0 cb kw st).
Proof.
  intros H I. unfold do_reset. destruct (negb (usable st n0)); auto.
  apply NI_do_add; auto. destruct (negb (is_anon n0) && check st n0); auto.
  eapply NI_shrinks; [apply shrinks_remove|exact I].
Qed.

(* ---- callbacks, scripts, steps ---------------------------------------------------------- *)
Definition call_okN (call : callfn) : Prop :=
  forall u cb kw rn st, NI st -> NI (call u cb kw rn st).

Lemma NI_do_run_now call n st : call_okN call -> NI st -> NI (do_run_now false call n st).
Proof.
  intros CO I. unfold do_run_now. destruct (dict_find n (dict st)) as [e|]; auto.
  eapply NI_shrinks; [apply shrinks_catch_key|]. apply CO.
  eapply NI_shrinks; [apply shrinks_remove|exact I].
Qed.

Lemma NI_exec_op call o st :
  call_okN call -> op_ok ok o = true -> NI st -> NI (exec_op false call o st).
Proof.
  intros CO H I. destruct o; cbn in *.
  - apply NI_do_add; auto.
  - apply NI_do_add_if; auto.
  - apply NI_do_reset; auto.
  - eapply NI_shrinks; [apply shrinks_remove|exact I].
  - eapply NI_shrinks; [apply shrinks_clear|exact I].
  - apply NI_do_run_now; auto.
  - eapply NI_shrinks; [apply shrinks_emit; discriminate|exact I].
  - eapply NI_shrinks; [apply shrinks_emit; discriminate|exact I].
Qed.

Lemma NI_exec_ops call ops :
  call_okN call -> ops_ok ok ops = true -> forall st, NI st -> NI (exec_ops false call ops st).
Proof.
  intro CO. unfold exec_ops. induction ops as [|o ops IH]; cbn; intros H st I; auto.
  apply andb_prop in H as [H1 H2]. apply IH; auto. destruct (raising st); auto. apply NI_exec_op; auto.
Qed.

Lemma NI_exec_ops_top call ops :
  call_okN call -> ops_ok ok ops = true -> forall st, NI st -> NI (exec_ops_top false call ops st).
Proof.
  intro CO. unfold exec_ops_top. induction ops as [|o ops IH]; cbn; intros H st I; auto.
  apply andb_prop in H as [H1 H2]. apply IH; auto.
  eapply NI_shrinks; [apply shrinks_catch_all|]. apply NI_exec_op; auto.
Qed.

Lemma script_of_ok scripts cb : scripts_ok ok scripts = true -> ops_ok ok (script_of scripts cb) = true.
Proof.
  intro H. unfold script_of. destruct (cb <? 0); [reflexivity|].
  destruct (nth_in_or_default (Z.to_nat cb) scripts []) as [Hin|E].
  - unfold scripts_ok in H. rewrite forallb_forall in H. apply H. exact Hin.
  - rewrite E. reflexivity.
Qed.

Lemma call_cb_okN scripts fuel : scripts_ok ok scripts = true -> call_okN (call_cb false scripts fuel).
Proof.
  intro HS. induction fuel as [|f IH]; intros u c k rn st I; cbn [call_cb].
  - eapply NI_shrinks; [apply shrinks_emit; discriminate|].
    eapply NI_shrinks; [apply shrinks_emit; discriminate|exact I].
  - destruct (MAXLOG <? Z.of_nat (length (log (emit (ECall (now st) u c k rn) st)))).
    + eapply NI_shrinks; [apply shrinks_emit; discriminate|].
      eapply NI_shrinks; [apply shrinks_emit; discriminate|exact I].
    + apply NI_exec_ops; [exact IH|apply script_of_ok; auto|].
      eapply NI_shrinks; [apply shrinks_emit; discriminate|exact I].
Qed.

Lemma call_cb_late_okN scripts t : scripts_ok ok scripts = true -> call_okN (call_cb_late false scripts t).
Proof.
  intros HS u c k rn st I. unfold call_cb_late.
  assert (I1 : NI (emit (ECall (now st) u c k rn) st))
    by (eapply NI_shrinks; [apply shrinks_emit; discriminate|exact I]).
  apply (NI_shrinks _ _ (shrinks_with_now t _)) in I1.
  destruct (MAXLOG <? Z.of_nat (length (log (emit (ECall (now st) u c k rn) st)))).
  - eapply NI_shrinks; [apply shrinks_emit; discriminate|exact I1].
  - apply NI_exec_ops; [apply call_cb_okN; auto|apply script_of_ok; auto|exact I1].
Qed.

Lemma shrinks_fired u w st :
  shrinks st (mkS w (next st) (dict_del (t_name u) (dict st)) (filter (fun t => negb (id_is (t_id u) t)) (timers st)) (log st)).
Proof. repeat split; cbn; auto. intros x Hx. apply filter_In in Hx. tauto. Qed.

Lemma NI_fire call u st : call_okN call -> NI st -> NI (fire call u st).
Proof.
  intros CO I. unfold fire, find_timer. destruct (find (id_is u) (timers st)) as [tm|] eqn:F.
  - destruct ((now st <=? t_when tm) && forallb (fun t' => t_when tm <=? t_when t') (timers st)).
    + eapply NI_shrinks; [apply shrinks_catch_all|]. apply CO.
      apply find_id_some in F as [_ <-]. eapply NI_shrinks; [apply shrinks_fired|exact I].
    + eapply NI_shrinks; [apply shrinks_emit; discriminate|exact I].
  - eapply NI_shrinks; [apply shrinks_emit; discriminate|exact I].
Qed.

Lemma NI_fire_at call u t st : call_okN call -> NI st -> NI (fire_at call u t st).
Proof.
  intros CO I. unfold fire_at, find_timer. destruct (find (id_is u) (timers st)) as [tm|] eqn:F.
  - destruct ((now st <=? t) && (t_when tm <=? t) && forallb (fun t' => t_when tm <=? t_when t') (timers st)).
    + eapply NI_shrinks; [apply shrinks_catch_all|]. apply CO.
      apply find_id_some in F as [_ <-]. eapply NI_shrinks; [apply shrinks_fired|exact I].
    + eapply NI_shrinks; [apply shrinks_emit; discriminate|exact I].
  - eapply NI_shrinks; [apply shrinks_emit; discriminate|exact I].
Qed.

Lemma NI_do_step scripts st s :
  scripts_ok ok scripts = true -> step_ok ok s = true -> NI st -> NI (do_step false scripts st s).
Proof.
  intros HS H I. destruct s as [t ops|u|u t]; unfold do_step.
  - destruct (ext_ok t st).
    + eapply NI_shrinks; [apply shrinks_emit; discriminate|].
      apply NI_exec_ops_top; [apply call_cb_okN; auto|exact H|].
      eapply NI_shrinks; [apply shrinks_with_now|exact I].
    + eapply NI_shrinks; [apply shrinks_emit; discriminate|exact I].
  - apply NI_fire; auto. apply call_cb_okN; auto.
  - apply NI_fire_at; auto. apply call_cb_late_okN; auto.
Qed.

Lemma NI_run scripts steps :
  scripts_ok ok scripts = true -> steps_ok ok steps = true ->
  forall st, NI st -> NI (run_from false scripts steps st).
Proof.
  intro HS. unfold run_from. induction steps as [|s steps IH]; cbn; intros H st I; auto.
  apply andb_prop in H as [H1 H2]. apply IH; auto. apply NI_do_step; auto.
Qed.


(* ---- the same through a mode's lifecycle (Owner.v) ---------------------------------------- *)
Lemma NI_clear_as c t st : NI st -> NI (clear_as c t st).
Proof.
  intro I. unfold clear_as. eapply NI_shrinks; [apply shrinks_emit; discriminate|].
  eapply NI_shrinks; [apply shrinks_clear|exact I].
Qed.

Lemma NI_emit_mode c t st : NI st -> NI (emit (EMode c t) st).
Proof. intro I. eapply NI_shrinks; [apply shrinks_emit; discriminate|exact I]. Qed.

Lemma NI_life s t m st : NI st -> NI (snd (life s t m st)).
Proof.
  intro I. destruct s; cbn; auto.
  - destruct (m_active m || m_starting m); cbn; [apply NI_emit_mode; auto|].
    apply NI_emit_mode. destruct (m_cleanup m); auto. apply NI_clear_as; auto.
  - apply NI_emit_mode; auto.
  - destruct (m_active m && negb (m_stopping m)); cbn; [apply NI_clear_as|apply NI_emit_mode]; auto.
  - apply NI_emit_mode; auto.
  - destruct (m_cleanup m); cbn; [apply NI_clear_as|apply NI_emit_mode]; auto.
Qed.

Lemma ctl_ops_ok m ms : ops_ok ok (ctl_ops m ms) = true.
Proof. unfold ctl_ops. destruct (registered m); reflexivity. Qed.

Lemma NI_m_step scripts ms s :
  scripts_ok ok scripts = true -> mstep_ok ok s = true -> NI (snd ms) -> NI (snd (m_step scripts ms s)).
Proof.
  intros HS H I. destruct ms as [m st]. cbn [snd] in I.
  assert (L : forall s' t, is_life s' = Some t ->
            NI (snd (if ext_ok t st
                          then let (m1, st1) := life s' t m (with_now t st) in
                               (m1, emit (EDict (map e_name (dict st1))) (emit (EMode (flags_code m1) t) st1))
                          else (m, emit (EReject 3) st)))).
  { intros s' t _. destruct (ext_ok t st); cbn [snd].
    - pose proof (NI_life s' t m (with_now t st)) as IL.
      destruct (life s' t m (with_now t st)) as [m1 st1]. cbn [snd] in *.
      eapply NI_shrinks; [apply shrinks_emit; discriminate|]. apply NI_emit_mode. apply IL.
      eapply NI_shrinks; [apply shrinks_with_now|exact I].
    - eapply NI_shrinks; [apply shrinks_emit; discriminate|exact I]. }
  destruct s; cbn [m_step is_life snd]; try (apply (L _ t); reflexivity).
  - apply NI_do_step; auto.
  - apply NI_do_step; auto. cbn. apply ctl_ops_ok.
  - apply NI_do_step; auto.
Qed.

Lemma NI_m_run scripts steps :
  scripts_ok ok scripts = true -> msteps_ok ok steps = true ->
  forall ms, NI (snd ms) -> NI (snd (fold_left (m_step scripts) steps ms)).
Proof.
  intro HS. induction steps as [|s steps IH]; cbn; intros H ms I; auto.
  apply andb_prop in H as [H1 H2]. apply IH; auto. apply NI_m_step; auto.
Qed.

End NameInv.

Lemma NI_init ok : NI ok 0 [] init.
Proof. repeat split; cbn; try lia; contradiction. Qed.

(* ---- consequences -------------------------------------------------------------------------- *)
Lemma plain_neg n : n < 0 -> plain n = false.
Proof. intro H. unfold plain. apply Z.leb_gt. exact H. Qed.

(* every generated name in an EAdd event is the generated name of that very add *)
Lemma gen_names_l lg b : (forall t u n ms c k, In (EAdd t u n ms c k) lg -> In (EAdd t u n ms c k) [] \/ name_ok plain b n u) ->
  forall t u n ms c k, In (EAdd t u n ms c k) lg -> n < 0 -> n = gen_name u.
Proof.
  intros H t u n ms c k Hin Hn. destruct (H _ _ _ _ _ _ Hin) as [[]|[P|[E _]]]; auto.
  rewrite plain_neg in P by exact Hn. discriminate.
Qed.

Lemma never_reused_log lg b : log_ok lg ->
  (forall t u n ms c k, In (EAdd t u n ms c k) lg -> In (EAdd t u n ms c k) [] \/ name_ok plain b n u) ->
  forall t u n ms c k t' u' ms' c' k',
    In (EAdd t u n ms c k) lg -> In (EAdd t' u' n ms' c' k') lg -> n < 0 ->
    EAdd t u n ms c k = EAdd t' u' n ms' c' k'.
Proof.
  intros LO H t u n ms c k t' u' ms' c' k' H1 H2 Hn.
  pose proof (gen_names_l lg b H _ _ _ _ _ _ H1 Hn) as E1.
  pose proof (gen_names_l lg b H _ _ _ _ _ _ H2 Hn) as E2.
  assert (u = u') by (unfold gen_name in *; lia). subst u'.
  eapply add_unique; eauto.
Qed.

Lemma names_never_reused_l scripts steps :
  scripts_ok plain scripts = true -> steps_ok plain steps = true ->
  forall t u n ms c k t' u' ms' c' k',
    In (EAdd t u n ms c k) (trace false scripts steps) -> In (EAdd t' u' n ms' c' k') (trace false scripts steps) ->
    n < 0 -> EAdd t u n ms c k = EAdd t' u' n ms' c' k' /\ n = gen_name u.
Proof.
  intros HS HT t u n ms c k t' u' ms' c' k' H1 H2 Hn. unfold trace in *. apply in_rev in H1. apply in_rev in H2.
  pose proof (NI_run plain 0 [] scripts steps HS HT init (NI_init plain)) as (_ & _ & HL).
  pose proof (Inv_reach scripts steps) as [_ IC].
  split; [eapply never_reused_log; eauto; apply IC | eapply gen_names_l; eauto].
Qed.

Lemma mode_names_never_reused_l scripts m0 steps :
  scripts_ok plain scripts = true -> msteps_ok plain steps = true ->
  forall t u n ms c k t' u' ms' c' k',
    In (EAdd t u n ms c k) (m_trace scripts m0 steps) -> In (EAdd t' u' n ms' c' k') (m_trace scripts m0 steps) ->
    n < 0 -> EAdd t u n ms c k = EAdd t' u' n ms' c' k' /\ n = gen_name u.
Proof.
  intros HS HT t u n ms c k t' u' ms' c' k' H1 H2 Hn. unfold m_trace in *. apply in_rev in H1. apply in_rev in H2.
  pose proof (NI_m_run plain 0 [] scripts steps HS HT (m0, init) (NI_init plain)) as (_ & _ & HL).
  split; [eapply never_reused_log; eauto; apply m_log_ok | eapply gen_names_l; eauto].
Qed.

(* a generated name that the manager has handed out and that denotes no pending delay *)
Definition stale (n : Z) (st : state) : Prop :=
  n < -1 /\ -2 - n < next st /\ live_name n (timers st) = false.

Lemma live_name_false n ts : live_name n ts = false <-> forall tm, In tm ts -> t_name tm <> n.
Proof.
  unfold live_name. split.
  - intros H tm Hin E. assert (existsb (name_is n) ts = true); [|congruence].
    apply existsb_exists. exists tm. split; auto. unfold name_is. apply Z.eqb_eq. exact E.
  - intro H. destruct (existsb (name_is n) ts) eqn:E; auto. apply existsb_exists in E as [tm [Hin E]].
    unfold name_is in E. apply Z.eqb_eq in E. exfalso. eapply H; eauto.
Qed.

Lemma stale_NI n st : stale n st -> NI (other_than n) (next st) (log st) st.
Proof.
  intros (Hn & Hk & HL). rewrite live_name_false in HL. repeat split; try lia.
  - intros tm Hin. left. unfold other_than. apply negb_true_iff. apply Z.eqb_neq. apply HL. exact Hin.
  - intros. left. assumption.
Qed.

Lemma NI_stale n b lg0 st : n < -1 -> -2 - n < b -> NI (other_than n) b lg0 st -> stale n st.
Proof.
  intros Hn Hb (Hx & HT & _). repeat split; try lia. apply live_name_false. intros tm Hin E.
  destruct (HT tm Hin) as [O|[G Hu]].
  - unfold other_than in O. apply negb_true_iff in O. apply Z.eqb_neq in O. contradiction.
  - unfold gen_name in G. lia.
Qed.

(* what the operations do on a name that denotes no pending delay: nothing *)
Lemma dead_name_noop n st : wf st -> live_name n (timers st) = false ->
  check st n = false /\ do_remove n st = st /\ (forall call, do_run_now false call n st = st) /\
  do_check n st = emit (ECheck n false false) st.
Proof.
  intros W HL. assert (C : check st n = false) by (rewrite check_live; auto).
  assert (F : dict_find n (dict st) = None).
  { unfold check in C. destruct (dict_find n (dict st)); [discriminate|reflexivity]. }
  repeat split; auto.
  - unfold do_remove. rewrite F. reflexivity.
  - intro call. unfold do_run_now. rewrite F. reflexivity.
  - unfold do_check. rewrite C, HL. reflexivity.
Qed.

(* stale for ever: whatever happens next (any steps, any callback scripts; the only thing excluded is that the client itself
   passes the stale name to an add-like call), the name stays stale *)
Lemma stale_forever_l n st scripts steps :
  stale n st -> scripts_ok (other_than n) scripts = true -> steps_ok (other_than n) steps = true ->
  stale n (run_from false scripts steps st).
Proof.
  intros HS H1 H2. pose proof HS as (Hn & Hk & _).
  eapply NI_stale; [exact Hn|exact Hk|]. apply NI_run; auto. apply stale_NI. exact HS.
Qed.

Lemma stale_noop_forever_l scripts0 steps0 n scripts steps :
  let st0 := run_from false scripts0 steps0 init in
  stale n st0 -> scripts_ok (other_than n) scripts = true -> steps_ok (other_than n) steps = true ->
  let st := run_from false scripts steps st0 in
  stale n st /\ check st n = false /\ do_remove n st = st /\ (forall call, do_run_now false call n st = st) /\
  do_check n st = emit (ECheck n false false) st.
Proof.
  cbv zeta. intros HS H1 H2. pose proof (stale_forever_l _ _ _ _ HS H1 H2) as HS'. split; auto.
  apply dead_name_noop; [|apply HS']. apply Inv_wf. apply Inv_run. apply Inv_reach.
Qed.

(* the same for a mode-owned manager: through stop, wind-up and restart of the mode, with new anonymous delays added by
   the next run of the mode (MOps) and by its delayed control events (MCtl) *)
Lemma mode_stale_forever_l scripts0 m0 steps0 n scripts steps :
  let ms0 := m_run scripts0 m0 steps0 in
  stale n (snd ms0) -> scripts_ok (other_than n) scripts = true -> msteps_ok (other_than n) steps = true ->
  let st := snd (fold_left (m_step scripts) steps ms0) in
  stale n st /\ check st n = false /\ do_remove n st = st /\ (forall call, do_run_now false call n st = st).
Proof.
  cbv zeta. intros HS H1 H2. pose proof HS as (Hn & Hk & _).
  assert (HS' : stale n (snd (fold_left (m_step scripts) steps (m_run scripts0 m0 steps0)))).
  { eapply NI_stale; [exact Hn|exact Hk|]. apply NI_m_run; auto. apply stale_NI. exact HS. }
  split; auto.
  assert (W : wf (snd (fold_left (m_step scripts) steps (m_run scripts0 m0 steps0)))).
  { apply Inv_wf. apply Inv_m_run. apply Inv_m_reach. }
  destruct (dead_name_noop n _ W) as (A & B & C & _); [apply HS'|]. auto.
Qed.

(* when does a name become stale: after its delay has fired, been removed, been cleared *)
Lemma stale_after_remove n st : Inv st -> n < -1 -> -2 - n < next st -> stale n (do_remove n st).
Proof.
  intros I Hn Hk. repeat split; auto.
  - destruct (shrinks_remove n st) as (E & _). rewrite E. exact Hk.
  - rewrite do_remove_nf by (apply Inv_wf; auto). rewrite timers_removed. apply live_name_false.
    intros tm Hin. apply in_rm in Hin. tauto.
Qed.

Lemma stale_after_clear n st : Inv st -> n < -1 -> -2 - n < next st -> stale n (do_clear st).
Proof.
  intros I Hn Hk. repeat split; auto.
  - destruct (shrinks_clear st) as (E & _). rewrite E. exact Hk.
  - destruct (do_clear_empty st I) as [T _]. rewrite T. reflexivity.
Qed.

Lemma next_add_named ms n cb kw st : next (add_named ms n cb kw st) = next st + 1.
Proof.
  unfold add_named. cbn [next].
  destruct (shrinks_remove n (mkS (now st) (next st + 1) (dict st) (timers st) (log st))) as (E & _). exact E.
Qed.

Lemma do_add_anon ms cb kw st : do_add ms (-1) cb kw st = add_named ms (gen_name (next st)) cb kw st.
Proof. reflexivity. Qed.

(* what add(name=None) returns: a name no client knew before and that denotes nothing; afterwards it is known and pending *)
Lemma add_returns_fresh_l scripts steps ms cb kw :
  scripts_ok plain scripts = true -> steps_ok plain steps = true ->
  let st := run_from false scripts steps init in
  let n := add_ret (-1) st in
  n = gen_name (next st) /\ known st n = false /\ check st n = false /\
  known (do_add ms (-1) cb kw st) n = true /\ check (do_add ms (-1) cb kw st) n = true.
Proof.
  cbv zeta. intros HS HT. set (st := run_from false scripts steps init).
  pose proof (Inv_reach scripts steps) as I. fold st in I. pose proof (Inv_wf _ I) as W.
  pose proof (NI_run plain 0 [] scripts steps HS HT init (NI_init plain)) as (Hnx & HTm & _). fold st in HTm, Hnx.
  assert (E : add_ret (-1) st = gen_name (next st)) by reflexivity. rewrite E.
  assert (NL : live_name (gen_name (next st)) (timers st) = false).
  { apply live_name_false. intros tm Hin En. destruct I as [_ IC]. destruct IC as (_ & _ & Hid & _).
    specialize (Hid tm Hin). destruct (HTm tm Hin) as [P|[G _]].
    - unfold plain, gen_name in *. apply Z.leb_le in P. lia.
    - unfold gen_name in *. lia. }
  repeat split.
  - unfold known, gen_name. destruct (Z.leb_spec 0 (-2 - next st)); [lia|]. cbn [orb].
    apply andb_false_iff. right. apply Z.ltb_ge. lia.
  - rewrite check_live by exact W. exact NL.
  - rewrite do_add_anon. unfold known, gen_name. rewrite next_add_named.
    apply orb_true_iff. right. apply andb_true_iff. split; apply Z.ltb_lt; lia.
  - rewrite do_add_anon. rewrite check_live by (apply Inv_wf, Inv_add_named; exact I).
    unfold add_named. cbn [timers]. unfold live_name. rewrite existsb_app. apply orb_true_iff. right.
    cbn [existsb]. unfold name_is. cbn [t_name]. rewrite Z.eqb_refl. reflexivity.
Qed.
