(* C13/Lemmas.v — proofs about Model.v *)
From Common Require Import Prelude.
From C13 Require Import Model.
Open Scope Z_scope.

(* ---------------------------------------------------------------------------------------- *)
(* lists *)
Lemma nodup_map_inj {A} (f : A -> Z) (l : list A) a b :
  NoDup (map f l) -> In a l -> In b l -> f a = f b -> a = b.
Proof.
  induction l as [|x l IH]; cbn; intros ND Ha Hb E; [contradiction|].
  inversion ND as [|? ? Hn ND']; subst.
  destruct Ha as [Ha|Ha], Hb as [Hb|Hb]; subst; auto.
  - exfalso. apply Hn. rewrite E. apply in_map. exact Hb.
  - exfalso. apply Hn. rewrite <- E. apply in_map. exact Ha.
Qed.

Lemma nodup_map_filter {A} (f : A -> Z) (p : A -> bool) (l : list A) :
  NoDup (map f l) -> NoDup (map f (filter p l)).
Proof.
  induction l as [|x l IH]; cbn; intros ND; [constructor|].
  inversion ND as [|? ? Hn ND']; subst.
  destruct (p x); cbn; auto. constructor; auto.
  intro H. apply Hn. apply in_map_iff in H as [y [E Hy]]. apply filter_In in Hy as [Hy _].
  rewrite <- E. apply in_map. exact Hy.
Qed.

Lemma find_none_filter {A} (p : A -> bool) (l : list A) :
  find p l = None -> filter (fun x => negb (p x)) l = l.
Proof.
  induction l as [|x l IH]; cbn; auto. destruct (p x) eqn:E; [discriminate|].
  intro H. cbn. f_equal. auto.
Qed.

Lemma existsb_find {A} (p : A -> bool) (l : list A) :
  existsb p l = match find p l with Some _ => true | None => false end.
Proof. induction l as [|x l IH]; cbn; auto. destruct (p x); auto. Qed.

(* ---------------------------------------------------------------------------------------- *)
(* dict / timers in step *)
Definition rm (n : Z) (ts : list timer) : list timer := filter (fun t => negb (name_is n t)) ts.
Definition rmid (u : Z) (ts : list timer) : list timer := filter (fun t => negb (id_is u t)) ts.

Lemma dict_find_map n ts : dict_find n (map entry_of ts) = option_map entry_of (find (name_is n) ts).
Proof.
  induction ts as [|t ts IH]; cbn; auto.
  unfold ename_is, name_is in *. cbn. destruct (t_name t =? n); auto.
Qed.

Lemma dict_del_map n ts : dict_del n (map entry_of ts) = map entry_of (rm n ts).
Proof.
  induction ts as [|t ts IH]; cbn; auto.
  unfold ename_is, name_is in *. cbn. destruct (t_name t =? n); cbn; auto. f_equal. exact IH.
Qed.

Lemma is_live_in u ts : is_live u ts = true <-> exists tm, In tm ts /\ t_id tm = u.
Proof.
  unfold is_live. rewrite existsb_exists. unfold id_is.
  split; intros [tm [H1 H2]]; exists tm; split; auto; [apply Z.eqb_eq|apply Z.eqb_eq]; auto.
Qed.

Lemma is_live_rmid u ts : is_live u (rmid u ts) = false.
Proof.
  destruct (is_live u (rmid u ts)) eqn:E; auto.
  apply is_live_in in E as [tm [H1 H2]]. apply filter_In in H1 as [_ H1].
  unfold id_is in H1. rewrite H2, Z.eqb_refl in H1. discriminate.
Qed.

Lemma rmid_rm ts tm :
  NoDup (map t_name ts) -> NoDup (map t_id ts) -> In tm ts -> rmid (t_id tm) ts = rm (t_name tm) ts.
Proof.
  intros N1 N2 Hin. apply filter_ext_in. intros t Ht. f_equal. unfold id_is, name_is.
  destruct (Z.eqb_spec (t_id t) (t_id tm)) as [E|E], (Z.eqb_spec (t_name t) (t_name tm)) as [F|F]; auto.
  - exfalso. apply F. f_equal. apply (nodup_map_inj t_id ts); auto.
  - exfalso. apply E. f_equal. apply (nodup_map_inj t_name ts); auto.
Qed.

Lemma find_name_some n ts tm : find (name_is n) ts = Some tm -> In tm ts /\ t_name tm = n.
Proof. intro H. apply find_some in H as [H1 H2]. split; auto. apply Z.eqb_eq. exact H2. Qed.

Lemma find_id_some u ts tm : find (id_is u) ts = Some tm -> In tm ts /\ t_id tm = u.
Proof. intro H. apply find_some in H as [H1 H2]. split; auto. apply Z.eqb_eq. exact H2. Qed.

Lemma in_rm n ts t : In t (rm n ts) <-> In t ts /\ t_name t <> n.
Proof.
  unfold rm. rewrite filter_In. unfold name_is.
  destruct (Z.eqb_spec (t_name t) n); cbn; intuition congruence.
Qed.

Lemma in_rmid u ts t : In t (rmid u ts) <-> In t ts /\ t_id t <> u.
Proof.
  unfold rmid. rewrite filter_In. unfold id_is.
  destruct (Z.eqb_spec (t_id t) u); cbn; intuition congruence.
Qed.

(* normal form of remove(name) when dict mirrors the live handles *)
Definition removed (n : Z) (st : state) : state :=
  match find (name_is n) (timers st) with
  | None => st
  | Some tm => mkS (now st) (next st) (map entry_of (rm n (timers st))) (rm n (timers st))
                   (EKill (t_id tm) :: log st)
  end.

Definition wf (st : state) : Prop :=
  dict st = map entry_of (timers st) /\ NoDup (map t_name (timers st)) /\ NoDup (map t_id (timers st)).

Lemma do_remove_nf n st : wf st -> do_remove n st = removed n st.
Proof.
  intros [D [N1 N2]]. unfold do_remove, removed. rewrite D, dict_find_map.
  destruct (find (name_is n) (timers st)) as [tm|] eqn:F; cbn; auto.
  apply find_name_some in F as [Hin Hn]. unfold do_cancel. cbn.
  assert (L : is_live (t_id tm) (timers st) = true) by (apply is_live_in; eauto).
  unfold is_live in L. rewrite L. fold (rmid (t_id tm) (timers st)). rewrite rmid_rm by auto. rewrite Hn.
  rewrite dict_del_map. reflexivity.
Qed.

Lemma clear_one_eq st n : clear_one st n = do_remove n st.
Proof.
  unfold clear_one, do_remove. destruct (dict_find n (dict st)) as [e|] eqn:F; auto.
  destruct st as [nw nx d ts lg]. cbn in *. unfold do_cancel, is_live. cbn.
  destruct (existsb (id_is (e_tid e)) ts) eqn:L; cbn; rewrite F; cbn.
  - fold (rmid (e_tid e) ts). pose proof (is_live_rmid (e_tid e) ts) as R. unfold is_live in R.
    rewrite R. reflexivity.
  - rewrite L. reflexivity.
Qed.

(* ---------------------------------------------------------------------------------------- *)
(* the log discipline: every event is justified by its past *)
Definition called (u : Z) (l : list ev) : Prop := exists t c k rn, In (ECall t u c k rn) l.
Definition called_with (u c : Z) (k : kwargs) (l : list ev) : Prop := exists t rn, In (ECall t u c k rn) l.

Definition justified (past : list ev) (e : ev) : Prop :=
  match e with
  | ECall t u c k rn =>
      (exists t0 n ms, In (EAdd t0 u n ms c k) past /\ (rn = false -> t = t0 + 1000 * ms)) /\
      ~ called u past /\
      (if rn then exists past', past = EKill u :: past' else ~ In (EKill u) past)
  | EKill u => ~ In (EKill u) past /\ ~ called u past
  | ECheck n b g => b = g
  | EAdd t0 u n ms c k => forall t0' n' ms' c' k', ~ In (EAdd t0' u n' ms' c' k') past
  | EClear => forall t0 u n ms c k, In (EAdd t0 u n ms c k) past -> In (EKill u) past \/ called u past
  | EMode code t => code = 1 \/ code = 3 -> exists past', past = EClear :: past'
  | _ => True
  end.

Fixpoint log_ok (l : list ev) : Prop :=
  match l with [] => True | e :: past => justified past e /\ log_ok past end.

Lemma log_ok_split l : log_ok l -> forall l1 e l2, l = l1 ++ e :: l2 -> justified l2 e.
Proof.
  induction l as [|x l IH]; intros H l1 e l2 E.
  - destruct l1; discriminate.
  - destruct l1 as [|y l1]; cbn in E; inversion E; subst.
    + apply H.
    + eapply IH; [apply H | reflexivity].
Qed.

Lemma log_ok_in l e : log_ok l -> In e l -> exists l1 l2, l = l1 ++ e :: l2 /\ justified l2 e.
Proof.
  intros H Hin. apply in_split in Hin as [l1 [l2 E]]. exists l1, l2. split; auto.
  eapply log_ok_split; eauto.
Qed.

Lemma add_unique l : log_ok l -> forall t0 u n ms c k t0' n' ms' c' k',
  In (EAdd t0 u n ms c k) l -> In (EAdd t0' u n' ms' c' k') l ->
  EAdd t0 u n ms c k = EAdd t0' u n' ms' c' k'.
Proof.
  induction l as [|x l IH]; intros H t0 u n ms c k t0' n' ms' c' k' H1 H2; [contradiction|].
  destruct H as [J H]. destruct H1 as [H1|H1], H2 as [H2|H2].
  - congruence.
  - subst x. cbn in J. exfalso. eapply J; eauto.
  - subst x. cbn in J. exfalso. eapply J; eauto.
  - eapply IH; eauto.
Qed.

(* ---------------------------------------------------------------------------------------- *)
(* the invariant *)
Definition inv_core (nx : Z) (ts : list timer) (lg : list ev) : Prop :=
  NoDup (map t_name ts) /\ NoDup (map t_id ts) /\
  (forall tm, In tm ts -> t_id tm < nx) /\
  (forall t0 u n ms c k, In (EAdd t0 u n ms c k) lg -> u < nx) /\
  (forall u, In (EKill u) lg -> u < nx) /\
  (forall u, called u lg -> u < nx) /\
  (forall tm, In tm ts -> exists t0 ms,
        In (EAdd t0 (t_id tm) (t_name tm) ms (t_cb tm) (t_kw tm)) lg /\ t_when tm = t0 + 1000 * ms) /\
  (forall tm, In tm ts -> ~ In (EKill (t_id tm)) lg /\ ~ called (t_id tm) lg) /\
  (forall t0 u n ms c k, In (EAdd t0 u n ms c k) lg ->
        is_live u ts = true \/ In (EKill u) lg \/ called_with u c k lg) /\
  log_ok lg.

Definition Inv (st : state) : Prop :=
  dict st = map entry_of (timers st) /\ inv_core (next st) (timers st) (log st).

Lemma Inv_wf st : Inv st -> wf st.
Proof. intros [D [N1 [N2 _]]]. repeat split; auto. Qed.

Lemma called_cons_other u e l : (forall t c k rn, e <> ECall t u c k rn) -> called u (e :: l) -> called u l.
Proof.
  intros Hne [t [c [k [rn [H|H]]]]]; [exfalso; eapply Hne; eauto|]. exists t, c, k, rn. exact H.
Qed.

Lemma called_cons u e l : called u l -> called u (e :: l).
Proof. intros [t [c [k [rn H]]]]. exists t, c, k, rn. right. exact H. Qed.

Lemma called_with_cons u c k e l : called_with u c k l -> called_with u c k (e :: l).
Proof. intros [t [rn H]]. exists t, rn. right. exact H. Qed.

Ltac finish_inv := unfold inv_core; repeat (split; [assumption|]); assumption.

(* harmless events *)
Definition harmless (e : ev) : Prop :=
  match e with ECheck n b g => b = g | EDict _ => True | EOof => True | EReject _ => True
             | ERaise _ => True | ECaught _ => True | _ => False end.

Lemma inv_core_harmless nx ts lg e : harmless e -> inv_core nx ts lg -> inv_core nx ts (e :: lg).
Proof.
  intros He (N1 & N2 & I3 & I4 & I4k & I4c & I5 & I6 & I7 & I8).
  assert (NA : forall t0 u n ms c k, In (EAdd t0 u n ms c k) (e :: lg) -> In (EAdd t0 u n ms c k) lg)
    by (intros ? ? ? ? ? ? [H|H]; [subst e; contradiction|exact H]).
  assert (NK : forall u, In (EKill u) (e :: lg) -> In (EKill u) lg)
    by (intros ? [H|H]; [subst e; contradiction|exact H]).
  assert (NC : forall u, called u (e :: lg) -> called u lg)
    by (intros u; apply called_cons_other; intros; intro; subst e; contradiction).
  assert (C4 : forall t0 u n ms c k, In (EAdd t0 u n ms c k) (e :: lg) -> u < nx) by (intros; eapply I4; eauto).
  assert (C4k : forall u, In (EKill u) (e :: lg) -> u < nx) by auto.
  assert (C4c : forall u, called u (e :: lg) -> u < nx) by auto.
  assert (C5 : forall tm, In tm ts -> exists t0 ms,
        In (EAdd t0 (t_id tm) (t_name tm) ms (t_cb tm) (t_kw tm)) (e :: lg) /\ t_when tm = t0 + 1000 * ms).
  { intros tm Hin. destruct (I5 tm Hin) as [t0 [ms [H1 H2]]]. exists t0, ms. split; auto. right; auto. }
  assert (C6 : forall tm, In tm ts -> ~ In (EKill (t_id tm)) (e :: lg) /\ ~ called (t_id tm) (e :: lg)).
  { intros tm Hin. split; intro H; [apply NK in H; apply (proj1 (I6 tm Hin)); auto|
                                    apply NC in H; apply (proj2 (I6 tm Hin)); auto]. }
  assert (C7 : forall t0 u n ms c k, In (EAdd t0 u n ms c k) (e :: lg) ->
        is_live u ts = true \/ In (EKill u) (e :: lg) \/ called_with u c k (e :: lg)).
  { intros t0 u n ms c k H. apply NA in H. destruct (I7 _ _ _ _ _ _ H) as [A|[A|A]]; auto.
    - right; left; right; auto.
    - right; right. apply called_with_cons; auto. }
  assert (C8 : log_ok (e :: lg)) by (cbn; split; auto; destruct e; cbn in *; auto; contradiction).
  finish_inv.
Qed.


(* marker events (EClear, EMode, ...): anything that is not an add/kill/call may be logged when it is justified *)
Definition marker (e : ev) : Prop :=
  match e with EAdd _ _ _ _ _ _ => False | EKill _ => False | ECall _ _ _ _ _ => False | _ => True end.

Lemma inv_core_marker nx ts lg e : marker e -> justified lg e -> inv_core nx ts lg -> inv_core nx ts (e :: lg).
Proof.
  intros He Je (N1 & N2 & I3 & I4 & I4k & I4c & I5 & I6 & I7 & I8).
  assert (NA : forall t0 u n ms c k, In (EAdd t0 u n ms c k) (e :: lg) -> In (EAdd t0 u n ms c k) lg)
    by (intros ? ? ? ? ? ? [H|H]; [subst e; contradiction|exact H]).
  assert (NK : forall u, In (EKill u) (e :: lg) -> In (EKill u) lg)
    by (intros ? [H|H]; [subst e; contradiction|exact H]).
  assert (NC : forall u, called u (e :: lg) -> called u lg)
    by (intros u; apply called_cons_other; intros; intro; subst e; contradiction).
  assert (C4 : forall t0 u n ms c k, In (EAdd t0 u n ms c k) (e :: lg) -> u < nx) by (intros; eapply I4; eauto).
  assert (C4k : forall u, In (EKill u) (e :: lg) -> u < nx) by auto.
  assert (C4c : forall u, called u (e :: lg) -> u < nx) by auto.
  assert (C5 : forall tm, In tm ts -> exists t0 ms,
        In (EAdd t0 (t_id tm) (t_name tm) ms (t_cb tm) (t_kw tm)) (e :: lg) /\ t_when tm = t0 + 1000 * ms).
  { intros tm Hin. destruct (I5 tm Hin) as [t0 [ms [H1 H2]]]. exists t0, ms. split; auto. right; auto. }
  assert (C6 : forall tm, In tm ts -> ~ In (EKill (t_id tm)) (e :: lg) /\ ~ called (t_id tm) (e :: lg)).
  { intros tm Hin. split; intro H; [apply NK in H; apply (proj1 (I6 tm Hin)); auto|
                                    apply NC in H; apply (proj2 (I6 tm Hin)); auto]. }
  assert (C7 : forall t0 u n ms c k, In (EAdd t0 u n ms c k) (e :: lg) ->
        is_live u ts = true \/ In (EKill u) (e :: lg) \/ called_with u c k (e :: lg)).
  { intros t0 u n ms c k H. apply NA in H. destruct (I7 _ _ _ _ _ _ H) as [A|[A|A]]; auto.
    - right; left; right; auto.
    - right; right. apply called_with_cons; auto. }
  assert (C8 : log_ok (e :: lg)) by (cbn; split; auto).
  finish_inv.
Qed.

Lemma called_with_called u c k l : called_with u c k l -> called u l.
Proof. intros [t [rn H]]. exists t, c, k, rn. exact H. Qed.

(* with no live handle left, every add of the past is dead: clear()'s marker is justified *)
Lemma inv_core_clear nx lg : inv_core nx [] lg -> inv_core nx [] (EClear :: lg).
Proof.
  intro I. apply inv_core_marker; [exact Logic.I| |exact I].
  destruct I as (_ & _ & _ & _ & _ & _ & _ & _ & I7 & _).
  cbn. intros t0 u n ms c k H. destruct (I7 _ _ _ _ _ _ H) as [A|[A|A]].
  - cbn in A. discriminate.
  - left; exact A.
  - right. eapply called_with_called; eauto.
Qed.

(* next may only grow *)
Lemma inv_core_skip nx ts lg : inv_core nx ts lg -> inv_core (nx + 1) ts lg.
Proof.
  intros (N1 & N2 & I3 & I4 & I4k & I4c & I5 & I6 & I7 & I8).
  assert (C3 : forall tm, In tm ts -> t_id tm < nx + 1) by (intros tm H; apply I3 in H; lia).
  assert (C4 : forall t0 u n ms c k, In (EAdd t0 u n ms c k) lg -> u < nx + 1) by (intros; enough (u < nx) by lia; eauto).
  assert (C4k : forall u, In (EKill u) lg -> u < nx + 1) by (intros u H; apply I4k in H; lia).
  assert (C4c : forall u, called u lg -> u < nx + 1) by (intros u H; apply I4c in H; lia).
  finish_inv.
Qed.

(* T1: cancel + remove the handle named n *)
Lemma inv_core_remove nx ts lg n tm :
  find (name_is n) ts = Some tm -> inv_core nx ts lg -> inv_core nx (rm n ts) (EKill (t_id tm) :: lg).
Proof.
  intros F (N1 & N2 & I3 & I4 & I4k & I4c & I5 & I6 & I7 & I8).
  apply find_name_some in F as [Hin Hn].
  set (lg' := EKill (t_id tm) :: lg).
  assert (DIFF : forall t, In t (rm n ts) -> t_id t <> t_id tm).
  { intros t Ht E. apply in_rm in Ht as [Ht Hne]. apply Hne. rewrite <- Hn. f_equal.
    apply (nodup_map_inj t_id ts); auto. }
  assert (C1 : NoDup (map t_name (rm n ts))) by (apply nodup_map_filter; auto).
  assert (C2 : NoDup (map t_id (rm n ts))) by (apply nodup_map_filter; auto).
  assert (C3 : forall t, In t (rm n ts) -> t_id t < nx) by (intros t Ht; apply in_rm in Ht as [Ht _]; auto).
  assert (C4 : forall t0 u n ms c k, In (EAdd t0 u n ms c k) lg' -> u < nx)
    by (intros ? ? ? ? ? ? [H|H]; [discriminate|eauto]).
  assert (C4k : forall u, In (EKill u) lg' -> u < nx)
    by (intros u [H|H]; [inversion H; subst; auto|auto]).
  assert (C4c : forall u, called u lg' -> u < nx)
    by (intros u H; apply I4c; eapply called_cons_other; eauto; intros; discriminate).
  assert (C5 : forall t, In t (rm n ts) -> exists t0 ms,
        In (EAdd t0 (t_id t) (t_name t) ms (t_cb t) (t_kw t)) lg' /\ t_when t = t0 + 1000 * ms).
  { intros t Ht. apply in_rm in Ht as [Ht _]. destruct (I5 t Ht) as [t0 [ms [H1 H2]]].
    exists t0, ms. split; auto. right; auto. }
  assert (C6 : forall t, In t (rm n ts) -> ~ In (EKill (t_id t)) lg' /\ ~ called (t_id t) lg').
  { intros t Ht. pose proof (DIFF t Ht) as D. apply in_rm in Ht as [Ht _]. split.
    - intros [H|H]; [inversion H; congruence|apply (proj1 (I6 t Ht)); auto].
    - intro H. apply (proj2 (I6 t Ht)). eapply called_cons_other; eauto. intros; discriminate. }
  assert (C7 : forall t0 u n' ms c k, In (EAdd t0 u n' ms c k) lg' ->
        is_live u (rm n ts) = true \/ In (EKill u) lg' \/ called_with u c k lg').
  { intros t0 u n' ms c k [H|H]; [discriminate|].
    destruct (I7 _ _ _ _ _ _ H) as [A|[A|A]].
    - destruct (Z.eq_dec u (t_id tm)) as [E|E].
      + right; left; left. congruence.
      + left. apply is_live_in in A as [t [Ht Hu]]. apply is_live_in. exists t. split; auto.
        apply in_rm. split; auto. intro Hname. apply E. rewrite <- Hu. f_equal.
        apply (nodup_map_inj t_name ts); auto. congruence.
    - right; left; right; auto.
    - right; right. apply called_with_cons; auto. }
  assert (C8 : log_ok lg') by (cbn; split; auto; exact (I6 tm Hin)).
  finish_inv.
Qed.

Lemma Inv_removed n st : Inv st -> Inv (removed n st).
Proof.
  intros [D I]. unfold removed. destruct (find (name_is n) (timers st)) as [tm|] eqn:F.
  - split; cbn; auto. apply inv_core_remove; auto.
  - split; auto.
Qed.

Lemma Inv_do_remove n st : Inv st -> Inv (do_remove n st).
Proof. intro H. rewrite do_remove_nf by (apply Inv_wf; auto). apply Inv_removed; auto. Qed.

Lemma timers_removed n st : timers (removed n st) = rm n (timers st).
Proof.
  unfold removed. destruct (find (name_is n) (timers st)) eqn:F; cbn; auto.
  symmetry. apply find_none_filter. exact F.
Qed.

Lemma next_removed n st : next (removed n st) = next st.
Proof. unfold removed. destruct (find (name_is n) (timers st)); auto. Qed.
Lemma now_removed n st : now (removed n st) = now st.
Proof. unfold removed. destruct (find (name_is n) (timers st)); auto. Qed.

Lemma NoDup_snoc (l : list Z) x : NoDup l -> ~ In x l -> NoDup (l ++ [x]).
Proof.
  induction l as [|y l IH]; cbn; intros ND Hn; [constructor; auto; constructor|].
  inversion ND; subst. constructor.
  - intro H. apply in_app_or in H as [H|[H|[]]]; auto.
  - apply IH; auto.
Qed.

(* T2: schedule a new handle *)
Lemma inv_core_add nx ts lg tnow ms n cb kw :
  (forall t, In t ts -> t_name t <> n) ->
  inv_core nx ts lg ->
  inv_core (nx + 1) (ts ++ [mkT nx (tnow + 1000 * ms) n cb kw]) (EAdd tnow nx n ms cb kw :: lg).
Proof.
  intros FR (N1 & N2 & I3 & I4 & I4k & I4c & I5 & I6 & I7 & I8).
  set (new := mkT nx (tnow + 1000 * ms) n cb kw). set (lg' := EAdd tnow nx n ms cb kw :: lg).
  assert (C1 : NoDup (map t_name (ts ++ [new]))).
  { rewrite map_app. cbn. apply NoDup_snoc; auto.
    intro H. apply in_map_iff in H as [t [E Ht]]. eapply FR; eauto. }
  assert (C2 : NoDup (map t_id (ts ++ [new]))).
  { rewrite map_app. cbn. apply NoDup_snoc; auto.
    intro H. apply in_map_iff in H as [t [E Ht]]. apply I3 in Ht. lia. }
  assert (C3 : forall t, In t (ts ++ [new]) -> t_id t < nx + 1).
  { intros t Ht. apply in_app_or in Ht as [Ht|[Ht|[]]]; [apply I3 in Ht; lia|subst; cbn; lia]. }
  assert (C4 : forall t0 u n ms c k, In (EAdd t0 u n ms c k) lg' -> u < nx + 1).
  { intros ? ? ? ? ? ? [H|H]; [inversion H; lia|apply I4 in H; lia]. }
  assert (C4k : forall u, In (EKill u) lg' -> u < nx + 1).
  { intros u [H|H]; [discriminate|apply I4k in H; lia]. }
  assert (C4c : forall u, called u lg' -> u < nx + 1).
  { intros u H. apply called_cons_other in H; [apply I4c in H; lia|intros; discriminate]. }
  assert (C5 : forall t, In t (ts ++ [new]) -> exists t0 ms,
        In (EAdd t0 (t_id t) (t_name t) ms (t_cb t) (t_kw t)) lg' /\ t_when t = t0 + 1000 * ms).
  { intros t Ht. apply in_app_or in Ht as [Ht|[Ht|[]]].
    - destruct (I5 t Ht) as [t0 [ms0 [H1 H2]]]. exists t0, ms0. split; auto. right; auto.
    - subst t. cbn. exists tnow, ms. split; auto. }
  assert (C6 : forall t, In t (ts ++ [new]) -> ~ In (EKill (t_id t)) lg' /\ ~ called (t_id t) lg').
  { intros t Ht. split.
    - intros [H|H]; [discriminate|]. apply in_app_or in Ht as [Ht|[Ht|[]]].
      + apply (proj1 (I6 t Ht)); auto.
      + subst t. cbn in H. apply I4k in H. lia.
    - intro H. apply called_cons_other in H; [|intros; discriminate].
      apply in_app_or in Ht as [Ht|[Ht|[]]].
      + apply (proj2 (I6 t Ht)); auto.
      + subst t. cbn in H. apply I4c in H. lia. }
  assert (C7 : forall t0 u n' ms' c k, In (EAdd t0 u n' ms' c k) lg' ->
        is_live u (ts ++ [new]) = true \/ In (EKill u) lg' \/ called_with u c k lg').
  { intros t0 u n' ms' c k [H|H].
    - inversion H; subst. left. apply is_live_in. exists new. split; [apply in_or_app; right; left; reflexivity|reflexivity].
    - destruct (I7 _ _ _ _ _ _ H) as [A|[A|A]].
      + left. unfold is_live in *. rewrite existsb_app, A. reflexivity.
      + right; left; right; auto.
      + right; right. apply called_with_cons; auto. }
  assert (C8 : log_ok lg').
  { cbn. split; auto. intros t0' n' ms' c' k' H. apply I4 in H. lia. }
  finish_inv.
Qed.

(* T5: the loop runs handle u (not cancelled) *)
Lemma inv_core_fire nx ts lg u tm :
  find (id_is u) ts = Some tm -> inv_core nx ts lg ->
  inv_core nx (rmid u ts) (ECall (t_when tm) u (t_cb tm) (t_kw tm) false :: lg).
Proof.
  intros F (N1 & N2 & I3 & I4 & I4k & I4c & I5 & I6 & I7 & I8).
  apply find_id_some in F as [Hin Hu].
  set (lg' := ECall (t_when tm) u (t_cb tm) (t_kw tm) false :: lg).
  assert (C1 : NoDup (map t_name (rmid u ts))) by (apply nodup_map_filter; auto).
  assert (C2 : NoDup (map t_id (rmid u ts))) by (apply nodup_map_filter; auto).
  assert (C3 : forall t, In t (rmid u ts) -> t_id t < nx) by (intros t Ht; apply in_rmid in Ht as [Ht _]; auto).
  assert (C4 : forall t0 u n ms c k, In (EAdd t0 u n ms c k) lg' -> u < nx)
    by (intros ? ? ? ? ? ? [H|H]; [discriminate|eauto]).
  assert (C4k : forall u, In (EKill u) lg' -> u < nx) by (intros ? [H|H]; [discriminate|auto]).
  assert (C4c : forall v, called v lg' -> v < nx).
  { intros v [t [c [k [rn [H|H]]]]].
    - inversion H; subst. auto.
    - apply I4c. exists t, c, k, rn. exact H. }
  assert (C5 : forall t, In t (rmid u ts) -> exists t0 ms,
        In (EAdd t0 (t_id t) (t_name t) ms (t_cb t) (t_kw t)) lg' /\ t_when t = t0 + 1000 * ms).
  { intros t Ht. apply in_rmid in Ht as [Ht _]. destruct (I5 t Ht) as [t0 [ms [H1 H2]]].
    exists t0, ms. split; auto. right; auto. }
  assert (C6 : forall t, In t (rmid u ts) -> ~ In (EKill (t_id t)) lg' /\ ~ called (t_id t) lg').
  { intros t Ht. apply in_rmid in Ht as [Ht D]. split.
    - intros [H|H]; [discriminate|apply (proj1 (I6 t Ht)); auto].
    - intros [t1 [c [k [rn [H|H]]]]].
      + inversion H. congruence.
      + apply (proj2 (I6 t Ht)). exists t1, c, k, rn. exact H. }
  assert (C7 : forall t0 v n' ms c k, In (EAdd t0 v n' ms c k) lg' ->
        is_live v (rmid u ts) = true \/ In (EKill v) lg' \/ called_with v c k lg').
  { intros t0 v n' ms c k [H|H]; [discriminate|].
    destruct (I7 _ _ _ _ _ _ H) as [A|[A|A]].
    - destruct (Z.eq_dec v u) as [E|E].
      + right; right. subst v.
        destruct (I5 tm Hin) as [t0' [ms' [H1 H2]]]. rewrite Hu in H1.
        pose proof (add_unique lg I8 _ _ _ _ _ _ _ _ _ _ _ H H1) as EQ. inversion EQ; subst.
        exists (t_when tm), false. left. reflexivity.
      + left. apply is_live_in in A as [t [Ht Hv]]. apply is_live_in. exists t. split; auto.
        apply in_rmid. split; auto. congruence.
    - right; left; right; auto.
    - right; right. apply called_with_cons; auto. }
  assert (C8 : log_ok lg').
  { cbn. split; auto. destruct (I5 tm Hin) as [t0 [ms [H1 H2]]]. destruct (I6 tm Hin) as [K1 K2].
    rewrite Hu in *. repeat split; auto. exists t0, (t_name tm), ms. split; auto. }
  finish_inv.
Qed.

(* T6: run_now's call, right after its handle was cancelled *)
Lemma inv_core_runnow nx ts lg n tm tnow :
  find (name_is n) ts = Some tm -> inv_core nx ts lg ->
  inv_core nx (rm n ts) (ECall tnow (t_id tm) (t_cb tm) (t_kw tm) true :: EKill (t_id tm) :: lg).
Proof.
  intros F I. pose proof (inv_core_remove nx ts lg n tm F I) as J.
  destruct I as (N1 & N2 & I3 & I4 & I4k & I4c & I5 & I6 & I7 & I8).
  destruct J as (C1 & C2 & C3 & J4 & J4k & J4c & J5 & J6 & J7 & J8).
  apply find_name_some in F as [Hin Hn].
  set (u := t_id tm) in *. set (lg1 := EKill u :: lg) in *.
  set (lg' := ECall tnow u (t_cb tm) (t_kw tm) true :: lg1).
  assert (DIFF : forall t, In t (rm n ts) -> t_id t <> u).
  { intros t Ht E. apply in_rm in Ht as [Ht Hne]. apply Hne. rewrite <- Hn. f_equal.
    apply (nodup_map_inj t_id ts); auto. }
  assert (C4 : forall t0 u n ms c k, In (EAdd t0 u n ms c k) lg' -> u < nx)
    by (intros ? ? ? ? ? ? [H|H]; [discriminate|eauto]).
  assert (C4k : forall u, In (EKill u) lg' -> u < nx) by (intros ? [H|H]; [discriminate|auto]).
  assert (C4c : forall v, called v lg' -> v < nx).
  { intros v [t [c [k [rn [H|H]]]]].
    - inversion H; subst. apply I3. auto.
    - apply J4c. exists t, c, k, rn. exact H. }
  assert (C5 : forall t, In t (rm n ts) -> exists t0 ms,
        In (EAdd t0 (t_id t) (t_name t) ms (t_cb t) (t_kw t)) lg' /\ t_when t = t0 + 1000 * ms).
  { intros t Ht. destruct (J5 t Ht) as [t0 [ms [H1 H2]]]. exists t0, ms. split; auto. right; auto. }
  assert (C6 : forall t, In t (rm n ts) -> ~ In (EKill (t_id t)) lg' /\ ~ called (t_id t) lg').
  { intros t Ht. pose proof (DIFF t Ht) as D. split.
    - intros [H|H]; [discriminate|apply (proj1 (J6 t Ht)); auto].
    - intros [t1 [c [k [rn [H|H]]]]].
      + inversion H. congruence.
      + apply (proj2 (J6 t Ht)). exists t1, c, k, rn. exact H. }
  assert (C7 : forall t0 v n' ms c k, In (EAdd t0 v n' ms c k) lg' ->
        is_live v (rm n ts) = true \/ In (EKill v) lg' \/ called_with v c k lg').
  { intros t0 v n' ms c k [H|H]; [discriminate|].
    destruct (J7 _ _ _ _ _ _ H) as [A|[A|A]]; auto.
    - right; left; right; auto.
    - right; right. apply called_with_cons; auto. }
  assert (C8 : log_ok lg').
  { cbn. split; [|exact J8]. destruct (I5 tm Hin) as [t0 [ms [H1 H2]]]. destruct (I6 tm Hin) as [K1 K2].
    split; [|split].
    - exists t0, (t_name tm), ms. split; [right; exact H1|discriminate].
    - intro H. apply K2. eapply called_cons_other; eauto. intros; discriminate.
    - exists lg. reflexivity. }
  finish_inv.
Qed.

(* ---------------------------------------------------------------------------------------- *)
(* operations preserve the invariant *)
Definition call_ok (call : callfn) : Prop :=
  forall u c k rn st, Inv (emit (ECall (now st) u c k rn) st) -> Inv (call u c k rn st).

Lemma Inv_emit_harmless e st : harmless e -> Inv st -> Inv (emit e st).
Proof. intros He [D I]. split; cbn; auto. apply inv_core_harmless; auto. Qed.

Lemma check_live st n : wf st -> check st n = live_name n (timers st).
Proof.
  intros [D _]. unfold check, live_name. rewrite D, dict_find_map, existsb_find.
  destruct (find (name_is n) (timers st)); reflexivity.
Qed.

Lemma Inv_do_check n st : Inv st -> Inv (do_check n st).
Proof. intro I. apply Inv_emit_harmless; auto. cbn. apply check_live. apply Inv_wf; auto. Qed.

Lemma Inv_skip_id st : Inv st -> Inv (skip_id st).
Proof. intros [D I]. split; cbn; auto. apply inv_core_skip; auto. Qed.

Lemma Inv_add_named ms n cb kw st : Inv st -> Inv (add_named ms n cb kw st).
Proof.
  intros [D I]. unfold add_named.
  set (st0 := mkS (now st) (next st + 1) (dict st) (timers st) (log st)).
  assert (W0 : wf st0) by (destruct I as (N1 & N2 & _); repeat split; auto).
  rewrite do_remove_nf by exact W0.
  assert (I1 : dict (removed n st0) = map entry_of (timers (removed n st0)) /\
               inv_core (next st) (timers (removed n st0)) (log (removed n st0))).
  { unfold removed. cbn. destruct (find (name_is n) (timers st)) as [tm|] eqn:F; cbn; auto.
    split; auto. apply inv_core_remove; auto. }
  destruct I1 as [D1 I1].
  split; cbn.
  - rewrite D1, map_app. reflexivity.
  - rewrite next_removed. cbn. apply inv_core_add; auto.
    intros t Ht. rewrite timers_removed in Ht. cbn in Ht. apply in_rm in Ht as [_ Ht]. exact Ht.
Qed.

Lemma do_add_client_name ms n cb kw st : 0 <= n -> do_add ms n cb kw st = add_named ms n cb kw st.
Proof.
  intro H. unfold do_add, usable, known, add_ret, is_anon.
  destruct (Z.eqb_spec n (-1)); [lia|]. destruct (Z.leb_spec 0 n); [|lia]. reflexivity.
Qed.

Lemma Inv_do_add ms n0 cb kw st : Inv st -> Inv (do_add ms n0 cb kw st).
Proof. intro I. unfold do_add. destruct (usable st n0); auto. apply Inv_add_named; auto. Qed.

Lemma Inv_do_add_if ms n0 cb kw st : Inv st -> Inv (do_add_if ms n0 cb kw st).
Proof.
  intro I. unfold do_add_if. destruct (negb (usable st n0)); auto.
  destruct (negb (is_anon n0) && check st n0).
  - apply Inv_skip_id; auto.
  - apply Inv_do_add; auto.
Qed.

Lemma Inv_do_reset ms n0 cb kw st : Inv st -> Inv (do_reset ms n0 cb kw st).
Proof.
  intro I. unfold do_reset. destruct (negb (usable st n0)); auto.
  apply Inv_do_add. destruct (negb (is_anon n0) && check st n0); auto.
  apply Inv_do_remove; auto.
Qed.

Lemma filter_true {A} (l : list A) : filter (fun _ => true) l = l.
Proof. induction l; cbn; congruence. Qed.

Lemma filter_filter {A} (p q : A -> bool) (l : list A) :
  filter q (filter p l) = filter (fun x => p x && q x) l.
Proof.
  induction l as [|x l IH]; cbn; auto. destruct (p x); cbn; [destruct (q x)|]; cbn; congruence.
Qed.

Lemma filter_nil_all {A} (p : A -> bool) (l : list A) : (forall x, In x l -> p x = false) -> filter p l = [].
Proof.
  induction l as [|x l IH]; cbn; intro H; auto. rewrite (H x) by auto. apply IH. intros; apply H; auto.
Qed.

Lemma fold_remove_inv names : forall st, Inv st ->
  Inv (fold_left clear_one names st) /\
  timers (fold_left clear_one names st) =
    filter (fun t => negb (existsb (Z.eqb (t_name t)) names)) (timers st).
Proof.
  induction names as [|n names IH]; intros st I; cbn.
  - split; auto. symmetry. apply filter_true.
  - rewrite clear_one_eq. pose proof (Inv_do_remove n st I) as I'.
    destruct (IH _ I') as [J T]. split; auto. rewrite T.
    rewrite do_remove_nf by (apply Inv_wf; auto). rewrite timers_removed. unfold rm.
    rewrite filter_filter. apply filter_ext. intro t. unfold name_is.
    rewrite negb_orb. reflexivity.
Qed.

Lemma Inv_do_clear st : Inv st -> Inv (do_clear st).
Proof.
  intro I. destruct (fold_remove_inv (map e_name (dict st)) st I) as [[D J] T].
  assert (E : timers (fold_left clear_one (map e_name (dict st)) st) = []).
  { rewrite T. destruct I as [D0 _]. rewrite D0.
    apply filter_nil_all. intros t Ht. apply negb_false_iff. apply existsb_exists.
    exists (t_name t). split; [|apply Z.eqb_refl].
    rewrite map_map. cbn. apply in_map. exact Ht. }
  unfold do_clear. split; cbn.
  - rewrite E. reflexivity.
  - rewrite E in *. apply inv_core_clear. exact J.
Qed.

Lemma Inv_catch_all k st : Inv st -> Inv (catch_all k st).
Proof. intro I. unfold catch_all. destruct (raising st); auto. apply Inv_emit_harmless; cbn; auto. Qed.

Lemma Inv_catch_key st : Inv st -> Inv (catch_key st).
Proof.
  intro I. unfold catch_key. destruct (raising st) as [k|]; auto. destruct (k =? 1); auto.
  apply Inv_emit_harmless; cbn; auto.
Qed.

Lemma Inv_do_run_now call n st : call_ok call -> Inv st -> Inv (do_run_now false call n st).
Proof.
  intros CO I. pose proof I as [D IC]. unfold do_run_now.
  rewrite D, dict_find_map. destruct (find (name_is n) (timers st)) as [tm|] eqn:F; cbn; auto.
  apply Inv_catch_key. apply CO. rewrite do_remove_nf by (apply Inv_wf; auto). unfold removed. rewrite F.
  split; cbn; auto. apply inv_core_runnow; auto.
Qed.

Lemma exec_op_inv call o st : call_ok call -> Inv st -> Inv (exec_op false call o st).
Proof.
  intros CO I. destruct o; cbn.
  - apply Inv_do_add; auto.
  - apply Inv_do_add_if; auto.
  - apply Inv_do_reset; auto.
  - apply Inv_do_remove; auto.
  - apply Inv_do_clear; auto.
  - apply Inv_do_run_now; auto.
  - apply Inv_do_check; auto.
  - apply Inv_emit_harmless; cbn; auto.
Qed.

Lemma exec_ops_inv call ops : call_ok call -> forall st, Inv st -> Inv (exec_ops false call ops st).
Proof.
  intro CO. unfold exec_ops. induction ops as [|o ops IH]; cbn; intros st I; auto.
  apply IH. destruct (raising st); auto. apply exec_op_inv; auto.
Qed.

Lemma exec_ops_top_inv call ops : call_ok call -> forall st, Inv st -> Inv (exec_ops_top false call ops st).
Proof.
  intro CO. unfold exec_ops_top. induction ops as [|o ops IH]; cbn; intros st I; auto.
  apply IH. apply Inv_catch_all. apply exec_op_inv; auto.
Qed.

Lemma call_cb_ok scripts fuel : call_ok (call_cb false scripts fuel).
Proof.
  induction fuel as [|f IH]; intros u c k rn st I; cbn [call_cb].
  - apply Inv_emit_harmless; cbn; auto.
  - destruct (MAXLOG <? Z.of_nat (length (log (emit (ECall (now st) u c k rn) st)))).
    + apply Inv_emit_harmless; cbn; auto.
    + apply exec_ops_inv; auto.
Qed.

Lemma Inv_with_now t st : Inv st -> Inv (mkS t (next st) (dict st) (timers st) (log st)).
Proof. intros [D I]. split; auto. Qed.

Lemma Inv_fire call u st : call_ok call -> Inv st -> Inv (fire call u st).
Proof.
  intros CO I. pose proof I as [D IC]. unfold fire, find_timer.
  destruct (find (id_is u) (timers st)) as [tm|] eqn:F.
  - destruct ((now st <=? t_when tm) && forallb (fun t' => t_when tm <=? t_when t') (timers st)).
    + apply Inv_catch_all. apply CO. pose proof IC as (N1 & N2 & _). pose proof (find_id_some _ _ _ F) as [Hin Hu].
      split; cbn.
      * rewrite D, dict_del_map. f_equal. fold (rmid u (timers st)). rewrite <- Hu. symmetry.
        apply rmid_rm; auto.
      * fold (rmid u (timers st)). apply inv_core_fire; auto.
    + apply Inv_emit_harmless; cbn; auto.
  - apply Inv_emit_harmless; cbn; auto.
Qed.

Lemma call_cb_late_ok scripts t : call_ok (call_cb_late false scripts t).
Proof.
  intros u c k rn st I. unfold call_cb_late.
  destruct (MAXLOG <? Z.of_nat (length (log (emit (ECall (now st) u c k rn) st)))).
  - apply Inv_emit_harmless; [exact Logic.I|]. apply (Inv_with_now t) in I. exact I.
  - apply exec_ops_inv; [apply call_cb_ok|]. apply (Inv_with_now t) in I. exact I.
Qed.

Lemma Inv_fire_at call u t st : call_ok call -> Inv st -> Inv (fire_at call u t st).
Proof.
  intros CO I. pose proof I as [D IC]. unfold fire_at, find_timer.
  destruct (find (id_is u) (timers st)) as [tm|] eqn:F.
  - destruct ((now st <=? t) && (t_when tm <=? t) && forallb (fun t' => t_when tm <=? t_when t') (timers st)).
    + apply Inv_catch_all. apply CO. pose proof IC as (N1 & N2 & _). pose proof (find_id_some _ _ _ F) as [Hin Hu].
      split; cbn.
      * rewrite D, dict_del_map. f_equal. fold (rmid u (timers st)). rewrite <- Hu. symmetry.
        apply rmid_rm; auto.
      * fold (rmid u (timers st)). apply inv_core_fire; auto.
    + apply Inv_emit_harmless; cbn; auto.
  - apply Inv_emit_harmless; cbn; auto.
Qed.

Lemma Inv_do_step scripts st s : Inv st -> Inv (do_step false scripts st s).
Proof.
  intro I. destruct s as [t ops|u|u t]; unfold do_step; [| |apply Inv_fire_at; auto; apply call_cb_late_ok].
  - destruct (ext_ok t st).
    + apply Inv_emit_harmless; [exact Logic.I|]. apply exec_ops_top_inv; [apply call_cb_ok|].
      apply Inv_with_now; auto.
    + apply Inv_emit_harmless; [exact Logic.I|auto].
  - apply Inv_fire; auto. apply call_cb_ok.
Qed.

Lemma Inv_init : Inv init.
Proof.
  split; cbn; auto. unfold inv_core. cbn.
  repeat split; try constructor; try contradiction; intros;
    try match goal with H : called _ [] |- _ => destruct H as [? [? [? [? []]]]] end.
Qed.

Lemma Inv_run scripts steps : forall st, Inv st -> Inv (run_from false scripts steps st).
Proof.
  unfold run_from. induction steps as [|s steps IH]; cbn; intros st I; auto.
  apply IH. apply Inv_do_step; auto.
Qed.

Lemma Inv_reach scripts steps : Inv (run_from false scripts steps init).
Proof. apply Inv_run. apply Inv_init. Qed.

(* ---------------------------------------------------------------------------------------- *)
(* statements about whole histories *)
Lemma trace_split_log legacy scripts steps pre e post :
  trace legacy scripts steps = pre ++ e :: post ->
  log (run_from legacy scripts steps init) = List.rev post ++ e :: List.rev pre.
Proof.
  unfold trace. intro H. apply (f_equal (@List.rev ev)) in H. rewrite rev_involutive in H.
  rewrite H, rev_app_distr. cbn. rewrite <- app_assoc. reflexivity.
Qed.

Lemma calls_justified_l scripts steps pre e post :
  trace false scripts steps = pre ++ e :: post -> justified (List.rev pre) e.
Proof.
  intro H. apply trace_split_log in H.
  destruct (Inv_reach scripts steps) as [_ I]. destruct I as (_ & _ & _ & _ & _ & _ & _ & _ & _ & L).
  eapply log_ok_split; eauto.
Qed.

Lemma check_truthful_l scripts steps n b g :
  In (ECheck n b g) (trace false scripts steps) -> b = g.
Proof.
  intro H. apply in_split in H as [pre [post H]]. apply calls_justified_l in H. exact H.
Qed.

Lemma check_truthful_state_l scripts steps n :
  let st := run_from false scripts steps init in
  check st n = true <-> exists tm, In tm (timers st) /\ t_name tm = n.
Proof.
  cbv zeta. rewrite check_live by (apply Inv_wf, Inv_reach). unfold live_name. rewrite existsb_exists.
  unfold name_is. split; intros [tm [H1 H2]]; exists tm; split; auto; apply Z.eqb_eq; auto.
Qed.

Lemma never_twice_l scripts steps l1 l2 l3 t u c k rn t' c' k' rn' :
  trace false scripts steps = l1 ++ ECall t u c k rn :: l2 ++ ECall t' u c' k' rn' :: l3 -> False.
Proof.
  intro H.
  replace (l1 ++ ECall t u c k rn :: l2 ++ ECall t' u c' k' rn' :: l3)
    with ((l1 ++ ECall t u c k rn :: l2) ++ ECall t' u c' k' rn' :: l3) in H
    by (rewrite <- app_assoc; reflexivity).
  apply calls_justified_l in H. cbn in H. destruct H as [_ [NC _]]. apply NC.
  exists t, c, k, rn. rewrite rev_app_distr. cbn. apply in_or_app. left. apply in_or_app. right. left. reflexivity.
Qed.

Lemma fires_unless_cancelled_l scripts steps t t0 u n ms c k :
  let st := run_from false scripts steps init in
  ext_ok t st = true ->
  In (EAdd t0 u n ms c k) (log st) -> t0 + 1000 * ms < t ->
  In (EKill u) (log st) \/ In (ECall (t0 + 1000 * ms) u c k false) (log st).
Proof.
  cbv zeta. set (st := run_from false scripts steps init). intros OK HA LT.
  destruct (Inv_reach scripts steps) as [_ I]. fold st in I.
  destruct I as (N1 & N2 & I3 & I4 & I4k & I4c & I5 & I6 & I7 & I8).
  destruct (I7 _ _ _ _ _ _ HA) as [A|[A|A]]; auto.
  - exfalso. apply is_live_in in A as [tm [Hin Hu]].
    destruct (I5 tm Hin) as [t0' [ms' [H1 H2]]]. rewrite Hu in H1.
    pose proof (add_unique _ I8 _ _ _ _ _ _ _ _ _ _ _ HA H1) as EQ. inversion EQ; subst.
    unfold ext_ok in OK. apply andb_true_iff in OK as [_ OK]. rewrite forallb_forall in OK.
    specialize (OK tm Hin). apply Z.leb_le in OK. lia.
  - destruct A as [tt [rn HC]]. destruct (log_ok_in _ _ I8 HC) as [l1 [l2 [E J]]]. cbn in J.
    destruct J as [[t0' [n' [ms' [HA' HT]]]] [_ K]].
    assert (HA2 : In (EAdd t0' u n' ms' c k) (log st)).
    { rewrite E. apply in_or_app. right. right. exact HA'. }
    pose proof (add_unique _ I8 _ _ _ _ _ _ _ _ _ _ _ HA HA2) as EQ. inversion EQ; subst.
    destruct rn.
    + left. destruct K as [past' K]. rewrite E, K. apply in_or_app. right. right. left. reflexivity.
    + right. rewrite (HT eq_refl) in HC. exact HC.
Qed.

(* run_now: same callback, same kwargs, scheduled call cancelled first *)
Lemma run_now_same_args_l scripts steps call n tm :
  let st := run_from false scripts steps init in
  find (name_is n) (timers st) = Some tm ->
  do_run_now false call n st =
    catch_key (call (t_id tm) (t_cb tm) (t_kw tm) true
         (mkS (now st) (next st) (map entry_of (rm n (timers st))) (rm n (timers st))
              (EKill (t_id tm) :: log st))).
Proof.
  cbv zeta. set (st := run_from false scripts steps init). intro F.
  pose proof (Inv_reach scripts steps) as I. fold st in I. pose proof I as [D _].
  unfold do_run_now. rewrite D, dict_find_map, F. cbn.
  rewrite do_remove_nf by (apply Inv_wf; auto). unfold removed. rewrite F. reflexivity.
Qed.

Lemma run_now_legacy_drops_kwargs_l :
  exists scripts steps t0 u n ms c k t k',
    In (EAdd t0 u n ms c k) (trace true scripts steps) /\
    In (ECall t u c k' true) (trace true scripts steps) /\ k <> k'.
Proof.
  exists [], [Ext 0 [Add 1000 0 (-1) [1; 1]; RunNow 0]], 0, 0, 0, 1000, (-1), [1; 1], 0, [].
  vm_compute. repeat split; auto; discriminate.
Qed.

(* a callback that raises, run by the loop: its entry and handle are gone (deleted before the call), every other delay
   is untouched, the exception ends in the loop's exception handler *)
Definition raise_cb (k : Z) : callfn := fun u cb kw rn s => emit (ERaise k) (emit (ECall (now s) u cb kw rn) s).

Lemma raising_callback_l scripts steps u tm k :
  let st := run_from false scripts steps init in
  find_timer u (timers st) = Some tm ->
  (now st <=? t_when tm) && forallb (fun t' => t_when tm <=? t_when t') (timers st) = true ->
  let st' := fire (raise_cb k) u st in
  timers st' = rmid u (timers st) /\ dict st' = map entry_of (rmid u (timers st)) /\
  log st' = ECaught 0 :: ERaise k :: ECall (t_when tm) u (t_cb tm) (t_kw tm) false :: log st.
Proof.
  cbv zeta. set (st := run_from false scripts steps init). intros F OK.
  pose proof (Inv_reach scripts steps) as I. fold st in I. pose proof I as [D IC].
  unfold fire. rewrite F, OK. unfold raise_cb, catch_all, raising, emit. cbn.
  repeat split; auto.
  pose proof IC as (N1 & N2 & _). unfold find_timer in F. pose proof (find_id_some _ _ _ F) as [Hin Hu].
  rewrite D, dict_del_map. f_equal. rewrite <- Hu. symmetry. apply rmid_rm; auto.
Qed.

(* late dispatch is never early and never out of deadline order: such a step is not a behaviour of the loop *)
Lemma fire_at_early_rejected_l call u t st tm :
  find_timer u (timers st) = Some tm ->
  (t < t_when tm \/ exists tm', In tm' (timers st) /\ t_when tm' < t_when tm) ->
  fire_at call u t st = emit (EReject 2) st.
Proof.
  intros F H. unfold fire_at. rewrite F.
  destruct H as [H|[tm' [Hin H]]].
  - assert (E : (t_when tm <=? t) = false) by (apply Z.leb_gt; lia). rewrite E, andb_false_r. reflexivity.
  - assert (E : forallb (fun t' => t_when tm <=? t_when t') (timers st) = false).
    { destruct (forallb (fun t' => t_when tm <=? t_when t') (timers st)) eqn:A; auto.
      rewrite forallb_forall in A. specialize (A tm' Hin). apply Z.leb_le in A. lia. }
    rewrite E, andb_false_r. reflexivity.
Qed.

(* which handles an operation cancels *)
Lemma cancel_scope_l scripts steps :
  let st := run_from false scripts steps init in
  (forall n, timers (do_remove n st) = rm n (timers st)) /\
  (forall ms n cb kw, 0 <= n ->
      timers (do_add ms n cb kw st) = rm n (timers st) ++ [mkT (next st) (now st + 1000 * ms) n cb kw]) /\
  timers (do_clear st) = [].
Proof.
  cbv zeta. set (st := run_from false scripts steps init).
  pose proof (Inv_reach scripts steps) as I. fold st in I. pose proof (Inv_wf _ I) as W.
  split; [|split].
  - intro n. rewrite do_remove_nf by auto. apply timers_removed.
  - intros ms n cb kw Hn. rewrite do_add_client_name by exact Hn. unfold add_named.
    set (st0 := mkS (now st) (next st + 1) (dict st) (timers st) (log st)).
    assert (W0 : wf st0) by (destruct W as [D [N1 N2]]; repeat split; auto).
    rewrite do_remove_nf by exact W0. cbn. rewrite timers_removed. reflexivity.
  - destruct (fold_remove_inv (map e_name (dict st)) st I) as [_ T].
    unfold do_clear. cbn. rewrite T. destruct I as [D0 _]. rewrite D0.
    apply filter_nil_all. intros t Ht. apply negb_false_iff. apply existsb_exists.
    exists (t_name t). split; [|apply Z.eqb_refl].
    rewrite map_map. cbn. apply in_map. exact Ht.
Qed.

(* ---------------------------------------------------------------------------------------- *)
(* PeriodicTask *)
Fixpoint pcalls (out : list pev) : list Z :=
  match out with [] => [] | PCalled t :: r => t :: pcalls r | PReject :: r => pcalls r end.

Fixpoint ticks_desc (t0 ival : Z) (n : nat) : list Z :=
  match n with O => [] | S m => (t0 + Z.of_nat n * ival) :: ticks_desc t0 ival m end.

Definition pinv (t0 ival : Z) (st : ptask * list pev) : Prop :=
  p_ival (fst st) = ival /\
  exists n, pcalls (snd st) = ticks_desc t0 ival n /\
            (p_cancelled (fst st) = false ->
             p_last (fst st) = t0 + Z.of_nat n * ival /\ p_handle (fst st) = Some (p_last (fst st) + ival)).

Lemma pinv_step t0 ival st s : pinv t0 ival st -> pinv t0 ival (p_step st s).
Proof.
  destruct st as [p out]. intros [IV [n [C H]]]. cbn in *. destruct s; cbn.
  - destruct (p_handle p) as [w|] eqn:Hh.
    + destruct (p_now p <=? w).
      * destruct (p_cancelled p) eqn:Hc.
        -- split; auto. exists n. split; auto. cbn. discriminate.
        -- destruct (H eq_refl) as [HL HH]. split; auto. exists (S n). cbn [fst snd pcalls]. split.
           ++ cbn [ticks_desc]. rewrite C. f_equal. inversion HH. rewrite HL, Nat2Z.inj_succ. lia.
           ++ intros _. cbn [fst p_last p_handle p_ival]. rewrite IV. split; auto. rewrite HL, Nat2Z.inj_succ. lia.
      * split; auto. exists n. split; auto. cbn [fst]. rewrite Hh. exact H.
    + split; auto. exists n. split; auto. cbn [fst]. rewrite Hh. exact H.
  - destruct (p_time_ok p t); cbn; split; auto; exists n; split; auto. cbn. discriminate.
  - destruct (p_time_ok p t); cbn; split; auto; exists n; split; auto.
  - destruct (p_handle p) as [w|] eqn:Hh.
    + destruct ((p_now p <=? t) && (w <=? t)).
      * destruct (p_cancelled p) eqn:Hc.
        -- split; auto. exists n. split; auto. cbn. discriminate.
        -- destruct (H eq_refl) as [HL HH]. split; auto. exists (S n). cbn [fst snd pcalls]. split.
           ++ cbn [ticks_desc]. rewrite C. f_equal. inversion HH. rewrite HL, Nat2Z.inj_succ. lia.
           ++ intros _. cbn [fst p_last p_handle p_ival]. rewrite IV. split; auto. rewrite HL, Nat2Z.inj_succ. lia.
      * split; auto. exists n. split; auto. cbn [fst]. rewrite Hh. exact H.
    + split; auto. exists n. split; auto. cbn [fst]. rewrite Hh. exact H.
  - destruct (p_now p <=? t); cbn; split; auto; exists n; split; auto. cbn. discriminate.
Qed.

Lemma pinv_run t0 ival steps : pinv t0 ival (p_run t0 ival steps).
Proof.
  unfold p_run. assert (I : pinv t0 ival (p_init t0 ival, [])).
  { split; auto. exists O. cbn. split; auto. intros _. split; [lia|reflexivity]. }
  revert I. generalize (p_init t0 ival, @nil pev). induction steps as [|s steps IH]; cbn; auto.
  intros st I. apply IH. apply pinv_step. exact I.
Qed.

Lemma periodic_no_drift_l t0 ival steps :
  exists n, pcalls (snd (p_run t0 ival steps)) = ticks_desc t0 ival n.
Proof. destruct (pinv_run t0 ival steps) as [_ [n [C _]]]. exists n. exact C. Qed.

Lemma periodic_cancel_step st s :
  p_cancelled (fst st) = true ->
  p_cancelled (fst (p_step st s)) = true /\ pcalls (snd (p_step st s)) = pcalls (snd st).
Proof.
  destruct st as [p out]. cbn. intro Hc. destruct s; cbn.
  - destruct (p_handle p); [destruct (p_now p <=? z)|]; rewrite ?Hc; cbn; auto.
  - destruct (p_time_ok p t); cbn; auto.
  - destruct (p_time_ok p t); cbn; auto.
  - destruct (p_handle p); [destruct ((p_now p <=? t) && (z <=? t))|]; rewrite ?Hc; cbn; auto.
  - destruct (p_now p <=? t); cbn; auto.
Qed.

Lemma periodic_none_after_cancel_l steps : forall st,
  p_cancelled (fst st) = true ->
  pcalls (snd (fold_left p_step steps st)) = pcalls (snd st).
Proof.
  induction steps as [|s steps IH]; cbn; intros st Hc; auto.
  destruct (periodic_cancel_step st s Hc) as [H1 H2]. rewrite IH; auto.
Qed.

(* no tick is skipped: when the outside world looks at time t (accepted PAt) and the task is not cancelled,
   every tick strictly before t has happened *)
Lemma periodic_no_missed_tick_l t0 ival steps t :
  let st := p_run t0 ival steps in
  p_cancelled (fst st) = false -> p_time_ok (fst st) t = true ->
  exists n, pcalls (snd st) = ticks_desc t0 ival n /\ t <= t0 + (Z.of_nat n + 1) * ival.
Proof.
  cbv zeta. intros Hc OK. destruct (pinv_run t0 ival steps) as [_ [n [C H]]].
  exists n. split; auto. destruct (H Hc) as [HL HH]. unfold p_time_ok in OK. rewrite HH in OK.
  apply andb_true_iff in OK as [_ OK]. apply Z.leb_le in OK. lia.
Qed.
