(* C13/TimerLemmas.v — proofs about Timer.v *)
From Common Require Import Prelude.
From C13 Require Import Model Lemmas Timer.
Open Scope Z_scope.

Lemma check_done_notdone f c st : is_done c st = false -> check_done f c st = (st, false).
Proof. intro H. destruct f; cbn; rewrite H; reflexivity. Qed.

Lemma check_done_id f c st st' : check_done f c st = (st', false) -> st' = st /\ is_done c st = false.
Proof. destruct f; cbn; destruct (is_done c st); intro H; inversion H; auto. Qed.

(* ---------------------------------------------------------------------------------------- *)
(* every tick event is posted by a running timer; every complete event carries a count at/after the end value *)
Definition ev_ok (c : tcfg) (e : tev) : Prop :=
  match e with TTick _ _ r => r = true | TComplete _ k => done_at c k = true | _ => True end.
Definition log_good (c : tcfg) (st : tst) : Prop := Forall (ev_ok c) (tlog st).

Definition cd_good (c : tcfg) (cd : cdfn) : Prop :=
  (forall st, log_good c st -> log_good c (fst (cd st))) /\
  (forall st st', cd st = (st', false) -> st' = st).

Lemma post_good c e st : ev_ok c e -> log_good c st -> log_good c (post e st).
Proof. intros He H. unfold log_good. cbn. constructor; auto. Qed.

Lemma post_tick_good c cd st :
  cd_good c cd -> log_good c st -> running st = true -> log_good c (post_tick_with cd st).
Proof.
  intros [G I] H R. unfold post_tick_with. destruct (cd st) as [st1 d] eqn:E.
  pose proof (G st H) as G1. rewrite E in G1. cbn in G1. destruct d; auto.
  apply I in E. subst st1. apply post_good; auto.
Qed.

Lemma start_good c cd st : cd_good c cd -> log_good c st -> log_good c (start_with cd st).
Proof.
  intros CG H. pose proof CG as [G I]. unfold start_with. destruct (running st); auto.
  destruct (cd st) as [st1 d] eqn:E. pose proof (G st H) as G1. rewrite E in G1. cbn in G1.
  destruct d; auto. apply post_tick_good; auto. apply post_good; cbn; auto.
Qed.

Lemma jump_good c cd v st : cd_good c cd -> log_good c st -> log_good c (jump_with cd c v st).
Proof. intros [G I] H. unfold jump_with. apply G. exact H. Qed.

Lemma restart_good c cd st : cd_good c cd -> log_good c st -> log_good c (restart_with cd c st).
Proof.
  intros CG H. unfold restart_with. pose proof (jump_good c cd (c_start c) st CG H) as J.
  destruct (running (jump_with cd c (c_start c) st)) eqn:R.
  - apply post_tick_good; auto.
  - apply start_good; auto.
Qed.

Lemma complete_good c cd st :
  cd_good c cd -> log_good c st -> is_done c st = true -> log_good c (complete_with cd c st).
Proof.
  intros CG H D. unfold complete_with.
  assert (G2 : log_good c (post (TComplete (tnow (do_stop st)) (ticks (do_stop st))) (do_stop st))).
  { apply post_good; [exact D|]. unfold do_stop. apply post_good; cbn; auto. }
  destruct (c_roc c); auto. apply restart_good; auto.
Qed.

Lemma check_done_good c f : cd_good c (check_done f c).
Proof.
  induction f as [|f IH]; split.
  - intros st H. cbn. destruct (is_done c st); cbn; auto. apply post_good; cbn; auto.
  - intros st st' E. apply check_done_id in E. tauto.
  - intros st H. cbn. destruct (is_done c st) eqn:D; cbn; auto. apply complete_good; auto.
  - intros st st' E. apply check_done_id in E. tauto.
Qed.

Lemma action_good c a st : log_good c st -> log_good c (do_action c a st).
Proof.
  intro H. pose proof (check_done_good c FUEL) as CG. fold (cd0 c) in CG. pose proof CG as [G I].
  destruct a; cbn [do_action]; auto.
  - apply start_good; auto.
  - unfold do_stop. apply post_good; cbn; auto.
  - unfold do_pause. destruct (0 <? ms); [unfold pause_add, set_dm, set_pause, log_good; cbn [tlog]|]; apply post_good; cbn; auto;
      destruct (c_legacy c); exact H.
  - apply G. apply post_good; cbn; auto.
  - apply G. apply post_good; cbn; auto.
  - apply jump_good; auto.
  - apply jump_good; auto.
  - apply restart_good; auto.
Qed.

Lemma tstep_good c st s : log_good c st -> log_good c (do_tstep c st s).
Proof.
  intro H. pose proof (check_done_good c FUEL) as CG. fold (cd0 c) in CG.
  destruct s; cbn [do_tstep].
  - destruct (text_ok t st); apply post_good; cbn; auto. apply action_good. exact H.
  - unfold fire_tick. destruct (sys st) as [[b n]|]; [|apply post_good; cbn; auto].
    destruct ((tnow st <=? b + n * ival st) && le_opt (b + n * ival st) (pause st)); [|apply post_good; cbn; auto].
    cbn [running set_sys set_now]. destruct (running st) eqn:R; [|exact H].
    apply post_tick_good; auto.
  - unfold fire_pause. destruct (pause st); [|apply post_good; cbn; auto].
    destruct ((tnow st <=? z) && le_opt z (sys_deadline st)); [|apply post_good; cbn; auto].
    apply start_good; auto.
  - unfold fire_tick_at. destruct (sys st) as [[b n]|]; [|apply post_good; cbn; auto].
    destruct ((tnow st <=? t) && (b + n * ival st <=? t) && le_opt (b + n * ival st) (pause st));
      [|apply post_good; cbn; auto].
    cbn [running set_sys set_now post]. destruct (running st) eqn:R.
    + apply post_tick_good; auto. unfold log_good. cbn. constructor; [exact Logic.I|exact H].
    + unfold log_good. cbn. constructor; [exact Logic.I|exact H].
  - unfold fire_pause_at. destruct (pause st); [|apply post_good; cbn; auto].
    destruct ((tnow st <=? t) && (z <=? t) && le_opt z (sys_deadline st)); [|apply post_good; cbn; auto].
    apply start_good; auto.
Qed.

Lemma trun_good c steps : forall st, log_good c st -> log_good c (trun c steps st).
Proof.
  unfold trun. induction steps as [|s steps IH]; cbn; auto. intros st H. apply IH. apply tstep_good. exact H.
Qed.

Lemma trace_good c steps : Forall (ev_ok c) (ttrace c steps).
Proof.
  unfold ttrace. apply Forall_rev. apply (trun_good c steps (tinit c)). constructor.
Qed.

Lemma timer_ticks_only_running_l c steps t k r : In (TTick t k r) (ttrace c steps) -> r = true.
Proof. intro H. pose proof (trace_good c steps) as G. rewrite Forall_forall in G. apply (G _ H). Qed.

Lemma timer_complete_only_at_end_l c steps t k : In (TComplete t k) (ttrace c steps) -> done_at c k = true.
Proof. intro H. pose proof (trace_good c steps) as G. rewrite Forall_forall in G. apply (G _ H). Qed.

(* ---------------------------------------------------------------------------------------- *)
(* a running timer has no pending pause delay and is not at/after its end value *)
Definition cfg_ok (c : tcfg) : Prop := c_roc c = true -> done_at c (cap c (c_start c)) = false.
Definition SA (st : tst) : Prop := running st = true -> pause st = None.
Definition SB (c : tcfg) (st : tst) : Prop := running st = true -> is_done c st = false.

Lemma cd_SI c f st st' d :
  cfg_ok c -> check_done (S f) c st = (st', d) -> SA st ->
  SA st' /\ SB c st' /\ (d = false -> st' = st /\ is_done c st = false).
Proof.
  intros OK E A. cbn in E. destruct (is_done c st) eqn:D.
  - inversion E; subst; clear E. split; [|split; [|discriminate]].
    + unfold complete_with. destruct (c_roc c) eqn:R; [|intro H; discriminate H].
      unfold restart_with, jump_with. cbn [do_stop].
      set (s3 := create_sys (set_ticks (cap c (c_start c)) _)).
      assert (N3 : is_done c s3 = false) by (apply OK; auto).
      rewrite (check_done_notdone f c s3 N3). cbn [fst].
      assert (R3 : running s3 = false) by reflexivity. rewrite R3.
      unfold start_with. rewrite R3, (check_done_notdone f c s3 N3).
      unfold post_tick_with. rewrite check_done_notdone by exact N3. intros _. reflexivity.
    + unfold complete_with. destruct (c_roc c) eqn:R; [|intro H; discriminate H].
      unfold restart_with, jump_with. cbn [do_stop].
      set (s3 := create_sys (set_ticks (cap c (c_start c)) _)).
      assert (N3 : is_done c s3 = false) by (apply OK; auto).
      rewrite (check_done_notdone f c s3 N3). cbn [fst].
      assert (R3 : running s3 = false) by reflexivity. rewrite R3.
      unfold start_with. rewrite R3, (check_done_notdone f c s3 N3).
      unfold post_tick_with. rewrite check_done_notdone by exact N3. intros _. exact N3.
  - inversion E; subst. split; [auto|split; [intros _; exact D|auto]].
Qed.

Lemma cd0_SI c st : cfg_ok c -> SA st -> SA (fst (cd0 c st)) /\ SB c (fst (cd0 c st)).
Proof.
  intros OK A. unfold cd0, FUEL. destruct (check_done 4 c st) as [st' d] eqn:E.
  destruct (cd_SI c _ st st' d OK E A) as [H1 [H2 _]]. auto.
Qed.

Lemma post_tick_SI c st : cfg_ok c -> SA st -> SA (post_tick_with (cd0 c) st) /\ SB c (post_tick_with (cd0 c) st).
Proof.
  intros OK A. unfold post_tick_with, cd0, FUEL. destruct (check_done 4 c st) as [st' d] eqn:E.
  destruct (cd_SI c _ st st' d OK E A) as [H1 [H2 H3]]. destruct d; auto.
  all: destruct (H3 eq_refl) as [-> N]; split; [exact A|intro; exact N].
Qed.

Lemma start_SI c st : cfg_ok c -> SA st -> SB c st -> SA (start_with (cd0 c) st) /\ SB c (start_with (cd0 c) st).
Proof.
  intros OK A B. unfold start_with. destruct (running st) eqn:R; [auto|].
  unfold cd0 at 1 3, FUEL. destruct (check_done 4 c st) as [st' d] eqn:E.
  destruct (cd_SI c _ st st' d OK E A) as [H1 [H2 H3]]. destruct d; auto.
  all: destruct (H3 eq_refl) as [-> N]; apply post_tick_SI; auto; intros _; reflexivity.
Qed.

Lemma action_SI c a st :
  c_legacy c = false -> cfg_ok c -> SA st -> SB c st -> SA (do_action c a st) /\ SB c (do_action c a st).
Proof.
  intros L OK A B. destruct a; cbn [do_action]; auto.
  - apply start_SI; auto.
  - split; intro H; discriminate H.
  - unfold do_pause. rewrite L. destruct (0 <? ms); split; intro H; discriminate H.
  - apply cd0_SI; auto.
  - apply cd0_SI; auto.
  - apply cd0_SI; auto.
  - apply cd0_SI; auto.
  - unfold restart_with, jump_with.
    set (s1 := fst (cd0 c (create_sys (set_ticks (cap c (c_start c)) st)))).
    assert (J : SA s1 /\ SB c s1) by (apply cd0_SI; auto). destruct J as [J1 J2].
    destruct (running s1); [apply post_tick_SI|apply start_SI]; auto.
Qed.

Lemma tstep_SI c st s :
  c_legacy c = false -> cfg_ok c -> SA st -> SB c st -> SA (do_tstep c st s) /\ SB c (do_tstep c st s).
Proof.
  intros L OK A B. destruct s; cbn [do_tstep].
  - destruct (text_ok t st); [|auto].
    destruct (action_SI c a (set_now t st) L OK A B) as [H1 H2]. auto.
  - unfold fire_tick. destruct (sys st) as [[b n]|]; [|auto].
    destruct ((tnow st <=? b + n * ival st) && le_opt (b + n * ival st) (pause st)); [|auto].
    cbn [running set_sys set_now]. destruct (running st) eqn:R.
    + apply post_tick_SI; auto.
    + split; intro H; cbn in H; congruence.
  - unfold fire_pause. destruct (pause st) as [d|] eqn:P; [|auto].
    destruct ((tnow st <=? d) && le_opt d (sys_deadline st)); [|auto].
    apply start_SI; auto. intros _. reflexivity.
  - unfold fire_tick_at. destruct (sys st) as [[b n]|]; [|auto].
    destruct ((tnow st <=? t) && (b + n * ival st <=? t) && le_opt (b + n * ival st) (pause st)); [|auto].
    cbn [running set_sys set_now post]. destruct (running st) eqn:R.
    + apply post_tick_SI; auto.
    + split; intro H; cbn in H; congruence.
  - unfold fire_pause_at. destruct (pause st) as [d|] eqn:P; [|auto].
    destruct ((tnow st <=? t) && (d <=? t) && le_opt d (sys_deadline st)); [|auto].
    apply start_SI; auto. intros _. reflexivity.
Qed.

Lemma trun_SI c steps : c_legacy c = false -> cfg_ok c -> forall st,
  SA st -> SB c st -> SA (trun c steps st) /\ SB c (trun c steps st).
Proof.
  intros L OK. unfold trun. induction steps as [|s steps IH]; cbn; auto. intros st A B.
  destruct (tstep_SI c st s L OK A B) as [A' B']. apply IH; auto.
Qed.

Lemma timer_running_invariants_l c steps :
  c_legacy c = false -> cfg_ok c ->
  let st := trun c steps (tinit c) in
  running st = true -> pause st = None /\ is_done c st = false.
Proof.
  intros L OK. cbv zeta. intro R.
  destruct (trun_SI c steps L OK (tinit c)) as [A B]; try (intro H; discriminate H). split; auto.
Qed.

(* reaching the end value: _check_for_done on a count at/after the end value stops the timer and posts complete *)
Lemma timer_completes_when_done_l c st :
  c_roc c = false -> is_done c st = true ->
  let st' := fst (cd0 c st) in
  running st' = false /\ tlog st' = TComplete (tnow st) (ticks st) :: TStopped (tnow st) (ticks st) :: tlog st.
Proof. intros R D. unfold cd0, FUEL. cbn. rewrite D. unfold complete_with. rewrite R. cbn. auto. Qed.

(* ---------------------------------------------------------------------------------------- *)
(* after stop or a pause without duration nothing happens by itself *)
Lemma quiet_state_l c a st :
  c_legacy c = false -> (a = AStop \/ a = APause 0) ->
  let st' := do_action c a st in running st' = false /\ sys st' = None /\ pause st' = None.
Proof. intros L [->| ->]; cbn; unfold do_pause; rewrite ?L; cbn; auto. Qed.

Definition is_fire (s : tstep) : bool := match s with TExt _ _ => false | _ => true end.
Definition is_reject (e : tev) : bool := match e with TReject _ => true | _ => false end.

Lemma quiet_fires_l c fires : forallb is_fire fires = true -> forall st,
  running st = false -> sys st = None -> pause st = None ->
  let st' := trun c fires st in
  running st' = false /\ sys st' = None /\ pause st' = None /\ ticks st' = ticks st /\
  exists rej, forallb is_reject rej = true /\ tlog st' = rej ++ tlog st.
Proof.
  unfold trun. induction fires as [|s fires IH]; cbn [fold_left forallb]; intros F st R S P.
  - repeat split; auto. exists []. split; auto.
  - apply andb_true_iff in F as [F1 F2]. destruct s as [t a| | |t|t]; [discriminate| | | |].
    + cbn [do_tstep]. unfold fire_tick. rewrite S.
      destruct (IH F2 (post (TReject 1) st) R S P) as (H1 & H2 & H3 & H4 & rej & H5 & H6).
      repeat split; auto. exists (rej ++ [TReject 1]). split.
      * rewrite forallb_app, H5. reflexivity.
      * rewrite H6. cbn. rewrite <- app_assoc. reflexivity.
    + cbn [do_tstep]. unfold fire_pause. rewrite P.
      destruct (IH F2 (post (TReject 3) st) R S P) as (H1 & H2 & H3 & H4 & rej & H5 & H6).
      repeat split; auto. exists (rej ++ [TReject 3]). split.
      * rewrite forallb_app, H5. reflexivity.
      * rewrite H6. cbn. rewrite <- app_assoc. reflexivity.
    + cbn [do_tstep]. unfold fire_tick_at. rewrite S.
      destruct (IH F2 (post (TReject 1) st) R S P) as (H1 & H2 & H3 & H4 & rej & H5 & H6).
      repeat split; auto. exists (rej ++ [TReject 1]). split.
      * rewrite forallb_app, H5. reflexivity.
      * rewrite H6. cbn. rewrite <- app_assoc. reflexivity.
    + cbn [do_tstep]. unfold fire_pause_at. rewrite P.
      destruct (IH F2 (post (TReject 3) st) R S P) as (H1 & H2 & H3 & H4 & rej & H5 & H6).
      repeat split; auto. exists (rej ++ [TReject 3]). split.
      * rewrite forallb_app, H5. reflexivity.
      * rewrite H6. cbn. rewrite <- app_assoc. reflexivity.
Qed.

(* the code before fixes/C13-timer-pause-supersedes.patch: a timed pause followed by a pause without duration
   restarts by itself *)
Definition ex_cfg (legacy : bool) : tcfg := mkC 0 (Some 5) 0 false 500000 false legacy.
Definition ex_tsteps : list tstep :=
  [TExt 0 AStart; TFireTick; TExt 600000 (APause 1000); TExt 700000 (APause 0); TFirePause; TFireTick].

Lemma quiet_refuted_before_fix_l :
  let st := trun (ex_cfg true) ex_tsteps (tinit (ex_cfg true)) in
  running st = true /\ ticks st = 2 /\ In (TStarted 1600000 1) (tlog st) /\ In (TTick 2100000 2 true) (tlog st).
Proof. vm_compute. repeat split; auto 10. Qed.

(* tick instants: the system timer created at base fires its n-th tick at exactly base + n*interval *)
Lemma tick_instant_l c st b n :
  sys st = Some (b, n) -> running st = true ->
  (tnow st <=? b + n * ival st) && le_opt (b + n * ival st) (pause st) = true ->
  exists st1, fire_tick c st = post_tick_with (cd0 c) st1 /\
              tnow st1 = b + n * ival st /\ ticks st1 = (if c_down c then ticks st - 1 else ticks st + 1) /\
              sys st1 = Some (b, n + 1) /\ ival st1 = ival st.
Proof.
  intros S R OK. unfold fire_tick. rewrite S, OK. cbn [running set_sys set_now]. rewrite R.
  eexists. split; [reflexivity|]. cbn. auto.
Qed.

(* the same on a loop that dispatches late: the n-th expiry is accepted at any t >= b + n*interval (not before), is
   reported with its scheduled-for instant, changes the count by one and re-arms for b + (n+1)*interval: the schedule
   does not depend on t (no drift) *)
Lemma tick_instant_late_l c st b n t :
  sys st = Some (b, n) -> running st = true ->
  (tnow st <=? t) && (b + n * ival st <=? t) && le_opt (b + n * ival st) (pause st) = true ->
  exists st1, fire_tick_at c t st = post_tick_with (cd0 c) st1 /\
              tnow st1 = t /\ ticks st1 = (if c_down c then ticks st - 1 else ticks st + 1) /\
              sys st1 = Some (b, n + 1) /\ ival st1 = ival st /\ tlog st1 = TDue (b + n * ival st) :: tlog st.
Proof.
  intros S R OK. unfold fire_tick_at. rewrite S, OK. cbn [running set_sys set_now post]. rewrite R.
  eexists. split; [reflexivity|]. cbn. auto 10.
Qed.

Lemma tick_early_rejected_l c st b n t :
  sys st = Some (b, n) -> t < b + n * ival st -> fire_tick_at c t st = post (TReject 2) st.
Proof.
  intros S LT. unfold fire_tick_at. rewrite S.
  assert (E : (b + n * ival st <=? t) = false) by (apply Z.leb_gt; lia).
  rewrite E, andb_false_r. reflexivity.
Qed.

(* ---------------------------------------------------------------------------------------- *)
(* the timer's pause delay IS a delay of the full delay model: [dm st] satisfies the invariant behind every delay_*
   theorem, and [pause st] is the deadline of its one live handle (named PAUSE) — for every reachable state *)
Definition RP (st : tst) : Prop :=
  Inv (dm st) /\
  match pause st with
  | None => timers (dm st) = []
  | Some d => exists tm, timers (dm st) = [tm] /\ t_name tm = PAUSE /\ t_when tm = d /\ t_cb tm = 0
  end.

Lemma timers_do_remove st n : wf st -> timers (do_remove n st) = rm n (timers st).
Proof. intro W. rewrite do_remove_nf by exact W. apply timers_removed. Qed.

Lemma timers_do_add st ms n cb kw : wf st -> 0 <= n ->
  timers (do_add ms n cb kw st) = rm n (timers st) ++ [mkT (next st) (now st + 1000 * ms) n cb kw].
Proof.
  intros W Hn. rewrite do_add_client_name by exact Hn. unfold add_named.
  set (st0 := mkS (now st) (next st + 1) (dict st) (timers st) (log st)).
  assert (W0 : wf st0) by (destruct W as [D [N1 N2]]; repeat split; auto).
  rewrite do_remove_nf by exact W0. cbn. rewrite timers_removed. reflexivity.
Qed.

Lemma Inv_sync st : Inv (dm st) -> Inv (sync st).
Proof. apply Inv_with_now. Qed.

Lemma rm_pause_timers st : RP st -> rm PAUSE (timers (sync st)) = [].
Proof.
  intros [_ P]. cbn [sync timers]. destruct (pause st).
  - destruct P as [tm [E [N _]]]. rewrite E. unfold rm. cbn. unfold name_is. rewrite N. cbn. reflexivity.
  - rewrite P. reflexivity.
Qed.

Lemma RP_pause_remove st : RP st -> RP (pause_remove st).
Proof.
  intro R. pose proof R as [I _]. unfold pause_remove. split; cbn [dm pause set_dm set_pause].
  - apply Inv_do_remove. apply Inv_sync. exact I.
  - rewrite timers_do_remove by (apply Inv_wf, Inv_sync; exact I). apply rm_pause_timers. exact R.
Qed.

Lemma RP_pause_add ms st : RP st -> RP (pause_add ms st).
Proof.
  intro R. pose proof R as [I _]. unfold pause_add. split; cbn [dm pause set_dm set_pause].
  - apply Inv_do_add. apply Inv_sync. exact I.
  - rewrite timers_do_add by (try (apply Inv_wf, Inv_sync; exact I); unfold PAUSE; lia).
    rewrite rm_pause_timers by exact R. cbn. eexists. repeat split; reflexivity.
Qed.

Lemma call_rec_ok : call_ok call_rec.
Proof. intros u c k rn st I. exact I. Qed.

Lemma RP_pause_fired d st : RP st -> pause st = Some d -> tnow st <= d -> RP (pause_fired d st).
Proof.
  intros R P LE. pose proof R as [I Q]. rewrite P in Q. destruct Q as [tm [E [N [W C]]]].
  unfold pause_fired. split; cbn [dm pause set_dm set_pause set_now].
  - apply Inv_fire; [apply call_rec_ok|]. apply Inv_sync. exact I.
  - unfold pause_id. rewrite E. cbn [find]. unfold name_is at 1. rewrite N. cbn [Z.eqb PAUSE].
    unfold fire, find_timer. cbn [sync timers]. rewrite E. cbn [find]. unfold id_is at 1. rewrite Z.eqb_refl.
    cbn [now forallb]. rewrite W. change (now (sync st)) with (tnow st).
    assert (A : (tnow st <=? d) && ((d <=? d) && true) = true).
    { rewrite andb_true_r. apply andb_true_iff. split; apply Z.leb_le; lia. }
    rewrite A. unfold call_rec, emit. cbn [timers filter]. unfold id_is. rewrite Z.eqb_refl. reflexivity.
Qed.

Lemma RP_pause_fired_at t st d : RP st -> pause st = Some d -> tnow st <= t -> d <= t -> RP (pause_fired_at t st).
Proof.
  intros R P LE LD. pose proof R as [I Q]. rewrite P in Q. destruct Q as [tm [E [N [W C]]]].
  unfold pause_fired_at. split; cbn [dm pause set_dm set_pause set_now].
  - apply Inv_fire_at; [apply call_rec_ok|]. apply Inv_sync. exact I.
  - unfold pause_id. rewrite E. cbn [find]. unfold name_is at 1. rewrite N. cbn [Z.eqb PAUSE].
    unfold fire_at, find_timer. cbn [sync timers]. rewrite E. cbn [find]. unfold id_is at 1. rewrite Z.eqb_refl.
    cbn [now forallb]. rewrite W. change (now (sync st)) with (tnow st).
    assert (A : (tnow st <=? t) && (d <=? t) && ((d <=? d) && true) = true).
    { rewrite andb_true_r. repeat (apply andb_true_iff; split); apply Z.leb_le; lia. }
    rewrite A. unfold call_rec, emit. cbn [timers filter]. unfold id_is. rewrite Z.eqb_refl. reflexivity.
Qed.

Lemma RP_same st st' : dm st' = dm st -> pause st' = pause st -> RP st -> RP st'.
Proof. intros D P R. unfold RP. rewrite D, P. exact R. Qed.

Definition cd_rp (cd : cdfn) : Prop := forall st, RP st -> RP (fst (cd st)).

Lemma post_rp e st : RP st -> RP (post e st).
Proof. apply RP_same; reflexivity. Qed.

Lemma post_tick_rp cd st : cd_rp cd -> RP st -> RP (post_tick_with cd st).
Proof.
  intros G R. unfold post_tick_with. pose proof (G st R) as G1. destruct (cd st) as [st1 d]. cbn in G1.
  destruct d; [exact G1|apply post_rp; exact G1].
Qed.

Lemma start_rp cd st : cd_rp cd -> RP st -> RP (start_with cd st).
Proof.
  intros G R. unfold start_with. destruct (running st); auto.
  pose proof (G st R) as G1. destruct (cd st) as [st1 d]. cbn in G1. destruct d; auto.
  apply post_tick_rp; auto. apply post_rp. unfold create_sys.
  apply (RP_same (pause_remove (set_running true st1))); try reflexivity.
  apply RP_pause_remove. apply (RP_same st1); auto.
Qed.

Lemma jump_rp cd c v st : cd_rp cd -> RP st -> RP (jump_with cd c v st).
Proof. intros G R. unfold jump_with. apply G. apply (RP_same st); auto. Qed.

Lemma restart_rp cd c st : cd_rp cd -> RP st -> RP (restart_with cd c st).
Proof.
  intros G R. unfold restart_with. pose proof (jump_rp cd c (c_start c) st G R) as J.
  destruct (running (jump_with cd c (c_start c) st)); [apply post_tick_rp|apply start_rp]; auto.
Qed.

Lemma stop_rp st : RP st -> RP (do_stop st).
Proof.
  intro R. unfold do_stop. apply post_rp.
  apply (RP_same (pause_remove st)); try reflexivity. apply RP_pause_remove. exact R.
Qed.

Lemma complete_rp cd c st : cd_rp cd -> RP st -> RP (complete_with cd c st).
Proof.
  intros G R. unfold complete_with. pose proof (stop_rp st R) as S.
  pose proof (post_rp (TComplete (tnow (do_stop st)) (ticks (do_stop st))) _ S) as S2.
  destruct (c_roc c); [apply restart_rp; auto|exact S2].
Qed.

Lemma check_done_rp c f : cd_rp (check_done f c).
Proof.
  induction f as [|f IH]; intros st R; cbn [check_done]; destruct (is_done c st); cbn [fst]; try exact R.
  apply complete_rp; auto.
Qed.

Lemma pause_rp c ms st : RP st -> RP (do_pause c ms st).
Proof.
  intro R. unfold do_pause.
  set (st0 := set_running false st). assert (R0 : RP st0) by (apply (RP_same st); auto).
  set (st1 := if c_legacy c then st0 else pause_remove st0).
  assert (R1 : RP st1) by (unfold st1; destruct (c_legacy c); [exact R0|apply RP_pause_remove; exact R0]).
  set (st3 := post _ (set_sys None st1)).
  assert (R3 : RP st3) by (apply (RP_same st1); auto).
  destruct (0 <? ms); [apply RP_pause_add|]; exact R3.
Qed.

Lemma action_rp c a st : RP st -> RP (do_action c a st).
Proof.
  intro R. pose proof (check_done_rp c FUEL) as G. fold (cd0 c) in G.
  destruct a; cbn [do_action].
  - apply start_rp; auto.
  - apply stop_rp; auto.
  - apply pause_rp; auto.
  - apply G. apply (RP_same st); auto.
  - apply G. apply (RP_same st); auto.
  - apply jump_rp; auto.
  - apply jump_rp; auto.
  - apply restart_rp; auto.
  - apply (RP_same st); auto.
  - apply (RP_same st); auto.
  - apply (RP_same st); auto.
  - exact R.
Qed.

Lemma tstep_rp c st s : RP st -> RP (do_tstep c st s).
Proof.
  intro R. pose proof (check_done_rp c FUEL) as G. fold (cd0 c) in G.
  destruct s; cbn [do_tstep].
  - destruct (text_ok t st); [|exact R].
    assert (RA : RP (do_action c a (set_now t st))) by (apply action_rp; apply (RP_same st); auto).
    exact RA.
  - unfold fire_tick. destruct (sys st) as [[b n]|]; [|exact R].
    destruct ((tnow st <=? b + n * ival st) && le_opt (b + n * ival st) (pause st)); [|exact R].
    cbn [running set_sys set_now]. destruct (running st).
    + apply post_tick_rp; [exact G|]. apply (RP_same st); auto.
    + apply (RP_same st); auto.
  - unfold fire_pause. destruct (pause st) as [d|] eqn:P; [|exact R].
    destruct ((tnow st <=? d) && le_opt d (sys_deadline st)) eqn:A; [|exact R].
    apply start_rp; [exact G|]. apply RP_pause_fired; [exact R|exact P|].
    apply andb_true_iff in A as [A _]. apply Z.leb_le in A. exact A.
  - unfold fire_tick_at. destruct (sys st) as [[b n]|]; [|exact R].
    destruct ((tnow st <=? t) && (b + n * ival st <=? t) && le_opt (b + n * ival st) (pause st)); [|exact R].
    cbn [running set_sys set_now post]. destruct (running st).
    + apply post_tick_rp; [exact G|]. apply (RP_same st); auto.
    + apply (RP_same st); auto.
  - unfold fire_pause_at. destruct (pause st) as [d|] eqn:P; [|exact R].
    destruct ((tnow st <=? t) && (d <=? t) && le_opt d (sys_deadline st)) eqn:A; [|exact R].
    apply start_rp; [exact G|].
    apply andb_true_iff in A as [A _]. apply andb_true_iff in A as [A1 A2].
    apply Z.leb_le in A1. apply Z.leb_le in A2. apply (RP_pause_fired_at t st d); auto.
Qed.

Lemma trun_rp c steps : forall st, RP st -> RP (trun c steps st).
Proof.
  unfold trun. induction steps as [|s steps IH]; cbn; auto. intros st R. apply IH. apply tstep_rp. exact R.
Qed.

Lemma RP_init c : RP (tinit c).
Proof. split; cbn; [apply Inv_init|reflexivity]. Qed.

Lemma timer_pause_is_delay_l c steps :
  let st := trun c steps (tinit c) in
  Inv (dm st) /\
  match pause st with
  | None => timers (dm st) = []
  | Some d => exists tm, timers (dm st) = [tm] /\ t_name tm = PAUSE /\ t_when tm = d /\ t_cb tm = 0
  end.
Proof. cbv zeta. apply (trun_rp c steps (tinit c)). apply RP_init. Qed.

(* hence every event of the private manager's log is justified: the expiry of a timed pause (the call of start()) stems
   from exactly one pause(ms) at exactly its instant + ms, not after start()/stop()/a later pause removed it, never twice *)
Lemma timer_pause_justified_l c steps pre e post :
  List.rev (log (dm (trun c steps (tinit c)))) = pre ++ e :: post -> justified (List.rev pre) e.
Proof.
  intro H. destruct (timer_pause_is_delay_l c steps) as [[_ I] _].
  destruct I as (_ & _ & _ & _ & _ & _ & _ & _ & _ & L).
  apply (f_equal (@List.rev ev)) in H. rewrite rev_involutive in H.
  rewrite rev_app_distr in H. cbn in H. rewrite <- app_assoc in H. cbn in H.
  eapply log_ok_split; eauto.
Qed.
