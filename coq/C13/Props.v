(* C13/Props.v — property theorems only.  Each is closed by [exact] of a lemma from Lemmas.v and followed by
   Print Assumptions (parsed by the check: must be "Closed under the global context").

   Property C13 (full text in properties.jsonl).  Reading of the theorems below:
   a history is [scripts] (what each test callback does when called: further manager operations, run
   re-entrantly) plus [steps] (external operations at given instants, and the loop's choice of which due handle
   runs next).  [trace false scripts steps] is the chronological event list of the model of the code WITH
   fixes/C13-run-now-kwargs.patch applied ([trace true ..] is the code before the patch).  All theorems quantify
   over every history: any number of operations, names, durations, instants, nesting, firing orders.

   [delay_calls_justified] + [delay_never_twice] + [delay_fires_unless_cancelled] + [cancel_scope] together are
   DESIGN.md's delay_fires_once_at_deadline_or_never:  every callback run stems from exactly one add, with that
   add's callback and kwargs, at exactly add-time + ms when run by the loop; not after its handle was cancelled
   (except the immediate call made by run_now itself); never twice; and every add whose deadline is past has
   either run or was cancelled — and cancelling happens only to the name an operation addresses (or all, for
   clear = what Mode.stop calls).

   Not covered by theorems (validated by correspondence/oracle only): that Mode.stop reaches clear(); the timer
   device (see NOTES.md). *)
From Common Require Import Prelude.
From C13 Require Import Model Lemmas Timer TimerLemmas.
Open Scope Z_scope.

(* every event is justified by what happened before it (see [justified] in Lemmas.v):
   ECall t u c k rn : some earlier EAdd t0 u n ms c k (same callback c, same kwargs k), t = t0+1000*ms when the loop
                      ran it (rn=false), no earlier call of u, and no earlier cancellation of u — or, for run_now
                      (rn=true), the cancellation of u is the event immediately before;
   EKill u          : u was neither cancelled nor called before;
   ECheck n b g     : b = g (answer of check() = existence of a live handle for n);
   EAdd .. u ..     : u is fresh. *)
Theorem delay_calls_justified :
  forall scripts steps pre e post,
    trace false scripts steps = pre ++ e :: post -> justified (List.rev pre) e.
Proof. exact calls_justified_l. Qed.
Print Assumptions delay_calls_justified.

Theorem delay_never_twice :
  forall scripts steps l1 l2 l3 t u c k rn t' c' k' rn',
    trace false scripts steps = l1 ++ ECall t u c k rn :: l2 ++ ECall t' u c' k' rn' :: l3 -> False.
Proof. exact never_twice_l. Qed.
Print Assumptions delay_never_twice.

(* whenever the outside world gets control at time t (an accepted Ext step), every delay added with deadline
   t0+ms < t has been cancelled or has run at exactly t0+ms with its callback and kwargs *)
Theorem delay_fires_unless_cancelled :
  forall scripts steps t t0 u n ms c k,
    let st := run_from false scripts steps init in
    ext_ok t st = true ->
    In (EAdd t0 u n ms c k) (log st) -> t0 + 1000 * ms < t ->
    In (EKill u) (log st) \/ In (ECall (t0 + 1000 * ms) u c k false) (log st).
Proof. exact fires_unless_cancelled_l. Qed.
Print Assumptions delay_fires_unless_cancelled.

(* what gets cancelled: remove(n) exactly the handle named n; add(n) the same and schedules the new one at
   now+ms; clear() everything *)
Theorem cancel_scope :
  forall scripts steps,
    let st := run_from false scripts steps init in
    (forall n, timers (do_remove n st) = rm n (timers st)) /\
    (forall ms n cb kw, 0 <= n ->
        timers (do_add ms n cb kw st) = rm n (timers st) ++ [mkT (next st) (now st + 1000 * ms) n cb kw]) /\
    timers (do_clear st) = [].
Proof. exact cancel_scope_l. Qed.
Print Assumptions cancel_scope.

Theorem check_truthful :
  forall scripts steps n b g, In (ECheck n b g) (trace false scripts steps) -> b = g.
Proof. exact check_truthful_l. Qed.
Print Assumptions check_truthful.

Theorem check_truthful_state :
  forall scripts steps n,
    let st := run_from false scripts steps init in
    check st n = true <-> exists tm, In tm (timers st) /\ t_name tm = n.
Proof. exact check_truthful_state_l. Qed.
Print Assumptions check_truthful_state.

(* run_now(n) with a pending delay tm: cancels tm's handle, removes the entry, then calls tm's callback with
   tm's kwargs (whatever the callback then does: [call] is arbitrary) *)
Theorem run_now_same_args :
  forall scripts steps call n tm,
    let st := run_from false scripts steps init in
    find (name_is n) (timers st) = Some tm ->
    do_run_now false call n st =
      call (t_id tm) (t_cb tm) (t_kw tm) true
           (mkS (now st) (next st) (map entry_of (rm n (timers st))) (rm n (timers st))
                (EKill (t_id tm) :: log st)).
Proof. exact run_now_same_args_l. Qed.
Print Assumptions run_now_same_args.

(* the code before fixes/C13-run-now-kwargs.patch: run_now calls the callback with other kwargs than stored *)
Theorem run_now_same_args_refuted_before_fix :
  exists scripts steps t0 u n ms c k t k',
    In (EAdd t0 u n ms c k) (trace true scripts steps) /\
    In (ECall t u c k' true) (trace true scripts steps) /\ k <> k'.
Proof. exact run_now_legacy_drops_kwargs_l. Qed.
Print Assumptions run_now_same_args_refuted_before_fix.

(* PeriodicTask: the calls are t0+ival, t0+2*ival, ..., t0+n*ival (newest first), whatever the steps *)
Theorem periodic_no_drift :
  forall t0 ival steps, exists n, pcalls (snd (p_run t0 ival steps)) = ticks_desc t0 ival n.
Proof. exact periodic_no_drift_l. Qed.
Print Assumptions periodic_no_drift.

Theorem periodic_none_after_cancel :
  forall steps st, p_cancelled (fst st) = true ->
    pcalls (snd (fold_left p_step steps st)) = pcalls (snd st).
Proof. exact periodic_none_after_cancel_l. Qed.
Print Assumptions periodic_none_after_cancel.

Theorem periodic_no_missed_tick :
  forall t0 ival steps t,
    let st := p_run t0 ival steps in
    p_cancelled (fst st) = false -> p_time_ok (fst st) t = true ->
    exists n, pcalls (snd st) = ticks_desc t0 ival n /\ t <= t0 + (Z.of_nat n + 1) * ival.
Proof. exact periodic_no_missed_tick_l. Qed.
Print Assumptions periodic_no_missed_tick.

(* ---- timer device (Timer.v): for every configuration c, every sequence of control events at any instants
   (start/stop/pause with and without duration/add/subtract/jump/reset/restart/interval changes) and every legal
   order of system-timer and pause-delay expiries ------------------------------------------------------------ *)

(* a tick event is only ever posted by a running timer *)
Theorem timer_ticks_only_running :
  forall c steps t k r, In (TTick t k r) (ttrace c steps) -> r = true.
Proof. exact timer_ticks_only_running_l. Qed.
Print Assumptions timer_ticks_only_running.

(* after stop, or pause without a duration, nothing happens by itself: every expiry the loop could try is
   impossible (rejected), the count does not change, the timer stays not running.
   (code WITH fixes/C13-timer-pause-supersedes.patch: c_legacy c = false) *)
Theorem timer_quiet_after_pause_or_stop :
  forall c a st fires, c_legacy c = false -> (a = AStop \/ a = APause 0) -> forallb is_fire fires = true ->
    let st1 := do_action c a st in
    let st2 := trun c fires st1 in
    running st2 = false /\ ticks st2 = ticks st1 /\
    exists rej, forallb is_reject rej = true /\ tlog st2 = rej ++ tlog st1.
Proof.
  intros c a st fires L A F. cbv zeta.
  destruct (quiet_state_l c a st L A) as (R & S & P).
  destruct (quiet_fires_l c fires F _ R S P) as (H1 & _ & _ & H4 & H5). auto.
Qed.
Print Assumptions timer_quiet_after_pause_or_stop.

(* the code before that patch: timed pause, then pause without duration -> the timer restarts and counts by itself *)
Theorem timer_quiet_refuted_before_fix :
  let st := trun (ex_cfg true) ex_tsteps (tinit (ex_cfg true)) in
  running st = true /\ ticks st = 2 /\ In (TStarted 1600000 1) (tlog st) /\ In (TTick 2100000 2 true) (tlog st).
Proof. exact quiet_refuted_before_fix_l. Qed.
Print Assumptions timer_quiet_refuted_before_fix.

(* a running timer never has a pending pause delay and is never at/after its end value (cfg_ok: with
   restart_on_complete the start value is not itself a final value — otherwise the code recurses forever) *)
Theorem timer_running_invariants :
  forall c steps, c_legacy c = false -> cfg_ok c ->
    let st := trun c steps (tinit c) in
    running st = true -> pause st = None /\ is_done c st = false.
Proof. exact timer_running_invariants_l. Qed.
Print Assumptions timer_running_invariants.

(* complete exactly when the count reaches the end value: only then ... *)
Theorem timer_completes_at_end_only :
  forall c steps t k, In (TComplete t k) (ttrace c steps) -> done_at c k = true.
Proof. exact timer_complete_only_at_end_l. Qed.
Print Assumptions timer_completes_at_end_only.

(* ... and always then: _check_for_done (run after every change of the count) on a final count stops the timer and
   posts complete with that count (restart_on_complete = false; with it the timer restarts: timer_running_invariants) *)
Theorem timer_completes_at_end :
  forall c st, c_roc c = false -> is_done c st = true ->
    let st' := fst (cd0 c st) in
    running st' = false /\ tlog st' = TComplete (tnow st) (ticks st) :: TStopped (tnow st) (ticks st) :: tlog st.
Proof. exact timer_completes_when_done_l. Qed.
Print Assumptions timer_completes_at_end.

(* tick instants: the n-th expiry of the system timer created at b is accepted only at b + n*interval, changes the
   count by exactly one and re-arms at n+1 (no drift; PeriodicTask itself: periodic_no_drift) *)
Theorem timer_tick_instants_exact :
  forall c st b n, sys st = Some (b, n) -> running st = true ->
    (tnow st <=? b + n * ival st) && le_opt (b + n * ival st) (pause st) = true ->
    exists st1, fire_tick c st = post_tick_with (cd0 c) st1 /\
                tnow st1 = b + n * ival st /\ ticks st1 = (if c_down c then ticks st - 1 else ticks st + 1) /\
                sys st1 = Some (b, n + 1) /\ ival st1 = ival st.
Proof. exact tick_instant_l. Qed.
Print Assumptions timer_tick_instants_exact.

Example ex_timer :
  ttrace (ex_cfg false) ex_tsteps =
  [TStarted 0 0; TTick 0 0 true; TState 0 true 0 false true; TTick 500000 1 true;
   TPaused 600000 1; TState 600000 false 1 true false; TPaused 700000 1; TState 700000 false 1 false false;
   TReject 3; TReject 1] /\ cfg_ok (ex_cfg false) /\
  is_done (ex_cfg false) (mkTS true 5 500000 None None 0 []) = true.
Proof. vm_compute. repeat split; auto. Qed.
Print Assumptions ex_timer.

(* ---- the hypotheses are satisfiable on non-trivial histories -------------------------------------------- *)
(* script 0 re-adds its own name and run_now's "b"; "a" fires at 250 ms while the world is away, "c" is replaced *)
Definition ex_scripts : list (list op) := [[Add 125 0 0 [1; 7]; RunNow 1]; []].
Definition ex_steps : list step :=
  [Ext 0 [Add 250 0 0 [0; 1]; Add 500 1 1 [2; 2]; Add 1000 2 (-1) []; Add 125 2 1 [3; 3]; Check 0];
   Fire 3; Fire 0; Fire 4; Ext 1000000 [Check 0; Clear]].

Example ex_history_accepted_and_nontrivial :
  trace false ex_scripts ex_steps =
  [EAdd 0 0 0 250 0 [0; 1]; EAdd 0 1 1 500 1 [2; 2]; EAdd 0 2 2 1000 (-1) []; EKill 2; EAdd 0 3 2 125 1 [3; 3];
   ECheck 0 true true; EDict [0; 1; 2];
   ECall 125000 3 1 [3; 3] false;
   ECall 250000 0 0 [0; 1] false; EAdd 250000 4 0 125 0 [1; 7]; EKill 1; ECall 250000 1 1 [2; 2] true;
   ECall 375000 4 0 [1; 7] false; EAdd 375000 5 0 125 0 [1; 7];
   EReject 3].
Proof. vm_compute. reflexivity. Qed.
Print Assumptions ex_history_accepted_and_nontrivial.

(* ... the last Ext was rejected because delay 5 (due 500 ms) had not fired: with its Fire steps the history is legal *)
Definition ex_steps2 : list step :=
  [Ext 0 [Add 250 0 0 [0; 1]; Add 500 1 1 [2; 2]]; Fire 0; Ext 300000 []].

Example ex_fires_unless_cancelled_hyps :
  let st := run_from false ex_scripts ex_steps2 init in
  ext_ok 300000 st = true /\ In (EAdd 0 0 0 250 0 [0; 1]) (log st) /\ 0 + 1000 * 250 < 300000 /\
  In (ECall 250000 0 0 [0; 1] false) (log st) /\ In (EKill 1) (log st) /\
  exists tm, find (name_is 0) (timers st) = Some tm /\ t_kw tm = [1; 7].
Proof. vm_compute. repeat split; auto 20. eexists. split; reflexivity. Qed.
Print Assumptions ex_fires_unless_cancelled_hyps.

Example ex_periodic :
  let st := p_run 0 1000 [PRun; PRun; PCancel 2500; PRun; PAt 4000] in
  pcalls (snd st) = ticks_desc 0 1000 2 /\ p_cancelled (fst st) = true /\ snd st = [PCalled 2000; PCalled 1000] /\
  p_time_ok (fst (p_run 0 1000 [PRun; PRun])) 3000 = true.
Proof. vm_compute. repeat split; reflexivity. Qed.
Print Assumptions ex_periodic.
