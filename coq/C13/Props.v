(* C13/Props.v — property theorems only.  Each is closed by [exact] of a lemma from Lemmas.v and followed by
   Print Assumptions (parsed by the check: must be "Closed under the global context").

   Property C13 (full text in properties.jsonl).  Reading of the theorems below:
   a history is [scripts] (what each test callback does when called: further manager operations, run
   re-entrantly) plus [steps] (external operations at given instants, and the loop's choice of which due handle
   runs next).  [trace false scripts steps] is the chronological event list of the model of the code WITH
   fixes/C13-run-now-kwargs.patch applied ([trace true ..] is the code before the patch).  All theorems quantify
   over every history: any number of operations, names, durations, instants, nesting, firing orders.

   [delay_calls_justified] + [delay_never_twice] + [delay_fires_unless_cancelled] + [cancel_scope] together are
   DESIGN.md's delay_fires_once_at_deadline_or_never:  every callback run stems from exactly one add, with that
   add's callback and kwargs, at exactly add-time + ms when run by the loop; not after its handle was cancelled
   (except the immediate call made by run_now itself); never twice; and every add whose deadline is past has
   either run or was cancelled — and cancelling happens only to the name an operation addresses (or all, for
   clear = what Mode.stop calls).

   Histories include late dispatch ([FireAt u t]: the loop runs handle u at t >= its deadline, possibly several
   deadlines at once, negative durations): an [ECall] carries the scheduled-for instant, so every statement below is
   about scheduled-for instants and holds whatever the dispatch latency.

   Ownership: [EClear] marks the return of clear(); Owner.v puts the mode lifecycle of mode.py on top (stop request and
   wind-up both clear the mode's manager): delay_never_fires_after_clear / delay_never_fires_after_owner_stopped. *)
From Common Require Import Prelude.
From C13 Require Import Model Lemmas Timer TimerLemmas Owner OwnerLemmas NameLemmas.
Open Scope Z_scope.

(* every event is justified by what happened before it (see [justified] in Lemmas.v):
   ECall t u c k rn : some earlier EAdd t0 u n ms c k (same callback c, same kwargs k), t = t0+1000*ms when the loop
                      ran it (rn=false), no earlier call of u, and no earlier cancellation of u — or, for run_now
                      (rn=true), the cancellation of u is the event immediately before;
   EKill u          : u was neither cancelled nor called before;
   ECheck n b g     : b = g (answer of check() = existence of a live handle for n);
   EAdd .. u ..     : u is fresh. *)
Theorem delay_calls_justified :
  forall scripts steps pre e post,
    trace false scripts steps = pre ++ e :: post -> justified (List.rev pre) e.
Proof. exact calls_justified_l. Qed.
Print Assumptions delay_calls_justified.

Theorem delay_never_twice :
  forall scripts steps l1 l2 l3 t u c k rn t' c' k' rn',
    trace false scripts steps = l1 ++ ECall t u c k rn :: l2 ++ ECall t' u c' k' rn' :: l3 -> False.
Proof. exact never_twice_l. Qed.
Print Assumptions delay_never_twice.

(* whenever the outside world gets control at time t (an accepted Ext step), every delay added with deadline
   t0+ms < t has been cancelled or has run at exactly t0+ms with its callback and kwargs *)
Theorem delay_fires_unless_cancelled :
  forall scripts steps t t0 u n ms c k,
    let st := run_from false scripts steps init in
    ext_ok t st = true ->
    In (EAdd t0 u n ms c k) (log st) -> t0 + 1000 * ms < t ->
    In (EKill u) (log st) \/ In (ECall (t0 + 1000 * ms) u c k false) (log st).
Proof. exact fires_unless_cancelled_l. Qed.
Print Assumptions delay_fires_unless_cancelled.

(* what gets cancelled: remove(n) exactly the handle named n; add(n) the same and schedules the new one at
   now+ms; clear() everything *)
Theorem cancel_scope :
  forall scripts steps,
    let st := run_from false scripts steps init in
    (forall n, timers (do_remove n st) = rm n (timers st)) /\
    (forall ms n cb kw, 0 <= n ->
        timers (do_add ms n cb kw st) = rm n (timers st) ++ [mkT (next st) (now st + 1000 * ms) n cb kw]) /\
    timers (do_clear st) = [].
Proof. exact cancel_scope_l. Qed.
Print Assumptions cancel_scope.

Theorem check_truthful :
  forall scripts steps n b g, In (ECheck n b g) (trace false scripts steps) -> b = g.
Proof. exact check_truthful_l. Qed.
Print Assumptions check_truthful.

Theorem check_truthful_state :
  forall scripts steps n,
    let st := run_from false scripts steps init in
    check st n = true <-> exists tm, In tm (timers st) /\ t_name tm = n.
Proof. exact check_truthful_state_l. Qed.
Print Assumptions check_truthful_state.

(* run_now(n) with a pending delay tm: cancels tm's handle, removes the entry, then calls tm's callback with
   tm's kwargs (whatever the callback then does: [call] is arbitrary); a KeyError raised by the callback is swallowed
   by run_now's `except KeyError` ([catch_key]), any other exception propagates to run_now's caller *)
Theorem run_now_same_args :
  forall scripts steps call n tm,
    let st := run_from false scripts steps init in
    find (name_is n) (timers st) = Some tm ->
    do_run_now false call n st =
      catch_key (call (t_id tm) (t_cb tm) (t_kw tm) true
           (mkS (now st) (next st) (map entry_of (rm n (timers st))) (rm n (timers st))
                (EKill (t_id tm) :: log st))).
Proof. exact run_now_same_args_l. Qed.
Print Assumptions run_now_same_args.

(* the code before fixes/C13-run-now-kwargs.patch: run_now calls the callback with other kwargs than stored *)
Theorem run_now_same_args_refuted_before_fix :
  exists scripts steps t0 u n ms c k t k',
    In (EAdd t0 u n ms c k) (trace true scripts steps) /\
    In (ECall t u c k' true) (trace true scripts steps) /\ k <> k'.
Proof. exact run_now_legacy_drops_kwargs_l. Qed.
Print Assumptions run_now_same_args_refuted_before_fix.

(* PeriodicTask: the calls are t0+ival, t0+2*ival, ..., t0+n*ival (newest first), whatever the steps *)
Theorem periodic_no_drift :
  forall t0 ival steps, exists n, pcalls (snd (p_run t0 ival steps)) = ticks_desc t0 ival n.
Proof. exact periodic_no_drift_l. Qed.
Print Assumptions periodic_no_drift.

Theorem periodic_none_after_cancel :
  forall steps st, p_cancelled (fst st) = true ->
    pcalls (snd (fold_left p_step steps st)) = pcalls (snd st).
Proof. exact periodic_none_after_cancel_l. Qed.
Print Assumptions periodic_none_after_cancel.

Theorem periodic_no_missed_tick :
  forall t0 ival steps t,
    let st := p_run t0 ival steps in
    p_cancelled (fst st) = false -> p_time_ok (fst st) t = true ->
    exists n, pcalls (snd st) = ticks_desc t0 ival n /\ t <= t0 + (Z.of_nat n + 1) * ival.
Proof. exact periodic_no_missed_tick_l. Qed.
Print Assumptions periodic_no_missed_tick.

(* ---- callbacks that raise ([Raise k] in a script; delay_calls_justified / delay_never_twice quantify over such
   histories too).  Run by the loop: the entry was deleted before the call, so table and handles are exactly those of the
   other delays; the exception ends in the loop's exception handler (on a real machine that shuts MPF down) *)
Theorem delay_raising_callback :
  forall scripts steps u tm k,
    let st := run_from false scripts steps init in
    find_timer u (timers st) = Some tm ->
    (now st <=? t_when tm) && forallb (fun t' => t_when tm <=? t_when t') (timers st) = true ->
    let st' := fire (raise_cb k) u st in
    timers st' = rmid u (timers st) /\ dict st' = map entry_of (rmid u (timers st)) /\
    log st' = ECaught 0 :: ERaise k :: ECall (t_when tm) u (t_cb tm) (t_kw tm) false :: log st.
Proof. exact raising_callback_l. Qed.
Print Assumptions delay_raising_callback.

(* script 0 adds "b", raises (its last add is skipped); script 1 raises KeyError.  run_now("b") swallows the KeyError
   (the delay is gone all the same), the outside caller catches its own exception and goes on; id 0's exception reaches
   the loop, the delay it added before raising (id 3) and the untouched "c" (id 2) fire as promised *)
Example ex_raising :
  trace false [[Add 125 1 (-1) []; Raise 0; Add 125 2 (-1) []]; [Raise 1]; [RunNow 0; Check 0]]
    [Ext 0 [Add 250 0 0 [7; 7]; Add 500 1 1 []; RunNow 1; Check 1; Raise 0; Add 375 2 2 []]; Fire 0; Fire 3; Fire 2] =
  [EAdd 0 0 0 250 0 [7; 7]; EAdd 0 1 1 500 1 []; EKill 1; ECall 0 1 1 [] true; ERaise 1; ECaught 1;
   ECheck 1 false false; ERaise 0; ECaught 2; EAdd 0 2 2 375 2 []; EDict [0; 2];
   ECall 250000 0 0 [7; 7] false; EAdd 250000 3 1 125 (-1) []; ERaise 0; ECaught 0;
   ECall 375000 3 (-1) [] false; ECall 375000 2 2 [] false; ECheck 0 false false].
Proof. vm_compute. reflexivity. Qed.
Print Assumptions ex_raising.

(* ---- ownership: clear() and the mode lifecycle (Owner.v) ------------------------------------------------- *)

(* clear() is final: every delay added before its return is dead at that point (cancelled or already run) and is
   never called afterwards, whatever happens later (re-adds under the same names get new ids) *)
Theorem delay_never_fires_after_clear :
  forall scripts steps pre post,
    trace false scripts steps = pre ++ EClear :: post ->
    forall t0 u n ms c k, In (EAdd t0 u n ms c k) pre ->
      (In (EKill u) pre \/ called u pre) /\ ~ called u post.
Proof. exact clear_final_l. Qed.
Print Assumptions delay_never_fires_after_clear.

(* every event of every mode history (any initial flags, any interleaving of mode code using mode.delay, loop
   dispatches incl. late ones, and start/_started/stop/_stopped/_mode_stopped_callback calls) is justified: all delay_*
   statements hold for a mode-owned manager *)
Theorem mode_delay_calls_justified :
  forall scripts m0 msteps pre e post,
    m_trace scripts m0 msteps = pre ++ e :: post -> justified (List.rev pre) e.
Proof. exact m_justified_l. Qed.
Print Assumptions mode_delay_calls_justified.

(* no delay owned by a mode fires after that mode's stop was requested (marker 1) nor after the stop has wound up
   (marker 3): every delay added before the marker is dead at the marker and never called after it — for all histories,
   including delays added in mode_<m>_stopping handlers / during a held queue (dead at the wind-up marker), restarts
   (also from a mode_<m>_stopped handler: start() winds the old stop up first) that re-add the same names *)
Theorem delay_never_fires_after_owner_stopped :
  forall scripts m0 msteps pre c t post,
    m_trace scripts m0 msteps = pre ++ EMode c t :: post -> c = 1 \/ c = 3 ->
    forall t0 u n ms cb k, In (EAdd t0 u n ms cb k) pre ->
      (In (EKill u) pre \/ called u pre) /\ ~ called u post.
Proof. exact owner_stopped_l. Qed.
Print Assumptions delay_never_fires_after_owner_stopped.

(* ... and the markers are really there: Mode.stop() on an active mode that is not yet stopping (at an instant the
   loop may be at) sets stopping, leaves no handle and no table entry and logs clear + marker 1; the wind-up likewise;
   a stop of an inactive or already stopping mode touches nothing (delays added since the first request live on until
   the wind-up) *)
Theorem mode_stop_clears_all :
  forall scripts m0 msteps t,
    let ms := m_run scripts m0 msteps in
    m_active (fst ms) = true -> m_stopping (fst ms) = false -> ext_ok t (snd ms) = true ->
    let ms' := m_step scripts ms (MStop t) in
    m_stopping (fst ms') = true /\ timers (snd ms') = [] /\ dict (snd ms') = [] /\
    exists rest, log (snd ms') = EDict [] :: EMode (flags_code (fst ms')) t :: EMode 1 t :: EClear :: rest.
Proof. exact mode_stop_clears_l. Qed.
Print Assumptions mode_stop_clears_all.

Theorem mode_windup_clears_all :
  forall scripts m0 msteps t,
    let ms := m_run scripts m0 msteps in
    m_cleanup (fst ms) = true -> ext_ok t (snd ms) = true ->
    let ms' := m_step scripts ms (MWoundUp t) in
    m_cleanup (fst ms') = false /\ timers (snd ms') = [] /\ dict (snd ms') = [].
Proof. exact mode_windup_clears_l. Qed.
Print Assumptions mode_windup_clears_all.

Theorem mode_second_stop_keeps :
  forall scripts m st t, (m_active m = false \/ m_stopping m = true) ->
    let ms' := m_step scripts (m, st) (MStop t) in
    fst ms' = m /\ timers (snd ms') = timers st /\ dict (snd ms') = dict st.
Proof. exact mode_second_stop_keeps_l. Qed.
Print Assumptions mode_second_stop_keeps.

(* a mode history: "a" pending at the stop request is killed; the stopping handler re-adds "a" (id 1) and a delay due at
   once (id 2, fires while the queue is held); the wind-up kills id 1; the mode restarts and re-adds "a" (id 3), which
   fires.  Both markers, the hypotheses of the theorems above and a non-trivial conclusion. *)
Definition ex_msteps : list mstep :=
  [MOps 0 [Add 1000 0 (-1) [1; 1]]; MStop 250000; MOps 250000 [Add 500 0 (-1) [2; 2]; Add 0 1 (-1) []];
   MFire 2 250000; MStopped 500000; MWoundUp 500000; MStart 625000; MStarted 625000;
   MOps 625000 [Add 125 0 (-1) [3; 3]]; MFire 3 750000].

Example ex_mode_history :
  m_trace [] (mkM true false false false) ex_msteps =
  [EAdd 0 0 0 1000 (-1) [1; 1]; EDict [0];
   EKill 0; EClear; EMode 1 250000; EMode 19 250000; EDict [];
   EAdd 250000 1 0 500 (-1) [2; 2]; EAdd 250000 2 1 0 (-1) []; EDict [0; 1];
   ECall 250000 2 (-1) [] false;
   EMode 2 500000; EMode 24 500000; EDict [0];
   EKill 1; EClear; EMode 3 500000; EMode 16 500000; EDict [];
   EMode 4 625000; EMode 20 625000; EDict []; EMode 5 625000; EMode 17 625000; EDict [];
   EAdd 625000 3 0 125 (-1) [3; 3]; EDict [0]; ECall 750000 3 (-1) [3; 3] false] /\
  (let ms := m_run [] (mkM true false false false) [MOps 0 [Add 1000 0 (-1) [1; 1]]] in
   m_active (fst ms) = true /\ m_stopping (fst ms) = false /\ ext_ok 250000 (snd ms) = true).
Proof. vm_compute. repeat split; reflexivity. Qed.
Print Assumptions ex_mode_history.

(* hypotheses of delay_never_fires_after_clear / mode_windup_clears_all on non-trivial histories: "a" (id 0) is pending at
   the clear, "b" (id 1) has already run; after the clear "a" is re-added (id 2) and fires — the old id 0 never does *)
Example ex_clear_final :
  trace false [] [Ext 0 [Add 500 0 (-1) [1; 1]; Add 125 1 (-1) []]; Fire 1; Ext 250000 [Clear; Add 125 0 (-1) [2; 2]]; Fire 2] =
  [EAdd 0 0 0 500 (-1) [1; 1]; EAdd 0 1 1 125 (-1) []; EDict [0; 1]; ECall 125000 1 (-1) [] false;
   EKill 0; EClear; EAdd 250000 2 0 125 (-1) [2; 2]; EDict [0]; ECall 375000 2 (-1) [2; 2] false] /\
  (let ms := m_run [] (mkM true false false false) [MOps 0 [Add 1000 0 (-1) []]; MStop 250000; MStopped 250000] in
   m_cleanup (fst ms) = true /\ ext_ok 250000 (snd ms) = true).
Proof. vm_compute. repeat split; reflexivity. Qed.
Print Assumptions ex_clear_final.

(* DELAYED device control events belong to the mode: [MCtl t ms] adds an anonymous delay to the MODE's manager while the
   mode's handlers are registered (theorem above: it never fires after the stop request); once the stop has wound up the
   event has no handler and adds nothing *)
Example ex_mode_control_event :
  m_trace [] (mkM true false false false)
    [MCtl 0 500; MFire 0 500000; MCtl 600000 500; MStop 700000; MStopped 700000; MWoundUp 700000; MCtl 800000 500;
     MOps 2000000 []] =
  [EAdd 0 0 (-2) 500 (-2) []; EDict [-2]; ECall 500000 0 (-2) [] false;
   EAdd 600000 1 (-3) 500 (-2) []; EDict [-3];
   EKill 1; EClear; EMode 1 700000; EMode 19 700000; EDict [];
   EMode 2 700000; EMode 24 700000; EDict [];
   EClear; EMode 3 700000; EMode 16 700000; EDict []; EDict []; EDict []].
Proof. vm_compute. reflexivity. Qed.
Print Assumptions ex_mode_control_event.

(* a late loop is still never early and never out of deadline order: running handle u at t before its deadline, or while
   a live handle with an earlier deadline exists, is not a behaviour of the loop (the model rejects the history; on the
   implementation side this is asyncio's heap order, validated on every run) *)
Theorem delay_late_dispatch_never_early :
  forall call u t st tm,
    find_timer u (timers st) = Some tm ->
    (t < t_when tm \/ exists tm', In tm' (timers st) /\ t_when tm' < t_when tm) ->
    fire_at call u t st = emit (EReject 2) st.
Proof. exact fire_at_early_rejected_l. Qed.
Print Assumptions delay_late_dispatch_never_early.

(* late dispatch: the loop wakes at 400 ms, past the deadlines of ids 0 (125 ms) and 1 (250 ms): both run then, in
   deadline order, recorded with their scheduled-for instants; the re-add made inside the callback counts from the
   observed instant; running id 1 first, or before its deadline, is rejected *)
Example ex_late_dispatch :
  trace false [[Add 125 0 0 []]] [Ext 0 [Add 125 0 0 []; Add 250 1 (-1) [5; 5]]; FireAt 0 400000; FireAt 1 400000;
                                   FireAt 2 525000] =
  [EAdd 0 0 0 125 0 []; EAdd 0 1 1 250 (-1) [5; 5]; EDict [0; 1];
   ECall 125000 0 0 [] false; EAdd 400000 2 0 125 0 []; ECall 250000 1 (-1) [5; 5] false;
   ECall 525000 2 0 [] false; EAdd 525000 3 0 125 0 []] /\
  trace false [] [Ext 0 [Add 125 0 (-1) []; Add 250 1 (-1) []]; FireAt 1 400000] =
  [EAdd 0 0 0 125 (-1) []; EAdd 0 1 1 250 (-1) []; EDict [0; 1]; EReject 2] /\
  trace false [] [Ext 0 [Add 125 0 (-1) []]; FireAt 0 100000] =
  [EAdd 0 0 0 125 (-1) []; EDict [0]; EReject 2].
Proof. vm_compute. repeat split; reflexivity. Qed.
Print Assumptions ex_late_dispatch.

(* PeriodicTask on a late loop: woken 2.3 intervals late it catches up, one call per missed interval, each for its own
   instant t0 + k*ival (periodic_no_drift quantifies over these steps too); cancel while a tick is overdue: none after *)
Example ex_periodic_catch_up :
  periodic_run (0, 1000, [PRunAt 3300; PRunAt 3300; PRunAt 3300; PRunAt 4000; PCancelAt 5500; PRunAt 5500; PAt 9000]) =
  ([PCalled 1000; PCalled 2000; PCalled 3000; PCalled 4000], 6000).
Proof. vm_compute. reflexivity. Qed.
Print Assumptions ex_periodic_catch_up.

(* ---- timer device (Timer.v): for every configuration c, every sequence of control events at any instants
   (start/stop/pause with and without duration/add/subtract/jump/reset/restart/interval changes) and every legal
   order of system-timer and pause-delay expiries ------------------------------------------------------------ *)

(* a tick event is only ever posted by a running timer *)
Theorem timer_ticks_only_running :
  forall c steps t k r, In (TTick t k r) (ttrace c steps) -> r = true.
Proof. exact timer_ticks_only_running_l. Qed.
Print Assumptions timer_ticks_only_running.

(* after stop, or pause without a duration, nothing happens by itself: every expiry the loop could try is
   impossible (rejected), the count does not change, the timer stays not running.
   (code WITH fixes/C13-timer-pause-supersedes.patch: c_legacy c = false) *)
Theorem timer_quiet_after_pause_or_stop :
  forall c a st fires, c_legacy c = false -> (a = AStop \/ a = APause 0) -> forallb is_fire fires = true ->
    let st1 := do_action c a st in
    let st2 := trun c fires st1 in
    running st2 = false /\ ticks st2 = ticks st1 /\
    exists rej, forallb is_reject rej = true /\ tlog st2 = rej ++ tlog st1.
Proof.
  intros c a st fires L A F. cbv zeta.
  destruct (quiet_state_l c a st L A) as (R & S & P).
  destruct (quiet_fires_l c fires F _ R S P) as (H1 & _ & _ & H4 & H5). auto.
Qed.
Print Assumptions timer_quiet_after_pause_or_stop.

(* the code before that patch: timed pause, then pause without duration -> the timer restarts and counts by itself *)
Theorem timer_quiet_refuted_before_fix :
  let st := trun (ex_cfg true) ex_tsteps (tinit (ex_cfg true)) in
  running st = true /\ ticks st = 2 /\ In (TStarted 1600000 1) (tlog st) /\ In (TTick 2100000 2 true) (tlog st).
Proof. exact quiet_refuted_before_fix_l. Qed.
Print Assumptions timer_quiet_refuted_before_fix.

(* a running timer never has a pending pause delay and is never at/after its end value (cfg_ok: with
   restart_on_complete the start value is not itself a final value — otherwise the code recurses forever) *)
Theorem timer_running_invariants :
  forall c steps, c_legacy c = false -> cfg_ok c ->
    let st := trun c steps (tinit c) in
    running st = true -> pause st = None /\ is_done c st = false.
Proof. exact timer_running_invariants_l. Qed.
Print Assumptions timer_running_invariants.

(* complete exactly when the count reaches the end value: only then ... *)
Theorem timer_completes_at_end_only :
  forall c steps t k, In (TComplete t k) (ttrace c steps) -> done_at c k = true.
Proof. exact timer_complete_only_at_end_l. Qed.
Print Assumptions timer_completes_at_end_only.

(* ... and always then: _check_for_done (run after every change of the count) on a final count stops the timer and
   posts complete with that count (restart_on_complete = false; with it the timer restarts: timer_running_invariants) *)
Theorem timer_completes_at_end :
  forall c st, c_roc c = false -> is_done c st = true ->
    let st' := fst (cd0 c st) in
    running st' = false /\ tlog st' = TComplete (tnow st) (ticks st) :: TStopped (tnow st) (ticks st) :: tlog st.
Proof. exact timer_completes_when_done_l. Qed.
Print Assumptions timer_completes_at_end.

(* tick instants: the n-th expiry of the system timer created at b is accepted only at b + n*interval, changes the
   count by exactly one and re-arms at n+1 (no drift; PeriodicTask itself: periodic_no_drift) *)
Theorem timer_tick_instants_exact :
  forall c st b n, sys st = Some (b, n) -> running st = true ->
    (tnow st <=? b + n * ival st) && le_opt (b + n * ival st) (pause st) = true ->
    exists st1, fire_tick c st = post_tick_with (cd0 c) st1 /\
                tnow st1 = b + n * ival st /\ ticks st1 = (if c_down c then ticks st - 1 else ticks st + 1) /\
                sys st1 = Some (b, n + 1) /\ ival st1 = ival st.
Proof. exact tick_instant_l. Qed.
Print Assumptions timer_tick_instants_exact.

(* ---- the timer's pause delay as an instance of the full delay model; the timer on a late loop --------------------- *)

(* [dm st] (Timer.v) is the timer's private DelayManager, driven by Model.v's do_add / do_remove / fire / fire_at.  On every
   reachable timer state it satisfies the invariant [Inv] behind all delay_* theorems, and the deadline [pause st] the
   timer lemmas talk about is exactly the deadline of its one live handle, named PAUSE, whose callback is start() *)
Theorem timer_pause_is_delay :
  forall c steps,
    let st := trun c steps (tinit c) in
    Inv (dm st) /\
    match pause st with
    | None => timers (dm st) = []
    | Some d => exists tm, timers (dm st) = [tm] /\ t_name tm = PAUSE /\ t_when tm = d /\ t_cb tm = 0
    end.
Proof. exact timer_pause_is_delay_l. Qed.
Print Assumptions timer_pause_is_delay.

(* so the delay_* statements hold of it: every event of the private manager's log is justified (delay_calls_justified's
   [justified]): the expiry of a timed pause stems from exactly one pause(ms), is scheduled for exactly its instant + ms,
   does not happen after start()/stop()/a later pause removed it, and happens at most once *)
Theorem timer_pause_calls_justified :
  forall c steps pre e post,
    List.rev (log (dm (trun c steps (tinit c)))) = pre ++ e :: post -> justified (List.rev pre) e.
Proof. exact timer_pause_justified_l. Qed.
Print Assumptions timer_pause_calls_justified.

(* tick instants on a loop that dispatches late: the n-th expiry of the system timer created at b is accepted at any
   t >= b + n*interval, is reported with that scheduled-for instant, changes the count by exactly one and re-arms for
   b + (n+1)*interval whatever t was; before its instant it is rejected *)
Theorem timer_tick_instants_exact_late :
  forall c st b n t, sys st = Some (b, n) -> running st = true ->
    (tnow st <=? t) && (b + n * ival st <=? t) && le_opt (b + n * ival st) (pause st) = true ->
    exists st1, fire_tick_at c t st = post_tick_with (cd0 c) st1 /\
                tnow st1 = t /\ ticks st1 = (if c_down c then ticks st - 1 else ticks st + 1) /\
                sys st1 = Some (b, n + 1) /\ ival st1 = ival st /\ tlog st1 = TDue (b + n * ival st) :: tlog st.
Proof. exact tick_instant_late_l. Qed.
Print Assumptions timer_tick_instants_exact_late.

Theorem timer_tick_never_early :
  forall c st b n t, sys st = Some (b, n) -> t < b + n * ival st -> fire_tick_at c t st = post (TReject 2) st.
Proof. exact tick_early_rejected_l. Qed.
Print Assumptions timer_tick_never_early.

(* the loop wakes at 1.3 s: the ticks due at 0.5 s and 1.0 s both run then (catch-up, own instants); a timed pause of
   250 ms is dispatched late at 1.7 s (scheduled for 1.55 s, see the private manager's log); the new system timer counts
   from the observed start instant; a tick before its instant is rejected *)
Definition ex_late_tsteps : list tstep :=
  [TExt 0 AStart; TFireTickAt 1300000; TFireTickAt 1300000; TExt 1300000 (APause 250); TFirePauseAt 1700000;
   TFireTickAt 2200000; TFireTickAt 2300000].
Example ex_timer_late :
  ttrace (ex_cfg false) ex_late_tsteps =
  [TStarted 0 0; TTick 0 0 true; TState 0 true 0 false true (-1);
   TDue 500000; TTick 1300000 1 true; TDue 1000000; TTick 1300000 2 true;
   TPaused 1300000 2; TState 1300000 false 2 true false 1550000;
   TStarted 1700000 2; TTick 1700000 2 true; TDue 2200000; TTick 2200000 3 true; TReject 2] /\
  List.rev (log (dm (trun (ex_cfg false) ex_late_tsteps (tinit (ex_cfg false))))) =
  [EAdd 1300000 0 0 250 0 []; ECall 1550000 0 0 [] false].
Proof. vm_compute. split; reflexivity. Qed.
Print Assumptions ex_timer_late.

Example ex_timer :
  ttrace (ex_cfg false) ex_tsteps =
  [TStarted 0 0; TTick 0 0 true; TState 0 true 0 false true (-1); TTick 500000 1 true;
   TPaused 600000 1; TState 600000 false 1 true false 1600000; TPaused 700000 1; TState 700000 false 1 false false (-1);
   TReject 3; TReject 1] /\ cfg_ok (ex_cfg false) /\
  is_done (ex_cfg false) (mkTS true 5 500000 None None init 0 []) = true.
Proof. vm_compute. repeat split; auto. Qed.
Print Assumptions ex_timer.

(* ---- the hypotheses are satisfiable on non-trivial histories -------------------------------------------- *)
(* script 0 re-adds its own name and run_now's "b"; "a" fires at 250 ms while the world is away, "c" is replaced *)
Definition ex_scripts : list (list op) := [[Add 125 0 0 [1; 7]; RunNow 1]; []].
Definition ex_steps : list step :=
  [Ext 0 [Add 250 0 0 [0; 1]; Add 500 1 1 [2; 2]; Add 1000 2 (-1) []; Add 125 2 1 [3; 3]; Check 0];
   Fire 3; Fire 0; Fire 4; Ext 1000000 [Check 0; Clear]].

Example ex_history_accepted_and_nontrivial :
  trace false ex_scripts ex_steps =
  [EAdd 0 0 0 250 0 [0; 1]; EAdd 0 1 1 500 1 [2; 2]; EAdd 0 2 2 1000 (-1) []; EKill 2; EAdd 0 3 2 125 1 [3; 3];
   ECheck 0 true true; EDict [0; 1; 2];
   ECall 125000 3 1 [3; 3] false;
   ECall 250000 0 0 [0; 1] false; EAdd 250000 4 0 125 0 [1; 7]; EKill 1; ECall 250000 1 1 [2; 2] true;
   ECall 375000 4 0 [1; 7] false; EAdd 375000 5 0 125 0 [1; 7];
   EReject 3].
Proof. vm_compute. reflexivity. Qed.
Print Assumptions ex_history_accepted_and_nontrivial.

(* ... the last Ext was rejected because delay 5 (due 500 ms) had not fired: with its Fire steps the history is legal *)
Definition ex_steps2 : list step :=
  [Ext 0 [Add 250 0 0 [0; 1]; Add 500 1 1 [2; 2]]; Fire 0; Ext 300000 []].

Example ex_fires_unless_cancelled_hyps :
  let st := run_from false ex_scripts ex_steps2 init in
  ext_ok 300000 st = true /\ In (EAdd 0 0 0 250 0 [0; 1]) (log st) /\ 0 + 1000 * 250 < 300000 /\
  In (ECall 250000 0 0 [0; 1] false) (log st) /\ In (EKill 1) (log st) /\
  exists tm, find (name_is 0) (timers st) = Some tm /\ t_kw tm = [1; 7].
Proof. vm_compute. repeat split; auto 20. eexists. split; reflexivity. Qed.
Print Assumptions ex_fires_unless_cancelled_hyps.

Example ex_periodic :
  let st := p_run 0 1000 [PRun; PRun; PCancel 2500; PRun; PAt 4000] in
  pcalls (snd st) = ticks_desc 0 1000 2 /\ p_cancelled (fst st) = true /\ snd st = [PCalled 2000; PCalled 1000] /\
  p_time_ok (fst (p_run 0 1000 [PRun; PRun])) 3000 = true.
Proof. vm_compute. repeat split; reflexivity. Qed.
Print Assumptions ex_periodic.

(* ---------------------------------------------------------------------------------------------------------------- *)
(* Names returned by add() (session 4).  add(name=None) generates a name and RETURNS it ([add_ret]; [gen_name u] for the
   add with id u); clients keep it and pass it to check/remove/run_now/reset/add_if_doesnt_exist later ([n <= -2] in
   operations), also when its delay has long fired, been removed or been cleared (owner stopped).  [plain] histories:
   the client passes only its own names (>= 0) or None to add-like calls; [other_than n]: anything but n. *)

(* a generated name is handed out once: two adds of any history that carry the same generated name are the same add, and
   the name is the generated name of exactly that add's id *)
Theorem names_never_reused :
  forall scripts steps,
    scripts_ok plain scripts = true -> steps_ok plain steps = true ->
    forall t u n ms c k t' u' ms' c' k',
      In (EAdd t u n ms c k) (trace false scripts steps) -> In (EAdd t' u' n ms' c' k') (trace false scripts steps) ->
      n < 0 -> EAdd t u n ms c k = EAdd t' u' n ms' c' k' /\ n = gen_name u.
Proof. exact names_never_reused_l. Qed.
Print Assumptions names_never_reused.

(* the same for a mode-owned manager across stop / wind-up / restart of the mode and its delayed control events *)
Theorem mode_names_never_reused :
  forall scripts m0 steps,
    scripts_ok plain scripts = true -> msteps_ok plain steps = true ->
    forall t u n ms c k t' u' ms' c' k',
      In (EAdd t u n ms c k) (m_trace scripts m0 steps) -> In (EAdd t' u' n ms' c' k') (m_trace scripts m0 steps) ->
      n < 0 -> EAdd t u n ms c k = EAdd t' u' n ms' c' k' /\ n = gen_name u.
Proof. exact mode_names_never_reused_l. Qed.
Print Assumptions mode_names_never_reused.

(* what add(name=None) returns on any reachable state: a name no client could know and that denotes nothing; after the
   call it is known and pending *)
Theorem add_returns_fresh_name :
  forall scripts steps ms cb kw,
    scripts_ok plain scripts = true -> steps_ok plain steps = true ->
    let st := run_from false scripts steps init in
    let n := add_ret (-1) st in
    n = gen_name (next st) /\ known st n = false /\ check st n = false /\
    known (do_add ms (-1) cb kw st) n = true /\ check (do_add ms (-1) cb kw st) n = true.
Proof. exact add_returns_fresh_l. Qed.
Print Assumptions add_returns_fresh_name.

(* a stale generated name (handed out, denotes no pending delay: fired / removed / cleared) stays stale FOR EVER, whatever
   further steps and callback scripts do - new anonymous adds included; only the client passing that very name to an
   add-like call is excluded - and every operation on it is a no-op: check False, remove / run_now change nothing *)
Theorem stale_name_noop_forever :
  forall scripts0 steps0 n scripts steps,
    let st0 := run_from false scripts0 steps0 init in
    stale n st0 -> scripts_ok (other_than n) scripts = true -> steps_ok (other_than n) steps = true ->
    let st := run_from false scripts steps st0 in
    stale n st /\ check st n = false /\ do_remove n st = st /\ (forall call, do_run_now false call n st = st) /\
    do_check n st = emit (ECheck n false false) st.
Proof. exact stale_noop_forever_l. Qed.
Print Assumptions stale_name_noop_forever.

(* ... through the lifecycle of the owning mode: the stop clears, the next run of the mode adds new anonymous delays
   (mode code and delayed control events); a name kept from the earlier run never denotes one of them *)
Theorem mode_stale_name_noop_forever :
  forall scripts0 m0 steps0 n scripts steps,
    let ms0 := m_run scripts0 m0 steps0 in
    stale n (snd ms0) -> scripts_ok (other_than n) scripts = true -> msteps_ok (other_than n) steps = true ->
    let st := snd (fold_left (m_step scripts) steps ms0) in
    stale n st /\ check st n = false /\ do_remove n st = st /\ (forall call, do_run_now false call n st = st).
Proof. exact mode_stale_forever_l. Qed.
Print Assumptions mode_stale_name_noop_forever.

(* how a name becomes stale: remove(name) / clear() on any state satisfying the invariant of reachable states *)
Theorem stale_after_remove_or_clear :
  forall n st, Inv st -> n < -1 -> -2 - n < next st -> stale n (do_remove n st) /\ stale n (do_clear st).
Proof. intros n st I Hn Hk. split; [apply stale_after_remove|apply stale_after_clear]; assumption. Qed.
Print Assumptions stale_after_remove_or_clear.

(* example: anonymous add (returns -2), clear, two new anonymous adds (-3, -4): the stale name -2 is not pending, remove /
   run_now on it do nothing, add_if_doesnt_exist under it adds (and only then it denotes something again); a name not
   yet handed out (-9) cannot be used *)
Example ex_stale_names :
  trace false [] [Ext 0 [Add 500 (-1) (-1) [1; 1]; Clear; Add 500 (-1) (-1) [2; 2]; Add 250 (-1) (-1) [];
                         Check (-2); Remove (-2); RunNow (-2); Check (-3); AddIfNot 125 (-9) (-1) []];
                  Fire 2; Ext 300000 [AddIfNot 125 (-2) (-1) [3; 3]; AddIfNot 125 (-3) (-1) []; Check (-2)]] =
  [EAdd 0 0 (-2) 500 (-1) [1; 1]; EKill 0; EClear; EAdd 0 1 (-3) 500 (-1) [2; 2]; EAdd 0 2 (-4) 250 (-1) [];
   ECheck (-2) false false; ECheck (-3) true true; EDict [-3; -4];
   ECall 250000 2 (-1) [] false;
   EAdd 300000 3 (-2) 125 (-1) [3; 3]; ECheck (-2) true true; EDict [-3; -2]] /\
  (let st0 := run_from false [] [Ext 0 [Add 500 (-1) (-1) [1; 1]; Clear; Add 500 (-1) (-1) [2; 2]]] init in
   live_name (-2) (timers st0) = false /\ -2 - -2 < next st0 /\
   steps_ok (other_than (-2)) [Ext 0 [Add 250 (-1) (-1) []; Remove (-2); Reset 100 (-3) (-1) []]] = true /\
   steps_ok plain [Ext 0 [Add 250 (-1) (-1) []; Remove (-2); Reset 100 0 (-1) []]] = true).
Proof. vm_compute. repeat split; reflexivity. Qed.
Print Assumptions ex_stale_names.
