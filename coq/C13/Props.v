From Common Require Import Prelude.
From C13 Require Import Model Lemmas.
