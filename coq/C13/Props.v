(* C13/Props.v — property theorems only.  Each is closed by [exact] of a lemma from Lemmas.v and followed by
   Print Assumptions (parsed by the check: must be "Closed under the global context").

   Property C13 (full text in properties.jsonl).  Reading of the theorems below:
   a history is [scripts] (what each test callback does when called: further manager operations, run
   re-entrantly) plus [steps] (external operations at given instants, and the loop's choice of which due handle
   runs next).  [trace false scripts steps] is the chronological event list of the model of the code WITH
   fixes/C13-run-now-kwargs.patch applied ([trace true ..] is the code before the patch).  All theorems quantify
   over every history: any number of operations, names, durations, instants, nesting, firing orders.

   [delay_calls_justified] + [delay_never_twice] + [delay_fires_unless_cancelled] + [cancel_scope] together are
   DESIGN.md's delay_fires_once_at_deadline_or_never:  every callback run stems from exactly one add, with that
   add's callback and kwargs, at exactly add-time + ms when run by the loop; not after its handle was cancelled
   (except the immediate call made by run_now itself); never twice; and every add whose deadline is past has
   either run or was cancelled — and cancelling happens only to the name an operation addresses (or all, for
   clear = what Mode.stop calls).

   Not covered by theorems (validated by correspondence/oracle only): that Mode.stop reaches clear(); the timer
   device (see NOTES.md). *)
From Common Require Import Prelude.
From C13 Require Import Model Lemmas.
Open Scope Z_scope.

(* every event is justified by what happened before it (see [justified] in Lemmas.v):
   ECall t u c k rn : some earlier EAdd t0 u n ms c k (same callback c, same kwargs k), t = t0+1000*ms when the loop
                      ran it (rn=false), no earlier call of u, and no earlier cancellation of u — or, for run_now
                      (rn=true), the cancellation of u is the event immediately before;
   EKill u          : u was neither cancelled nor called before;
   ECheck n b g     : b = g (answer of check() = existence of a live handle for n);
   EAdd .. u ..     : u is fresh. *)
Theorem delay_calls_justified :
  forall scripts steps pre e post,
    trace false scripts steps = pre ++ e :: post -> justified (List.rev pre) e.
Proof. exact calls_justified_l. Qed.
Print Assumptions delay_calls_justified.

Theorem delay_never_twice :
  forall scripts steps l1 l2 l3 t u c k rn t' c' k' rn',
    trace false scripts steps = l1 ++ ECall t u c k rn :: l2 ++ ECall t' u c' k' rn' :: l3 -> False.
Proof. exact never_twice_l. Qed.
Print Assumptions delay_never_twice.

(* whenever the outside world gets control at time t (an accepted Ext step), every delay added with deadline
   t0+ms < t has been cancelled or has run at exactly t0+ms with its callback and kwargs *)
Theorem delay_fires_unless_cancelled :
  forall scripts steps t t0 u n ms c k,
    let st := run_from false scripts steps init in
    ext_ok t st = true ->
    In (EAdd t0 u n ms c k) (log st) -> t0 + 1000 * ms < t ->
    In (EKill u) (log st) \/ In (ECall (t0 + 1000 * ms) u c k false) (log st).
Proof. exact fires_unless_cancelled_l. Qed.
Print Assumptions delay_fires_unless_cancelled.

(* what gets cancelled: remove(n) exactly the handle named n; add(n) the same and schedules the new one at
   now+ms; clear() everything *)
Theorem cancel_scope :
  forall scripts steps,
    let st := run_from false scripts steps init in
    (forall n, timers (do_remove n st) = rm n (timers st)) /\
    (forall ms n cb kw, 0 <= n ->
        timers (do_add ms n cb kw st) = rm n (timers st) ++ [mkT (next st) (now st + 1000 * ms) n cb kw]) /\
    timers (do_clear st) = [].
Proof. exact cancel_scope_l. Qed.
Print Assumptions cancel_scope.

Theorem check_truthful :
  forall scripts steps n b g, In (ECheck n b g) (trace false scripts steps) -> b = g.
Proof. exact check_truthful_l. Qed.
Print Assumptions check_truthful.

Theorem check_truthful_state :
  forall scripts steps n,
    let st := run_from false scripts steps init in
    check st n = true <-> exists tm, In tm (timers st) /\ t_name tm = n.
Proof. exact check_truthful_state_l. Qed.
Print Assumptions check_truthful_state.

(* run_now(n) with a pending delay tm: cancels tm's handle, removes the entry, then calls tm's callback with
   tm's kwargs (whatever the callback then does: [call] is arbitrary) *)
Theorem run_now_same_args :
  forall scripts steps call n tm,
    let st := run_from false scripts steps init in
    find (name_is n) (timers st) = Some tm ->
    do_run_now false call n st =
      call (t_id tm) (t_cb tm) (t_kw tm) true
           (mkS (now st) (next st) (map entry_of (rm n (timers st))) (rm n (timers st))
                (EKill (t_id tm) :: log st)).
Proof. exact run_now_same_args_l. Qed.
Print Assumptions run_now_same_args.

(* the code before fixes/C13-run-now-kwargs.patch: run_now calls the callback with other kwargs than stored *)
Theorem run_now_same_args_refuted_before_fix :
  exists scripts steps t0 u n ms c k t k',
    In (EAdd t0 u n ms c k) (trace true scripts steps) /\
    In (ECall t u c k' true) (trace true scripts steps) /\ k <> k'.
Proof. exact run_now_legacy_drops_kwargs_l. Qed.
Print Assumptions run_now_same_args_refuted_before_fix.

(* PeriodicTask: the calls are t0+ival, t0+2*ival, ..., t0+n*ival (newest first), whatever the steps *)
Theorem periodic_no_drift :
  forall t0 ival steps, exists n, pcalls (snd (p_run t0 ival steps)) = ticks_desc t0 ival n.
Proof. exact periodic_no_drift_l. Qed.
Print Assumptions periodic_no_drift.

Theorem periodic_none_after_cancel :
  forall steps st, p_cancelled (fst st) = true ->
    pcalls (snd (fold_left p_step steps st)) = pcalls (snd st).
Proof. exact periodic_none_after_cancel_l. Qed.
Print Assumptions periodic_none_after_cancel.

Theorem periodic_no_missed_tick :
  forall t0 ival steps t,
    let st := p_run t0 ival steps in
    p_cancelled (fst st) = false -> p_time_ok (fst st) t = true ->
    exists n, pcalls (snd st) = ticks_desc t0 ival n /\ t <= t0 + (Z.of_nat n + 1) * ival.
Proof. exact periodic_no_missed_tick_l. Qed.
Print Assumptions periodic_no_missed_tick.

(* ---- the hypotheses are satisfiable on non-trivial histories -------------------------------------------- *)
(* script 0 re-adds its own name and run_now's "b"; "a" fires at 250 ms while the world is away, "c" is replaced *)
Definition ex_scripts : list (list op) := [[Add 125 0 0 [1; 7]; RunNow 1]; []].
Definition ex_steps : list step :=
  [Ext 0 [Add 250 0 0 [0; 1]; Add 500 1 1 [2; 2]; Add 1000 2 (-1) []; Add 125 2 1 [3; 3]; Check 0];
   Fire 3; Fire 0; Fire 4; Ext 1000000 [Check 0; Clear]].

Example ex_history_accepted_and_nontrivial :
  trace false ex_scripts ex_steps =
  [EAdd 0 0 0 250 0 [0; 1]; EAdd 0 1 1 500 1 [2; 2]; EAdd 0 2 2 1000 (-1) []; EKill 2; EAdd 0 3 2 125 1 [3; 3];
   ECheck 0 true true; EDict [0; 1; 2];
   ECall 125000 3 1 [3; 3] false;
   ECall 250000 0 0 [0; 1] false; EAdd 250000 4 0 125 0 [1; 7]; EKill 1; ECall 250000 1 1 [2; 2] true;
   ECall 375000 4 0 [1; 7] false; EAdd 375000 5 0 125 0 [1; 7];
   EReject 3].
Proof. vm_compute. reflexivity. Qed.
Print Assumptions ex_history_accepted_and_nontrivial.

(* ... the last Ext was rejected because delay 5 (due 500 ms) had not fired: with its Fire steps the history is legal *)
Definition ex_steps2 : list step :=
  [Ext 0 [Add 250 0 0 [0; 1]; Add 500 1 1 [2; 2]]; Fire 0; Ext 300000 []].

Example ex_fires_unless_cancelled_hyps :
  let st := run_from false ex_scripts ex_steps2 init in
  ext_ok 300000 st = true /\ In (EAdd 0 0 0 250 0 [0; 1]) (log st) /\ 0 + 1000 * 250 < 300000 /\
  In (ECall 250000 0 0 [0; 1] false) (log st) /\ In (EKill 1) (log st) /\
  exists tm, find (name_is 0) (timers st) = Some tm /\ t_kw tm = [1; 7].
Proof. vm_compute. repeat split; auto 20. eexists. split; reflexivity. Qed.
Print Assumptions ex_fires_unless_cancelled_hyps.

Example ex_periodic :
  let st := p_run 0 1000 [PRun; PRun; PCancel 2500; PRun; PAt 4000] in
  pcalls (snd st) = ticks_desc 0 1000 2 /\ p_cancelled (fst st) = true /\ snd st = [PCalled 2000; PCalled 1000] /\
  p_time_ok (fst (p_run 0 1000 [PRun; PRun])) 3000 = true.
Proof. vm_compute. repeat split; reflexivity. Qed.
Print Assumptions ex_periodic.
