(* C13/OwnerLemmas.v — proofs about clear() as the end of ownership and about the mode lifecycle of Owner.v *)
From Common Require Import Prelude.
From C13 Require Import Model Lemmas Owner.
Open Scope Z_scope.

Lemma log_ok_suffix a : forall b, log_ok (a ++ b) -> log_ok b.
Proof. induction a as [|x a IH]; cbn; intros b H; auto. apply IH. apply H. Qed.

Lemma called_app u a b : called u (a ++ b) <-> called u a \/ called u b.
Proof.
  split.
  - intros [t [c [k [rn H]]]]. apply in_app_or in H as [H|H]; [left|right]; exists t, c, k, rn; auto.
  - intros [[t [c [k [rn H]]]]|[t [c [k [rn H]]]]]; exists t, c, k, rn; apply in_or_app; auto.
Qed.

(* the log-level core: in a justified log (newest first) [post ++ EClear :: pre], an add of [pre] is dead at the
   marker and is never called in [post] *)
Lemma clear_final_log pre post :
  log_ok (post ++ EClear :: pre) ->
  forall t0 u n ms c k, In (EAdd t0 u n ms c k) pre ->
    (In (EKill u) pre \/ called u pre) /\ ~ called u post.
Proof.
  intros L t0 u n ms c k HA.
  pose proof (log_ok_split _ L post EClear pre eq_refl) as JC. cbn in JC.
  pose proof (JC _ _ _ _ _ _ HA) as DEAD. split; auto.
  intros [t [c' [k' [rn HC]]]]. apply in_split in HC as [p1 [p2 E]]. subst post.
  rewrite <- app_assoc in L. cbn in L.
  pose proof (log_ok_split _ L p1 (ECall t u c' k' rn) (p2 ++ EClear :: pre) eq_refl) as J. cbn in J.
  destruct J as [_ [NC K]].
  destruct DEAD as [KD|CD].
  - destruct rn.
    + destruct K as [past' K].
      assert (L2 : log_ok (p2 ++ EClear :: pre)).
      { apply (log_ok_suffix (p1 ++ [ECall t u c' k' true])). rewrite <- app_assoc. exact L. }
      destruct p2 as [|x p2]; cbn in K; [discriminate|]. inversion K; subst x past'.
      cbn in L2. destruct L2 as [[NK _] _]. apply NK. apply in_or_app. right. right. exact KD.
    + apply K. apply in_or_app. right. right. exact KD.
  - apply NC. apply called_app. right. apply called_cons. exact CD.
Qed.

(* general statement for any justified trace (chronological) *)
Lemma clear_final_trace lg pre post :
  log_ok lg -> List.rev lg = pre ++ EClear :: post ->
  forall t0 u n ms c k, In (EAdd t0 u n ms c k) pre ->
    (In (EKill u) pre \/ called u pre) /\ ~ called u post.
Proof.
  intros L E t0 u n ms c k HA.
  assert (E2 : lg = List.rev post ++ EClear :: List.rev pre).
  { apply (f_equal (@List.rev ev)) in E. rewrite rev_involutive in E. rewrite E, rev_app_distr. cbn.
    rewrite <- app_assoc. reflexivity. }
  subst lg.
  assert (HA' : In (EAdd t0 u n ms c k) (List.rev pre)) by (apply in_rev in HA; exact HA).
  destruct (clear_final_log _ _ L _ _ _ _ _ _ HA') as [D NC]. split.
  - destruct D as [D|[t [c' [k' [rn D]]]]]; [left; apply in_rev; exact D|].
    right. exists t, c', k', rn. apply in_rev. exact D.
  - intros [t [c' [k' [rn H]]]]. apply NC. exists t, c', k', rn. apply in_rev in H. exact H.
Qed.

Lemma clear_final_l scripts steps pre post :
  trace false scripts steps = pre ++ EClear :: post ->
  forall t0 u n ms c k, In (EAdd t0 u n ms c k) pre ->
    (In (EKill u) pre \/ called u pre) /\ ~ called u post.
Proof.
  intro E. destruct (Inv_reach scripts steps) as [_ I].
  destruct I as (_ & _ & _ & _ & _ & _ & _ & _ & _ & L).
  eapply clear_final_trace; eauto.
Qed.

(* ---------------------------------------------------------------------------------------- *)
(* the mode *)
Lemma Inv_emit_marker e st : marker e -> justified (log st) e -> Inv st -> Inv (emit e st).
Proof. intros M J [D I]. split; cbn; auto. apply inv_core_marker; auto. Qed.

Lemma Inv_emit_mode_plain c t st : c <> 1 -> c <> 3 -> Inv st -> Inv (emit (EMode c t) st).
Proof.
  intros H1 H3 I. apply Inv_emit_marker; auto; [exact Logic.I|]. cbn. intros [H|H]; contradiction.
Qed.

Lemma Inv_clear_as c t st : Inv st -> Inv (clear_as c t st).
Proof.
  intro I. unfold clear_as. apply Inv_emit_marker; [exact Logic.I| |apply Inv_do_clear; exact I].
  cbn. intros _. eexists. reflexivity.
Qed.

Lemma do_clear_empty st : Inv st -> timers (do_clear st) = [] /\ dict (do_clear st) = [].
Proof.
  intro I. split; [|reflexivity].
  destruct (fold_remove_inv (map e_name (dict st)) st I) as [_ T].
  unfold do_clear. cbn. rewrite T. destruct I as [D0 _]. rewrite D0.
  apply filter_nil_all. intros t Ht. apply negb_false_iff. apply existsb_exists.
  exists (t_name t). split; [|apply Z.eqb_refl].
  rewrite map_map. cbn. apply in_map. exact Ht.
Qed.

Lemma flags_code_plain m : flags_code m <> 1 /\ flags_code m <> 3.
Proof. unfold flags_code, b2z. destruct (m_active m), (m_stopping m), (m_starting m), (m_cleanup m); lia. Qed.

Lemma Inv_life s t m st : Inv st -> Inv (snd (life s t m st)).
Proof.
  intro I. destruct s; cbn; auto.
  - destruct (m_active m || m_starting m); cbn.
    + apply Inv_emit_mode_plain; auto; lia.
    + apply Inv_emit_mode_plain; try lia. destruct (m_cleanup m); auto. apply Inv_clear_as; auto.
  - apply Inv_emit_mode_plain; auto; lia.
  - destruct (m_active m && negb (m_stopping m)); cbn.
    + apply Inv_clear_as; auto.
    + apply Inv_emit_mode_plain; auto; lia.
  - apply Inv_emit_mode_plain; auto; lia.
  - destruct (m_cleanup m); cbn.
    + apply Inv_clear_as; auto.
    + apply Inv_emit_mode_plain; auto; lia.
Qed.

Lemma Inv_m_step scripts ms s : Inv (snd ms) -> Inv (snd (m_step scripts ms s)).
Proof.
  destruct ms as [m st]. cbn [snd]. intro I.
  assert (LIFE : forall t, is_life s = Some t ->
            Inv (snd (if ext_ok t st
                      then let (m1, st1) := life s t m (with_now t st) in
                           (m1, emit (EDict (map e_name (dict st1))) (emit (EMode (flags_code m1) t) st1))
                      else (m, emit (EReject 3) st)))).
  { intros t _. destruct (ext_ok t st); cbn.
    - pose proof (Inv_life s t m (with_now t st) (Inv_with_now t st I)) as J.
      destruct (life s t m (with_now t st)) as [m1 st1]. cbn in *.
      apply Inv_emit_harmless; [exact Logic.I|].
      destruct (flags_code_plain m1). apply Inv_emit_mode_plain; auto.
    - apply Inv_emit_harmless; [exact Logic.I|auto]. }
  destruct s; cbn [m_step]; try (apply Inv_do_step; exact I); cbn [is_life]; apply LIFE; reflexivity.
Qed.

Lemma Inv_m_run scripts steps : forall ms, Inv (snd ms) -> Inv (snd (fold_left (m_step scripts) steps ms)).
Proof.
  induction steps as [|s steps IH]; cbn; intros ms I; auto. apply IH. apply Inv_m_step. exact I.
Qed.

Lemma Inv_m_reach scripts m0 steps : Inv (snd (m_run scripts m0 steps)).
Proof. unfold m_run. apply Inv_m_run. cbn. apply Inv_init. Qed.

Lemma m_log_ok scripts m0 steps : log_ok (log (snd (m_run scripts m0 steps))).
Proof.
  destruct (Inv_m_reach scripts m0 steps) as [_ I].
  destruct I as (_ & _ & _ & _ & _ & _ & _ & _ & _ & L). exact L.
Qed.

(* every event of a mode history is justified (so all delay_* statements hold for mode-owned managers too) *)
Lemma m_justified_l scripts m0 steps pre e post :
  m_trace scripts m0 steps = pre ++ e :: post -> justified (List.rev pre) e.
Proof.
  unfold m_trace. intro H. apply (f_equal (@List.rev ev)) in H. rewrite rev_involutive in H.
  rewrite rev_app_distr in H. cbn in H. rewrite <- app_assoc in H. cbn in H.
  eapply log_ok_split; [apply (m_log_ok scripts m0 steps)|exact H].
Qed.

(* no delay owned by a mode fires after the mode's stop was requested (c = 1) / after the stop has wound up (c = 3) *)
Lemma owner_stopped_l scripts m0 steps pre c t post :
  m_trace scripts m0 steps = pre ++ EMode c t :: post -> c = 1 \/ c = 3 ->
  forall t0 u n ms cb k, In (EAdd t0 u n ms cb k) pre ->
    (In (EKill u) pre \/ called u pre) /\ ~ called u post.
Proof.
  intros E C t0 u n ms cb k HA.
  pose proof (m_justified_l _ _ _ _ _ _ E) as J. cbn in J. destruct (J C) as [past' P].
  assert (PRE : pre = List.rev past' ++ [EClear]).
  { apply (f_equal (@List.rev ev)) in P. rewrite rev_involutive in P. rewrite P. reflexivity. }
  subst pre. rewrite <- app_assoc in E. cbn in E.
  apply in_app_or in HA as [HA|[HA|[]]]; [|discriminate].
  destruct (clear_final_trace _ _ _ (m_log_ok scripts m0 steps) E _ _ _ _ _ _ HA) as [D NC]. split.
  - destruct D as [D|D]; [left; apply in_or_app; left; exact D|].
    right. apply called_app. left. exact D.
  - intro H. apply NC. apply called_cons. exact H.
Qed.

(* an accepted stop request on an active mode that is not yet stopping clears the manager and is marked *)
Lemma mode_stop_clears_l scripts m0 steps t :
  let ms := m_run scripts m0 steps in
  m_active (fst ms) = true -> m_stopping (fst ms) = false -> ext_ok t (snd ms) = true ->
  let ms' := m_step scripts ms (MStop t) in
  m_stopping (fst ms') = true /\ timers (snd ms') = [] /\ dict (snd ms') = [] /\
  exists rest, log (snd ms') = EDict [] :: EMode (flags_code (fst ms')) t :: EMode 1 t :: EClear :: rest.
Proof.
  cbv zeta. pose proof (Inv_m_reach scripts m0 steps) as I.
  destruct (m_run scripts m0 steps) as [m st]. cbn [fst snd] in *. intros A S OK.
  cbn [m_step is_life]. rewrite OK. cbn [life]. rewrite A, S. cbn [andb negb fst snd].
  destruct (do_clear_empty (with_now t st) (Inv_with_now t st I)) as [T D].
  unfold clear_as, emit. cbn [timers dict log fst snd m_stopping]. rewrite T, D.
  repeat split; auto. unfold do_clear. cbn [log map]. eexists. reflexivity.
Qed.

(* the same for the wind-up; and a second stop request while stopping, or a stop of an inactive mode, touches nothing *)
Lemma mode_windup_clears_l scripts m0 steps t :
  let ms := m_run scripts m0 steps in
  m_cleanup (fst ms) = true -> ext_ok t (snd ms) = true ->
  let ms' := m_step scripts ms (MWoundUp t) in
  m_cleanup (fst ms') = false /\ timers (snd ms') = [] /\ dict (snd ms') = [].
Proof.
  cbv zeta. pose proof (Inv_m_reach scripts m0 steps) as I.
  destruct (m_run scripts m0 steps) as [m st]. cbn [fst snd] in *. intros C OK.
  cbn [m_step is_life]. rewrite OK. cbn [life]. rewrite C. cbn [fst snd].
  destruct (do_clear_empty (with_now t st) (Inv_with_now t st I)) as [T D].
  unfold clear_as, emit. cbn [timers dict log fst snd m_cleanup]. rewrite T, D.
  repeat split; auto.
Qed.

Lemma mode_second_stop_keeps_l scripts m st t :
  (m_active m = false \/ m_stopping m = true) ->
  let ms' := m_step scripts (m, st) (MStop t) in
  fst ms' = m /\ timers (snd ms') = timers st /\ dict (snd ms') = dict st.
Proof.
  cbv zeta. intro H. cbn [m_step is_life]. destruct (ext_ok t st); cbn [life].
  - assert (E : m_active m && negb (m_stopping m) = false).
    { destruct H as [H|H]; rewrite H; cbn; auto. apply andb_false_r. }
    rewrite E. cbn. auto.
  - cbn. auto.
Qed.
