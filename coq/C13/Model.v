(* C13/Model.v — executable model of mpf/core/delays.py (DelayManager) on top of a model of the
   asyncio timer heap, of mpf/core/clock.py PeriodicTask, and of the tick/complete core of
   mpf/devices/timer.py.  Definitions only.

   Time is exact: Z microseconds.  Names, callback ids are Z; kwargs are an opaque list Z.

   The implementation keeps TWO structures: DelayManager.delays (name -> (handle, callback)) and the
   loop's scheduled handles.  Both are modelled ([dict], [timers]); that they stay in step is a
   theorem (Lemmas.v, [wf]), not an assumption.  A cancelled handle never runs (asyncio skips
   cancelled handles both in the heap and in the ready queue), so [timers] holds the live handles.

   The loop's choice among due handles is an input: a history is a list of [step]s, [Ext t ops]
   (the outside world performs ops at virtual time t) and [Fire u] (the loop runs handle u).
   A [Fire u] is accepted only if u is live and no live handle has an earlier deadline; an [Ext t]
   only if no live handle has a deadline before t.  Everything else yields [EReject].

   [legacy = true] is the code before fixes/C13-run-now-kwargs.patch: run_now calls the bare
   callback (delays[name][1]) without the stored kwargs. *)
From Common Require Import Prelude.
Open Scope Z_scope.

Definition kwargs := list Z.

Record timer := mkT { t_id : Z; t_when : Z; t_name : Z; t_cb : Z; t_kw : kwargs }.
Record entry := mkE { e_name : Z; e_tid : Z; e_cb : Z; e_kw : kwargs }.

Inductive op :=
| Add (ms name cb : Z) (kw : kwargs)
| AddIfNot (ms name cb : Z) (kw : kwargs)
| Reset (ms name cb : Z) (kw : kwargs)
| Remove (name : Z)
| Clear
| RunNow (name : Z)
| Check (name : Z)
| Raise (kind : Z).      (* the test callback (or the outside caller) raises: kind 1 = KeyError, else another exception *)

Inductive ev :=
| EAdd (t u name ms cb : Z) (kw : kwargs)      (* a handle was scheduled at t for ms *)
| EKill (u : Z)                                (* a live handle was cancelled *)
| ECall (t u cb : Z) (kw : kwargs) (rn : bool) (* the callback ran; rn: its handle was cancelled (run_now) *)
| ECheck (name : Z) (b g : bool)               (* check(name) answered b; g: a live handle for name exists *)
| EDict (names : list Z)                       (* keys of DelayManager.delays, in dict order *)
| EOof                                         (* test callback at maximal nesting depth: script not run *)
| EClear                                       (* clear() has returned: every delay added before is dead *)
| EMode (code t : Z)                           (* owner (mode) lifecycle marker, see Owner.v; 1 = stop requested,
                                                  3 = stop wound up: both directly after the manager's clear() *)
| ERaise (kind : Z)                            (* an exception is raised; while it is the newest event it propagates *)
| ECaught (by_ : Z)                            (* ... until caught: 0 by the loop's exception handler (handle run by the
                                                  loop), 1 by run_now's `except KeyError`, 2 by the outside caller *)
| EReject (code : Z).                          (* the history is not a possible behaviour of the loop *)

Record state := mkS { now : Z; next : Z; dict : list entry; timers : list timer; log : list ev }.

Definition emit (e : ev) (st : state) : state :=
  mkS (now st) (next st) (dict st) (timers st) (e :: log st).

Definition entry_of (tm : timer) : entry := mkE (t_name tm) (t_id tm) (t_cb tm) (t_kw tm).

Definition name_is (n : Z) (tm : timer) : bool := t_name tm =? n.
Definition id_is (u : Z) (tm : timer) : bool := t_id tm =? u.
Definition ename_is (n : Z) (e : entry) : bool := e_name e =? n.

Definition dict_find (n : Z) (d : list entry) : option entry := find (ename_is n) d.
Definition dict_del (n : Z) (d : list entry) : list entry := filter (fun e => negb (ename_is n e)) d.
Definition is_live (u : Z) (ts : list timer) : bool := existsb (id_is u) ts.
Definition live_name (n : Z) (ts : list timer) : bool := existsb (name_is n) ts.

(* `delay in self.delays` *)
Definition check (st : state) (n : Z) : bool :=
  match dict_find n (dict st) with Some _ => true | None => false end.

(* clock.unschedule(handle): handle.cancel() *)
Definition do_cancel (u : Z) (st : state) : state :=
  if is_live u (timers st)
  then mkS (now st) (next st) (dict st) (filter (fun t => negb (id_is u t)) (timers st)) (EKill u :: log st)
  else st.

(* remove(name): pop + unschedule *)
Definition do_remove (n : Z) (st : state) : state :=
  match dict_find n (dict st) with
  | None => st
  | Some e => do_cancel (e_tid e) (mkS (now st) (next st) (dict_del n (dict st)) (timers st) (log st))
  end.

(* add(ms, callback, name, **kwargs).  Every add-like call consumes one id (the test harness creates one closure
   per call).  NAMES: a name is a Z.  n0 = -1 stands for name=None: add() generates a name (uuid4) and RETURNS it; the
   generated name of the add with id u is written [gen_name u] = -2-u.  Names >= 0 are the client's own strings.  A
   client may keep a returned generated name and pass it to any operation later (stale or not): names <= -2 in
   operations.  A generated name that has not been returned yet cannot be known to a client (a uuid4 cannot be
   guessed): an add-like call with such a name is not a possible call and does nothing here ([usable]); remove /
   check / run_now on it are no-ops anyway. *)
Definition is_anon (n0 : Z) : bool := n0 =? -1.
Definition gen_name (u : Z) : Z := -2 - u.
Definition known (st : state) (n0 : Z) : bool := (0 <=? n0) || ((n0 <? -1) && (-2 - n0 <? next st)).
Definition usable (st : state) (n0 : Z) : bool := is_anon n0 || known st n0.
(* what add(.., name=n0) returns *)
Definition add_ret (n0 : Z) (st : state) : Z := if is_anon n0 then gen_name (next st) else n0.

Definition add_named (ms n cb : Z) (kw : kwargs) (st : state) : state :=
  let u := next st in
  let st1 := do_remove n (mkS (now st) (u + 1) (dict st) (timers st) (log st)) in
  mkS (now st1) (next st1)
      (dict st1 ++ [mkE n u cb kw])
      (timers st1 ++ [mkT u (now st + 1000 * ms) n cb kw])
      (EAdd (now st) u n ms cb kw :: log st1).

Definition do_add (ms n0 cb : Z) (kw : kwargs) (st : state) : state :=
  if usable st n0 then add_named ms (add_ret n0 st) cb kw st else st.

Definition skip_id (st : state) : state := mkS (now st) (next st + 1) (dict st) (timers st) (log st).

Definition do_add_if (ms n0 cb : Z) (kw : kwargs) (st : state) : state :=
  if negb (usable st n0) then st
  else if negb (is_anon n0) && check st n0 then skip_id st else do_add ms n0 cb kw st.

Definition do_reset (ms n0 cb : Z) (kw : kwargs) (st : state) : state :=
  if negb (usable st n0) then st
  else do_add ms n0 cb kw (if negb (is_anon n0) && check st n0 then do_remove n0 st else st).

(* clear(): for name in list(keys): unschedule(delays[name][0]); remove(name) ; delays = {} *)
Definition clear_one (st : state) (n : Z) : state :=
  match dict_find n (dict st) with
  | None => st
  | Some e => do_remove n (do_cancel (e_tid e) st)
  end.

Definition do_clear (st : state) : state :=
  let st1 := fold_left clear_one (map e_name (dict st)) st in
  mkS (now st1) (next st1) [] (timers st1) (EClear :: log st1).

Definition callfn := Z -> Z -> kwargs -> bool -> state -> state.   (* u cb kw rn *)

(* exceptions: an exception propagates while ERaise is the newest event of the log (nothing else is logged while it
   unwinds: the remaining operations of every enclosing script are skipped) *)
Definition raising (st : state) : option Z := match log st with ERaise k :: _ => Some k | _ => None end.
Definition catch_all (by_ : Z) (st : state) : state :=
  match raising st with Some _ => emit (ECaught by_) st | None => st end.
(* run_now's `try: ... cb() except KeyError: pass` *)
Definition catch_key (st : state) : state :=
  match raising st with Some k => if k =? 1 then emit (ECaught 1) st else st | None => st end.

(* run_now(name) *)
Definition do_run_now (legacy : bool) (call : callfn) (n : Z) (st : state) : state :=
  match dict_find n (dict st) with
  | None => st
  | Some e => catch_key (call (e_tid e) (e_cb e) (if legacy then [] else e_kw e) true (do_remove n st))
  end.

Definition do_check (n : Z) (st : state) : state :=
  emit (ECheck n (check st n) (live_name n (timers st))) st.

Definition exec_op (legacy : bool) (call : callfn) (o : op) (st : state) : state :=
  match o with
  | Add ms n cb kw => do_add ms n cb kw st
  | AddIfNot ms n cb kw => do_add_if ms n cb kw st
  | Reset ms n cb kw => do_reset ms n cb kw st
  | Remove n => do_remove n st
  | Clear => do_clear st
  | RunNow n => do_run_now legacy call n st
  | Check n => do_check n st
  | Raise k => emit (ERaise k) st
  end.

(* a script: the operations after a raising one are not executed *)
Definition exec_ops (legacy : bool) (call : callfn) (ops : list op) (st : state) : state :=
  fold_left (fun s o => match raising s with Some _ => s | None => exec_op legacy call o s end) ops st.

(* the operations of an external step: the outside caller catches what an operation raises and goes on *)
Definition exec_ops_top (legacy : bool) (call : callfn) (ops : list op) (st : state) : state :=
  fold_left (fun s o => catch_all 2 (exec_op legacy call o s)) ops st.

(* the test callbacks: record the call, then run a script of further manager operations (re-entrantly);
   at nesting depth MAXD the script is not run *)
Definition script_of (scripts : list (list op)) (cb : Z) : list op :=
  if cb <? 0 then [] else nth (Z.to_nat cb) scripts [].

(* the test callbacks also stop running their scripts once the log holds more than MAXLOG events
   (bounds self-rescheduling chains; same cut in the harness) *)
Definition MAXLOG : Z := 1500.

Fixpoint call_cb (legacy : bool) (scripts : list (list op)) (fuel : nat) : callfn :=
  fun u cb kw rn st =>
    let st1 := emit (ECall (now st) u cb kw rn) st in
    match fuel with
    | O => emit EOof st1
    | S f => if MAXLOG <? Z.of_nat (length (log st1)) then emit EOof st1
             else exec_ops legacy (call_cb legacy scripts f) (script_of scripts cb) st1
    end.

Definition MAXD1 : nat := 5%nat.
Definition MAXD : nat := S MAXD1.

(* a callback run by a loop that dispatches late: the call is recorded with its scheduled-for instant (now st =
   the handle's deadline), the script then runs at the observed instant t *)
Definition call_cb_late (legacy : bool) (scripts : list (list op)) (t : Z) : callfn :=
  fun u cb kw rn st =>
    let st1 := emit (ECall (now st) u cb kw rn) st in
    let st2 := mkS t (next st1) (dict st1) (timers st1) (log st1) in
    if MAXLOG <? Z.of_nat (length (log st1)) then emit EOof st2
    else exec_ops legacy (call_cb legacy scripts MAXD1) (script_of scripts cb) st2.

(* Ext t ops: the outside world at t; Fire u: the loop runs handle u exactly at its deadline;
   FireAt u t: the loop runs handle u at t >= deadline (a loop that wakes up late / jumps past several deadlines) *)
Inductive step := Ext (t : Z) (ops : list op) | Fire (u : Z) | FireAt (u t : Z).

Definition find_timer (u : Z) (ts : list timer) : option timer := find (id_is u) ts.

(* the loop runs handle u: partial(_process_delay_callback, name, callback, **kwargs) *)
Definition fire (call : callfn) (u : Z) (st : state) : state :=
  match find_timer u (timers st) with
  | None => emit (EReject 1) st
  | Some tm =>
      if (now st <=? t_when tm) && forallb (fun t' => t_when tm <=? t_when t') (timers st)
      then catch_all 0 (call u (t_cb tm) (t_kw tm) false
             (mkS (t_when tm) (next st) (dict_del (t_name tm) (dict st))
                  (filter (fun t => negb (id_is u t)) (timers st)) (log st)))
      else emit (EReject 2) st
  end.

(* late dispatch: u is live, has the minimal deadline (asyncio moves due handles to the ready queue in deadline
   order), t is not before the deadline and not before the present *)
Definition fire_at (call : callfn) (u t : Z) (st : state) : state :=
  match find_timer u (timers st) with
  | None => emit (EReject 1) st
  | Some tm =>
      if (now st <=? t) && (t_when tm <=? t) && forallb (fun t' => t_when tm <=? t_when t') (timers st)
      then catch_all 0 (call u (t_cb tm) (t_kw tm) false
             (mkS (t_when tm) (next st) (dict_del (t_name tm) (dict st))
                  (filter (fun t => negb (id_is u t)) (timers st)) (log st)))
      else emit (EReject 2) st
  end.

Definition ext_ok (t : Z) (st : state) : bool :=
  (now st <=? t) && forallb (fun tm => t <=? t_when tm) (timers st).

Definition do_step (legacy : bool) (scripts : list (list op)) (st : state) (s : step) : state :=
  match s with
  | Ext t ops =>
      if ext_ok t st
      then let st1 := exec_ops_top legacy (call_cb legacy scripts MAXD) ops
                               (mkS t (next st) (dict st) (timers st) (log st)) in
           emit (EDict (map e_name (dict st1))) st1
      else emit (EReject 3) st
  | Fire u => fire (call_cb legacy scripts MAXD) u st
  | FireAt u t => fire_at (call_cb_late legacy scripts t) u t st
  end.

Definition init : state := mkS 0 0 [] [] [].

Definition run_from (legacy : bool) (scripts : list (list op)) (steps : list step) (st : state) : state :=
  fold_left (do_step legacy scripts) steps st.

Definition trace (legacy : bool) (scripts : list (list op)) (steps : list step) : list ev :=
  rev (log (run_from legacy scripts steps init)).

(* ---- correspondence interface ------------------------------------------------------------- *)
Definition kw_eqb := zs_eqb.
Definition ev_eqb (a b : ev) : bool :=
  match a, b with
  | EAdd t u n ms c k, EAdd t' u' n' ms' c' k' =>
      (t =? t') && (u =? u') && (n =? n') && (ms =? ms') && (c =? c') && kw_eqb k k'
  | EKill u, EKill u' => u =? u'
  | ECall t u c k r, ECall t' u' c' k' r' => (t =? t') && (u =? u') && (c =? c') && kw_eqb k k' && Bool.eqb r r'
  | ECheck n b g, ECheck n' b' g' => (n =? n') && Bool.eqb b b' && Bool.eqb g g'
  | EDict l, EDict l' => zs_eqb l l'
  | EOof, EOof => true
  | ERaise k, ERaise k' => k =? k'
  | ECaught k, ECaught k' => k =? k'
  | EClear, EClear => true
  | EMode c t, EMode c' t' => (c =? c') && (t =? t')
  | EReject c, EReject c' => c =? c'
  | _, _ => false
  end.

Definition delay_run (i : list (list op) * list step) : list ev := trace false (fst i) (snd i).
Definition delay_out_eqb : list ev -> list ev -> bool := list_eqb ev_eqb.

(* ========================================================================================== *)
(* PeriodicTask (clock.py): _last_call, _interval, _canceled; one loop handle at _last_call+_interval.
   ops: PTick (the loop runs _run; accepted only at the handle's deadline), PCancel at time t. *)
Record ptask := mkP { p_last : Z; p_ival : Z; p_cancelled : bool; p_handle : option Z; p_now : Z }.

Inductive pev := PCalled (t : Z) | PReject.
(* PRunAt t / PCancelAt t: the same on a loop that dispatches late: _run is entered at t >= its deadline (the call is
   recorded with its scheduled-for instant), cancel() happens at an instant at which the handle may be overdue *)
Inductive pstep := PRun | PCancel (t : Z) | PAt (t : Z) | PRunAt (t : Z) | PCancelAt (t : Z).

Definition p_init (t0 ival : Z) : ptask := mkP t0 ival false (Some (t0 + ival)) t0.

Definition p_time_ok (p : ptask) (t : Z) : bool :=
  (p_now p <=? t) && (match p_handle p with Some w => t <=? w | None => true end).

(* PRun is the loop running _run:  _last_call += interval; if canceled: return; callback(); _schedule()
   PCancel t: cancel() at time t;  PAt t: the outside world looks at time t (no handle may be overdue) *)
Definition p_step (st : ptask * list pev) (s : pstep) : ptask * list pev :=
  let (p, out) := st in
  match s with
  | PRun =>
      match p_handle p with
      | None => (p, PReject :: out)
      | Some w =>
          if p_now p <=? w then
            let last := p_last p + p_ival p in
            if p_cancelled p
            then (mkP last (p_ival p) true None w, out)
            else (mkP last (p_ival p) false (Some (last + p_ival p)) w, PCalled w :: out)
          else (p, PReject :: out)
      end
  | PCancel t =>
      if p_time_ok p t
      then (mkP (p_last p) (p_ival p) true (p_handle p) t, out)
      else (p, PReject :: out)
  | PAt t =>
      if p_time_ok p t
      then (mkP (p_last p) (p_ival p) (p_cancelled p) (p_handle p) t, out)
      else (p, PReject :: out)
  | PRunAt t =>
      match p_handle p with
      | None => (p, PReject :: out)
      | Some w =>
          if (p_now p <=? t) && (w <=? t) then
            let last := p_last p + p_ival p in
            if p_cancelled p
            then (mkP last (p_ival p) true None t, out)
            else (mkP last (p_ival p) false (Some (last + p_ival p)) t, PCalled w :: out)
          else (p, PReject :: out)
      end
  | PCancelAt t =>
      if p_now p <=? t
      then (mkP (p_last p) (p_ival p) true (p_handle p) t, out)
      else (p, PReject :: out)
  end.

Definition p_run (t0 ival : Z) (steps : list pstep) : ptask * list pev :=
  fold_left p_step steps (p_init t0 ival, []).

Definition pev_eqb (a b : pev) : bool :=
  match a, b with PCalled t, PCalled t' => t =? t' | PReject, PReject => true | _, _ => false end.

(* correspondence: input (t0, ival, steps), output: calls in order and the next call time *)
Definition periodic_run (i : Z * Z * list pstep) : list pev * Z :=
  let '(t0, ival, steps) := i in
  let (p, out) := p_run t0 ival steps in (rev out, p_last p + p_ival p).
Definition periodic_out_eqb (a b : list pev * Z) : bool :=
  list_eqb pev_eqb (fst a) (fst b) && (snd a =? snd b).
