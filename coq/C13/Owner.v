(* C13/Owner.v — a mode as the owner of a DelayManager (mpf/core/mode.py: Mode.delay, start/_started/stop/_stopped/
   _mode_stopped_callback) on top of the DelayManager model of Model.v.  Definitions only.

   Mode state = the four lifecycle flags of mode.py (_active, stopping, _starting, _cleanup_pending); the mode's
   DelayManager is a Model.state.  Who uses mode.delay: handlers of the mode's events (also mode_<m>_stopping /
   mode_<m>_stopped handlers and code that runs while the stopping queue is held), mode code, DELAYED device control
   events (Mode._control_event_handler: self.delay.add(ms, callback=method)), all through the operations of Model.v
   ([MOps t ops]); the loop runs handles ([MFire u t], t >= deadline).

   The lifecycle calls are steps of the history, in the order the loop makes them (observed; the event queue decides
   when), and the model says what each does to the flags and to the manager:
     MStop t     Mode.stop():   not active or already stopping -> nothing;  else stopping := True, delay.clear()
     MStopped t  Mode._stopped() (the mode_<m>_stopping queue is done): active := False, stopping := False,
                 _cleanup_pending := True
     MWoundUp t  Mode._mode_stopped_callback() (after the mode_<m>_stopped handlers): nothing unless
                 _cleanup_pending; then _cleanup_pending := False, devices/handlers removed, delay.clear()
     MStart t    Mode.start(): active or starting -> nothing; else _starting := True and, if a stop has not wound up yet
                 (restart from a mode_<m>_stopped handler), _mode_stopped_callback() first
     MStarted t  Mode._started(): active := True, _starting := False
   Log: EMode 1 t directly after the clear() of an effective stop request, EMode 3 t directly after the clear() of the
   wind-up, EMode 0/2/4/5 for the others, then EMode (16 + flags) t and EDict (keys of mode.delay.delays). *)
From Common Require Import Prelude.
From C13 Require Import Model.
Open Scope Z_scope.

Record mode := mkM { m_active : bool; m_stopping : bool; m_starting : bool; m_cleanup : bool }.

Inductive mstep :=
| MOps (t : Z) (ops : list op)
| MCtl (t ms : Z)                    (* a DELAYED device control event of the mode is posted (config `<x>_events: {ev: ms}`) *)
| MFire (u t : Z)
| MStart (t : Z) | MStarted (t : Z) | MStop (t : Z) | MStopped (t : Z) | MWoundUp (t : Z).

Definition with_now (t : Z) (st : state) : state := mkS t (next st) (dict st) (timers st) (log st).

Definition b2z (b : bool) : Z := if b then 1 else 0.
Definition flags_code (m : mode) : Z :=
  16 + b2z (m_active m) + 2 * b2z (m_stopping m) + 4 * b2z (m_starting m) + 8 * b2z (m_cleanup m).

(* self.delay.clear() made by the lifecycle, followed by its marker *)
Definition clear_as (code t : Z) (st : state) : state := emit (EMode code t) (do_clear st).

Definition life (s : mstep) (t : Z) (m : mode) (st : state) : mode * state :=
  match s with
  | MStop _ =>
      if m_active m && negb (m_stopping m)
      then (mkM true true (m_starting m) (m_cleanup m), clear_as 1 t st)
      else (m, emit (EMode 0 t) st)
  | MStopped _ => (mkM false false (m_starting m) true, emit (EMode 2 t) st)
  | MWoundUp _ =>
      if m_cleanup m
      then (mkM (m_active m) (m_stopping m) (m_starting m) false, clear_as 3 t st)
      else (m, emit (EMode 0 t) st)
  | MStart _ =>
      if m_active m || m_starting m then (m, emit (EMode 0 t) st)
      else (mkM false (m_stopping m) true false,
            emit (EMode 4 t) (if m_cleanup m then clear_as 3 t st else st))
  | MStarted _ => (mkM true (m_stopping m) false (m_cleanup m), emit (EMode 5 t) st)
  | _ => (m, st)
  end.

(* the handlers of the mode's device control events are registered by start() (_setup_device_control_events) and removed
   by the wind-up (_remove_mode_event_handlers) *)
Definition registered (m : mode) : bool := m_active m || m_starting m || m_cleanup m.
(* Mode._control_event_handler: self.delay.add(ms=ms_delay, callback=<device method>): an anonymous delay of the MODE's
   manager (callback id -2: no script, the device method) *)
Definition ctl_ops (m : mode) (ms : Z) : list op := if registered m then [Add ms (-1) (-2) []] else [].

Definition is_life (s : mstep) : option Z :=
  match s with
  | MStart t | MStarted t | MStop t | MStopped t | MWoundUp t => Some t
  | _ => None
  end.

Definition m_step (scripts : list (list op)) (ms : mode * state) (s : mstep) : mode * state :=
  let (m, st) := ms in
  match s with
  | MOps t ops => (m, do_step false scripts st (Ext t ops))
  | MCtl t ms => (m, do_step false scripts st (Ext t (ctl_ops m ms)))
  | MFire u t => (m, do_step false scripts st (FireAt u t))
  | _ =>
      match is_life s with
      | Some t =>
          if ext_ok t st then
            let (m1, st1) := life s t m (with_now t st) in
            (m1, emit (EDict (map e_name (dict st1))) (emit (EMode (flags_code m1) t) st1))
          else (m, emit (EReject 3) st)
      | None => (m, st)
      end
  end.

Definition m_run (scripts : list (list op)) (m0 : mode) (steps : list mstep) : mode * state :=
  fold_left (m_step scripts) steps (m0, init).

Definition m_trace (scripts : list (list op)) (m0 : mode) (steps : list mstep) : list ev :=
  rev (log (snd (m_run scripts m0 steps))).

(* correspondence interface: input (scripts, initial flags, steps), output the event list *)
Definition owner_run (i : list (list op) * mode * list mstep) : list ev :=
  let '(scripts, m0, steps) := i in m_trace scripts m0 steps.
Definition owner_out_eqb : list ev -> list ev -> bool := delay_out_eqb.
