(* C13/Timer.v — executable model of the tick/complete core of mpf/devices/timer.py (timer device), on top of
   the PeriodicTask behaviour proved in Lemmas.v (k-th tick at base + k*interval) and of one named delay
   ('pause') of the timer's private DelayManager (add replaces, remove deletes, fires once: Props.v).
   Definitions only.

   State: running, ticks, tick interval (us), the system timer (Some (base, n): next tick due at base + n*ival),
   the pending 'pause' delay (its deadline), virtual now, event log (newest first).
   [c_legacy c = true] is the code before fixes/C13-timer-pause-supersedes.patch (pause() leaves a pending timed
   pause in place).

   As in Model.v the loop's choice is an input: steps are [TExt t a] (control event a handled at time t),
   [TFireTick] (the loop runs the system timer), [TFirePause] (the loop runs the 'pause' delay -> start()). *)
From Common Require Import Prelude.
From C13 Require Import Model.
Open Scope Z_scope.

Record tcfg := mkC { c_start : Z; c_end : option Z; c_max : Z (* 0: none *); c_down : bool; c_ival : Z;
                     c_roc : bool; c_legacy : bool }.

Inductive tev :=
| TStarted (t k : Z) | TStopped (t k : Z) | TPaused (t k : Z) | TComplete (t k : Z)
| TTick (t k : Z) (r : bool)            (* timer_<n>_tick with ticks=k; r: timer.running *)
| TAdded (t k : Z) | TSubtracted (t k : Z)
| TState (t : Z) (running : bool) (k : Z) (has_pause has_sys : bool) (pause_due : Z)
| TDue (d : Z)                          (* late dispatch: the scheduled-for instant of the tick being run *)
| TOof | TReject (code : Z).

(* [dm]: the timer's private DelayManager (self.delay = DelayManager(machine)) as an instance of the full delay model
   of Model.v: table, live loop handles, event log.  Its only delay is 'pause' (name PAUSE, callback id 0 = self.start).
   [pause] is the deadline of that delay as the timer lemmas use it; that it IS the deadline of the live handle named
   PAUSE in [dm], and that [dm] satisfies the invariant behind all delay_* theorems, is proved (TimerLemmas.v,
   timer_pause_is_delay), not assumed.  What the model reports about the pause delay (TState) is read from [dm]. *)
Record tst := mkTS { running : bool; ticks : Z; ival : Z; sys : option (Z * Z); pause : option Z; dm : state;
                     tnow : Z; tlog : list tev }.
Definition PAUSE : Z := 0.

Inductive taction :=
| AStart | AStop | APause (ms : Z) | AAdd (v : Z) | ASub (v : Z) | AJump (v : Z) | AReset | ARestart
| AChange (num den : Z) | ASetIval (us : Z) | AResetIval | ANop.

Definition post (e : tev) (st : tst) : tst :=
  mkTS (running st) (ticks st) (ival st) (sys st) (pause st) (dm st) (tnow st) (e :: tlog st).
Definition set_running (b : bool) (st : tst) : tst :=
  mkTS b (ticks st) (ival st) (sys st) (pause st) (dm st) (tnow st) (tlog st).
Definition set_ticks (k : Z) (st : tst) : tst :=
  mkTS (running st) k (ival st) (sys st) (pause st) (dm st) (tnow st) (tlog st).
Definition set_ival (i : Z) (st : tst) : tst :=
  mkTS (running st) (ticks st) i (sys st) (pause st) (dm st) (tnow st) (tlog st).
Definition set_sys (s : option (Z * Z)) (st : tst) : tst :=
  mkTS (running st) (ticks st) (ival st) s (pause st) (dm st) (tnow st) (tlog st).
Definition set_pause (p : option Z) (st : tst) : tst :=
  mkTS (running st) (ticks st) (ival st) (sys st) p (dm st) (tnow st) (tlog st).
Definition set_dm (d : state) (st : tst) : tst :=
  mkTS (running st) (ticks st) (ival st) (sys st) (pause st) d (tnow st) (tlog st).
Definition set_now (t : Z) (st : tst) : tst :=
  mkTS (running st) (ticks st) (ival st) (sys st) (pause st) (dm st) t (tlog st).

(* the private manager at the timer's present instant *)
Definition sync (st : tst) : state :=
  mkS (tnow st) (next (dm st)) (dict (dm st)) (timers (dm st)) (log (dm st)).
(* self.delay.remove('pause') *)
Definition pause_remove (st : tst) : tst := set_dm (do_remove PAUSE (sync st)) (set_pause None st).
(* self.delay.add(name='pause', ms=ms, callback=self.start) *)
Definition pause_add (ms : Z) (st : tst) : tst :=
  set_dm (do_add ms PAUSE 0 [] (sync st)) (set_pause (Some (tnow st + 1000 * ms)) st).
(* the loop runs the 'pause' delay: DelayManager._process_delay_callback deletes the entry and calls self.start (the
   body of the callback belongs to the timer, so the manager's view of it is just the call event) *)
Definition call_rec : callfn := fun u cb kw rn s => emit (ECall (now s) u cb kw rn) s.
Definition pause_id (st : tst) : Z :=
  match find (name_is PAUSE) (timers (dm st)) with Some tm => t_id tm | None => -1 end.
Definition pause_fired (d : Z) (st : tst) : tst :=
  set_dm (fire call_rec (pause_id st) (sync st)) (set_pause None (set_now d st)).
Definition pause_due (st : tst) : Z :=
  match find (name_is PAUSE) (timers (dm st)) with Some tm => t_when tm | None => -1 end.

Definition done_at (c : tcfg) (k : Z) : bool :=
  match c_end c with
  | Some e => if c_down c then k <=? e else e <=? k
  | None => false
  end.
Definition is_done (c : tcfg) (st : tst) : bool := done_at c (ticks st).

Definition cap (c : tcfg) (k : Z) : Z := if negb (c_max c =? 0) && (c_max c <? k) then c_max c else k.

(* _create_system_timer: _remove_system_timer + schedule_interval(_timer_tick, tick_secs) *)
Definition create_sys (st : tst) : tst := set_sys (Some (tnow st, 1)) st.

(* stop(): delay.remove('pause'); running = False; _remove_system_timer(); post stopped *)
Definition do_stop (st : tst) : tst :=
  let st1 := set_sys None (set_running false (pause_remove st)) in
  post (TStopped (tnow st1) (ticks st1)) st1.

Definition cdfn := tst -> tst * bool.     (* _check_for_done of lower nesting *)

(* _post_tick_events *)
Definition post_tick_with (cd : cdfn) (st : tst) : tst :=
  let (st1, d) := cd st in
  if d then st1 else post (TTick (tnow st1) (ticks st1) (running st1)) st1.

(* start() *)
Definition start_with (cd : cdfn) (st : tst) : tst :=
  if running st then st else
  let (st1, d) := cd st in
  if d then st1 else
  let st2 := create_sys (pause_remove (set_running true st1)) in
  post_tick_with cd (post (TStarted (tnow st2) (ticks st2)) st2).

(* jump(v) *)
Definition jump_with (cd : cdfn) (c : tcfg) (v : Z) (st : tst) : tst :=
  fst (cd (create_sys (set_ticks (cap c v) st))).

(* restart(): reset(); start() if not running else _post_tick_events() *)
Definition restart_with (cd : cdfn) (c : tcfg) (st : tst) : tst :=
  let st1 := jump_with cd c (c_start c) st in
  if running st1 then post_tick_with cd st1 else start_with cd st1.

(* timer_complete(): stop(); post complete; restart() if restart_on_complete *)
Definition complete_with (cd : cdfn) (c : tcfg) (st : tst) : tst :=
  let st1 := do_stop st in
  let st2 := post (TComplete (tnow st1) (ticks st1)) st1 in
  if c_roc c then restart_with cd c st2 else st2.

(* _check_for_done *)
Fixpoint check_done (fuel : nat) (c : tcfg) (st : tst) : tst * bool :=
  if is_done c st then
    match fuel with
    | O => (post TOof st, true)
    | S f => (complete_with (check_done f c) c st, true)
    end
  else (st, false).

Definition FUEL : nat := 4%nat.
Definition cd0 (c : tcfg) : cdfn := check_done FUEL c.

(* pause(ms) *)
Definition do_pause (c : tcfg) (ms : Z) (st : tst) : tst :=
  let st0 := set_running false st in
  let st1 := if c_legacy c then st0 else pause_remove st0 in
  let st2 := set_sys None st1 in
  let st3 := post (TPaused (tnow st2) (ticks st2)) st2 in
  if 0 <? ms then pause_add ms st3 else st3.

Definition do_action (c : tcfg) (a : taction) (st : tst) : tst :=
  match a with
  | AStart => start_with (cd0 c) st
  | AStop => do_stop st
  | APause ms => do_pause c ms st
  | AAdd v =>
      let st1 := set_ticks (cap c (ticks st + v)) st in
      fst (cd0 c (post (TAdded (tnow st1) (ticks st1)) st1))
  | ASub v =>
      let st1 := set_ticks (ticks st - v) st in
      fst (cd0 c (post (TSubtracted (tnow st1) (ticks st1)) st1))
  | AJump v => jump_with (cd0 c) c v st
  | AReset => jump_with (cd0 c) c (c_start c) st
  | ARestart => restart_with (cd0 c) c st
  | AChange num den => create_sys (set_ival (ival st * num / den) st)
  | ASetIval us => create_sys (set_ival (Z.abs us) st)
  | AResetIval => create_sys (set_ival (c_ival c) st)
  | ANop => st
  end.

Definition sys_deadline (st : tst) : option Z :=
  match sys st with Some (b, n) => Some (b + n * ival st) | None => None end.

Definition le_opt (d : Z) (o : option Z) : bool := match o with Some x => d <=? x | None => true end.

(* the loop runs the system timer's _run: _last_call += interval; (not cancelled) _timer_tick(); _schedule() *)
Definition fire_tick (c : tcfg) (st : tst) : tst :=
  match sys st with
  | None => post (TReject 1) st
  | Some (b, n) =>
      let d := b + n * ival st in
      if (tnow st <=? d) && le_opt d (pause st) then
        let st1 := set_sys (Some (b, n + 1)) (set_now d st) in
        if running st1
        then post_tick_with (cd0 c) (set_ticks (if c_down c then ticks st1 - 1 else ticks st1 + 1) st1)
        else set_sys None st1
      else post (TReject 2) st
  end.

(* the loop runs the 'pause' delay: entry deleted, then start() *)
Definition fire_pause (c : tcfg) (st : tst) : tst :=
  match pause st with
  | None => post (TReject 3) st
  | Some d =>
      if (tnow st <=? d) && le_opt d (sys_deadline st)
      then start_with (cd0 c) (pause_fired d st)
      else post (TReject 4) st
  end.

(* ---- a loop that dispatches late: the system timer's _run / the pause delay run at t >= their deadline d (several
   deadlines may be due at once; they run in deadline order).  PeriodicTask keeps its absolute base: the next tick is due
   at b + (n+1)*ival whatever t was (catch-up when that is already past); the pause delay is dispatched through the full
   delay model's [fire_at].  Everything the handlers do is stamped with the observed instant t. *)
Definition fire_tick_at (c : tcfg) (t : Z) (st : tst) : tst :=
  match sys st with
  | None => post (TReject 1) st
  | Some (b, n) =>
      let d := b + n * ival st in
      if (tnow st <=? t) && (d <=? t) && le_opt d (pause st) then
        let st1 := post (TDue d) (set_sys (Some (b, n + 1)) (set_now t st)) in
        if running st1
        then post_tick_with (cd0 c) (set_ticks (if c_down c then ticks st1 - 1 else ticks st1 + 1) st1)
        else set_sys None st1
      else post (TReject 2) st
  end.

Definition pause_fired_at (t : Z) (st : tst) : tst :=
  set_dm (fire_at call_rec (pause_id st) t (sync st)) (set_pause None (set_now t st)).

Definition fire_pause_at (c : tcfg) (t : Z) (st : tst) : tst :=
  match pause st with
  | None => post (TReject 3) st
  | Some d =>
      if (tnow st <=? t) && (d <=? t) && le_opt d (sys_deadline st)
      then start_with (cd0 c) (pause_fired_at t st)
      else post (TReject 4) st
  end.

Inductive tstep := TExt (t : Z) (a : taction) | TFireTick | TFirePause | TFireTickAt (t : Z) | TFirePauseAt (t : Z).

Definition text_ok (t : Z) (st : tst) : bool :=
  (tnow st <=? t) && le_opt t (sys_deadline st) && le_opt t (pause st).

Definition isSome {A} (o : option A) : bool := match o with Some _ => true | None => false end.

Definition do_tstep (c : tcfg) (st : tst) (s : tstep) : tst :=
  match s with
  | TExt t a =>
      if text_ok t st
      then let st1 := do_action c a (set_now t st) in
           post (TState t (running st1) (ticks st1) (check (dm st1) PAUSE) (isSome (sys st1)) (pause_due st1)) st1
      else post (TReject 5) st
  | TFireTick => fire_tick c st
  | TFirePause => fire_pause c st
  | TFireTickAt t => fire_tick_at c t st
  | TFirePauseAt t => fire_pause_at c t st
  end.

Definition tinit (c : tcfg) : tst := mkTS false (cap c (c_start c)) (c_ival c) None None init 0 [].
Definition trun (c : tcfg) (steps : list tstep) (st : tst) : tst := fold_left (do_tstep c) steps st.
Definition ttrace (c : tcfg) (steps : list tstep) : list tev := rev (tlog (trun c steps (tinit c))).

(* ---- correspondence interface ---- *)
Definition tev_eqb (a b : tev) : bool :=
  match a, b with
  | TStarted t k, TStarted t' k' | TStopped t k, TStopped t' k' | TPaused t k, TPaused t' k'
  | TComplete t k, TComplete t' k' | TAdded t k, TAdded t' k' | TSubtracted t k, TSubtracted t' k' =>
      (t =? t') && (k =? k')
  | TTick t k r, TTick t' k' r' => (t =? t') && (k =? k') && Bool.eqb r r'
  | TState t r k p s d, TState t' r' k' p' s' d' =>
      (t =? t') && Bool.eqb r r' && (k =? k') && Bool.eqb p p' && Bool.eqb s s' && (d =? d')
  | TOof, TOof => true
  | TDue x, TDue y => x =? y
  | TReject x, TReject y => x =? y
  | _, _ => false
  end.
Definition timer_run (i : tcfg * list tstep) : list tev := ttrace (fst i) (snd i).
Definition timer_out_eqb : list tev -> list tev -> bool := list_eqb tev_eqb.
