(* C10/Model.v — executable model of MPF's switch-to-coil hardware rules.

   Code modelled (see NOTES.md):
     mpf/devices/flipper.py      enable / disable / sw_flip / sw_release / _ball_search
     mpf/devices/autofire.py     enable / disable / _hit (timeout protection) / _ball_search
     mpf/devices/kickback.py     (an AutofireCoil)
     mpf/core/platform_controller.py   set_*_rule, clear_hw_rule, PSU switch handler,
                                       SoftwareEosRepulseManager  (WITH fixes/C10-eos-repulse-stop-disables-coil.patch)
     mpf/platforms/virtual.py    rules dict with the overwrite assertion, VirtualDriver.state
   Default control-event wiring comes from gen/Wiring.v, which harness/props/c10.py translate()
   regenerates from mpf/config_spec.yaml on every run.

   Time is in integer milliseconds.  Definitions only. *)
From Common Require Import Prelude.
From C10.gen Require Import Wiring.
Open Scope Z_scope.

Definition bytes := list Z.
Definition key := (Z * Z)%type.                 (* (hw switch, hw driver) *)
Definition key_eqb (a b : key) : bool := (fst a =? fst b) && (snd a =? snd b).

Inductive kind := KFlip | KAuto | KKick.

(* rule kinds (the strings of virtual.py's rules dict):
   0 pulse_on_hit   1 pulse_on_hit_and_enable_and_release   2 pulse_on_hit_and_release
   3 pulse_on_hit_and_release_and_disable   4 pulse_on_hit_and_enable_and_release_and_disable
   5 delayed_pulse_on_hit (stub added by the harness: virtual.py has no delayed rule) *)

Record dcfg := mkD {
  d_kind : kind;
  d_sw : option Z;          (* flipper: activation_switch; autofire/kickback: switch *)
  d_coil : Z;               (* flipper: main_coil; autofire/kickback: coil *)
  d_hold : option Z;        (* flipper: hold_coil *)
  d_eos : option Z;         (* flipper: eos_switch *)
  d_use_eos : bool;
  d_repulse : bool;         (* repulse_on_eos_open *)
  d_debounce : Z;           (* eos_active_ms_before_repulse *)
  d_bs : bool;              (* registered with the playfield's ball search *)
  d_bs_hold : Z;            (* ball_search_hold_time *)
  d_delay : Z;              (* coil_pulse_delay *)
  d_watch : Z;              (* timeout_watch_time (ms as configured) *)
  d_maxhits : Z;
  d_distime : Z;            (* timeout_disable_time *)
  d_en_ev : option (list bytes);     (* None = default of config_spec.yaml *)
  d_dis_ev : option (list bytes);
  d_flip_ev : list bytes;
  d_rel_ev : list bytes
}.

Definition dflt_cfg : dcfg :=
  mkD KFlip None 0 None None false false 0 false 0 0 0 0 0 (Some []) (Some []) [] [].

Definition is_some {A} (o : option A) : bool := match o with Some _ => true | None => false end.

Definition rule := (list key * Z)%type.        (* keys written into the platform, rule kind *)

(* what enable() of the device asks the platform controller to install, in call order *)
Definition rules_of (c : dcfg) : list rule :=
  match d_kind c with
  | KFlip =>
      match d_sw c with
      | None => []
      | Some a =>
          (if d_use_eos c then
             match d_eos c with
             | Some e => [([(a, d_coil c); (e, d_coil c)], if is_some (d_hold c) then 3 else 4)]
             | None => []
             end
           else [([(a, d_coil c)], if is_some (d_hold c) then 2 else 1)])
          ++ match d_hold c with Some h => [([(a, h)], 1)] | None => [] end
      end
  | _ => match d_sw c with
         | Some s => [([(s, d_coil c)], if d_delay c =? 0 then 0 else 5)]
         | None => []
         end
  end.

Definition entries_of_rule (r : rule) : list (key * Z) := map (fun k => (k, snd r)) (fst r).
Definition entries (rs : list rule) : list (key * Z) := flat_map entries_of_rule rs.
Definition entries_of (c : dcfg) : list (key * Z) := entries (rules_of c).
Definition keys_of (c : dcfg) : list key := map fst (entries_of c).

Definition has_mgr (c : dcfg) : bool :=
  match d_kind c with
  | KFlip => is_some (d_sw c) && d_use_eos c && is_some (d_eos c) && d_repulse c
  | _ => false
  end.

Definition is_flip (c : dcfg) : bool := match d_kind c with KFlip => true | _ => false end.

Definition en_events (c : dcfg) : list bytes :=
  match d_en_ev c with
  | Some l => l
  | None => match d_kind c with
            | KFlip => flipper_enable_events | KAuto => autofire_enable_events | KKick => kickback_enable_events
            end
  end.
Definition dis_events (c : dcfg) : list bytes :=
  match d_dis_ev c with
  | Some l => l
  | None => match d_kind c with
            | KFlip => flipper_disable_events | KAuto => autofire_disable_events | KKick => kickback_disable_events
            end
  end.

(* ------------------------------------------------------------------------------------------ *)
(* state *)

Record dstate := mkDS {
  enabled : bool;
  arules : list rule;                (* Flipper._active_rules / [AutofireCoil._rule] *)
  flipped : bool;                    (* Flipper._sw_flipped *)
  mgr : option (bool * bool);        (* software EOS repulse manager: (_button_is_active, _is_eos_closed_long_enough) *)
  hits : list Z                      (* AutofireCoil._timeout_hits *)
}.
Definition ds0 : dstate := mkDS false [] false None [].

Inductive tmr := TReenable (i : nat) | TRelease (i : nat) | TEosLong (i : nat).

Record state := mkS {
  tbl : list (key * Z);              (* VirtualHardwarePlatform.rules *)
  devs : list dstate;
  coils : list (Z * Z);              (* VirtualDriver.state: 0 disabled, 1 enabled, 2 pulsed *)
  sws : list (Z * (bool * Z));       (* switch -> (active, last_change) *)
  now : Z;
  timers : list (Z * tmr);           (* (deadline, what) *)
  err : bool;                        (* the overwrite assertion of virtual.py fired *)
  psu : list key;                    (* PSU-notification switch handlers of installed rules *)
  log : list (list Z)                (* platform calls of the current op: [dev;1;kind;keys..] / [dev;0;sw;coil] *)
}.

Definition w_tbl s v := mkS v (devs s) (coils s) (sws s) (now s) (timers s) (err s) (psu s) (log s).
Definition w_devs s v := mkS (tbl s) v (coils s) (sws s) (now s) (timers s) (err s) (psu s) (log s).
Definition w_coils s v := mkS (tbl s) (devs s) v (sws s) (now s) (timers s) (err s) (psu s) (log s).
Definition w_sws s v := mkS (tbl s) (devs s) (coils s) v (now s) (timers s) (err s) (psu s) (log s).
Definition w_now s v := mkS (tbl s) (devs s) (coils s) (sws s) v (timers s) (err s) (psu s) (log s).
Definition w_timers s v := mkS (tbl s) (devs s) (coils s) (sws s) (now s) v (err s) (psu s) (log s).
Definition w_err s v := mkS (tbl s) (devs s) (coils s) (sws s) (now s) (timers s) v (psu s) (log s).
Definition w_psu s v := mkS (tbl s) (devs s) (coils s) (sws s) (now s) (timers s) (err s) v (log s).
Definition w_log s v := mkS (tbl s) (devs s) (coils s) (sws s) (now s) (timers s) (err s) (psu s) v.

Fixpoint upd {A} (i : nat) (x : A) (l : list A) : list A :=
  match l, i with
  | [], _ => []
  | _ :: t, O => x :: t
  | h :: t, S j => h :: upd j x t
  end.

Definition dev (s : state) (i : nat) : dstate := nth i (devs s) ds0.
Definition w_dev (s : state) (i : nat) (d : dstate) : state := w_devs s (upd i d (devs s)).

Definition init (cfg : list dcfg) : state :=
  mkS [] (map (fun _ => ds0) cfg) [] [] 0 [] false [] [].

(* coils and switches: association lists with defaults *)
Fixpoint cget (c : Z) (l : list (Z * Z)) : Z :=
  match l with [] => 0 | (k, v) :: t => if k =? c then v else cget c t end.
Fixpoint cset (c v : Z) (l : list (Z * Z)) : list (Z * Z) :=
  match l with
  | [] => [(c, v)]
  | (k, x) :: t => if k =? c then (k, v) :: t else (k, x) :: cset c v t
  end.
Definition set_coil (s : state) (c v : Z) : state := w_coils s (cset c v (coils s)).
Definition set_ocoil (s : state) (c : option Z) (v : Z) : state :=
  match c with Some h => set_coil s h v | None => s end.

Definition never : Z := -100000000.             (* Switch.last_change = -100000 s *)
Fixpoint sget (w : Z) (l : list (Z * (bool * Z))) : bool * Z :=
  match l with [] => (false, never) | (k, v) :: t => if k =? w then v else sget w t end.
Fixpoint sset (w : Z) (v : bool * Z) (l : list (Z * (bool * Z))) :=
  match l with
  | [] => [(w, v)]
  | (k, x) :: t => if k =? w then (k, v) :: t else (k, x) :: sset w v t
  end.

(* the platform's rule table *)
Definition has_key (k : key) (t : list (key * Z)) : bool := existsb (fun e => key_eqb (fst e) k) t.
Definition tbl_del (k : key) (t : list (key * Z)) : list (key * Z) :=
  filter (fun e => negb (key_eqb (fst e) k)) t.

(* virtual.py set_*_rule: _assert_rule_does_not_exist, then write *)
Fixpoint install (es : list (key * Z)) (te : list (key * Z) * bool) : list (key * Z) * bool :=
  match es with
  | [] => te
  | (k, v) :: es' =>
      let t := fst te in
      install es' (if has_key k t then (tbl_del k t ++ [(k, v)], true) else (t ++ [(k, v)], snd te))
  end.
Fixpoint uninstall (ks : list key) (t : list (key * Z)) : list (key * Z) :=
  match ks with [] => t | k :: ks' => uninstall ks' (tbl_del k t) end.

Fixpoint remove_key (k : key) (l : list key) : list key :=
  match l with [] => [] | h :: t => if key_eqb h k then t else h :: remove_key k t end.

Definition rule_keys (rs : list rule) : list key := flat_map fst rs.
Definition flat_key (k : key) : list Z := [fst k; snd k].
Definition log_set (i : nat) (r : rule) : list Z := Z.of_nat i :: 1 :: snd r :: flat_map flat_key (fst r).
Definition log_clr (i : nat) (k : key) : list Z := [Z.of_nat i; 0; fst k; snd k].
Definition psu_keys (rs : list rule) : list key :=
  flat_map (fun r => match fst r with k :: _ => [k] | [] => [] end) rs.

Definition tmr_eqb (a b : tmr) : bool :=
  match a, b with
  | TReenable i, TReenable j | TRelease i, TRelease j | TEosLong i, TEosLong j => Nat.eqb i j
  | _, _ => false
  end.
Definition del_tmr (x : tmr) (l : list (Z * tmr)) : list (Z * tmr) :=
  filter (fun e => negb (tmr_eqb (snd e) x)) l.
Definition has_tmr (x : tmr) (l : list (Z * tmr)) : bool := existsb (fun e => tmr_eqb (snd e) x) l.
(* DelayManager.add with a name: an existing delay of that name is replaced *)
Definition add_tmr (t : Z) (x : tmr) (l : list (Z * tmr)) : list (Z * tmr) := del_tmr x l ++ [(t, x)].

(* ------------------------------------------------------------------------------------------ *)
(* device actions *)
Section WithCfg.
Variable cfg : list dcfg.
Definition cf (i : nat) : dcfg := nth i cfg dflt_cfg.

(* add_switch_handler_obj(eos, state=1, ms=debounce) while the switch is already active: catch-up entry.
   The comparison mixes seconds and milliseconds exactly like the code (last_change > now - ms). *)
Definition catchup (s : state) (i : nat) : list (Z * tmr) :=
  let c := cf i in
  match d_eos c with
  | Some e =>
      let '(act, lc) := sget e (sws s) in
      if negb (d_debounce c =? 0) && act && (now s - 1000 * d_debounce c <? lc)
      then [(lc + d_debounce c, TEosLong i)] else []
  | None => []
  end.

(* Flipper.enable / AutofireCoil.enable *)
Definition dev_enable (s : state) (i : nat) : state :=
  let c := cf i in let d := dev s i in
  if enabled d then s else
  let rs := rules_of c in
  let te := install (entries rs) (tbl s, err s) in
  let d' := mkDS true (if is_flip c then arules d ++ rs else rs) (flipped d)
                 (if has_mgr c then Some (false, false) else mgr d) (hits d) in
  let s1 := w_dev s i d' in
  let s2 := w_err (w_tbl s1 (fst te)) (snd te) in
  let s3 := w_psu s2 (psu s2 ++ psu_keys rs) in
  let s4 := if has_mgr c then w_timers s3 (timers s3 ++ catchup s i) else s3 in
  w_log s4 (log s4 ++ map (log_set i) rs).

(* Flipper.sw_release *)
Definition dev_release (s : state) (i : nat) : state :=
  let c := cf i in let d := dev s i in
  if is_flip c then
    let s1 := w_dev s i (mkDS (enabled d) (arules d) false (mgr d) (hits d)) in
    set_ocoil (set_coil s1 (d_coil c) 0) (d_hold c) 0
  else s.

(* Flipper.sw_flip *)
Definition dev_flip (s : state) (i : nat) : state :=
  let c := cf i in let d := dev s i in
  if is_flip c && enabled d then
    let s1 := w_dev s i (mkDS (enabled d) (arules d) true (mgr d) (hits d)) in
    match d_hold c with
    | Some h => set_coil (set_coil s1 (d_coil c) 2) h 1
    | None => set_coil s1 (d_coil c) 1
    end
  else s.

(* PlatformController.clear_hw_rule for every rule the device remembers, incl. SoftwareEosRepulseManager.stop()
   (fixed: a driver which may have been enabled by a repulse is disabled when the button is still active) *)
Definition clear_rules (s : state) (i : nat) (rs : list rule) : state :=
  let c := cf i in let d := dev s i in
  let s1 := w_tbl s (uninstall (rule_keys rs) (tbl s)) in
  let s2 := w_psu s1 (fold_left (fun l k => remove_key k l) (psu_keys rs) (psu s1)) in
  let s3 := w_log s2 (log s2 ++ map (log_clr i) (rule_keys rs)) in
  match mgr d with
  | Some (b, _) =>
      let s4 := w_timers s3 (del_tmr (TEosLong i) (timers s3)) in
      let s5 := w_dev s4 i (mkDS (enabled d) (arules d) (flipped d) None (hits d)) in
      if b then set_coil s5 (d_coil c) 0 else s5
  | None => s3
  end.

(* Flipper.disable / AutofireCoil.disable *)
Definition dev_disable (s : state) (i : nat) : state :=
  let c := cf i in
  if is_flip c then
    let d := dev s i in
    if enabled d then
      let s1 := clear_rules s i (arules d) in
      let s2 := if flipped d then dev_release s1 i else s1 in
      let d2 := dev s2 i in
      w_dev s2 i (mkDS false [] (flipped d2) (mgr d2) (hits d2))
    else s
  else
    let s0 := w_timers s (del_tmr (TReenable i) (timers s)) in
    let d := dev s0 i in
    if enabled d then
      let s1 := w_dev s0 i (mkDS false (arules d) (flipped d) (mgr d) (hits d)) in
      clear_rules s1 i (arules d)
    else s0.

(* AutofireCoil._hit (Kickback._hit only adds an event post) *)
Definition dev_hit (s : state) (i : nat) : state :=
  let c := cf i in let d := dev s i in
  if is_flip c then s else
  if negb (enabled d) then s else
  if d_watch c =? 0 then s else
  (* window: _timeout_watch_time (= ms/1000) is divided by 1000 once more in _hit, i.e. watch microseconds *)
  let hs := filter (fun t => now s * 1000 - d_watch c <? t * 1000) (hits d) ++ [now s] in
  let s1 := w_dev s i (mkDS (enabled d) (arules d) (flipped d) (mgr d) hs) in
  if d_maxhits c <=? Z.of_nat (length hs) then
    let s2 := dev_disable s1 i in
    w_timers s2 (add_tmr (now s2 + d_distime c) (TReenable i) (timers s2))
  else s1.

(* the registered ball search callback *)
Definition dev_bs (s : state) (i : nat) : state :=
  let c := cf i in
  if negb (d_bs c) then s else
  if is_flip c then
    let s1 := dev_flip s i in
    w_timers s1 (add_tmr (now s1 + d_bs_hold c) (TRelease i) (timers s1))
  else set_coil s (d_coil c) 2.

(* SoftwareEosRepulseManager handlers *)
Definition w_mgr (s : state) (i : nat) (m : option (bool * bool)) : state :=
  let d := dev s i in w_dev s i (mkDS (enabled d) (arules d) (flipped d) m (hits d)).

Definition mgr_button (s : state) (i : nat) (b : bool) : state :=
  match mgr (dev s i) with
  | Some (_, l) =>
      let s1 := w_mgr s i (Some (b, l)) in
      if b then s1 else set_coil s1 (d_coil (cf i)) 0
  | None => s
  end.

Definition mgr_eos_long (s : state) (i : nat) : state :=
  match mgr (dev s i) with
  | Some (b, _) => w_mgr s i (Some (b, true))
  | None => s
  end.

Definition mgr_eos_on (s : state) (i : nat) : state :=
  match mgr (dev s i) with
  | Some _ =>
      if d_debounce (cf i) =? 0 then mgr_eos_long s i
      else w_timers s (timers s ++ [(now s + d_debounce (cf i), TEosLong i)])
  | None => s
  end.

Definition mgr_eos_off (s : state) (i : nat) : state :=
  match mgr (dev s i) with
  | Some (true, true) =>
      let s1 := w_mgr s i (Some (true, false)) in
      (* driver settings with hold (single wound, kind 4): enable; otherwise pulse *)
      set_coil s1 (d_coil (cf i)) (if is_some (d_hold (cf i)) then 2 else 1)
  | _ => s
  end.

Definition oeqb (o : option Z) (w : Z) : bool := match o with Some x => x =? w | None => false end.

(* switch_controller.process_switch_obj: new state, timed handlers of that switch are cancelled *)
Definition set_sw (s : state) (w : Z) (b : bool) : state :=
  let s1 := w_sws s (sset w (b, now s) (sws s)) in
  w_timers s1 (filter (fun e => match snd e with
                                | TEosLong j => negb (oeqb (d_eos (cf j)) w)
                                | _ => true
                                end) (timers s1)).

Definition fire (s : state) (x : tmr) : state :=
  if has_tmr x (timers s) then
    let s1 := w_timers s (del_tmr x (timers s)) in
    match x with
    | TReenable i => dev_enable s1 i
    | TRelease i => dev_release s1 i
    | TEosLong i => mgr_eos_long s1 i
    end
  else s.

Inductive act :=
| AEnable (i : nat) | ADisable (i : nat) | AFlip (i : nat) | ARelease (i : nat) | AHit (i : nat) | ABs (i : nat)
| AButton (i : nat) (b : bool) | AEosOn (i : nat) | AEosOff (i : nat)
| ASetSw (w : Z) (b : bool) | ASetNow (t : Z) | AFire (x : tmr).

Definition do_act (s : state) (a : act) : state :=
  match a with
  | AEnable i => dev_enable s i
  | ADisable i => dev_disable s i
  | AFlip i => dev_flip s i
  | ARelease i => dev_release s i
  | AHit i => dev_hit s i
  | ABs i => dev_bs s i
  | AButton i b => mgr_button s i b
  | AEosOn i => mgr_eos_on s i
  | AEosOff i => mgr_eos_off s i
  | ASetSw w b => set_sw s w b
  | ASetNow t => w_now s (Z.max (now s) t)
  | AFire x => fire s x
  end.

Definition run_acts (s : state) (l : list act) : state := fold_left do_act l s.

(* ------------------------------------------------------------------------------------------ *)
(* operations *)
Inductive op :=
| Enable (i : nat) | Disable (i : nat) | SwFlip (i : nat) | SwRelease (i : nat) | BallSearch (i : nat)
| Ev (e : bytes) | SwOn (w : Z) | SwOff (w : Z) | Advance (secs : Z) | AdvanceMs (ms : Z).

Definition ids : list nat := seq 0 (length cfg).
Definition sel (p : dcfg -> bool) (f : nat -> act) : list act :=
  map f (filter (fun i => p (cf i)) ids).
Definition mem (e : bytes) (l : list bytes) : bool := existsb (zs_eqb e) l.

(* timers in firing order *)
Fixpoint ins_tmr (e : Z * tmr) (l : list (Z * tmr)) : list (Z * tmr) :=
  match l with
  | [] => [e]
  | h :: t => if fst e <=? fst h then e :: l else h :: ins_tmr e t
  end.
Definition sort_tmr (l : list (Z * tmr)) : list (Z * tmr) := fold_right ins_tmr [] l.
Definition due_acts (s : state) (target : Z) : list act :=
  flat_map (fun e => [ASetNow (fst e); AFire (snd e)])
           (sort_tmr (filter (fun e => fst e <=? target) (timers s)))
  ++ [ASetNow target].

(* event handlers run in priority order: disable 10, sw_flip 6, sw_release 5, enable 1 *)
Definition acts_of (s : state) (o : op) : list act :=
  match o with
  | Enable i => [AEnable i]
  | Disable i => [ADisable i]
  | SwFlip i => [AFlip i]
  | SwRelease i => [ARelease i]
  | BallSearch i => [ABs i]
  | Ev e =>
      sel (fun c => mem e (dis_events c)) ADisable ++
      sel (fun c => is_flip c && mem e (d_flip_ev c)) AFlip ++
      sel (fun c => is_flip c && mem e (d_rel_ev c)) ARelease ++
      sel (fun c => mem e (en_events c)) AEnable
  | SwOn w =>
      if fst (sget w (sws s)) then [] else
      ASetSw w true ::
      sel (fun c => negb (is_flip c) && oeqb (d_sw c) w) AHit ++
      sel (fun c => is_flip c && oeqb (d_sw c) w) (fun i => AButton i true) ++
      sel (fun c => is_flip c && oeqb (d_eos c) w) AEosOn
  | SwOff w =>
      if fst (sget w (sws s)) then
        ASetSw w false ::
        sel (fun c => is_flip c && oeqb (d_sw c) w) (fun i => AButton i false) ++
        sel (fun c => is_flip c && oeqb (d_eos c) w) AEosOff
      else []
  | Advance n => due_acts s (now s + 1000 * n)
  | AdvanceMs n => due_acts s (now s + n)
  end.

Definition step (s : state) (o : op) : state :=
  let s0 := w_log s [] in
  let s1 := run_acts s0 (acts_of s0 o) in
  run_acts s1 (due_acts s1 (now s1)).

Definition run_ops (s : state) (l : list op) : state := fold_left step l s.

(* ------------------------------------------------------------------------------------------ *)
(* observation after every op *)
Definition key_ltb (a b : key) : bool := (fst a <? fst b) || ((fst a =? fst b) && (snd a <? snd b)).
Fixpoint ins_e (e : key * Z) (l : list (key * Z)) : list (key * Z) :=
  match l with
  | [] => [e]
  | h :: t => if key_ltb (fst e) (fst h) then e :: l else h :: ins_e e t
  end.
Fixpoint ins_k (e : key) (l : list key) : list key :=
  match l with
  | [] => [e]
  | h :: t => if key_ltb e h then e :: l else h :: ins_k e t
  end.
Fixpoint ins_log (e : list Z) (l : list (list Z)) : list (list Z) :=
  match l with
  | [] => [e]
  | h :: t => if hd 0 e <=? hd 0 h then e :: l else h :: ins_log e t
  end.
Definition b2z (b : bool) : Z := if b then 1 else 0.
Definition all_coils : list Z :=
  flat_map (fun c => d_coil c :: match d_hold c with Some h => [h] | None => [] end) cfg.

Definition obs (s : state) : list (list Z) * list (list Z) :=
  ([ flat_map (fun e => [fst (fst e); snd (fst e); snd e]) (fold_right ins_e [] (tbl s));
     map (fun d => b2z (enabled d)) (devs s);
     map (fun c => cget c (coils s)) all_coils;
     flat_map flat_key (fold_right ins_k [] (psu s));
     map (fun d => match mgr d with None => 0 | Some (b, l) => 1 + b2z b + 2 * b2z l end) (devs s);
     map (fun d => b2z (flipped d)) (devs s);
     map (fun i => b2z (has_tmr (TReenable i) (timers s))) ids;
     [b2z (err s)] ],
   (* stable by device: the order of calls of one device is kept *)
   fold_right ins_log [] (log s)).

Fixpoint trace (s : state) (l : list op) : list (list (list Z) * list (list Z)) :=
  match l with
  | [] => []
  | o :: l' => let s' := step s o in obs s' :: trace s' l'
  end.

End WithCfg.

Definition c10_run (inp : list dcfg * list op) := trace (fst inp) (init (fst inp)) (snd inp).

(* Platforms like FAST / OPP write a rule over an existing one without complaint; virtual.py asserts.  The rule table
   is the same function of the calls on both ([install] computes the overwritten table and, separately, the flag);
   an overwriting platform just never raises.  [ow = true]: the harness switched the assertion off. *)
Definition mask_err (ow : bool) (o : list (list Z) * list (list Z)) : list (list Z) * list (list Z) :=
  if ow then (firstn 7 (fst o) ++ [[0]], snd o) else o.
Definition c10_run_p (inp : (bool * list dcfg) * list op) :=
  map (mask_err (fst (fst inp))) (c10_run (snd (fst inp), snd inp)).
Definition obs_eqb (a b : list (list Z) * list (list Z)) : bool :=
  zss_eqb (fst a) (fst b) && zss_eqb (snd a) (snd b).
Definition c10_out_eqb := list_eqb obs_eqb.
