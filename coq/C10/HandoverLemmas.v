(* C10/HandoverLemmas.v — devices that SHARE (switch, coil) keys (normal / weak flipper on one button and coil, swapped
   by one event): the rule table still equals the rules of the enabled devices and nothing is overwritten, because
   the event_disable handlers (priority 10) of an event run before its event_enable handlers (priority 1). *)
From Common Require Import Prelude.
From C10.gen Require Import Wiring.
From C10 Require Import Model Lemmas AuxLemmas.
Open Scope Z_scope.

Section Swap.
Variable cfg : list dcfg.
Hypothesis W1 : forall i, NoDup (keys_of (cf cfg i)).

Definition shares (i j : nat) : Prop := exists k, In k (keys_of (cf cfg i)) /\ In k (keys_of (cf cfg j)).

(* devices that share a key are flippers (no timeout re-enable) and every event that enables one of them disables the
   other and does not enable it *)
Definition swap_safe : Prop :=
  forall i j, i <> j -> (i < length cfg)%nat -> (j < length cfg)%nat -> shares i j ->
    is_flip (cf cfg i) = true /\
    forall e, mem e (en_events (cf cfg i)) = true ->
              mem e (dis_events (cf cfg j)) = true /\ mem e (en_events (cf cfg j)) = false.
Hypothesis SS : swap_safe.

(* a direct enable() call (not through an event) only for a device that shares nothing *)
Definition op_ok (o : op) : Prop :=
  match o with
  | Enable i => forall j, j <> i -> (j < length cfg)%nat -> disj cfg i j
  | _ => True
  end.

Lemma keys_out_of_range i : (length cfg <= i)%nat -> keys_of (cf cfg i) = [].
Proof. intros H. rewrite cf_overflow by exact H. reflexivity. Qed.

Lemma nonflip_compat s i : is_flip (cf cfg i) = false -> compat cfg s i.
Proof.
  intros F j NE Lj _ k K1 K2. destruct (Nat.lt_ge_cases i (length cfg)) as [Li|Li].
  - destruct (SS i j (not_eq_sym NE) Li Lj) as [X _]; [exists k; auto | congruence].
  - rewrite keys_out_of_range in K1 by exact Li. exact K1.
Qed.

Lemma acts_ok_app a : forall s b, acts_ok cfg s (a ++ b) <-> acts_ok cfg s a /\ acts_ok cfg (run_acts cfg s a) b.
Proof.
  induction a as [|x a IH]; intros s b; cbn [app acts_ok run_acts fold_left]; [tauto|].
  rewrite IH. unfold run_acts. tauto.
Qed.

(* lists without enable actions (timers may fire: a timeout re-enable belongs to an autofire, which shares nothing) *)
Lemma noenable_acts_ok l : forall s, Inv cfg s -> (forall i, ~ In (AEnable i) l) -> acts_ok cfg s l.
Proof.
  induction l as [|a l IH]; intros s I N; cbn [acts_ok]; [exact Logic.I|].
  assert (A : act_ok cfg s a).
  { destruct a; cbn; auto.
    - exfalso. eapply N. left; reflexivity.
    - destruct x; auto. intros H. apply nonflip_compat. apply (inv_tmr _ _ I), H. }
  split; [exact A|]. apply IH; [apply g_inv_act; assumption|].
  intros i H. eapply N. right. exact H.
Qed.

(* enabled flags of other devices *)
Lemma en_enable_other s i j : j <> i -> en (dev_enable cfg s i) j = en s j.
Proof.
  intros NE. destruct (enabled (dev s i)) eqn:E.
  - unfold dev_enable. rewrite E. reflexivity.
  - destruct (dev_enable_proj cfg s i E) as (_ & _ & PD & _). unfold en, dev. rewrite PD, nth_upd.
    apply Nat.eqb_neq in NE. rewrite NE. reflexivity.
Qed.

Lemma en_disable_self s j : Inv cfg s -> en (dev_disable cfg s j) j = false.
Proof.
  intros I. destruct (en s j) eqn:E.
  - destruct (disable_disabled_from cfg s j I E) as (_ & _ & _ & X & _). exact X.
  - unfold en in *. unfold dev_disable. destruct (is_flip (cf cfg j)); [rewrite E; exact E|].
    set (s0 := w_timers s (del_tmr (TReenable j) (timers s))).
    assert (D0 : dev s0 j = dev s j) by reflexivity. rewrite D0, E. exact E.
Qed.

Lemma frame_en s s' j : frame s s' -> en s' j = en s j.
Proof. intros (_ & _ & _ & F & _). unfold en. apply F. Qed.

Lemma en_false_act s j a :
  Inv cfg s -> en s j = false -> a <> AEnable j -> (forall x, a <> AFire x) -> en (do_act cfg s a) j = false.
Proof.
  intros I E N1 N2. destruct a; cbn [do_act].
  - rewrite en_enable_other; [exact E | congruence].
  - destruct (Nat.eq_dec i j) as [->|NE]; [apply en_disable_self, I|].
    unfold en. rewrite dev_disable_other by (intros X; apply NE; auto). exact E.
  - rewrite (frame_en _ _ j (frame_flip cfg s i)). exact E.
  - rewrite (frame_en _ _ j (frame_release cfg s i)). exact E.
  - (* hit *)
    unfold dev_hit. destruct (is_flip (cf cfg i)); [exact E|].
    destruct (enabled (dev s i)) eqn:EN; cbn [negb]; [|exact E].
    destruct (d_watch (cf cfg i) =? 0); [exact E|].
    match goal with |- context [w_dev s i ?d] => set (s1 := w_dev s i d) end.
    assert (NE : j <> i) by (intros ->; unfold en in E; congruence).
    assert (E1 : en s1 j = false) by (unfold en, s1; rewrite dev_w_dev_other by exact NE; exact E).
    destruct (d_maxhits (cf cfg i) <=? _); [|exact E1].
    match goal with |- en (w_timers ?a ?b) j = false => change (en a j = false) end.
    unfold en. rewrite dev_disable_other by exact NE. exact E1.
  - rewrite (frame_en _ _ j (frame_bs cfg s i)). exact E.
  - rewrite (frame_en _ _ j (frame_button cfg s i b)). exact E.
  - rewrite (frame_en _ _ j (frame_eos_on cfg s i)). exact E.
  - rewrite (frame_en _ _ j (frame_eos_off cfg s i)). exact E.
  - rewrite (frame_en _ _ j (frame_set_sw cfg s w b)). exact E.
  - exact E.
  - exfalso. eapply N2. reflexivity.
Qed.

Lemma en_false_acts l j : forall s,
  Inv cfg s -> acts_ok cfg s l -> en s j = false -> ~ In (AEnable j) l -> (forall x, ~ In (AFire x) l) ->
  en (run_acts cfg s l) j = false.
Proof.
  induction l as [|a l IH]; intros s I A E N1 N2; cbn; [exact E|]. destruct A as [A1 A2].
  apply IH; [apply g_inv_act; assumption | exact A2 | | |].
  - apply en_false_act; auto; [intros -> | intros x ->]; [apply N1 | apply (N2 x)]; left; reflexivity.
  - intros H. apply N1. right. exact H.
  - intros x H. apply (N2 x). right. exact H.
Qed.

(* after a list that disables j and neither enables it nor fires timers, j is off *)
Lemma off_after_disable l j s :
  Inv cfg s -> acts_ok cfg s l -> In (ADisable j) l -> ~ In (AEnable j) l -> (forall x, ~ In (AFire x) l) ->
  en (run_acts cfg s l) j = false.
Proof.
  intros I A D N1 N2. apply in_split in D as (l1 & l2 & ->).
  apply acts_ok_app in A as [A1 A2]. cbn [acts_ok] in A2. destruct A2 as [_ A2].
  unfold run_acts. rewrite fold_left_app. cbn [fold_left]. fold (run_acts cfg s l1).
  assert (I1 : Inv cfg (run_acts cfg s l1)) by (apply g_inv_acts; assumption).
  apply en_false_acts.
  - apply g_inv_act; [exact W1 | exact I1 | exact Logic.I].
  - exact A2.
  - apply en_disable_self, I1.
  - intros H. apply N1. rewrite in_app_iff. right. right. exact H.
  - intros x H. apply (N2 x). rewrite in_app_iff. right. right. exact H.
Qed.

(* the enabling phase of an event *)
Definition off_for (e : bytes) (s : state) : Prop :=
  forall j, (j < length cfg)%nat -> mem e (dis_events (cf cfg j)) = true -> mem e (en_events (cf cfg j)) = false ->
            en s j = false.

Lemma enable_phase_ok e is : forall s,
  Inv cfg s -> off_for e s -> (forall i, In i is -> mem e (en_events (cf cfg i)) = true) ->
  acts_ok cfg s (map AEnable is).
Proof.
  induction is as [|i is IH]; intros s I O EN; cbn [map acts_ok]; [exact Logic.I|].
  assert (C : compat cfg s i).
  { intros j NE Lj Ej k K1 K2. destruct (Nat.lt_ge_cases i (length cfg)) as [Li|Li].
    - destruct (SS i j (not_eq_sym NE) Li Lj) as [_ X]; [exists k; auto|].
      destruct (X e (EN i (or_introl eq_refl))) as [X1 X2]. rewrite (O j Lj X1 X2) in Ej. discriminate.
    - rewrite keys_out_of_range in K1 by exact Li. exact K1. }
  split; [exact C|]. cbn [do_act]. apply IH.
  - apply g_inv_enable; assumption.
  - intros j Lj D E. rewrite en_enable_other; [apply O; assumption|].
    intros ->. rewrite (EN i (or_introl eq_refl)) in E. discriminate.
  - intros i' H. apply EN. right. exact H.
Qed.

Lemma in_sel_shape a p f : In a (sel cfg p f) -> exists j, a = f j.
Proof. intros H. apply in_sel in H as (j & E & _). exists j. exact E. Qed.

Lemma event_acts_ok s e : Inv cfg s -> acts_ok cfg s (acts_of cfg s (Ev e)).
Proof.
  intros I. cbn [acts_of].
  set (D := sel cfg (fun c => mem e (dis_events c)) ADisable).
  set (F := sel cfg (fun c => is_flip c && mem e (d_flip_ev c)) AFlip).
  set (R := sel cfg (fun c => is_flip c && mem e (d_rel_ev c)) ARelease).
  rewrite !app_assoc. apply acts_ok_app.
  assert (NE : forall i, ~ In (AEnable i) ((D ++ F) ++ R)).
  { intros i H. rewrite !in_app_iff in H. destruct H as [[H|H]|H]; apply in_sel_shape in H as (j & H); discriminate. }
  assert (NF : forall x, ~ In (AFire x) ((D ++ F) ++ R)).
  { intros x H. rewrite !in_app_iff in H. destruct H as [[H|H]|H]; apply in_sel_shape in H as (j & H); discriminate. }
  assert (A : acts_ok cfg s ((D ++ F) ++ R)) by (apply noenable_acts_ok; assumption).
  split; [exact A|].
  unfold sel. apply enable_phase_ok with (e := e).
  - apply g_inv_acts; assumption.
  - intros j Lj DJ EJ. apply off_after_disable; auto.
    rewrite !in_app_iff. left. left. apply (sel_in cfg (fun c => mem e (dis_events c)) ADisable j Lj DJ).
  - intros i H. apply filter_In in H as [_ H]. exact H.
Qed.

Lemma swap_step_ok s o : Inv cfg s -> op_ok o -> step_ok cfg s o.
Proof.
  intros I OK. unfold step_ok.
  assert (I0 : Inv cfg (w_log s [])) by (eapply frame_inv; [apply frame_w_log | exact I]).
  assert (A : acts_ok cfg (w_log s []) (acts_of cfg (w_log s []) o)).
  { destruct o; try (apply noenable_acts_ok; [exact I0 | intros j; apply acts_passive; exact Logic.I]).
    - cbn [acts_of acts_ok do_act]. split; [|exact Logic.I]. intros j NE Lj _. apply OK; assumption.
    - apply event_acts_ok, I0. }
  split; [exact A|]. apply noenable_acts_ok; [apply g_inv_acts; assumption | intros j; apply due_no_enable].
Qed.

Lemma swap_ops_ok ops : forall s, Inv cfg s -> Forall op_ok ops -> ops_ok cfg s ops.
Proof.
  induction ops as [|o l IH]; intros s I F; cbn [ops_ok]; [exact Logic.I|]. inversion F; subst.
  assert (S : step_ok cfg s o) by (apply swap_step_ok; assumption).
  split; [exact S|]. apply IH; [apply g_inv_step; assumption | assumption].
Qed.

End Swap.

Lemma handover_rules_equal_enabled_devices_l : forall cfg ops,
  (forall i, NoDup (keys_of (cf cfg i))) -> swap_safe cfg -> Forall (op_ok cfg) ops ->
  let s := run_ops cfg (init cfg) ops in
  (forall kv, In kv (tbl s) <->
              exists i, (i < length cfg)%nat /\ enabled (dev s i) = true /\ In kv (entries_of (cf cfg i))) /\
  NoDup (map fst (tbl s)) /\ err s = false /\
  (forall i j, i <> j -> (i < length cfg)%nat -> (j < length cfg)%nat ->
               enabled (dev s i) = true -> enabled (dev s j) = true -> disj cfg i j).
Proof.
  intros cfg ops W1 SS F s.
  assert (I : Inv cfg s).
  { apply g_inv_run; [exact W1 | apply inv_init | apply swap_ops_ok; auto; apply inv_init]. }
  split; [apply (inv_tbl _ _ I)|]. split; [apply (inv_nodup _ _ I)|]. split; [apply (inv_err _ _ I)|].
  apply (inv_excl _ _ I).
Qed.

(* a normal and a weak flipper on the same button and coils, swapped by ev_a / ev_b, next to an autofire coil *)
Definition ev_a : bytes := [101; 118; 95; 97].
Definition ev_b : bytes := [101; 118; 95; 98].
Definition ho_cfg : list dcfg :=
  [ mkD KFlip (Some 1) 1 (Some 2) None false false 0 true 1125 0 0 0 0 (Some [ev_a]) (Some [ev_b; ev_ball_will_end]) [] [];
    mkD KFlip (Some 1) 1 (Some 2) None false false 0 true 2375 0 0 0 0 (Some [ev_b]) (Some [ev_a; ev_ball_will_end]) [] [];
    mkD KAuto (Some 1) 5 None None false false 0 true 0 0 1000 2 625 None None [] [] ].
Definition ho_ops : list op :=
  [ Ev ev_a; SwFlip 0; Ev ev_b; Ev ev_ball_started; SwOn 1; SwOff 1; SwOn 1; Advance 2; Ev ev_a; BallSearch 0; Ev ev_b ].

Lemma ho_nodup i : NoDup (keys_of (cf ho_cfg i)).
Proof.
  destruct i as [|[|[|i]]]; cbn.
  - repeat constructor; cbn; intuition congruence.
  - repeat constructor; cbn; intuition congruence.
  - repeat constructor; cbn; intuition congruence.
  - destruct i; constructor.
Qed.

Lemma ho_swap_safe_l : swap_safe ho_cfg.
Proof.
  intros i j NE Li Lj [k [K1 K2]].
  assert (ME : forall e x, mem e [x] = true -> e = x).
  { intros e x H. cbn in H. rewrite orb_false_r in H. apply zs_eqb_spec in H. exact H. }
  destruct i as [|[|[|i]]]; destruct j as [|[|[|j]]]; cbn in Li, Lj; try lia; try congruence;
    cbn in K1, K2;
    try (split; [reflexivity|]; intros e H; apply ME in H; subst e; split; reflexivity);
    exfalso; intuition congruence.
Qed.

Lemma ho_example_l :
  Forall (op_ok ho_cfg) ho_ops /\ ~ wf ho_cfg /\
  let s := run_ops ho_cfg (init ho_cfg) ho_ops in
  map (fun d => enabled d) (devs s) = [false; true; true] /\ length (tbl s) = 3%nat /\ err s = false.
Proof.
  split; [repeat constructor|]. split.
  - unfold wf. cbn. intros H. inversion H as [|? ? N _]. apply N. cbn. auto.
  - vm_compute. repeat split; reflexivity.
Qed.
