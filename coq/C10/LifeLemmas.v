(* C10/LifeLemmas.v — proofs about the lifecycle automaton (Life.v) composed with the device model *)
From Common Require Import Prelude.
From C10.gen Require Import Wiring.
From C10 Require Import Model Lemmas AuxLemmas Life.
Open Scope Z_scope.

(* ------------------------------------------------------------------------------------------ *)
(* facts about the automaton alone *)
Ltac lstep_cases H :=
  repeat match type of H with
         | (if ?c then _ else _) = _ => destruct c eqn:?
         | match ?p with _ => _ end = _ => destruct p
         end; try discriminate; inversion H; subst; clear H.

Lemma lstep_enter_ball s l s' : lstep s l = Some s' -> in_ball s = false -> in_ball s' = true -> l = BallStarted.
Proof.
  destruct s as [p t e w]. unfold in_ball. cbn [ph]. intros H A B.
  destruct l; cbn [lstep gupd ph l_tilted l_endreq l_wait] in H; try reflexivity;
    lstep_cases H; cbn [ph] in *; try discriminate; congruence.
Qed.

Lemma lstep_leave_ball s l s' : lstep s l = Some s' -> in_ball s = true -> in_ball s' = false ->
  l = BallWillEnd \/ l = ServiceEntered.
Proof.
  destruct s as [p t e w]. unfold in_ball. cbn [ph]. intros H A B.
  destruct p as [| |g]; try discriminate. destruct g; try discriminate.
  destruct l; cbn [lstep gupd ph l_tilted l_endreq l_wait gnext has_game andb] in H; auto;
    lstep_cases H; cbn [ph] in *; discriminate.
Qed.

Lemma lstep_ball_started s s' : lstep s BallStarted = Some s' -> in_ball s' = true.
Proof.
  destruct s as [p t e w]. cbn [lstep gupd ph l_tilted l_endreq l_wait]. intros H.
  destruct (gnext p BallStarted && _); [|discriminate]. inversion H. reflexivity.
Qed.

(* tilt *)
Fixpoint tilts_in_ball (s : lstate) (tr : list item) : Prop :=
  match tr with
  | [] => True
  | LEv l :: tr' =>
      (l = Tilt -> running_ball (ph s) = true) /\
      match lstep s l with Some s' => tilts_in_ball s' tr' | None => True end
  | LOp _ :: tr' => tilts_in_ball s tr'
  end.

(* where a tilted game can be when every tilt was accepted while a ball was being run *)
Definition tilt_inv (s : lstate) : Prop :=
  l_tilted s = true ->
  match ph s with
  | After BallWillStart | After BallStarting | After BallStarted => l_endreq s = true
  | After BallWillEnd => True
  | After BallEnding => l_wait s = true
  | _ => False
  end.

Lemma tilt_inv_step s l s' :
  tilt_inv s -> (l = Tilt -> running_ball (ph s) = true) -> lstep s l = Some s' -> tilt_inv s'.
Proof.
  destruct s as [p t e w]. unfold tilt_inv. intros I T H.
  destruct l; destruct p as [| |g]; try destruct g; destruct t, e, w;
    cbn in H; try discriminate; inversion H; subst; clear H; cbn in *;
    intros X; try discriminate; try reflexivity; try exact I; try exact (I eq_refl);
    try (exfalso; exact (I eq_refl)); try (specialize (T eq_refl); discriminate);
    try (specialize (I eq_refl); discriminate).
Qed.

Lemma tilt_inv_run tr : forall s s', tilt_inv s -> tilts_in_ball s tr -> lrun s tr = Some s' -> tilt_inv s'.
Proof.
  induction tr as [|x tr IH]; intros s s' I T R; cbn in R.
  - inversion R; subst; exact I.
  - destruct x as [l|o].
    + destruct T as [T1 T2]. destruct (lstep s l) as [s1|] eqn:E; [|discriminate].
      eapply IH; [eapply tilt_inv_step; eauto | exact T2 | exact R].
    + eapply IH; eauto.
Qed.

Lemma tilt_in_ball_ends_ball_l : forall tr s,
  lrun l0 tr = Some s -> tilts_in_ball l0 tr ->
  l_tilted s = true -> in_ball s = true -> l_endreq s = true.
Proof.
  intros tr s R T X B. assert (I : tilt_inv s).
  { eapply tilt_inv_run; [|exact T|exact R]. unfold tilt_inv. cbn. discriminate. }
  specialize (I X). unfold in_ball in B. destruct (ph s) as [| |g]; try discriminate.
  destruct g; try discriminate. exact I.
Qed.

(* the faithful automaton does NOT have this property without the hypothesis on where tilts are accepted: the
   end-of-ball request of a tilt accepted while ball_ending is held is wiped by the next _run_ball *)
Definition sticky_trace : list item :=
  map LEv [GameWillStart; GameStarting; GameStarted; TurnWillStart; TurnStarting; TurnStarted;
           BallWillStart; BallStarting; BallStarted; BallWillEnd; BallEnding; Tilt; BallEnded;
           TurnWillEnd; TurnEnding; TurnEnded; TurnWillStart; TurnStarting; TurnStarted;
           BallWillStart; BallStarting; BallStarted].

Lemma tilt_between_balls_sticks_l :
  exists tr s, lrun l0 tr = Some s /\ l_tilted s = true /\ in_ball s = true /\ l_endreq s = false /\
               enabled (dev (drun ex_cfg tr) 0%nat) = true /\ tbl (drun ex_cfg tr) <> [].
Proof.
  exists sticky_trace. eexists. split; [vm_compute; reflexivity|].
  repeat split; try (vm_compute; reflexivity). vm_compute. discriminate.
Qed.

(* ------------------------------------------------------------------------------------------ *)
(* composition with the devices *)

(* device i is switched by the ball: the lifecycle-off events disable it and no lifecycle event other than
   ball_started enables it (custom enable_events / disable_events are allowed as long as this holds) *)
Definition ball_scoped (c : dcfg) : Prop :=
  mem ev_ball_will_end (dis_events c) = true /\ mem ev_service_mode_entered (dis_events c) = true /\
  forall l, l <> BallStarted -> mem (lev_name l) (en_events c) = false.

Lemma default_ball_scoped_l c : d_en_ev c = None -> d_dis_ev c = None -> ball_scoped c.
Proof.
  intros E D. unfold ball_scoped, dis_events, en_events. rewrite E, D.
  destruct (d_kind c); (split; [reflexivity|]; split; [reflexivity|]; intros l N; destruct l; try reflexivity;
                         congruence).
Qed.

(* operations from outside the game (switches, timers, ball search, software flips, custom events, other devices):
   arbitrary while a ball is in play; outside the ball anything that does not itself ask device i to enable *)
Fixpoint env_ok (cfg : list dcfg) (i : nat) (s : lstate) (tr : list item) : Prop :=
  match tr with
  | [] => True
  | LEv l :: tr' => match lstep s l with Some s' => env_ok cfg i s' tr' | None => True end
  | LOp o :: tr' => (in_ball s = false -> passive cfg i o) /\ env_ok cfg i s tr'
  end.

Section Compose.
Variable cfg : list dcfg.
Hypothesis W : wf cfg.
Variable i : nat.
Hypothesis L : (i < length cfg)%nat.
Hypothesis BS : ball_scoped (cf cfg i).

Definition J (ls : lstate) (s : state) : Prop := Inv cfg s /\ (in_ball ls = false -> quiet s i).

Lemma J_lev ls l ls' s : J ls s -> lstep ls l = Some ls' -> J ls' (step cfg s (Ev (lev_name l))).
Proof.
  intros [I Q] H. split; [apply inv_step; assumption|]. intros B.
  destruct BS as (D1 & D2 & EN).
  destruct (in_ball ls) eqn:A.
  - destruct (lstep_leave_ball _ _ _ H A B) as [-> | ->]; cbn [lev_name].
    + apply event_quiet; auto. apply (EN BallWillEnd). discriminate.
    + apply event_quiet; auto. apply (EN ServiceEntered). discriminate.
  - apply quiet_step; auto. cbn [passive]. apply EN. intros ->.
    rewrite (lstep_ball_started _ _ H) in B. discriminate.
Qed.

Lemma J_run tr : forall ls s ls',
  J ls s -> lrun ls tr = Some ls' -> env_ok cfg i ls tr -> J ls' (run_ops cfg s (map item_op tr)).
Proof.
  induction tr as [|x tr IH]; intros ls s ls' Jx R E; cbn in R |- *.
  - inversion R; subst. exact Jx.
  - destruct x as [l|o]; cbn [item_op].
    + cbn in E. destruct (lstep ls l) as [ls1|] eqn:H; [|discriminate].
      eapply IH; [eapply J_lev; eauto | exact R | exact E].
    + cbn in E. destruct E as [E1 E2]. eapply IH; [|exact R|exact E2].
      destruct Jx as [I Q]. split; [apply inv_step; assumption|].
      intros B. apply quiet_step; auto.
Qed.

Lemma J_init : J l0 (init cfg).
Proof.
  split; [apply inv_init|]. intros _. split.
  - unfold en, dev, init. cbn [devs]. clear. revert i. induction cfg as [|c l IH]; intros [|j]; cbn; auto.
  - reflexivity.
Qed.

End Compose.

Lemma lifecycle_no_rules_outside_ball_l : forall cfg tr i ls,
  wf cfg -> (i < length cfg)%nat -> ball_scoped (cf cfg i) ->
  lrun l0 tr = Some ls -> env_ok cfg i l0 tr ->
  in_ball ls = false ->
  let s := drun cfg tr in
  enabled (dev s i) = false /\
  (forall k, In k (keys_of (cf cfg i)) -> has_key k (tbl s) = false) /\
  has_tmr (TReenable i) (timers s) = false /\
  mgr (dev s i) = None /\
  (wfc cfg -> is_flip (cf cfg i) = true ->
   cget (d_coil (cf cfg i)) (coils s) <> 1 /\ (forall h, d_hold (cf cfg i) = Some h -> cget h (coils s) <> 1)).
Proof.
  intros cfg tr i ls W L BS R E B s.
  destruct (J_run cfg W i L BS tr l0 (init cfg) ls (J_init cfg i) R E) as [I Q].
  fold (drun cfg tr) in I, Q. fold s in I, Q. destruct (Q B) as [Q1 Q2].
  split; [exact Q1|]. split; [|split; [exact Q2|split]].
  - intros k K. eapply off_no_keys; eauto.
  - destruct (mgr (dev s i)) eqn:M; [|reflexivity].
    exfalso. assert (X : mgr (dev s i) <> None) by congruence.
    apply (inv_mgr _ _ I) in X as [_ X]. unfold en in *. congruence.
  - intros WC F. apply (flipper_coil_only_while_enabled_l cfg (map item_op tr) i W WC L F). exact Q1.
Qed.

(* satisfiability: a game with two balls, a tilt, service mode, and device traffic in between *)
Definition ex_trace : list item :=
  map LEv [GameWillStart; GameStarting; GameStarted; TurnWillStart; TurnStarting; TurnStarted;
           BallWillStart; BallStarting; BallStarted]
  ++ map LOp [SwOn 1; SwOn 2; Advance 1; SwOff 2; SwFlip 1; SwOn 3; SwOff 3; SwOn 3]
  ++ [LEv Tilt; LEv BallWillEnd]
  ++ map LOp [SwOff 1; Advance 3; SwOn 3; BallSearch 0; SwFlip 0; Ev [1;2;3]]
  ++ map LEv [BallEnding; TiltClear; BallEnded; TurnWillEnd; TurnEnding; TurnEnded; TurnWillStart; TurnStarting;
              TurnStarted; BallWillStart; BallStarting; BallStarted]
  ++ [LOp (SwFlip 0); LEv ServiceEntered; LOp (Advance 5); LOp (BallSearch 1)].

Lemma ex_trace_ok_l :
  (exists ls, lrun l0 ex_trace = Some ls /\ in_ball ls = false) /\
  env_ok ex_cfg 0 l0 ex_trace /\ tilts_in_ball l0 ex_trace /\ ball_scoped (cf ex_cfg 0) /\
  (* non-trivial: rules and an energised coil before the tilt, nothing at the end *)
  length (tbl (drun ex_cfg (firstn 17 ex_trace))) = 4%nat /\
  cget 1 (coils (drun ex_cfg (firstn 17 ex_trace))) = 1 /\
  tbl (drun ex_cfg ex_trace) = [] /\ cget 1 (coils (drun ex_cfg ex_trace)) = 0.
Proof.
  split; [eexists; split; vm_compute; reflexivity|].
  split; [cbn; repeat split; intros; try discriminate; cbn; auto; try congruence|].
  split; [cbn; repeat split; intros; try discriminate; auto|].
  split; [apply default_ball_scoped_l; reflexivity|].
  repeat split; vm_compute; reflexivity.
Qed.
