(* C10/AuxLemmas.v — auxiliary switch handlers (PSU notification handlers, software EOS repulse managers and their
   timed handler) are balanced with the installed rules, and a flipper coil is energised only while its device is
   enabled.  Proofs about Model.v, on top of the invariant [Inv] of Lemmas.v. *)
From Common Require Import Prelude.
From C10.gen Require Import Wiring.
From C10 Require Import Model Lemmas.
Open Scope Z_scope.

(* ------------------------------------------------------------------------------------------ *)
(* lists of keys *)
Lemma In_remove_key k x l : NoDup l -> (In x (remove_key k l) <-> In x l /\ x <> k).
Proof.
  induction l as [|h t IH]; intros ND; cbn; [tauto|]. inversion ND as [|? ? N1 N2]; subst.
  destruct (key_eqb h k) eqn:E.
  - apply key_eqb_eq in E; subst h. split.
    + intros H. split; [right; exact H | intros ->; contradiction].
    + intros [[H|H] NE]; [congruence | exact H].
  - apply key_eqb_neq in E. cbn. rewrite (IH N2). split.
    + intros [H | [H1 H2]]; [subst; split; [left; reflexivity | exact E] | split; [right; exact H1 | exact H2]].
    + intros [[H|H] NE]; [left; exact H | right; split; assumption].
Qed.
Lemma NoDup_remove_key k l : NoDup l -> NoDup (remove_key k l).
Proof.
  induction l as [|h t IH]; intros ND; cbn; [constructor|]. inversion ND as [|? ? N1 N2]; subst.
  destruct (key_eqb h k); [exact N2|]. constructor; [|apply IH, N2].
  intros H. apply In_remove_key in H; [|exact N2]. tauto.
Qed.
Lemma In_remove_keys ks : forall l x, NoDup l ->
  (In x (fold_left (fun l k => remove_key k l) ks l) <-> In x l /\ ~ In x ks) /\
  NoDup (fold_left (fun l k => remove_key k l) ks l).
Proof.
  induction ks as [|k ks IH]; intros l x ND; cbn [fold_left].
  - split; [cbn; tauto | exact ND].
  - destruct (IH (remove_key k l) x (NoDup_remove_key k l ND)) as [A B]. split; [|exact B].
    rewrite A, (In_remove_key k x l ND). cbn. intuition congruence.
Qed.

Lemma psu_keys_sub rs k : In k (psu_keys rs) -> In k (rule_keys rs).
Proof.
  unfold psu_keys, rule_keys. rewrite !in_flat_map. intros (r & R & H). exists r. split; [exact R|].
  destruct (fst r) as [|k0 ks]; [contradiction|]. destruct H as [->|[]]. left; reflexivity.
Qed.
Lemma psu_keys_nodup rs : NoDup (rule_keys rs) -> NoDup (psu_keys rs).
Proof.
  induction rs as [|r rs IH]; cbn; intros ND; [constructor|].
  assert (N2 : NoDup (rule_keys rs)) by (eapply NoDup_app_r, ND).
  destruct (fst r) as [|k ks] eqn:E; cbn; [apply IH, N2|].
  constructor; [|apply IH, N2]. intros H. apply psu_keys_sub in H.
  eapply (NoDup_app_disj (k :: ks) (rule_keys rs) k ND); [left; reflexivity | exact H].
Qed.

(* ------------------------------------------------------------------------------------------ *)
Section Aux.
Variable cfg : list dcfg.
Hypothesis W : wf cfg.

Definition psu_of (c : dcfg) : list key := psu_keys (rules_of c).

Lemma psu_of_keys c k : In k (psu_of c) -> In k (keys_of c).
Proof. intros H. rewrite <- keys_of_rule_keys. apply psu_keys_sub, H. Qed.
Lemma psu_of_nodup i : NoDup (psu_of (cf cfg i)).
Proof. apply psu_keys_nodup. rewrite keys_of_rule_keys. apply wf_keys_nodup, W. Qed.

(* PSU handlers = first key of every rule of every enabled device, each once;
   an EOS manager exists for exactly the enabled flippers configured with software repulse;
   a pending "EOS closed long enough" handler belongs to a live manager;
   a software flip is recorded only on an enabled flipper *)
Record AInv (s : state) : Prop := mkAInv {
  a_psu : forall k, In k (psu s) <->
                    exists i, (i < length cfg)%nat /\ en s i = true /\ In k (psu_of (cf cfg i));
  a_psu_nd : NoDup (psu s);
  a_mgr : forall i, en s i = true -> has_mgr (cf cfg i) = true -> mgr (dev s i) <> None;
  a_tmr : forall i, has_tmr (TEosLong i) (timers s) = true -> mgr (dev s i) <> None;
  a_flip : forall i, flipped (dev s i) = true -> en s i = true /\ is_flip (cf cfg i) = true
}.

(* steps that change neither psu nor enabled flags, keep managers, flip only enabled flippers and add a timed
   handler only for a live manager *)
Definition aframe (s s' : state) : Prop :=
  psu s' = psu s /\
  (forall i, enabled (dev s' i) = enabled (dev s i) /\
             (mgr (dev s' i) <> None <-> mgr (dev s i) <> None) /\
             (flipped (dev s' i) = true ->
              flipped (dev s i) = true \/ (enabled (dev s i) = true /\ is_flip (cf cfg i) = true))) /\
  (forall i, has_tmr (TEosLong i) (timers s') = true ->
             has_tmr (TEosLong i) (timers s) = true \/ mgr (dev s i) <> None).

Lemma aframe_refl s : aframe s s.
Proof. unfold aframe. intuition. Qed.
Lemma aframe_trans a b c : aframe a b -> aframe b c -> aframe a c.
Proof.
  intros (A1 & A2 & A3) (B1 & B2 & B3). split; [congruence|]. split.
  - intros i. destruct (A2 i) as (X1 & X2 & X3), (B2 i) as (Y1 & Y2 & Y3). split; [congruence|]. split; [tauto|].
    intros H. destruct (Y3 H) as [H1|[H1 H2]]; [auto | right; split; congruence].
  - intros i H. destruct (B3 i H) as [H1|H1]; [auto|]. right. apply (A2 i), H1.
Qed.

Lemma aframe_inv s s' : aframe s s' -> AInv s -> AInv s'.
Proof.
  intros (F1 & F2 & F3) [P N M T F].
  assert (EN : forall i, en s' i = en s i) by (intros i; unfold en; apply F2).
  constructor.
  - intros k. rewrite F1, (P k). split; intros (i & A & B & C); exists i; rewrite EN in *; auto.
  - rewrite F1. exact N.
  - intros i E H. rewrite EN in E. apply (F2 i). auto.
  - intros i H. apply (F2 i). destruct (F3 i H) as [X|X]; auto.
  - intros i H. rewrite EN. destruct (F2 i) as (_ & _ & X). destruct (X H) as [Y|Y]; [auto | exact Y].
Qed.

Lemma aframe_w_dev s i d :
  enabled d = enabled (dev s i) -> (mgr d <> None <-> mgr (dev s i) <> None) ->
  (flipped d = true -> flipped (dev s i) = true \/ (enabled (dev s i) = true /\ is_flip (cf cfg i) = true)) ->
  aframe s (w_dev s i d).
Proof.
  intros A B C. unfold aframe. proj. split; [reflexivity|]. split; [|auto].
  intros j. rewrite dev_w_dev. destruct (Nat.eqb j i && _) eqn:E; [|tauto].
  apply andb_true_iff in E as [E _]. apply Nat.eqb_eq in E; subst. auto.
Qed.
Lemma aframe_w_timers s t :
  (forall i, has_tmr (TEosLong i) t = true -> has_tmr (TEosLong i) (timers s) = true \/ mgr (dev s i) <> None) ->
  aframe s (w_timers s t).
Proof. intros H. unfold aframe. proj. unfold dev. proj. intuition. Qed.
Lemma aframe_set_coil s c v : aframe s (set_coil s c v).
Proof. unfold aframe. proj. unfold dev. proj. intuition. Qed.
Lemma aframe_set_ocoil s c v : aframe s (set_ocoil s c v).
Proof. destruct c; [apply aframe_set_coil | apply aframe_refl]. Qed.
Lemma aframe_w_log s v : aframe s (w_log s v).
Proof. unfold aframe. proj. unfold dev. proj. intuition. Qed.
Lemma aframe_w_now s v : aframe s (w_now s v).
Proof. unfold aframe. proj. unfold dev. proj. intuition. Qed.
Lemma aframe_w_sws s v : aframe s (w_sws s v).
Proof. unfold aframe. proj. unfold dev. proj. intuition. Qed.

Lemma aframe_release s i : aframe s (dev_release cfg s i).
Proof.
  unfold dev_release. destruct (is_flip (cf cfg i)); [|apply aframe_refl].
  eapply aframe_trans; [|apply aframe_set_ocoil]. eapply aframe_trans; [|apply aframe_set_coil].
  apply aframe_w_dev; cbn; [auto | tauto | discriminate].
Qed.
Lemma aframe_flip s i : aframe s (dev_flip cfg s i).
Proof.
  unfold dev_flip. destruct (is_flip (cf cfg i) && enabled (dev s i)) eqn:E; [|apply aframe_refl].
  apply andb_true_iff in E as [E0 E].
  assert (X : aframe s (w_dev s i (mkDS (enabled (dev s i)) (arules (dev s i)) true (mgr (dev s i)) (hits (dev s i))))).
  { apply aframe_w_dev; cbn; [auto | tauto | auto]. }
  destruct (d_hold (cf cfg i)).
  - eapply aframe_trans; [|apply aframe_set_coil]. eapply aframe_trans; [|apply aframe_set_coil]. exact X.
  - eapply aframe_trans; [|apply aframe_set_coil]. exact X.
Qed.
Lemma has_tmr_add_eos t y l j : has_tmr (TEosLong j) (add_tmr t y l) = true ->
  (forall k, y <> TEosLong k) -> has_tmr (TEosLong j) l = true.
Proof. intros H N. apply has_tmr_add in H as [H|H]; [exfalso; eapply N; symmetry; exact H | exact H]. Qed.
Lemma aframe_bs s i : aframe s (dev_bs cfg s i).
Proof.
  unfold dev_bs. destruct (d_bs (cf cfg i)); cbn [negb]; [|apply aframe_refl].
  destruct (is_flip (cf cfg i)); [|apply aframe_set_coil].
  eapply aframe_trans; [apply aframe_flip|]. apply aframe_w_timers.
  intros j H. left. eapply has_tmr_add_eos; [exact H | discriminate].
Qed.
Lemma aframe_w_mgr s i m : (m <> None <-> mgr (dev s i) <> None) -> aframe s (w_mgr s i m).
Proof. intros H. unfold w_mgr. apply aframe_w_dev; cbn; auto. Qed.
Lemma aframe_button s i b : aframe s (mgr_button cfg s i b).
Proof.
  unfold mgr_button. destruct (mgr (dev s i)) as [[x l]|] eqn:E; [|apply aframe_refl].
  assert (F : aframe s (w_mgr s i (Some (b, l)))) by (apply aframe_w_mgr; rewrite E; split; congruence).
  destruct b; [exact F | eapply aframe_trans; [exact F | apply aframe_set_coil]].
Qed.
Lemma aframe_eos_long s i : aframe s (mgr_eos_long s i).
Proof.
  unfold mgr_eos_long. destruct (mgr (dev s i)) as [[x l]|] eqn:E; [|apply aframe_refl].
  apply aframe_w_mgr; rewrite E; split; congruence.
Qed.
Lemma aframe_eos_on s i : aframe s (mgr_eos_on cfg s i).
Proof.
  unfold mgr_eos_on. destruct (mgr (dev s i)) eqn:E; [|apply aframe_refl].
  destruct (d_debounce (cf cfg i) =? 0); [apply aframe_eos_long|].
  apply aframe_w_timers. intros j. rewrite has_tmr_app. cbn. rewrite orb_false_r.
  intros H. apply orb_true_iff in H as [H|H]; [left; exact H|]. apply Nat.eqb_eq in H; subst j.
  right. congruence.
Qed.
Lemma aframe_eos_off s i : aframe s (mgr_eos_off cfg s i).
Proof.
  unfold mgr_eos_off. destruct (mgr (dev s i)) as [[[|] [|]]|] eqn:E; try apply aframe_refl.
  eapply aframe_trans; [|apply aframe_set_coil]. apply aframe_w_mgr; rewrite E; split; congruence.
Qed.
Lemma aframe_set_sw s w b : aframe s (set_sw cfg s w b).
Proof.
  unfold set_sw. eapply aframe_trans; [apply aframe_w_sws|]. apply aframe_w_timers.
  intros j H. left. proj. eapply has_tmr_filter, H.
Qed.

(* ---- enable ---- *)
Lemma has_tmr_catchup_eos s i j : has_tmr (TEosLong j) (catchup cfg s i) = true -> j = i.
Proof.
  unfold catchup. destruct (d_eos (cf cfg i)); [|discriminate]. destruct (sget z (sws s)) as [a lc].
  destruct (negb _ && a && _); [|discriminate]. cbn. rewrite orb_false_r. intros H. apply Nat.eqb_eq in H. auto.
Qed.

Lemma dev_enable_proj2 s i :
  enabled (dev s i) = false ->
  let s' := dev_enable cfg s i in
  psu s' = psu s ++ psu_of (cf cfg i) /\
  devs s' = upd i (enabled_dev (cf cfg i) (dev s i)) (devs s) /\
  (forall j, has_tmr (TEosLong j) (timers s') = true ->
             has_tmr (TEosLong j) (timers s) = true \/ (j = i /\ has_mgr (cf cfg i) = true)).
Proof.
  intros E. unfold dev_enable. rewrite E. unfold enabled_dev, psu_of.
  destruct (has_mgr (cf cfg i)) eqn:HM; proj; repeat split; auto.
  intros j. rewrite has_tmr_app. intros H. apply orb_true_iff in H as [H|H]; [auto|].
  right. split; [eapply has_tmr_catchup_eos, H | reflexivity].
Qed.

Lemma has_mgr_in_range i : has_mgr (cf cfg i) = true -> (i < length cfg)%nat.
Proof.
  intros H. destruct (Nat.lt_ge_cases i (length cfg)) as [L|L]; [exact L|].
  rewrite cf_overflow in H by exact L. discriminate.
Qed.
Lemma psu_of_in_range i k : In k (psu_of (cf cfg i)) -> (i < length cfg)%nat.
Proof.
  intros H. destruct (Nat.lt_ge_cases i (length cfg)) as [L|L]; [exact L|].
  rewrite cf_overflow in H by exact L. contradiction.
Qed.

Lemma ainv_enable s i : Inv cfg s -> AInv s -> AInv (dev_enable cfg s i).
Proof.
  intros I A. destruct (enabled (dev s i)) eqn:E.
  { unfold dev_enable. rewrite E. exact A. }
  destruct (dev_enable_proj2 s i E) as (PP & PD & PT).
  set (s' := dev_enable cfg s i) in *. set (c := cf cfg i) in *.
  assert (LEN := inv_len _ _ I).
  assert (DV : forall j, dev s' j = if Nat.eqb j i && Nat.ltb i (length (devs s))
                                    then enabled_dev c (dev s i) else dev s j).
  { intros j. unfold dev at 1. rewrite PD. apply nth_upd. }
  assert (DVo : forall j, j <> i -> dev s' j = dev s j).
  { intros j NE. rewrite DV. apply Nat.eqb_neq in NE. rewrite NE. reflexivity. }
  assert (DVi : (i < length cfg)%nat -> dev s' i = enabled_dev c (dev s i)).
  { intros Li. rewrite DV, Nat.eqb_refl, LEN. apply Nat.ltb_lt in Li. rewrite Li. reflexivity. }
  assert (ENo : forall j, j <> i -> en s' j = en s j) by (intros j NE; unfold en; rewrite DVo; auto).
  destruct A as [P N M T F]. constructor.
  - intros k. rewrite PP, in_app_iff, (P k). split.
    + intros [(j & Lj & Ej & Hj) | H].
      * exists j. repeat split; auto. rewrite ENo; auto. intros ->. unfold en in Ej. congruence.
      * assert (Li := psu_of_in_range i k H). exists i. repeat split; auto. unfold en. rewrite DVi by exact Li. reflexivity.
    + intros (j & Lj & Ej & Hj). destruct (Nat.eq_dec j i) as [->|NE]; [right; exact Hj|].
      left. exists j. repeat split; auto. rewrite <- ENo; auto.
  - rewrite PP. apply NoDup_app_intro; [exact N | apply psu_of_nodup |].
    intros k K1 K2. apply (P k) in K1 as (j & Lj & Ej & Hj).
    assert (Li := psu_of_in_range i k K2).
    assert (NE : j <> i) by (intros ->; unfold en in Ej; congruence).
    eapply (wf_keys_disj cfg i j k W Li Lj); [congruence | apply psu_of_keys, K2 | apply psu_of_keys, Hj].
  - intros j Ej HM. destruct (Nat.eq_dec j i) as [->|NE].
    + rewrite DVi by (apply has_mgr_in_range, HM). unfold enabled_dev. cbn [mgr]. fold c in HM. rewrite HM. discriminate.
    + rewrite DVo by exact NE. apply M; [rewrite <- ENo; auto | exact HM].
  - intros j H. destruct (PT j H) as [H1 | [-> HM]].
    + assert (X := T j H1). destruct (Nat.eq_dec j i) as [->|NE]; [|rewrite DVo; auto].
      apply (inv_mgr _ _ I) in X as [_ X]. unfold en in X. congruence.
    + rewrite DVi by (apply has_mgr_in_range, HM). unfold enabled_dev. cbn [mgr]. fold c in HM. rewrite HM. discriminate.
  - intros j H. destruct (Nat.eq_dec j i) as [->|NE].
    + destruct (Nat.lt_ge_cases i (length cfg)) as [Li|Li].
      * rewrite DVi in H by exact Li. cbn in H. apply F in H as [H _]. unfold en in H. congruence.
      * rewrite DV in H. rewrite LEN in H. apply Nat.ltb_ge in Li. rewrite Li, andb_false_r in H.
        apply F in H as [H _]. unfold en in H. congruence.
    + rewrite DVo in H by exact NE. rewrite ENo by exact NE. apply F, H.
Qed.

(* ---- disable ---- *)
Lemma dev_set_coil s c v j : dev (set_coil s c v) j = dev s j.
Proof. reflexivity. Qed.
Lemma dev_clear_rules_other s i rs j : j <> i -> dev (clear_rules cfg s i rs) j = dev s j.
Proof.
  intros NE. unfold clear_rules. destruct (mgr (dev s i)) as [[[|] l]|]; proj; unfold dev; proj;
    rewrite ?nth_upd; apply Nat.eqb_neq in NE; rewrite ?NE; reflexivity.
Qed.
Lemma dev_disable_other s i j : j <> i -> dev (dev_disable cfg s i) j = dev s j.
Proof.
  intros NE. unfold dev_disable. destruct (is_flip (cf cfg i)).
  - destruct (enabled (dev s i)); [|reflexivity]. rewrite dev_w_dev_other by exact NE.
    destruct (flipped (dev s i)); [rewrite dev_release_other by exact NE|]; apply dev_clear_rules_other, NE.
  - set (s0 := w_timers s (del_tmr (TReenable i) (timers s))).
    assert (D0 : forall k, dev s0 k = dev s k) by reflexivity. rewrite D0.
    destruct (enabled (dev s i)); [|apply D0].
    rewrite dev_clear_rules_other by exact NE. rewrite dev_w_dev_other by exact NE. apply D0.
Qed.

Lemma psu_clear_rules s i rs :
  psu (clear_rules cfg s i rs) = fold_left (fun l k => remove_key k l) (psu_keys rs) (psu s).
Proof. unfold clear_rules. destruct (mgr (dev s i)) as [[[|] l]|]; reflexivity. Qed.
Lemma psu_release s i : psu (dev_release cfg s i) = psu s.
Proof. unfold dev_release. destruct (is_flip (cf cfg i)); [|reflexivity]. destruct (d_hold (cf cfg i)); reflexivity. Qed.

Lemma timers_clear_rules s i rs j :
  has_tmr (TEosLong j) (timers (clear_rules cfg s i rs)) = true ->
  has_tmr (TEosLong j) (timers s) = true /\ (j = i -> mgr (dev s i) = None).
Proof.
  unfold clear_rules. destruct (mgr (dev s i)) as [[b l]|] eqn:M.
  - destruct b; proj; intros H; (split; [eapply has_tmr_del, H|]); intros ->;
      rewrite has_tmr_del_same in H; discriminate.
  - proj. intros H. auto.
Qed.
Lemma timers_release s i : timers (dev_release cfg s i) = timers s.
Proof. unfold dev_release. destruct (is_flip (cf cfg i)); [|reflexivity]. destruct (d_hold (cf cfg i)); reflexivity. Qed.

Lemma disable_facts s i : Inv cfg s -> en s i = true ->
  let s' := dev_disable cfg s i in
  psu s' = fold_left (fun l k => remove_key k l) (psu_of (cf cfg i)) (psu s) /\
  (flipped (dev s' i) = true -> is_flip (cf cfg i) = false /\ flipped (dev s i) = true) /\
  (forall j, has_tmr (TEosLong j) (timers s') = true ->
             has_tmr (TEosLong j) (timers s) = true /\ (j = i -> mgr (dev s i) = None)).
Proof.
  intros I E. assert (R : (i < length (devs s))%nat) by (apply en_in_range, E).
  assert (AR : arules (dev s i) = rules_of (cf cfg i)) by (apply (inv_rules _ _ I i), E).
  unfold en in E. cbv zeta. unfold dev_disable. destruct (is_flip (cf cfg i)) eqn:F.
  - rewrite E, AR.
    set (s1 := clear_rules cfg s i (rules_of (cf cfg i))).
    set (s2 := if flipped (dev s i) then dev_release cfg s1 i else s1).
    assert (L2 : length (devs s2) = length (devs s)).
    { destruct (clear_rules_proj cfg s i (rules_of (cf cfg i))) as (_ & _ & CL & _).
      unfold s2. destruct (flipped (dev s i)); [|exact CL].
      destruct (frame_release cfg s1 i) as (_ & _ & X & _). fold s1 in CL. congruence. }
    assert (R2 : Nat.ltb i (length (devs s2)) = true) by (apply Nat.ltb_lt; congruence).
    assert (FL : flipped (dev s2 i) = false).
    { unfold s2. destruct (flipped (dev s i)) eqn:FL.
      - unfold dev_release. rewrite F. rewrite dev_set_ocoil, dev_set_coil.
        destruct (clear_rules_proj cfg s i (rules_of (cf cfg i))) as (_ & _ & CL & _). fold s1 in CL.
        rewrite dev_w_dev_same; [reflexivity | congruence].
      - destruct (clear_rules_proj cfg s i (rules_of (cf cfg i))) as (_ & _ & _ & _ & CD & _).
        destruct (CD i) as (_ & _ & X & _). fold s1 in X. congruence. }
    proj. split; [|split].
    + unfold s2. destruct (flipped (dev s i)); [rewrite psu_release|]; apply psu_clear_rules.
    + rewrite dev_w_dev, Nat.eqb_refl, R2. cbn. rewrite FL. discriminate.
    + intros j H. apply (timers_clear_rules s i (rules_of (cf cfg i)) j).
      unfold s2 in H. destruct (flipped (dev s i)); [rewrite timers_release in H|]; exact H.
  - set (s0 := w_timers s (del_tmr (TReenable i) (timers s))).
    assert (D0 : forall j, dev s0 j = dev s j) by reflexivity.
    rewrite D0, E, AR.
    set (s1 := w_dev s0 i (mkDS false (rules_of (cf cfg i)) (flipped (dev s i)) (mgr (dev s i)) (hits (dev s i)))).
    assert (R1 : (i < length (devs s0))%nat) by exact R.
    assert (D1 : dev s1 i = mkDS false (rules_of (cf cfg i)) (flipped (dev s i)) (mgr (dev s i)) (hits (dev s i))).
    { unfold s1. apply dev_w_dev_same, R1. }
    split; [|split].
    + rewrite psu_clear_rules. reflexivity.
    + destruct (clear_rules_proj cfg s1 i (rules_of (cf cfg i))) as (_ & _ & _ & _ & CD & _).
      destruct (CD i) as (_ & _ & X & _). rewrite X, D1. cbn. auto.
    + intros j H. apply timers_clear_rules in H as [H1 H2]. split.
      * unfold s1, s0 in H1. proj. eapply has_tmr_del, H1.
      * intros ->. specialize (H2 eq_refl). rewrite D1 in H2. exact H2.
Qed.

Lemma ainv_disable s i : Inv cfg s -> AInv s -> AInv (dev_disable cfg s i).
Proof.
  intros I A. destruct (en s i) eqn:E.
  2:{ unfold en in E. unfold dev_disable. destruct (is_flip (cf cfg i)); [rewrite E; exact A|].
      set (s0 := w_timers s (del_tmr (TReenable i) (timers s))).
      assert (D0 : dev s0 i = dev s i) by reflexivity. rewrite D0, E.
      eapply aframe_inv; [|exact A]. apply aframe_w_timers. intros j H. left. eapply has_tmr_del, H. }
  destruct (disable_facts s i I E) as (DP & DF & DT).
  destruct (disable_disabled_from cfg s i I E) as (_ & _ & _ & DEn & _ & DM & DO & _).
  set (s' := dev_disable cfg s i) in *.
  assert (Li : (i < length cfg)%nat) by (rewrite <- (inv_len _ _ I); apply en_in_range, E).
  assert (DVo : forall j, j <> i -> dev s' j = dev s j) by (intros j NE; apply dev_disable_other, NE).
  assert (ENo : forall j, j <> i -> en s' j = en s j) by (intros j NE; unfold en; rewrite DVo; auto).
  destruct A as [P N M T F].
  destruct (In_remove_keys (psu_of (cf cfg i)) (psu s) (0, 0) N) as [_ ND].
  constructor.
  - intros k. rewrite DP. destruct (In_remove_keys (psu_of (cf cfg i)) (psu s) k N) as [X _]. rewrite X, (P k). split.
    + intros [(j & Lj & Ej & Hj) NK]. exists j. repeat split; auto. rewrite ENo; auto. intros ->. contradiction.
    + intros (j & Lj & Ej & Hj).
      assert (NE : j <> i) by (intros ->; unfold en in Ej; congruence).
      split; [exists j; rewrite <- ENo by exact NE; auto|].
      intros K. eapply (wf_keys_disj cfg i j k W Li Lj); [congruence | apply psu_of_keys, K | apply psu_of_keys, Hj].
  - rewrite DP. exact ND.
  - intros j Ej HM. destruct (Nat.eq_dec j i) as [->|NE]; [unfold en in Ej; congruence|].
    rewrite DVo by exact NE. apply M; [rewrite <- ENo; auto | exact HM].
  - intros j H. destruct (DT j H) as [H1 H2]. assert (X := T j H1).
    destruct (Nat.eq_dec j i) as [->|NE]; [specialize (H2 eq_refl); congruence | rewrite DVo; auto].
  - intros j H. destruct (Nat.eq_dec j i) as [->|NE].
    + destruct (DF H) as [NF FL]. apply F in FL as [_ FL]. congruence.
    + rewrite DVo in H by exact NE. rewrite ENo by exact NE. apply F, H.
Qed.

Lemma ainv_hit s i : Inv cfg s -> AInv s -> AInv (dev_hit cfg s i).
Proof.
  intros I A. unfold dev_hit. destruct (is_flip (cf cfg i)) eqn:F; [exact A|].
  destruct (enabled (dev s i)) eqn:EN; cbn [negb]; [|exact A].
  destruct (d_watch (cf cfg i) =? 0); [exact A|].
  match goal with |- context [w_dev s i ?d] => set (s1 := w_dev s i d) end.
  assert (I1 : Inv cfg s1) by (eapply frame_inv; [apply frame_w_dev; cbn; auto | exact I]).
  assert (A1 : AInv s1) by (eapply aframe_inv; [apply aframe_w_dev; cbn; [auto | tauto | auto] | exact A]).
  destruct (d_maxhits (cf cfg i) <=? _); [|exact A1].
  eapply aframe_inv; [|apply ainv_disable; eassumption].
  apply aframe_w_timers. intros j H. left. eapply has_tmr_add_eos; [exact H | discriminate].
Qed.

Lemma ainv_fire s x : Inv cfg s -> AInv s -> AInv (fire cfg s x).
Proof.
  intros I A. unfold fire. destruct (has_tmr x (timers s)); [|exact A].
  assert (I1 : Inv cfg (w_timers s (del_tmr x (timers s)))).
  { eapply frame_inv; [|exact I]. apply frame_w_timers. intros j. apply has_tmr_del. }
  assert (A1 : AInv (w_timers s (del_tmr x (timers s)))).
  { eapply aframe_inv; [|exact A]. apply aframe_w_timers. intros j H. left. eapply has_tmr_del, H. }
  destruct x.
  - apply ainv_enable; assumption.
  - eapply aframe_inv; [apply aframe_release | exact A1].
  - eapply aframe_inv; [apply aframe_eos_long | exact A1].
Qed.

Lemma ainv_act s a : Inv cfg s -> AInv s -> AInv (do_act cfg s a).
Proof.
  intros I A. destruct a; cbn [do_act].
  - apply ainv_enable; assumption.
  - apply ainv_disable; assumption.
  - eapply aframe_inv; [apply aframe_flip | exact A].
  - eapply aframe_inv; [apply aframe_release | exact A].
  - apply ainv_hit; assumption.
  - eapply aframe_inv; [apply aframe_bs | exact A].
  - eapply aframe_inv; [apply aframe_button | exact A].
  - eapply aframe_inv; [apply aframe_eos_on | exact A].
  - eapply aframe_inv; [apply aframe_eos_off | exact A].
  - eapply aframe_inv; [apply aframe_set_sw | exact A].
  - eapply aframe_inv; [apply aframe_w_now | exact A].
  - apply ainv_fire; assumption.
Qed.

Lemma ainv_acts l : forall s, Inv cfg s -> AInv s -> AInv (run_acts cfg s l).
Proof.
  induction l as [|a l IH]; intros s I A; cbn; [exact A|].
  apply IH; [apply inv_act; assumption | apply ainv_act; assumption].
Qed.

Lemma ainv_step s o : Inv cfg s -> AInv s -> AInv (step cfg s o).
Proof.
  intros I A. unfold step.
  assert (I0 : Inv cfg (w_log s [])) by (eapply frame_inv; [apply frame_w_log | exact I]).
  assert (A0 : AInv (w_log s [])) by (eapply aframe_inv; [apply aframe_w_log | exact A]).
  apply ainv_acts; [apply inv_acts; assumption | apply ainv_acts; assumption].
Qed.

Lemma ainv_init : AInv (init cfg).
Proof.
  assert (D : forall i, dev (init cfg) i = ds0).
  { intros i. unfold dev, init. cbn [devs]. clear W. revert i.
    induction cfg as [|c l IH]; intros [|i]; cbn; auto. }
  constructor.
  - intros k. cbn [init psu]. split; [intros []|]. intros (i & _ & E & _). unfold en in E. rewrite D in E. discriminate.
  - constructor.
  - intros i E. unfold en in E. rewrite D in E. discriminate.
  - intros i. cbn. discriminate.
  - intros i. rewrite D. cbn. discriminate.
Qed.

Lemma ainv_run ops : forall s, Inv cfg s -> AInv s -> AInv (run_ops cfg s ops).
Proof.
  induction ops as [|o l IH]; intros s I A; cbn; [exact A|].
  apply IH; [apply inv_step; assumption | apply ainv_step; assumption].
Qed.

End Aux.

(* ------------------------------------------------------------------------------------------ *)
(* flipper coils are energised only by a software flip or a software repulse with the button held, i.e. only while
   the flipper is enabled *)
Definition flip_coils (c : dcfg) : list Z :=
  if is_flip c then d_coil c :: match d_hold c with Some h => [h] | None => [] end else [].
(* the coils of different flippers are different drivers (and main <> hold) *)
Definition wfc (cfg : list dcfg) : Prop := NoDup (flat_map flip_coils cfg).

Definition mgrb (d : dstate) : Prop := exists l, mgr d = Some (true, l).
Definition dev_ok (c : dcfg) (d : dstate) (cs : list (Z * Z)) : Prop :=
  (cget (d_coil c) cs = 1 -> flipped d = true \/ mgrb d) /\
  (forall h, d_hold c = Some h -> cget h cs = 1 -> flipped d = true).

Section Coil.
Variable cfg : list dcfg.
Hypothesis W : wf cfg.
Hypothesis WC : wfc cfg.

Definition coil_ok (s : state) : Prop :=
  forall i, (i < length cfg)%nat -> is_flip (cf cfg i) = true -> dev_ok (cf cfg i) (dev s i) (coils s).

Lemma coil_ok_ext s s' : devs s' = devs s -> coils s' = coils s -> coil_ok s -> coil_ok s'.
Proof. intros D C H i L F. unfold dev. rewrite D, C. apply (H i L F). Qed.

Lemma main_in_flip_coils c : is_flip c = true -> In (d_coil c) (flip_coils c).
Proof. intros F. unfold flip_coils. rewrite F. left; reflexivity. Qed.
Lemma hold_in_flip_coils c h : is_flip c = true -> d_hold c = Some h -> In h (flip_coils c).
Proof. intros F H. unfold flip_coils. rewrite F, H. right; left; reflexivity. Qed.

Lemma coil_ok_local s s' i :
  coil_ok s ->
  (forall j, j <> i -> dev s' j = dev s j) ->
  (forall c, cget c (coils s') = 1 ->
             cget c (coils s) = 1 \/ ((i < length cfg)%nat /\ In c (flip_coils (cf cfg i)))) ->
  ((i < length cfg)%nat -> is_flip (cf cfg i) = true -> dev_ok (cf cfg i) (dev s' i) (coils s')) ->
  coil_ok s'.
Proof.
  intros H A B C j Lj Fj. destruct (Nat.eq_dec j i) as [->|NE]; [apply C; assumption|].
  rewrite (A j NE). destruct (H j Lj Fj) as [H1 H2]. split.
  - intros X. destruct (B _ X) as [Y | [Li Y]]; [auto|]. exfalso.
    eapply (flat_nodup_disj flip_coils cfg dflt_cfg j i (d_coil (cf cfg j)) WC Lj Li NE);
      [apply main_in_flip_coils, Fj | exact Y].
  - intros h Hh X. destruct (B _ X) as [Y | [Li Y]]; [eauto|]. exfalso.
    eapply (flat_nodup_disj flip_coils cfg dflt_cfg j i h WC Lj Li NE);
      [eapply hold_in_flip_coils; eauto | exact Y].
Qed.

(* a device record is rewritten without touching flipped / manager flags *)
Lemma coil_ok_w_dev_same s i d :
  flipped d = flipped (dev s i) -> mgr d = mgr (dev s i) -> coil_ok s -> coil_ok (w_dev s i d).
Proof.
  intros A B H j Lj Fj. rewrite dev_w_dev. destruct (Nat.eqb j i && _) eqn:E; [|apply (H j Lj Fj)].
  apply andb_true_iff in E as [E _]. apply Nat.eqb_eq in E; subst j.
  destruct (H i Lj Fj) as [H1 H2]. unfold dev_ok, mgrb. rewrite A, B. split; assumption.
Qed.

Lemma coil_ok_set_off s c v : v <> 1 -> coil_ok s -> coil_ok (set_coil s c v).
Proof.
  intros NV H j Lj Fj. destruct (H j Lj Fj) as [H1 H2]. rewrite dev_set_coil. proj. split.
  - rewrite cget_cset. destruct (c =? d_coil (cf cfg j)); [congruence | exact H1].
  - intros h Hh. rewrite cget_cset. destruct (c =? h); [congruence | apply H2, Hh].
Qed.

Lemma coil_ok_release s i : coil_ok s -> coil_ok (dev_release cfg s i).
Proof.
  intros H. unfold dev_release. destruct (is_flip (cf cfg i)) eqn:F; [|exact H].
  set (d := mkDS (enabled (dev s i)) (arules (dev s i)) false (mgr (dev s i)) (hits (dev s i))).
  intros j Lj Fj. rewrite dev_set_ocoil, dev_set_coil. destruct (H j Lj Fj) as [H1 H2].
  assert (CS : forall c, cget c (coils (set_ocoil (set_coil (w_dev s i d) (d_coil (cf cfg i)) 0) (d_hold (cf cfg i)) 0)) = 1 ->
                         cget c (coils s) = 1 /\ c <> d_coil (cf cfg i) /\ d_hold (cf cfg i) <> Some c).
  { intros c. destruct (d_hold (cf cfg i)) as [h|]; proj; rewrite ?cget_cset.
    - destruct (h =? c) eqn:E1; [discriminate|]. destruct (d_coil (cf cfg i) =? c) eqn:E2; [discriminate|].
      apply Z.eqb_neq in E1, E2. intros X. repeat split; auto. congruence.
    - destruct (d_coil (cf cfg i) =? c) eqn:E2; [discriminate|]. apply Z.eqb_neq in E2. intros X. repeat split; auto.
      discriminate. }
  rewrite dev_w_dev. destruct (Nat.eqb j i && _) eqn:E.
  - apply andb_true_iff in E as [E _]. apply Nat.eqb_eq in E; subst j. split.
    + intros X. apply CS in X as (_ & X & _). congruence.
    + intros h Hh X. apply CS in X as (_ & _ & X). congruence.
  - split.
    + intros X. apply CS in X as (X & _). auto.
    + intros h Hh X. apply CS in X as (X & _). eauto.
Qed.

Lemma coil_ok_flip s i : Inv cfg s -> coil_ok s -> coil_ok (dev_flip cfg s i).
Proof.
  intros I H. unfold dev_flip. destruct (is_flip (cf cfg i) && enabled (dev s i)) eqn:E; [|exact H].
  apply andb_true_iff in E as [F E].
  assert (R : (i < length (devs s))%nat) by (apply en_in_range; exact E).
  assert (Li : (i < length cfg)%nat) by (rewrite <- (inv_len _ _ I); exact R).
  set (d := mkDS (enabled (dev s i)) (arules (dev s i)) true (mgr (dev s i)) (hits (dev s i))).
  eapply (coil_ok_local s _ i H).
  - intros j NE. destruct (d_hold (cf cfg i)); rewrite ?dev_set_coil; apply dev_w_dev_other, NE.
  - intros c. destruct (d_hold (cf cfg i)) as [h|] eqn:DH; proj; rewrite ?cget_cset.
    + destruct (h =? c) eqn:E1.
      * apply Z.eqb_eq in E1; subst c. intros _. right. split; [exact Li | eapply hold_in_flip_coils; eauto].
      * destruct (d_coil (cf cfg i) =? c); [discriminate | auto].
    + destruct (d_coil (cf cfg i) =? c) eqn:E1; [|auto].
      apply Z.eqb_eq in E1; subst c. intros _. right. split; [exact Li | apply main_in_flip_coils, F].
  - intros _ _. assert (D : forall s0 : state, devs s0 = devs (w_dev s i d) -> flipped (dev s0 i) = true).
    { intros s0 D0. unfold dev. rewrite D0. fold (dev (w_dev s i d) i). rewrite dev_w_dev_same by exact R. reflexivity. }
    destruct (d_hold (cf cfg i)); (split; [intros _; left | intros h' _ _]); apply D; reflexivity.
Qed.

Lemma coil_ok_w_mgr_on s i b l b' l' :
  mgr (dev s i) = Some (b, l) -> (b = true -> b' = true) -> coil_ok s -> coil_ok (w_mgr s i (Some (b', l'))).
Proof.
  intros M B H j Lj Fj. unfold w_mgr. rewrite dev_w_dev. destruct (Nat.eqb j i && _) eqn:E; [|apply (H j Lj Fj)].
  apply andb_true_iff in E as [E _]. apply Nat.eqb_eq in E; subst j.
  destruct (H i Lj Fj) as [H1 H2]. split; cbn [flipped mgr]; [|exact H2].
  intros X. destruct (H1 X) as [Y | [l0 Y]]; [left; exact Y|]. right. rewrite M in Y. inversion Y; subst.
  rewrite (B eq_refl). exists l'. reflexivity.
Qed.

Lemma coil_ok_button s i b : coil_ok s -> coil_ok (mgr_button cfg s i b).
Proof.
  intros H. unfold mgr_button. destruct (mgr (dev s i)) as [[x l]|] eqn:M; [|exact H].
  destruct b.
  - eapply coil_ok_w_mgr_on; eauto.
  - (* button released: manager flag off, main coil off *)
    intros j Lj Fj. rewrite dev_set_coil. proj. unfold w_mgr. rewrite dev_w_dev.
    destruct (H j Lj Fj) as [H1 H2]. destruct (Nat.eqb j i && _) eqn:E.
    + apply andb_true_iff in E as [E _]. apply Nat.eqb_eq in E; subst j. split; cbn [flipped mgr].
      * rewrite cget_cset, Z.eqb_refl. discriminate.
      * intros h Hh. rewrite cget_cset. destruct (d_coil (cf cfg i) =? h); [discriminate | apply H2, Hh].
    + split.
      * rewrite cget_cset. destruct (d_coil (cf cfg i) =? d_coil (cf cfg j)); [discriminate | exact H1].
      * intros h Hh. rewrite cget_cset. destruct (d_coil (cf cfg i) =? h); [discriminate | apply H2, Hh].
Qed.

Lemma coil_ok_eos_long s i : coil_ok s -> coil_ok (mgr_eos_long s i).
Proof.
  intros H. unfold mgr_eos_long. destruct (mgr (dev s i)) as [[x l]|] eqn:M; [|exact H].
  eapply coil_ok_w_mgr_on; eauto.
Qed.

Lemma coil_ok_eos_on s i : coil_ok s -> coil_ok (mgr_eos_on cfg s i).
Proof.
  intros H. unfold mgr_eos_on. destruct (mgr (dev s i)); [|exact H].
  destruct (d_debounce (cf cfg i) =? 0); [apply coil_ok_eos_long, H|].
  eapply coil_ok_ext; [| |exact H]; reflexivity.
Qed.

Lemma coil_ok_eos_off s i : Inv cfg s -> coil_ok s -> coil_ok (mgr_eos_off cfg s i).
Proof.
  intros I H. unfold mgr_eos_off. destruct (mgr (dev s i)) as [[[|] [|]]|] eqn:M; try exact H.
  assert (MM : mgr (dev s i) <> None) by congruence.
  destruct (inv_mgr _ _ I i MM) as [HM EN].
  assert (R : (i < length (devs s))%nat) by (apply en_in_range; exact EN).
  assert (Li : (i < length cfg)%nat) by (rewrite <- (inv_len _ _ I); exact R).
  assert (F : is_flip (cf cfg i) = true).
  { unfold has_mgr in HM. unfold is_flip. destruct (d_kind (cf cfg i)); [reflexivity | discriminate | discriminate]. }
  eapply (coil_ok_local s _ i H).
  - intros j NE. rewrite dev_set_coil. unfold w_mgr. apply dev_w_dev_other, NE.
  - intros c. proj. rewrite cget_cset. destruct (d_coil (cf cfg i) =? c) eqn:E1; [|auto].
    apply Z.eqb_eq in E1; subst c. intros _. right. split; [exact Li | apply main_in_flip_coils, F].
  - intros _ _. rewrite dev_set_coil. unfold w_mgr. rewrite dev_w_dev_same by exact R.
    destruct (H i Li F) as [H1 H2]. split; cbn [flipped mgr]; proj.
    + intros _. right. exists false. reflexivity.
    + intros h Hh. rewrite cget_cset. destruct (d_coil (cf cfg i) =? h); [rewrite Hh; discriminate | apply H2, Hh].
Qed.

Lemma coil_ok_clear_rules s i rs : coil_ok s -> coil_ok (clear_rules cfg s i rs).
Proof.
  intros H. unfold clear_rules. destruct (mgr (dev s i)) as [[b l]|] eqn:M.
  2:{ eapply coil_ok_ext; [| |exact H]; reflexivity. }
  set (d := mkDS (enabled (dev s i)) (arules (dev s i)) (flipped (dev s i)) None (hits (dev s i))).
  assert (X : forall s0 : state, devs s0 = upd i d (devs s) ->
              (coils s0 = coils s /\ b = false) \/ coils s0 = cset (d_coil (cf cfg i)) 0 (coils s) -> coil_ok s0).
  { intros s0 D C j Lj Fj. destruct (H j Lj Fj) as [H1 H2]. unfold dev. rewrite D. rewrite nth_upd.
    fold (dev s j). destruct (Nat.eqb j i && _) eqn:E.
    - apply andb_true_iff in E as [E _]. apply Nat.eqb_eq in E; subst j. split; cbn [flipped mgr].
      + destruct C as [[C B] | C]; rewrite C.
        * intros Y. destruct (H1 Y) as [Z | [l0 Z]]; [left; exact Z|]. rewrite M in Z. inversion Z; congruence.
        * rewrite cget_cset, Z.eqb_refl. discriminate.
      + intros h Hh. destruct C as [[C B] | C]; rewrite C; [apply H2, Hh|].
        rewrite cget_cset. destruct (d_coil (cf cfg i) =? h); [discriminate | apply H2, Hh].
    - destruct C as [[C B] | C]; rewrite C; [split; assumption|]. split.
      + rewrite cget_cset. destruct (d_coil (cf cfg i) =? d_coil (cf cfg j)); [discriminate | exact H1].
      + intros h Hh. rewrite cget_cset. destruct (d_coil (cf cfg i) =? h); [discriminate | apply H2, Hh]. }
  destruct b; apply X; proj; auto.
Qed.

Lemma coil_ok_disable s i : coil_ok s -> coil_ok (dev_disable cfg s i).
Proof.
  intros H. unfold dev_disable. destruct (is_flip (cf cfg i)).
  - destruct (enabled (dev s i)); [|exact H].
    apply coil_ok_w_dev_same; [reflexivity | reflexivity |].
    destruct (flipped (dev s i)); [apply coil_ok_release|]; apply coil_ok_clear_rules, H.
  - set (s0 := w_timers s (del_tmr (TReenable i) (timers s))).
    assert (H0 : coil_ok s0) by (eapply coil_ok_ext; [| |exact H]; reflexivity).
    destruct (enabled (dev s0 i)); [|exact H0].
    apply coil_ok_clear_rules. apply coil_ok_w_dev_same; [reflexivity | reflexivity | exact H0].
Qed.

Lemma coil_ok_enable s i : Inv cfg s -> coil_ok s -> coil_ok (dev_enable cfg s i).
Proof.
  intros I H. destruct (enabled (dev s i)) eqn:E.
  { unfold dev_enable. rewrite E. exact H. }
  destruct (dev_enable_proj cfg s i E) as (_ & _ & PD & _).
  assert (PC : coils (dev_enable cfg s i) = coils s).
  { unfold dev_enable. rewrite E. destruct (has_mgr (cf cfg i)); reflexivity. }
  intros j Lj Fj. unfold dev. rewrite PD, PC, nth_upd. fold (dev s j). destruct (H j Lj Fj) as [H1 H2].
  destruct (Nat.eqb j i && _) eqn:B; [|split; assumption].
  apply andb_true_iff in B as [B _]. apply Nat.eqb_eq in B; subst j. unfold enabled_dev. split; cbn [flipped mgr].
  - intros X. destruct (H1 X) as [Y | [l Y]]; [left; exact Y|]. exfalso.
    assert (MM : mgr (dev s i) <> None) by congruence. apply (inv_mgr _ _ I) in MM as [_ MM]. unfold en in MM. congruence.
  - exact H2.
Qed.

Lemma coil_ok_hit s i : Inv cfg s -> coil_ok s -> coil_ok (dev_hit cfg s i).
Proof.
  intros I H. unfold dev_hit. destruct (is_flip (cf cfg i)); [exact H|].
  destruct (enabled (dev s i)); cbn [negb]; [|exact H].
  destruct (d_watch (cf cfg i) =? 0); [exact H|].
  match goal with |- context [w_dev s i ?d] => set (s1 := w_dev s i d) end.
  assert (H1 : coil_ok s1) by (apply coil_ok_w_dev_same; [reflexivity | reflexivity | exact H]).
  destruct (d_maxhits (cf cfg i) <=? _); [|exact H1].
  eapply coil_ok_ext; [| |apply coil_ok_disable, H1]; reflexivity.
Qed.

Lemma coil_ok_bs s i : Inv cfg s -> coil_ok s -> coil_ok (dev_bs cfg s i).
Proof.
  intros I H. unfold dev_bs. destruct (d_bs (cf cfg i)); cbn [negb]; [|exact H].
  destruct (is_flip (cf cfg i)); [|apply coil_ok_set_off; [discriminate | exact H]].
  eapply coil_ok_ext; [| |apply coil_ok_flip; eassumption]; reflexivity.
Qed.

Lemma coil_ok_fire s x : Inv cfg s -> coil_ok s -> coil_ok (fire cfg s x).
Proof.
  intros I H. unfold fire. destruct (has_tmr x (timers s)); [|exact H].
  assert (I1 : Inv cfg (w_timers s (del_tmr x (timers s)))).
  { eapply frame_inv; [|exact I]. apply frame_w_timers. intros j. apply has_tmr_del. }
  assert (H1 : coil_ok (w_timers s (del_tmr x (timers s)))) by (eapply coil_ok_ext; [| |exact H]; reflexivity).
  destruct x.
  - apply coil_ok_enable; assumption.
  - apply coil_ok_release; assumption.
  - apply coil_ok_eos_long; assumption.
Qed.

Lemma coil_ok_act s a : Inv cfg s -> coil_ok s -> coil_ok (do_act cfg s a).
Proof.
  intros I H. destruct a; cbn [do_act].
  - apply coil_ok_enable; assumption.
  - apply coil_ok_disable; assumption.
  - apply coil_ok_flip; assumption.
  - apply coil_ok_release; assumption.
  - apply coil_ok_hit; assumption.
  - apply coil_ok_bs; assumption.
  - apply coil_ok_button; assumption.
  - apply coil_ok_eos_on; assumption.
  - apply coil_ok_eos_off; assumption.
  - eapply coil_ok_ext; [| |exact H]; reflexivity.
  - eapply coil_ok_ext; [| |exact H]; reflexivity.
  - apply coil_ok_fire; assumption.
Qed.

Lemma coil_ok_acts l : forall s, Inv cfg s -> coil_ok s -> coil_ok (run_acts cfg s l).
Proof.
  induction l as [|a l IH]; intros s I H; cbn; [exact H|].
  apply IH; [apply inv_act; assumption | apply coil_ok_act; assumption].
Qed.

Lemma coil_ok_step s o : Inv cfg s -> coil_ok s -> coil_ok (step cfg s o).
Proof.
  intros I H. unfold step.
  assert (I0 : Inv cfg (w_log s [])) by (eapply frame_inv; [apply frame_w_log | exact I]).
  assert (H0 : coil_ok (w_log s [])) by (eapply coil_ok_ext; [| |exact H]; reflexivity).
  apply coil_ok_acts; [apply inv_acts; assumption | apply coil_ok_acts; assumption].
Qed.

Lemma coil_ok_run ops : forall s, Inv cfg s -> coil_ok s -> coil_ok (run_ops cfg s ops).
Proof.
  induction ops as [|o l IH]; intros s I H; cbn; [exact H|].
  apply IH; [apply inv_step; assumption | apply coil_ok_step; assumption].
Qed.

Lemma coil_ok_init : coil_ok (init cfg).
Proof. intros i L F. split; [|intros h _]; cbn; discriminate. Qed.

End Coil.

(* ------------------------------------------------------------------------------------------ *)
(* statements used by Props.v *)
Lemma aux_handlers_balanced_l : forall cfg ops, wf cfg ->
  let s := run_ops cfg (init cfg) ops in
  (forall k, In k (psu s) <->
             exists i, (i < length cfg)%nat /\ enabled (dev s i) = true /\ In k (psu_keys (rules_of (cf cfg i)))) /\
  NoDup (psu s) /\
  (forall i, mgr (dev s i) <> None <-> has_mgr (cf cfg i) = true /\ enabled (dev s i) = true) /\
  (forall i, has_tmr (TEosLong i) (timers s) = true -> mgr (dev s i) <> None).
Proof.
  intros cfg ops W s.
  assert (I : Inv cfg s) by (apply inv_run; [exact W | apply inv_init]).
  assert (A : AInv cfg s) by (apply ainv_run; [exact W | apply inv_init | apply ainv_init]).
  split; [apply (a_psu _ _ A)|]. split; [apply (a_psu_nd _ _ A)|]. split.
  - intros i. split; [apply (inv_mgr _ _ I)|]. intros [H E]. apply (a_mgr _ _ A); assumption.
  - apply (a_tmr _ _ A).
Qed.

Lemma flipper_coil_only_while_enabled_l : forall cfg ops i, wf cfg -> wfc cfg ->
  (i < length cfg)%nat -> is_flip (cf cfg i) = true ->
  let s := run_ops cfg (init cfg) ops in
  enabled (dev s i) = false ->
  cget (d_coil (cf cfg i)) (coils s) <> 1 /\
  (forall h, d_hold (cf cfg i) = Some h -> cget h (coils s) <> 1).
Proof.
  intros cfg ops i W WC L F s E.
  assert (I : Inv cfg s) by (apply inv_run; [exact W | apply inv_init]).
  assert (A : AInv cfg s) by (apply ainv_run; [exact W | apply inv_init | apply ainv_init]).
  assert (C : coil_ok cfg s) by (apply coil_ok_run; [exact W | exact WC | apply inv_init | apply coil_ok_init]).
  destruct (C i L F) as [C1 C2].
  assert (NF : flipped (dev s i) <> true).
  { intros X. apply (a_flip _ _ A) in X as [X _]. unfold en in X. congruence. }
  split.
  - intros X. destruct (C1 X) as [Y | [l Y]]; [contradiction|].
    assert (MM : mgr (dev s i) <> None) by congruence. apply (inv_mgr _ _ I) in MM as [_ MM]. unfold en in MM. congruence.
  - intros h Hh X. apply NF. eapply C2; eauto.
Qed.

Lemma disable_releases_coils_full_l : forall cfg ops i, wf cfg -> wfc cfg ->
  (i < length cfg)%nat -> is_flip (cf cfg i) = true ->
  let s := run_ops cfg (init cfg) (ops ++ [Disable i]) in
  cget (d_coil (cf cfg i)) (coils s) <> 1 /\
  (forall h, d_hold (cf cfg i) = Some h -> cget h (coils s) <> 1).
Proof.
  intros cfg ops i W WC L F s. apply flipper_coil_only_while_enabled_l; auto.
  destruct (disable_removes_all_l cfg ops i W L) as [E _]. exact E.
Qed.

Lemma ex_wfc_l : wfc ex_cfg.
Proof. unfold wfc. cbn. repeat constructor; cbn; intuition congruence. Qed.

(* in the example history the repulse has energised coil 1 of the enabled flipper 0, PSU handlers and an EOS manager
   exist; after ball_will_end nothing is left *)
Lemma ex_aux_l :
  let s := run_ops ex_cfg (init ex_cfg) ex_ops1 in
  length (psu s) = 5%nat /\ mgr (dev s 0%nat) = Some (true, false) /\ cget 1 (coils s) = 1 /\
  psu (run_ops ex_cfg (init ex_cfg) (ex_ops1 ++ [Ev ev_ball_will_end])) = [] /\
  cget 1 (coils (run_ops ex_cfg (init ex_cfg) (ex_ops1 ++ [Disable 0%nat]))) = 0.
Proof. vm_compute. repeat split; reflexivity. Qed.

(* the table a platform ends up with does not depend on whether it asserts on overwrite or not *)
Lemma install_tbl_indep_l es : forall t e1 e2, fst (install es (t, e1)) = fst (install es (t, e2)).
Proof.
  induction es as [|[k v] es IH]; intros t e1 e2; cbn [install fst snd]; [reflexivity|].
  destruct (has_key k t); apply IH.
Qed.
