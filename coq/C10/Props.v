From Common Require Import Prelude.
From C10 Require Import Model Lemmas.
