(* C10/Props.v — property theorems only.  Each is closed by [exact] of a lemma from Lemmas.v and followed by
   Print Assumptions (parsed by the check: must be "Closed under the global context").

   Property C10: at every moment the switch-to-coil rules installed on a platform are exactly those of the
   currently enabled flippers, autofire coils and kickbacks; enabling installs each rule once, disabling removes
   all of them, however enable / disable / ball-search / timeout / software-flip requests interleave and repeat;
   after ball_will_end / service_mode_entered no flipper or autofire rule remains and no flipper coil is left
   energised.

   [run_ops cfg (init cfg) ops] is the state of the model (Model.v) after ANY list of operations
   Enable/Disable/SwFlip/SwRelease/BallSearch/Ev/SwOn/SwOff/Advance/AdvanceMs; [drun cfg tr] the same for a lifecycle
   trace (Life.v: game events of the automaton interleaved with such operations); [wf cfg] says that the (switch, coil) keys of
   all rules of all configured devices are pairwise distinct (otherwise virtual.py's overwrite assertion is the
   specified outcome).  The default event wiring ([en_events]/[dis_events] when a device does not override it) is
   gen/Wiring.v, regenerated from mpf/config_spec.yaml on every run. *)
From Common Require Import Prelude.
From C10.gen Require Import Wiring.
From C10 Require Import Model Lemmas AuxLemmas Life LifeLemmas HandoverLemmas.
Open Scope Z_scope.

(* The table is the disjoint union of the rules of the enabled devices: an entry is present iff it is an entry of
   an enabled device, no key is present twice, the overwrite assertion never fired, and every enabled device
   remembers exactly the rules it has to clear. *)
Theorem rules_equal_enabled_devices : forall cfg ops, wf cfg ->
  let s := run_ops cfg (init cfg) ops in
  (forall kv, In kv (tbl s) <->
              exists i, (i < length cfg)%nat /\ enabled (dev s i) = true /\ In kv (entries_of (cf cfg i))) /\
  NoDup (map fst (tbl s)) /\ err s = false /\
  (forall i, enabled (dev s i) = true -> arules (dev s i) = rules_of (cf cfg i)).
Proof. exact rules_equal_enabled_devices_l. Qed.
Print Assumptions rules_equal_enabled_devices.

(* enable() twice = enable() once: same state, in particular no further platform call in the log *)
Theorem enable_idempotent : forall cfg s i, wf cfg -> (i < length (devs s))%nat ->
  do_act cfg (do_act cfg s (AEnable i)) (AEnable i) = do_act cfg s (AEnable i).
Proof. exact enable_idempotent_l. Qed.
Print Assumptions enable_idempotent.

(* after any history, Disable i leaves device i off, none of its keys in the platform, no pending timeout
   re-enable and no software EOS manager *)
Theorem disable_removes_all : forall cfg ops i, wf cfg -> (i < length cfg)%nat ->
  let s := run_ops cfg (init cfg) (ops ++ [Disable i]) in
  enabled (dev s i) = false /\
  (forall k, In k (keys_of (cf cfg i)) -> has_key k (tbl s) = false) /\
  has_tmr (TReenable i) (timers s) = false /\
  mgr (dev s i) = None.
Proof. exact disable_removes_all_l. Qed.
Print Assumptions disable_removes_all.

(* For a device with the default wiring of config_spec.yaml: after ball_will_end or service_mode_entered, and after
   any further operations that do not enable it again (no Enable i, no event of its enable list - timers, switch
   hits, ball search, software flips, other devices' traffic and further disables are all allowed), the device is
   off, none of its rules is in the platform, no timeout re-enable is pending (timeout_reenable_never_after_disable)
   and no software EOS manager is left. *)
Theorem no_rules_outside_ball : forall cfg ops1 e ops2 i,
  wf cfg -> (i < length cfg)%nat ->
  d_en_ev (cf cfg i) = None -> d_dis_ev (cf cfg i) = None ->
  e = ev_ball_will_end \/ e = ev_service_mode_entered ->
  Forall (passive cfg i) ops2 ->
  let s := run_ops cfg (init cfg) (ops1 ++ Ev e :: ops2) in
  enabled (dev s i) = false /\
  (forall k, In k (keys_of (cf cfg i)) -> has_key k (tbl s) = false) /\
  has_tmr (TReenable i) (timers s) = false /\
  mgr (dev s i) = None.
Proof. exact no_rules_outside_ball_l. Qed.
Print Assumptions no_rules_outside_ball.

(* "no flipper coil is left energised" / "cabinet buttons cannot fire coils", FULL statement: in EVERY reachable state a
   flipper that is not enabled has neither its main nor its hold coil energised (VirtualDriver.state = enabled), for
   every interleaving of button / EOS switch changes, debounce timers, software flips, ball search, timeouts and
   enable / disable of any device.  [wfc]: the main and hold coils of all flippers are pairwise different drivers. *)
Theorem flipper_coil_only_while_enabled : forall cfg ops i, wf cfg -> wfc cfg ->
  (i < length cfg)%nat -> is_flip (cf cfg i) = true ->
  let s := run_ops cfg (init cfg) ops in
  enabled (dev s i) = false ->
  cget (d_coil (cf cfg i)) (coils s) <> 1 /\
  (forall h, d_hold (cf cfg i) = Some h -> cget h (coils s) <> 1).
Proof. exact flipper_coil_only_while_enabled_l. Qed.
Print Assumptions flipper_coil_only_while_enabled.

(* ... in particular after any history followed by Disable i (was disable_releases_coils_partial, which covered the
   disable step only under an unproved hypothesis on the state before it) *)
Theorem disable_releases_coils : forall cfg ops i, wf cfg -> wfc cfg ->
  (i < length cfg)%nat -> is_flip (cf cfg i) = true ->
  let s := run_ops cfg (init cfg) (ops ++ [Disable i]) in
  cget (d_coil (cf cfg i)) (coils s) <> 1 /\
  (forall h, d_hold (cf cfg i) = Some h -> cget h (coils s) <> 1).
Proof. exact disable_releases_coils_full_l. Qed.
Print Assumptions disable_releases_coils.

(* aux_handlers_balanced: after every history the PSU-notification switch handlers are exactly the first key of every
   rule of every enabled device, each registered once; a software EOS repulse manager exists for exactly the enabled
   flippers configured with repulse_on_eos_open (created on enable, removed on disable, never for a disabled device);
   a pending timed "EOS closed long enough" handler always belongs to a live manager. *)
Theorem aux_handlers_balanced : forall cfg ops, wf cfg ->
  let s := run_ops cfg (init cfg) ops in
  (forall k, In k (psu s) <->
             exists i, (i < length cfg)%nat /\ enabled (dev s i) = true /\ In k (psu_keys (rules_of (cf cfg i)))) /\
  NoDup (psu s) /\
  (forall i, mgr (dev s i) <> None <-> has_mgr (cf cfg i) = true /\ enabled (dev s i) = true) /\
  (forall i, has_tmr (TEosLong i) (timers s) = true -> mgr (dev s i) <> None).
Proof. exact aux_handlers_balanced_l. Qed.
Print Assumptions aux_handlers_balanced.

(* Devices that SHARE keys (a normal and a weak flipper on the same button and coil(s), swapped by one event) are
   outside [wf].  [swap_safe]: devices that share a key are flippers, and every event in the enable list of one of them
   is in the disable list of the other and not in its enable list; [op_ok]: a direct enable() (not through an event)
   only for a device that shares nothing.  Then for ALL histories the table is still exactly the rules of the enabled
   devices, no rule is ever written over another one (err = false: virtual.py's assertion never fires; on an
   overwriting platform no rule of an enabled flipper is wiped by the clear of the other), and two devices that
   share a key are never enabled together.  This holds because [acts_of (Ev e)] runs the event_disable handlers
   (priority 10) of ALL devices before the event_enable handlers (priority 1) - the order the correspondence run checks
   against the real EventManager on the `handover` histories. *)
Theorem handover_rules_equal_enabled_devices : forall cfg ops,
  (forall i, NoDup (keys_of (cf cfg i))) -> swap_safe cfg -> Forall (op_ok cfg) ops ->
  let s := run_ops cfg (init cfg) ops in
  (forall kv, In kv (tbl s) <->
              exists i, (i < length cfg)%nat /\ enabled (dev s i) = true /\ In kv (entries_of (cf cfg i))) /\
  NoDup (map fst (tbl s)) /\ err s = false /\
  (forall i j, i <> j -> (i < length cfg)%nat -> (j < length cfg)%nat ->
               enabled (dev s i) = true -> enabled (dev s j) = true -> disj cfg i j).
Proof. exact handover_rules_equal_enabled_devices_l. Qed.
Print Assumptions handover_rules_equal_enabled_devices.

(* Platforms that overwrite silently (FAST/OPP-like; the harness runs a share of the histories with virtual.py's
   assertion switched off): the table written by a sequence of set_*_rule calls does not depend on the assertion
   flag, so [tbl] above IS the table of an overwriting platform and rules_equal_enabled_devices holds there verbatim
   (its [err s = false] conjunct then says that no rule was ever written over another one). *)
Theorem rule_table_independent_of_assertion : forall es t e1 e2,
  fst (install es (t, e1)) = fst (install es (t, e2)).
Proof. exact install_tbl_indep_l. Qed.
Print Assumptions rule_table_independent_of_assertion.

(* ------------------------------------------------------------------------------------------ *)
(* the game lifecycle (Life.v): [lrun l0 tr = Some ls] says that the lifecycle events of the trace are a run of the
   automaton of game.py / tilt.py / service_controller.py (game start, balls, tilt, slam tilt, service mode stopping
   the game WITHOUT ball_will_end, game end); [env_ok] allows ANY other operation on the devices between them (while a
   ball is in play: everything; outside: everything that does not itself ask device i to enable).  A device is
   [ball_scoped] if ball_will_end and service_mode_entered disable it and no lifecycle event other than ball_started
   enables it: the default wiring of config_spec.yaml is (next theorem), custom enable_events / disable_events may be.
   Then whenever no ball is in play - before the first ball, between balls, after the game, in service mode, after a
   tilt ended the ball - device i is off, none of its rules is installed, no timeout re-enable is pending, no EOS
   manager is left, and (flipper) none of its coils is energised. *)
Theorem lifecycle_no_rules_outside_ball : forall cfg tr i ls,
  wf cfg -> (i < length cfg)%nat -> ball_scoped (cf cfg i) ->
  lrun l0 tr = Some ls -> env_ok cfg i l0 tr ->
  in_ball ls = false ->
  let s := drun cfg tr in
  enabled (dev s i) = false /\
  (forall k, In k (keys_of (cf cfg i)) -> has_key k (tbl s) = false) /\
  has_tmr (TReenable i) (timers s) = false /\
  mgr (dev s i) = None /\
  (wfc cfg -> is_flip (cf cfg i) = true ->
   cget (d_coil (cf cfg i)) (coils s) <> 1 /\ (forall h, d_hold (cf cfg i) = Some h -> cget h (coils s) <> 1)).
Proof. exact lifecycle_no_rules_outside_ball_l. Qed.
Print Assumptions lifecycle_no_rules_outside_ball.

(* the defaults translated from config_spec.yaml are ball scoped (breaks when a default changes) *)
Theorem default_wiring_ball_scoped : forall c, d_en_ev c = None -> d_dis_ev c = None -> ball_scoped c.
Proof. exact default_ball_scoped_l. Qed.
Print Assumptions default_wiring_ball_scoped.

(* "the machine tilts": a tilt accepted while Game._run_ball is running a ball (ball_will_start .. ball_will_end)
   leaves the game tilted with a ball in play only while the end-of-ball request it made is still pending, i.e.
   ball_will_end is the next game event; afterwards lifecycle_no_rules_outside_ball applies. *)
Theorem tilt_in_ball_ends_ball : forall tr s,
  lrun l0 tr = Some s -> tilts_in_ball l0 tr ->
  l_tilted s = true -> in_ball s = true -> l_endreq s = true.
Proof. exact tilt_in_ball_ends_ball_l. Qed.
Print Assumptions tilt_in_ball_ends_ball.

(* FULL statement wanted: the same without [tilts_in_ball].  It is false of the faithful automaton (known finding
   tilt-accepted-between-balls-sticks): a tilt accepted while ball_ending is held sets game.tilted, its end-of-ball
   request is wiped by the next Game._run_ball, and the next ball is played tilted with all rules installed.
   Replayed on the implementation by corpus/C10/game.1.json. *)
Theorem tilt_between_balls_sticks_refuted :
  exists tr s, lrun l0 tr = Some s /\ l_tilted s = true /\ in_ball s = true /\ l_endreq s = false /\
               enabled (dev (drun ex_cfg tr) 0%nat) = true /\ tbl (drun ex_cfg tr) <> [].
Proof. exact tilt_between_balls_sticks_l. Qed.
Print Assumptions tilt_between_balls_sticks_refuted.

(* ------------------------------------------------------------------------------------------ *)
(* satisfiability of the hypotheses on a non-trivial machine: a single-wound flipper with EOS and software
   repulse, a dual-wound flipper on the same button, an autofire coil with timeout protection, a kickback *)
Example ex_wf : wf ex_cfg.
Proof. exact ex_wf_l. Qed.
Print Assumptions ex_wf.

(* ... on which a history with a timeout trip, a software repulse and a ball end is non-trivial: rules were
   installed, the ball end removes those of the default-wired devices, and the hypotheses of
   no_rules_outside_ball hold for device 0 with a non-empty passive continuation *)
Example ex_history :
  length (tbl (run_ops ex_cfg (init ex_cfg) ex_ops1)) = 6%nat /\
  cget 1 (coils (run_ops ex_cfg (init ex_cfg) ex_ops1)) = 1 /\
  d_en_ev (cf ex_cfg 0) = None /\ d_dis_ev (cf ex_cfg 0) = None /\
  Forall (passive ex_cfg 0) ex_ops2 /\ ex_ops2 <> [] /\
  tbl (run_ops ex_cfg (init ex_cfg) (ex_ops1 ++ Ev ev_ball_will_end :: ex_ops2)) = [] /\
  cget 1 (coils (run_ops ex_cfg (init ex_cfg) (ex_ops1 ++ Ev ev_ball_will_end :: ex_ops2))) = 0.
Proof. exact ex_history_l. Qed.
Print Assumptions ex_history.

(* a state in which a repulse HAS energised the coil of the enabled flipper 0 (so the coil theorems are not vacuous) *)
Example ex_coil_held :
  let s := run_ops ex_cfg (init ex_cfg) ex_ops1 in
  is_flip (cf ex_cfg 0) = true /\ enabled (dev s 0%nat) = true /\ cget 1 (coils s) = 1 /\
  flipped (dev s 0%nat) = false /\ mgr (dev s 0%nat) = Some (true, false).
Proof. exact ex_coil_held_l. Qed.
Print Assumptions ex_coil_held.

Example ex_wfc : wfc ex_cfg.
Proof. exact ex_wfc_l. Qed.
Print Assumptions ex_wfc.

(* PSU handlers and an EOS manager exist in that state; ball_will_end removes them, Disable 0 releases the coil *)
Example ex_aux :
  let s := run_ops ex_cfg (init ex_cfg) ex_ops1 in
  length (psu s) = 5%nat /\ mgr (dev s 0%nat) = Some (true, false) /\ cget 1 (coils s) = 1 /\
  psu (run_ops ex_cfg (init ex_cfg) (ex_ops1 ++ [Ev ev_ball_will_end])) = [] /\
  cget 1 (coils (run_ops ex_cfg (init ex_cfg) (ex_ops1 ++ [Disable 0%nat]))) = 0.
Proof. exact ex_aux_l. Qed.
Print Assumptions ex_aux.

(* a lifecycle trace (two balls, a tilt in the first, service mode in the second, device traffic in between) that
   satisfies every hypothesis of lifecycle_no_rules_outside_ball and tilt_in_ball_ends_ball and is non-trivial *)
Example ex_trace_ok :
  (exists ls, lrun l0 ex_trace = Some ls /\ in_ball ls = false) /\
  env_ok ex_cfg 0 l0 ex_trace /\ tilts_in_ball l0 ex_trace /\ ball_scoped (cf ex_cfg 0) /\
  length (tbl (drun ex_cfg (firstn 17 ex_trace))) = 4%nat /\
  cget 1 (coils (drun ex_cfg (firstn 17 ex_trace))) = 1 /\
  tbl (drun ex_cfg ex_trace) = [] /\ cget 1 (coils (drun ex_cfg ex_trace)) = 0.
Proof. exact ex_trace_ok_l. Qed.
Print Assumptions ex_trace_ok.

(* a machine with a normal and a weak flipper on the same button and coils (NOT wf) next to an autofire coil satisfies
   the hypotheses of handover_rules_equal_enabled_devices, with a history that swaps them three times *)
Example ex_handover_swap_safe : (forall i, NoDup (keys_of (cf ho_cfg i))) /\ swap_safe ho_cfg.
Proof. exact (conj ho_nodup ho_swap_safe_l). Qed.
Print Assumptions ex_handover_swap_safe.

Example ex_handover :
  Forall (op_ok ho_cfg) ho_ops /\ ~ wf ho_cfg /\
  let s := run_ops ho_cfg (init ho_cfg) ho_ops in
  map (fun d => enabled d) (devs s) = [false; true; true] /\ length (tbl s) = 3%nat /\ err s = false.
Proof. exact ho_example_l. Qed.
Print Assumptions ex_handover.
