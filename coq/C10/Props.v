(* C10/Props.v — property theorems only.  Each is closed by [exact] of a lemma from Lemmas.v and followed by
   Print Assumptions (parsed by the check: must be "Closed under the global context").

   Property C10: at every moment the switch-to-coil rules installed on a platform are exactly those of the
   currently enabled flippers, autofire coils and kickbacks; enabling installs each rule once, disabling removes
   all of them, however enable / disable / ball-search / timeout / software-flip requests interleave and repeat;
   after ball_will_end / service_mode_entered no flipper or autofire rule remains and no flipper coil is left
   energised.

   [run_ops cfg (init cfg) ops] is the state of the model (Model.v) after ANY list of operations
   Enable/Disable/SwFlip/SwRelease/BallSearch/Ev/SwOn/SwOff/Advance; [wf cfg] says that the (switch, coil) keys of
   all rules of all configured devices are pairwise distinct (otherwise virtual.py's overwrite assertion is the
   specified outcome).  The default event wiring ([en_events]/[dis_events] when a device does not override it) is
   gen/Wiring.v, regenerated from mpf/config_spec.yaml on every run. *)
From Common Require Import Prelude.
From C10.gen Require Import Wiring.
From C10 Require Import Model Lemmas.
Open Scope Z_scope.

(* The table is the disjoint union of the rules of the enabled devices: an entry is present iff it is an entry of
   an enabled device, no key is present twice, the overwrite assertion never fired, and every enabled device
   remembers exactly the rules it has to clear. *)
Theorem rules_equal_enabled_devices : forall cfg ops, wf cfg ->
  let s := run_ops cfg (init cfg) ops in
  (forall kv, In kv (tbl s) <->
              exists i, (i < length cfg)%nat /\ enabled (dev s i) = true /\ In kv (entries_of (cf cfg i))) /\
  NoDup (map fst (tbl s)) /\ err s = false /\
  (forall i, enabled (dev s i) = true -> arules (dev s i) = rules_of (cf cfg i)).
Proof. exact rules_equal_enabled_devices_l. Qed.
Print Assumptions rules_equal_enabled_devices.

(* enable() twice = enable() once: same state, in particular no further platform call in the log *)
Theorem enable_idempotent : forall cfg s i, wf cfg -> (i < length (devs s))%nat ->
  do_act cfg (do_act cfg s (AEnable i)) (AEnable i) = do_act cfg s (AEnable i).
Proof. exact enable_idempotent_l. Qed.
Print Assumptions enable_idempotent.

(* after any history, Disable i leaves device i off, none of its keys in the platform, no pending timeout
   re-enable and no software EOS manager *)
Theorem disable_removes_all : forall cfg ops i, wf cfg -> (i < length cfg)%nat ->
  let s := run_ops cfg (init cfg) (ops ++ [Disable i]) in
  enabled (dev s i) = false /\
  (forall k, In k (keys_of (cf cfg i)) -> has_key k (tbl s) = false) /\
  has_tmr (TReenable i) (timers s) = false /\
  mgr (dev s i) = None.
Proof. exact disable_removes_all_l. Qed.
Print Assumptions disable_removes_all.

(* For a device with the default wiring of config_spec.yaml: after ball_will_end or service_mode_entered, and after
   any further operations that do not enable it again (no Enable i, no event of its enable list - timers, switch
   hits, ball search, software flips, other devices' traffic and further disables are all allowed), the device is
   off, none of its rules is in the platform, no timeout re-enable is pending (timeout_reenable_never_after_disable)
   and no software EOS manager is left. *)
Theorem no_rules_outside_ball : forall cfg ops1 e ops2 i,
  wf cfg -> (i < length cfg)%nat ->
  d_en_ev (cf cfg i) = None -> d_dis_ev (cf cfg i) = None ->
  e = ev_ball_will_end \/ e = ev_service_mode_entered ->
  Forall (passive cfg i) ops2 ->
  let s := run_ops cfg (init cfg) (ops1 ++ Ev e :: ops2) in
  enabled (dev s i) = false /\
  (forall k, In k (keys_of (cf cfg i)) -> has_key k (tbl s) = false) /\
  has_tmr (TReenable i) (timers s) = false /\
  mgr (dev s i) = None.
Proof. exact no_rules_outside_ball_l. Qed.
Print Assumptions no_rules_outside_ball.

(* "no flipper coil is left energised": FULL statement wanted:
     forall cfg ops1 e ops2 i (as above, i a flipper), in the final state cget (main coil) <> 1 /\ cget (hold coil) <> 1.
   Proved here (_partial): the disable step itself.  If the flipper's coils are energised only by what the model
   can energise them with (a software flip, or a software EOS repulse while the button is active) then after
   Flipper.disable neither coil is energised.  Missing: that this hypothesis is an invariant of all histories
   (needs the coils of different devices to be distinct); it is validated by the correspondence runs and checked
   directly on the implementation by the oracle (sig flipper-coil-energised-while-disabled) on every run. *)
Theorem disable_releases_coils_partial : forall cfg s i,
  is_flip (cf cfg i) = true -> enabled (dev s i) = true ->
  (cget (d_coil (cf cfg i)) (coils s) = 1 ->
     flipped (dev s i) = true \/ exists l, mgr (dev s i) = Some (true, l)) ->
  (forall h, d_hold (cf cfg i) = Some h -> cget h (coils s) = 1 -> flipped (dev s i) = true) ->
  let s' := dev_disable cfg s i in
  cget (d_coil (cf cfg i)) (coils s') <> 1 /\
  (forall h, d_hold (cf cfg i) = Some h -> cget h (coils s') <> 1).
Proof. exact disable_releases_coils_l. Qed.
Print Assumptions disable_releases_coils_partial.

(* ------------------------------------------------------------------------------------------ *)
(* satisfiability of the hypotheses on a non-trivial machine: a single-wound flipper with EOS and software
   repulse, a dual-wound flipper on the same button, an autofire coil with timeout protection, a kickback *)
Example ex_wf : wf ex_cfg.
Proof. exact ex_wf_l. Qed.
Print Assumptions ex_wf.

(* ... on which a history with a timeout trip, a software repulse and a ball end is non-trivial: rules were
   installed, the ball end removes those of the default-wired devices, and the hypotheses of
   no_rules_outside_ball hold for device 0 with a non-empty passive continuation *)
Example ex_history :
  length (tbl (run_ops ex_cfg (init ex_cfg) ex_ops1)) = 6%nat /\
  cget 1 (coils (run_ops ex_cfg (init ex_cfg) ex_ops1)) = 1 /\
  d_en_ev (cf ex_cfg 0) = None /\ d_dis_ev (cf ex_cfg 0) = None /\
  Forall (passive ex_cfg 0) ex_ops2 /\ ex_ops2 <> [] /\
  tbl (run_ops ex_cfg (init ex_cfg) (ex_ops1 ++ Ev ev_ball_will_end :: ex_ops2)) = [] /\
  cget 1 (coils (run_ops ex_cfg (init ex_cfg) (ex_ops1 ++ Ev ev_ball_will_end :: ex_ops2))) = 0.
Proof. exact ex_history_l. Qed.
Print Assumptions ex_history.

(* the hypotheses of disable_releases_coils_partial hold in a state where the coil IS energised by a repulse *)
Example ex_coil_held :
  let s := run_ops ex_cfg (init ex_cfg) ex_ops1 in
  is_flip (cf ex_cfg 0) = true /\ enabled (dev s 0%nat) = true /\ cget 1 (coils s) = 1 /\
  flipped (dev s 0%nat) = false /\ mgr (dev s 0%nat) = Some (true, false).
Proof. exact ex_coil_held_l. Qed.
Print Assumptions ex_coil_held.
