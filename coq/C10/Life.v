(* C10/Life.v — the game lifecycle as an automaton over the events the real game posts, composed with the device
   model of Model.v.

   Code modelled:
     mpf/modes/game/code/game.py   _run / _start_game / _start_player_turn / _run_ball / _start_ball / _end_ball /
                                   _end_player_turn / _end_game: the ORDER of the lifecycle events, and the
                                   end-of-ball request (_end_ball_event: set by end_ball(), cleared at the start of
                                   _run_ball, consumed by ball_will_end)
     mpf/modes/tilt/code/tilt.py   tilt(): accepted iff a game runs and it is not tilted -> game.tilted, event `tilt`,
                                   game.end_ball(); _tilt_done(): game.tilted cleared, event `tilt_clear`;
                                   slam_tilt(): event `slam_tilt` (then tilt())
     mpf/core/service_controller.py  start_service(): all modes incl. the game are stopped (NO ball_will_end), then
                                   `service_mode_entered`; stop_service(): `service_mode_exited`, machine reset
   The automaton is nondeterministic where the code branches on data that is not modelled (extra balls, last ball,
   number of players).  Every run of the `game` suite checks, inside coqc, that the event sequence the real game
   posted is accepted by [lstep], that [in_ball]/[tilted] agree with game.balls_in_play / game.tilted after every
   event, and that the device model driven by those events predicts the rule table.  Definitions only. *)
From Common Require Import Prelude.
From C10.gen Require Import Wiring.
From C10 Require Import Model.
Open Scope Z_scope.

Inductive lev :=
| GameWillStart | GameStarting | GameStarted
| TurnWillStart | TurnStarting | TurnStarted
| BallWillStart | BallStarting | BallStarted
| BallWillEnd | BallEnding | BallEnded
| TurnWillEnd | TurnEnding | TurnEnded
| GameWillEnd | GameEnding | GameEnded
| Tilt | SlamTilt | TiltClear
| ServiceEntered | ServiceExited.

Definition lev_name (l : lev) : bytes :=
  match l with
  | GameWillStart => ev_game_will_start | GameStarting => ev_game_starting | GameStarted => ev_game_started
  | TurnWillStart => ev_player_turn_will_start | TurnStarting => ev_player_turn_starting
  | TurnStarted => ev_player_turn_started
  | BallWillStart => ev_ball_will_start | BallStarting => ev_ball_starting | BallStarted => ev_ball_started
  | BallWillEnd => ev_ball_will_end | BallEnding => ev_ball_ending | BallEnded => ev_ball_ended
  | TurnWillEnd => ev_player_turn_will_end | TurnEnding => ev_player_turn_ending
  | TurnEnded => ev_player_turn_ended
  | GameWillEnd => ev_game_will_end | GameEnding => ev_game_ending | GameEnded => ev_game_ended
  | Tilt => ev_tilt | SlamTilt => ev_slam_tilt | TiltClear => ev_tilt_clear
  | ServiceEntered => ev_service_mode_entered | ServiceExited => ev_service_mode_exited
  end.

(* position in the game: the last game event posted *)
Inductive phase := Idle | InService | After (g : lev).

Record lstate := mkL {
  ph : phase;
  l_tilted : bool;        (* game.tilted *)
  l_endreq : bool;        (* Game._end_ball_event was set by Tilt.tilt() -> game.end_ball() (ghost: other requests -
                             drain, end_game - are not lifecycle events and are not tracked) *)
  l_wait : bool           (* the tilt mode's ball_ending handler holds the ball_ending queue until _tilt_done *)
}.
Definition l0 : lstate := mkL Idle false false false.

(* successor relation of the game events (game.py) *)
Definition gnext (p : phase) (g : lev) : bool :=
  match p, g with
  | Idle, GameWillStart => true
  | After GameWillStart, GameStarting => true
  | After GameStarting, GameStarted => true
  | After GameStarted, TurnWillStart => true
  | After GameStarted, GameWillEnd => true                 (* end_game() before the first turn *)
  | After TurnWillStart, TurnStarting => true
  | After TurnStarting, TurnStarted => true
  | After TurnStarted, BallWillStart => true
  | After BallWillStart, BallStarting => true
  | After BallStarting, BallStarted => true
  | After BallStarted, BallWillEnd => true
  | After BallWillEnd, BallEnding => true
  | After BallEnding, BallEnded => true
  | After BallEnded, BallWillStart => true                 (* extra ball *)
  | After BallEnded, TurnWillEnd => true
  | After TurnWillEnd, TurnEnding => true
  | After TurnEnding, TurnEnded => true
  | After TurnEnded, TurnWillStart => true                 (* next ball / next player *)
  | After TurnEnded, GameWillEnd => true
  | After GameWillEnd, GameEnding => true
  | After GameEnding, GameEnded => true
  | _, _ => false
  end.

Definition has_game (p : phase) : bool := match p with After _ => true | _ => false end.
Definition in_ball (s : lstate) : bool := match ph s with After BallStarted => true | _ => false end.
(* Game._run_ball: between its _end_ball_event.clear() and its wait() *)
Definition running_ball (p : phase) : bool :=
  match p with After BallWillStart | After BallStarting | After BallStarted => true | _ => false end.

(* effect of an accepted game event on the flags *)
Definition gupd (s : lstate) (g : lev) : lstate :=
  match g with
  | GameWillStart => mkL (After g) false false false                          (* Game._run: fresh game *)
  | BallWillStart => mkL (After g) (l_tilted s) false (l_wait s)              (* _run_ball: _end_ball_event.clear() *)
  | BallEnding => mkL (After g) (l_tilted s) (l_endreq s) (l_tilted s)        (* Tilt._ball_ending_tilted: queue.wait() *)
  | GameEnded => mkL Idle false false false                                   (* the game object is dropped *)
  | _ => mkL (After g) (l_tilted s) (l_endreq s) (l_wait s)
  end.

Definition is_ball_ended (g : lev) : bool := match g with BallEnded => true | _ => false end.

Definition lstep (s : lstate) (l : lev) : option lstate :=
  match l with
  | Tilt =>
      (* Tilt.tilt(): only with a game that is not tilted; sets game.tilted and requests the end of the ball *)
      if has_game (ph s) && negb (l_tilted s) then Some (mkL (ph s) true true (l_wait s)) else None
  | SlamTilt => Some s
  | TiltClear => Some (mkL (ph s) false (l_endreq s) false)                   (* Tilt._tilt_done *)
  | ServiceEntered =>
      match ph s with InService => None | _ => Some (mkL InService false false false) end
  | ServiceExited =>
      match ph s with InService => Some (mkL Idle false false false) | _ => None end
  | g =>
      (* ball_ended is posted only after the ball_ending queue was released *)
      if gnext (ph s) g && negb (is_ball_ended g && l_wait s) then Some (gupd s g) else None
  end.

(* a trace: lifecycle events posted by the game, interleaved with arbitrary other operations on the devices *)
Inductive item := LEv (l : lev) | LOp (o : op).

Definition item_op (x : item) : op := match x with LEv l => Ev (lev_name l) | LOp o => o end.

Fixpoint lrun (s : lstate) (tr : list item) : option lstate :=
  match tr with
  | [] => Some s
  | LEv l :: tr' => match lstep s l with Some s' => lrun s' tr' | None => None end
  | LOp _ :: tr' => lrun s tr'
  end.

(* the device state after a trace *)
Definition drun (cfg : list dcfg) (tr : list item) : state := run_ops cfg (init cfg) (map item_op tr).

(* ------------------------------------------------------------------------------------------ *)
(* executable form for the correspondence run of the `game` suite: after every item
   [accepted; in_ball; tilted] and the device observation *)
Definition b2z' (b : bool) : Z := if b then 1 else 0.

Fixpoint ltrace (cfg : list dcfg) (ls : option lstate) (s : state) (tr : list (list item))
  : list (list Z * list (list Z)) :=
  match tr with
  | [] => []
  | xs :: tr' =>
      let ls' := match ls with Some l => lrun l xs | None => None end in
      let s' := run_ops cfg s (map item_op xs) in
      (match ls' with
       | Some l => [1; b2z' (in_ball l); b2z' (l_tilted l); b2z' (l_endreq l)]
       | None => [0; 0; 0; 0]
       end,
       [ flat_map (fun e => [fst (fst e); snd (fst e); snd e]) (fold_right ins_e [] (tbl s'));
         map (fun d => b2z' (enabled d)) (devs s');
         map (fun c => cget c (coils s')) (all_coils cfg) ]) :: ltrace cfg ls' s' tr'
  end.

Definition c10_game_run (inp : list dcfg * list (list item)) :=
  ltrace (fst inp) (Some l0) (init (fst inp)) (snd inp).
(* a = model, b = observed.
   - ball in play: game.balls_in_play > 0 drops when the last ball drains, a moment before ball_will_end is posted; a
     tilt / tilt_clear dispatched in that window reports 2 = "not compared";
   - tilted: tilt() / _tilt_done() change game.tilted BEFORE the event that announces the change is dispatched; an event
     that was already queued and is dispatched in between reports 2 (only then; at the end of every step, when the
     queue has run dry, the flags must be equal);
   - end-of-ball request: the automaton tracks only the request made by a tilt, the implementation's flag is also set by
     drains and end_game(): model = 1 must imply observed = 1. *)
Definition flags_eqb (a b : list Z) : bool :=
  match a, b with
  | [a1; a2; a3; a4], [b1; b2; b3; b4] =>
      (a1 =? b1) && ((b2 =? 2) || (a2 =? b2)) && ((b3 =? 2) || (a3 =? b3)) && (negb (a4 =? 1) || (b4 =? 1))
  | _, _ => false
  end.
Definition gobs_eqb (a b : list Z * list (list Z)) : bool := flags_eqb (fst a) (fst b) && zss_eqb (snd a) (snd b).
Definition c10_game_out_eqb := list_eqb gobs_eqb.
