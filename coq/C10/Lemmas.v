(* C10/Lemmas.v — proofs about Model.v *)
From Common Require Import Prelude.
From C10.gen Require Import Wiring.
From C10 Require Import Model.
Open Scope Z_scope.

(* ------------------------------------------------------------------------------------------ *)
(* basics *)
Lemma key_eqb_eq a b : key_eqb a b = true <-> a = b.
Proof.
  destruct a as [a1 a2], b as [b1 b2]; unfold key_eqb; cbn [fst snd].
  rewrite andb_true_iff, !Z.eqb_eq. split; [intros [-> ->]; reflexivity | intros E; inversion E; auto].
Qed.
Lemma key_eqb_refl a : key_eqb a a = true.
Proof. apply key_eqb_eq; reflexivity. Qed.
Lemma key_eqb_neq a b : key_eqb a b = false <-> a <> b.
Proof.
  split; intros H.
  - intros E. apply key_eqb_eq in E. congruence.
  - destruct (key_eqb a b) eqn:E; [apply key_eqb_eq in E; contradiction | reflexivity].
Qed.

Lemma nth_upd {A} (l : list A) i j x d :
  nth j (upd i x l) d = if Nat.eqb j i && Nat.ltb i (length l) then x else nth j l d.
Proof.
  revert i j; induction l as [|h t IH]; intros i j.
  - cbn. rewrite andb_false_r. destruct i; reflexivity.
  - destruct i as [|i]; destruct j as [|j]; cbn [upd nth length]; try reflexivity.
    rewrite IH. cbn [Nat.eqb]. replace (Nat.ltb (S i) (S (length t))) with (Nat.ltb i (length t)); [reflexivity|].
    reflexivity.
Qed.
Lemma length_upd {A} (l : list A) i x : length (upd i x l) = length l.
Proof. revert i; induction l as [|h t IH]; intros [|i]; cbn; auto. Qed.

Lemma dev_w_dev s i j d :
  dev (w_dev s i d) j = if Nat.eqb j i && Nat.ltb i (length (devs s)) then d else dev s j.
Proof. unfold dev, w_dev. cbn [devs w_devs]. apply nth_upd. Qed.
Lemma dev_w_dev_same s i d : (i < length (devs s))%nat -> dev (w_dev s i d) i = d.
Proof.
  intros H. rewrite dev_w_dev, Nat.eqb_refl. apply Nat.ltb_lt in H. rewrite H. reflexivity.
Qed.
Lemma dev_w_dev_other s i j d : j <> i -> dev (w_dev s i d) j = dev s j.
Proof. intros H. rewrite dev_w_dev. apply Nat.eqb_neq in H. rewrite H. reflexivity. Qed.
Lemma dev_overflow s i : (length (devs s) <= i)%nat -> dev s i = ds0.
Proof. intros H. unfold dev. apply nth_overflow. exact H. Qed.

(* ------------------------------------------------------------------------------------------ *)
(* the platform table *)
Lemma In_tbl_del k t kv : In kv (tbl_del k t) <-> In kv t /\ fst kv <> k.
Proof.
  unfold tbl_del. rewrite filter_In. rewrite negb_true_iff, key_eqb_neq. tauto.
Qed.
Lemma map_fst_tbl_del k t : map fst (tbl_del k t) = filter (fun x => negb (key_eqb x k)) (map fst t).
Proof.
  unfold tbl_del. induction t as [|[k' v] t IH]; cbn; [reflexivity|].
  destruct (key_eqb k' k); cbn; rewrite IH; reflexivity.
Qed.
Lemma NoDup_filter {A} (p : A -> bool) l : NoDup l -> NoDup (filter p l).
Proof.
  induction 1 as [|x l H1 H2 IH]; cbn; [constructor|].
  destruct (p x); [constructor; [rewrite filter_In; tauto | exact IH] | exact IH].
Qed.
Lemma NoDup_tbl_del k t : NoDup (map fst t) -> NoDup (map fst (tbl_del k t)).
Proof. intros H. rewrite map_fst_tbl_del. apply NoDup_filter, H. Qed.

Lemma has_key_false k t : has_key k t = false <-> ~ In k (map fst t).
Proof.
  unfold has_key. split.
  - intros H I. apply in_map_iff in I as [[k' v] [E I]]. cbn in E; subst k'.
    assert (X : existsb (fun e => key_eqb (fst e) k) t = true).
    { apply existsb_exists. exists (k, v). split; [exact I | apply key_eqb_refl]. }
    congruence.
  - intros H. destruct (existsb _ t) eqn:E; [|reflexivity]. exfalso. apply H.
    apply existsb_exists in E as [[k' v] [I E]]. cbn in E. apply key_eqb_eq in E; subst k'.
    apply in_map_iff. exists (k, v). split; [reflexivity | exact I].
Qed.

(* install onto a table none of whose keys clash: plain append, no assertion *)
Lemma install_ok es : forall t e,
  NoDup (map fst es) -> (forall k, In k (map fst es) -> ~ In k (map fst t)) ->
  install es (t, e) = (t ++ es, e).
Proof.
  induction es as [|[k v] es IH]; intros t e ND DJ; cbn [install].
  - rewrite app_nil_r. reflexivity.
  - cbn [fst snd]. assert (HK : has_key k t = false).
    { apply has_key_false. apply DJ. cbn. left; reflexivity. }
    rewrite HK. cbn [map fst] in ND. inversion ND as [|x l N1 N2]; subst.
    rewrite IH.
    + rewrite <- app_assoc. reflexivity.
    + exact N2.
    + intros k' I. rewrite map_app, in_app_iff. cbn. intros [J | [J | []]].
      * revert J. apply DJ. cbn. right; exact I.
      * subst k'. contradiction.
Qed.

Lemma In_uninstall ks : forall t kv, In kv (uninstall ks t) <-> In kv t /\ ~ In (fst kv) ks.
Proof.
  induction ks as [|k ks IH]; intros t kv; cbn [uninstall].
  - cbn. tauto.
  - rewrite IH, In_tbl_del. cbn. intuition congruence.
Qed.
Lemma NoDup_uninstall ks : forall t, NoDup (map fst t) -> NoDup (map fst (uninstall ks t)).
Proof.
  induction ks as [|k ks IH]; intros t H; cbn [uninstall]; [exact H|]. apply IH, NoDup_tbl_del, H.
Qed.

Lemma rule_keys_entries rs : rule_keys rs = map fst (entries rs).
Proof.
  unfold rule_keys, entries. induction rs as [|[ks v] rs IH]; cbn; [reflexivity|].
  rewrite map_app, <- IH. f_equal. unfold entries_of_rule. cbn. rewrite map_map. cbn. symmetry. apply map_id.
Qed.

(* ------------------------------------------------------------------------------------------ *)
(* well-formed configurations: every (switch, coil) key belongs to one rule of one device *)
Definition wf (cfg : list dcfg) : Prop := NoDup (flat_map keys_of cfg).

Lemma NoDup_app_l {A} (a b : list A) : NoDup (a ++ b) -> NoDup a.
Proof.
  induction a as [|x a IH]; cbn; intros H; [constructor|]. inversion H; subst.
  constructor; [rewrite in_app_iff in *; tauto | auto].
Qed.
Lemma NoDup_app_r {A} (a b : list A) : NoDup (a ++ b) -> NoDup b.
Proof. induction a as [|x a IH]; cbn; intros H; [exact H|]. inversion H; auto. Qed.
Lemma NoDup_app_disj {A} (a b : list A) x : NoDup (a ++ b) -> In x a -> In x b -> False.
Proof.
  induction a as [|y a IH]; cbn; intros H I J; [contradiction|]. inversion H; subst.
  destruct I as [-> | I]; [apply H2; rewrite in_app_iff; tauto | eauto].
Qed.

Lemma flat_nth_in {A B} (f : A -> list B) l i d x :
  (i < length l)%nat -> In x (f (nth i l d)) -> In x (flat_map f l).
Proof.
  intros H I. apply in_flat_map. exists (nth i l d). split; [apply nth_In, H | exact I].
Qed.

Lemma flat_nodup_one {A B} (f : A -> list B) l d i :
  NoDup (flat_map f l) -> (i < length l)%nat -> NoDup (f (nth i l d)).
Proof.
  revert i; induction l as [|h t IH]; intros i ND H; cbn in H; [lia|].
  cbn [flat_map] in ND. destruct i as [|i]; cbn [nth].
  - eapply NoDup_app_l, ND.
  - apply IH; [eapply NoDup_app_r, ND | lia].
Qed.

Lemma flat_nodup_disj {A B} (f : A -> list B) l d i j x :
  NoDup (flat_map f l) -> (i < length l)%nat -> (j < length l)%nat -> i <> j ->
  In x (f (nth i l d)) -> In x (f (nth j l d)) -> False.
Proof.
  revert i j; induction l as [|h t IH]; intros i j ND Hi Hj NE Ii Ij; cbn in Hi; [lia|].
  cbn [flat_map] in ND. cbn [length] in Hj.
  destruct i as [|i], j as [|j]; cbn [nth] in *.
  - congruence.
  - eapply NoDup_app_disj; [exact ND | exact Ii |]. eapply flat_nth_in; [|exact Ij]. lia.
  - eapply NoDup_app_disj; [exact ND | exact Ij |]. eapply flat_nth_in; [|exact Ii]. lia.
  - eapply (IH i j); [eapply NoDup_app_r, ND | lia | lia | congruence | exact Ii | exact Ij].
Qed.

Lemma cf_overflow cfg i : (length cfg <= i)%nat -> cf cfg i = dflt_cfg.
Proof. intros H. unfold cf. apply nth_overflow, H. Qed.

Lemma wf_keys_nodup cfg i : wf cfg -> NoDup (keys_of (cf cfg i)).
Proof.
  intros W. destruct (Nat.lt_ge_cases i (length cfg)) as [H|H].
  - unfold cf. eapply flat_nodup_one; eauto.
  - rewrite cf_overflow by exact H. cbn. constructor.
Qed.
Lemma wf_keys_disj cfg i j k :
  wf cfg -> (i < length cfg)%nat -> (j < length cfg)%nat -> i <> j ->
  In k (keys_of (cf cfg i)) -> In k (keys_of (cf cfg j)) -> False.
Proof. intros W. unfold cf. eapply flat_nodup_disj. exact W. Qed.

(* ------------------------------------------------------------------------------------------ *)
(* timers *)
Lemma tmr_eqb_eq a b : tmr_eqb a b = true <-> a = b.
Proof.
  destruct a, b; cbn; try (split; [discriminate | discriminate]);
    rewrite Nat.eqb_eq; split; intros H; try congruence; inversion H; reflexivity.
Qed.
Lemma tmr_eqb_refl a : tmr_eqb a a = true.
Proof. apply tmr_eqb_eq; reflexivity. Qed.
Lemma has_tmr_app x a b : has_tmr x (a ++ b) = has_tmr x a || has_tmr x b.
Proof. apply existsb_app. Qed.
Lemma has_tmr_filter x p l : has_tmr x (filter p l) = true -> has_tmr x l = true.
Proof.
  unfold has_tmr. rewrite !existsb_exists. intros [e [I E]]. apply filter_In in I. exists e. tauto.
Qed.
Lemma has_tmr_del x y l : has_tmr x (del_tmr y l) = true -> has_tmr x l = true.
Proof. apply has_tmr_filter. Qed.
Lemma has_tmr_del_same x l : has_tmr x (del_tmr x l) = false.
Proof.
  destruct (has_tmr x (del_tmr x l)) eqn:E; [|reflexivity]. exfalso.
  unfold has_tmr, del_tmr in E. apply existsb_exists in E as [e [I E]]. apply filter_In in I as [_ I].
  apply tmr_eqb_eq in E. subst x. rewrite tmr_eqb_refl in I. discriminate.
Qed.
Lemma has_tmr_add x t y l : has_tmr x (add_tmr t y l) = true -> x = y \/ has_tmr x l = true.
Proof.
  unfold add_tmr. rewrite has_tmr_app, orb_true_iff. intros [H|H].
  - right. eapply has_tmr_del, H.
  - cbn in H. rewrite orb_false_r in H. apply tmr_eqb_eq in H. left. congruence.
Qed.

(* ------------------------------------------------------------------------------------------ *)
Ltac proj := cbn [tbl err devs timers coils sws now psu log w_tbl w_devs w_coils w_sws w_now w_timers w_err w_psu
                  w_log set_coil set_ocoil w_dev w_mgr] in *.

Section Invariant.
Variable cfg : list dcfg.

Definition en (s : state) (i : nat) : bool := enabled (dev s i).

Definition tbl_ok (s : state) : Prop :=
  forall kv, In kv (tbl s) <->
             exists i, (i < length cfg)%nat /\ en s i = true /\ In kv (entries_of (cf cfg i)).

Record Inv (s : state) : Prop := mkInv {
  inv_len : length (devs s) = length cfg;
  inv_rules : forall i, (en s i = true -> arules (dev s i) = rules_of (cf cfg i)) /\
                        (is_flip (cf cfg i) = true -> en s i = false -> arules (dev s i) = []);
  inv_tbl : tbl_ok s;
  inv_nodup : NoDup (map fst (tbl s));
  inv_err : err s = false;
  inv_mgr : forall i, mgr (dev s i) <> None -> has_mgr (cf cfg i) = true /\ en s i = true;
  inv_tmr : forall i, has_tmr (TReenable i) (timers s) = true -> is_flip (cf cfg i) = false
}.

(* steps that leave the table, the enabled flags and the remembered rules alone *)
Definition frame (s s' : state) : Prop :=
  tbl s' = tbl s /\ err s' = err s /\ length (devs s') = length (devs s) /\
  (forall i, enabled (dev s' i) = enabled (dev s i) /\ arules (dev s' i) = arules (dev s i) /\
             (mgr (dev s' i) <> None -> mgr (dev s i) <> None)) /\
  (forall i, has_tmr (TReenable i) (timers s') = true -> has_tmr (TReenable i) (timers s) = true).

Lemma frame_refl s : frame s s.
Proof. unfold frame; intuition. Qed.
Lemma frame_trans a b c : frame a b -> frame b c -> frame a c.
Proof.
  unfold frame. intros (A1 & A2 & A3 & A4 & A5) (B1 & B2 & B3 & B4 & B5).
  repeat split; try congruence.
  - destruct (A4 i) as (X & _), (B4 i) as (Y & _). congruence.
  - destruct (A4 i) as (_ & X & _), (B4 i) as (_ & Y & _). congruence.
  - destruct (A4 i) as (_ & _ & X), (B4 i) as (_ & _ & Y). auto.
  - auto.
Qed.

Lemma frame_inv s s' : frame s s' -> Inv s -> Inv s'.
Proof.
  intros (F1 & F2 & F3 & F4 & F5) I. destruct I as [L R T N E M TM].
  assert (EN : forall i, en s' i = en s i) by (intros i; unfold en; apply F4).
  constructor.
  - congruence.
  - intros i. destruct (F4 i) as (_ & A & _). rewrite EN, A. apply R.
  - intros kv. rewrite F1. rewrite (T kv). split; intros (i & H1 & H2 & H3); exists i; rewrite EN in *; auto.
  - rewrite F1; exact N.
  - congruence.
  - intros i H. rewrite EN. apply M. apply F4, H.
  - intros i H. apply TM, F5, H.
Qed.

Lemma frame_w_dev s i d :
  enabled d = enabled (dev s i) -> arules d = arules (dev s i) ->
  (mgr d <> None -> mgr (dev s i) <> None) -> frame s (w_dev s i d).
Proof.
  intros A B C. unfold frame. proj. repeat split; auto.
  - apply length_upd.
  - rewrite dev_w_dev. destruct (Nat.eqb i0 i && _) eqn:E; [|reflexivity].
    apply andb_true_iff in E as [E _]. apply Nat.eqb_eq in E; subst. exact A.
  - rewrite dev_w_dev. destruct (Nat.eqb i0 i && _) eqn:E; [|reflexivity].
    apply andb_true_iff in E as [E _]. apply Nat.eqb_eq in E; subst. exact B.
  - rewrite dev_w_dev. destruct (Nat.eqb i0 i && _) eqn:E; [|auto].
    apply andb_true_iff in E as [E _]. apply Nat.eqb_eq in E; subst. exact C.
Qed.

Lemma frame_w_timers s t :
  (forall i, has_tmr (TReenable i) t = true -> has_tmr (TReenable i) (timers s) = true) ->
  frame s (w_timers s t).
Proof. intros H. unfold frame. proj. unfold dev. proj. intuition. Qed.
Lemma frame_set_coil s c v : frame s (set_coil s c v).
Proof. unfold frame. proj. unfold dev. proj. intuition. Qed.
Lemma frame_set_ocoil s c v : frame s (set_ocoil s c v).
Proof. destruct c; [apply frame_set_coil | apply frame_refl]. Qed.
Lemma frame_w_log s v : frame s (w_log s v).
Proof. unfold frame. proj. unfold dev. proj. intuition. Qed.
Lemma frame_w_now s v : frame s (w_now s v).
Proof. unfold frame. proj. unfold dev. proj. intuition. Qed.
Lemma frame_w_sws s v : frame s (w_sws s v).
Proof. unfold frame. proj. unfold dev. proj. intuition. Qed.

Lemma frame_release s i : frame s (dev_release cfg s i).
Proof.
  unfold dev_release. destruct (is_flip (cf cfg i)); [|apply frame_refl].
  eapply frame_trans; [|apply frame_set_ocoil].
  eapply frame_trans; [|apply frame_set_coil].
  apply frame_w_dev; cbn; auto.
Qed.
Lemma frame_flip s i : frame s (dev_flip cfg s i).
Proof.
  unfold dev_flip. destruct (is_flip (cf cfg i) && enabled (dev s i)); [|apply frame_refl].
  destruct (d_hold (cf cfg i)).
  - eapply frame_trans; [|apply frame_set_coil].
    eapply frame_trans; [|apply frame_set_coil].
    apply frame_w_dev; cbn; auto.
  - eapply frame_trans; [|apply frame_set_coil]. apply frame_w_dev; cbn; auto.
Qed.
Lemma frame_bs s i : frame s (dev_bs cfg s i).
Proof.
  unfold dev_bs. destruct (d_bs (cf cfg i)); cbn [negb]; [|apply frame_refl].
  destruct (is_flip (cf cfg i)); [|apply frame_set_coil].
  eapply frame_trans; [apply frame_flip|]. apply frame_w_timers.
  intros j H. apply has_tmr_add in H as [H|H]; [discriminate | exact H].
Qed.
Lemma frame_w_mgr s i m : (m <> None -> mgr (dev s i) <> None) -> frame s (w_mgr s i m).
Proof. intros H. unfold w_mgr. apply frame_w_dev; cbn; auto. Qed.
Lemma frame_button s i b : frame s (mgr_button cfg s i b).
Proof.
  unfold mgr_button. destruct (mgr (dev s i)) as [[x l]|] eqn:E; [|apply frame_refl].
  assert (F : frame s (w_mgr s i (Some (b, l)))) by (apply frame_w_mgr; intros _; congruence).
  destruct b; [exact F | eapply frame_trans; [exact F | apply frame_set_coil]].
Qed.
Lemma frame_eos_long s i : frame s (mgr_eos_long s i).
Proof.
  unfold mgr_eos_long. destruct (mgr (dev s i)) as [[x l]|] eqn:E; [|apply frame_refl].
  apply frame_w_mgr; intros _; congruence.
Qed.
Lemma frame_eos_on s i : frame s (mgr_eos_on cfg s i).
Proof.
  unfold mgr_eos_on. destruct (mgr (dev s i)); [|apply frame_refl].
  destruct (d_debounce (cf cfg i) =? 0); [apply frame_eos_long|].
  apply frame_w_timers. intros j. rewrite has_tmr_app. cbn. rewrite !orb_false_r. auto.
Qed.
Lemma frame_eos_off s i : frame s (mgr_eos_off cfg s i).
Proof.
  unfold mgr_eos_off. destruct (mgr (dev s i)) as [[[|] [|]]|] eqn:E; try apply frame_refl.
  eapply frame_trans; [|apply frame_set_coil]. apply frame_w_mgr; intros _; congruence.
Qed.
Lemma frame_set_sw s w b : frame s (set_sw cfg s w b).
Proof.
  unfold set_sw. eapply frame_trans; [apply frame_w_sws|]. apply frame_w_timers.
  intros j. proj. apply has_tmr_filter.
Qed.
