(* C10/Lemmas.v — proofs about Model.v *)
From Common Require Import Prelude.
From C10.gen Require Import Wiring.
From C10 Require Import Model.
Open Scope Z_scope.

(* ------------------------------------------------------------------------------------------ *)
(* basics *)
Lemma key_eqb_eq a b : key_eqb a b = true <-> a = b.
Proof.
  destruct a as [a1 a2], b as [b1 b2]; unfold key_eqb; cbn [fst snd].
  rewrite andb_true_iff, !Z.eqb_eq. split; [intros [-> ->]; reflexivity | intros E; inversion E; auto].
Qed.
Lemma key_eqb_refl a : key_eqb a a = true.
Proof. apply key_eqb_eq; reflexivity. Qed.
Lemma key_eqb_neq a b : key_eqb a b = false <-> a <> b.
Proof.
  split; intros H.
  - intros E. apply key_eqb_eq in E. congruence.
  - destruct (key_eqb a b) eqn:E; [apply key_eqb_eq in E; contradiction | reflexivity].
Qed.

Lemma nth_upd {A} (l : list A) i j x d :
  nth j (upd i x l) d = if Nat.eqb j i && Nat.ltb i (length l) then x else nth j l d.
Proof.
  revert i j; induction l as [|h t IH]; intros i j.
  - cbn. rewrite andb_false_r. destruct i; reflexivity.
  - destruct i as [|i]; destruct j as [|j]; cbn [upd nth length]; try reflexivity.
    rewrite IH. cbn [Nat.eqb]. replace (Nat.ltb (S i) (S (length t))) with (Nat.ltb i (length t)); [reflexivity|].
    reflexivity.
Qed.
Lemma length_upd {A} (l : list A) i x : length (upd i x l) = length l.
Proof. revert i; induction l as [|h t IH]; intros [|i]; cbn; auto. Qed.

Lemma dev_w_dev s i j d :
  dev (w_dev s i d) j = if Nat.eqb j i && Nat.ltb i (length (devs s)) then d else dev s j.
Proof. unfold dev, w_dev. cbn [devs w_devs]. apply nth_upd. Qed.
Lemma dev_w_dev_same s i d : (i < length (devs s))%nat -> dev (w_dev s i d) i = d.
Proof.
  intros H. rewrite dev_w_dev, Nat.eqb_refl. apply Nat.ltb_lt in H. rewrite H. reflexivity.
Qed.
Lemma dev_w_dev_other s i j d : j <> i -> dev (w_dev s i d) j = dev s j.
Proof. intros H. rewrite dev_w_dev. apply Nat.eqb_neq in H. rewrite H. reflexivity. Qed.
Lemma dev_overflow s i : (length (devs s) <= i)%nat -> dev s i = ds0.
Proof. intros H. unfold dev. apply nth_overflow. exact H. Qed.

(* ------------------------------------------------------------------------------------------ *)
(* the platform table *)
Lemma In_tbl_del k t kv : In kv (tbl_del k t) <-> In kv t /\ fst kv <> k.
Proof.
  unfold tbl_del. rewrite filter_In. rewrite negb_true_iff, key_eqb_neq. tauto.
Qed.
Lemma map_fst_tbl_del k t : map fst (tbl_del k t) = filter (fun x => negb (key_eqb x k)) (map fst t).
Proof.
  unfold tbl_del. induction t as [|[k' v] t IH]; cbn; [reflexivity|].
  destruct (key_eqb k' k); cbn; rewrite IH; reflexivity.
Qed.
Lemma NoDup_filter {A} (p : A -> bool) l : NoDup l -> NoDup (filter p l).
Proof.
  induction 1 as [|x l H1 H2 IH]; cbn; [constructor|].
  destruct (p x); [constructor; [rewrite filter_In; tauto | exact IH] | exact IH].
Qed.
Lemma NoDup_tbl_del k t : NoDup (map fst t) -> NoDup (map fst (tbl_del k t)).
Proof. intros H. rewrite map_fst_tbl_del. apply NoDup_filter, H. Qed.

Lemma has_key_false k t : has_key k t = false <-> ~ In k (map fst t).
Proof.
  unfold has_key. split.
  - intros H I. apply in_map_iff in I as [[k' v] [E I]]. cbn in E; subst k'.
    assert (X : existsb (fun e => key_eqb (fst e) k) t = true).
    { apply existsb_exists. exists (k, v). split; [exact I | apply key_eqb_refl]. }
    congruence.
  - intros H. destruct (existsb _ t) eqn:E; [|reflexivity]. exfalso. apply H.
    apply existsb_exists in E as [[k' v] [I E]]. cbn in E. apply key_eqb_eq in E; subst k'.
    apply in_map_iff. exists (k, v). split; [reflexivity | exact I].
Qed.

(* install onto a table none of whose keys clash: plain append, no assertion *)
Lemma install_ok es : forall t e,
  NoDup (map fst es) -> (forall k, In k (map fst es) -> ~ In k (map fst t)) ->
  install es (t, e) = (t ++ es, e).
Proof.
  induction es as [|[k v] es IH]; intros t e ND DJ; cbn [install].
  - rewrite app_nil_r. reflexivity.
  - cbn [fst snd]. assert (HK : has_key k t = false).
    { apply has_key_false. apply DJ. cbn. left; reflexivity. }
    rewrite HK. cbn [map fst] in ND. inversion ND as [|x l N1 N2]; subst.
    rewrite IH.
    + rewrite <- app_assoc. reflexivity.
    + exact N2.
    + intros k' I. rewrite map_app, in_app_iff. cbn. intros [J | [J | []]].
      * revert J. apply DJ. cbn. right; exact I.
      * subst k'. contradiction.
Qed.

Lemma In_uninstall ks : forall t kv, In kv (uninstall ks t) <-> In kv t /\ ~ In (fst kv) ks.
Proof.
  induction ks as [|k ks IH]; intros t kv; cbn [uninstall].
  - cbn. tauto.
  - rewrite IH, In_tbl_del. cbn. intuition congruence.
Qed.
Lemma NoDup_uninstall ks : forall t, NoDup (map fst t) -> NoDup (map fst (uninstall ks t)).
Proof.
  induction ks as [|k ks IH]; intros t H; cbn [uninstall]; [exact H|]. apply IH, NoDup_tbl_del, H.
Qed.

Lemma rule_keys_entries rs : rule_keys rs = map fst (entries rs).
Proof.
  unfold rule_keys, entries. induction rs as [|[ks v] rs IH]; cbn; [reflexivity|].
  rewrite map_app, <- IH. f_equal. unfold entries_of_rule. cbn. rewrite map_map. cbn. symmetry. apply map_id.
Qed.

(* ------------------------------------------------------------------------------------------ *)
(* well-formed configurations: every (switch, coil) key belongs to one rule of one device *)
Definition wf (cfg : list dcfg) : Prop := NoDup (flat_map keys_of cfg).

Lemma NoDup_app_l {A} (a b : list A) : NoDup (a ++ b) -> NoDup a.
Proof.
  induction a as [|x a IH]; cbn; intros H; [constructor|]. inversion H; subst.
  constructor; [rewrite in_app_iff in *; tauto | auto].
Qed.
Lemma NoDup_app_r {A} (a b : list A) : NoDup (a ++ b) -> NoDup b.
Proof. induction a as [|x a IH]; cbn; intros H; [exact H|]. inversion H; auto. Qed.
Lemma NoDup_app_disj {A} (a b : list A) x : NoDup (a ++ b) -> In x a -> In x b -> False.
Proof.
  induction a as [|y a IH]; cbn; intros H I J; [contradiction|]. inversion H; subst.
  destruct I as [-> | I]; [apply H2; rewrite in_app_iff; tauto | eauto].
Qed.

Lemma flat_nth_in {A B} (f : A -> list B) l i d x :
  (i < length l)%nat -> In x (f (nth i l d)) -> In x (flat_map f l).
Proof.
  intros H I. apply in_flat_map. exists (nth i l d). split; [apply nth_In, H | exact I].
Qed.

Lemma flat_nodup_one {A B} (f : A -> list B) l d i :
  NoDup (flat_map f l) -> (i < length l)%nat -> NoDup (f (nth i l d)).
Proof.
  revert i; induction l as [|h t IH]; intros i ND H; cbn in H; [lia|].
  cbn [flat_map] in ND. destruct i as [|i]; cbn [nth].
  - eapply NoDup_app_l, ND.
  - apply IH; [eapply NoDup_app_r, ND | lia].
Qed.

Lemma flat_nodup_disj {A B} (f : A -> list B) l d i j x :
  NoDup (flat_map f l) -> (i < length l)%nat -> (j < length l)%nat -> i <> j ->
  In x (f (nth i l d)) -> In x (f (nth j l d)) -> False.
Proof.
  revert i j; induction l as [|h t IH]; intros i j ND Hi Hj NE Ii Ij; cbn in Hi; [lia|].
  cbn [flat_map] in ND. cbn [length] in Hj.
  destruct i as [|i], j as [|j]; cbn [nth] in *.
  - congruence.
  - eapply NoDup_app_disj; [exact ND | exact Ii |]. eapply flat_nth_in; [|exact Ij]. lia.
  - eapply NoDup_app_disj; [exact ND | exact Ij |]. eapply flat_nth_in; [|exact Ii]. lia.
  - eapply (IH i j); [eapply NoDup_app_r, ND | lia | lia | congruence | exact Ii | exact Ij].
Qed.

Lemma cf_overflow cfg i : (length cfg <= i)%nat -> cf cfg i = dflt_cfg.
Proof. intros H. unfold cf. apply nth_overflow, H. Qed.

Lemma wf_keys_nodup cfg i : wf cfg -> NoDup (keys_of (cf cfg i)).
Proof.
  intros W. destruct (Nat.lt_ge_cases i (length cfg)) as [H|H].
  - unfold cf. eapply flat_nodup_one; eauto.
  - rewrite cf_overflow by exact H. cbn. constructor.
Qed.
Lemma wf_keys_disj cfg i j k :
  wf cfg -> (i < length cfg)%nat -> (j < length cfg)%nat -> i <> j ->
  In k (keys_of (cf cfg i)) -> In k (keys_of (cf cfg j)) -> False.
Proof. intros W. unfold cf. eapply flat_nodup_disj. exact W. Qed.

(* ------------------------------------------------------------------------------------------ *)
(* timers *)
Lemma tmr_eqb_eq a b : tmr_eqb a b = true <-> a = b.
Proof.
  destruct a, b; cbn; try (split; [discriminate | discriminate]);
    rewrite Nat.eqb_eq; split; intros H; try congruence; inversion H; reflexivity.
Qed.
Lemma tmr_eqb_refl a : tmr_eqb a a = true.
Proof. apply tmr_eqb_eq; reflexivity. Qed.
Lemma has_tmr_app x a b : has_tmr x (a ++ b) = has_tmr x a || has_tmr x b.
Proof. apply existsb_app. Qed.
Lemma has_tmr_filter x p l : has_tmr x (filter p l) = true -> has_tmr x l = true.
Proof.
  unfold has_tmr. rewrite !existsb_exists. intros [e [I E]]. apply filter_In in I. exists e. tauto.
Qed.
Lemma has_tmr_del x y l : has_tmr x (del_tmr y l) = true -> has_tmr x l = true.
Proof. apply has_tmr_filter. Qed.
Lemma has_tmr_del_same x l : has_tmr x (del_tmr x l) = false.
Proof.
  destruct (has_tmr x (del_tmr x l)) eqn:E; [|reflexivity]. exfalso.
  unfold has_tmr, del_tmr in E. apply existsb_exists in E as [e [I E]]. apply filter_In in I as [_ I].
  apply tmr_eqb_eq in E. subst x. rewrite tmr_eqb_refl in I. discriminate.
Qed.
Lemma has_tmr_add x t y l : has_tmr x (add_tmr t y l) = true -> x = y \/ has_tmr x l = true.
Proof.
  unfold add_tmr. rewrite has_tmr_app, orb_true_iff. intros [H|H].
  - right. eapply has_tmr_del, H.
  - cbn in H. rewrite orb_false_r in H. apply tmr_eqb_eq in H. left. congruence.
Qed.

(* ------------------------------------------------------------------------------------------ *)
Ltac proj := cbn [tbl err devs timers coils sws now psu log w_tbl w_devs w_coils w_sws w_now w_timers w_err w_psu
                  w_log set_coil set_ocoil w_dev w_mgr] in *.

Section Invariant.
Variable cfg : list dcfg.

Definition en (s : state) (i : nat) : bool := enabled (dev s i).

(* the rules of devices i and j use different (switch, coil) keys *)
Definition disj (i j : nat) : Prop :=
  forall k, In k (keys_of (cf cfg i)) -> In k (keys_of (cf cfg j)) -> False.
(* enabling device i now does not write over a rule of another enabled device *)
Definition compat (s : state) (i : nat) : Prop :=
  forall j, j <> i -> (j < length cfg)%nat -> en s j = true -> disj i j.
Lemma disj_sym i j : disj i j -> disj j i.
Proof. intros H k A B. exact (H k B A). Qed.

Definition tbl_ok (s : state) : Prop :=
  forall kv, In kv (tbl s) <->
             exists i, (i < length cfg)%nat /\ en s i = true /\ In kv (entries_of (cf cfg i)).

Record Inv (s : state) : Prop := mkInv {
  inv_len : length (devs s) = length cfg;
  inv_rules : forall i, (en s i = true -> arules (dev s i) = rules_of (cf cfg i)) /\
                        (is_flip (cf cfg i) = true -> en s i = false -> arules (dev s i) = []);
  inv_tbl : tbl_ok s;
  inv_nodup : NoDup (map fst (tbl s));
  inv_err : err s = false;
  inv_mgr : forall i, mgr (dev s i) <> None -> has_mgr (cf cfg i) = true /\ en s i = true;
  inv_tmr : forall i, has_tmr (TReenable i) (timers s) = true -> is_flip (cf cfg i) = false;
  (* devices that are enabled at the same time do not share a key (static under [wf]; for flippers that share button
     and coil it holds because the disable handlers of an event run before its enable handlers) *)
  inv_excl : forall i j, i <> j -> (i < length cfg)%nat -> (j < length cfg)%nat ->
                         en s i = true -> en s j = true -> disj i j
}.

(* steps that leave the table, the enabled flags and the remembered rules alone *)
Definition frame (s s' : state) : Prop :=
  tbl s' = tbl s /\ err s' = err s /\ length (devs s') = length (devs s) /\
  (forall i, enabled (dev s' i) = enabled (dev s i) /\ arules (dev s' i) = arules (dev s i) /\
             (mgr (dev s' i) <> None -> mgr (dev s i) <> None)) /\
  (forall i, has_tmr (TReenable i) (timers s') = true -> has_tmr (TReenable i) (timers s) = true).

Lemma frame_refl s : frame s s.
Proof. unfold frame; intuition. Qed.
Lemma frame_trans a b c : frame a b -> frame b c -> frame a c.
Proof.
  unfold frame. intros (A1 & A2 & A3 & A4 & A5) (B1 & B2 & B3 & B4 & B5).
  repeat split; try congruence.
  - destruct (A4 i) as (X & _), (B4 i) as (Y & _). congruence.
  - destruct (A4 i) as (_ & X & _), (B4 i) as (_ & Y & _). congruence.
  - destruct (A4 i) as (_ & _ & X), (B4 i) as (_ & _ & Y). auto.
  - auto.
Qed.

Lemma frame_inv s s' : frame s s' -> Inv s -> Inv s'.
Proof.
  intros (F1 & F2 & F3 & F4 & F5) I. destruct I as [L R T N E M TM X].
  assert (EN : forall i, en s' i = en s i) by (intros i; unfold en; apply F4).
  constructor.
  - congruence.
  - intros i. destruct (F4 i) as (_ & A & _). rewrite EN, A. apply R.
  - intros kv. rewrite F1. rewrite (T kv). split; intros (i & H1 & H2 & H3); exists i; rewrite EN in *; auto.
  - rewrite F1; exact N.
  - congruence.
  - intros i H. rewrite EN. apply M. apply F4, H.
  - intros i H. apply TM, F5, H.
  - intros i j NE Li Lj Ei Ej. rewrite EN in Ei, Ej. eapply X; eauto.
Qed.

Lemma frame_w_dev s i d :
  enabled d = enabled (dev s i) -> arules d = arules (dev s i) ->
  (mgr d <> None -> mgr (dev s i) <> None) -> frame s (w_dev s i d).
Proof.
  intros A B C. unfold frame. proj. repeat split; auto.
  - apply length_upd.
  - rewrite dev_w_dev. destruct (Nat.eqb i0 i && _) eqn:E; [|reflexivity].
    apply andb_true_iff in E as [E _]. apply Nat.eqb_eq in E; subst. exact A.
  - rewrite dev_w_dev. destruct (Nat.eqb i0 i && _) eqn:E; [|reflexivity].
    apply andb_true_iff in E as [E _]. apply Nat.eqb_eq in E; subst. exact B.
  - rewrite dev_w_dev. destruct (Nat.eqb i0 i && _) eqn:E; [|auto].
    apply andb_true_iff in E as [E _]. apply Nat.eqb_eq in E; subst. exact C.
Qed.

Lemma frame_w_timers s t :
  (forall i, has_tmr (TReenable i) t = true -> has_tmr (TReenable i) (timers s) = true) ->
  frame s (w_timers s t).
Proof. intros H. unfold frame. proj. unfold dev. proj. intuition. Qed.
Lemma frame_set_coil s c v : frame s (set_coil s c v).
Proof. unfold frame. proj. unfold dev. proj. intuition. Qed.
Lemma frame_set_ocoil s c v : frame s (set_ocoil s c v).
Proof. destruct c; [apply frame_set_coil | apply frame_refl]. Qed.
Lemma frame_w_log s v : frame s (w_log s v).
Proof. unfold frame. proj. unfold dev. proj. intuition. Qed.
Lemma frame_w_now s v : frame s (w_now s v).
Proof. unfold frame. proj. unfold dev. proj. intuition. Qed.
Lemma frame_w_sws s v : frame s (w_sws s v).
Proof. unfold frame. proj. unfold dev. proj. intuition. Qed.

Lemma frame_release s i : frame s (dev_release cfg s i).
Proof.
  unfold dev_release. destruct (is_flip (cf cfg i)); [|apply frame_refl].
  eapply frame_trans; [|apply frame_set_ocoil].
  eapply frame_trans; [|apply frame_set_coil].
  apply frame_w_dev; cbn; auto.
Qed.
Lemma frame_flip s i : frame s (dev_flip cfg s i).
Proof.
  unfold dev_flip. destruct (is_flip (cf cfg i) && enabled (dev s i)); [|apply frame_refl].
  destruct (d_hold (cf cfg i)).
  - eapply frame_trans; [|apply frame_set_coil].
    eapply frame_trans; [|apply frame_set_coil].
    apply frame_w_dev; cbn; auto.
  - eapply frame_trans; [|apply frame_set_coil]. apply frame_w_dev; cbn; auto.
Qed.
Lemma frame_bs s i : frame s (dev_bs cfg s i).
Proof.
  unfold dev_bs. destruct (d_bs (cf cfg i)); cbn [negb]; [|apply frame_refl].
  destruct (is_flip (cf cfg i)); [|apply frame_set_coil].
  eapply frame_trans; [apply frame_flip|]. apply frame_w_timers.
  intros j H. apply has_tmr_add in H as [H|H]; [discriminate | exact H].
Qed.
Lemma frame_w_mgr s i m : (m <> None -> mgr (dev s i) <> None) -> frame s (w_mgr s i m).
Proof. intros H. unfold w_mgr. apply frame_w_dev; cbn; auto. Qed.
Lemma frame_button s i b : frame s (mgr_button cfg s i b).
Proof.
  unfold mgr_button. destruct (mgr (dev s i)) as [[x l]|] eqn:E; [|apply frame_refl].
  assert (F : frame s (w_mgr s i (Some (b, l)))) by (apply frame_w_mgr; intros _; congruence).
  destruct b; [exact F | eapply frame_trans; [exact F | apply frame_set_coil]].
Qed.
Lemma frame_eos_long s i : frame s (mgr_eos_long s i).
Proof.
  unfold mgr_eos_long. destruct (mgr (dev s i)) as [[x l]|] eqn:E; [|apply frame_refl].
  apply frame_w_mgr; intros _; congruence.
Qed.
Lemma frame_eos_on s i : frame s (mgr_eos_on cfg s i).
Proof.
  unfold mgr_eos_on. destruct (mgr (dev s i)); [|apply frame_refl].
  destruct (d_debounce (cf cfg i) =? 0); [apply frame_eos_long|].
  apply frame_w_timers. intros j. rewrite has_tmr_app. cbn. rewrite !orb_false_r. auto.
Qed.
Lemma frame_eos_off s i : frame s (mgr_eos_off cfg s i).
Proof.
  unfold mgr_eos_off. destruct (mgr (dev s i)) as [[[|] [|]]|] eqn:E; try apply frame_refl.
  eapply frame_trans; [|apply frame_set_coil]. apply frame_w_mgr; intros _; congruence.
Qed.
Lemma frame_set_sw s w b : frame s (set_sw cfg s w b).
Proof.
  unfold set_sw. eapply frame_trans; [apply frame_w_sws|]. apply frame_w_timers.
  intros j. proj. apply has_tmr_filter.
Qed.

Hypothesis W1 : forall i, NoDup (keys_of (cf cfg i)).


Lemma NoDup_app_intro {A} (a b : list A) :
  NoDup a -> NoDup b -> (forall x, In x a -> In x b -> False) -> NoDup (a ++ b).
Proof.
  induction a as [|x a IH]; cbn; intros Ha Hb D; [exact Hb|]. inversion Ha; subst. constructor.
  - rewrite in_app_iff. intros [H|H]; [contradiction | eapply D; [left; reflexivity | exact H]].
  - apply IH; auto. intros y Y1 Y2. eapply D; [right; exact Y1 | exact Y2].
Qed.

Lemma has_tmr_catchup s i j : has_tmr (TReenable j) (catchup cfg s i) = false.
Proof.
  unfold catchup. destruct (d_eos (cf cfg i)); [|reflexivity]. destruct (sget z (sws s)) as [a lc].
  destruct (negb _ && a && _); reflexivity.
Qed.

Definition enabled_dev (c : dcfg) (d : dstate) : dstate :=
  mkDS true (if is_flip c then arules d ++ rules_of c else rules_of c) (flipped d)
       (if has_mgr c then Some (false, false) else mgr d) (hits d).

Lemma dev_enable_proj s i :
  enabled (dev s i) = false ->
  let s' := dev_enable cfg s i in
  let te := install (entries (rules_of (cf cfg i))) (tbl s, err s) in
  tbl s' = fst te /\ err s' = snd te /\
  devs s' = upd i (enabled_dev (cf cfg i) (dev s i)) (devs s) /\
  (forall j, has_tmr (TReenable j) (timers s') = true -> has_tmr (TReenable j) (timers s) = true).
Proof.
  intros E. unfold dev_enable. rewrite E. unfold enabled_dev.
  destruct (has_mgr (cf cfg i)); proj; repeat split; auto.
  intros j. rewrite has_tmr_app, has_tmr_catchup, orb_false_r. auto.
Qed.

Lemma key_in_entries k v c : In (k, v) (entries_of c) -> In k (keys_of c).
Proof. intros H. unfold keys_of. apply in_map_iff. exists (k, v). split; [reflexivity | exact H]. Qed.

Lemma g_inv_enable s i : Inv s -> compat s i -> Inv (dev_enable cfg s i).
Proof.
  intros I CP. destruct (enabled (dev s i)) eqn:E.
  { unfold dev_enable. rewrite E. exact I. }
  destruct (dev_enable_proj s i E) as (PT & PE & PD & PTM).
  set (s' := dev_enable cfg s i) in *. set (c := cf cfg i) in *.
  assert (KN : NoDup (map fst (entries (rules_of c)))) by (apply (W1 i)).
  assert (OUT : (length cfg <= i)%nat -> entries (rules_of c) = []).
  { intros Li. unfold c. rewrite cf_overflow by exact Li. reflexivity. }
  assert (DJ : forall k, In k (map fst (entries (rules_of c))) -> ~ In k (map fst (tbl s))).
  { intros k Hk Ht. apply in_map_iff in Ht as [[k' v] [Ek Ht]]. cbn in Ek; subst k'.
    apply (inv_tbl _ I) in Ht as (j & Lj & Ej & Hj).
    destruct (Nat.eq_dec j i) as [->|NE]. { unfold en in Ej. congruence. }
    eapply (CP j NE Lj Ej k); [exact Hk | eapply key_in_entries; exact Hj]. }
  rewrite install_ok in PT, PE by assumption. cbn [fst snd] in PT, PE.
  assert (DV : forall j, dev s' j = if Nat.eqb j i && Nat.ltb i (length (devs s))
                                    then enabled_dev c (dev s i) else dev s j).
  { intros j. unfold dev at 1. rewrite PD. apply nth_upd. }
  assert (DVo : forall j, j <> i -> dev s' j = dev s j).
  { intros j NE. rewrite DV. apply Nat.eqb_neq in NE. rewrite NE. reflexivity. }
  assert (LEN := inv_len _ I).
  constructor.
  - rewrite PD, length_upd. exact LEN.
  - intros j. unfold en. rewrite DV.
    destruct (Nat.eqb j i && _) eqn:B.
    + apply andb_true_iff in B as [B _]. apply Nat.eqb_eq in B; subst j.
      cbn [enabled_dev enabled arules]. split; [intros _ | discriminate].
      destruct (is_flip c) eqn:F; [|reflexivity].
      destruct (inv_rules _ I i) as [_ R]. fold c in R. rewrite R; auto.
    + apply (inv_rules _ I j).
  - intros kv. rewrite PT, in_app_iff. rewrite (inv_tbl _ I kv). split.
    + intros [(j & Lj & Ej & Hj) | H].
      * exists j. repeat split; auto. unfold en in *. rewrite DVo; auto. intros ->. congruence.
      * destruct (Nat.lt_ge_cases i (length cfg)) as [Li|Li]; [|rewrite OUT in H by exact Li; contradiction].
        exists i. repeat split; auto. unfold en. rewrite DV, Nat.eqb_refl. rewrite LEN.
        apply Nat.ltb_lt in Li. rewrite Li. reflexivity.
    + intros (j & Lj & Ej & Hj). destruct (Nat.eq_dec j i) as [->|NE]; [right; exact Hj|].
      left. exists j. repeat split; auto. unfold en in *. rewrite DVo in Ej; auto.
  - rewrite PT, map_app. apply NoDup_app_intro; [apply (inv_nodup _ I) | exact KN |].
    intros k A B. eapply DJ; eauto.
  - rewrite PE. apply (inv_err _ I).
  - intros j. unfold en. rewrite DV. destruct (Nat.eqb j i && _) eqn:B.
    + apply andb_true_iff in B as [B _]. apply Nat.eqb_eq in B; subst j.
      cbn [enabled_dev enabled mgr]. destruct (has_mgr c) eqn:HM; [auto|].
      intros M. apply (inv_mgr _ I) in M as [M _]. fold c in M. congruence.
    + apply (inv_mgr _ I j).
  - intros j H. apply (inv_tmr _ I), PTM, H.
  - intros a b NE La Lb Ea Eb.
    destruct (Nat.eq_dec a i) as [->|NA]; destruct (Nat.eq_dec b i) as [->|NB].
    + congruence.
    + unfold en in Eb. rewrite DVo in Eb by exact NB. apply (CP b NB Lb Eb).
    + unfold en in Ea. rewrite DVo in Ea by exact NA. apply disj_sym, (CP a NA La Ea).
    + unfold en in Ea, Eb. rewrite DVo in Ea, Eb by assumption. apply (inv_excl _ I a b); assumption.
Qed.

Lemma mgr_in_range s i : mgr (dev s i) <> None -> (i < length (devs s))%nat.
Proof.
  intros M. destruct (Nat.lt_ge_cases i (length (devs s))) as [H|H]; [exact H|].
  rewrite dev_overflow in M by exact H. cbn in M. congruence.
Qed.
Lemma en_in_range s i : en s i = true -> (i < length (devs s))%nat.
Proof.
  intros M. destruct (Nat.lt_ge_cases i (length (devs s))) as [H|H]; [exact H|].
  unfold en in M. rewrite dev_overflow in M by exact H. cbn in M. discriminate.
Qed.

Lemma clear_rules_proj s i rs :
  let s' := clear_rules cfg s i rs in
  tbl s' = uninstall (rule_keys rs) (tbl s) /\ err s' = err s /\ length (devs s') = length (devs s) /\
  mgr (dev s' i) = None /\
  (forall j, enabled (dev s' j) = enabled (dev s j) /\ arules (dev s' j) = arules (dev s j) /\
             flipped (dev s' j) = flipped (dev s j) /\
             (j <> i -> mgr (dev s' j) = mgr (dev s j))) /\
  (forall j, has_tmr (TReenable j) (timers s') = true -> has_tmr (TReenable j) (timers s) = true).
Proof.
  unfold clear_rules. destruct (mgr (dev s i)) as [[b l]|] eqn:M.
  - assert (R : (i < length (devs s))%nat) by (apply mgr_in_range; congruence).
    apply Nat.ltb_lt in R.
    assert (X : forall s0 : state, devs s0 = upd i (mkDS (enabled (dev s i)) (arules (dev s i)) (flipped (dev s i)) None
                                                     (hits (dev s i))) (devs s) ->
            length (devs s0) = length (devs s) /\ mgr (dev s0 i) = None /\
            (forall j, enabled (dev s0 j) = enabled (dev s j) /\ arules (dev s0 j) = arules (dev s j) /\
                       flipped (dev s0 j) = flipped (dev s j) /\ (j <> i -> mgr (dev s0 j) = mgr (dev s j)))).
    { intros s0 D.
      assert (DV : forall j, dev s0 j = if Nat.eqb j i
                   then mkDS (enabled (dev s i)) (arules (dev s i)) (flipped (dev s i)) None (hits (dev s i))
                   else dev s j).
      { intros j. unfold dev at 1. rewrite D, nth_upd, R, andb_true_r. reflexivity. }
      split; [rewrite D; apply length_upd|]. split; [rewrite DV, Nat.eqb_refl; reflexivity|].
      intros j. rewrite DV. destruct (Nat.eqb j i) eqn:B.
      - apply Nat.eqb_eq in B; subst j. cbn. repeat split; auto. congruence.
      - repeat split; reflexivity. }
    destruct b; proj.
    + destruct (X (w_devs (w_timers (w_log (w_psu (w_tbl s (uninstall (rule_keys rs) (tbl s)))
               (fold_left (fun l0 k => remove_key k l0) (psu_keys rs) (psu s))) (log s ++ map (log_clr i) (rule_keys rs)))
               (del_tmr (TEosLong i) (timers s)))
               (upd i (mkDS (enabled (dev s i)) (arules (dev s i)) (flipped (dev s i)) None (hits (dev s i))) (devs s))))
        as (X1 & X2 & X3); [reflexivity|].
      repeat split; auto; try apply X3. intros j. apply has_tmr_del.
    + destruct (X (w_devs (w_timers (w_log (w_psu (w_tbl s (uninstall (rule_keys rs) (tbl s)))
               (fold_left (fun l0 k => remove_key k l0) (psu_keys rs) (psu s))) (log s ++ map (log_clr i) (rule_keys rs)))
               (del_tmr (TEosLong i) (timers s)))
               (upd i (mkDS (enabled (dev s i)) (arules (dev s i)) (flipped (dev s i)) None (hits (dev s i))) (devs s))))
        as (X1 & X2 & X3); [reflexivity|].
      repeat split; auto; try apply X3. intros j. apply has_tmr_del.
  - proj. unfold dev in *. proj. repeat split; auto.
Qed.

Lemma dev_set_ocoil s c v j : dev (set_ocoil s c v) j = dev s j.
Proof. destruct c; reflexivity. Qed.
Lemma dev_release_other s i j : j <> i -> dev (dev_release cfg s i) j = dev s j.
Proof.
  intros H. unfold dev_release. destruct (is_flip (cf cfg i)); [|reflexivity].
  rewrite dev_set_ocoil. unfold set_coil. unfold dev. proj. rewrite nth_upd.
  apply Nat.eqb_neq in H. rewrite H. reflexivity.
Qed.

(* s' is s with device i switched off and its keys removed from the platform *)
Definition disabled_from (s s' : state) (i : nat) : Prop :=
  tbl s' = uninstall (keys_of (cf cfg i)) (tbl s) /\ err s' = err s /\ length (devs s') = length (devs s) /\
  enabled (dev s' i) = false /\ (is_flip (cf cfg i) = true -> arules (dev s' i) = []) /\ mgr (dev s' i) = None /\
  (forall j, j <> i -> enabled (dev s' j) = enabled (dev s j) /\ arules (dev s' j) = arules (dev s j) /\
                       mgr (dev s' j) = mgr (dev s j)) /\
  (forall j, has_tmr (TReenable j) (timers s') = true -> has_tmr (TReenable j) (timers s) = true).

Lemma disabled_from_inv s s' i : Inv s -> en s i = true -> disabled_from s s' i -> Inv s'.
Proof.
  intros I E (DT & DE & DL & DEn & DA & DM & DO & DTM).
  assert (Li : (i < length cfg)%nat) by (rewrite <- (inv_len _ I); apply en_in_range, E).
  assert (ENo : forall j, j <> i -> en s' j = en s j) by (intros j NE; unfold en; apply DO, NE).
  constructor.
  - rewrite DL. apply (inv_len _ I).
  - intros j. destruct (Nat.eq_dec j i) as [->|NE].
    + unfold en. rewrite DEn. split; [discriminate | auto].
    + rewrite ENo by exact NE. destruct (DO j NE) as (_ & A & _). rewrite A. apply (inv_rules _ I j).
  - intros kv. rewrite DT, In_uninstall, (inv_tbl _ I kv). split.
    + intros [(j & Lj & Ej & Hj) NK]. exists j. repeat split; auto.
      rewrite ENo; auto. intros ->. apply NK. destruct kv as [k v]. eapply key_in_entries, Hj.
    + intros (j & Lj & Ej & Hj).
      assert (NE : j <> i) by (intros ->; unfold en in Ej; congruence).
      split; [exists j; rewrite <- ENo by exact NE; auto|].
      intros K. destruct kv as [k v]. rewrite ENo in Ej by exact NE.
      eapply (inv_excl _ I i j); [congruence | exact Li | exact Lj | exact E | exact Ej | exact K |].
      eapply key_in_entries, Hj.
  - rewrite DT. apply NoDup_uninstall, (inv_nodup _ I).
  - rewrite DE. apply (inv_err _ I).
  - intros j M. destruct (Nat.eq_dec j i) as [->|NE]; [congruence|].
    destruct (DO j NE) as (_ & _ & A). rewrite A in M. rewrite ENo by exact NE. apply (inv_mgr _ I j M).
  - intros j H. apply (inv_tmr _ I), DTM, H.
  - intros a b NE La Lb Ea Eb.
    assert (NA : a <> i) by (intros ->; unfold en in Ea; congruence).
    assert (NB : b <> i) by (intros ->; unfold en in Eb; congruence).
    rewrite ENo in Ea, Eb by assumption. apply (inv_excl _ I a b); assumption.
Qed.

Lemma keys_of_rule_keys c : rule_keys (rules_of c) = keys_of c.
Proof. unfold keys_of, entries_of. apply rule_keys_entries. Qed.

Lemma disable_disabled_from s i :
  Inv s -> en s i = true -> disabled_from s (dev_disable cfg s i) i.
Proof.
  intros I E. assert (R : (i < length (devs s))%nat) by (apply en_in_range, E).
  assert (AR : arules (dev s i) = rules_of (cf cfg i)) by (apply (inv_rules _ I i), E).
  unfold en in E. unfold dev_disable. destruct (is_flip (cf cfg i)) eqn:F.
  - rewrite E, AR.
    destruct (clear_rules_proj s i (rules_of (cf cfg i))) as (CT & CE & CL & CM & CD & CTM).
    set (s1 := clear_rules cfg s i (rules_of (cf cfg i))) in *.
    set (s2 := if flipped (dev s i) then dev_release cfg s1 i else s1).
    assert (FR : frame s1 s2) by (unfold s2; destruct (flipped (dev s i)); [apply frame_release | apply frame_refl]).
    destruct FR as (F1 & F2 & F3 & F4 & F5).
    assert (M2 : mgr (dev s2 i) = None).
    { destruct (mgr (dev s2 i)) eqn:M; [|reflexivity]. exfalso.
      destruct (F4 i) as (_ & _ & X). apply X; congruence. }
    assert (R2 : Nat.ltb i (length (devs s2)) = true) by (apply Nat.ltb_lt; congruence).
    unfold disabled_from. proj. rewrite length_upd.
    repeat split.
    + rewrite F1, CT, keys_of_rule_keys. reflexivity.
    + congruence.
    + congruence.
    + rewrite dev_w_dev, Nat.eqb_refl, R2. reflexivity.
    + intros _. rewrite dev_w_dev, Nat.eqb_refl, R2. reflexivity.
    + rewrite dev_w_dev, Nat.eqb_refl, R2. exact M2.
    + rewrite dev_w_dev_other by exact H. destruct (F4 j) as (X & _). destruct (CD j) as (Y & _). congruence.
    + rewrite dev_w_dev_other by exact H. destruct (F4 j) as (_ & X & _). destruct (CD j) as (_ & Y & _). congruence.
    + rewrite dev_w_dev_other by exact H.
      (* dev_release touches device i only *)
      destruct (CD j) as (_ & _ & _ & Y). rewrite <- (Y H). unfold s2.
      destruct (flipped (dev s i)); [|reflexivity].
      rewrite dev_release_other by exact H. reflexivity.
    + intros j Hj. apply CTM, F5. exact Hj.
  - set (s0 := w_timers s (del_tmr (TReenable i) (timers s))).
    assert (D0 : forall j, dev s0 j = dev s j) by reflexivity.
    rewrite D0, E, AR.
    set (s1 := w_dev s0 i (mkDS false (rules_of (cf cfg i)) (flipped (dev s i)) (mgr (dev s i)) (hits (dev s i)))).
    destruct (clear_rules_proj s1 i (rules_of (cf cfg i))) as (CT & CE & CL & CM & CD & CTM).
    assert (R1 : Nat.ltb i (length (devs s0)) = true) by (apply Nat.ltb_lt; exact R).
    unfold disabled_from. repeat split.
    + rewrite CT, keys_of_rule_keys. reflexivity.
    + rewrite CE. reflexivity.
    + rewrite CL. unfold s1. proj. apply length_upd.
    + destruct (CD i) as (X & _). rewrite X. unfold s1. rewrite dev_w_dev, Nat.eqb_refl, R1. reflexivity.
    + congruence.
    + exact CM.
    + destruct (CD j) as (X & _). rewrite X. unfold s1. rewrite dev_w_dev_other by exact H. reflexivity.
    + destruct (CD j) as (_ & X & _). rewrite X. unfold s1. rewrite dev_w_dev_other by exact H. reflexivity.
    + destruct (CD j) as (_ & _ & _ & X). rewrite (X H). unfold s1. rewrite dev_w_dev_other by exact H. reflexivity.
    + intros j Hj. apply CTM in Hj. unfold s1, s0 in Hj. proj. eapply has_tmr_del, Hj.
Qed.

Lemma inv_disable s i : Inv s -> Inv (dev_disable cfg s i).
Proof.
  intros I. destruct (en s i) eqn:E.
  - eapply disabled_from_inv; [exact I | exact E | apply disable_disabled_from; assumption].
  - unfold en in E. unfold dev_disable. destruct (is_flip (cf cfg i)).
    + rewrite E. exact I.
    + set (s0 := w_timers s (del_tmr (TReenable i) (timers s))).
      assert (D0 : dev s0 i = dev s i) by reflexivity. rewrite D0, E.
      eapply frame_inv; [|exact I]. apply frame_w_timers. intros j. apply has_tmr_del.
Qed.

Lemma inv_hit s i : Inv s -> Inv (dev_hit cfg s i).
Proof.
  intros I. unfold dev_hit. destruct (is_flip (cf cfg i)) eqn:F; [exact I|].
  destruct (enabled (dev s i)) eqn:EN; cbn [negb]; [|exact I].
  destruct (d_watch (cf cfg i) =? 0); [exact I|].
  match goal with |- context [w_dev s i ?d] => set (s1 := w_dev s i d) end.
  assert (I1 : Inv s1) by (eapply frame_inv; [apply frame_w_dev; cbn; auto | exact I]).
  destruct (d_maxhits (cf cfg i) <=? _); [|exact I1].
  pose proof (inv_disable s1 i I1) as I2. set (s2 := dev_disable cfg s1 i) in *.
  destruct I2 as [L R T N E M TM X]. constructor; auto.
  intros j H. proj. apply has_tmr_add in H as [H|H]; [|apply TM, H].
  inversion H; subst. exact F.
Qed.

(* an action is admissible when an enable it performs does not collide with an enabled device *)
Definition act_ok (s : state) (a : act) : Prop :=
  match a with
  | AEnable i => compat s i
  | AFire (TReenable i) => has_tmr (TReenable i) (timers s) = true -> compat s i
  | _ => True
  end.
Fixpoint acts_ok (s : state) (l : list act) : Prop :=
  match l with [] => True | a :: l' => act_ok s a /\ acts_ok (do_act cfg s a) l' end.
Definition step_ok (s : state) (o : op) : Prop :=
  let s0 := w_log s [] in
  acts_ok s0 (acts_of cfg s0 o) /\
  let s1 := run_acts cfg s0 (acts_of cfg s0 o) in acts_ok s1 (due_acts s1 (now s1)).
Fixpoint ops_ok (s : state) (l : list op) : Prop :=
  match l with [] => True | o :: l' => step_ok s o /\ ops_ok (step cfg s o) l' end.

Lemma g_inv_fire s x : Inv s -> act_ok s (AFire x) -> Inv (fire cfg s x).
Proof.
  intros I A. unfold fire. destruct (has_tmr x (timers s)) eqn:HX; [|exact I].
  assert (I1 : Inv (w_timers s (del_tmr x (timers s)))).
  { eapply frame_inv; [|exact I]. apply frame_w_timers. intros j. apply has_tmr_del. }
  destruct x.
  - apply g_inv_enable; [exact I1 | exact (A HX)].
  - eapply frame_inv; [apply frame_release | exact I1].
  - eapply frame_inv; [apply frame_eos_long | exact I1].
Qed.

Lemma g_inv_act s a : Inv s -> act_ok s a -> Inv (do_act cfg s a).
Proof.
  intros I A. destruct a; cbn [do_act].
  - apply g_inv_enable; assumption.
  - apply inv_disable, I.
  - eapply frame_inv; [apply frame_flip | exact I].
  - eapply frame_inv; [apply frame_release | exact I].
  - apply inv_hit, I.
  - eapply frame_inv; [apply frame_bs | exact I].
  - eapply frame_inv; [apply frame_button | exact I].
  - eapply frame_inv; [apply frame_eos_on | exact I].
  - eapply frame_inv; [apply frame_eos_off | exact I].
  - eapply frame_inv; [apply frame_set_sw | exact I].
  - eapply frame_inv; [apply frame_w_now | exact I].
  - apply g_inv_fire; assumption.
Qed.

Lemma g_inv_acts l : forall s, Inv s -> acts_ok s l -> Inv (run_acts cfg s l).
Proof.
  induction l as [|a l IH]; intros s I A; cbn; [exact I|]. destruct A as [A1 A2].
  apply IH; [apply g_inv_act; assumption | exact A2].
Qed.

Lemma g_inv_step s o : Inv s -> step_ok s o -> Inv (step cfg s o).
Proof.
  intros I [A1 A2]. unfold step. apply g_inv_acts; [|exact A2].
  apply g_inv_acts; [|exact A1]. eapply frame_inv; [apply frame_w_log | exact I].
Qed.

Lemma g_inv_run ops : forall s, Inv s -> ops_ok s ops -> Inv (run_ops cfg s ops).
Proof.
  induction ops as [|o l IH]; intros s I A; cbn; [exact I|]. destruct A as [A1 A2].
  apply IH; [apply g_inv_step; assumption | exact A2].
Qed.


Lemma inv_init : Inv (init cfg).
Proof.
  assert (D : forall i, dev (init cfg) i = ds0).
  { intros i. unfold dev, init. cbn [devs]. clear W1. revert i.
    induction cfg as [|c l IH]; intros [|i]; cbn; auto. }
  constructor.
  - cbn. apply map_length.
  - intros i. unfold en. rewrite D. cbn. split; [discriminate | auto].
  - intros kv. cbn [init tbl]. split; [intros [] |]. intros (i & _ & E & _). unfold en in E. rewrite D in E. discriminate.
  - cbn. constructor.
  - reflexivity.
  - intros i. rewrite D. cbn. congruence.
  - intros i. cbn. discriminate.
  - intros i j _ _ _ E. unfold en in E. rewrite D in E. discriminate.
Qed.



(* enable is idempotent: the second call changes nothing and makes no platform call *)
Lemma enable_idem s i : (i < length (devs s))%nat ->
  dev_enable cfg (dev_enable cfg s i) i = dev_enable cfg s i.
Proof.
  intros R. destruct (enabled (dev s i)) eqn:E.
  - unfold dev_enable. rewrite E. rewrite E. reflexivity.
  - destruct (dev_enable_proj s i E) as (_ & _ & PD & _).
    set (s' := dev_enable cfg s i) in *.
    assert (E' : enabled (dev s' i) = true).
    { unfold dev. rewrite PD, nth_upd, Nat.eqb_refl. apply Nat.ltb_lt in R. rewrite R. reflexivity. }
    unfold dev_enable at 1. rewrite E'. reflexivity.
Qed.
End Invariant.

(* ------------------------------------------------------------------------------------------ *)
(* well-formed configurations: no two devices share a key, so every enable is admissible *)
Section InvariantWF.
Variable cfg : list dcfg.
Hypothesis W : wf cfg.
Local Notation Inv := (Inv cfg).
Local Notation disabled_from := (disabled_from cfg).

Lemma wf_W1 i : NoDup (keys_of (cf cfg i)).
Proof. apply wf_keys_nodup, W. Qed.
Lemma wf_compat s i : compat cfg s i.
Proof.
  intros j NE Lj _ k K1 K2. destruct (Nat.lt_ge_cases i (length cfg)) as [Li|Li].
  - eapply (wf_keys_disj cfg i j k W Li Lj); [congruence | exact K1 | exact K2].
  - rewrite cf_overflow in K1 by exact Li. exact K1.
Qed.
Lemma wf_act_ok s a : act_ok cfg s a.
Proof. destruct a; cbn; auto; try apply wf_compat. destruct x; auto. intros _. apply wf_compat. Qed.
Lemma wf_acts_ok l : forall s, acts_ok cfg s l.
Proof. induction l as [|a l IH]; intros s; cbn; [exact I | split; [apply wf_act_ok | apply IH]]. Qed.

Lemma inv_enable s i : Inv s -> Inv (dev_enable cfg s i).
Proof. intros I. apply g_inv_enable; [apply wf_W1 | exact I | apply wf_compat]. Qed.
Lemma inv_fire s x : Inv s -> Inv (fire cfg s x).
Proof. intros I. apply g_inv_fire; [apply wf_W1 | exact I | apply wf_act_ok]. Qed.
Lemma inv_act s a : Inv s -> Inv (do_act cfg s a).
Proof. intros I. apply g_inv_act; [apply wf_W1 | exact I | apply wf_act_ok]. Qed.
Lemma inv_acts l : forall s, Inv s -> Inv (run_acts cfg s l).
Proof. intros s I. apply g_inv_acts; [apply wf_W1 | exact I | apply wf_acts_ok]. Qed.
Lemma inv_step s o : Inv s -> Inv (step cfg s o).
Proof.
  intros I. unfold step. apply inv_acts, inv_acts. eapply frame_inv; [apply frame_w_log | exact I].
Qed.
Lemma inv_run ops : forall s, Inv s -> Inv (run_ops cfg s ops).
Proof. induction ops as [|o l IH]; intros s I; cbn; [exact I | apply IH, inv_step, I]. Qed.


(* ------------------------------------------------------------------------------------------ *)
(* a device that is off stays off (and without rules) until something enables it *)
Definition quiet (s : state) (i : nat) : Prop :=
  en s i = false /\ has_tmr (TReenable i) (timers s) = false.

Lemma frame_quiet s s' i : frame s s' -> quiet s i -> quiet s' i.
Proof.
  intros (_ & _ & _ & F4 & F5) [Q1 Q2]. split.
  - unfold en in *. destruct (F4 i) as (X & _). congruence.
  - destruct (has_tmr (TReenable i) (timers s')) eqn:E; [|reflexivity]. apply F5 in E. congruence.
Qed.

Lemma quiet_enable_other s i j : j <> i -> quiet s i -> quiet (dev_enable cfg s j) i.
Proof.
  intros NE [Q1 Q2]. destruct (enabled (dev s j)) eqn:E.
  { unfold dev_enable. rewrite E. split; assumption. }
  destruct (dev_enable_proj cfg s j E) as (_ & _ & PD & PTM). split.
  - unfold en, dev. rewrite PD, nth_upd. apply Nat.eqb_neq in NE. rewrite Nat.eqb_sym in NE. 
    replace (Nat.eqb i j) with false by (symmetry; rewrite Nat.eqb_sym; exact NE). exact Q1.
  - destruct (has_tmr (TReenable i) (timers (dev_enable cfg s j))) eqn:H; [|reflexivity].
    apply PTM in H. congruence.
Qed.

Lemma disable_no_reenable s i :
  is_flip (cf cfg i) = false -> has_tmr (TReenable i) (timers (dev_disable cfg s i)) = false.
Proof.
  intros F. unfold dev_disable. rewrite F.
  set (s0 := w_timers s (del_tmr (TReenable i) (timers s))).
  assert (T0 : has_tmr (TReenable i) (timers s0) = false) by apply has_tmr_del_same.
  destruct (enabled (dev s0 i)); [|exact T0].
  match goal with |- context [clear_rules cfg ?a i ?r] => destruct (clear_rules_proj cfg a i r) as (_ & _ & _ & _ & _ & CTM) end.
  match goal with |- ?x = false => destruct x eqn:H; [|reflexivity] end.
  apply CTM in H. proj. congruence.
Qed.

Lemma quiet_disable s i j : Inv s -> quiet s i -> quiet (dev_disable cfg s j) i.
Proof.
  intros I Q. destruct (en s j) eqn:E.
  - destruct (disable_disabled_from cfg s j I E) as (_ & _ & _ & DEn & _ & _ & DO & DTM).
    destruct Q as [Q1 Q2]. split.
    + unfold en. destruct (Nat.eq_dec i j) as [->|NE]; [exact DEn|]. destruct (DO i NE) as (X & _).
      unfold en in Q1. congruence.
    + match goal with |- ?x = false => destruct x eqn:H; [|reflexivity] end. apply DTM in H. congruence.
  - unfold en in E. unfold dev_disable. destruct (is_flip (cf cfg j)); [rewrite E; exact Q|].
    set (s0 := w_timers s (del_tmr (TReenable j) (timers s))).
    assert (D0 : dev s0 j = dev s j) by reflexivity. rewrite D0, E.
    eapply frame_quiet; [|exact Q]. apply frame_w_timers. intros k. apply has_tmr_del.
Qed.

Lemma disable_quiet s i : Inv s -> quiet (dev_disable cfg s i) i.
Proof.
  intros I. pose proof (inv_disable cfg s i I) as I'. split.
  - destruct (en s i) eqn:E.
    + destruct (disable_disabled_from cfg s i I E) as (_ & _ & _ & DEn & _). exact DEn.
    + unfold en in *. unfold dev_disable. destruct (is_flip (cf cfg i)); [rewrite E; exact E|].
      set (s0 := w_timers s (del_tmr (TReenable i) (timers s))).
      assert (D0 : dev s0 i = dev s i) by reflexivity. rewrite D0, E. exact E.
  - destruct (is_flip (cf cfg i)) eqn:F; [|apply disable_no_reenable, F].
    match goal with |- ?x = false => destruct x eqn:H; [|reflexivity] end.
    apply (inv_tmr _ _ I') in H. congruence.
Qed.

Lemma quiet_hit s i j : Inv s -> quiet s i -> quiet (dev_hit cfg s j) i.
Proof.
  intros I Q. unfold dev_hit. destruct (is_flip (cf cfg j)) eqn:F; [exact Q|].
  destruct (enabled (dev s j)) eqn:EN; cbn [negb]; [|exact Q].
  destruct (d_watch (cf cfg j) =? 0); [exact Q|].
  assert (NE : i <> j) by (intros ->; destruct Q as [Q1 _]; unfold en in Q1; congruence).
  match goal with |- context [w_dev s j ?d] => set (s1 := w_dev s j d) end.
  assert (FR : frame s s1) by (apply frame_w_dev; cbn; auto).
  assert (I1 : Inv s1) by (eapply frame_inv; eauto).
  assert (Q1 : quiet s1 i) by (eapply frame_quiet; eauto).
  destruct (d_maxhits (cf cfg j) <=? _); [|exact Q1].
  destruct (quiet_disable s1 i j I1 Q1) as [A B]. split.
  - exact A.
  - proj. match goal with |- ?x = false => destruct x eqn:H; [|reflexivity] end.
    apply has_tmr_add in H as [H|H]; [inversion H; congruence | congruence].
Qed.

Lemma quiet_fire s i x : Inv s -> quiet s i -> quiet (fire cfg s x) i.
Proof.
  intros I Q. unfold fire. destruct (has_tmr x (timers s)) eqn:HX; [|exact Q].
  assert (FR : frame s (w_timers s (del_tmr x (timers s)))).
  { apply frame_w_timers. intros j. apply has_tmr_del. }
  assert (Q1 := frame_quiet _ _ i FR Q).
  destruct x.
  - apply quiet_enable_other; [|exact Q1]. intros ->. destruct Q as [_ Q2]. congruence.
  - eapply frame_quiet; [apply frame_release | exact Q1].
  - eapply frame_quiet; [apply frame_eos_long | exact Q1].
Qed.

Lemma quiet_act s i a : Inv s -> quiet s i -> a <> AEnable i -> quiet (do_act cfg s a) i.
Proof.
  intros I Q NE. destruct a; cbn [do_act].
  - apply quiet_enable_other; [congruence | exact Q].
  - apply quiet_disable; assumption.
  - eapply frame_quiet; [apply frame_flip | exact Q].
  - eapply frame_quiet; [apply frame_release | exact Q].
  - apply quiet_hit; assumption.
  - eapply frame_quiet; [apply frame_bs | exact Q].
  - eapply frame_quiet; [apply frame_button | exact Q].
  - eapply frame_quiet; [apply frame_eos_on | exact Q].
  - eapply frame_quiet; [apply frame_eos_off | exact Q].
  - eapply frame_quiet; [apply frame_set_sw | exact Q].
  - eapply frame_quiet; [apply frame_w_now | exact Q].
  - apply quiet_fire; assumption.
Qed.

Lemma quiet_acts l i : forall s, Inv s -> quiet s i -> ~ In (AEnable i) l -> quiet (run_acts cfg s l) i.
Proof.
  induction l as [|a l IH]; intros s I Q N; cbn; [exact Q|].
  apply IH; [apply inv_act, I | apply quiet_act; auto; intros ->; apply N; left; reflexivity |].
  intros H. apply N. right. exact H.
Qed.

Lemma run_acts_app s a b : run_acts cfg s (a ++ b) = run_acts cfg (run_acts cfg s a) b.
Proof. apply fold_left_app. Qed.

(* after an explicit disable action in the list and no later enable *)
Lemma quiet_after_disable l i s :
  Inv s -> In (ADisable i) l -> ~ In (AEnable i) l -> quiet (run_acts cfg s l) i.
Proof.
  intros I D N. apply in_split in D as (l1 & l2 & ->). rewrite run_acts_app. cbn [run_acts fold_left].
  apply quiet_acts.
  - apply inv_act, inv_acts, I.
  - apply disable_quiet, inv_acts, I.
  - intros H. apply N. rewrite in_app_iff. right. right. exact H.
Qed.

Lemma in_sel a p f : In a (sel cfg p f) -> exists j, a = f j /\ p (cf cfg j) = true /\ (j < length cfg)%nat.
Proof.
  unfold sel. rewrite in_map_iff. intros (j & E & H). apply filter_In in H as [H1 H2].
  exists j. repeat split; auto. unfold ids in H1. apply in_seq in H1. lia.
Qed.
Lemma sel_in p f j : (j < length cfg)%nat -> p (cf cfg j) = true -> In (f j) (sel cfg p f).
Proof.
  intros L P. unfold sel. apply in_map. apply filter_In. split; [|exact P].
  unfold ids. apply in_seq. lia.
Qed.

Lemma due_no_enable s t i : ~ In (AEnable i) (due_acts s t).
Proof.
  unfold due_acts. rewrite in_app_iff. intros [H|[H|[]]]; [|discriminate].
  apply in_flat_map in H as (e & _ & [H|[H|[]]]); discriminate.
Qed.

Definition passive (i : nat) (o : op) : Prop :=
  match o with
  | Enable j => j <> i
  | Ev e => mem e (en_events (cf cfg i)) = false
  | _ => True
  end.

Lemma acts_passive s i o : passive i o -> ~ In (AEnable i) (acts_of cfg s o).
Proof.
  destruct o; cbn [passive acts_of]; intros P H.
  - destruct H as [H|[]]. inversion H. congruence.
  - destruct H as [H|[]]; discriminate.
  - destruct H as [H|[]]; discriminate.
  - destruct H as [H|[]]; discriminate.
  - destruct H as [H|[]]; discriminate.
  - rewrite !in_app_iff in H. destruct H as [H|[H|[H|H]]]; apply in_sel in H as (j & E & Pj & _); try discriminate.
    inversion E; subst j. congruence.
  - destruct (fst (sget w (sws s))); [contradiction|]. destruct H as [H|H]; [discriminate|].
    rewrite !in_app_iff in H. destruct H as [H|[H|H]]; apply in_sel in H as (j & E & _); discriminate.
  - destruct (fst (sget w (sws s))); [|contradiction]. destruct H as [H|H]; [discriminate|].
    rewrite !in_app_iff in H. destruct H as [H|H]; apply in_sel in H as (j & E & _); discriminate.
  - eapply due_no_enable, H.
  - eapply due_no_enable, H.
Qed.

Lemma quiet_step s i o : Inv s -> quiet s i -> passive i o -> quiet (step cfg s o) i.
Proof.
  intros I Q P. unfold step.
  assert (I0 : Inv (w_log s [])) by (eapply frame_inv; [apply frame_w_log | exact I]).
  assert (Q0 : quiet (w_log s []) i) by (eapply frame_quiet; [apply frame_w_log | exact Q]).
  apply quiet_acts; [apply inv_acts, I0 | | apply due_no_enable].
  apply quiet_acts; [exact I0 | exact Q0 | apply acts_passive, P].
Qed.

Lemma quiet_run ops i : forall s, Inv s -> quiet s i -> Forall (passive i) ops -> quiet (run_ops cfg s ops) i.
Proof.
  induction ops as [|o l IH]; intros s I Q F; cbn; [exact Q|]. inversion F; subst.
  apply IH; [apply inv_step, I | apply quiet_step; assumption | assumption].
Qed.

(* an event wired to disable device i (and not to enable it) makes it quiet *)
Lemma event_quiet s i e :
  Inv s -> (i < length cfg)%nat -> mem e (dis_events (cf cfg i)) = true -> mem e (en_events (cf cfg i)) = false ->
  quiet (step cfg s (Ev e)) i.
Proof.
  intros I L D E. unfold step.
  assert (I0 : Inv (w_log s [])) by (eapply frame_inv; [apply frame_w_log | exact I]).
  apply quiet_acts; [apply inv_acts, I0 | | apply due_no_enable].
  apply quiet_after_disable; [exact I0 | |].
  - cbn [acts_of]. rewrite in_app_iff. left. apply (sel_in (fun c => mem e (dis_events c)) ADisable i L D).
  - apply acts_passive. cbn. exact E.
Qed.

Lemma off_no_keys s i k :
  Inv s -> (i < length cfg)%nat -> en s i = false -> In k (keys_of (cf cfg i)) -> has_key k (tbl s) = false.
Proof.
  intros I L E K. apply has_key_false. intros H. apply in_map_iff in H as [[k' v] [Ek H]]. cbn in Ek; subst k'.
  apply (inv_tbl _ _ I) in H as (j & Lj & Ej & Hj).
  destruct (Nat.eq_dec j i) as [->|NE]; [congruence|].
  eapply (wf_keys_disj cfg i j k W L Lj); [congruence | exact K | eapply key_in_entries, Hj].
Qed.

End InvariantWF.

(* ------------------------------------------------------------------------------------------ *)
(* statements used by Props.v *)
Lemma rules_equal_enabled_devices_l : forall cfg ops, wf cfg ->
  let s := run_ops cfg (init cfg) ops in
  (forall kv, In kv (tbl s) <->
              exists i, (i < length cfg)%nat /\ enabled (dev s i) = true /\ In kv (entries_of (cf cfg i))) /\
  NoDup (map fst (tbl s)) /\ err s = false /\
  (forall i, enabled (dev s i) = true -> arules (dev s i) = rules_of (cf cfg i)).
Proof.
  intros cfg ops W s. assert (I : Inv cfg s) by (apply inv_run; [exact W | apply inv_init]).
  repeat split.
  - apply (inv_tbl _ _ I).
  - apply (inv_tbl _ _ I).
  - apply (inv_nodup _ _ I).
  - apply (inv_err _ _ I).
  - intros i. apply (inv_rules _ _ I i).
Qed.

Lemma enable_idempotent_l : forall cfg s i, wf cfg -> (i < length (devs s))%nat ->
  do_act cfg (do_act cfg s (AEnable i)) (AEnable i) = do_act cfg s (AEnable i).
Proof. intros cfg s i W R. cbn [do_act]. apply enable_idem; assumption. Qed.

Lemma run_ops_app cfg s a b : run_ops cfg s (a ++ b) = run_ops cfg (run_ops cfg s a) b.
Proof. apply fold_left_app. Qed.

Lemma disable_removes_all_l : forall cfg ops i, wf cfg -> (i < length cfg)%nat ->
  let s := run_ops cfg (init cfg) (ops ++ [Disable i]) in
  enabled (dev s i) = false /\
  (forall k, In k (keys_of (cf cfg i)) -> has_key k (tbl s) = false) /\
  has_tmr (TReenable i) (timers s) = false /\
  mgr (dev s i) = None.
Proof.
  intros cfg ops i W L s. unfold s. rewrite run_ops_app. cbn [run_ops fold_left].
  set (s0 := run_ops cfg (init cfg) ops).
  assert (I0 : Inv cfg s0) by (apply inv_run; [exact W | apply inv_init]).
  assert (I1 : Inv cfg (step cfg s0 (Disable i))) by (apply inv_step; assumption).
  assert (Q : quiet (step cfg s0 (Disable i)) i).
  { unfold step.
    assert (I0' : Inv cfg (w_log s0 [])) by (eapply frame_inv; [apply frame_w_log | exact I0]).
    apply quiet_acts; [exact W | apply inv_acts; assumption | | apply due_no_enable].
    apply quiet_after_disable; [exact W | exact I0' | left; reflexivity |].
    cbn. intros [H|[]]. discriminate. }
  destruct Q as [Q1 Q2]. repeat split; auto.
  - intros k K. eapply off_no_keys; eauto.
  - destruct (mgr (dev (step cfg s0 (Disable i)) i)) eqn:M; [|reflexivity].
    exfalso. assert (X : mgr (dev (step cfg s0 (Disable i)) i) <> None) by congruence.
    apply (inv_mgr _ _ I1) in X as [_ X]. unfold en in *. congruence.
Qed.

Lemma default_dis c e : d_dis_ev c = None -> e = ev_ball_will_end \/ e = ev_service_mode_entered ->
  mem e (dis_events c) = true.
Proof. intros H [-> | ->]; unfold dis_events; rewrite H; destruct (d_kind c); reflexivity. Qed.
Lemma default_en c e : d_en_ev c = None -> e = ev_ball_will_end \/ e = ev_service_mode_entered ->
  mem e (en_events c) = false.
Proof. intros H [-> | ->]; unfold en_events; rewrite H; destruct (d_kind c); reflexivity. Qed.

Lemma no_rules_outside_ball_l : forall cfg ops1 e ops2 i,
  wf cfg -> (i < length cfg)%nat ->
  d_en_ev (cf cfg i) = None -> d_dis_ev (cf cfg i) = None ->
  e = ev_ball_will_end \/ e = ev_service_mode_entered ->
  Forall (passive cfg i) ops2 ->
  let s := run_ops cfg (init cfg) (ops1 ++ Ev e :: ops2) in
  enabled (dev s i) = false /\
  (forall k, In k (keys_of (cf cfg i)) -> has_key k (tbl s) = false) /\
  has_tmr (TReenable i) (timers s) = false /\
  mgr (dev s i) = None.
Proof.
  intros cfg ops1 e ops2 i W L DE DD HE P s. unfold s. rewrite run_ops_app. cbn [run_ops fold_left].
  set (s0 := run_ops cfg (init cfg) ops1).
  assert (I0 : Inv cfg s0) by (apply inv_run; [exact W | apply inv_init]).
  assert (I1 : Inv cfg (step cfg s0 (Ev e))) by (apply inv_step; assumption).
  assert (Q1 : quiet (step cfg s0 (Ev e)) i).
  { apply event_quiet; auto; [apply default_dis | apply default_en]; assumption. }
  fold (run_ops cfg (step cfg s0 (Ev e)) ops2).
  set (s2 := run_ops cfg (step cfg s0 (Ev e)) ops2).
  assert (I2 : Inv cfg s2) by (apply inv_run; assumption).
  assert (Q2 : quiet s2 i) by (apply quiet_run; assumption).
  destruct Q2 as [A B]. repeat split; auto.
  - intros k K. eapply off_no_keys; eauto.
  - destruct (mgr (dev s2 i)) eqn:M; [|reflexivity].
    exfalso. assert (X : mgr (dev s2 i) <> None) by congruence.
    apply (inv_mgr _ _ I2) in X as [_ X]. unfold en in *. congruence.
Qed.

(* ------------------------------------------------------------------------------------------ *)
(* coils of a flipper after disable (the step where the EOS-repulse defect lived) *)
Lemma cget_cset c c' v l : cget c (cset c' v l) = if c' =? c then v else cget c l.
Proof.
  induction l as [|[k x] l IH]; cbn.
  - rewrite Z.eqb_sym. reflexivity.
  - destruct (k =? c') eqn:A; cbn.
    + apply Z.eqb_eq in A; subst k. destruct (c' =? c); reflexivity.
    + destruct (k =? c) eqn:B; [|exact IH].
      apply Z.eqb_eq in B; subst k. rewrite Z.eqb_sym in A. rewrite A. reflexivity.
Qed.

Lemma disable_releases_coils_l : forall cfg s i,
  is_flip (cf cfg i) = true -> enabled (dev s i) = true ->
  (cget (d_coil (cf cfg i)) (coils s) = 1 ->
     flipped (dev s i) = true \/ exists l, mgr (dev s i) = Some (true, l)) ->
  (forall h, d_hold (cf cfg i) = Some h -> cget h (coils s) = 1 -> flipped (dev s i) = true) ->
  let s' := dev_disable cfg s i in
  cget (d_coil (cf cfg i)) (coils s') <> 1 /\
  (forall h, d_hold (cf cfg i) = Some h -> cget h (coils s') <> 1).
Proof.
  intros cfg s i F E HM HH. cbv zeta. unfold dev_disable. rewrite F, E.
  unfold clear_rules, dev_release. rewrite F.
  destruct (mgr (dev s i)) as [[[|] l]|] eqn:M; destruct (flipped (dev s i)) eqn:FL;
    destruct (d_hold (cf cfg i)) as [h|] eqn:DH; proj;
    (split; [| intros h' Eh'; try discriminate; inversion Eh'; subst h']);
    rewrite ?cget_cset, ?Z.eqb_refl;
    repeat match goal with |- context [if ?a =? ?b then _ else _] => destruct (a =? b) end;
    try discriminate;
    try (intros X; apply HM in X as [X | [l' X]]; congruence);
    try (intros X; apply (HH _ eq_refl) in X; congruence).
Qed.

(* ------------------------------------------------------------------------------------------ *)
(* a concrete machine and history (used by the Examples of Props.v) *)
Definition ex_cfg : list dcfg :=
  [ mkD KFlip (Some 1) 1 None (Some 2) true true 250 true 1125 0 0 0 0 None None [] [];
    mkD KFlip (Some 1) 2 (Some 3) None false false 0 false 2375 0 0 0 0 None None [] [];
    mkD KAuto (Some 3) 4 None None false false 0 true 0 0 1000 2 625 None None [] [];
    mkD KKick (Some 4) 5 None None false false 0 true 0 0 0 0 0 None None [] [] ].
Definition ex_ops1 : list op :=
  [ Ev ev_ball_started; Enable 3; SwOn 3; SwOff 3; SwOn 3; Advance 1; SwOn 1; SwOn 2; Advance 1; SwOff 2 ].
Definition ex_ops2 : list op := [ SwOff 1; Advance 2; SwOn 3; BallSearch 0; Disable 0 ].

Lemma ex_wf_l : wf ex_cfg.
Proof. unfold wf. cbn. repeat constructor; cbn; intuition congruence. Qed.

Lemma ex_history_l :
  length (tbl (run_ops ex_cfg (init ex_cfg) ex_ops1)) = 6%nat /\
  cget 1 (coils (run_ops ex_cfg (init ex_cfg) ex_ops1)) = 1 /\
  d_en_ev (cf ex_cfg 0) = None /\ d_dis_ev (cf ex_cfg 0) = None /\
  Forall (passive ex_cfg 0) ex_ops2 /\ ex_ops2 <> [] /\
  tbl (run_ops ex_cfg (init ex_cfg) (ex_ops1 ++ Ev ev_ball_will_end :: ex_ops2)) = [] /\
  cget 1 (coils (run_ops ex_cfg (init ex_cfg) (ex_ops1 ++ Ev ev_ball_will_end :: ex_ops2))) = 0.
Proof.
  split; [vm_compute; reflexivity|]. split; [vm_compute; reflexivity|].
  split; [reflexivity|]. split; [reflexivity|].
  split; [repeat constructor; cbn; congruence|]. split; [discriminate|].
  split; vm_compute; reflexivity.
Qed.

Lemma ex_coil_held_l :
  let s := run_ops ex_cfg (init ex_cfg) ex_ops1 in
  is_flip (cf ex_cfg 0) = true /\ enabled (dev s 0%nat) = true /\ cget 1 (coils s) = 1 /\
  flipped (dev s 0%nat) = false /\ mgr (dev s 0%nat) = Some (true, false).
Proof. vm_compute. repeat split; reflexivity. Qed.
