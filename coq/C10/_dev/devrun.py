"""dev helper (not part of the check): run N generated cases of one C10 suite against the model and print the first
disagreement in detail.   usage: devrun.py <suite> <n> [seed]"""
import json
import os
import random
import subprocess
import sys
import multiprocessing as mp

sys.path.insert(0, "/verif/harness")
sys.path.insert(0, "/verif/harness/props")
import c10  # noqa

suite = [s for s in c10.SUITES if s.name == sys.argv[1]][0]
n = int(sys.argv[2])
seed = int(sys.argv[3]) if len(sys.argv) > 3 else 1
rng = random.Random(seed)
cases = [suite.gen(rng, "quick", i) for i in range(n)]
if len(sys.argv) > 4:
    _j = json.load(open(sys.argv[4]))
    cases = [_j.get("case", _j)]


def run(c):
    try:
        return suite.run_impl(c)
    except BaseException as e:
        import traceback
        return {"harness_error": traceback.format_exc()[-1500:]}


with mp.get_context("fork").Pool(4) as pool:
    outs = pool.map(run, cases)
d = "/verif/coq/C10/_dev/cases"
os.makedirs(d, exist_ok=True)
pairs = []
for c, o in zip(cases, outs):
    if "harness_error" in o:
        print("HARNESS ERROR", o["harness_error"])
        continue
    fails = suite.oracle(c, o)
    if fails:
        print("ORACLE", [f["sig"] for f in fails], fails[0]["what"][:300])
    t = suite.coq_case(c, o)
    if t is not None:
        pairs.append((c, o, t))
print("cases", len(cases), "fed", len(pairs))
with open(d + "/x.v", "w") as f:
    f.write("From Common Require Import Prelude.\n" + suite.coq_header + "\n")
    f.write("Definition cases := [\n" + ";\n".join(t for _, _, t in pairs) + "\n].\n")
    f.write("Eval vm_compute in (mismatches run out_eqb cases).\n")
r = subprocess.run("cd /verif/coq/C10 && timeout 600 coqc -Q ../Common Common -Q . C10 _dev/cases/x.v 2>&1 | tail -5",
                   shell=True, capture_output=True, text=True)
print(r.stdout[-1500:])
import re
m = re.search(r"=\s*(\[[^\]]*\])\s*:\s*list nat", r.stdout, re.S)
if m:
    bad = [int(x) for x in re.findall(r"\d+", m.group(1))]
    if bad:
        c, o, t = pairs[bad[0]]
        json.dump({"case": c, "out": o}, open(d + "/bad.json", "w"), indent=1)
        with open(d + "/one.v", "w") as f:
            f.write("From Common Require Import Prelude.\n" + suite.coq_header + "\n")
            f.write("Definition c := %s.\nEval vm_compute in (run (fst c)).\nEval vm_compute in (snd c).\n" % t)
        r = subprocess.run("cd /verif/coq/C10 && timeout 600 coqc -Q ../Common Common -Q . C10 _dev/cases/one.v 2>&1",
                           shell=True, capture_output=True, text=True)
        open(d + "/one.out", "w").write(r.stdout)
        print("first bad case written to", d + "/bad.json", "model/expected in", d + "/one.out")
