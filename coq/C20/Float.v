(* C20/Float.v — the binary64 arithmetic that credits.py performs on money values, on exact rationals.
   A finite double is represented by the rational it denotes (always kept reduced).  Only the operations the
   credits mode uses on configuration values are modelled: parsing a decimal literal v/S (correctly rounded),
   subtraction, division, comparison (exact on Q), int() (truncation), round() (half-even to an integer).
   All values are positive and far inside the normal range (no overflow/subnormals).
   rnd53 is the same construction as coq/C12/Base.v (copied, C12's files are not imported). *)
From Coq Require Import List ZArith Bool Lia QArith Qround Qabs.
Open Scope Z_scope.

Definition two_pow (e : Z) : Q :=
  if 0 <=? e then inject_Z (2 ^ e) else Qmake 1 (Z.to_pos (2 ^ (- e))).

Definition round_half_even (q : Q) : Z :=
  let f := Qfloor q in
  match Qcompare (q - inject_Z f)%Q (1 # 2)%Q with
  | Lt => f
  | Gt => f + 1
  | Eq => if Z.even f then f else f + 1
  end.

Definition try_exp (a : Q) (e : Z) : option Q :=
  let x := (a / two_pow e)%Q in
  let m := Qfloor x in
  if (2 ^ 52 <=? m) && (m <? 2 ^ 53)
  then Some (inject_Z (round_half_even x) * two_pow e)%Q
  else None.

Definition rnd53_pos (a : Q) : Q :=
  let e0 := Z.log2 (Qnum a) - Z.log2 (Zpos (Qden a)) - 52 in
  match try_exp a e0 with
  | Some r => r
  | None =>
      match try_exp a (e0 - 1) with
      | Some r => r
      | None => match try_exp a (e0 + 1) with Some r => r | None => a end
      end
  end.

(* IEEE-754 binary64 round-to-nearest-even of an exact rational (normal range) *)
Definition rnd53 (q : Q) : Q :=
  match Qcompare q 0%Q with
  | Eq => 0%Q
  | Gt => Qred (rnd53_pos q)
  | Lt => Qred (- rnd53_pos (- q))%Q
  end.

(* the double CPython/ruamel read for the decimal literal of v/S (float() is correctly rounded) *)
Definition fval (S v : Z) : Q := rnd53 (Qmake v (Z.to_pos S)).
Definition fsub (a b : Q) : Q := rnd53 (a - b)%Q.
Definition fdiv (a b : Q) : Q := rnd53 (a / b)%Q.
Definition qlt (a b : Q) : bool := match Qcompare a b with Lt => true | _ => false end.
Definition qeq (a b : Q) : bool := Qeq_bool a b.
Definition trunc (q : Q) : Z := Z.quot (Qnum q) (Zpos (Qden q)).          (* int(x) *)
Definition q_is_int (q : Q) : bool := (Zpos (Qden (Qred q)) =? 1).

(* a quantity of credit units: what the code holds after value / credit_unit — an int or a float *)
Definition tol : Q := rnd53 (1 # 1000000).       (* the literal 1e-6 *)

(* FIXED code, Credits._to_credit_units:
     units = value / self.credit_unit
     if abs(units - round(units)) < 1e-6: return int(round(units))
     return units                                                                      *)
Definition to_units_fixed (v cu : Q) : Q :=
  let x := fdiv v cu in
  let r := round_half_even x in
  if qlt (Qabs (fsub x (inject_Z r))) tol then inject_Z r else x.

(* unfixed code: value / self.credit_unit, used as is *)
Definition to_units_orig (v cu : Q) : Q := fdiv v cu.
