(* C20/FloatLemmas.v — the float-faithful derivation (Model.derive, binary64 on exact rationals) against the ideal
   one (Model.derive_ideal, exact arithmetic on minor units): a witness that the unfixed code (int(price / unit))
   sells a game below its price, and a bounded-exhaustive proof (evaluated inside the kernel by vm_compute) that
   the fixed code agrees with the ideal computation on every configuration of a decimal-currency family. *)
From Common Require Import Prelude.
From Coq Require Import QArith.
From C20 Require Import Float Model Lemmas.
Open Scope Z_scope.

Definition zrange (a : Z) (n : nat) : list Z := map (fun k => a + Z.of_nat k) (seq 0 n).

Lemma zrange_in a n x : a <= x < a + Z.of_nat n -> In x (zrange a n).
Proof.
  intros H. unfold zrange. apply in_map_iff. exists (Z.to_nat (x - a)). split; [lia|].
  apply in_seq. lia.
Qed.

Lemma forallb_zrange (f : Z -> bool) a n : forallb f (zrange a n) = true ->
  forall x, a <= x < a + Z.of_nat n -> f x = true.
Proof. intros H x Hx. rewrite forallb_forall in H. apply H. apply zrange_in. exact Hx. Qed.

(* the family: smallest coin c, also 2c and 5c coins; game price p, second tier 3p buys 4 credits; money scale S *)
Definition fam (S c p : Z) : cfg := mkCfg [c; 2 * c; 5 * c] [(p, 1); (3 * p, 4)] 0 0 0 [] false 1 0 S.

Definition fam_ok (S c p : Z) : bool := dcore_eqb (derive (fam S c p)) (derive_ideal (fam S c p)).

Definition coin_values : list Z := [1; 2; 5; 10; 20; 25; 50].     (* smallest coin of real decimal currencies, cents *)

(* [vm_cast_no_check] only postpones the evaluation: the tactic does not evaluate, the KERNEL evaluates the VM cast
   when it checks the proof term at Qed (so the computation runs once instead of twice) *)
Lemma fam_cents_all : forallb (fun c => forallb (fam_ok 100 c) (zrange 1 150)) coin_values = true.
Proof. vm_cast_no_check (eq_refl true). Qed.

Lemma fam_eighths_all : forallb (fun c => forallb (fam_ok 8 c) (zrange 1 32)) (zrange 1 8) = true.
Proof. vm_cast_no_check (eq_refl true). Qed.

Lemma fixed_float_is_ideal_l : forall S c p,
  (S = 100 /\ In c coin_values /\ 1 <= p <= 150) \/ (S = 8 /\ 1 <= c <= 8 /\ 1 <= p <= 32) ->
  fam_ok S c p = true.
Proof.
  intros S c p [(HS & Hc & Hp) | (HS & Hc & Hp)]; subst S.
  - apply (forallb_zrange (fam_ok 100 c) 1 150); [|lia].
    pose proof fam_cents_all as H. rewrite forallb_forall in H. exact (H c Hc).
  - apply (forallb_zrange (fam_ok 8 c) 1 32); [|lia].
    apply (forallb_zrange (fun c => forallb (fam_ok 8 c) (zrange 1 32)) 1 8 fam_eighths_all). lia.
Qed.

(* the unfixed code: dimes and a 0.30 game -> 2 units per game; a 0.20 coin with unit 0.3 - 0.2 -> raises *)
Definition ex_dime : cfg := mkCfg [10] [(30, 1)] 0 0 0 [] false 1 0 100.
Definition ex_twenty : cfg := mkCfg [20] [(30, 1)] 0 0 0 [] false 1 0 100.

Lemma float_truncation_refuted_l :
  exists c, cfg_exact c = true /\ d_upg (derive_ideal c) = 3 /\ d_upg (derive_x false c) = 2 /\ d_upg (derive c) = 3.
Proof. exists ex_dime. vm_compute. repeat split. Qed.

Lemma float_coin_raises_refuted_l :
  exists c, cfg_exact c = true /\ d_coin_units (derive_ideal c) = [2] /\
            d_coin_units (derive_x false c) = [-1] /\ d_coin_units (derive c) = [2].
Proof. exists ex_twenty. vm_compute. repeat split. Qed.

(* what two dimes buy: with the unfixed derivation a 0.30 game starts on 0.20 *)
Lemma two_dimes_l :
  let ops := [Coin 0; Coin 0; Start] in
  ingame (final (derive_x false ex_dime) (init (derive_x false ex_dime)) ops) = true /\
  ingame (final (derive ex_dime) (init (derive ex_dime)) ops) = false /\
  ingame (final (derive ex_dime) (init (derive ex_dime)) (Coin 0 :: ops)) = true.
Proof. vm_compute. repeat split. Qed.
