(* C20/Lemmas.v — proofs about the credits model. *)
From Common Require Import Prelude.
From C20 Require Import Model.
Open Scope Z_scope.

(* ---- pricing table = differences of the greedy bonus ------------------------------------------ *)
Lemma tbl_nth g : forall n u old k, (k < n)%nat ->
  nth k (tbl g n u old) 0 =
  g (u + Z.of_nat k) - match k with O => old | S k' => g (u + Z.of_nat k') end.
Proof.
  induction n as [|n IH]; intros u old k Hk; [lia|].
  destruct k as [|k]; cbn [tbl nth].
  - rewrite Z.add_0_r. reflexivity.
  - rewrite IH by lia. destruct k as [|k].
    + replace (u + 1 + Z.of_nat 0) with (u + Z.of_nat 1) by lia.
      replace (u + Z.of_nat 0) with u by lia. reflexivity.
    + replace (u + 1 + Z.of_nat (S k)) with (u + Z.of_nat (S (S k))) by lia.
      replace (u + 1 + Z.of_nat k) with (u + Z.of_nat (S k)) by lia. reflexivity.
Qed.

Lemma greedy_0 rts : greedy rts 0 = 0.
Proof.
  induction rts as [|[t b] r IH]; cbn [greedy]; [reflexivity|].
  rewrite Zdiv_0_l, Zmod_0_l, IH. reflexivity.
Qed.

Lemma table_spec rts u : 1 <= u <= wrap_of rts ->
  nth (Z.to_nat u) (mk_table rts) 0 = greedy rts u - greedy rts (u - 1).
Proof.
  intros H. unfold mk_table. rewrite tbl_nth by lia.
  destruct (Z.to_nat u) as [|k] eqn:E; [lia|].
  replace (0 + Z.of_nat (S k)) with u by lia.
  replace (0 + Z.of_nat k) with (u - 1) by lia. reflexivity.
Qed.

Lemma table_0 rts : nth 0 (mk_table rts) 0 = 0.
Proof. unfold mk_table. cbn [tbl nth]. rewrite greedy_0. reflexivity. Qed.

(* the greedy bonus is "periodic" in the largest tier: G(q*W + y) = q*G(W) + G(y) *)
Lemma greedy_period rts W : W = wrap_of rts -> 0 < W ->
  forall q y, greedy rts (q * W + y) = q * greedy rts W + greedy rts y.
Proof.
  intros HW Hpos q y. destruct rts as [|[t b] r]; cbn [greedy]; [ring|].
  cbn [wrap_of] in HW. subst t.
  rewrite Z.div_add_l by lia. rewrite (Z.add_comm (q * W) y), Z_mod_plus_full.
  rewrite Z_div_same_full by lia. rewrite Z_mod_same_full, greedy_0. ring.
Qed.

(* well-formed derived constants: table, wrap-around and kept tiers belong together *)
Definition d_wf (d : dcfg) : Prop :=
  d_table d = mk_table (d_rkt d) /\ d_W d = wrap_of (d_rkt d) /\ 0 < d_W d.

Definition G (d : dcfg) (x : Z) : Z := greedy (d_rkt d) x.

Lemma tget_spec d u : d_wf d -> 1 <= u <= d_W d -> tget d u = G d u - G d (u - 1).
Proof.
  intros (Ht & HW & _) H. unfold tget, G. rewrite Ht. apply table_spec. lia.
Qed.

Lemma G_shift d x n : d_wf d ->
  G d (x + n) - G d x = G d (x mod d_W d + n) - G d (x mod d_W d).
Proof.
  intros (Ht & HW & Hpos). unfold G.
  pose proof (Z.div_mod x (d_W d) ltac:(lia)) as E.
  replace (x + n) with ((x / d_W d) * d_W d + (x mod d_W d + n)) by lia.
  rewrite (greedy_period _ (d_W d) HW Hpos).
  replace (greedy (d_rkt d) x) with (greedy (d_rkt d) ((x / d_W d) * d_W d + x mod d_W d))
    by (f_equal; lia).
  rewrite (greedy_period _ (d_W d) HW Hpos). ring.
Qed.

Lemma tier_loop_closed d : d_wf d -> forall n c0 total, 0 <= c0 < d_W d ->
  tier_loop d n c0 total =
  ((c0 + Z.of_nat n) mod d_W d, total + G d (c0 + Z.of_nat n) - G d c0).
Proof.
  intros Hwf. pose proof Hwf as (_ & _ & Hpos).
  induction n as [|n IH]; intros c0 total Hc; cbn [tier_loop].
  - rewrite Z.add_0_r, Z.mod_small by lia. f_equal. ring.
  - rewrite IH by (apply Z.mod_pos_bound; lia).
    rewrite tget_spec by (auto; lia).
    f_equal.
    + rewrite Z.add_mod_idemp_l by lia. f_equal. lia.
    + replace (c0 + 1 - 1) with c0 by lia.
      pose proof (G_shift d (c0 + 1) (Z.of_nat n) Hwf) as E.
      replace (c0 + Z.of_nat (S n)) with (c0 + 1 + Z.of_nat n) by lia. lia.
Qed.

(* derive produces well-formed constants whenever the wrap-around is positive *)
Lemma derive_wf c : 0 < d_W (derive c) -> d_wf (derive c).
Proof. intros H. unfold d_wf. cbn [derive d_table d_rkt d_W] in *. auto. Qed.

(* ---- projections of the setters ---------------------------------------------------------------- *)
Lemma units_set_credit s u c : units (set_credit s u c) = u. Proof. reflexivity. Qed.
Lemma units_set_flag s f : units (set_flag s f) = units s. Proof. reflexivity. Qed.
Lemma units_set_fp s f : units (set_fp s f) = units s. Proof. reflexivity. Qed.
Lemma units_set_now s t : units (set_now s t) = units s. Proof. reflexivity. Qed.
Lemma units_set_timers s a b : units (set_timers s a b) = units s. Proof. reflexivity. Qed.
Lemma units_set_game s g n p b : units (set_game s g n p b) = units s. Proof. reflexivity. Qed.
Lemma units_set_audit s a b c e f : units (set_audit s a b c e f) = units s. Proof. reflexivity. Qed.
Lemma units_with_audit s a b c e f : units (with_audit s a b c e f) = units s. Proof. reflexivity. Qed.
Lemma units_join_game s : units (join_game s) = units s. Proof. reflexivity. Qed.
Lemma units_reset_timeouts d s : units (reset_timeouts d s) = units s. Proof. reflexivity. Qed.
Lemma units_set_pexp s x : units (set_pexp s x) = units s. Proof. reflexivity. Qed.
Lemma units_touch d s t : units (touch d s t) = units s. Proof. reflexivity. Qed.
Lemma units_touch_if b d s t : units (touch_if b d s t) = units s. Proof. destruct b; reflexivity. Qed.
Lemma units_enable_credit d s : units (enable_credit d s) = units s. Proof. reflexivity. Qed.
Lemma tc_touch d s t : tc (touch d s t) = tc s. Proof. reflexivity. Qed.
Lemma tc_touch_if b d s t : tc (touch_if b d s t) = tc s. Proof. destruct b; reflexivity. Qed.
Global Hint Rewrite units_set_credit units_set_flag units_set_fp units_set_now units_set_timers units_set_game
  units_set_audit units_with_audit units_join_game units_reset_timeouts units_set_pexp units_touch units_touch_if
  units_enable_credit tc_touch tc_touch_if : proj.

Ltac bd :=
  repeat match goal with
  | H : (_ <? _) = true |- _ => apply Z.ltb_lt in H
  | H : (_ <? _) = false |- _ => apply Z.ltb_ge in H
  | H : (_ <=? _) = true |- _ => apply Z.leb_le in H
  | H : (_ <=? _) = false |- _ => apply Z.leb_gt in H
  | H : (_ =? _) = true |- _ => apply Z.eqb_eq in H
  | H : (_ =? _) = false |- _ => apply Z.eqb_neq in H
  | H : (_ && _) = true |- _ => apply andb_true_iff in H; destruct H
  | H : (_ || _) = false |- _ => apply orb_false_iff in H; destruct H
  | H : negb _ = true |- _ => apply negb_true_iff in H
  | H : negb _ = false |- _ => apply negb_false_iff in H
  end.

(* ---- balance bounds ---------------------------------------------------------------------------- *)
Definition nonneg (l : list Z) : bool := forallb (fun x => 0 <=? x) l.

Definition d_okb (d : dcfg) : bool :=
  (0 <? d_upg d) && (0 <? d_W d) && (0 <=? d_maxu d) && nonneg (d_table d)
  && nonneg (d_coin_units d) && nonneg (d_ev_units d).

Definition Inv (d : dcfg) (s : st) : Prop :=
  0 <= units s /\ (0 < d_maxu d -> units s <= d_maxu d).

Lemma nonneg_nth l k : nonneg l = true -> 0 <= nth k l 0.
Proof.
  intros H. destruct (nth_in_or_default k l 0) as [Hin | E]; [|rewrite E; lia].
  unfold nonneg in H. rewrite forallb_forall in H. specialize (H _ Hin). bd. lia.
Qed.

Lemma nonneg_nth_error l k n : nonneg l = true -> nth_error l k = Some n -> 0 <= n.
Proof.
  intros H E. apply nth_error_In in E. unfold nonneg in H. rewrite forallb_forall in H.
  specialize (H _ E). bd. lia.
Qed.

Lemma tier_loop_ge d : nonneg (d_table d) = true ->
  forall n c total, total <= snd (tier_loop d n c total).
Proof.
  intros Ht. induction n as [|n IH]; intros c total; cbn [tier_loop snd]; [lia|].
  specialize (IH ((c + 1) mod d_W d) (total + tget d (c + 1))).
  pose proof (nonneg_nth (d_table d) (Z.to_nat (c + 1)) Ht). unfold tget in *. lia.
Qed.

Lemma add_ct_ge d s n t : nonneg (d_table d) = true -> n + units s <= snd (add_ct d s n t).
Proof.
  intros Ht. unfold add_ct. destruct t; cbn [snd]; [apply tier_loop_ge; auto | lia].
Qed.

Lemma d_okb_elim d : d_okb d = true ->
  0 < d_upg d /\ 0 < d_W d /\ 0 <= d_maxu d /\ nonneg (d_table d) = true /\
  nonneg (d_coin_units d) = true /\ nonneg (d_ev_units d) = true.
Proof. unfold d_okb. intros H. bd. repeat split; auto; lia. Qed.

Lemma add_units_inv d s n t : d_okb d = true -> 0 <= n -> Inv d s -> Inv d (add_units d s n t).
Proof.
  intros Hok Hn [H0 Hmax]. apply d_okb_elim in Hok as (Hupg & HW & Hm & Ht & _).
  pose proof (add_ct_ge d s n t Ht) as Hge.
  unfold Inv, add_units. autorewrite with proj.
  unfold add_over, add_doit.
  destruct (d_maxu d <=? 0) eqn:E1; destruct (units s <? d_maxu d) eqn:E2;
    destruct (d_maxu d =? 0) eqn:E3; destruct (d_maxu d <? snd (add_ct d s n t)) eqn:E4;
    cbn [negb andb orb]; bd; (split; [|intros Hp; try specialize (Hmax Hp)]); lia.
Qed.

Lemma advance_inv d s t : d_okb d = true -> Inv d s -> Inv d (advance d s t).
Proof.
  intros Hok [H0 Hmax]. apply d_okb_elim in Hok as (Hupg & _ & Hm & _).
  unfold advance.
  assert (I1 : Inv d (if due (dfrac s) t then set_timers (touch d (clear_frac d s) (dl (dfrac s))) None (dall s) else s)).
  { destruct (due (dfrac s) t); [|split; auto].
    unfold Inv, clear_frac. autorewrite with proj.
    pose proof (Z.mod_pos_bound (units s) (d_upg d) Hupg).
    pose proof (Z.mod_le (units s) (d_upg d) H0 Hupg). split; [lia|]. intros Hp. specialize (Hmax Hp). lia. }
  set (s1 := if due (dfrac s) t then _ else s) in *.
  destruct (due (dall s1) t).
  - unfold Inv, clear_all. autorewrite with proj. split; lia.
  - unfold Inv. autorewrite with proj. exact I1.
Qed.

Lemma add_player_inv d s : d_okb d = true -> Inv d s -> Inv d (add_player d s).
Proof.
  intros Hok [H0 Hmax]. apply d_okb_elim in Hok as (Hupg & _).
  unfold add_player. destruct (fp s); [split; autorewrite with proj; auto|].
  destruct (affordable d s); [|split; auto].
  unfold Inv. autorewrite with proj. split; [lia|]. intros Hp. specialize (Hmax Hp). lia.
Qed.

Lemma end_game_inv d s : Inv d s -> Inv d (end_game d s).
Proof.
  intros H. unfold end_game, Inv. destruct (fp s); autorewrite with proj; exact H.
Qed.

Lemma start_st_inv d s : d_okb d = true -> Inv d s -> Inv d (start_st d s).
Proof.
  intros Hok HI. unfold start_st. destruct (ingame s).
  - destruct (game_full s); auto. apply add_player_inv; auto.
  - destruct (fp s).
    + apply add_player_inv; auto.
    + destruct (affordable d s); auto. apply add_player_inv; auto.
Qed.

Lemma iter_inv d f : (forall s, Inv d s -> Inv d (f s)) -> forall n s, Inv d s -> Inv d (iter_st n f s).
Proof. intros Hf. induction n as [|n IH]; intros s HI; cbn [iter_st]; auto. Qed.

Lemma paid_join_inv d s : d_okb d = true -> Inv d s -> Inv d (paid_join d s).
Proof.
  intros Hok [H0 Hmax]. apply d_okb_elim in Hok as (Hupg & _).
  unfold paid_join, Inv. autorewrite with proj. split; [lia|]. intros Hp. specialize (Hmax Hp). lia.
Qed.

Lemma burst_st_inv d s n : d_okb d = true -> Inv d s -> Inv d (burst_st d s n).
Proof.
  intros Hok HI. unfold burst_st. destruct n as [|n]; auto.
  destruct (ingame s); [|apply start_st_inv; auto].
  destruct (game_full s); auto. destruct (fp s).
  - apply iter_inv; auto.
  - destruct (affordable d s); auto. apply iter_inv; auto. intros x Hx. apply paid_join_inv; auto.
Qed.

Lemma Inv_ext d s s' : units s' = units s -> Inv d s -> Inv d s'.
Proof. intros E [A B]. unfold Inv. rewrite E. auto. Qed.

Lemma iter_join_units n : forall s, units (iter_st n join_game s) = units s /\ tc (iter_st n join_game s) = tc s.
Proof. induction n as [|n IH]; intros s; cbn [iter_st]; [auto|]. destruct (IH (join_game s)) as [A B]. rewrite A, B. auto. Qed.

Lemma held_approve_units d s n : units (fst (held_approve d s n)) = units s.
Proof.
  unfold held_approve. destruct n as [|n]; [reflexivity|].
  destruct (ingame s).
  - destruct (game_full s); [reflexivity|]. destruct (fp s || affordable d s); [|reflexivity].
    cbn [fst]. apply iter_join_units.
  - destruct (fp s); [reflexivity|]. destruct (affordable d s); reflexivity.
Qed.

Lemma pay_only_inv d s : d_okb d = true -> Inv d s -> Inv d (pay_only d s).
Proof.
  intros Hok [H0 Hmax]. apply d_okb_elim in Hok as (Hupg & _).
  unfold pay_only, Inv. autorewrite with proj. split; [lia|]. intros Hp. specialize (Hmax Hp). lia.
Qed.

Lemma held_st_inv d s n w : d_okb d = true -> Inv d s -> Inv d (held_st d s n w).
Proof.
  intros Hok HI. unfold held_st.
  assert (I1 : Inv d (fst (held_approve d s n))) by (eapply Inv_ext; [apply held_approve_units|exact HI]).
  pose proof (advance_inv d _ (now (fst (held_approve d s n)) + w) Hok I1) as I2.
  destruct (fp (advance d (fst (held_approve d s n)) (now (fst (held_approve d s n)) + w))); [exact I2|].
  apply iter_inv; auto. intros x Hx. apply pay_only_inv; auto.
Qed.

Lemma power_on_inv d s t : d_okb d = true -> Inv d s -> Inv d (power_on d (Some s) t).
Proof.
  intros Hok [H0 Hmax]. apply d_okb_elim in Hok as (_ & _ & Hm & _).
  unfold power_on. cbn [read_setting fp].
  assert (A : 0 <= (if survives s t then units s else 0) /\
              (0 < d_maxu d -> (if survives s t then units s else 0) <= d_maxu d)).
  { destruct (survives s t); split; auto; lia. }
  destruct (fp s); unfold Inv; autorewrite with proj; cbn [units]; exact A.
Qed.

Lemma apply_op_inv d s o : d_okb d = true -> Inv d s -> Inv d (apply_op d s o).
Proof.
  intros Hok HI. pose proof (d_okb_elim d Hok) as (Hupg & HW & Hm & Ht & Hc & He).
  destruct o; cbn [apply_op].
  - destruct (fp s); auto. destruct (nth_error (d_coin_units d) k) eqn:E; auto.
    pose proof (add_units_inv d s z true Hok (nonneg_nth_error _ _ _ Hc E) HI) as H.
    unfold Inv in *. autorewrite with proj. exact H.
  - destruct (fp s); auto.
    pose proof (add_units_inv d s (d_upg d) false Hok ltac:(lia) HI) as H.
    unfold Inv in *. autorewrite with proj. exact H.
  - destruct (fp s); auto. destruct (nth_error (d_ev_units d) j) eqn:E; auto.
    pose proof (add_units_inv d s z false Hok (nonneg_nth_error _ _ _ He E) HI) as H.
    unfold Inv in *. autorewrite with proj. exact H.
  - apply start_st_inv; auto.
  - destruct (negb (ingame s)); auto. destruct (cpl s <? npl s); [exact HI|].
    destruct (cball s <? d_bpg d); [|apply end_game_inv; auto].
    destruct ((cball s + 1 =? 2) && negb (fp s) && negb (flag s)); unfold Inv; autorewrite with proj; exact HI.
  - destruct (ingame s); auto. apply end_game_inv; auto.
  - exact HI.
  - destruct (fp s); exact HI.
  - exact HI.
  - exact HI.
  - unfold Inv, clear_all. autorewrite with proj. split; lia.
  - exact HI.
  - apply burst_st_inv; auto.
  - apply power_on_inv; auto.
  - apply held_st_inv; auto.
Qed.

Lemma step_inv d s o : d_okb d = true -> Inv d s -> Inv d (step d s o).
Proof. intros Hok HI. unfold step. apply advance_inv; auto. apply apply_op_inv; auto. Qed.

Lemma init_inv d : d_okb d = true -> Inv d (init d).
Proof.
  intros Hok. apply d_okb_elim in Hok as (_ & _ & Hm & _). unfold Inv, init, power_on. cbn [read_setting fp].
  destruct (d_boot_fp d); autorewrite with proj; cbn [units]; lia.
Qed.

Lemma states_inv d : d_okb d = true -> forall ops s, Inv d s -> Forall (Inv d) (states_from d s ops).
Proof.
  intros Hok. induction ops as [|o r IH]; intros s HI; cbn [states_from]; constructor.
  - apply step_inv; auto.
  - apply IH. apply step_inv; auto.
Qed.

Lemma balance_bounds_l d ops : d_okb d = true ->
  Forall (fun s => 0 <= units s /\ (0 < d_maxu d -> units s <= d_maxu d)) (states_from d (init d) ops).
Proof. intros Hok. apply (states_inv d Hok). apply init_inv; auto. Qed.

(* ---- start gate -------------------------------------------------------------------------------- *)
Definition players (s : st) : Z := if ingame s then npl s else 0.

Lemma start_requires_full_price_l d s :
  fp s = false -> units s < d_upg d -> apply_op d s Start = s /\ (ingame s && game_full s = false -> e_not_enough (apply_ev d s Start) = 1).
Proof.
  intros Hfp Hlt. assert (A : affordable d s = false) by (unfold affordable; apply Z.leb_gt; lia).
  split.
  - cbn [apply_op]. unfold start_st, add_player. rewrite Hfp, A. destruct (ingame s); [destruct (game_full s)|]; reflexivity.
  - intros Hb. cbn [apply_ev]. unfold start_ev. rewrite Hfp, Hb, A. reflexivity.
Qed.

Lemma start_deducts_exactly_l d s :
  fp s = false -> d_upg d <= units s -> 0 < d_upg d -> (ingame s = true -> game_full s = false) ->
  let s' := apply_op d s Start in
  units s' = units s - d_upg d /\ ingame s' = true /\ npl s' = players s + 1 /\ a_paid s' = a_paid s + 1
  /\ a_coins s' = a_coins s /\ a_earn s' = a_earn s.
Proof.
  intros Hfp Hle Hpos Hfull. assert (A : affordable d s = true) by (unfold affordable; apply Z.leb_le; lia).
  cbn zeta. cbn [apply_op]. unfold start_st, players. destruct (ingame s) eqn:Eg.
  - rewrite (Hfull eq_refl). unfold add_player. rewrite Hfp, A.
    autorewrite with proj. cbn [ingame npl a_paid a_coins a_earn set_credit with_audit set_audit join_game set_game touch set_pexp].
    repeat split; lia.
  - rewrite Hfp, A. unfold add_player.
    set (s0 := set_timers (set_credit (set_game s true 0 0 0) (units s) 0) None None).
    assert (F0 : fp s0 = false) by exact Hfp.
    assert (A0 : affordable d s0 = true) by exact A.
    rewrite F0, A0.
    cbn [ingame npl a_paid a_coins a_earn units tc set_credit with_audit set_audit join_game set_game set_timers s0 touch set_pexp].
    cbn [Z.eqb]. repeat split; lia.
Qed.

Lemma start_changes_by_price_only_l d s :
  fp s = false -> 0 <= units s ->
  units (apply_op d s Start) = units s \/
  (d_upg d <= units s /\ units (apply_op d s Start) = units s - d_upg d).
Proof.
  intros Hfp H0. cbn [apply_op]. unfold start_st, add_player.
  destruct (ingame s); [destruct (game_full s); [left; reflexivity|]|]; rewrite ?Hfp.
  - destruct (affordable d s) eqn:A; [|left; reflexivity]. unfold affordable in A. bd.
    right. autorewrite with proj. split; lia.
  - destruct (affordable d s) eqn:A; [|left; reflexivity].
    set (s0 := set_timers (set_credit (set_game s true 0 0 0) (units s) 0) None None).
    assert (F0 : fp s0 = false) by exact Hfp.
    assert (A0 : affordable d s0 = true) by exact A.
    rewrite F0, A0. unfold affordable in A. bd. right. autorewrite with proj. cbn [units s0 set_timers set_credit]. split; lia.
Qed.

(* ---- earnings = coins accepted ------------------------------------------------------------------ *)
(* ghost ledger: the values (ticks) of the coins accepted since the last earnings reset; a coin is accepted
   iff the machine is in credit play and the switch is a configured coin switch *)
Definition ledger_step (d : dcfg) (s : st) (o : op) (acc : list Z) : list Z :=
  match o with
  | ResetEarnings => []
  | Coin k => if fp s then acc else
              match nth_error (d_coin_units d) k with Some _ => nth k (d_coin_ticks d) 0 :: acc | None => acc end
  | _ => acc
  end.

Fixpoint ledger (d : dcfg) (s : st) (ops : list op) (acc : list Z) : list Z :=
  match ops with
  | [] => acc
  | o :: r => ledger d (step d s o) r (ledger_step d s o acc)
  end.

Lemma audit_advance d s t : a_coins (advance d s t) = a_coins s /\ a_earn (advance d s t) = a_earn s.
Proof.
  unfold advance. destruct (due (dfrac s) t);
  match goal with |- context [due (dall ?x) t] => destruct (due (dall x) t) end; split; reflexivity.
Qed.

Lemma add_player_audit d s :
  a_coins (add_player d s) = a_coins s /\ a_earn (add_player d s) = a_earn s.
Proof.
  unfold add_player. destruct (fp s); [split; reflexivity|]. destruct (affordable d s); [|split; reflexivity].
  split.
  - change (a_coins s + 0 = a_coins s). lia.
  - change (a_earn s + 0 = a_earn s). lia.
Qed.

Lemma start_st_audit d s acc :
  a_coins s = Z.of_nat (length acc) -> a_earn s = sumZ acc ->
  a_coins (start_st d s) = Z.of_nat (length acc) /\ a_earn (start_st d s) = sumZ acc.
Proof.
  intros Hc He. unfold start_st.
  destruct (ingame s); [destruct (game_full s); auto | destruct (fp s); [|destruct (affordable d s); auto]];
    match goal with |- context [add_player d ?x] => destruct (add_player_audit d x) as [P Q]; rewrite P, Q end;
    split; first [exact Hc | exact He].
Qed.

Lemma paid_join_audit d s : a_coins (paid_join d s) = a_coins s /\ a_earn (paid_join d s) = a_earn s.
Proof.
  split.
  - change (a_coins s + 0 = a_coins s). lia.
  - change (a_earn s + 0 = a_earn s). lia.
Qed.

Lemma iter_audit n f : (forall s, a_coins (f s) = a_coins s /\ a_earn (f s) = a_earn s) ->
  forall s, a_coins (iter_st n f s) = a_coins s /\ a_earn (iter_st n f s) = a_earn s.
Proof.
  intros Hf. induction n as [|n IH]; intros s; cbn [iter_st]; [auto|].
  destruct (IH (f s)) as [A B]. destruct (Hf s) as [C D]. split; congruence.
Qed.

Lemma pay_only_audit d s : a_coins (pay_only d s) = a_coins s /\ a_earn (pay_only d s) = a_earn s.
Proof.
  split.
  - change (a_coins s + 0 = a_coins s). lia.
  - change (a_earn s + 0 = a_earn s). lia.
Qed.

Lemma held_approve_audit d s n :
  a_coins (fst (held_approve d s n)) = a_coins s /\ a_earn (fst (held_approve d s n)) = a_earn s.
Proof.
  unfold held_approve. destruct n as [|n]; [auto|].
  destruct (ingame s).
  - destruct (game_full s); [auto|]. destruct (fp s || affordable d s); [|auto].
    cbn [fst]. apply (iter_audit (S n) join_game (fun x => conj eq_refl eq_refl) s).
  - destruct (fp s); [split; reflexivity|]. destruct (affordable d s); split; reflexivity.
Qed.

Lemma held_st_audit d s n w : a_coins (held_st d s n w) = a_coins s /\ a_earn (held_st d s n w) = a_earn s.
Proof.
  unfold held_st. destruct (held_approve_audit d s n) as [A B].
  set (s1 := fst (held_approve d s n)) in *.
  destruct (audit_advance d s1 (now s1 + w)) as [C D].
  destruct (fp (advance d s1 (now s1 + w))); [split; congruence|].
  destruct (iter_audit (snd (held_approve d s n)) (pay_only d) (pay_only_audit d) (advance d s1 (now s1 + w))) as [P Q].
  split; congruence.
Qed.

Lemma add_units_audit d s n t :
  a_coins (add_units d s n t) = a_coins s /\ a_earn (add_units d s n t) = a_earn s.
Proof. unfold add_units, touch_if. destruct (add_doit d s); split; reflexivity. Qed.

Lemma audit_apply d s o acc :
  a_coins s = Z.of_nat (length acc) -> a_earn s = sumZ acc ->
  a_coins (apply_op d s o) = Z.of_nat (length (ledger_step d s o acc)) /\
  a_earn (apply_op d s o) = sumZ (ledger_step d s o acc).
Proof.
  intros Hc He. destruct o; cbn [apply_op ledger_step].
  - destruct (fp s); auto. destruct (nth_error (d_coin_units d) k); auto.
    cbn [length sumZ fold_right]. destruct (add_units_audit d s z true) as [P Q]. split.
    + change (a_coins (add_units d s z true) + 1 = Z.of_nat (S (length acc))). lia.
    + change (a_earn (add_units d s z true) + nth k (d_coin_ticks d) 0 = nth k (d_coin_ticks d) 0 + sumZ acc). lia.
  - destruct (fp s); auto. destruct (add_units_audit d s (d_upg d) false) as [P Q]. split.
    + change (a_coins (add_units d s (d_upg d) false) + 0 = Z.of_nat (length acc)). lia.
    + change (a_earn (add_units d s (d_upg d) false) + 0 = sumZ acc). lia.
  - destruct (fp s); auto. destruct (nth_error (d_ev_units d) j); auto.
    destruct (add_units_audit d s z false) as [P Q]. split.
    + change (a_coins (add_units d s z false) + 0 = Z.of_nat (length acc)). lia.
    + change (a_earn (add_units d s z false) + 0 = sumZ acc). lia.
  - apply start_st_audit; auto.
  - unfold end_game.
    destruct (negb (ingame s)); auto. destruct (cpl s <? npl s); auto.
    destruct (cball s <? d_bpg d).
    + destruct ((cball s + 1 =? 2) && negb (fp s) && negb (flag s)); auto.
    + destruct (fp s); auto.
  - unfold end_game. destruct (ingame s); auto. destruct (fp s); auto.
  - auto.
  - destruct (fp s); auto.
  - auto.
  - auto.
  - auto.
  - split; reflexivity.
  - unfold burst_st. destruct n as [|n]; auto.
    destruct (ingame s); [|apply start_st_audit; auto].
    destruct (game_full s); auto. destruct (fp s).
    + destruct (iter_audit (S n) join_game (fun x => conj eq_refl eq_refl) s) as [P Q]. rewrite P, Q. auto.
    + destruct (affordable d s); auto.
      destruct (iter_audit (S n) (paid_join d) (paid_join_audit d) s) as [P Q]. rewrite P, Q. auto.
  - unfold power_on. cbn [read_setting fp]. destruct (fp s); auto.
  - destruct (held_st_audit d s n w) as [P Q]. rewrite P, Q. auto.
Qed.

Lemma ledger_inv d : forall ops s acc,
  a_coins s = Z.of_nat (length acc) -> a_earn s = sumZ acc ->
  a_coins (final d s ops) = Z.of_nat (length (ledger d s ops acc)) /\
  a_earn (final d s ops) = sumZ (ledger d s ops acc).
Proof.
  induction ops as [|o r IH]; intros s acc Hc He; cbn [final fold_left ledger]; [auto|].
  apply IH; unfold step; destruct (audit_advance d (apply_op d s o) (now (apply_op d s o) + dur o)) as [A B];
    destruct (audit_apply d s o acc Hc He) as [C D]; congruence.
Qed.

Lemma earnings_equal_coins_l d ops :
  a_coins (final d (init d) ops) = Z.of_nat (length (ledger d (init d) ops [])) /\
  a_earn (final d (init d) ops) = sumZ (ledger d (init d) ops []).
Proof. apply ledger_inv; unfold init, power_on; cbn [read_setting fp]; destruct (d_boot_fp d); reflexivity. Qed.

(* ---- balance formula (no maximum, no expiry, one tier epoch) ------------------------------------- *)
Definition insert_all (d : dcfg) (s : st) (ns : list Z) : st := fold_left (fun s n => add_units d s n true) ns s.

Lemma add_units_nocap d s n : d_wf d -> d_maxu d = 0 -> 0 <= n -> 0 <= tc s < d_W d ->
  units (add_units d s n true) = units s + n + G d (tc s + n) - G d (tc s) /\
  tc (add_units d s n true) = (tc s + n) mod d_W d.
Proof.
  intros Hwf Hm Hn Hc. unfold add_units, add_over, add_doit, add_ct. rewrite Hm.
  rewrite (Z.mod_small (tc s)) by lia.
  rewrite (tier_loop_closed d Hwf) by lia. rewrite Z2Nat.id by lia.
  cbn [fst snd Z.eqb negb andb Z.leb Z.compare orb]. autorewrite with proj. cbn [tc set_credit]. split; lia.
Qed.

Lemma balance_formula_l d : d_wf d -> d_maxu d = 0 -> forall ns s,
  Forall (fun n => 0 <= n) ns -> 0 <= tc s < d_W d ->
  units (insert_all d s ns) = units s + sumZ ns + G d (tc s + sumZ ns) - G d (tc s) /\
  tc (insert_all d s ns) = (tc s + sumZ ns) mod d_W d.
Proof.
  intros Hwf Hm. pose proof Hwf as (_ & _ & Hpos).
  induction ns as [|n r IH]; intros s Hns Hc; cbn [insert_all fold_left sumZ fold_right].
  - rewrite !Z.add_0_r, Z.mod_small by lia. split; lia.
  - inversion Hns as [|? ? Hn Hr]; subst.
    destruct (add_units_nocap d s n Hwf Hm Hn Hc) as [U T].
    specialize (IH (add_units d s n true) Hr).
    unfold insert_all in IH. destruct IH as [IU IT]; [rewrite T; apply Z.mod_pos_bound; lia|].
    fold (sumZ r). rewrite IU, IT, U, T. split.
    + pose proof (G_shift d (tc s + n) (sumZ r) Hwf) as E.
      replace (tc s + (n + sumZ r)) with (tc s + n + sumZ r) by lia. lia.
    + rewrite Z.add_mod_idemp_l by lia. f_equal. lia.
Qed.

Lemma coin_is_add_l d s k n : fp s = false -> nth_error (d_coin_units d) k = Some n ->
  units (apply_op d s (Coin k)) = units (add_units d s n true) /\
  tc (apply_op d s (Coin k)) = tc (add_units d s n true).
Proof. intros Hfp E. cbn [apply_op]. rewrite Hfp, E. split; reflexivity. Qed.

(* ---- the unpatched cap is refuted; examples ------------------------------------------------------ *)
Definition ex_cfg : cfg := mkCfg [2; 2; 8] [(4, 1); (16, 5)] 12 10060 30060 [4] false 3 3600000 8.

Fixpoint iter {A} (n : nat) (f : A -> A) (x : A) : A := match n with O => x | S k => iter k f (f x) end.

Lemma ex_cfg_ok : d_okb (derive ex_cfg) = true /\ d_wf (derive ex_cfg) /\ cfg_exact ex_cfg = true.
Proof. split; [vm_compute; reflexivity|]. split; [|vm_compute; reflexivity]. apply derive_wf. vm_compute. reflexivity. Qed.

Lemma cap_overshoot_orig_refuted_l :
  exists c, d_okb (derive c) = true /\ 0 < d_maxu (derive c) /\
    let d := derive c in
    d_maxu d < units (coin_orig d (iter 11 (service_orig d) (init d)) 2).
Proof. exists ex_cfg. split; [vm_compute; reflexivity|]. split; vm_compute; reflexivity. Qed.

Lemma cap_fixed_example :
  let d := derive ex_cfg in
  units (final d (init d) (repeat Service 11 ++ [Coin 2])) = d_maxu d /\ d_maxu d = 24.
Proof. vm_compute. split; reflexivity. Qed.

Definition ex_cfg0 : cfg := mkCfg [2; 8] [(4, 1); (16, 5); (40, 15)] 0 0 0 [] false 3 0 8.

Lemma ex_formula :
  let d := derive ex_cfg0 in
  d_wf d /\ d_maxu d = 0 /\ d_W d = 20 /\
  units (insert_all d (init d) [4; 4]) = 10 /\                 (* $1 + $1 -> 5 credits *)
  units (insert_all d (init d) [4; 4; 4; 4; 1; 4]) = 31 /\     (* test_CreditsMode: 15 1/2 credits *)
  G d 20 = 10 /\ G d 8 = 2.
Proof.
  cbv zeta. split.
  - apply derive_wf. vm_compute. reflexivity.
  - vm_compute. repeat split.
Qed.

Lemma ex_start :
  let d := derive ex_cfg in
  let s := final d (init d) [Coin 0; Coin 1] in
  fp s = false /\ d_upg d <= units s /\ 0 < d_upg d /\ ingame s = false /\
  units (apply_op d s Start) = 0 /\ npl (apply_op d s Start) = 1 /\
  apply_op d (init d) Start = init d.
Proof. vm_compute. repeat split; try reflexivity; try (intro H; discriminate H). Qed.

Lemma ex_earnings :
  let d := derive ex_cfg in
  let ops := [Coin 0; EnableFree; Coin 2; EnableCredit; Coin 2; Coin 2; Coin 2; Coin 2; Coin 2; Coin 2; Coin 2] in
  ledger d (init d) ops [] = [8; 8; 8; 8; 8; 8; 8; 2] /\ a_earn (final d (init d) ops) = 58 /\
  units (final d (init d) ops) = 24.
Proof. vm_compute. repeat split. Qed.

(* ---- bursts of start presses --------------------------------------------------------------------- *)
Lemma paid_join_iter d : 0 < d_upg d -> forall n s, Z.of_nat n * d_upg d <= units s ->
  units (iter_st n (paid_join d) s) = units s - Z.of_nat n * d_upg d /\
  npl (iter_st n (paid_join d) s) = npl s + Z.of_nat n /\
  a_paid (iter_st n (paid_join d) s) = a_paid s + Z.of_nat n.
Proof.
  intros Hpos. induction n as [|n IH]; intros s Hu; cbn [iter_st].
  - cbn [Z.of_nat]. repeat split; lia.
  - assert (U : units (paid_join d s) = units s - d_upg d).
    { unfold paid_join. autorewrite with proj. lia. }
    assert (N : npl (paid_join d s) = npl s + 1) by reflexivity.
    assert (P : a_paid (paid_join d s) = a_paid s + 1) by reflexivity.
    destruct (IH (paid_join d s)) as (A & B & C); [rewrite U; lia|].
    rewrite A, B, C, U, N, P. repeat split; lia.
Qed.

(* partial start gate for bursts: guard = the balance covers every press (or none) *)
Lemma start_burst_partial_l d s n :
  fp s = false -> ingame s = true -> game_full s = false -> 0 < d_upg d ->
  (Z.of_nat (S n) * d_upg d <= units s ->
     let s' := apply_op d s (StartBurst (S n)) in
     units s' = units s - Z.of_nat (S n) * d_upg d /\ npl s' = npl s + Z.of_nat (S n) /\
     a_paid s' = a_paid s + Z.of_nat (S n)) /\
  (units s < d_upg d ->
     apply_op d s (StartBurst (S n)) = s /\ e_not_enough (apply_ev d s (StartBurst (S n))) = Z.of_nat (S n)).
Proof.
  intros Hfp Hg Hfull Hpos. split.
  - intros Hu. cbn zeta. cbn [apply_op]. unfold burst_st. rewrite Hg, Hfull, Hfp.
    assert (A : affordable d s = true) by (unfold affordable; apply Z.leb_le; nia).
    rewrite A. apply paid_join_iter; auto.
  - intros Hu. assert (A : affordable d s = false) by (unfold affordable; apply Z.leb_gt; lia).
    cbn [apply_op apply_ev]. unfold burst_st, start_ev. rewrite Hg, Hfull, Hfp, A. cbn [andb]. split; reflexivity.
Qed.

Lemma start_burst_refuted_l :
  exists c ops, let d := derive c in let s := final d (init d) ops in
    d_okb d = true /\ fp s = false /\ ingame s = true /\ game_full s = false /\ units s = d_upg d /\
    let s' := apply_op d s (StartBurst 2) in
    npl s' = npl s + 2 /\ units s - units s' < 2 * d_upg d.
Proof. exists ex_cfg, [Coin 2; Start]. vm_compute. repeat split; try reflexivity; try (intro H; discriminate H). Qed.

Lemma start_burst_example_l :
  let d := derive ex_cfg in let s := final d (init d) [Coin 2; Coin 2; Start] in
  fp s = false /\ ingame s = true /\ game_full s = false /\ 2 * d_upg d <= units s /\
  npl (apply_op d s (StartBurst 2)) = 3 /\ units (apply_op d s (StartBurst 2)) = units s - 4 /\
  e_not_enough (apply_ev d (init d) (StartBurst 3)) = 3.
Proof. vm_compute. repeat split; try reflexivity; try (intro H; discriminate H). Qed.
