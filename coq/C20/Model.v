(* C20/Model.v — executable model of mpf/modes/credits/code/credits.py (credits mode) together with the small
   parts of mpf/modes/game/code/game.py (start request, player add gate, ball/player rotation, game end),
   mpf/core/machine_vars.py (persistence of credit_units: persist flag, expire_secs, timeout, load at boot) and
   mpf/core/settings_controller.py (read path of the free_play setting) it interacts with.
   Definitions only; proofs are in Lemmas.v, Formula.v, FloatLemmas.v.

   Money values of the configuration are integers in minor units, v / c_scale currency units (8: ticks of 1/8,
   every float operation of the implementation is then exact; 100: cents, the doubles are inexact).  The unit /
   price / tier computation is performed with binary64 arithmetic on exact rationals (Float.v); from there on the
   model counts integer credit units.  Time in integer milliseconds.

   The model is of the code WITH the fixes of /verif/fixes/C20-*.patch applied (cap clamps once; credit units are
   computed when the mode boots in free play; enable_credit_play does not register the coin/credit handlers twice;
   value / unit is snapped to the nearest int when it is one up to float noise).  [add_units_orig] keeps the
   unpatched cap logic and [derive_x false] the unpatched float conversion, for the refutation witnesses. *)
From Common Require Import Prelude.
From Coq Require Import QArith.
From C20 Require Import Float.
Open Scope Z_scope.

(* ---- configuration (section credits: of the machine config) ---------------------------------- *)
Record cfg := mkCfg {
  c_coins : list Z;          (* switches[i].value, ticks *)
  c_tiers : list (Z * Z);    (* pricing_tiers: (price ticks, credits) *)
  c_max : Z;                 (* max_credits (0 = no maximum) *)
  c_frac_ms : Z;             (* fractional_credit_expiration_time, 0 = off *)
  c_all_ms : Z;              (* credit_expiration_time, 0 = off *)
  c_evq : list Z;            (* events[j].credits in quarter credits *)
  c_boot_fp : bool;          (* free_play setting at boot *)
  c_bpg : Z;                 (* game: balls_per_game *)
  c_persist_ms : Z;          (* persist_credits_while_off_time in ms, 0 = off *)
  c_scale : Z                (* money values are v / c_scale currency units: 8 = ticks of 1/8, 100 = cents *)
}.

Definition max_players : Z := 4.    (* game: max_players default *)
Definition op_ms : Z := 125.        (* virtual time the rig lets pass after every operation *)

(* _calculate_credit_units *)
Definition first_price (c : cfg) : Z := match c_tiers c with [] => c_scale c | (p, _) :: _ => p end.
Definition min_value (c : cfg) : Z :=
  match c_coins c with [] => first_price c | x :: r => fold_left Z.min r x end.
Definition credit_unit (c : cfg) : Z :=
  let m := min_value c in let p := first_price c in
  if m =? p then m else if m <? p then Z.min (p - m) m else Z.min (m - p) p.
Definition units_per_game (c : cfg) : Z := first_price c / credit_unit c.   (* int(price / unit) *)

(* _calculate_pricing_tiers, first loop: (credit units of the tier, bonus) for the tiers that are kept.
   credit_units = price / unit is a float in the code; "W > credit_units" is W*unit > price and
   int(x) truncates toward zero (Z.quot). *)
Fixpoint keep_tiers (cu upg w : Z) (ts : list (Z * Z)) : list (Z * Z) :=
  match ts with
  | [] => []
  | (p, cr) :: r =>
      if p <? w * cu then keep_tiers cu upg w r
      else (p / cu, Z.quot (upg * cr * cu - p) cu) :: keep_tiers cu upg (p / cu) r
  end.

(* second loop, body: "for tier in reversed(tiers): while units - accounted >= tcu: ..." *)
Fixpoint greedy (rts : list (Z * Z)) (x : Z) : Z :=
  match rts with
  | [] => 0
  | (t, b) :: r => (x / t) * b + greedy r (x mod t)
  end.

Definition wrap_of (rts : list (Z * Z)) : Z := match rts with [] => 1 | (t, _) :: _ => t end.

(* second loop: pricing_table[units] = bonus - old_bonus for units in range(W+1) *)
Fixpoint tbl (g : Z -> Z) (n : nat) (u old : Z) : list Z :=
  match n with
  | O => []
  | S n' => (g u - old) :: tbl g n' (u + 1) (g u)
  end.

Definition mk_table (rts : list (Z * Z)) : list Z :=
  tbl (greedy rts) (S (Z.to_nat (wrap_of rts))) 0 0.

(* ---- the same computation with the arithmetic the code really performs (binary64, Float.v) ----------
   [fx] = true: FIXED code (fixes/C20-decimal-prices-float-truncation.patch: value / unit is snapped to the
   nearest int when it is one up to float noise); false: the unfixed code (refutation witness only). *)
Definition to_units (fx : bool) (v cu : Q) : Q := if fx then to_units_fixed v cu else to_units_orig v cu.

Definition credit_unit_q (c : cfg) : Q :=
  let m := fval (c_scale c) (min_value c) in let p := fval (c_scale c) (first_price c) in
  if qeq m p then m
  else if qlt m p then (let u := fsub p m in if qlt m u then m else u)
  else (let u := fsub m p in if qlt p u then p else u).

Definition upg_q (fx : bool) (c : cfg) : Z :=
  trunc (to_units fx (fval (c_scale c) (first_price c)) (credit_unit_q c)).

(* credit_units = _to_credit_units(price); bonus = upg * credits - credit_units (float when credit_units is one);
   "W > credit_units"; int(credit_units), int(bonus) *)
Fixpoint keep_tiers_q (fx : bool) (S : Z) (cu : Q) (upg w : Z) (ts : list (Z * Z)) : list (Z * Z) :=
  match ts with
  | [] => []
  | (p, cr) :: r =>
      let x := to_units fx (fval S p) cu in
      if qlt x (inject_Z w) then keep_tiers_q fx S cu upg w r
      else (trunc x, trunc (fsub (inject_Z (upg * cr)) x)) :: keep_tiers_q fx S cu upg (trunc x) r
  end.

(* _credit_switch_callback: value / unit has to be an int (otherwise AssertionError: -1 here, outside the domain) *)
Definition coin_units_q (fx : bool) (S : Z) (cu : Q) (v : Z) : Z :=
  let x := to_units fx (fval S v) cu in if q_is_int x then trunc x else -1.

(* ---- derived constants ------------------------------------------------------------------------ *)
Record dcfg := mkD {
  d_cuq : Q; d_upg : Z; d_rkt : list (Z * Z); d_W : Z; d_table : list Z; d_maxu : Z;
  d_coin_units : list Z; d_coin_ticks : list Z; d_ev_units : list Z; d_ev_int : list Z;
  d_frac_ms : Z; d_all_ms : Z; d_boot_fp : bool; d_bpg : Z; d_persist_ms : Z
}.

Definition derive_x (fx : bool) (c : cfg) : dcfg :=
  let cu := credit_unit_q c in
  let upg := upg_q fx c in
  let rkt := rev (keep_tiers_q fx (c_scale c) cu upg 0 (c_tiers c)) in
  mkD cu upg rkt (wrap_of rkt) (mk_table rkt) (c_max c * upg)
      (map (coin_units_q fx (c_scale c) cu) (c_coins c)) (c_coins c)
      (map (fun q => q * upg / 4) (c_evq c)) (map (fun q => q / 4) (c_evq c))
      (c_frac_ms c) (c_all_ms c) (c_boot_fp c) (c_bpg c) (c_persist_ms c).

Definition derive : cfg -> dcfg := derive_x true.

(* the ideal computation in exact arithmetic on minor units (what the configuration means) *)
Definition derive_ideal (c : cfg) : dcfg :=
  let cu := credit_unit c in
  let upg := units_per_game c in
  let rkt := rev (keep_tiers cu upg 0 (c_tiers c)) in
  mkD (Qmake cu (Z.to_pos (c_scale c))) upg rkt (wrap_of rkt) (mk_table rkt) (c_max c * upg)
      (map (fun v => if v mod cu =? 0 then v / cu else -1) (c_coins c)) (c_coins c)
      (map (fun q => q * upg / 4) (c_evq c)) (map (fun q => q / 4) (c_evq c))
      (c_frac_ms c) (c_all_ms c) (c_boot_fp c) (c_bpg c) (c_persist_ms c).

(* what has to agree between the two: everything the run depends on (the unit itself may differ in the last bit) *)
Definition zz_eqb (a b : Z * Z) : bool := (fst a =? fst b) && (snd a =? snd b).
Definition dcore_eqb (a b : dcfg) : bool :=
  (d_upg a =? d_upg b) && (d_W a =? d_W b) && zs_eqb (d_table a) (d_table b) && (d_maxu a =? d_maxu b)
  && zs_eqb (d_coin_units a) (d_coin_units b) && list_eqb zz_eqb (d_rkt a) (d_rkt b).

(* the model's stated domain: every coin value, tier price is a whole number of credit units, event credits
   a whole number of units (otherwise the code raises "Credits units need to be ints") *)
Definition cfg_exact (c : cfg) : bool :=
  let cu := credit_unit c in
  (0 <? cu) && forallb (fun v => v mod cu =? 0) (c_coins c)
  && forallb (fun t => (fst t mod cu =? 0) && (0 <? fst t)) (c_tiers c)
  && forallb (fun q => (q * units_per_game c) mod 4 =? 0) (c_evq c)
  && match c_tiers c with [] => true | (_, cr) :: _ => cr =? 1 end.

(* ---- state ---------------------------------------------------------------------------------- *)
Record st := mkSt {
  units : Z;            (* machine var credit_units *)
  tc : Z;               (* credit_units_for_pricing_tiers *)
  flag : bool;          (* reset_pricing_tier_count_this_game *)
  fp : bool;            (* machine var free_play (the stored setting) *)
  now : Z;              (* ms *)
  dfrac : option Z;     (* deadline of delay clear_fractional_credits *)
  dall : option Z;      (* deadline of delay clear_all_credits *)
  ingame : bool; npl : Z; cpl : Z; cball : Z;          (* game: running, num_players, player.number, player.ball *)
  a_coins : Z; a_earn : Z; a_paid : Z; a_svc : Z; a_evaw : Z;   (* earnings audits (data manager 'earnings') *)
  ploaded : bool;       (* credit_units was loaded from disk at this boot (persist = True, no expire_secs yet) *)
  pexp : option Z       (* credit_units: 'timeout' = last write + persist_credits_while_off_time, once configured *)
}.

Definition set_credit (s : st) (u c : Z) : st :=
  mkSt u c (flag s) (fp s) (now s) (dfrac s) (dall s) (ingame s) (npl s) (cpl s) (cball s) (a_coins s) (a_earn s) (a_paid s) (a_svc s) (a_evaw s) (ploaded s) (pexp s).
Definition set_flag (s : st) (f : bool) : st :=
  mkSt (units s) (tc s) f (fp s) (now s) (dfrac s) (dall s) (ingame s) (npl s) (cpl s) (cball s) (a_coins s) (a_earn s) (a_paid s) (a_svc s) (a_evaw s) (ploaded s) (pexp s).
Definition set_fp (s : st) (f : bool) : st :=
  mkSt (units s) (tc s) (flag s) f (now s) (dfrac s) (dall s) (ingame s) (npl s) (cpl s) (cball s) (a_coins s) (a_earn s) (a_paid s) (a_svc s) (a_evaw s) (ploaded s) (pexp s).
Definition set_now (s : st) (t : Z) : st :=
  mkSt (units s) (tc s) (flag s) (fp s) t (dfrac s) (dall s) (ingame s) (npl s) (cpl s) (cball s) (a_coins s) (a_earn s) (a_paid s) (a_svc s) (a_evaw s) (ploaded s) (pexp s).
Definition set_timers (s : st) (f a : option Z) : st :=
  mkSt (units s) (tc s) (flag s) (fp s) (now s) f a (ingame s) (npl s) (cpl s) (cball s) (a_coins s) (a_earn s) (a_paid s) (a_svc s) (a_evaw s) (ploaded s) (pexp s).
Definition set_game (s : st) (g : bool) (n p b : Z) : st :=
  mkSt (units s) (tc s) (flag s) (fp s) (now s) (dfrac s) (dall s) g n p b (a_coins s) (a_earn s) (a_paid s) (a_svc s) (a_evaw s) (ploaded s) (pexp s).
Definition set_audit (s : st) (c e p sv ev : Z) : st :=
  mkSt (units s) (tc s) (flag s) (fp s) (now s) (dfrac s) (dall s) (ingame s) (npl s) (cpl s) (cball s) c e p sv ev (ploaded s) (pexp s).
Definition set_pexp (s : st) (x : option Z) : st :=
  mkSt (units s) (tc s) (flag s) (fp s) (now s) (dfrac s) (dall s) (ingame s) (npl s) (cpl s) (cball s) (a_coins s) (a_earn s) (a_paid s) (a_svc s) (a_evaw s) (ploaded s) x.

(* MachineVariables.set_machine_var('credit_units', ..) at time [t]: once the variable has expire_secs
   (configure_machine_var in enable_credit_play) every write, changed or not, moves its timeout *)
Definition touch (d : dcfg) (s : st) (t : Z) : st :=
  set_pexp s (match pexp s with Some _ => Some (t + d_persist_ms d) | None => None end).

(* SettingsController.get_setting_value: the stored machine variable if there is one, else the default *)
Definition read_setting (default : bool) (stored : option bool) : bool :=
  match stored with Some v => v | None => default end.

(* enable_credit_play: configure_machine_var(credit_units, persist, expire_secs) when persistence is configured,
   then set_machine_var(credit_units, <same value>); setting free_play := False *)
Definition enable_credit (d : dcfg) (s : st) : st :=
  set_pexp (set_fp s false) (if 0 <? d_persist_ms d then Some (now s + d_persist_ms d) else pexp s).

(* power on at time [t] with the data files [disk] left by the previous run (None = first boot):
   load_machine_vars skips an entry whose 'expire' is < the current time; tier counter, flag, delays and the game
   are not persistent; earnings and the free_play setting are.  The boot itself takes 1 ms of virtual time. *)
Definition on_disk (s : st) : bool := ploaded s || match pexp s with Some _ => true | None => false end.
Definition survives (s : st) (t : Z) : bool :=
  on_disk s && match pexp s with Some e => negb (e <? t) | None => true end.

Definition power_on (d : dcfg) (disk : option st) (t : Z) : st :=
  let s0 :=
    match disk with
    | None => mkSt 0 0 false (read_setting (d_boot_fp d) None) t None None false 0 0 0 0 0 0 0 0 false None
    | Some s => mkSt (if survives s t then units s else 0) 0 false (read_setting (d_boot_fp d) (Some (fp s))) t
                     None None false 0 0 0 (a_coins s) (a_earn s) (a_paid s) (a_svc s) (a_evaw s) (survives s t) None
    end in
  set_now (if fp s0 then s0 else enable_credit d s0) (t + 1).

Definition init (d : dcfg) : st := power_on d None (-1).

(* ---- _add_credit_units ---------------------------------------------------------------------- *)
Definition tget (d : dcfg) (u : Z) : Z := nth (Z.to_nat u) (d_table d) 0.

(* "for _ in range(credit_units): counter += 1; total += table[counter]; counter %= W" *)
Fixpoint tier_loop (d : dcfg) (n : nat) (c total : Z) : Z * Z :=
  match n with
  | O => (c, total)
  | S n' => tier_loop d n' ((c + 1) mod d_W d) (total + tget d (c + 1))
  end.

Definition b2z (b : bool) : Z := if b then 1 else 0.

(* counter and uncapped total after the tier loop *)
Definition add_ct (d : dcfg) (s : st) (n : Z) (tiering : bool) : Z * Z :=
  let c0 := tc s mod d_W d in
  if tiering then tier_loop d (Z.to_nat n) c0 (n + units s) else (c0, n + units s).

Definition add_over (d : dcfg) (s : st) (n : Z) (tiering : bool) : bool :=      (* max_credits_reached posted *)
  negb (d_maxu d =? 0) && (d_maxu d <? snd (add_ct d s n tiering)).
Definition add_doit (d : dcfg) (s : st) : bool :=                               (* credits_added posted *)
  (d_maxu d <=? 0) || (units s <? d_maxu d).

Definition touch_if (b : bool) (d : dcfg) (s : st) (t : Z) : st := if b then touch d s t else s.

Definition add_units (d : dcfg) (s : st) (n : Z) (tiering : bool) : st :=
  let total := snd (add_ct d s n tiering) in
  let total' := if add_over d s n tiering then d_maxu d else total in      (* fixed code: clamp once *)
  touch_if (add_doit d s) d
    (set_credit s (if add_doit d s then total' else units s) (fst (add_ct d s n tiering))) (now s).

(* the unpatched code: first "if" stores the maximum, the independent second "if" overwrites it *)
Definition add_units_orig (d : dcfg) (s : st) (n : Z) (tiering : bool) : st :=
  let total := snd (add_ct d s n tiering) in
  set_credit s (if add_doit d s then total else if add_over d s n tiering then d_maxu d else units s)
             (fst (add_ct d s n tiering)).

(* ---- timers --------------------------------------------------------------------------------- *)
Definition reset_timeouts (d : dcfg) (s : st) : st :=
  set_timers s (if d_frac_ms d =? 0 then dfrac s else Some (now s + d_frac_ms d))
               (if d_all_ms d =? 0 then dall s else Some (now s + d_all_ms d)).

Definition clear_frac (d : dcfg) (s : st) : st := set_credit s (units s - units s mod d_upg d) (tc s).
Definition clear_all (s : st) : st := set_credit s 0 0.

Definition due (t : option Z) (n : Z) : bool := match t with Some x => x <=? n | None => false end.

(* let time pass until [t]; the two delays fire at most once each (final state does not depend on their order) *)
Definition dl (o : option Z) : Z := match o with Some x => x | None => 0 end.

(* each callback runs at its own deadline (that is the time of its write to credit_units); when both are due the
   later deadline is the last write *)
Definition advance (d : dcfg) (s : st) (t : Z) : st :=
  let s1 := if due (dfrac s) t then set_timers (touch d (clear_frac d s) (dl (dfrac s))) None (dall s) else s in
  let s2 := if due (dall s1) t
            then set_timers (touch d (clear_all s1)
                                   (if due (dfrac s) t then Z.max (dl (dfrac s)) (dl (dall s1)) else dl (dall s1)))
                            (dfrac s1) None
            else s1 in
  set_now s2 t.

(* ---- operations ----------------------------------------------------------------------------- *)
Inductive op :=
| Coin (k : nat) | Service | CreditEv (j : nat) | Start | EndBall | EndGame | Wait (ms : Z)
| ToggleFree | EnableFree | EnableCredit | ResetCredits | ResetEarnings
| StartBurst (n : nat)    (* n start presses inside one run of the event queue *)
| Reboot (off : Z)        (* power off, power on [off] ms later with the data files written so far *)
| StartHeld (n : nat) (w : Z).   (* n presses in one event-queue run while player_adding is held for w ms *)

Record evs := mkEvs { e_not_enough : Z; e_max : Z; e_added : Z; e_accepted : Z }.
Definition no_evs := mkEvs 0 0 0 0.

Definition affordable (d : dcfg) (s : st) : bool := d_upg d <=? units s.

Definition with_audit (s : st) (dc de dp ds dv : Z) : st :=
  set_audit s (a_coins s + dc) (a_earn s + de) (a_paid s + dp) (a_svc s + ds) (a_evaw s + dv).

Definition join_game (s : st) : st :=
  set_game s true (npl s + 1) (if npl s =? 0 then 1 else cpl s) (if npl s =? 0 then 1 else cball s).

(* game.request_player_add passed its own checks; credits: _player_add_request, then _player_added *)
Definition add_player (d : dcfg) (s : st) : st :=
  if fp s then join_game s
  else if affordable d s then
    let s2 := with_audit (join_game s) 0 0 1 0 0 in
    touch d (set_credit s2 (Z.max 0 (units s2 - d_upg d)) (tc s2)) (now s)
  else s.

Definition end_game (d : dcfg) (s : st) : st :=
  let s1 := set_game s false 0 0 0 in
  if fp s then s1 else set_flag (reset_timeouts d s1) false.      (* _game_ended only registered in credit play *)

Definition game_full (s : st) : bool := (max_players <=? npl s) || (1 <? cball s).

(* one press of the start button *)
Definition start_st (d : dcfg) (s : st) : st :=
  if ingame s then
    if game_full s then s else add_player d s
  else
    if fp s then add_player d (set_game s true 0 0 0)
    else if affordable d s then
      (* mode_game_started -> _game_started: delays removed, tier counter restarts *)
      add_player d (set_timers (set_credit (set_game s true 0 0 0) (units s) 0) None None)
    else s.

Definition start_ev (d : dcfg) (s : st) (presses : Z) : evs :=
  if fp s then no_evs
  else if ingame s && game_full s then no_evs
  else if affordable d s then no_evs
  else mkEvs presses 0 0 0.

(* n presses inside one run of the event queue (known finding start-burst-unpaid).  In attract only one game is
   started.  In a game every press passes game.request_player_add against the same player list, every
   player_add_request is checked by _player_add_request against the same balance (the deduction happens later, on
   player_added, and is floored at 0): all n players are added or none. *)
Definition paid_join (d : dcfg) (s : st) : st :=
  let s2 := with_audit (join_game s) 0 0 1 0 0 in
  touch d (set_credit s2 (Z.max 0 (units s2 - d_upg d)) (tc s2)) (now s).
Fixpoint iter_st (n : nat) (f : st -> st) (s : st) : st := match n with O => s | S k => iter_st k f (f s) end.
Definition burst_st (d : dcfg) (s : st) (n : nat) : st :=
  match n with
  | O => s
  | S _ =>
      if ingame s then
        if game_full s then s
        else if fp s then iter_st n join_game s
        else if affordable d s then iter_st n (paid_join d) s else s
      else start_st d s
  end.

(* start presses while a handler holds the player_adding queue (game.py creates the player when the request is
   approved and posts player_added only when the queue is released): n presses inside one event-queue run are
   approved against the undeducted balance exactly like a burst; then [w] ms pass (expiry delays may fire); then the
   queues are released in order and every player_added deducts one price, floored at 0 — if credit play is still
   on.  In attract one game is started and its first player is the pending one. *)
Definition pay_only (d : dcfg) (s : st) : st :=
  let s2 := with_audit s 0 0 1 0 0 in touch d (set_credit s2 (Z.max 0 (units s2 - d_upg d)) (tc s2)) (now s).

Definition held_approve (d : dcfg) (s : st) (n : nat) : st * nat :=
  match n with
  | O => (s, O)
  | S _ =>
      if ingame s then
        if game_full s then (s, O)
        else if fp s || affordable d s then (iter_st n join_game s, n) else (s, O)
      else
        if fp s then (join_game (set_game s true 0 0 0), 1%nat)
        else if affordable d s
             then (join_game (set_timers (set_credit (set_game s true 0 0 0) (units s) 0) None None), 1%nat)
             else (s, O)
  end.

Definition held_st (d : dcfg) (s : st) (n : nat) (w : Z) : st :=
  let s1 := fst (held_approve d s n) in
  let s2 := advance d s1 (now s1 + w) in
  if fp s2 then s2 else iter_st (snd (held_approve d s n)) (pay_only d) s2.

Definition apply_op (d : dcfg) (s : st) (o : op) : st :=
  match o with
  | Coin k =>
      if fp s then s else
      match nth_error (d_coin_units d) k with
      | None => s
      | Some n => reset_timeouts d (with_audit (add_units d s n true) 1 (nth k (d_coin_ticks d) 0) 0 0 0)
      end
  | Service =>
      if fp s then s else with_audit (add_units d s (d_upg d) false) 0 0 0 1 0
  | CreditEv j =>
      if fp s then s else
      match nth_error (d_ev_units d) j with
      | None => s
      | Some n => reset_timeouts d (with_audit (add_units d s n false) 0 0 0 0 (nth j (d_ev_int d) 0))
      end
  | Start => start_st d s
  | StartBurst n => burst_st d s n
  | EndBall =>
      if negb (ingame s) then s
      else if cpl s <? npl s then set_game s true (npl s) (cpl s + 1) (cball s)
      else if cball s <? d_bpg d then
        let s1 := set_game s true (npl s) 1 (cball s + 1) in
        (* _ball_starting(player=1, ball=2) -> _reset_pricing_tier_credits *)
        if (cball s + 1 =? 2) && negb (fp s) && negb (flag s)
        then set_flag (set_credit s1 (units s1) 0) true else s1
      else end_game d s
  | EndGame => if ingame s then end_game d s else s
  | Wait _ => s
  | ToggleFree => if fp s then enable_credit d s else set_fp s true
  | EnableFree => set_fp s true
  | EnableCredit => enable_credit d s
  | ResetCredits => touch d (clear_all s) (now s)
  | Reboot off => power_on d (Some s) (now s + off)
  | StartHeld n w => held_st d s n w
  | ResetEarnings => set_audit s 0 0 0 0 0
  end.

(* events posted by the operation: not_enough_credits, max_credits_reached, credits_added, coin accepted *)
Definition apply_ev (d : dcfg) (s : st) (o : op) : evs :=
  match o with
  | Coin k =>
      if fp s then no_evs else
      match nth_error (d_coin_units d) k with
      | None => no_evs
      | Some n => mkEvs 0 (b2z (add_over d s n true)) (b2z (add_doit d s)) 1
      end
  | Service =>
      if fp s then no_evs else mkEvs 0 (b2z (add_over d s (d_upg d) false)) (b2z (add_doit d s)) 0
  | CreditEv j =>
      if fp s then no_evs else
      match nth_error (d_ev_units d) j with
      | None => no_evs
      | Some n => mkEvs 0 (b2z (add_over d s n false)) (b2z (add_doit d s)) 0
      end
  | Start => start_ev d s 1
  | StartBurst n => match n with O => no_evs | S _ => start_ev d s (Z.of_nat n) end    (* every refused press posts *)
  | StartHeld n _ => match n with O => no_evs | S _ => start_ev d s (Z.of_nat n) end
  | _ => no_evs
  end.

Definition dur (o : op) : Z := match o with Wait ms => ms | _ => op_ms end.

Definition step (d : dcfg) (s : st) (o : op) : st :=
  let s1 := apply_op d s o in advance d s1 (now s1 + dur o).

(* ---- observation ---------------------------------------------------------------------------- *)
Definition observe (d : dcfg) (s : st) (e : evs) : list Z :=
  [ units s; b2z (fp s);
    (if fp s then 0 else units s / d_upg d); (if fp s then 0 else units s mod d_upg d); (if fp s then 0 else d_upg d);
    b2z (ingame s); npl s; cpl s; cball s; tc s;
    a_coins s; a_earn s; a_paid s; a_svc s; a_evaw s;
    b2z (on_disk s); match pexp s with Some x => x | None => -1 end;
    e_not_enough e; e_max e; e_added e; e_accepted e ].

Fixpoint run_from (d : dcfg) (s : st) (ops : list op) : list (list Z) :=
  match ops with
  | [] => []
  | o :: r => let s1 := step d s o in observe d s1 (apply_ev d s o) :: run_from d s1 r
  end.

Fixpoint states_from (d : dcfg) (s : st) (ops : list op) : list st :=
  match ops with
  | [] => []
  | o :: r => let s1 := step d s o in s1 :: states_from d s1 r
  end.

Definition final (d : dcfg) (s : st) (ops : list op) : st := fold_left (step d) ops s.

(* correspondence entry point: first row = derived constants, then one row per operation *)
Definition run (i : cfg * list op) : list (list Z) :=
  let d := derive (fst i) in
  ([Qnum (d_cuq d); Zpos (Qden (d_cuq d)); d_upg d; d_W d] ++ d_table d)
  :: run_from d (init d) (snd i).

Definition out_eqb : list (list Z) -> list (list Z) -> bool := zss_eqb.

(* ---- variant with the unpatched cap, for the refutation witness ------------------------------ *)
Definition service_orig (d : dcfg) (s : st) : st := add_units_orig d s (d_upg d) false.
Definition coin_orig (d : dcfg) (s : st) (k : nat) : st := add_units_orig d s (nth k (d_coin_units d) 0) true.
