(* C20/Props.v — property theorems only.  Each is closed by [exact] of a lemma from Lemmas.v and followed by
   Print Assumptions (parsed by the check: must be "Closed under the global context").

   Property C20: in credit play, for any sequence of coins, service credits, credit events, game starts, player
   adds, expirations and free-play toggles, the balance equals what the pricing table yields for the money inserted
   minus one game price per player started, never goes below zero and never exceeds the configured maximum; a
   game or additional player starts only when a full game price is available and deducts exactly that; the
   earnings audits equal the coins accepted.

   The model is of credits.py WITH fixes/C20-*.patch applied.  Of the unpatched code the bound is FALSE
   ([cap_overshoot_orig_refuted]: 11 credits + $1 with max 12 -> 13; reproduced on the implementation by the
   correspondence/oracle run, corpus/C20/credits.1.json).

   [d_okb d]: units per game > 0, wrap-around > 0, maximum >= 0, every pricing-table entry, coin and event
   amount >= 0 (a decidable check on the derived constants; [Lemmas.ex_cfg_ok] shows it holds for the
   configuration of mpf/tests/machine_files/credits/config/config.yaml).
   [d_wf d]: table/wrap-around/tiers of [d] belong together (true of [derive c] whenever its wrap-around > 0). *)
From Common Require Import Prelude.
From C20 Require Import Model Lemmas.
Open Scope Z_scope.

(* the pricing table the code builds is the difference table of the greedy tier bonus G *)
Theorem pricing_table_spec :
  forall rts u, 1 <= u <= wrap_of rts ->
    nth (Z.to_nat u) (mk_table rts) 0 = greedy rts u - greedy rts (u - 1).
Proof. exact table_spec. Qed.
Print Assumptions pricing_table_spec.

(* adding n units one by one through the table with the modulo counter = closed form n + G(c0+n) - G(c0) *)
Theorem tiering_closed_form :
  forall d, d_wf d -> forall n c0 total, 0 <= c0 < d_W d ->
    tier_loop d n c0 total = ((c0 + Z.of_nat n) mod d_W d, total + G d (c0 + Z.of_nat n) - G d c0).
Proof. exact tier_loop_closed. Qed.
Print Assumptions tiering_closed_form.

(* balance_bounds: every state of every history from boot is within 0 .. max_credits*units_per_game *)
Theorem balance_bounds :
  forall d ops, d_okb d = true ->
    Forall (fun s => 0 <= units s /\ (0 < d_maxu d -> units s <= d_maxu d)) (states_from d (init d) ops).
Proof. exact balance_bounds_l. Qed.
Print Assumptions balance_bounds.

(* of the unpatched _add_credit_units the bound is false *)
Theorem cap_overshoot_orig_refuted :
  exists c, d_okb (derive c) = true /\ 0 < d_maxu (derive c) /\
    let d := derive c in
    d_maxu d < units (coin_orig d (iter 11 (service_orig d) (init d)) 2).
Proof. exact cap_overshoot_orig_refuted_l. Qed.
Print Assumptions cap_overshoot_orig_refuted.

(* balance_formula — full statement: for every history, balance = units bought + G(units bought per tier epoch)
   - units_per_game * players started, unless the maximum or an expiry intervenes.  Proved part (_partial): any
   sequence of coin amounts inside one tier epoch with no maximum configured; game starts are covered by
   start_deducts_exactly (which also restarts the epoch), the maximum by balance_bounds.  Missing: the composition
   over arbitrary interleavings with expiry timers. *)
Theorem balance_formula_partial :
  forall d, d_wf d -> d_maxu d = 0 -> forall ns s,
    Forall (fun n => 0 <= n) ns -> 0 <= tc s < d_W d ->
    units (insert_all d s ns) = units s + sumZ ns + G d (tc s + sumZ ns) - G d (tc s) /\
    tc (insert_all d s ns) = (tc s + sumZ ns) mod d_W d.
Proof. exact balance_formula_l. Qed.
Print Assumptions balance_formula_partial.

Theorem coin_is_insert :
  forall d s k n, fp s = false -> nth_error (d_coin_units d) k = Some n ->
    units (apply_op d s (Coin k)) = units (add_units d s n true) /\
    tc (apply_op d s (Coin k)) = tc (add_units d s n true).
Proof. exact coin_is_add_l. Qed.
Print Assumptions coin_is_insert.

(* start gate *)
Theorem start_requires_full_price :
  forall d s, fp s = false -> units s < d_upg d ->
    apply_op d s Start = s /\
    (ingame s && game_full s = false -> e_not_enough (apply_ev d s Start) = 1).
Proof. exact start_requires_full_price_l. Qed.
Print Assumptions start_requires_full_price.

Theorem start_deducts_exactly :
  forall d s, fp s = false -> d_upg d <= units s -> 0 < d_upg d -> (ingame s = true -> game_full s = false) ->
    let s' := apply_op d s Start in
    units s' = units s - d_upg d /\ ingame s' = true /\ npl s' = players s + 1 /\ a_paid s' = a_paid s + 1
    /\ a_coins s' = a_coins s /\ a_earn s' = a_earn s.
Proof. exact start_deducts_exactly_l. Qed.
Print Assumptions start_deducts_exactly.

Theorem start_changes_by_price_only :
  forall d s, fp s = false -> 0 <= units s ->
    units (apply_op d s Start) = units s \/
    (d_upg d <= units s /\ units (apply_op d s Start) = units s - d_upg d).
Proof. exact start_changes_by_price_only_l. Qed.
Print Assumptions start_changes_by_price_only.

(* earnings audits = coins accepted since the last earnings reset (ledger: ghost list of accepted coin values) *)
Theorem earnings_equal_coins :
  forall d ops,
    a_coins (final d (init d) ops) = Z.of_nat (length (ledger d (init d) ops [])) /\
    a_earn (final d (init d) ops) = sumZ (ledger d (init d) ops []).
Proof. exact earnings_equal_coins_l. Qed.
Print Assumptions earnings_equal_coins.

(* ---- the hypotheses are satisfiable on non-trivial states ---------------------------------------- *)
Example hypotheses_satisfiable_cfg : d_okb (derive ex_cfg) = true /\ d_wf (derive ex_cfg) /\ cfg_exact ex_cfg = true.
Proof. exact ex_cfg_ok. Qed.
Print Assumptions hypotheses_satisfiable_cfg.

Example cap_holds_where_orig_failed :
  let d := derive ex_cfg in
  units (final d (init d) (repeat Service 11 ++ [Coin 2])) = d_maxu d /\ d_maxu d = 24.
Proof. exact cap_fixed_example. Qed.
Print Assumptions cap_holds_where_orig_failed.

Example formula_example :
  let d := derive ex_cfg0 in
  d_wf d /\ d_maxu d = 0 /\ d_W d = 20 /\
  units (insert_all d (init d) [4; 4]) = 10 /\
  units (insert_all d (init d) [4; 4; 4; 4; 1; 4]) = 31 /\
  G d 20 = 10 /\ G d 8 = 2.
Proof. exact ex_formula. Qed.
Print Assumptions formula_example.

Example start_example :
  let d := derive ex_cfg in
  let s := final d (init d) [Coin 0; Coin 1] in
  fp s = false /\ d_upg d <= units s /\ 0 < d_upg d /\ ingame s = false /\
  units (apply_op d s Start) = 0 /\ npl (apply_op d s Start) = 1 /\
  apply_op d (init d) Start = init d.
Proof. exact ex_start. Qed.
Print Assumptions start_example.

Example earnings_example :
  let d := derive ex_cfg in
  let ops := [Coin 0; EnableFree; Coin 2; EnableCredit; Coin 2; Coin 2; Coin 2; Coin 2; Coin 2; Coin 2; Coin 2] in
  ledger d (init d) ops [] = [8; 8; 8; 8; 8; 8; 8; 2] /\ a_earn (final d (init d) ops) = 58 /\
  units (final d (init d) ops) = 24.
Proof. exact ex_earnings. Qed.
Print Assumptions earnings_example.

(* bursts: several start presses inside one run of the event queue.
   Full statement: every player added by a burst finds a full game price and pays it.  FALSE of the faithful model
   and of the code (known finding start-burst-unpaid): every player_add_request of the burst is checked against
   the same balance, the deductions come later (player_added) and are floored at 0.  [start_burst_partial] is the
   statement with exactly the guard that excludes that class (balance covers all presses, or none). *)
Theorem start_burst_refuted :
  exists c ops, let d := derive c in let s := final d (init d) ops in
    d_okb d = true /\ fp s = false /\ ingame s = true /\ game_full s = false /\ units s = d_upg d /\
    let s' := apply_op d s (StartBurst 2) in
    npl s' = npl s + 2 /\ units s - units s' < 2 * d_upg d.
Proof. exact start_burst_refuted_l. Qed.
Print Assumptions start_burst_refuted.

Theorem start_burst_partial :
  forall d s n, fp s = false -> ingame s = true -> game_full s = false -> 0 < d_upg d ->
  (Z.of_nat (S n) * d_upg d <= units s ->
     let s' := apply_op d s (StartBurst (S n)) in
     units s' = units s - Z.of_nat (S n) * d_upg d /\ npl s' = npl s + Z.of_nat (S n) /\
     a_paid s' = a_paid s + Z.of_nat (S n)) /\
  (units s < d_upg d ->
     apply_op d s (StartBurst (S n)) = s /\ e_not_enough (apply_ev d s (StartBurst (S n))) = Z.of_nat (S n)).
Proof. exact start_burst_partial_l. Qed.
Print Assumptions start_burst_partial.

Example start_burst_example :
  let d := derive ex_cfg in let s := final d (init d) [Coin 2; Coin 2; Start] in
  fp s = false /\ ingame s = true /\ game_full s = false /\ 2 * d_upg d <= units s /\
  npl (apply_op d s (StartBurst 2)) = 3 /\ units (apply_op d s (StartBurst 2)) = units s - 4 /\
  e_not_enough (apply_ev d (init d) (StartBurst 3)) = 3.
Proof. exact start_burst_example_l. Qed.
Print Assumptions start_burst_example.
