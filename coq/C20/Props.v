(* C20/Props.v — property theorems only.  Each is closed by [exact] of a lemma from Lemmas.v and followed by
   Print Assumptions (parsed by the check: must be "Closed under the global context").

   Property C20: in credit play, for any sequence of coins, service credits, credit events, game starts, player
   adds, expirations and free-play toggles, the balance equals what the pricing table yields for the money inserted
   minus one game price per player started, never goes below zero and never exceeds the configured maximum; a
   game or additional player starts only when a full game price is available and deducts exactly that; the
   earnings audits equal the coins accepted.

   The model is of credits.py WITH fixes/C20-*.patch applied.  Of the unpatched code the bound is FALSE
   ([cap_overshoot_orig_refuted]: 11 credits + $1 with max 12 -> 13; reproduced on the implementation by the
   correspondence/oracle run, corpus/C20/credits.1.json).

   [d_okb d]: units per game > 0, wrap-around > 0, maximum >= 0, every pricing-table entry, coin and event
   amount >= 0 (a decidable check on the derived constants; [Lemmas.ex_cfg_ok] shows it holds for the
   configuration of mpf/tests/machine_files/credits/config/config.yaml).
   [d_wf d]: table/wrap-around/tiers of [d] belong together (true of [derive c] whenever its wrap-around > 0). *)
From Common Require Import Prelude.
From C20 Require Import Model Lemmas Formula FloatLemmas.
Open Scope Z_scope.

(* the pricing table the code builds is the difference table of the greedy tier bonus G *)
Theorem pricing_table_spec :
  forall rts u, 1 <= u <= wrap_of rts ->
    nth (Z.to_nat u) (mk_table rts) 0 = greedy rts u - greedy rts (u - 1).
Proof. exact table_spec. Qed.
Print Assumptions pricing_table_spec.

(* adding n units one by one through the table with the modulo counter = closed form n + G(c0+n) - G(c0) *)
Theorem tiering_closed_form :
  forall d, d_wf d -> forall n c0 total, 0 <= c0 < d_W d ->
    tier_loop d n c0 total = ((c0 + Z.of_nat n) mod d_W d, total + G d (c0 + Z.of_nat n) - G d c0).
Proof. exact tier_loop_closed. Qed.
Print Assumptions tiering_closed_form.

(* balance_bounds: every state of every history from boot is within 0 .. max_credits*units_per_game *)
Theorem balance_bounds :
  forall d ops, d_okb d = true ->
    Forall (fun s => 0 <= units s /\ (0 < d_maxu d -> units s <= d_maxu d)) (states_from d (init d) ops).
Proof. exact balance_bounds_l. Qed.
Print Assumptions balance_bounds.

(* of the unpatched _add_credit_units the bound is false *)
Theorem cap_overshoot_orig_refuted :
  exists c, d_okb (derive c) = true /\ 0 < d_maxu (derive c) /\
    let d := derive c in
    d_maxu d < units (coin_orig d (iter 11 (service_orig d) (init d)) 2).
Proof. exact cap_overshoot_orig_refuted_l. Qed.
Print Assumptions cap_overshoot_orig_refuted.

(* balance_formula, one tier epoch, no maximum (kept from the first version; the composition over arbitrary
   histories is [balance_formula] below) *)
Theorem balance_formula_partial :
  forall d, d_wf d -> d_maxu d = 0 -> forall ns s,
    Forall (fun n => 0 <= n) ns -> 0 <= tc s < d_W d ->
    units (insert_all d s ns) = units s + sumZ ns + G d (tc s + sumZ ns) - G d (tc s) /\
    tc (insert_all d s ns) = (tc s + sumZ ns) mod d_W d.
Proof. exact balance_formula_l. Qed.
Print Assumptions balance_formula_partial.

Theorem coin_is_insert :
  forall d s k n, fp s = false -> nth_error (d_coin_units d) k = Some n ->
    units (apply_op d s (Coin k)) = units (add_units d s n true) /\
    tc (apply_op d s (Coin k)) = tc (add_units d s n true).
Proof. exact coin_is_add_l. Qed.
Print Assumptions coin_is_insert.

(* start gate *)
Theorem start_requires_full_price :
  forall d s, fp s = false -> units s < d_upg d ->
    apply_op d s Start = s /\
    (ingame s && game_full s = false -> e_not_enough (apply_ev d s Start) = 1).
Proof. exact start_requires_full_price_l. Qed.
Print Assumptions start_requires_full_price.

Theorem start_deducts_exactly :
  forall d s, fp s = false -> d_upg d <= units s -> 0 < d_upg d -> (ingame s = true -> game_full s = false) ->
    let s' := apply_op d s Start in
    units s' = units s - d_upg d /\ ingame s' = true /\ npl s' = players s + 1 /\ a_paid s' = a_paid s + 1
    /\ a_coins s' = a_coins s /\ a_earn s' = a_earn s.
Proof. exact start_deducts_exactly_l. Qed.
Print Assumptions start_deducts_exactly.

Theorem start_changes_by_price_only :
  forall d s, fp s = false -> 0 <= units s ->
    units (apply_op d s Start) = units s \/
    (d_upg d <= units s /\ units (apply_op d s Start) = units s - d_upg d).
Proof. exact start_changes_by_price_only_l. Qed.
Print Assumptions start_changes_by_price_only.

(* earnings audits = coins accepted since the last earnings reset (ledger: ghost list of accepted coin values) *)
Theorem earnings_equal_coins :
  forall d ops,
    a_coins (final d (init d) ops) = Z.of_nat (length (ledger d (init d) ops [])) /\
    a_earn (final d (init d) ops) = sumZ (ledger d (init d) ops []).
Proof. exact earnings_equal_coins_l. Qed.
Print Assumptions earnings_equal_coins.

(* ---- the hypotheses are satisfiable on non-trivial states ---------------------------------------- *)
Example hypotheses_satisfiable_cfg : d_okb (derive ex_cfg) = true /\ d_wf (derive ex_cfg) /\ cfg_exact ex_cfg = true.
Proof. exact ex_cfg_ok. Qed.
Print Assumptions hypotheses_satisfiable_cfg.

Example cap_holds_where_orig_failed :
  let d := derive ex_cfg in
  units (final d (init d) (repeat Service 11 ++ [Coin 2])) = d_maxu d /\ d_maxu d = 24.
Proof. exact cap_fixed_example. Qed.
Print Assumptions cap_holds_where_orig_failed.

Example formula_example :
  let d := derive ex_cfg0 in
  d_wf d /\ d_maxu d = 0 /\ d_W d = 20 /\
  units (insert_all d (init d) [4; 4]) = 10 /\
  units (insert_all d (init d) [4; 4; 4; 4; 1; 4]) = 31 /\
  G d 20 = 10 /\ G d 8 = 2.
Proof. exact ex_formula. Qed.
Print Assumptions formula_example.

Example start_example :
  let d := derive ex_cfg in
  let s := final d (init d) [Coin 0; Coin 1] in
  fp s = false /\ d_upg d <= units s /\ 0 < d_upg d /\ ingame s = false /\
  units (apply_op d s Start) = 0 /\ npl (apply_op d s Start) = 1 /\
  apply_op d (init d) Start = init d.
Proof. exact ex_start. Qed.
Print Assumptions start_example.

Example earnings_example :
  let d := derive ex_cfg in
  let ops := [Coin 0; EnableFree; Coin 2; EnableCredit; Coin 2; Coin 2; Coin 2; Coin 2; Coin 2; Coin 2; Coin 2] in
  ledger d (init d) ops [] = [8; 8; 8; 8; 8; 8; 8; 2] /\ a_earn (final d (init d) ops) = 58 /\
  units (final d (init d) ops) = 24.
Proof. exact ex_earnings. Qed.
Print Assumptions earnings_example.

(* bursts: several start presses inside one run of the event queue.
   Full statement: every player added by a burst finds a full game price and pays it.  FALSE of the faithful model
   and of the code (known finding start-burst-unpaid): every player_add_request of the burst is checked against
   the same balance, the deductions come later (player_added) and are floored at 0.  [start_burst_partial] is the
   statement with exactly the guard that excludes that class (balance covers all presses, or none). *)
Theorem start_burst_refuted :
  exists c ops, let d := derive c in let s := final d (init d) ops in
    d_okb d = true /\ fp s = false /\ ingame s = true /\ game_full s = false /\ units s = d_upg d /\
    let s' := apply_op d s (StartBurst 2) in
    npl s' = npl s + 2 /\ units s - units s' < 2 * d_upg d.
Proof. exact start_burst_refuted_l. Qed.
Print Assumptions start_burst_refuted.

Theorem start_burst_partial :
  forall d s n, fp s = false -> ingame s = true -> game_full s = false -> 0 < d_upg d ->
  (Z.of_nat (S n) * d_upg d <= units s ->
     let s' := apply_op d s (StartBurst (S n)) in
     units s' = units s - Z.of_nat (S n) * d_upg d /\ npl s' = npl s + Z.of_nat (S n) /\
     a_paid s' = a_paid s + Z.of_nat (S n)) /\
  (units s < d_upg d ->
     apply_op d s (StartBurst (S n)) = s /\ e_not_enough (apply_ev d s (StartBurst (S n))) = Z.of_nat (S n)).
Proof. exact start_burst_partial_l. Qed.
Print Assumptions start_burst_partial.

Example start_burst_example :
  let d := derive ex_cfg in let s := final d (init d) [Coin 2; Coin 2; Start] in
  fp s = false /\ ingame s = true /\ game_full s = false /\ 2 * d_upg d <= units s /\
  npl (apply_op d s (StartBurst 2)) = 3 /\ units (apply_op d s (StartBurst 2)) = units s - 4 /\
  e_not_enough (apply_ev d (init d) (StartBurst 3)) = 3.
Proof. exact start_burst_example_l. Qed.
Print Assumptions start_burst_example.

(* ---- balance_formula: arbitrary histories ------------------------------------------------------------
   For EVERY history of coins, service credits, credit events, starts / add-player presses (also bursts), ball and
   game ends, waits (expiry timers), free-play toggles, enable_credit_play re-entries, credit / earnings resets and
   power cycles, from boot:
     balance = units bought (coins: n + G(m+n) - G(m) with m the money of the current tier epoch; service; events)
               - one game price per player started in credit play
               - units lost (cut off by the maximum, cleared by an expiry or reset, not persisted over a power cycle)
               + price not paid inside a start burst (known finding start-burst-unpaid),
   and the code's modulo counter is the epoch money modulo the wrap-around.  The ghost account [run_g] (Formula.v)
   is defined from the closed form G, never from the pricing table; [g_op]/[g_adv] state exactly when the epoch
   restarts (g_m := 0): game start in credit play, ball 2 of player 1 once per game in credit play,
   clear_all_credits, power cycle. *)
Theorem balance_formula :
  forall d ops, d_wf d -> d_okb d = true ->
    let s := final d (init d) ops in
    let g := snd (run_g d (init d) g0 ops) in
    units s = g_in g - g_spent g - g_lost g + g_unpaid g /\ tc s = g_m g mod d_W d.
Proof. exact balance_formula_full_l. Qed.
Print Assumptions balance_formula.

(* without a maximum, expiry times, credits_reset, bursts and power cycles nothing is lost:
   balance = units bought + tier bonuses - price * players started *)
Theorem balance_formula_exact :
  forall d ops, d_wf d -> d_okb d = true ->
    d_maxu d = 0 -> d_frac_ms d = 0 -> d_all_ms d = 0 -> forallb plain_op ops = true ->
    let g := snd (run_g d (init d) g0 ops) in
    units (final d (init d) ops) = g_in g - g_spent g /\ g_lost g = 0 /\ g_unpaid g = 0.
Proof. exact balance_formula_exact_l. Qed.
Print Assumptions balance_formula_exact.

(* a free-play / credit-play switch changes neither the balance nor the tier progress (nor the ghost account) *)
Theorem toggle_keeps_tier_progress :
  forall d s g o, o = ToggleFree \/ o = EnableFree \/ o = EnableCredit ->
    tc (apply_op d s o) = tc s /\ units (apply_op d s o) = units s /\ g_op d s g o = g.
Proof. exact toggle_keeps_progress_l. Qed.
Print Assumptions toggle_keeps_tier_progress.

Example balance_formula_example :
  let d := derive ex_cfg in
  let ops := [Coin 2; Coin 2; Start; EndBall; EndGame; Start; Coin 2; ToggleFree; ToggleFree; Coin 2;
              EndBall; Coin 2; Coin 2; Wait 40000] in
  let g := snd (run_g d (init d) g0 ops) in
  d_wf d /\ d_okb d = true /\
  g_in g = 30 /\ g_spent g = 4 /\ g_lost g = 26 /\ g_unpaid g = 0 /\ g_m g = 0 /\ units (final d (init d) ops) = 0.
Proof. exact ex_formula_full. Qed.
Print Assumptions balance_formula_example.

Example balance_formula_exact_example :
  let d := derive ex_cfg0 in
  let ops := [Coin 1; Start; Coin 1; EnableFree; EnableCredit; Coin 1; EndBall; Coin 1; Coin 1; Start] in
  let g := snd (run_g d (init d) g0 ops) in
  d_wf d /\ d_okb d = true /\ d_maxu d = 0 /\ d_frac_ms d = 0 /\ d_all_ms d = 0 /\ forallb plain_op ops = true /\
  g_in g = 24 /\ g_spent g = 2 /\ g_m g = 8 /\ units (final d (init d) ops) = 22.
Proof. exact ex_formula_exact. Qed.
Print Assumptions balance_formula_exact_example.

(* ---- power cycle: what survives ------------------------------------------------------------------------ *)
Theorem reboot_spec :
  forall d s off, let s' := apply_op d s (Reboot off) in
    units s' = (if survives s (now s + off) then units s else 0) /\
    fp s' = fp s /\ tc s' = 0 /\ ingame s' = false /\ dfrac s' = None /\ dall s' = None /\
    a_coins s' = a_coins s /\ a_earn s' = a_earn s /\ a_paid s' = a_paid s.
Proof. exact reboot_spec_l. Qed.
Print Assumptions reboot_spec.

(* the balance is on disk and not expired: every write to credit_units in credit play moves the expiry *)
Theorem balance_survives_short_power_cycle :
  forall d s n off, fp s = false -> 0 < d_persist_ms d -> pexp s <> None -> 0 <= n ->
    0 <= off <= d_persist_ms d -> add_doit d s = true ->
    let s1 := add_units d s n true in
    units (apply_op d s1 (Reboot off)) = units s1.
Proof. exact survives_short_l. Qed.
Print Assumptions balance_survives_short_power_cycle.

(* settings read path: the stored value is what is read, whatever the default; the default only without a file *)
Theorem setting_reads_back :
  forall default v, read_setting default (Some v) = v /\ read_setting default None = default.
Proof. exact setting_reads_back_l. Qed.
Print Assumptions setting_reads_back.

Example reboot_example :
  let d := derive ex_cfg in
  let s := final d (init d) [Coin 2; Coin 0] in
  units s = 5 /\ units (apply_op d s (Reboot 3599000)) = 5 /\ units (apply_op d s (Reboot 3601000)) = 0 /\
  fp (final d (init d) [EnableFree; Reboot 1000]) = true /\ d_boot_fp d = false.
Proof. exact reboot_example_l. Qed.
Print Assumptions reboot_example.

(* ---- money that is inexact in binary -------------------------------------------------------------------
   [derive] performs the code's binary64 arithmetic on exact rationals (Float.v); [derive_ideal] is the exact
   computation on minor units.  Of the UNFIXED code (int(price / unit)) the statement "units per game = price / unit"
   is false: dimes and a 0.30 game give 2 units per game (two dimes start a game); a 0.20 coin with unit 0.3 - 0.2
   raises.  Of the fixed code (fixes/C20-decimal-prices-float-truncation.patch) it holds on the whole family
   {coins c, 2c, 5c; price p, tier 3p -> 4 credits} for every smallest coin of the real decimal currencies
   (1, 2, 5, 10, 20, 25, 50 cents) and every price 0.01 .. 1.50, and on the 1/8 grid.  Bounded: evaluated inside the
   kernel (vm_compute) — a general proof needs a binary64 error analysis and is not attempted. *)
Theorem units_per_game_float_refuted :
  exists c, cfg_exact c = true /\ d_upg (derive_ideal c) = 3 /\ d_upg (derive_x false c) = 2 /\ d_upg (derive c) = 3.
Proof. exact float_truncation_refuted_l. Qed.
Print Assumptions units_per_game_float_refuted.

Theorem coin_units_float_refuted :
  exists c, cfg_exact c = true /\ d_coin_units (derive_ideal c) = [2] /\
            d_coin_units (derive_x false c) = [-1] /\ d_coin_units (derive c) = [2].
Proof. exact float_coin_raises_refuted_l. Qed.
Print Assumptions coin_units_float_refuted.

Theorem fixed_float_is_ideal_bounded :
  forall S c p, (S = 100 /\ In c coin_values /\ 1 <= p <= 150) \/ (S = 8 /\ 1 <= c <= 8 /\ 1 <= p <= 32) ->
    fam_ok S c p = true.      (* fam_ok S c p := dcore_eqb (derive (fam S c p)) (derive_ideal (fam S c p)) *)
Proof. exact fixed_float_is_ideal_l. Qed.
Print Assumptions fixed_float_is_ideal_bounded.

Example two_dimes_example :
  let ops := [Coin 0; Coin 0; Start] in
  ingame (final (derive_x false ex_dime) (init (derive_x false ex_dime)) ops) = true /\
  ingame (final (derive ex_dime) (init (derive ex_dime)) ops) = false /\
  ingame (final (derive ex_dime) (init (derive ex_dime)) (Coin 0 :: ops)) = true.
Proof. exact two_dimes_l. Qed.
Print Assumptions two_dimes_example.

(* ---- start presses while a handler holds the player_adding queue (work item 4) ---------------------------
   game.py creates the player when the request is approved and posts player_added (where the credits mode deducts)
   only when the queue is released.  [StartHeld n w]: n presses inside one event-queue run, released after w ms.
   Full statement "every player started pays one full price" is FALSE: beside the burst class (start_burst_refuted;
   the window lasts as long as the queue is held) an expiry delay can clear the balance between the approval and
   player_added ([start_held_expiry_refuted]).  [start_held_partial] is the statement with exactly these guards:
   the balance covers all presses and no expiry delay is due within the hold.  StartHeld is covered by
   balance_bounds, balance_formula (g_held) and earnings_equal_coins like every other operation. *)
Theorem start_held_partial :
  forall d s n w, fp s = false -> ingame s = true -> game_full s = false -> 0 < d_upg d ->
    due (dfrac s) (now s + w) = false -> due (dall s) (now s + w) = false ->
    Z.of_nat (S n) * d_upg d <= units s ->
    let s' := apply_op d s (StartHeld (S n) w) in
    units s' = units s - Z.of_nat (S n) * d_upg d /\ npl s' = npl s + Z.of_nat (S n) /\
    a_paid s' = a_paid s + Z.of_nat (S n).
Proof. exact start_held_partial_l. Qed.
Print Assumptions start_held_partial.

Theorem start_held_expiry_refuted :
  exists c ops w, let d := derive c in let s := final d (init d) ops in
    d_okb d = true /\ fp s = false /\ ingame s = true /\ game_full s = false /\ d_upg d <= units s /\
    let s' := apply_op d s (StartHeld 1 w) in
    npl s' = npl s + 1 /\ a_paid s' = a_paid s + 1 /\ units s' = 0 /\ units s = 5 /\ d_upg d = 2.
Proof. exact start_held_expiry_refuted_l. Qed.
Print Assumptions start_held_expiry_refuted.

Example start_held_example :
  let d := derive ex_cfg in let s := final d (init d) [Coin 2; Coin 2; Start] in
  fp s = false /\ ingame s = true /\ game_full s = false /\ due (dfrac s) (now s + 5000) = false /\
  due (dall s) (now s + 5000) = false /\ 2 * d_upg d <= units s /\
  npl (apply_op d s (StartHeld 2 5000)) = 3 /\ units (apply_op d s (StartHeld 2 5000)) = units s - 4.
Proof. exact start_held_example_l. Qed.
Print Assumptions start_held_example.
