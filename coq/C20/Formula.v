(* C20/Formula.v — balance_formula for arbitrary histories.

   A ghost account is run beside the model.  It is defined from the closed form G (greedy tier bonus) and the
   configuration only, never from the pricing table or the modulo counter:
     g_m      money (in credit units) inserted through coin switches since tier counting last restarted
     g_in     units bought: coins (n + G(m+n) - G(m)), service credits, credit events
     g_spent  one game price per player started in credit play
     g_lost   units cut off by the maximum, cleared by an expiry, by credits_reset, or lost over a power cycle
     g_unpaid price not paid by players of a start burst (known finding start-burst-unpaid)
   [g_op]/[g_adv] say exactly when tier counting restarts (g_m := 0): game start in credit play, ball 2 of
   player 1 (once per game, credit play), clear_all_credits (expiry / credits_reset), power cycle — and never on a
   free-play / credit-play toggle or an enable_credit_play re-entry. *)
From Common Require Import Prelude.
From C20 Require Import Model Lemmas.
Open Scope Z_scope.

Record ghost := mkG { g_m : Z; g_in : Z; g_spent : Z; g_lost : Z; g_unpaid : Z }.
Definition g0 : ghost := mkG 0 0 0 0 0.

Definition g_set_m (g : ghost) (m : Z) : ghost := mkG m (g_in g) (g_spent g) (g_lost g) (g_unpaid g).
Definition g_lose (g : ghost) (x : Z) : ghost := mkG (g_m g) (g_in g) (g_spent g) (g_lost g + x) (g_unpaid g).

(* what _add_credit_units stores when the uncapped sum is [total] *)
Definition cap_store (d : dcfg) (s : st) (total : Z) : Z :=
  if add_doit d s then (if negb (d_maxu d =? 0) && (d_maxu d <? total) then d_maxu d else total) else units s.

Definition g_add (d : dcfg) (s : st) (g : ghost) (n bonus m' : Z) : ghost :=
  let total := units s + n + bonus in
  mkG m' (g_in g + n + bonus) (g_spent g) (g_lost g + (total - cap_store d s total)) (g_unpaid g).

Definition g_pay (d : dcfg) (s : st) (g : ghost) (k : Z) : ghost :=
  let price := k * d_upg d in
  mkG (g_m g) (g_in g) (g_spent g + price) (g_lost g)
      (g_unpaid g + (if units s <? price then price - units s else 0)).

Definition g_start (d : dcfg) (s : st) (g : ghost) (k : Z) : ghost :=
  if fp s then g
  else if ingame s then (if game_full s then g else if affordable d s then g_pay d s g k else g)
  else if affordable d s then g_set_m (g_pay d s g 1) 0 else g.

Definition g_adv (d : dcfg) (s : st) (t : Z) (g : ghost) : ghost :=
  let g1 := if due (dfrac s) t then g_lose g (units s mod d_upg d) else g in
  let u1 := if due (dfrac s) t then units s - units s mod d_upg d else units s in
  if due (dall s) t then g_set_m (g_lose g1 u1) 0 else g1.

(* held start presses: the epoch restarts if a game starts in credit play; what the expiry delays remove during the
   hold is lost; the k players created pay k prices out of the balance at release time *)
Definition g_held (d : dcfg) (s : st) (g : ghost) (n : nat) (w : Z) : ghost :=
  let s1 := fst (held_approve d s n) in
  let g1 := match n with
            | O => g
            | S _ => if negb (ingame s) && negb (fp s) && affordable d s then g_set_m g 0 else g
            end in
  let t := now s1 + w in
  let g2 := g_adv d s1 t g1 in
  let s2 := advance d s1 t in
  if fp s2 then g2
  else match snd (held_approve d s n) with O => g2 | S k => g_pay d s2 g2 (Z.of_nat (S k)) end.

Definition g_op (d : dcfg) (s : st) (g : ghost) (o : op) : ghost :=
  match o with
  | Coin k =>
      if fp s then g else
      match nth_error (d_coin_units d) k with
      | None => g
      | Some n => g_add d s g n (G d (g_m g + n) - G d (g_m g)) (g_m g + n)
      end
  | Service => if fp s then g else g_add d s g (d_upg d) 0 (g_m g)
  | CreditEv j =>
      if fp s then g else
      match nth_error (d_ev_units d) j with None => g | Some n => g_add d s g n 0 (g_m g) end
  | Start => g_start d s g 1
  | StartBurst n => match n with O => g | S _ => g_start d s g (Z.of_nat n) end
  | EndBall =>
      if negb (ingame s) then g
      else if cpl s <? npl s then g
      else if cball s <? d_bpg d
           then (if (cball s + 1 =? 2) && negb (fp s) && negb (flag s) then g_set_m g 0 else g)
           else g
  | ResetCredits => g_set_m (g_lose g (units s)) 0
  | Reboot off => g_set_m (g_lose g (if survives s (now s + off) then 0 else units s)) 0
  | StartHeld n w => g_held d s g n w
  | _ => g        (* EndGame, Wait, ToggleFree, EnableFree, EnableCredit, ResetEarnings: nothing *)
  end.

Fixpoint run_g (d : dcfg) (s : st) (g : ghost) (ops : list op) : st * ghost :=
  match ops with
  | [] => (s, g)
  | o :: r =>
      let s1 := apply_op d s o in
      let t := now s1 + dur o in
      run_g d (advance d s1 t) (g_adv d s1 t (g_op d s g o)) r
  end.

Definition GI (d : dcfg) (s : st) (g : ghost) : Prop :=
  units s = g_in g - g_spent g - g_lost g + g_unpaid g /\ tc s = g_m g mod d_W d.

Lemma GI_ext d s s' g : units s' = units s -> tc s' = tc s -> GI d s g -> GI d s' g.
Proof. intros U T [A B]. split; congruence. Qed.

Lemma add_units_tier_g d s g n : d_wf d -> 0 <= n -> GI d s g ->
  GI d (add_units d s n true) (g_add d s g n (G d (g_m g + n) - G d (g_m g)) (g_m g + n)).
Proof.
  intros Hwf Hn [HU HT]. pose proof Hwf as (_ & _ & Hpos).
  assert (Hc : 0 <= g_m g mod d_W d < d_W d) by (apply Z.mod_pos_bound; lia).
  assert (E : add_ct d s n true =
              ((g_m g + n) mod d_W d, units s + n + (G d (g_m g + n) - G d (g_m g)))).
  { unfold add_ct. rewrite HT, Z.mod_mod by lia.
    rewrite (tier_loop_closed d Hwf) by lia. rewrite Z2Nat.id by lia.
    f_equal; [apply Z.add_mod_idemp_l; lia|].
    pose proof (G_shift d (g_m g) n Hwf). lia. }
  unfold GI, add_units, add_over, g_add, cap_store. rewrite E. cbn [fst snd].
  autorewrite with proj. cbn [g_in g_spent g_lost g_unpaid g_m tc set_credit].
  split; [|reflexivity].
  destruct (add_doit d s); destruct (negb (d_maxu d =? 0) && (d_maxu d <? units s + n + (G d (g_m g + n) - G d (g_m g)))); lia.
Qed.

Lemma add_units_flat_g d s g n : d_wf d -> GI d s g ->
  GI d (add_units d s n false) (g_add d s g n 0 (g_m g)).
Proof.
  intros Hwf [HU HT]. pose proof Hwf as (_ & _ & Hpos).
  assert (E : add_ct d s n false = (g_m g mod d_W d, units s + n + 0)).
  { unfold add_ct. rewrite HT, Z.mod_mod by lia. f_equal. lia. }
  unfold GI, add_units, add_over, g_add, cap_store. rewrite E. cbn [fst snd].
  autorewrite with proj. cbn [g_in g_spent g_lost g_unpaid g_m tc set_credit].
  split; [|reflexivity].
  destruct (add_doit d s); destruct (negb (d_maxu d =? 0) && (d_maxu d <? units s + n + 0)); lia.
Qed.

Lemma paid_iter_units d : 0 <= d_upg d -> forall n s,
  units (iter_st (S n) (paid_join d) s) = Z.max 0 (units s - Z.of_nat (S n) * d_upg d) /\
  tc (iter_st (S n) (paid_join d) s) = tc s.
Proof.
  intros Hpos. induction n as [|n IH]; intros s.
  - cbn [iter_st]. unfold paid_join. autorewrite with proj. cbn [tc set_credit with_audit set_audit join_game set_game].
    split; [f_equal; lia | reflexivity].
  - change (iter_st (S (S n)) (paid_join d) s) with (iter_st (S n) (paid_join d) (paid_join d s)).
    destruct (IH (paid_join d s)) as [A B]. rewrite A, B.
    assert (U : units (paid_join d s) = Z.max 0 (units s - d_upg d)).
    { unfold paid_join. autorewrite with proj. reflexivity. }
    assert (T : tc (paid_join d s) = tc s) by reflexivity.
    rewrite U, T. split; [|reflexivity].
    assert (0 <= Z.of_nat (S n) * d_upg d) by nia.
    replace (Z.of_nat (S (S n)) * d_upg d) with (Z.of_nat (S n) * d_upg d + d_upg d) by lia. lia.
Qed.

Lemma g_pay_GI d s g k u' : GI d s g -> u' = Z.max 0 (units s - k * d_upg d) ->
  forall s', units s' = u' -> tc s' = tc s -> GI d s' (g_pay d s g k).
Proof.
  intros [HU HT] Hu s' U T. unfold GI, g_pay. cbn [g_in g_spent g_lost g_unpaid g_m].
  rewrite U, T, Hu. split; [|exact HT].
  destruct (units s <? k * d_upg d) eqn:E; bd; lia.
Qed.

Lemma add_player_paid_g d s g : 0 <= d_upg d -> fp s = false -> affordable d s = true -> GI d s g ->
  GI d (add_player d s) (g_pay d s g 1).
Proof.
  intros Hpos Hfp A HG. unfold add_player. rewrite Hfp, A.
  eapply g_pay_GI; [exact HG | reflexivity | | reflexivity].
  autorewrite with proj. f_equal. lia.
Qed.

Lemma start_st_g d s g : 0 < d_upg d -> 0 < d_W d -> GI d s g -> GI d (start_st d s) (g_start d s g 1).
Proof.
  intros Hpos HW HG. unfold start_st, g_start. destruct (ingame s).
  - destruct (game_full s); [destruct (fp s); exact HG|].
    unfold add_player at 1. destruct (fp s) eqn:Efp; [eapply GI_ext; [| |exact HG]; reflexivity|].
    destruct (affordable d s) eqn:A; [|exact HG].
    pose proof (add_player_paid_g d s g ltac:(lia) Efp A HG) as H. unfold add_player in H. rewrite Efp, A in H. exact H.
  - destruct (fp s) eqn:Efp.
    + unfold add_player. cbn [fp set_game]. rewrite Efp. eapply GI_ext; [| |exact HG]; reflexivity.
    + destruct (affordable d s) eqn:A; [|exact HG].
      set (s0 := set_timers (set_credit (set_game s true 0 0 0) (units s) 0) None None).
      assert (F0 : fp s0 = false) by exact Efp.
      assert (A0 : affordable d s0 = true) by exact A.
      unfold add_player. rewrite F0, A0.
      destruct HG as [HU HT]. unfold GI, g_set_m, g_pay. cbn [g_in g_spent g_lost g_unpaid g_m].
      autorewrite with proj. cbn [units tc s0 set_timers set_credit set_game with_audit set_audit join_game].
      unfold affordable in A. bd. rewrite Z.mod_0_l by lia. split; [|reflexivity].
      destruct (units s <? 1 * d_upg d) eqn:E; bd; lia.
Qed.

Lemma burst_st_g d s g n : 0 < d_upg d -> 0 < d_W d -> GI d s g ->
  GI d (burst_st d s (S n)) (g_start d s g (Z.of_nat (S n))).
Proof.
  intros Hpos HW HG. unfold burst_st. destruct (ingame s) eqn:Eg.
  - unfold g_start. rewrite Eg. destruct (game_full s); [destruct (fp s); exact HG|].
    destruct (fp s) eqn:Efp.
    + eapply GI_ext; [| |exact HG].
      * clear. generalize s. induction (S n) as [|k IH]; intros x; cbn [iter_st]; [reflexivity|]. rewrite IH. reflexivity.
      * clear. generalize s. induction (S n) as [|k IH]; intros x; cbn [iter_st]; [reflexivity|]. rewrite IH. reflexivity.
    + destruct (affordable d s); [|exact HG].
      destruct (paid_iter_units d ltac:(lia) n s) as [U T].
      eapply g_pay_GI; [exact HG | reflexivity | exact U | exact T].
  - pose proof (start_st_g d s g Hpos HW HG) as H. unfold g_start in *. rewrite Eg in *. exact H.
Qed.

Lemma advance_g d s g t : 0 < d_upg d -> 0 < d_W d -> GI d s g -> GI d (advance d s t) (g_adv d s t g).
Proof.
  intros Hupg HW [HU HT]. unfold advance, g_adv.
  destruct (due (dfrac s) t).
  - cbn [dall set_timers]. change (dall (touch d (clear_frac d s) (dl (dfrac s)))) with (dall s).
    destruct (due (dall s) t).
    + unfold GI, g_set_m, g_lose. cbn [g_in g_spent g_lost g_unpaid g_m].
      unfold clear_all, clear_frac. autorewrite with proj. cbn [tc set_now set_timers touch set_pexp clear_all set_credit].
      rewrite Z.mod_0_l by lia. split; lia.
    + unfold GI, g_lose. cbn [g_in g_spent g_lost g_unpaid g_m].
      unfold clear_all, clear_frac. autorewrite with proj. cbn [tc set_now set_timers touch set_pexp clear_frac set_credit units].
      split; [lia|exact HT].
  - destruct (due (dall s) t).
    + unfold GI, g_set_m, g_lose. cbn [g_in g_spent g_lost g_unpaid g_m].
      unfold clear_all, clear_frac. autorewrite with proj. cbn [tc set_now set_timers touch set_pexp clear_all set_credit].
      rewrite Z.mod_0_l by lia. split; lia.
    + unfold GI. unfold clear_all, clear_frac. autorewrite with proj. cbn [tc set_now]. split; [exact HU|exact HT].
Qed.

Lemma pay_iter_units d : 0 <= d_upg d -> forall n s,
  units (iter_st (S n) (pay_only d) s) = Z.max 0 (units s - Z.of_nat (S n) * d_upg d) /\
  tc (iter_st (S n) (pay_only d) s) = tc s.
Proof.
  intros Hpos. induction n as [|n IH]; intros s.
  - cbn [iter_st]. unfold pay_only. autorewrite with proj. cbn [tc set_credit with_audit set_audit].
    split; [f_equal; lia | reflexivity].
  - change (iter_st (S (S n)) (pay_only d) s) with (iter_st (S n) (pay_only d) (pay_only d s)).
    destruct (IH (pay_only d s)) as [A B]. rewrite A, B.
    assert (U : units (pay_only d s) = Z.max 0 (units s - d_upg d)).
    { unfold pay_only. autorewrite with proj. reflexivity. }
    assert (T : tc (pay_only d s) = tc s) by reflexivity.
    rewrite U, T. split; [|reflexivity].
    assert (0 <= Z.of_nat (S n) * d_upg d) by nia.
    replace (Z.of_nat (S (S n)) * d_upg d) with (Z.of_nat (S n) * d_upg d + d_upg d) by lia. lia.
Qed.

Lemma held_approve_g d s g n : 0 < d_W d -> GI d s g ->
  GI d (fst (held_approve d s n))
     (match n with
      | O => g
      | S _ => if negb (ingame s) && negb (fp s) && affordable d s then g_set_m g 0 else g
      end).
Proof.
  intros HW HG. unfold held_approve. destruct n as [|n]; [exact HG|].
  destruct (ingame s); cbn [negb andb].
  - destruct (game_full s); [exact HG|]. destruct (fp s || affordable d s); [|exact HG].
    cbn [fst]. destruct (iter_join_units (S n) s) as [A B]. eapply GI_ext; [exact A|exact B|exact HG].
  - destruct (fp s); cbn [negb andb]; [eapply GI_ext; [| |exact HG]; reflexivity|].
    destruct (affordable d s); [|exact HG].
    destruct HG as [HU HT]. unfold GI, g_set_m. cbn [fst g_in g_spent g_lost g_unpaid g_m].
    cbn [units tc join_game set_game set_timers set_credit]. rewrite Z.mod_0_l by lia. auto.
Qed.

Lemma held_st_g d s g n w : 0 < d_upg d -> 0 < d_W d -> GI d s g -> GI d (held_st d s n w) (g_held d s g n w).
Proof.
  intros Hupg HW HG. unfold held_st, g_held.
  pose proof (held_approve_g d s g n HW HG) as G1.
  set (s1 := fst (held_approve d s n)) in *.
  set (g1 := match n with O => g | S _ => _ end) in *.
  pose proof (advance_g d s1 g1 (now s1 + w) Hupg HW G1) as G2.
  set (s2 := advance d s1 (now s1 + w)) in *.
  destruct (fp s2); [exact G2|].
  destruct (snd (held_approve d s n)) as [|k]; [exact G2|].
  destruct (pay_iter_units d ltac:(lia) k s2) as [U T].
  eapply g_pay_GI; [exact G2 | reflexivity | exact U | exact T].
Qed.

Lemma apply_op_g d s g o : d_wf d -> d_okb d = true -> GI d s g -> GI d (apply_op d s o) (g_op d s g o).
Proof.
  intros Hwf Hok HG. pose proof (d_okb_elim d Hok) as (Hupg & HW & Hm & Ht & Hc & He).
  destruct o; cbn [apply_op g_op].
  - destruct (fp s); auto. destruct (nth_error (d_coin_units d) k) eqn:E; auto.
    eapply GI_ext; [| |apply (add_units_tier_g d s g z Hwf (nonneg_nth_error _ _ _ Hc E) HG)]; reflexivity.
  - destruct (fp s); auto.
    eapply GI_ext; [| |apply (add_units_flat_g d s g (d_upg d) Hwf HG)]; reflexivity.
  - destruct (fp s); auto. destruct (nth_error (d_ev_units d) j) eqn:E; auto.
    eapply GI_ext; [| |apply (add_units_flat_g d s g z Hwf HG)]; reflexivity.
  - apply start_st_g; auto.
  - destruct (negb (ingame s)); auto. destruct (cpl s <? npl s); [eapply GI_ext; [| |exact HG]; reflexivity|].
    destruct (cball s <? d_bpg d).
    + destruct ((cball s + 1 =? 2) && negb (fp s) && negb (flag s)).
      * destruct HG as [HU HT]. unfold GI, g_set_m. cbn [g_in g_spent g_lost g_unpaid g_m].
        autorewrite with proj. cbn [units tc set_flag set_credit set_game]. rewrite Z.mod_0_l by lia. auto.
      * eapply GI_ext; [| |exact HG]; reflexivity.
    + unfold end_game. destruct (fp s); eapply GI_ext; [| |exact HG| | |exact HG]; reflexivity.
  - destruct (ingame s); auto. unfold end_game. destruct (fp s); eapply GI_ext; [| |exact HG| | |exact HG]; reflexivity.
  - exact HG.
  - destruct (fp s); eapply GI_ext; [| |exact HG| | |exact HG]; reflexivity.
  - exact HG.
  - eapply GI_ext; [| |exact HG]; reflexivity.
  - destruct HG as [HU HT]. unfold GI, g_set_m, g_lose, clear_all. cbn [g_in g_spent g_lost g_unpaid g_m].
    autorewrite with proj. cbn [tc set_credit]. rewrite Z.mod_0_l by lia. split; lia.
  - exact HG.
  - destruct n as [|n]; [exact HG|]. apply burst_st_g; auto.
  - destruct HG as [HU HT]. unfold GI, g_set_m, g_lose, power_on. cbn [g_in g_spent g_lost g_unpaid g_m read_setting fp].
    rewrite Z.mod_0_l by lia.
    destruct (fp s); autorewrite with proj; cbn [units tc set_now enable_credit set_pexp set_fp];
      (split; [|reflexivity]); destruct (survives s (now s + off)); lia.
  - apply held_st_g; auto.
Qed.

Lemma init_g d : 0 < d_W d -> GI d (init d) g0.
Proof.
  intros HW. unfold GI, init, power_on, g0. cbn [g_in g_spent g_lost g_unpaid g_m read_setting fp].
  rewrite Z.mod_0_l by lia. destruct (d_boot_fp d); autorewrite with proj; cbn [units tc set_now enable_credit set_pexp set_fp]; split; reflexivity.
Qed.

Lemma run_g_final d : forall ops s g, fst (run_g d s g ops) = final d s ops.
Proof.
  induction ops as [|o r IH]; intros s g; cbn [run_g final fold_left]; [reflexivity|].
  rewrite IH. reflexivity.
Qed.

Lemma run_g_GI d : d_wf d -> d_okb d = true -> forall ops s g, GI d s g ->
  GI d (fst (run_g d s g ops)) (snd (run_g d s g ops)).
Proof.
  intros Hwf Hok. pose proof (d_okb_elim d Hok) as (Hupg & HW & _).
  induction ops as [|o r IH]; intros s g HG; cbn [run_g fst snd]; [exact HG|].
  apply IH. apply advance_g; auto. apply apply_op_g; auto.
Qed.

(* balance_formula, full composition *)
Lemma balance_formula_full_l d ops : d_wf d -> d_okb d = true ->
  let s := final d (init d) ops in
  let g := snd (run_g d (init d) g0 ops) in
  units s = g_in g - g_spent g - g_lost g + g_unpaid g /\ tc s = g_m g mod d_W d.
Proof.
  intros Hwf Hok. cbn zeta. rewrite <- (run_g_final d ops (init d) g0).
  apply (run_g_GI d Hwf Hok). apply init_g. apply d_okb_elim in Hok. lia.
Qed.

(* tier progress survives free-play / credit-play switches *)
Lemma toggle_keeps_progress_l d s g o : o = ToggleFree \/ o = EnableFree \/ o = EnableCredit ->
  tc (apply_op d s o) = tc s /\ units (apply_op d s o) = units s /\ g_op d s g o = g.
Proof.
  intros [E | [E | E]]; subst o; cbn [apply_op g_op]; try (destruct (fp s)); repeat split; reflexivity.
Qed.

(* ---- exact form: nothing is lost when there is no maximum, no expiry, no reset, no burst, no power cycle ---- *)
Definition plain_op (o : op) : bool :=
  match o with ResetCredits | StartBurst _ | Reboot _ | StartHeld _ _ => false | _ => true end.

Definition TN (s : st) : Prop := dfrac s = None /\ dall s = None.

Lemma TN_ext s s' : dfrac s' = dfrac s -> dall s' = dall s -> TN s -> TN s'.
Proof. intros A B [C D]. split; congruence. Qed.

Lemma add_units_timers d s n t : dfrac (add_units d s n t) = dfrac s /\ dall (add_units d s n t) = dall s.
Proof. unfold add_units, touch_if. destruct (add_doit d s); split; reflexivity. Qed.

Lemma add_player_timers d s : dfrac (add_player d s) = dfrac s /\ dall (add_player d s) = dall s.
Proof. unfold add_player. destruct (fp s); [split; reflexivity|]. destruct (affordable d s); split; reflexivity. Qed.

Lemma reset_timeouts_TN d s : d_frac_ms d = 0 -> d_all_ms d = 0 -> TN s -> TN (reset_timeouts d s).
Proof. intros F A [X Y]. unfold reset_timeouts, TN. rewrite F, A. cbn [Z.eqb dfrac dall set_timers]. auto. Qed.

Lemma apply_op_TN d s o : d_frac_ms d = 0 -> d_all_ms d = 0 -> plain_op o = true -> TN s -> TN (apply_op d s o).
Proof.
  intros F A Hp HT. destruct o; try discriminate Hp; cbn [apply_op].
  - destruct (fp s); auto. destruct (nth_error (d_coin_units d) k); auto.
    apply reset_timeouts_TN; auto. destruct (add_units_timers d s z true) as [P Q].
    eapply TN_ext; [| |exact HT]; [exact P|exact Q].
  - destruct (fp s); auto. destruct (add_units_timers d s (d_upg d) false) as [P Q].
    eapply TN_ext; [| |exact HT]; [exact P|exact Q].
  - destruct (fp s); auto. destruct (nth_error (d_ev_units d) j); auto.
    apply reset_timeouts_TN; auto. destruct (add_units_timers d s z false) as [P Q].
    eapply TN_ext; [| |exact HT]; [exact P|exact Q].
  - unfold start_st. destruct (ingame s).
    + destruct (game_full s); auto. destruct (add_player_timers d s) as [P Q]. eapply TN_ext; [| |exact HT]; auto.
    + destruct (fp s).
      * match goal with |- TN (add_player d ?x) => destruct (add_player_timers d x) as [P Q] end.
        eapply TN_ext; [exact P|exact Q|]. exact HT.
      * destruct (affordable d s); auto.
        match goal with |- TN (add_player d ?x) => destruct (add_player_timers d x) as [P Q] end.
        eapply TN_ext; [exact P|exact Q|]. split; reflexivity.
  - destruct (negb (ingame s)); auto. destruct (cpl s <? npl s); [exact HT|].
    destruct (cball s <? d_bpg d).
    + destruct ((cball s + 1 =? 2) && negb (fp s) && negb (flag s)); exact HT.
    + unfold end_game. destruct (fp s); [exact HT|].
      apply (reset_timeouts_TN d (set_game s false 0 0 0) F A HT).
  - destruct (ingame s); auto. unfold end_game. destruct (fp s); [exact HT|].
    apply (reset_timeouts_TN d (set_game s false 0 0 0) F A HT).
  - exact HT.
  - destruct (fp s); exact HT.
  - exact HT.
  - exact HT.
  - exact HT.
Qed.

Lemma advance_TN d s t : TN s -> advance d s t = set_now s t.
Proof. intros [X Y]. unfold advance. rewrite X. cbn [due]. rewrite Y. cbn [due]. reflexivity. Qed.

Definition NoLoss (g : ghost) : Prop := g_lost g = 0 /\ g_unpaid g = 0.

Lemma g_op_noloss d s g o : d_maxu d = 0 -> 0 < d_upg d -> plain_op o = true -> NoLoss g -> NoLoss (g_op d s g o).
Proof.
  intros Hm Hupg Hp [L U]. destruct o; try discriminate Hp; cbn [g_op]; try (split; assumption).
  - destruct (fp s); [split; assumption|]. destruct (nth_error (d_coin_units d) k); [|split; assumption].
    unfold NoLoss, g_add, cap_store, add_doit. rewrite Hm. cbn [Z.leb Z.compare orb Z.eqb negb andb g_lost g_unpaid]. split; lia.
  - destruct (fp s); [split; assumption|].
    unfold NoLoss, g_add, cap_store, add_doit. rewrite Hm. cbn [Z.leb Z.compare orb Z.eqb negb andb g_lost g_unpaid]. split; lia.
  - destruct (fp s); [split; assumption|]. destruct (nth_error (d_ev_units d) j); [|split; assumption].
    unfold NoLoss, g_add, cap_store, add_doit. rewrite Hm. cbn [Z.leb Z.compare orb Z.eqb negb andb g_lost g_unpaid]. split; lia.
  - unfold g_start. destruct (fp s); [split; assumption|].
    destruct (ingame s); [destruct (game_full s); [split; assumption|]|];
      (destruct (affordable d s) eqn:A; [|split; assumption]); unfold affordable in A; bd;
      unfold NoLoss, g_set_m, g_pay; cbn [g_lost g_unpaid];
      (destruct (units s <? 1 * d_upg d) eqn:E; bd; split; lia).
  - destruct (negb (ingame s)); [split; assumption|]. destruct (cpl s <? npl s); [split; assumption|].
    destruct (cball s <? d_bpg d); [|split; assumption].
    destruct ((cball s + 1 =? 2) && negb (fp s) && negb (flag s)); split; assumption.
Qed.

Lemma run_g_noloss d : d_maxu d = 0 -> d_frac_ms d = 0 -> d_all_ms d = 0 -> 0 < d_upg d ->
  forall ops s g, forallb plain_op ops = true -> TN s -> NoLoss g -> NoLoss (snd (run_g d s g ops)).
Proof.
  intros Hm F A Hupg. induction ops as [|o r IH]; intros s g Hp HT HN; cbn [run_g snd]; [exact HN|].
  cbn [forallb] in Hp. apply andb_true_iff in Hp as [Ho Hr].
  pose proof (apply_op_TN d s o F A Ho HT) as HT1.
  apply IH; auto.
  - rewrite (advance_TN d _ _ HT1). destruct HT1 as [X Y]. split; [exact X|exact Y].
  - unfold g_adv. destruct HT1 as [X Y]. rewrite X, Y. cbn [due]. apply g_op_noloss; auto.
Qed.

Lemma init_TN d : TN (init d).
Proof. unfold TN, init, power_on. cbn [read_setting fp]. destruct (d_boot_fp d); split; reflexivity. Qed.

Lemma balance_formula_exact_l d ops : d_wf d -> d_okb d = true ->
  d_maxu d = 0 -> d_frac_ms d = 0 -> d_all_ms d = 0 -> forallb plain_op ops = true ->
  let g := snd (run_g d (init d) g0 ops) in
  units (final d (init d) ops) = g_in g - g_spent g /\ g_lost g = 0 /\ g_unpaid g = 0.
Proof.
  intros Hwf Hok Hm F A Hp. cbn zeta.
  destruct (balance_formula_full_l d ops Hwf Hok) as [U _].
  pose proof (d_okb_elim d Hok) as (Hupg & _).
  destruct (run_g_noloss d Hm F A Hupg ops (init d) g0 Hp (init_TN d) (conj eq_refl eq_refl)) as [L N].
  rewrite U, L, N. repeat split; lia.
Qed.

(* ---- examples ------------------------------------------------------------------------------------- *)
Lemma ex_formula_full :
  let d := derive ex_cfg in
  let ops := [Coin 2; Coin 2; Start; EndBall; EndGame; Start; Coin 2; ToggleFree; ToggleFree; Coin 2;
              EndBall; Coin 2; Coin 2; Wait 40000] in
  let g := snd (run_g d (init d) g0 ops) in
  d_wf d /\ d_okb d = true /\
  g_in g = 30 /\ g_spent g = 4 /\ g_lost g = 26 /\ g_unpaid g = 0 /\ g_m g = 0 /\ units (final d (init d) ops) = 0.
Proof. cbv zeta. split; [apply derive_wf; vm_compute; reflexivity|]. vm_compute. repeat split. Qed.

Lemma ex_formula_exact :
  let d := derive ex_cfg0 in
  let ops := [Coin 1; Start; Coin 1; EnableFree; EnableCredit; Coin 1; EndBall; Coin 1; Coin 1; Start] in
  let g := snd (run_g d (init d) g0 ops) in
  d_wf d /\ d_okb d = true /\ d_maxu d = 0 /\ d_frac_ms d = 0 /\ d_all_ms d = 0 /\ forallb plain_op ops = true /\
  g_in g = 24 /\ g_spent g = 2 /\ g_m g = 8 /\ units (final d (init d) ops) = 22.
Proof. cbv zeta. split; [apply derive_wf; vm_compute; reflexivity|]. vm_compute. repeat split. Qed.

(* ---- power cycle ------------------------------------------------------------------------------------ *)
Lemma reboot_spec_l d s off : let s' := apply_op d s (Reboot off) in
  units s' = (if survives s (now s + off) then units s else 0) /\
  fp s' = fp s /\ tc s' = 0 /\ ingame s' = false /\ dfrac s' = None /\ dall s' = None /\
  a_coins s' = a_coins s /\ a_earn s' = a_earn s /\ a_paid s' = a_paid s.
Proof.
  cbn zeta. cbn [apply_op]. unfold power_on. cbn [read_setting fp].
  destruct (fp s); repeat split; reflexivity.
Qed.

Lemma survives_short_l d s n off : fp s = false -> 0 < d_persist_ms d -> pexp s <> None -> 0 <= n ->
  0 <= off <= d_persist_ms d -> add_doit d s = true ->
  let s1 := add_units d s n true in
  units (apply_op d s1 (Reboot off)) = units s1.
Proof.
  intros Hfp HP Hpe Hn Hoff Hdo. cbn zeta.
  destruct (reboot_spec_l d (add_units d s n true) off) as [U _]. cbn zeta in U. rewrite U.
  assert (S : survives (add_units d s n true) (now (add_units d s n true) + off) = true); [|rewrite S; reflexivity].
  unfold add_units. rewrite Hdo. unfold touch_if, touch, survives, on_disk.
  destruct (pexp s) as [e|] eqn:E; [|congruence].
  cbn [pexp set_pexp set_credit ploaded now]. rewrite E. rewrite orb_true_r. cbn [andb].
  apply negb_true_iff. apply Z.ltb_ge. lia.
Qed.

Lemma setting_reads_back_l default v : read_setting default (Some v) = v /\ read_setting default None = default.
Proof. split; reflexivity. Qed.

Lemma reboot_example_l :
  let d := derive ex_cfg in
  let s := final d (init d) [Coin 2; Coin 0] in
  units s = 5 /\ units (apply_op d s (Reboot 3599000)) = 5 /\ units (apply_op d s (Reboot 3601000)) = 0 /\
  fp (final d (init d) [EnableFree; Reboot 1000]) = true /\ d_boot_fp d = false.
Proof. vm_compute. repeat split. Qed.

(* ---- held start presses ------------------------------------------------------------------------------ *)
Lemma iter_pres {A} (p : st -> A) f : (forall s, p (f s) = p s) -> forall n s, p (iter_st n f s) = p s.
Proof. intros H. induction n as [|n IH]; intros s; cbn [iter_st]; [reflexivity|]. rewrite IH. apply H. Qed.

Lemma iter_add (p : st -> Z) f c : (forall s, p (f s) = p s + c) -> forall n s, p (iter_st n f s) = p s + Z.of_nat n * c.
Proof.
  intros H. induction n as [|n IH]; intros s; cbn [iter_st]; [cbn [Z.of_nat]; lia|]. rewrite IH, H. lia.
Qed.

Lemma advance_nodue d s t : due (dfrac s) t = false -> due (dall s) t = false -> advance d s t = set_now s t.
Proof. intros A B. unfold advance. rewrite A, B. reflexivity. Qed.

(* the positive statement for held queues: the balance covers every press and no expiry delay fires during the
   hold -> every player pays exactly one price *)
Lemma start_held_partial_l d s n w :
  fp s = false -> ingame s = true -> game_full s = false -> 0 < d_upg d ->
  due (dfrac s) (now s + w) = false -> due (dall s) (now s + w) = false ->
  Z.of_nat (S n) * d_upg d <= units s ->
  let s' := apply_op d s (StartHeld (S n) w) in
  units s' = units s - Z.of_nat (S n) * d_upg d /\ npl s' = npl s + Z.of_nat (S n) /\
  a_paid s' = a_paid s + Z.of_nat (S n).
Proof.
  intros Hfp Hg Hfull Hupg Hdf Hda Hu. cbn zeta. cbn [apply_op]. unfold held_st, held_approve.
  assert (A : affordable d s = true) by (unfold affordable; apply Z.leb_le; nia).
  rewrite Hg, Hfull, Hfp, A. cbn [orb fst snd].
  set (s1 := iter_st (S n) join_game s).
  assert (E1 : dfrac s1 = dfrac s) by (apply (iter_pres dfrac); reflexivity).
  assert (E2 : dall s1 = dall s) by (apply (iter_pres dall); reflexivity).
  assert (E3 : now s1 = now s) by (apply (iter_pres now); reflexivity).
  assert (E4 : fp s1 = fp s) by (apply (iter_pres fp); reflexivity).
  assert (E5 : units s1 = units s) by (apply (iter_pres units); reflexivity).
  assert (E6 : a_paid s1 = a_paid s) by (apply (iter_pres a_paid); reflexivity).
  assert (E7 : npl s1 = npl s + Z.of_nat (S n) * 1) by (apply (iter_add npl join_game 1); reflexivity).
  rewrite (advance_nodue d s1 (now s1 + w)) by (rewrite ?E1, ?E2, E3; assumption).
  change (fp (set_now s1 (now s1 + w))) with (fp s1). rewrite E4, Hfp.
  set (s2 := set_now s1 (now s1 + w)).
  destruct (pay_iter_units d ltac:(lia) n s2) as [U _].
  assert (N : npl (iter_st (S n) (pay_only d) s2) = npl s2) by (apply (iter_pres npl); reflexivity).
  assert (P : a_paid (iter_st (S n) (pay_only d) s2) = a_paid s2 + Z.of_nat (S n) * 1)
    by (apply (iter_add a_paid (pay_only d) 1); reflexivity).
  rewrite U, N, P. change (units s2) with (units s1). change (npl s2) with (npl s1). change (a_paid s2) with (a_paid s1).
  rewrite E5, E6, E7. repeat split; lia.
Qed.

(* full statement (every player started pays one price) is FALSE when an expiry delay fires during the hold:
   the request was approved against a balance that is gone when player_added deducts (floored at 0) *)
Lemma start_held_expiry_refuted_l :
  exists c ops w, let d := derive c in let s := final d (init d) ops in
    d_okb d = true /\ fp s = false /\ ingame s = true /\ game_full s = false /\ d_upg d <= units s /\
    let s' := apply_op d s (StartHeld 1 w) in
    npl s' = npl s + 1 /\ a_paid s' = a_paid s + 1 /\ units s' = 0 /\ units s = 5 /\ d_upg d = 2.
Proof. exists ex_cfg, [Coin 2; Start; Coin 0; Coin 0; Coin 0], 40000. vm_compute. repeat split; try reflexivity; intro H; discriminate H. Qed.

Lemma start_held_example_l :
  let d := derive ex_cfg in let s := final d (init d) [Coin 2; Coin 2; Start] in
  fp s = false /\ ingame s = true /\ game_full s = false /\ due (dfrac s) (now s + 5000) = false /\
  due (dall s) (now s + 5000) = false /\ 2 * d_upg d <= units s /\
  npl (apply_op d s (StartHeld 2 5000)) = 3 /\ units (apply_op d s (StartHeld 2 5000)) = units s - 4.
Proof. vm_compute. repeat split; try reflexivity; intro H; discriminate H. Qed.
