(* C05/Requests.v — the request / eject queues of a whole machine: BallDevice.request_ball / eject ->
   _setup_or_queue_eject_to_target -> setup_eject_chain -> setup_eject_chain_next_hop (one OutgoingBall appended to the
   eject queue of every device on the chain, available_balls moved from the head to the target, balldevice_balls_available
   posted), _ball_requests (a deque per device), _source_device_balls_available (pop the OLDEST request of the device and
   route it again; if it still cannot be served it is appended again, i.e. it goes to the back),
   _balls_added_callback(new_balls=1, unclaimed_balls=0) (a claimed ball enters a device).
   The deques of all devices are kept as ONE list of (device, target) in arrival order: the deque of d is the sublist
   with first component d. *)
From Common Require Import Prelude.
From C05 Require Import Model.
Open Scope Z_scope.

Definition upd {A} (f : Z -> A) (d : Z) (v : A) : Z -> A := fun x => if x =? d then v else f x.

Record qst := mkQ {
  qav : Z -> Z;               (* available_balls *)
  qreq : list (Z * Z);        (* all _ball_requests *)
  qej : Z -> list Z;          (* eject queue (targets) per device *)
  qpend : Z;                  (* balldevice_balls_available events posted, not yet dispatched *)
  qchains : Z; qrefused : Z }.

Fixpoint hops (p : list Z) : list (Z * Z) :=
  match p with a :: ((b :: _) as r) => (a, b) :: hops r | _ => [] end.

Definition apply_chain (s : qst) (p : list Z) : qst :=
  match p with
  | [] => s
  | h :: _ =>
      let t := last p h in
      let av1 := upd (qav s) h (qav s h - 1) in
      let av2 := upd av1 t (av1 t + 1) in
      let ej := fold_left (fun e ab => upd e (fst ab) (e (fst ab) ++ [snd ab])) (hops p) (qej s) in
      mkQ av2 (qreq s) ej (qpend s + 1) (qchains s + 1) (qrefused s)
  end.

Definition do_request (fuel : nat) (g : graph) (s : qst) (d t : Z) : qst :=
  match setup_or_queue fuel g (qav s) d t with
  | Served p => apply_chain s p
  | Queued => mkQ (qav s) (qreq s ++ [(d, t)]) (qej s) (qpend s) (qchains s) (qrefused s)
  | NoRoute => mkQ (qav s) (qreq s) (qej s) (qpend s) (qchains s) (qrefused s + 1)
  end.

(* popleft of the deque of d *)
Fixpoint pop_first (d : Z) (l : list (Z * Z)) : option (Z * list (Z * Z)) :=
  match l with
  | [] => None
  | (d', t) :: r =>
      if d' =? d then Some (t, r)
      else match pop_first d r with Some (t', r') => Some (t', (d', t) :: r') | None => None end
  end.

(* _source_device_balls_available of d *)
Definition serve_local (fuel : nat) (g : graph) (s : qst) (d : Z) : qst :=
  match pop_first d (qreq s) with
  | None => s
  | Some (t, r) => do_request fuel g (mkQ (qav s) r (qej s) (qpend s) (qchains s) (qrefused s)) d t
  end.

Inductive qop :=
| QRequest (d t : Z)       (* d._setup_or_queue_eject_to_target(t): request_ball (t = d), eject, add_ball *)
| QBallAdded (d : Z)       (* _balls_added_callback(1, 0) *)
| QDispatch                (* one balldevice_balls_available event reaches its handlers (device order) *)
| QPop (d : Z).            (* the outgoing handler of d takes the next eject off its queue *)

Definition qstep (fuel : nat) (g : graph) (s : qst) (o : qop) : qst :=
  match o with
  | QRequest d t => do_request fuel g s d t
  | QBallAdded d =>
      let s1 := serve_local fuel g (mkQ (upd (qav s) d (qav s d + 1)) (qreq s) (qej s) (qpend s) (qchains s) (qrefused s)) d in
      mkQ (qav s1) (qreq s1) (qej s1) (qpend s1 + 1) (qchains s1) (qrefused s1)
  | QDispatch =>
      if 0 <? qpend s then
        fold_left (serve_local fuel g) (map fst g)
                  (mkQ (qav s) (qreq s) (qej s) (qpend s - 1) (qchains s) (qrefused s))
      else s
  | QPop d => mkQ (qav s) (qreq s) (upd (qej s) d (tl (qej s d))) (qpend s) (qchains s) (qrefused s)
  end.

Fixpoint qrun (fuel : nat) (g : graph) (s : qst) (os : list qop) : qst :=
  match os with [] => s | o :: r => qrun fuel g (qstep fuel g s o) r end.

Definition qinit (av : list (Z * Z)) : qst := mkQ (avail_of av) [] (fun _ => []) 0 0 0.

Fixpoint count_requests (os : list qop) : Z :=
  match os with [] => 0 | QRequest _ _ :: r => 1 + count_requests r | _ :: r => count_requests r end.

(* correspondence entry point: (graph, available balls, playfields, ops) ->
   per device [available; eject queue...], per device its deque of requested targets, the playfields' available balls,
   [pending events; chains set up; requests refused] *)
Definition req_run (x : graph * list (Z * Z) * list Z * list qop) : list (list Z) :=
  let '(g, av, pfs, os) := x in
  let s := qrun (S (length g)) g (qinit av) os in
  map (fun d => qav s d :: qej s d) (map fst g) ++
  map (fun d => map snd (filter (fun x => fst x =? d) (qreq s))) (map fst g) ++
  [map (qav s) pfs] ++ [[qpend s; qchains s; qrefused s]].
