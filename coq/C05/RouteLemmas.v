(* C05/RouteLemmas.v — soundness and completeness of the search for an available ball (find_one_available_ball),
   completeness of find_path_to_target, and the full case analysis of _setup_or_queue_eject_to_target. *)
From Common Require Import Prelude.
From C05 Require Import Model Lemmas.
Open Scope Z_scope.

(* a chain read downstream: every device lists the next one as an eject target (it is one of its _source_devices) *)
Fixpoint srcs_ok (g : graph) (p : list Z) : bool :=
  match p with
  | a :: ((b :: _) as r) => memz a (sources g b) && srcs_ok g r
  | _ => true
  end.

(* the same chain read upstream, starting at the requesting device *)
Fixpoint ups_ok (g : graph) (u : list Z) : bool :=
  match u with
  | a :: ((b :: _) as r) => memz b (sources g a) && ups_ok g r
  | _ => true
  end.

Lemma memz_In d l : memz d l = true <-> In d l.
Proof.
  unfold memz. rewrite existsb_exists. split.
  - intros [x [H E]]. apply Z.eqb_eq in E. subst. assumption.
  - intros H. exists d. split; [assumption | apply Z.eqb_refl].
Qed.

Definition fa_loop (fuel' : nat) (g : graph) (avail : Z -> Z) (path' : list Z) :=
  fix try (ss : list Z) : option (list Z) :=
    match ss with
    | [] => None
    | s :: ss' =>
        match find_available fuel' g avail s path' with
        | Some p => Some p
        | None => try ss'
        end
    end.

Lemma find_available_unfold fuel' g av d path :
  find_available (S fuel') g av d path =
  if memz d path then None
  else if (0 <? av d) && (1 <? Z.of_nat (length (d :: path))) then Some (d :: path)
       else fa_loop fuel' g av (d :: path) (sources g d).
Proof. reflexivity. Qed.

Lemma fa_loop_some fuel' g av path' : forall ss p,
  fa_loop fuel' g av path' ss = Some p -> exists s, In s ss /\ find_available fuel' g av s path' = Some p.
Proof.
  induction ss as [|s ss IH]; intros p H; [discriminate|]. cbn in H.
  destruct (find_available fuel' g av s path') as [q|] eqn:Q.
  - inversion H; subst. exists s. split; [left; reflexivity | assumption].
  - destruct (IH _ H) as [s' [A B]]. exists s'. split; [right; assumption | assumption].
Qed.

Lemma fa_loop_none fuel' g av path' : forall ss,
  fa_loop fuel' g av path' ss = None -> forall s, In s ss -> find_available fuel' g av s path' = None.
Proof.
  induction ss as [|s ss IH]; intros H x Hx; [contradiction|]. cbn in H.
  destruct (find_available fuel' g av s path') as [q|] eqn:Q; [discriminate|].
  destruct Hx as [<- | Hx]; [assumption | apply IH; assumption].
Qed.

(* soundness: the chain found starts at a device with an available ball, every hop is an eject-target edge, it ends with
   the path it was asked to extend and has at least two nodes *)
Lemma find_available_sound g av : forall fuel d path p,
  srcs_ok g (d :: path) = true -> find_available fuel g av d path = Some p ->
  srcs_ok g p = true /\ (exists q, p = q ++ d :: path) /\ (exists h t, p = h :: t /\ 0 < av h) /\ (2 <= length p)%nat.
Proof.
  induction fuel as [|fuel IH]; intros d path p OK H; [discriminate|].
  rewrite find_available_unfold in H. destruct (memz d path); [discriminate|].
  destruct ((0 <? av d) && (1 <? Z.of_nat (length (d :: path)))) eqn:T.
  - inversion H; subst p. apply andb_true_iff in T as [T1 T2]. apply Z.ltb_lt in T1. apply Z.ltb_lt in T2.
    split; [assumption|]. split; [exists []; reflexivity|]. split; [exists d, path; auto | lia].
  - apply fa_loop_some in H as [s [Hs F]].
    assert (OK2 : srcs_ok g (s :: d :: path) = true).
    { cbn [srcs_ok]. apply andb_true_iff. split; [apply memz_In; assumption | assumption]. }
    destruct (IH _ _ _ OK2 F) as (A & [q B] & C & D). split; [assumption|]. split; [|split; assumption].
    exists (q ++ [s]). rewrite <- app_assoc. assumption.
Qed.

(* completeness: if some device upstream has an available ball, the search finds one *)
Lemma find_available_complete g av : forall u fuel d path t,
  u = d :: t -> ups_ok g u = true -> NoDup u -> (forall x, In x u -> ~ In x path) ->
  (length u <= fuel)%nat -> 0 < av (last u d) -> ((2 <= length u)%nat \/ path <> []) ->
  find_available fuel g av d path <> None.
Proof.
  induction u as [|a u IH]; intros fuel d path t E OK ND DJ L AV LEN; [discriminate|].
  inversion E; subst a t. destruct fuel as [|fuel]; [cbn in L; lia|].
  rewrite find_available_unfold.
  assert (M : memz d path = false).
  { destruct (memz d path) eqn:M; [|reflexivity]. apply memz_In in M. exfalso. apply (DJ d); [left; reflexivity | assumption]. }
  rewrite M. destruct ((0 <? av d) && (1 <? Z.of_nat (length (d :: path)))) eqn:T; [discriminate|].
  destruct u as [|x r].
  - (* the device itself is the one with the ball: only possible when it is not the requester *)
    exfalso. cbn in AV. destruct LEN as [LEN | LEN]; [cbn in LEN; lia|].
    apply andb_false_iff in T as [T | T].
    + apply Z.ltb_ge in T. lia.
    + apply Z.ltb_ge in T. destruct path; [contradiction LEN; reflexivity | cbn in T; lia].
  - cbn [ups_ok] in OK. apply andb_true_iff in OK as [OK1 OK2]. apply memz_In in OK1.
    intros C. pose proof (fa_loop_none _ _ _ _ _ C x OK1) as N.
    revert N. apply (IH fuel x (d :: path) r); auto.
    + inversion ND; assumption.
    + intros y Hy [Hd | Hp].
      * subst y. inversion ND; subst. contradiction.
      * apply (DJ y); [right; assumption | assumption].
    + cbn in L. cbn. lia.
    + cbn [last] in AV. cbn [last]. destruct r; [assumption|]. rewrite (last_default (z :: r) x d) by discriminate. assumption.
    + right. discriminate.
Qed.

(* find_path_to_target is complete up to its fuel: a route whose inner hops are devices is found *)
Definition fp_loop (fuel' : nat) (g : graph) (d target : Z) :=
  fix try (ts : list Z) : option (list Z) :=
    match ts with
    | [] => None
    | t :: ts' =>
        if is_pf t then try ts'
        else match find_path fuel' g t target with
             | Some p => Some (d :: p)
             | None => try ts'
             end
    end.

Lemma find_path_unfold fuel' g d t :
  find_path (S fuel') g d t =
  if memz t (targets g d) then Some [d; t] else fp_loop fuel' g d t (targets g d).
Proof. reflexivity. Qed.

Lemma fp_loop_none fuel' g d t : forall ts,
  fp_loop fuel' g d t ts = None -> forall x, In x ts -> is_pf x = false -> find_path fuel' g x t = None.
Proof.
  induction ts as [|a ts IH]; intros H x Hx PF; [contradiction|]. cbn in H.
  destruct Hx as [<- | Hx].
  - rewrite PF in H. destruct (find_path fuel' g a t); [discriminate | reflexivity].
  - destruct (is_pf a); [apply IH; assumption|]. destruct (find_path fuel' g a t); [discriminate|]. apply IH; assumption.
Qed.

Fixpoint inner_devices (r : list Z) : bool :=
  match r with
  | _ :: ((b :: (_ :: _)) as rest) => negb (is_pf b) && inner_devices rest
  | _ => true
  end.

Lemma find_path_complete g t : forall r fuel d rest,
  r = d :: rest -> rest <> [] -> last r d = t -> hops_ok g r = true -> inner_devices r = true ->
  (length rest <= fuel)%nat -> find_path fuel g d t <> None.
Proof.
  induction r as [|a r IH]; intros fuel d rest E NE LA H ID L; [discriminate|].
  inversion E; subst a rest. destruct fuel as [|fuel]; [destruct r; [contradiction NE; reflexivity | cbn in L; lia]|].
  rewrite find_path_unfold. destruct (memz t (targets g d)) eqn:M; [discriminate|].
  destruct r as [|x r]; [contradiction NE; reflexivity|].
  cbn [hops_ok] in H. apply andb_true_iff in H as [H1 H2].
  destruct r as [|y r].
  - cbn in LA. subst x. congruence.
  - cbn [inner_devices] in ID. apply andb_true_iff in ID as [I1 I2]. apply negb_true_iff in I1.
    intros C. apply memz_In in H1. pose proof (fp_loop_none _ _ _ _ _ C x H1 I1) as N. revert N.
    apply (IH fuel x (y :: r)); auto.
    + discriminate.
    + cbn [last] in LA. cbn [last]. destruct r; [assumption|]. rewrite (last_default (z :: r) x d) by discriminate. assumption.
    + cbn in L. cbn. lia.
Qed.

(* _setup_or_queue_eject_to_target, full case analysis *)
Lemma setup_or_queue_full fuel g av d t :
  match setup_or_queue fuel g av d t with
  | Served p =>
      (* the chain starts at a device with an available ball ... *)
      (exists h tl, p = h :: tl /\ 0 < av h) /\
      (* ... reaches the requesting device over eject-target edges and goes on to the target over eject-target edges *)
      (exists up down, p = up ++ down /\ srcs_ok g up = true /\ last up d = d /\ up <> [] /\
                       (t <> d -> down <> [] /\ last p d = t /\ hops_ok g (d :: down) = true) /\ (t = d -> down = []))
  | Queued =>
      (av d <= 0 \/ d = t) /\
      (* no device upstream (simple chain within the fuel) has an available ball *)
      (forall u tl, u = d :: tl -> tl <> [] -> ups_ok g u = true -> NoDup u -> (length u <= fuel)%nat -> av (last u d) <= 0)
  | NoRoute =>
      t <> d /\ (forall r rest, r = d :: rest -> rest <> [] -> last r d = t -> hops_ok g r = true ->
                                 inner_devices r = true -> (length rest <= fuel)%nat -> False)
  end.
Proof.
  unfold setup_or_queue.
  destruct (find_path fuel g d t) as [p|] eqn:P.
  - destruct (find_path_valid _ _ _ _ _ P) as [rest [E [NE [L Hh]]]]. subst p.
    rewrite andb_false_r. cbn [negb].
    destruct ((0 <? av d) && negb (d =? t)) eqn:C.
    + apply andb_true_iff in C as [C1 C2]. apply Z.ltb_lt in C1. split; [exists d, rest; auto|].
      exists [d], rest. split; [reflexivity|]. split; [reflexivity|]. split; [reflexivity|]. split; [discriminate|]. split.
      * intros _. split; [assumption|]. split; assumption.
      * intros T. apply negb_true_iff in C2. apply Z.eqb_neq in C2. congruence.
    + destruct (find_available fuel g av d []) as [q|] eqn:Q.
      * destruct (find_available_sound g av fuel d [] q eq_refl Q) as (A & [q0 B] & Hd & Len).
        assert (LQ : last q d = d) by (subst q; rewrite last_app_ne; reflexivity).
        assert (NQ : q <> []) by (subst q; destruct q0; discriminate).
        destruct (t =? d) eqn:T.
        -- apply Z.eqb_eq in T. split; [assumption|]. exists q, []. rewrite app_nil_r.
           split; [reflexivity|]. split; [assumption|]. split; [assumption|]. split; [assumption|]. split.
           ++ intros N; contradiction.
           ++ intros _; reflexivity.
        -- apply Z.eqb_neq in T. destruct Hd as [h [tl [Eq Hav]]]. split.
           ++ exists h, (tl ++ rest). split; [rewrite Eq; reflexivity | assumption].
           ++ exists q, rest. split; [reflexivity|]. split; [assumption|]. split; [assumption|]. split; [assumption|]. split.
              ** intros _. split; [assumption|]. split; [|assumption].
                 destruct rest as [|r0 rest]; [contradiction NE; reflexivity|]. rewrite last_app_ne. exact L.
              ** intros T2; congruence.
      * split.
        -- apply andb_false_iff in C as [C|C].
           ++ left. apply Z.ltb_ge in C. assumption.
           ++ right. apply negb_false_iff in C. apply Z.eqb_eq in C. assumption.
        -- intros u tl Eu Ntl OK ND Lu. destruct (Z_le_gt_dec (av (last u d)) 0) as [G|G]; [assumption|]. exfalso.
           apply (find_available_complete g av u fuel d [] tl); auto.
           ++ lia.
           ++ left. subst u. destruct tl; [contradiction Ntl; reflexivity | cbn; lia].
  - destruct (t =? d) eqn:T; cbn [negb andb].
    + apply Z.eqb_eq in T. subst t. rewrite Z.eqb_refl. rewrite andb_false_r.
      destruct (find_available fuel g av d []) as [q|] eqn:Q.
      * destruct (find_available_sound g av fuel d [] q eq_refl Q) as (A & [q0 B] & Hd & Len). split; [assumption|].
        exists q, []. rewrite app_nil_r.
        split; [reflexivity|]. split; [assumption|]. split; [subst q; rewrite last_app_ne; reflexivity|].
        split; [subst q; destruct q0; discriminate|]. split.
        -- intros N; contradiction N; reflexivity.
        -- intros _; reflexivity.
      * split; [right; reflexivity|].
        intros u tl Eu Ntl OK ND Lu. destruct (Z_le_gt_dec (av (last u d)) 0) as [G|G]; [assumption|]. exfalso.
        apply (find_available_complete g av u fuel d [] tl); auto.
        -- lia.
        -- left. subst u. destruct tl; [contradiction Ntl; reflexivity | cbn; lia].
    + apply Z.eqb_neq in T. split; [assumption|]. intros r rest Er Nr La Ho In Le.
      apply (find_path_complete g t r fuel d rest); auto.
Qed.

(* ---------------------------------------------------------------------------------------------- *)
(* reservation: setup_eject_chain takes one available ball from the head of the chain and promises it to the target
   (self.available_balls -= 1; target.available_balls += 1) *)
Definition take_ball (av : Z -> Z) (p : list Z) : Z -> Z :=
  match p with
  | [] => av
  | h :: _ => fun x => av x - (if x =? h then 1 else 0) + (if x =? last p h then 1 else 0)
  end.

(* a sequence of requests (device, target), each routed on the ledger the earlier ones left behind:
   (ledger, chains set up, requests queued, requests refused) *)
Fixpoint serve_requests (fuel : nat) (g : graph) (av : Z -> Z) (rs : list (Z * Z)) : (Z -> Z) * Z * Z * Z :=
  match rs with
  | [] => (av, 0, 0, 0)
  | (d, t) :: r =>
      match setup_or_queue fuel g av d t with
      | Served p => let '(av', c, q, x) := serve_requests fuel g (take_ball av p) r in (av', c + 1, q, x)
      | Queued => let '(av', c, q, x) := serve_requests fuel g av r in (av', c, q + 1, x)
      | NoRoute => let '(av', c, q, x) := serve_requests fuel g av r in (av', c, q, x + 1)
      end
  end.

Lemma take_ball_nonneg av p : (forall x, 0 <= av x) -> (exists h tl, p = h :: tl /\ 0 < av h) -> forall x, 0 <= take_ball av p x.
Proof.
  intros A (h & tl & E & H) x. subst p. cbn [take_ball]. specialize (A x).
  destruct (x =? h) eqn:X; [apply Z.eqb_eq in X; subst x|]; destruct (_ =? last _ _); lia.
Qed.

Lemma serve_requests_ok fuel g : forall rs av, (forall x, 0 <= av x) ->
  let '(av', c, q, x) := serve_requests fuel g av rs in
  (forall y, 0 <= av' y) /\ 0 <= c /\ 0 <= q /\ 0 <= x /\ c + q + x = Z.of_nat (length rs).
Proof.
  induction rs as [|[d t] rs IH]; intros av A; [cbn; repeat split; auto; lia|].
  cbn [serve_requests length]. rewrite Nat2Z.inj_succ.
  pose proof (setup_or_queue_full fuel g av d t) as F. destruct (setup_or_queue fuel g av d t) as [p| |].
  - destruct F as [Hd _]. specialize (IH (take_ball av p) (take_ball_nonneg av p A Hd)).
    destruct (serve_requests fuel g (take_ball av p) rs) as [[[av' c] q] x]. destruct IH as (I1 & I2 & I3 & I4 & I5).
    repeat split; auto; lia.
  - specialize (IH av A). destruct (serve_requests fuel g av rs) as [[[av' c] q] x]. destruct IH as (I1 & I2 & I3 & I4 & I5).
    repeat split; auto; lia.
  - specialize (IH av A). destruct (serve_requests fuel g av rs) as [[[av' c] q] x]. destruct IH as (I1 & I2 & I3 & I4 & I5).
    repeat split; auto; lia.
Qed.
