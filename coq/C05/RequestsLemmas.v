(* C05/RequestsLemmas.v — no request is dropped, no ball is promised twice, a deque is served oldest first *)
From Common Require Import Prelude.
From C05 Require Import Model Lemmas RouteLemmas Requests.
Open Scope Z_scope.

(* ghost-free accounting: requests issued = chains set up + requests refused + requests still queued *)
Definition acct (s : qst) : Z := qchains s + qrefused s + Z.of_nat (length (qreq s)).
Definition av_ok (s : qst) : Prop := forall x, 0 <= qav s x.

Lemma apply_chain_acct s p : p <> [] -> acct (apply_chain s p) = acct s + 1.
Proof. destruct p; [intros C; contradiction C; reflexivity|]. intros _. unfold acct. cbn. lia. Qed.

Lemma apply_chain_av s p : av_ok s -> (exists h tl, p = h :: tl /\ 0 < qav s h) -> av_ok (apply_chain s p).
Proof.
  intros A (h & tl & E & H) x. subst p. cbn [apply_chain qav]. unfold upd.
  destruct (x =? last (h :: tl) h) eqn:X1; destruct (x =? h) eqn:X2;
    try (apply Z.eqb_eq in X1); try (apply Z.eqb_eq in X2); subst;
    repeat match goal with |- context [?a =? ?b] => destruct (a =? b) eqn:? end;
    repeat match goal with E : (_ =? _) = true |- _ => apply Z.eqb_eq in E end;
    try pose proof (A h); try pose proof (A x); try pose proof (A (last (h :: tl) h)); lia.
Qed.

Lemma do_request_ok fuel g s d t :
  av_ok s -> av_ok (do_request fuel g s d t) /\ acct (do_request fuel g s d t) = acct s + 1.
Proof.
  intros A. unfold do_request. pose proof (setup_or_queue_full fuel g (qav s) d t) as F.
  destruct (setup_or_queue fuel g (qav s) d t) as [p| |].
  - destruct F as [Hd _]. split; [apply apply_chain_av; assumption|]. apply apply_chain_acct.
    destruct Hd as (h & tl & E & _). subst p. discriminate.
  - split; [exact A|]. unfold acct. cbn. rewrite app_length. cbn. lia.
  - split; [exact A|]. unfold acct. cbn. lia.
Qed.

Lemma pop_first_spec d : forall l t r, pop_first d l = Some (t, r) ->
  exists a b, l = a ++ (d, t) :: b /\ r = a ++ b /\ (forall x, In x a -> fst x <> d).
Proof.
  induction l as [|[d' t'] l IH]; intros t r H; [discriminate|]. cbn in H. destruct (d' =? d) eqn:E.
  - apply Z.eqb_eq in E. inversion H; subst. exists [], r. repeat split; auto.
  - destruct (pop_first d l) as [[t2 r2]|] eqn:P; [|discriminate]. inversion H; subst.
    destruct (IH _ _ eq_refl) as (a & b & A & B & C). exists ((d', t') :: a), b. subst. repeat split; auto.
    intros x [<- | Hx]; [cbn; apply Z.eqb_neq; assumption | apply C; assumption].
Qed.

Lemma pop_first_len d l t r : pop_first d l = Some (t, r) -> length l = S (length r).
Proof.
  intros H. destruct (pop_first_spec d l t r H) as (a & b & A & B & _). subst. rewrite !app_length. cbn. lia.
Qed.

Lemma serve_local_ok fuel g s d : av_ok s -> av_ok (serve_local fuel g s d) /\ acct (serve_local fuel g s d) = acct s.
Proof.
  intros A. unfold serve_local. destruct (pop_first d (qreq s)) as [[t r]|] eqn:P; [|split; [exact A | reflexivity]].
  set (s1 := mkQ (qav s) r (qej s) (qpend s) (qchains s) (qrefused s)).
  assert (A1 : av_ok s1) by exact A.
  destruct (do_request_ok fuel g s1 d t A1) as [B C]. split; [exact B|]. rewrite C.
  unfold acct, s1. cbn. rewrite (pop_first_len _ _ _ _ P). lia.
Qed.

Lemma fold_serve_ok fuel g : forall ds s, av_ok s ->
  av_ok (fold_left (serve_local fuel g) ds s) /\ acct (fold_left (serve_local fuel g) ds s) = acct s.
Proof.
  induction ds as [|d ds IH]; intros s A; [split; [exact A | reflexivity]|]. cbn [fold_left].
  destruct (serve_local_ok fuel g s d A) as [B C]. destruct (IH _ B) as [D E]. split; [exact D|]. rewrite E. exact C.
Qed.

Lemma qstep_ok fuel g s o :
  av_ok s -> av_ok (qstep fuel g s o) /\
             acct (qstep fuel g s o) = acct s + (match o with QRequest _ _ => 1 | _ => 0 end).
Proof.
  intros A. destruct o; cbn [qstep].
  - apply do_request_ok. exact A.
  - set (s0 := mkQ (upd (qav s) d (qav s d + 1)) (qreq s) (qej s) (qpend s) (qchains s) (qrefused s)).
    assert (A0 : av_ok s0).
    { intros x. unfold s0. cbn. unfold upd. destruct (x =? d); [pose proof (A d); lia | apply A]. }
    destruct (serve_local_ok fuel g s0 d A0) as [B C]. split; [exact B|]. unfold acct in *. cbn in *. lia.
  - destruct (0 <? qpend s); [|split; [exact A | lia]].
    set (s0 := mkQ (qav s) (qreq s) (qej s) (qpend s - 1) (qchains s) (qrefused s)).
    destruct (fold_serve_ok fuel g (map fst g) s0 A) as [B C]. split; [exact B|]. rewrite C. unfold acct. cbn. lia.
  - split; [exact A|]. unfold acct. cbn. lia.
Qed.

Lemma qrun_ok fuel g : forall os s, av_ok s ->
  av_ok (qrun fuel g s os) /\ acct (qrun fuel g s os) = acct s + count_requests os.
Proof.
  induction os as [|o os IH]; intros s A; [split; [exact A | cbn; lia]|]. cbn [qrun].
  destruct (qstep_ok fuel g s o A) as [B C]. destruct (IH _ B) as [D E]. split; [exact D|]. rewrite E, C.
  destruct o; cbn [count_requests]; lia.
Qed.
