(* C05/WaitsLemmas.v — every waiting state of Waits.v has a waker (for the fixed code), and the two recorded
   "stuck for ever" defects as reachable counterexamples of the older codes. *)
From Common Require Import Prelude.
From C05 Require Import Waits.
Open Scope Z_scope.

(* the part of the invariant that does not mention where _run is *)
Definition pre (s : wst) : Prop :=
  (0 < srcw s -> room s = false) /\ 0 <= srcw s /\ (inc s <> [] -> has_inc s = true) /\
  (inc s <> [] -> no_inc s = false) /\ (outw s = true -> no_inc s = false).

(* what _run is blocked on exists *)
Definition pcok (s : wst) : Prop :=
  match pc s with
  | PWaitHas => inc s = [] /\ no_inc s = true
  | PWatch w => w <> [] /\ (forall i, In i w -> In i (ids (inc s)))
  | PWaitLock => lock s = true
  end.

Definition winv (s : wst) : Prop := pre s /\ pcok s.

Lemma init_inv cp c : winv (init cp c).
Proof.
  split; [repeat split; cbn; intros; try lia; try discriminate; try (contradiction H; reflexivity) | cbn; auto].
Qed.

Lemma nonnil_map {A B} (f : A -> B) l : map f l <> [] -> l <> [].
Proof. destruct l; [intros C; contradiction C; reflexivity | discriminate]. Qed.

Lemma nonnil_filter {A} (f : A -> bool) l : filter f l <> [] -> l <> [].
Proof. destruct l; [intros C; contradiction C; reflexivity | discriminate]. Qed.

Lemma in_nonnil {A} (x : A) l : In x l -> l <> [].
Proof. destruct l; [contradiction | discriminate]. Qed.

Lemma settle_inv s : pre s -> winv (settle s).
Proof.
  intros (P1 & P2 & P3 & P4 & P5). unfold settle. destruct (inc s) as [|b l] eqn:E.
  - split; [|cbn; auto]. repeat split; cbn; intros; try discriminate; auto; try (contradiction H; reflexivity).
    apply P1 in H. unfold room in *. cbn. rewrite E in H. exact H.
  - rewrite P3 by discriminate. split.
    + repeat split; cbn; rewrite ?E; intros; auto; try (apply P3; discriminate); try (apply P4; discriminate).
      all: try (apply P1 in H; unfold room in *; cbn; rewrite E in *; exact H).
    + unfold pcok. cbn. rewrite E. split; [discriminate | auto].
Qed.

Lemma ih_handle_inv s : pre s -> winv (ih_handle fixed_code s).
Proof.
  intros (P1 & P2 & P3 & P4 & P5). unfold ih_handle. destruct (any_fired (inc s)) eqn:F.
  - cbn [wake_on_timeout fixed_code]. apply settle_inv. repeat split; cbn; intros; try lia; auto.
    + apply P3. eapply nonnil_filter; exact H.
    + apply P4. eapply nonnil_filter; exact H.
  - apply settle_inv. repeat split; assumption.
Qed.

Lemma lock_inv s : pre s -> lock s = true -> winv (set_pc s PWaitLock).
Proof. intros P L. split; [exact P | exact L]. Qed.

Lemma ih_wake_inv s : pre s -> winv (ih_wake fixed_code s).
Proof.
  intros P. unfold ih_wake. destruct (lock s) eqn:L; [apply lock_inv; assumption | apply ih_handle_inv; assumption].
Qed.

Lemma in_ids_remove i j l : In j (ids l) -> j <> i -> In j (ids (remove_id i l)).
Proof.
  unfold ids, remove_id. intros H N. apply in_map_iff in H as [b [E Hb]]. apply in_map_iff. exists b. split; [assumption|].
  apply filter_In. split; [assumption|]. subst j. apply negb_true_iff. apply Z.eqb_neq. assumption.
Qed.

Lemma memi_false i w : memi i w = false -> forall j, In j w -> j <> i.
Proof.
  unfold memi. intros H j Hj E. subst j.
  assert (existsb (Z.eqb i) w = true) by (apply existsb_exists; exists i; split; [assumption | apply Z.eqb_refl]).
  congruence.
Qed.

Lemma ids_map_same f l : (forall b, ib_id (f b) = ib_id b) -> ids (map f l) = ids l.
Proof. intros H. unfold ids. rewrite map_map. apply map_ext. exact H. Qed.

(* a state change that keeps [pre], keeps the ids the watcher looks at, and then wakes _run if ball [i] is watched *)
Lemma on_watched_inv s0 s i :
  winv s0 -> pre s -> pc s = pc s0 -> lock s = lock s0 ->
  (forall w, pc s0 = PWatch w -> memi i w = false -> forall j, In j w -> In j (ids (inc s))) ->
  (pc s0 = PWaitHas -> inc s = [] /\ no_inc s = true) ->
  winv (on_watched fixed_code s0 s i).
Proof.
  intros [_ K0] P E L HW HH. unfold on_watched. unfold pcok in K0. destruct (pc s0) eqn:P0.
  - split; [exact P|]. unfold pcok. rewrite E. apply HH. reflexivity.
  - destruct (memi i w) eqn:M; [apply ih_wake_inv; exact P|].
    split; [exact P|]. unfold pcok. rewrite E. destruct K0 as [A B]. split; [exact A|]. apply (HW w eq_refl M).
  - split; [exact P|]. unfold pcok. rewrite E, L. exact K0.
Qed.

Lemma wstep_inv s o : winv s -> winv (wstep fixed_code s o).
Proof.
  intros I. pose proof I as [(P1 & P2 & P3 & P4 & P5) K]. destruct o; cbn [wstep].
  - (* WAdd *)
    set (s1 := mkW (cap s) (cnt s) (inc s ++ [mkIB (nxt s) false false]) (nxt s + 1) true false (pc s) (lock s)
                   (srcw s) (outw s) (lost s)).
    assert (Q : pre s1).
    { repeat split; subst s1; cbn; intros; auto.
      apply P1 in H. unfold room in *. cbn. apply Z.ltb_ge. apply Z.ltb_ge in H. unfold zlen in *.
      rewrite app_length. cbn. lia. }
    unfold pcok in K. destruct (pc s) eqn:P.
    + apply settle_inv. exact Q.
    + split; [exact Q|]. unfold pcok. subst s1. cbn. rewrite ?P. destruct K as [A B]. split; [exact A|].
      intros i Hi. unfold ids. rewrite map_app. apply in_or_app. left. apply B. exact Hi.
    + split; [exact Q|]. unfold pcok. subst s1. cbn. rewrite ?P. exact K.
  - (* WConfirm *)
    set (f := fun b => if ib_id b =? i then mkIB (ib_id b) true (ib_fired b) else b).
    assert (FI : forall b, ib_id (f b) = ib_id b) by (intros b; unfold f; destruct (ib_id b =? i); reflexivity).
    split.
    + repeat split; cbn; intros; auto.
      * apply P1 in H. unfold room in *. cbn. unfold zlen in *. rewrite map_length. exact H.
      * apply P3. eapply nonnil_map; exact H.
      * apply P4. eapply nonnil_map; exact H.
    + unfold pcok in *. cbn. destruct (pc s).
      * destruct K as [A B]. rewrite A. auto.
      * rewrite ids_map_same by exact FI. exact K.
      * exact K.
  - (* WRemove *)
    destruct (memi i (ids (inc s))) eqn:M; [|exact I]. cbn [wake_on_remove fixed_code].
    apply on_watched_inv; try reflexivity; try exact I.
    + repeat split; cbn; intros; try lia; auto.
      * apply P3. eapply nonnil_filter; exact H.
      * apply P4. eapply nonnil_filter; exact H.
    + intros w Pw Mw j Hj. cbn. unfold pcok in K. rewrite Pw in K. destruct K as [_ B].
      apply in_ids_remove; [apply B; exact Hj | eapply memi_false; eassumption].
    + intros Ph. unfold pcok in K. rewrite Ph in K. destruct K as [A B]. cbn. rewrite A. auto.
  - (* WFire *)
    destruct (existsb _ (inc s)) eqn:M; [|exact I].
    set (f := fun b => if ib_id b =? i then mkIB (ib_id b) (ib_conf b) true else b).
    assert (FI : forall b, ib_id (f b) = ib_id b) by (intros b; unfold f; destruct (ib_id b =? i); reflexivity).
    apply on_watched_inv; try reflexivity; try exact I.
    + repeat split; cbn; intros; auto.
      * apply P1 in H. unfold room in *. cbn. unfold zlen in *. rewrite map_length. exact H.
      * apply P3. eapply nonnil_map; exact H.
      * apply P4. eapply nonnil_map; exact H.
    + intros w Pw Mw j Hj. cbn. unfold pcok in K. rewrite Pw in K. destruct K as [_ B].
      fold f. rewrite ids_map_same by exact FI. apply B; exact Hj.
    + intros Ph. unfold pcok in K. rewrite Ph in K. destruct K as [A B]. cbn. rewrite A. auto.
  - (* WCount *)
    split; [repeat split; cbn; intros; try lia; auto | unfold pcok in *; cbn; exact K].
  - (* WSrcWait *)
    destruct (room s) eqn:R; [exact I|]. split; [|unfold pcok in *; cbn; exact K]. repeat split; cbn; intros; try lia; auto.
  - (* WOutWait *)
    destruct (no_inc s) eqn:N; [exact I|]. split; [|unfold pcok in *; cbn; rewrite ?N in *; exact K]. repeat split; cbn; intros; auto.
  - (* WLock *)
    split; [repeat split; cbn; intros; auto|]. unfold pcok in *. cbn. destruct (pc s); auto.
  - (* WUnlock *)
    unfold pcok in K. destruct (pc s) eqn:P.
    + split; [repeat split; cbn; intros; auto|]. unfold pcok. cbn. rewrite P. exact K.
    + split; [repeat split; cbn; intros; auto|]. unfold pcok. cbn. rewrite P. exact K.
    + apply ih_handle_inv. repeat split; cbn; intros; auto.
Qed.

Lemma wrun_inv os : forall s, winv s -> winv (wrun fixed_code s os).
Proof. induction os as [|o os IH]; cbn; intros s I; [exact I | apply IH; apply wstep_inv; exact I]. Qed.

(* the user-facing reading of the invariant *)
Lemma winv_read s :
  winv s ->
  (* W5 *) (0 < srcw s -> zlen (inc s) >= cap s - cnt s) /\
  (* W3 *) (outw s = true -> inc s <> [] \/ (pc s = PWaitLock /\ lock s = true)) /\
  (* IH *) match pc s with
           | PWaitHas => inc s = []
           | PWatch w => w <> [] /\ (forall i, In i w -> In i (ids (inc s)))
           | PWaitLock => lock s = true
           end.
Proof.
  intros [(P1 & P2 & P3 & P4 & P5) K]. split; [|split].
  - intros H. apply P1 in H. unfold room in H. apply Z.ltb_ge in H. lia.
  - intros H. apply P5 in H. unfold pcok in K. destruct (pc s) eqn:P.
    + destruct K as [_ B]. congruence.
    + left. destruct K as [A B]. destruct w as [|j w]; [contradiction A; reflexivity|].
      eapply nonnil_map. eapply in_nonnil. apply B. left; reflexivity.
    + right. auto.
  - unfold pcok in K. destruct (pc s); tauto.
Qed.

(* once every expected ball has arrived or was given up and the device is not in its own eject, nothing waits on
   the event, and a source is blocked only if the device is full *)
Lemma winv_drained s :
  winv s -> inc s = [] -> lock s = false ->
  no_inc s = true /\ outw s = false /\ (0 < srcw s -> cap s <= cnt s).
Proof.
  intros I E L. pose proof I as [(P1 & P2 & P3 & P4 & P5) K].
  assert (N : no_inc s = true).
  { unfold pcok in K. destruct (pc s).
    - tauto.
    - destruct K as [A B]. destruct w as [|j w]; [contradiction A; reflexivity|].
      specialize (B j (or_introl eq_refl)). rewrite E in B. contradiction.
    - congruence. }
  split; [exact N|]. split.
  - destruct (outw s) eqn:O; [|reflexivity]. rewrite (P5 eq_refl) in N. discriminate.
  - intros H. apply P1 in H. unfold room in H. rewrite E in H. apply Z.ltb_ge in H. cbn in H. lia.
Qed.

Lemma filter_length_le {A} (f : A -> bool) l : (length (filter f l) <= length l)%nat.
Proof. induction l as [|x l IH]; cbn; [lia|]. destruct (f x); cbn; lia. Qed.

(* the environment can always get there: giving up every expected ball empties the list *)
Lemma remove_all c : forall n s, (length (inc s) <= n)%nat ->
  exists os, Forall (fun o => exists i, o = WRemove i) os /\ inc (wrun c s os) = [].
Proof.
  induction n as [|n IH]; intros s L.
  - exists []. split; [constructor|]. cbn. destruct (inc s); [reflexivity | cbn in L; lia].
  - destruct (inc s) as [|b l] eqn:E.
    + exists []. split; [constructor | exact E].
    + assert (S1 : (length (inc (wstep c s (WRemove (ib_id b)))) <= n)%nat).
      { cbn [wstep]. rewrite E. cbn [ids map memi existsb]. rewrite Z.eqb_refl. cbn [orb].
        assert (R : (length (remove_id (ib_id b) (b :: l)) <= n)%nat).
        { unfold remove_id. cbn [filter]. rewrite Z.eqb_refl. cbn [negb].
          pose proof (filter_length_le (fun b0 => negb (ib_id b0 =? ib_id b)) l). cbn in L. lia. }
        set (s1 := if wake_on_remove c then _ else _).
        assert (I1 : inc s1 = remove_id (ib_id b) (b :: l)) by (subst s1; destruct (wake_on_remove c); reflexivity).
        assert (HH : forall s', (length (inc s') <= n)%nat -> (length (inc (ih_wake c s')) <= n)%nat).
        { intros s' L'. unfold ih_wake. destruct (lock s'); [exact L'|]. unfold ih_handle.
          assert (ST : forall s2, (length (inc (settle s2)) <= length (inc s2))%nat).
          { intros s2. unfold settle. destruct (inc s2) eqn:E2; [cbn; lia|]. destruct (has_inc s2); cbn; rewrite E2; cbn; lia. }
          destruct (any_fired (inc s')).
          - eapply Nat.le_trans; [apply ST|]. destruct (wake_on_timeout c); cbn;
              (eapply Nat.le_trans; [apply filter_length_le | exact L']).
          - eapply Nat.le_trans; [apply ST | exact L']. }
        unfold on_watched. destruct (pc s); try (rewrite I1; exact R).
        destruct (memi (ib_id b) w); [apply HH|]; rewrite I1; exact R. }
      destruct (IH _ S1) as [os [F Z0]]. exists (WRemove (ib_id b) :: os). split; [|exact Z0].
      constructor; [eexists; reflexivity | exact F].
Qed.
