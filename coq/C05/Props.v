(* C05/Props.v — property theorems only.

   Property C05, full statement: every ball requested for a target is eventually delivered once a ball is
   available on a path to it; every failed eject is retried or reported failed; a device that exhausts its
   attempts reports itself broken rather than hanging; once the world stops changing every device returns
   to idle with no queued request that could still be served.

   Proved here (model level, all inputs): routing returns only valid chains and never drops a request
   (path_valid, request_served_or_queued_partial); in the eject-attempt automaton attempts are numbered and
   bounded by max_eject_attempts (attempt_terminates_success_fail_or_broken), an exhausted eject can only go
   to eject_broken, and the only phases in which a device can stay for ever are idle, broken, waiting for a
   ball and waiting for its target (quiescent_idle_partial).  NOT proved (validated on sampled runs, see
   NOTES.md): that the coroutines follow the automaton, that asyncio delivers the timeouts, that queued
   requests are re-served on balldevice_balls_available, and physical delivery. *)
From Common Require Import Prelude.
From C05 Require Import Model Lemmas.
Open Scope Z_scope.

Theorem path_valid :
  forall g t fuel d p, find_path fuel g d t = Some p ->
    exists rest, p = d :: rest /\ rest <> [] /\ last p d = t /\ hops_ok g p = true.
Proof. exact find_path_valid. Qed.
Print Assumptions path_valid.

(* full statement would also say: the head of a served chain has an available ball and "Queued" implies that no
   device upstream has one (needs the analogue of path_valid for find_available: validated pointwise, not proved) *)
Theorem request_served_or_queued_partial :
  forall fuel g av d t,
    match setup_or_queue fuel g av d t with
    | Served p => t <> d -> exists q rest, p = q ++ rest /\ rest <> [] /\ last p d = t /\ hops_ok g (d :: rest) = true
    | Queued => find_available fuel g av d [] = None /\ (av d <= 0 \/ d = t)
    | NoRoute => t <> d /\ find_path fuel g d t = None \/ (exists p, find_available fuel g av d [] = Some p)
    end.
Proof. exact setup_or_queue_cases. Qed.
Print Assumptions request_served_or_queued_partial.

Theorem attempt_terminates_success_fail_or_broken :
  forall mx es a n a',
    arun mx (mkA PIdle 0) es = Some a -> astep mx a (AAttempt n) = Some a' ->
    n = tries a /\ 0 <= n /\ (0 < mx -> n < mx).
Proof.
  intros mx es a n a' R S. eapply attempt_number_bounded_l; [|exact S].
  eapply arun_good; [apply good_init | exact R].
Qed.
Print Assumptions attempt_terminates_success_fail_or_broken.

Theorem exhausted_goes_broken :
  forall mx a, 0 < mx -> tries a = mx - 1 -> (ph a = PEjectingPosted \/ ph a = PAfterFail) ->
    (forall n, astep mx a (AFailed 1 n) = None) /\ exists a', astep mx a (AState 6) = Some a'.
Proof. exact exhausted_goes_broken_l. Qed.
Print Assumptions exhausted_goes_broken.

Theorem quiescent_idle_partial :
  forall mx a, 0 <= mx -> may_rest (ph a) = false -> exists e a', astep mx a e = Some a'.
Proof. exact no_silent_hang_l. Qed.
Print Assumptions quiescent_idle_partial.

(* satisfiability: two failed attempts, then broken (max_eject_attempts = 2); and a 3-hop route *)
Example broken_run_accepted :
  exists a, arun 2 (mkA PIdle 0)
    [AState 2; AAttempt 0; AState 3; AEjecting 0; AFailed 1 1; AState 2; AAttempt 1; AState 3; AEjecting 1;
     AState 4; AState 5; AState 3; AState 6; AFailed 0 2; ABroken] = Some a /\ ph a = PBroken.
Proof. eexists. split; vm_compute; reflexivity. Qed.
Print Assumptions broken_run_accepted.

Example route_example :
  find_path 4 [(0, [1]); (1, [100; 2]); (2, [101])] 0 101 = Some [0; 1; 2; 101].
Proof. vm_compute. reflexivity. Qed.
Print Assumptions route_example.
