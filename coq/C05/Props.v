(* C05/Props.v — property theorems only.

   Property C05, full statement: every ball requested for a target is eventually delivered once a ball is
   available on a path to it; every failed eject is retried or reported failed; a device that exhausts its
   attempts reports itself broken rather than hanging; once the world stops changing every device returns
   to idle with no queued request that could still be served.

   Proved here (model level, all inputs / histories):
   * routing (Model.v, RouteLemmas.v): path_valid, request_served_or_queued (full: sound AND complete searches; the older
     _partial statement is kept), queue_reserved (ledger never negative, every request accounted for);
   * request / eject queues of the machine (Requests.v): requests_never_dropped_nor_double_booked, request_deque_fifo,
     oldest_request_served_refuted (known finding request-starves-behind-self-requests);
   * attempts (Model.v, Live.v): attempt_terminates_success_fail_or_broken, exhausted_goes_broken,
     quiescent_idle_partial, outcomes_drive_the_automaton, attempt_bound_exact, attempt_unlimited_fair, queue_fifo,
     fair_world_every_eject_served_or_broken (liveness under a fair world);
   * waits and wakers of a target device (Waits.v): every_wait_has_a_waker, waits_released_when_drained,
     incoming_balls_can_drain for the patched code; refuted with witnesses for /repo HEAD, for the code before 5520da9
     and (IdleLoss.v) for an eject requested while an uncommanded loss is booked; idle_device_returns_to_idle_partial.
   NOT proved (validated on recorded runs, see NOTES.md): that the coroutines follow the automaton / Waits.v /
   IdleLoss.v, that asyncio delivers the timeouts, physical delivery.  Oracle-only: the known finding
   dangling-eject-after-failed-path-restore (cancel_path_if_target_is does not look at queued ejects). *)
From Common Require Import Prelude.
From C05 Require Import Model Lemmas.
Open Scope Z_scope.

Theorem path_valid :
  forall g t fuel d p, find_path fuel g d t = Some p ->
    exists rest, p = d :: rest /\ rest <> [] /\ last p d = t /\ hops_ok g p = true.
Proof. exact find_path_valid. Qed.
Print Assumptions path_valid.

(* full statement would also say: the head of a served chain has an available ball and "Queued" implies that no
   device upstream has one (needs the analogue of path_valid for find_available: validated pointwise, not proved) *)
Theorem request_served_or_queued_partial :
  forall fuel g av d t,
    match setup_or_queue fuel g av d t with
    | Served p => t <> d -> exists q rest, p = q ++ rest /\ rest <> [] /\ last p d = t /\ hops_ok g (d :: rest) = true
    | Queued => find_available fuel g av d [] = None /\ (av d <= 0 \/ d = t)
    | NoRoute => t <> d /\ find_path fuel g d t = None \/ (exists p, find_available fuel g av d [] = Some p)
    end.
Proof. exact setup_or_queue_cases. Qed.
Print Assumptions request_served_or_queued_partial.

Theorem attempt_terminates_success_fail_or_broken :
  forall mx es a n a',
    arun mx (mkA PIdle 0) es = Some a -> astep mx a (AAttempt n) = Some a' ->
    n = tries a /\ 0 <= n /\ (0 < mx -> n < mx).
Proof.
  intros mx es a n a' R S. eapply attempt_number_bounded_l; [|exact S].
  eapply arun_good; [apply good_init | exact R].
Qed.
Print Assumptions attempt_terminates_success_fail_or_broken.

Theorem exhausted_goes_broken :
  forall mx a, 0 < mx -> tries a = mx - 1 -> (ph a = PEjectingPosted \/ ph a = PAfterFail) ->
    (forall n, astep mx a (AFailed 1 n) = None) /\ exists a', astep mx a (AState 6) = Some a'.
Proof. exact exhausted_goes_broken_l. Qed.
Print Assumptions exhausted_goes_broken.

Theorem quiescent_idle_partial :
  forall mx a, 0 <= mx -> may_rest (ph a) = false -> exists e a', astep mx a e = Some a'.
Proof. exact no_silent_hang_l. Qed.
Print Assumptions quiescent_idle_partial.

(* satisfiability: two failed attempts, then broken (max_eject_attempts = 2); and a 3-hop route *)
Example broken_run_accepted :
  exists a, arun 2 (mkA PIdle 0)
    [AState 2; AAttempt 0; AState 3; AEjecting 0; AFailed 1 1; AState 2; AAttempt 1; AState 3; AEjecting 1;
     AState 4; AState 5; AState 3; AState 6; AFailed 0 2; ABroken] = Some a /\ ph a = PBroken.
Proof. eexists. split; vm_compute; reflexivity. Qed.
Print Assumptions broken_run_accepted.

Example route_example :
  find_path 4 [(0, [1]); (1, [100; 2]); (2, [101])] 0 101 = Some [0; 1; 2; 101].
Proof. vm_compute. reflexivity. Qed.
Print Assumptions route_example.

(* ---------------------------------------------------------------------------------------------- *)
(* Waiting states and their wakers (Waits.v): the device as a target, its IncomingBallsHandler, the sources blocked
   in wait_for_ready_to_receive and its own eject blocked in wait_for_no_incoming_balls. *)
From C05 Require Import Waits WaitsLemmas.

(* For every history of calls (any order, any ball ids, any counts), in the code with both wake-ups:
   W5  a source is blocked in wait_for_ball_count_changed only while free space <= incoming balls;
   W3  the device's own eject is blocked on _has_no_incoming_balls only while a ball is still on the list (each such ball
       is resolved by its arrival, by did_not_arrive of its source's eject or by its ball_missing timer: WRemove / WFire),
       or while _run waits for the lock that the device's own eject holds (resolved by end_eject);
   IH  _run waits for new balls only when the list is empty, watches only balls that are on the list (never an empty set),
       and waits for the lock only while it is held. *)
Theorem every_wait_has_a_waker :
  forall cp c os, let s := wrun fixed_code (init cp c) os in
    (0 < srcw s -> zlen (inc s) >= cap s - cnt s) /\
    (outw s = true -> inc s <> [] \/ (pc s = PWaitLock /\ lock s = true)) /\
    match pc s with
    | PWaitHas => inc s = []
    | PWatch w => w <> [] /\ (forall i, In i w -> In i (ids (inc s)))
    | PWaitLock => lock s = true
    end.
Proof. intros cp c os s. apply winv_read. apply wrun_inv. apply init_inv. Qed.
Print Assumptions every_wait_has_a_waker.

(* ... and the wakers suffice: once every expected ball has arrived or was given up and the device is not inside its
   own eject, the event is set, the own eject is not blocked, and a source is blocked only if the device is full *)
Theorem waits_released_when_drained :
  forall cp c os, let s := wrun fixed_code (init cp c) os in
    inc s = [] -> lock s = false -> no_inc s = true /\ outw s = false /\ (0 < srcw s -> cap s <= cnt s).
Proof. intros cp c os s. apply winv_drained. apply wrun_inv. apply init_inv. Qed.
Print Assumptions waits_released_when_drained.

(* the environment can always drain the list (fair world: every fired ball arrives or is declared lost) *)
Theorem incoming_balls_can_drain :
  forall c s, exists os, Forall (fun o => exists i, o = WRemove i) os /\ inc (wrun c s os) = [].
Proof. intros c s. apply (remove_all c (length (inc s))). apply Nat.le_refl. Qed.
Print Assumptions incoming_balls_can_drain.

(* The same statement is FALSE for the code of /repo HEAD (wake-up in remove_incoming_ball only): a confirmed ball times
   out, _run takes it off the list itself, the source keeps waiting although the device has room.
   Reproduced on the implementation (corpus/C05/attempts.9.json, known finding
   stuck-waiting-for-slot-of-timed-out-incoming-ball, repaired by fixes/C05-wake-source-when-incoming-ball-times-out.patch) *)
Theorem every_wait_has_a_waker_refuted_head :
  exists cp c os, let s := wrun head_code (init cp c) os in
    0 < srcw s /\ zlen (inc s) < cap s - cnt s.
Proof. exists 2, 1, [WAdd; WConfirm 0; WSrcWait; WFire 0]. vm_compute. split; reflexivity. Qed.
Print Assumptions every_wait_has_a_waker_refuted_head.

(* ... and for the code before 5520da9 (no wake-up at all when an incoming ball is removed): the recorded finding
   stuck-waiting-for-slot-of-lost-incoming-ball *)
Theorem every_wait_has_a_waker_refuted_before_5520da9 :
  exists cp c os, let s := wrun old_code (init cp c) os in
    0 < srcw s /\ zlen (inc s) < cap s - cnt s.
Proof. exists 1, 0, [WAdd; WSrcWait; WRemove 0]. vm_compute. split; reflexivity. Qed.
Print Assumptions every_wait_has_a_waker_refuted_before_5520da9.

(* satisfiability: a source waits (justified), the ball arrives during the device's own eject (the lock is held, _run has
   to wait), the eject ends: everything is released *)
Example waits_example :
  let s := wrun fixed_code (init 1 0) [WAdd; WSrcWait; WLock; WRemove 0] in
  let s' := wstep fixed_code s WUnlock in
  pc s = PWaitLock /\ no_inc s = false /\ srcw s = 0 /\ no_inc s' = true /\ pc s' = PWaitHas.
Proof. vm_compute. repeat split; reflexivity. Qed.
Print Assumptions waits_example.

(* ---------------------------------------------------------------------------------------------- *)
(* Routing, full statements (RouteLemmas.v) *)
From C05 Require Import RouteLemmas Live LiveLemmas.

(* request_served_or_queued, FULL: a request is served with a chain that starts at a device with an available ball,
   reaches the requesting device and then the target over eject-target edges; or it is queued, and then neither the
   device itself could serve it nor has any device upstream (any simple chain within the search depth) an available
   ball; or it is refused, and then the target is different from the device and no route to it exists (within the
   search depth, inner hops devices).  Never dropped. *)
Theorem request_served_or_queued :
  forall fuel g av d t,
  match setup_or_queue fuel g av d t with
  | Served p =>
      (exists h tl, p = h :: tl /\ 0 < av h) /\
      (exists up down, p = up ++ down /\ srcs_ok g up = true /\ last up d = d /\ up <> [] /\
                       (t <> d -> down <> [] /\ last p d = t /\ hops_ok g (d :: down) = true) /\ (t = d -> down = []))
  | Queued =>
      (av d <= 0 \/ d = t) /\
      (forall u tl, u = d :: tl -> tl <> [] -> ups_ok g u = true -> NoDup u -> (length u <= fuel)%nat -> av (last u d) <= 0)
  | NoRoute =>
      t <> d /\ (forall r rest, r = d :: rest -> rest <> [] -> last r d = t -> hops_ok g r = true ->
                                 inner_devices r = true -> (length rest <= fuel)%nat -> False)
  end.
Proof. exact setup_or_queue_full. Qed.
Print Assumptions request_served_or_queued.

Example request_served_example :
  setup_or_queue 4 [(0, [1]); (1, [100; 2]); (2, [101])] (fun d => if d =? 0 then 1 else 0) 2 101
  = Served [0; 1; 2; 101] /\
  setup_or_queue 4 [(0, [1]); (1, [100; 2]); (2, [101])] (fun d => 0) 2 101 = Queued.
Proof. split; vm_compute; reflexivity. Qed.
Print Assumptions request_served_example.

(* queue_reserved_fifo, part 1 (reservation): whatever requests are made in whatever order, no device's available_balls
   goes negative - a ball that was promised to one request is not given to another - and every request is accounted for
   (chain set up, queued or refused) *)
Theorem queue_reserved :
  forall fuel g rs av, (forall x, 0 <= av x) ->
  let '(av', c, q, x) := serve_requests fuel g av rs in
  (forall y, 0 <= av' y) /\ 0 <= c /\ 0 <= q /\ 0 <= x /\ c + q + x = Z.of_nat (length rs).
Proof. exact serve_requests_ok. Qed.
Print Assumptions queue_reserved.

Example queue_reserved_example :
  let '(av', c, q, x) := serve_requests 4 [(0, [1]); (1, [100])] (fun d => if d =? 0 then 1 else 0) [(1, 100); (1, 100)] in
  (av' 0, av' 100, c, q) = (0, 1, 1, 1).
Proof. vm_compute. reflexivity. Qed.
Print Assumptions queue_reserved_example.

(* queue_reserved_fifo, part 2 (order): the ejects queued at a device are started in the order they were queued, one at
   a time *)
Theorem queue_fifo :
  forall mx q world, exists n, map fst (serve_queue mx q world) = firstn n q.
Proof. exact serve_queue_fifo. Qed.
Print Assumptions queue_fifo.

(* the device's reaction to any sequence of physical outcomes is a run of the attempt automaton (the one that is
   tied to the implementation), ending idle / broken / waiting for the next outcome as eject_result says *)
Theorem outcomes_drive_the_automaton :
  forall mx, 0 <= mx -> forall outs n,
    arun mx (mkA PWaitTarget n) (eject_events mx n outs) = Some (final_state (eject_result mx n outs)).
Proof. exact eject_events_accepted. Qed.
Print Assumptions outcomes_drive_the_automaton.

(* attempt_terminates_success_fail_or_broken with the exact bound: with max_eject_attempts = mx > 0 a world that
   answers mx attempts resolves the eject: success / lost report after k <= mx attempts, or eject_broken after
   exactly mx.  (mx = 0 means "retry for ever": see the next theorem.) *)
Theorem attempt_bound_exact :
  forall mx outs, 0 < mx -> mx <= Z.of_nat (length outs) ->
  exists k, 0 < k <= mx /\ (eject_result mx 0 outs = RDone k \/ (eject_result mx 0 outs = RBroken k /\ k = mx)).
Proof. exact eject_resolves_limited. Qed.
Print Assumptions attempt_bound_exact.

Theorem attempt_unlimited_fair :
  forall outs n, (exists o, In o outs /\ is_fail o = false) ->
  exists pre o post, outs = pre ++ o :: post /\ forallb is_fail pre = true /\ is_fail o = false /\
                     eject_result 0 n outs = RDone (n + Z.of_nat (length pre) + 1).
Proof. exact eject_resolves_unlimited. Qed.
Print Assumptions attempt_unlimited_fair.

(* liveness under a fair world (DESIGN part (c)): if the world is fair to every queued eject (answers every attempt;
   without a retry limit eventually lets a ball through or loses it), then every eject queued at the device is
   finished in order, or the device has reported itself broken (after exactly max_eject_attempts attempts) and every
   eject before that one is finished *)
Theorem fair_world_every_eject_served_or_broken :
  forall mx, 0 <= mx -> forall q world,
  length world = length q -> Forall (fair mx) world ->
  let res := serve_queue mx q world in
  (map fst res = q /\ forallb (fun x => is_done (snd x)) res = true) \/
  (exists done_ t k, res = done_ ++ [(t, RBroken k)] /\ forallb (fun x => is_done (snd x)) done_ = true /\
                     (0 < mx -> k = mx) /\ map fst done_ ++ [t] = firstn (S (length done_)) q).
Proof. exact serve_queue_live. Qed.
Print Assumptions fair_world_every_eject_served_or_broken.

Example fair_world_example :
  fair 2 [OStuck; OReturn] /\ fair 0 [OStuck; OStuck; OLate] /\
  serve_queue 2 [100; 100; 101] [[OStuck; OConfirm]; [OReturn; OStuck]; [OConfirm]]
  = [(100, RDone 2); (100, RBroken 2)].
Proof.
  split; [cbn; lia|]. split; [cbn; exists OLate; split; [right; right; left; reflexivity | reflexivity]|].
  vm_compute. reflexivity.
Qed.
Print Assumptions fair_world_example.

(* ---------------------------------------------------------------------------------------------- *)
(* A ball leaves an idle device uncommanded (IdleLoss.v) *)
From C05 Require Import IdleLoss IdleLossLemmas.

(* known finding stuck-after-uncommanded-ball-loss (still present in /repo): the eject is requested while
   _handle_missing_balls waits idle_missing_ball_timeout; the chain takes the ball off available_balls, then the loss is
   booked as well: the device waits for a ball for ever, physically empty, with available_balls = -1, and the eject is never
   reported failed.  Replayed on the implementation by the suite "idleloss". *)
Theorem every_wait_has_a_waker_refuted_uncommanded_loss :
  exists k os, let s := lrun (linit k) os in
    lo s = OWaitBall /\ phys s = 0 /\ lavail s < 0 /\ ejq s = 0%nat /\ mwait s = false.
Proof. exists 1, [LLeak; LEject; LTimeout]. vm_compute. repeat split; reflexivity. Qed.
Print Assumptions every_wait_has_a_waker_refuted_uncommanded_loss.

(* partial (guarded by exactly that class): as long as no eject is requested while a loss is being booked, the device
   is idle after every operation, nothing is queued, and available_balls = counted balls >= the balls physically there
   (equal once the loss is booked) *)
Theorem idle_device_returns_to_idle_partial :
  forall k os, 0 <= k -> guarded (linit k) os = true ->
  let s := lrun (linit k) os in
  lo s = OIdle /\ ejq s = 0%nat /\ lavail s = lcnt s /\ 0 <= phys s <= lcnt s /\ (mwait s = false -> phys s = lcnt s).
Proof. intros k os K G. apply guarded_run; [apply linit_inv; exact K | exact G]. Qed.
Print Assumptions idle_device_returns_to_idle_partial.

Example idle_loss_example :
  guarded (linit 2) [LLeak; LTimeout; LEject; LEject] = true /\
  idle_run (2, [LLeak; LTimeout; LEject; LEject]) = [0; 0; 0; 1] /\
  idle_run (2, [LLeak; LEject; LTimeout]) = [0; 0; 0; 0].
Proof. vm_compute. repeat split; reflexivity. Qed.
Print Assumptions idle_loss_example.

(* ---------------------------------------------------------------------------------------------- *)
(* The request / eject queues of the whole machine (Requests.v) *)
From C05 Require Import Requests RequestsLemmas.

(* for every history of requests, claimed balls entering, balldevice_balls_available dispatches and ejects taken:
   every request issued is accounted for - a chain was set up, it was refused (unknown target), or it is still in a
   deque - and no device's available_balls is negative (no ball is promised to two requests) *)
Theorem requests_never_dropped_nor_double_booked :
  forall fuel g av os, (forall x, 0 <= avail_of av x) ->
  let s := qrun fuel g (qinit av) os in
  (forall x, 0 <= qav s x) /\
  qchains s + qrefused s + Z.of_nat (length (qreq s)) = count_requests os.
Proof.
  intros fuel g av os A s. destruct (qrun_ok fuel g os (qinit av) A) as [B C]. split; [exact B|].
  unfold acct in C. cbn in C. subst s. lia.
Qed.
Print Assumptions requests_never_dropped_nor_double_booked.

(* queue_reserved_fifo, part 3: _source_device_balls_available takes the OLDEST request of the device and leaves the
   others in their order *)
Theorem request_deque_fifo :
  forall d l t r, pop_first d l = Some (t, r) ->
  exists a b, l = a ++ (d, t) :: b /\ r = a ++ b /\ (forall x, In x a -> fst x <> d).
Proof. exact pop_first_spec. Qed.
Print Assumptions request_deque_fifo.

(* two requests queued while everything is empty; a claimed ball enters the trough: the older one is served first *)
Example requests_example :
  req_run ([(0, [1]); (1, [100])], [(0, 0); (1, 0)], [100],
           [QRequest 1 100; QRequest 1 1; QBallAdded 0; QDispatch; QDispatch])
  = [[0; 1]; [0; 100]; []; [1]; [1]; [0; 1; 0]].
Proof. vm_compute. reflexivity. Qed.
Print Assumptions requests_example.

(* "when nothing is pending, the oldest request of a device cannot be served" is FALSE of the faithful model (and of
   the code: known finding request-starves-behind-self-requests, found by the suite "queues"): every ball gives the
   deque two tries and an unservable request goes to the back, so the third request is not tried *)
Theorem oldest_request_served_refuted :
  exists g av os d t rest,
    let s := qrun (S (length g)) g (qinit av) os in
    qpend s = 0 /\ filter (fun x => fst x =? d) (qreq s) = (d, t) :: rest /\ t <> d /\ 0 < qav s d /\
    setup_or_queue (S (length g)) g (qav s) d t <> Queued.
Proof.
  exists [(0, [100])], [(0, 0)], [QRequest 0 0; QRequest 0 0; QRequest 0 100; QBallAdded 0; QDispatch], 0, 100, [(0, 0); (0, 0)].
  vm_compute. repeat split; try reflexivity; discriminate.
Qed.
Print Assumptions oldest_request_served_refuted.
