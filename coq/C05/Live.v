(* C05/Live.v — (c) progress of one device under a fair world.

   The physical world answers every eject attempt with one outcome; the device (OutgoingBallsHandler._ejecting /
   _eject_ball / _handle_confirm / _handle_late_confirm_or_missing) turns it into the events of the attempt automaton
   of Model.v and either finishes the eject, retries, or declares itself broken.  [eject_result] is the progress
   function, [eject_events] the trace the device produces; LiveLemmas.v proves that the trace is accepted by the
   automaton that is tied to the implementation, and that under fairness every queued eject is resolved. *)
From Common Require Import Prelude.
From C05 Require Import Model.
Open Scope Z_scope.

Inductive outcome :=
| OConfirm      (* the ball leaves and is confirmed within eject_timeout *)
| OLate         (* ... confirmed after eject_timeout, within ball_missing_timeout (late confirm) *)
| OLost         (* the ball leaves and is never seen again: ball_missing_timeout, reported lost, the eject is over *)
| OStuck        (* the ball never leaves: eject_timeout *)
| OReturn.      (* the ball leaves and falls back / an unknown ball shows up in the device *)

Definition is_fail (o : outcome) : bool := match o with OStuck | OReturn => true | _ => false end.

(* _ejecting: "if eject_request.max_tries and eject_try >= eject_request.max_tries" after eject_try += 1 *)
Definition retry_ok (mx n : Z) : bool := (mx =? 0) || (n + 1 <? mx).

Inductive result := RDone (attempts : Z) | RBroken (attempts : Z) | RPending (attempts : Z).

Fixpoint eject_result (mx n : Z) (outs : list outcome) : result :=
  match outs with
  | [] => RPending n
  | o :: r =>
      if is_fail o then (if retry_ok mx n then eject_result mx (n + 1) r else RBroken (n + 1))
      else RDone (n + 1)
  end.

Definition fail_tail (mx n : Z) : list aev :=
  if retry_ok mx n then [AFailed 1 (n + 1); AState 2] else [AState 6; AFailed 0 (n + 1); ABroken].

Definition attempt_events (mx n : Z) (o : outcome) : list aev :=
  [AAttempt n; AState 3; AEjecting n] ++
  match o with
  | OConfirm => [AState 4; ASuccess; ACountDec; AState 3; AState 0]
  | OLate => [AState 4; AState 5; ASuccess; ACountDec; AState 3; AState 0]
  | OLost => [AState 4; AState 5; AFailed 1 n; ACountDec; AState 3; AState 0]
  | OStuck => fail_tail mx n
  | OReturn => [AState 4; AState 5; AState 3] ++ fail_tail mx n
  end.

Fixpoint eject_events (mx n : Z) (outs : list outcome) : list aev :=
  match outs with
  | [] => []
  | o :: r => attempt_events mx n o ++ (if is_fail o && retry_ok mx n then eject_events mx (n + 1) r else [])
  end.

Definition final_state (r : result) : astate :=
  match r with
  | RDone _ => mkA PIdle 0
  | RBroken k => mkA PBroken k
  | RPending k => mkA PWaitTarget k
  end.

(* the eject queue of one device: targets in the order setup_eject_chain_next_hop queued them; the world supplies the
   outcomes of the attempts of each eject in turn.  An eject is started only when the one before it is over
   (OutgoingBallsHandler._run takes one request at a time), a broken device stops for good (_task.cancel()). *)
Fixpoint serve_queue (mx : Z) (q : list Z) (world : list (list outcome)) : list (Z * result) :=
  match q, world with
  | t :: q', outs :: world' =>
      let r := eject_result mx 0 outs in
      match r with
      | RDone _ => (t, r) :: serve_queue mx q' world'
      | _ => [(t, r)]
      end
  | _, _ => []
  end.

(* fairness of the world towards one eject: with a retry limit it only has to keep answering, without one it must
   eventually let a ball through (or lose it) *)
Definition fair (mx : Z) (outs : list outcome) : Prop :=
  if mx =? 0 then exists o, In o outs /\ is_fail o = false else mx <= Z.of_nat (length outs).
