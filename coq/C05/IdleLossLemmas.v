(* C05/IdleLossLemmas.v *)
From Common Require Import Prelude.
From C05 Require Import IdleLoss.
Open Scope Z_scope.

Definition rest_inv (s : lst) : Prop :=
  lo s = OIdle /\ ejq s = 0%nat /\ lavail s = lcnt s /\ 0 <= phys s <= lcnt s /\ (mwait s = false -> phys s = lcnt s).

Lemma guarded_step s o :
  rest_inv s -> (match o with LEject => mwait s = false | _ => True end) -> rest_inv (lstep s o).
Proof.
  intros (A & B & C & [D1 D2] & E) G. destruct o; cbn [lstep].
  - rewrite A. destruct (0 <? phys s) eqn:P; [|repeat split; auto; lia].
    apply Z.ltb_lt in P. repeat split; cbn; auto; try lia; try (intros; discriminate).
  - specialize (E G). destruct (0 <? lavail s) eqn:P.
    + apply Z.ltb_lt in P. rewrite A. rewrite G. rewrite B. cbn [proceed lcnt ejq].
      assert (L : (0 <? lcnt s) = true) by (apply Z.ltb_lt; lia). rewrite L.
      repeat split; cbn; auto; try lia; try (intros; discriminate).
    + repeat split; cbn; auto; lia.
  - destruct (mwait s) eqn:M; [|repeat split; auto; lia].
    rewrite A. repeat split; cbn; auto; try lia; try (intros; discriminate).
Qed.

Lemma guarded_run : forall os s, rest_inv s -> guarded s os = true -> rest_inv (lrun s os).
Proof.
  induction os as [|o os IH]; intros s I G; [exact I|]. cbn in G. apply andb_true_iff in G as [G1 G2].
  cbn [lrun]. apply IH; [|exact G2]. apply guarded_step; [exact I|].
  destruct o; auto. apply negb_true_iff in G1. exact G1.
Qed.

Lemma linit_inv k : 0 <= k -> rest_inv (linit k).
Proof. intros K. repeat split; cbn; auto; lia. Qed.
