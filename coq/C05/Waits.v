(* C05/Waits.v — the waiting states of one ball device seen as a TARGET, and what resolves them.

   Transcribed from mpf/devices/ball_device/incoming_balls_handler.py (IncomingBall, IncomingBallsHandler._run,
   add_incoming_ball, remove_incoming_ball, start_eject/end_eject), ball_count_handler.py (wait_for_ready_to_receive,
   wait_for_ball_count_changed, _set_ball_count, incoming_balls_changed) and the head of
   OutgoingBallsHandler._ejecting (wait_for_no_incoming_balls in front of an eject to a playfield).

   Three coroutines can block on this state:
     W3  the device's own _ejecting      on the asyncio.Event _has_no_incoming_balls          ([outw])
     W5  every source of the device      on a future of wait_for_ball_count_changed           ([srcw] of them)
     IH  IncomingBallsHandler._run       on _has_incoming_balls / on the timeout futures of the balls that were on the
                                          list when it looked (Util.first) / on the lock _is_timeouting ([pc])
   One step = one call from outside (another coroutine or the physical world) followed by everything _run does until
   it blocks again; the loop is single-threaded, so that is what any other coroutine can observe. *)
From Common Require Import Prelude.
Open Scope Z_scope.

Record ib := mkIB { ib_id : Z; ib_conf : bool (* externally confirmed: ball_missing timer armed *); ib_fired : bool }.

Inductive ihpc :=
| PWaitHas                   (* await self._has_incoming_balls.wait() *)
| PWatch (w : list Z)        (* await Util.first(timeout futures of the balls [w]) *)
| PWaitLock.                 (* await self._is_timeouting.acquire(): the device's own eject holds it *)

(* the two places that wake the sources when the number of incoming balls drops *)
Record code := mkCode { wake_on_remove : bool;    (* remove_incoming_ball -> incoming_balls_changed (5520da9) *)
                        wake_on_timeout : bool }. (* _run, timed-out balls   -> incoming_balls_changed
                                                     (fixes/C05-wake-source-when-incoming-ball-times-out.patch) *)
Definition old_code := mkCode false false.
Definition head_code := mkCode true false.
Definition fixed_code := mkCode true true.

Record wst := mkW {
  cap : Z; cnt : Z;              (* counter.capacity, BallCountHandler._ball_count *)
  inc : list ib; nxt : Z;        (* _incoming_balls; id of the next ball *)
  has_inc : bool; no_inc : bool; (* the two asyncio.Events *)
  pc : ihpc; lock : bool;        (* where _run is; _is_timeouting held by the device's own eject *)
  srcw : Z;                      (* sources blocked in wait_for_ball_count_changed *)
  outw : bool;                   (* own eject blocked in wait_for_no_incoming_balls *)
  lost : Z }.                    (* lost_incoming_ball reports *)

Definition init (cp c : Z) : wst := mkW cp c [] 0 false true PWaitHas false 0 false 0.

Definition ids (l : list ib) : list Z := map ib_id l.
Definition memi (i : Z) (l : list Z) : bool := existsb (Z.eqb i) l.
Definition remove_id (i : Z) (l : list ib) : list ib := filter (fun b => negb (ib_id b =? i)) l.
Definition any_fired (l : list ib) : bool := existsb ib_fired l.
Definition unfired (l : list ib) : list ib := filter (fun b => negb (ib_fired b)) l.
Definition nfired (l : list ib) : Z := Z.of_nat (length (filter ib_fired l)).
Definition zlen {A} (l : list A) : Z := Z.of_nat (length l).

(* wait_for_ready_to_receive: free_space > incoming_balls *)
Definition room (s : wst) : bool := zlen (inc s) <? cap s - cnt s.

Definition set_inc (s : wst) (l : list ib) : wst :=
  mkW (cap s) (cnt s) l (nxt s) (has_inc s) (no_inc s) (pc s) (lock s) (srcw s) (outw s) (lost s).
Definition set_pc (s : wst) (p : ihpc) : wst :=
  mkW (cap s) (cnt s) (inc s) (nxt s) (has_inc s) (no_inc s) p (lock s) (srcw s) (outw s) (lost s).
Definition set_lock (s : wst) (b : bool) : wst :=
  mkW (cap s) (cnt s) (inc s) (nxt s) (has_inc s) (no_inc s) (pc s) b (srcw s) (outw s) (lost s).
Definition set_srcw (s : wst) (n : Z) : wst :=
  mkW (cap s) (cnt s) (inc s) (nxt s) (has_inc s) (no_inc s) (pc s) (lock s) n (outw s) (lost s).

(* incoming_balls_changed / the tail of _set_ball_count: every future is resolved; each source re-checks and calls
   wait_for_ball_count_changed again if there is still no room (a new WSrcWait) *)
Definition wake (s : wst) : wst := set_srcw s 0.

(* top of the loop of _run when no ball on the list has an expired timeout *)
Definition settle (s : wst) : wst :=
  match inc s with
  | [] => mkW (cap s) (cnt s) [] (nxt s) false true PWaitHas (lock s) (srcw s) false (lost s)
  | _ => if has_inc s then set_pc s (PWatch (ids (inc s))) else set_pc s PWaitHas
  end.

(* _run holds the lock: take the timed-out balls off the list (directly!), report them, back to the top *)
Definition ih_handle (c : code) (s : wst) : wst :=
  if any_fired (inc s) then
    let s1 := mkW (cap s) (cnt s) (unfired (inc s)) (nxt s) (has_inc s) (no_inc s) (pc s) (lock s) (srcw s) (outw s)
                  (lost s + nfired (inc s)) in
    settle (if wake_on_timeout c then wake s1 else s1)
  else settle s.

(* Util.first returned *)
Definition ih_wake (c : code) (s : wst) : wst :=
  if lock s then set_pc s PWaitLock else ih_handle c s.

Inductive wop :=
| WAdd                    (* add_incoming_ball *)
| WConfirm (i : Z)        (* IncomingBall._external_confirm: the timer starts *)
| WRemove (i : Z)         (* ball_arrived / did_not_arrive -> remove_incoming_ball; the ball's timeout future is cancelled *)
| WFire (i : Z)           (* the ball_missing timer of a confirmed ball elapses *)
| WCount (n : Z)          (* _set_ball_count(n) *)
| WSrcWait                (* a source evaluates wait_for_ready_to_receive *)
| WOutWait                (* own _ejecting: target is a playfield and the device is not full *)
| WLock | WUnlock.        (* start_eject / end_eject of the device's own eject *)

Definition on_watched (c : code) (s0 s : wst) (i : Z) : wst :=
  match pc s0 with
  | PWatch w => if memi i w then ih_wake c s else s
  | _ => s
  end.

Definition wstep (c : code) (s : wst) (o : wop) : wst :=
  match o with
  | WAdd =>
      let s1 := mkW (cap s) (cnt s) (inc s ++ [mkIB (nxt s) false false]) (nxt s + 1) true false (pc s) (lock s)
                    (srcw s) (outw s) (lost s) in
      match pc s with PWaitHas => settle s1 | _ => s1 end
  | WConfirm i =>
      set_inc s (map (fun b => if ib_id b =? i then mkIB (ib_id b) true (ib_fired b) else b) (inc s))
  | WRemove i =>
      if memi i (ids (inc s)) then
        let s1 := set_inc s (remove_id i (inc s)) in
        on_watched c s (if wake_on_remove c then wake s1 else s1) i
      else s
  | WFire i =>
      if existsb (fun b => (ib_id b =? i) && ib_conf b && negb (ib_fired b)) (inc s) then
        on_watched c s (set_inc s (map (fun b => if ib_id b =? i then mkIB (ib_id b) (ib_conf b) true else b) (inc s))) i
      else s
  | WCount n =>
      wake (mkW (cap s) n (inc s) (nxt s) (has_inc s) (no_inc s) (pc s) (lock s) (srcw s) (outw s) (lost s))
  | WSrcWait => if room s then s else set_srcw s (srcw s + 1)
  | WOutWait =>
      if no_inc s then s
      else mkW (cap s) (cnt s) (inc s) (nxt s) (has_inc s) (no_inc s) (pc s) (lock s) (srcw s) true (lost s)
  | WLock => set_lock s true
  | WUnlock =>
      match pc s with
      | PWaitLock => ih_handle c (set_lock s false)
      | _ => set_lock s false
      end
  end.

Fixpoint wrun (c : code) (s : wst) (os : list wop) : wst :=
  match os with [] => s | o :: r => wrun c (wstep c s o) r end.

(* ---------------------------------------------------------------------------------------------- *)
(* correspondence: the recorded calls of a real run, interleaved with what the synchronisation objects showed
   whenever the loop was quiescent: (no-incoming event set, len(_incoming_balls), blocked sources, lost reports) *)
Inductive witem := IOp (o : wop) | IObs (noinc ninc nsrc nlost : Z).

Definition b2z (b : bool) : Z := if b then 1 else 0.

Fixpoint wcheck (c : code) (s : wst) (l : list witem) (i : Z) : Z :=
  match l with
  | [] => -1
  | IOp o :: r => wcheck c (wstep c s o) r (i + 1)
  | IObs a b n k :: r =>
      if (b2z (no_inc s) =? a) && (zlen (inc s) =? b) && (srcw s =? n) && (lost s =? k)
      then wcheck c s r (i + 1) else i
  end.

(* input: ((wake_on_remove, wake_on_timeout), capacity, initial count, items) *)
Definition waits_run (x : (Z * Z) * Z * Z * list witem) : Z :=
  let '(fl, cp, c0, l) := x in
  wcheck (mkCode (0 <? fst fl) (0 <? snd fl)) (init cp c0) l 0.
