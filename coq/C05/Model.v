(* C05/Model.v — (a) routing of ball requests over the device graph, transcribed from
   mpf/devices/ball_device/ball_device.py (find_path_to_target, find_one_available_ball,
   _setup_or_queue_eject_to_target); (b) the eject-attempt automaton of
   mpf/devices/ball_device/outgoing_balls_handler.py (_run / _ejecting / _eject_ball / _handle_confirm /
   _handle_late_confirm_or_missing) as an acceptor of the per-device sequence of state changes and
   balldevice_<d>_ball_eject_attempt / _ejecting_ball / _success / _failed / _broken events. *)
From Common Require Import Prelude.
Open Scope Z_scope.

(* ---------------------------------------------------------------------------------------------- *)
(* (a) routing.  Devices are Z ids; a playfield is any id >= 100 (is_playfield()).  The graph gives, per device,
   its eject_targets in config order.  _source_devices of d = the devices that list d, in graph order. *)
Definition graph := list (Z * list Z).
Definition is_pf (d : Z) : bool := 100 <=? d.

Fixpoint targets (g : graph) (d : Z) : list Z :=
  match g with [] => [] | (d', ts) :: g' => if d' =? d then ts else targets g' d end.

Definition memz (d : Z) (l : list Z) : bool := existsb (Z.eqb d) l.

Definition sources (g : graph) (d : Z) : list Z :=
  map fst (filter (fun e => memz d (snd e)) g).

(* find_path_to_target: direct target first, otherwise depth-first through the non-playfield targets in config
   order.  The code has no visited set (it relies on the graph being acyclic); [fuel] = number of devices. *)
Fixpoint find_path (fuel : nat) (g : graph) (d target : Z) : option (list Z) :=
  match fuel with
  | O => None
  | S fuel' =>
      if memz target (targets g d) then Some [d; target]
      else
        (fix try (ts : list Z) : option (list Z) :=
           match ts with
           | [] => None
           | t :: ts' =>
               if is_pf t then try ts'
               else match find_path fuel' g t target with
                    | Some p => Some (d :: p)
                    | None => try ts'
                    end
           end) (targets g d)
  end.

(* find_one_available_ball(path): returns the path source..self, sources searched depth-first in
   _source_devices order; a device already on the path is skipped (loop protection) *)
Fixpoint find_available (fuel : nat) (g : graph) (avail : Z -> Z) (d : Z) (path : list Z) : option (list Z) :=
  match fuel with
  | O => None
  | S fuel' =>
      if memz d path then None
      else
        let path' := d :: path in
        if (0 <? avail d) && (1 <? Z.of_nat (length path')) then Some path'
        else
          (fix try (ss : list Z) : option (list Z) :=
             match ss with
             | [] => None
             | s :: ss' =>
                 match find_available fuel' g avail s path' with
                 | Some p => Some p
                 | None => try ss'
                 end
             end) (sources g d)
  end.

(* _setup_or_queue_eject_to_target(self=d, target): either the path of the eject chain that is set up, or the
   request is appended to d's _ball_requests.  (The AssertionError for an unknown target is outside: callers
   only pass reachable targets.) *)
Inductive routed := Served (path : list Z) | Queued | NoRoute.

Definition setup_or_queue (fuel : nat) (g : graph) (avail : Z -> Z) (d target : Z) : routed :=
  let ptt := find_path fuel g d target in
  if negb (target =? d) && match ptt with None => true | Some _ => false end then NoRoute
  else if (0 <? avail d) && negb (d =? target) then
    match ptt with Some p => Served p | None => NoRoute end
  else
    match find_available fuel g avail d [] with
    | None => Queued
    | Some p =>
        if target =? d then Served p
        else match ptt with Some (_ :: rest) => Served (p ++ rest) | _ => NoRoute end
    end.

Definition avail_of (l : list (Z * Z)) (d : Z) : Z :=
  (fix look (l : list (Z * Z)) := match l with [] => 0 | (d', n) :: l' => if d' =? d then n else look l' end) l.

(* correspondence entry point for routing *)
Inductive rquery := QPath (d t : Z) | QAvail (d : Z) | QSetup (d t : Z).
Definition rout := (Z * list Z)%type.     (* 0 = none/false, 1 = path, 2 = queued *)

Definition route_run (i : graph * list (Z * Z) * rquery) : rout :=
  let '(g, av, q) := i in
  let fuel := S (length g) in
  match q with
  | QPath d t => match find_path fuel g d t with Some p => (1, p) | None => (0, []) end
  | QAvail d => match find_available fuel g (avail_of av) d [] with Some p => (1, p) | None => (0, []) end
  | QSetup d t => match setup_or_queue fuel g (avail_of av) d t with
                  | Served p => (1, p) | Queued => (2, []) | NoRoute => (0, [])
                  end
  end.
Definition route_out_eqb (a b : rout) : bool := (fst a =? fst b) && zs_eqb (snd a) (snd b).

(* ---------------------------------------------------------------------------------------------- *)
(* (b) the eject-attempt automaton of one device *)
Inductive phase :=
| PIdle | PWaitBall | PWaitTarget | PAttempted      (* eject_attempt posted, target may still block *)
| PEjecting | PEjectingPosted                       (* state "ejecting"; ejecting_ball posted *)
| PBallLeft | PFailedConfirm
| PConfirmed                                         (* eject_success posted, own count not yet adjusted *)
| PLost                                              (* failed(retry) posted after ball_missing_timeout *)
| PAfterFail                                         (* attempt failed (timeout / ball returned), failed not yet posted *)
| PFailedPosted                                      (* failed(retry=true) posted, next attempt follows *)
| PDone                                              (* count adjusted, state about to become idle *)
| PBrokenState | PBrokenFailed | PBroken.

Inductive aev :=
| AState (s : Z)             (* 0 idle 1 waiting_for_ball 2 waiting_for_target_ready 3 ejecting 4 ball_left
                                5 failed_confirm 6 eject_broken *)
| AAttempt (n : Z) | AEjecting (n : Z) | ASuccess | AFailed (retry n : Z) | ABroken
| ACountDec.                  (* counted_balls -1 in end_eject *)

Record astate := mkA { ph : phase; tries : Z }.

(* [mx] = max_eject_attempts (0 = unlimited) *)
Definition astep (mx : Z) (a : astate) (e : aev) : option astate :=
  let t := tries a in
  match ph a, e with
  | PIdle, AState 1 => Some (mkA PWaitBall 0)
  | PIdle, AState 2 => Some (mkA PWaitTarget 0)
  | PWaitBall, AState 2 => Some (mkA PWaitTarget t)
  | PWaitBall, AState 0 => Some (mkA PIdle 0)                 (* request cancelled while waiting for a ball *)
  | PWaitTarget, AAttempt n => if n =? t then Some (mkA PAttempted t) else None
  | PAttempted, AState 3 => Some (mkA PEjecting t)
  | PEjecting, AEjecting n => if n =? t then Some (mkA PEjectingPosted t) else None
  | PEjectingPosted, AState 4 => Some (mkA PBallLeft t)
  (* eject timeout, the ball never left: one more try, or broken *)
  | PEjectingPosted, AFailed 1 n =>
      if (n =? t + 1) && ((mx =? 0) || (t + 1 <? mx)) then Some (mkA PFailedPosted (t + 1)) else None
  | PEjectingPosted, AState 6 => if (0 <? mx) && (mx <=? t + 1) then Some (mkA PBrokenState (t + 1)) else None
  | PBallLeft, ASuccess => Some (mkA PConfirmed t)
  | PBallLeft, AState 5 => Some (mkA PFailedConfirm t)
  | PFailedConfirm, ASuccess => Some (mkA PConfirmed t)       (* late confirm *)
  | PFailedConfirm, AFailed 1 n =>
      if n =? t then Some (mkA PLost t)                        (* ball lost: the eject is over *)
      else if (n =? t + 1) && ((mx =? 0) || (t + 1 <? mx)) then Some (mkA PFailedPosted (t + 1))
           (* ball returned, code without fixes/C04-balls-negative-after-confirm.patch: no state change in between *)
      else None
  | PFailedConfirm, AState 3 => Some (mkA PAfterFail t)       (* ball returned / unknown ball: attempt failed *)
  | PFailedConfirm, AState 6 =>                               (* same, unpatched code, attempts exhausted *)
      if (0 <? mx) && (mx <=? t + 1) then Some (mkA PBrokenState (t + 1)) else None
  | PConfirmed, ACountDec => Some (mkA PDone t)
  | PLost, ACountDec => Some (mkA PDone t)
  | PDone, AState 3 => Some (mkA PDone t)
  | PDone, AState 0 => Some (mkA PIdle 0)
  | PDone, AState 1 => Some (mkA PWaitBall 0)                 (* next queued eject, no ball yet *)
  | PDone, AState 2 => Some (mkA PWaitTarget 0)               (* next queued eject *)
  | PAfterFail, AFailed 1 n =>
      if (n =? t + 1) && ((mx =? 0) || (t + 1 <? mx)) then Some (mkA PFailedPosted (t + 1)) else None
  | PAfterFail, AState 6 => if (0 <? mx) && (mx <=? t + 1) then Some (mkA PBrokenState (t + 1)) else None
  | PFailedPosted, AState 2 => Some (mkA PWaitTarget t)
  | PFailedPosted, AState 1 => Some (mkA PWaitBall t)
  | PBrokenState, AFailed 0 n => if n =? t then Some (mkA PBrokenFailed t) else None
  | PBrokenFailed, ABroken => Some (mkA PBroken t)
  | _, _ => None
  end.

Fixpoint arun (mx : Z) (a : astate) (es : list aev) : option astate :=
  match es with
  | [] => Some a
  | e :: es' => match astep mx a e with Some a' => arun mx a' es' | None => None end
  end.

Fixpoint afirst_reject (mx : Z) (a : astate) (es : list aev) (i : Z) : Z :=
  match es with
  | [] => -1
  | e :: es' => match astep mx a e with Some a' => afirst_reject mx a' es' (i + 1) | None => i end
  end.

Definition phase_code (p : phase) : Z :=
  match p with
  | PIdle => 0 | PWaitBall => 1 | PWaitTarget => 2 | PAttempted => 3 | PEjecting => 4 | PEjectingPosted => 5
  | PBallLeft => 6 | PFailedConfirm => 7 | PConfirmed => 8 | PLost => 9 | PAfterFail => 10
  | PFailedPosted => 11 | PDone => 12 | PBrokenState => 13 | PBrokenFailed => 14 | PBroken => 15
  end.

(* correspondence entry point: (index of first rejected event or -1, final phase, final tries) *)
Definition auto_run (i : Z * list aev) : list Z :=
  let '(mx, es) := i in
  match arun mx (mkA PIdle 0) es with
  | Some a => [-1; phase_code (ph a); tries a]
  | None => [afirst_reject mx (mkA PIdle 0) es 0]
  end.
Definition auto_out_eqb (a b : list Z) : bool := zs_eqb a b.
