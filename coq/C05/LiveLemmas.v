(* C05/LiveLemmas.v *)
From Common Require Import Prelude.
From C05 Require Import Model Lemmas Live.
Open Scope Z_scope.

Lemma arun_app mx : forall es1 es2 a, arun mx a (es1 ++ es2) =
  match arun mx a es1 with Some a' => arun mx a' es2 | None => None end.
Proof.
  induction es1 as [|e es1 IH]; intros es2 a; cbn; [reflexivity|].
  destruct (astep mx a e); [apply IH | reflexivity].
Qed.

Lemma not_retry mx n : 0 <= mx -> retry_ok mx n = false -> (0 <? mx) && (mx <=? n + 1) = true.
Proof.
  unfold retry_ok. intros M H. apply orb_false_iff in H as [H1 H2]. apply Z.eqb_neq in H1. apply Z.ltb_ge in H2.
  apply andb_true_iff. split; [apply Z.ltb_lt | apply Z.leb_le]; lia.
Qed.

Ltac go := repeat (progress (cbn [arun app astep ph tries andb orb]; rewrite ?Z.eqb_refl)).

Lemma neq_succ n : (n + 1 =? n) = false.
Proof. apply Z.eqb_neq. lia. Qed.

(* the trace the device produces is a run of the attempt automaton, and it ends where eject_result says *)
Lemma eject_events_accepted mx : 0 <= mx -> forall outs n,
  arun mx (mkA PWaitTarget n) (eject_events mx n outs) = Some (final_state (eject_result mx n outs)).
Proof.
  intros M. induction outs as [|o outs IH]; intros n; [reflexivity|].
  cbn [eject_events eject_result]. rewrite arun_app. unfold attempt_events.
  destruct o; cbn [is_fail andb].
  - go. reflexivity.
  - go. reflexivity.
  - go. reflexivity.
  - unfold fail_tail. destruct (retry_ok mx n) eqn:R.
    + go. unfold retry_ok in R. rewrite R. cbn [andb]. go. apply IH.
    + pose proof (not_retry mx n M R) as B. go. rewrite B. go. reflexivity.
  - unfold fail_tail. destruct (retry_ok mx n) eqn:R.
    + go. unfold retry_ok in R. rewrite R. cbn [andb]. go. apply IH.
    + pose proof (not_retry mx n M R) as B. go. rewrite B. go. reflexivity.
Qed.

(* exact number of attempts: an eject that is broken made exactly max_eject_attempts attempts; one that finished made
   at most that many; counting starts at n *)
Lemma eject_result_bound mx : 0 < mx -> forall outs n, 0 <= n < mx ->
  match eject_result mx n outs with
  | RDone k => n < k <= mx
  | RBroken k => k = mx
  | RPending k => n <= k < mx /\ (Z.of_nat (length outs) = k - n)
  end.
Proof.
  intros M. induction outs as [|o outs IH]; intros n N; cbn [eject_result length].
  - lia.
  - destruct (is_fail o).
    + unfold retry_ok. destruct (mx =? 0) eqn:Z0; [apply Z.eqb_eq in Z0; lia|]. cbn [orb].
      destruct (n + 1 <? mx) eqn:L.
      * apply Z.ltb_lt in L. assert (H : 0 <= n + 1 < mx) by lia. specialize (IH (n + 1) H).
        rewrite ?Nat2Z.inj_succ. destruct (eject_result mx (n + 1) outs); lia.
      * apply Z.ltb_ge in L. lia.
    + lia.
Qed.

(* with a retry limit, a world that keeps answering resolves the eject *)
Lemma eject_resolves_limited mx outs :
  0 < mx -> mx <= Z.of_nat (length outs) ->
  exists k, 0 < k <= mx /\ (eject_result mx 0 outs = RDone k \/ (eject_result mx 0 outs = RBroken k /\ k = mx)).
Proof.
  intros M L. pose proof (eject_result_bound mx M outs 0 ltac:(lia)) as B.
  destruct (eject_result mx 0 outs) as [k|k|k].
  - exists k. split; [lia | left; reflexivity].
  - exists k. split; [lia | right; split; [reflexivity | lia]].
  - lia.
Qed.

(* without a limit ("max_eject_attempts: 0" = retry for ever), fairness = the world eventually lets a ball through:
   the eject finishes with exactly (number of failures before that) + 1 attempts *)
Lemma eject_resolves_unlimited : forall outs n,
  (exists o, In o outs /\ is_fail o = false) ->
  exists pre o post, outs = pre ++ o :: post /\ forallb is_fail pre = true /\ is_fail o = false /\
                     eject_result 0 n outs = RDone (n + Z.of_nat (length pre) + 1).
Proof.
  induction outs as [|o outs IH]; intros n [x [Hx Fx]]; [contradiction|].
  cbn [eject_result]. destruct (is_fail o) eqn:F.
  - destruct Hx as [-> | Hx]; [congruence|].
    destruct (IH (n + 1) (ex_intro _ x (conj Hx Fx))) as (pre & o' & post & E & A & B & C).
    exists (o :: pre), o', post. subst outs. split; [reflexivity|]. split; [cbn; rewrite F; exact A|]. split; [exact B|].
    cbn [retry_ok]. unfold retry_ok. cbn. rewrite C. f_equal. cbn [length]. lia.
  - exists [], o, outs. repeat split; auto. cbn. f_equal. lia.
Qed.

Lemma fair_resolves mx outs : 0 <= mx -> fair mx outs ->
  exists k, eject_result mx 0 outs = RDone k \/ eject_result mx 0 outs = RBroken k.
Proof.
  intros M F. unfold fair in F. destruct (mx =? 0) eqn:Z0.
  - apply Z.eqb_eq in Z0. subst mx. destruct (eject_resolves_unlimited outs 0 F) as (pre & o & post & _ & _ & _ & C).
    eexists. left. exact C.
  - apply Z.eqb_neq in Z0. destruct (eject_resolves_limited mx outs ltac:(lia) F) as [k [_ [C | [C _]]]]; exists k; auto.
Qed.

(* the queue: ejects are served in the order they were queued, one at a time; under a fair world every queued eject
   is finished, or the device has declared itself broken at some eject and everything before it is finished *)
Lemma serve_queue_fifo mx : forall q world,
  exists n, map fst (serve_queue mx q world) = firstn n q.
Proof.
  induction q as [|t q IH]; intros world; [exists 0%nat; reflexivity|].
  destruct world as [|outs world]; [exists 0%nat; reflexivity|]. cbn [serve_queue].
  destruct (eject_result mx 0 outs); try (exists 1%nat; reflexivity).
  destruct (IH world) as [n E]. exists (S n). cbn. rewrite E. reflexivity.
Qed.

Definition is_done (r : result) : bool := match r with RDone _ => true | _ => false end.
Definition is_broken_r (r : result) : bool := match r with RBroken _ => true | _ => false end.

Lemma serve_queue_live mx : 0 <= mx -> forall q world,
  length world = length q -> Forall (fair mx) world ->
  let res := serve_queue mx q world in
  (map fst res = q /\ forallb (fun x => is_done (snd x)) res = true) \/
  (exists done_ t k, res = done_ ++ [(t, RBroken k)] /\ forallb (fun x => is_done (snd x)) done_ = true /\
                     (0 < mx -> k = mx) /\ map fst done_ ++ [t] = firstn (S (length done_)) q).
Proof.
  intros M. induction q as [|t q IH]; intros world L F; [left; destruct world; split; reflexivity|].
  destruct world as [|outs world]; [discriminate|]. inversion F as [|? ? F1 F2]; subst. cbn [serve_queue].
  destruct (fair_resolves mx outs M F1) as [k [C | C]]; rewrite C.
  - cbn in L. injection L as L. destruct (IH world L F2) as [[A B] | (dn & t' & k' & A & B & Cn & D)].
    + left. cbn. rewrite A, B. split; reflexivity.
    + right. exists ((t, RDone k) :: dn), t', k'. cbn [app]. rewrite A. split; [reflexivity|]. split; [cbn; exact B|].
      split; [exact Cn|]. cbn [map fst length firstn app]. cbn in D. rewrite D. reflexivity.
  - right. exists [], t, k. split; [reflexivity|]. split; [reflexivity|]. split; [|reflexivity].
    intros P. pose proof (eject_result_bound mx P outs 0 ltac:(lia)) as B. rewrite C in B. exact B.
Qed.
