(* C05/IdleLoss.v — a ball leaves an idle switch-counted device although nobody ejected it, and an eject of that
   device is requested around the time MPF books the loss.

   Transcribed from BallCountHandler._run / _handle_missing_balls (the count lock is held while it waits
   idle_missing_ball_timeout for further activity), BallDevice.lost_idle_ball, BallDevice.eject ->
   _setup_or_queue_eject_to_target -> setup_eject_chain (available_balls -= 1 at once), and the head of
   OutgoingBallsHandler._ejecting (wait_for_count_is_valid, then has_ball ? eject : waiting_for_ball).
   A device WITHOUT source devices that ejects to the playfield (a lock / saucer); an eject with a ball takes its
   course and is over before the next operation (the attempt automaton of Model.v covers it). *)
From Common Require Import Prelude.
Open Scope Z_scope.

Inductive ost := OIdle | OWaitValid | OWaitBall.

Record lst := mkL {
  phys : Z;        (* balls physically in the device *)
  lcnt : Z;        (* BallCountHandler._ball_count *)
  lavail : Z;      (* available_balls *)
  pfav : Z;        (* balls promised to the playfield by this device (chains + add_missing_balls) *)
  mwait : bool;    (* _handle_missing_balls is waiting (holds _is_counting) *)
  lo : ost;        (* where the outgoing handler is *)
  ejq : nat;       (* ejects queued behind the current one *)
  lreq : Z }.      (* _ball_requests *)

Inductive lop := LLeak | LEject | LTimeout.

(* the count is valid: the current eject goes on; with a ball it is carried out (and so are the queued ones) *)
Fixpoint proceed (n : nat) (s : lst) : lst :=
  if 0 <? lcnt s then
    let s1 := mkL (phys s - 1) (lcnt s - 1) (lavail s) (pfav s) (mwait s) OIdle (ejq s) (lreq s) in
    match n with
    | O => s1
    | S n' => match ejq s with
              | O => s1
              | S q => proceed n' (mkL (phys s1) (lcnt s1) (lavail s1) (pfav s1) (mwait s1) OWaitValid q (lreq s1))
              end
    end
  else mkL (phys s) (lcnt s) (lavail s) (pfav s) (mwait s) OWaitBall (ejq s) (lreq s).

Definition lstep (s : lst) (o : lop) : lst :=
  match o with
  | LLeak =>
      match lo s with
      | OIdle => if 0 <? phys s
                 then mkL (phys s - 1) (lcnt s) (lavail s) (pfav s) true (lo s) (ejq s) (lreq s) else s
      | _ => s          (* not generated: "Lost ball between ejects. Ignoring." *)
      end
  | LEject =>
      if 0 <? lavail s then
        let s1 := mkL (phys s) (lcnt s) (lavail s - 1) (pfav s + 1) (mwait s) (lo s) (ejq s) (lreq s) in
        match lo s with
        | OIdle =>
            if mwait s then mkL (phys s1) (lcnt s1) (lavail s1) (pfav s1) true OWaitValid (ejq s1) (lreq s1)
            else proceed (S (ejq s1)) s1
        | _ => mkL (phys s1) (lcnt s1) (lavail s1) (pfav s1) (mwait s1) (lo s1) (S (ejq s1)) (lreq s1)
        end
      else mkL (phys s) (lcnt s) (lavail s) (pfav s) (mwait s) (lo s) (ejq s) (lreq s + 1)
  | LTimeout =>
      if mwait s then
        let lost := lcnt s - phys s in
        let s1 := mkL (phys s) (phys s) (lavail s - lost) (pfav s + lost) false (lo s) (ejq s) (lreq s) in
        match lo s with
        | OWaitValid => proceed (S (ejq s1)) s1
        | _ => s1
        end
      else s
  end.

Fixpoint lrun (s : lst) (os : list lop) : lst :=
  match os with [] => s | o :: r => lrun (lstep s o) r end.

Definition linit (k : Z) : lst := mkL k k k 0 false OIdle 0 0.

Definition ost_code (o : ost) : Z := match o with OIdle => 0 | OWaitValid => 0 | OWaitBall => 1 end.

(* correspondence entry point: (balls in the device, operations) -> [state (0 idle, 1 waiting_for_ball); counted_balls;
   available_balls; queued requests] *)
Definition idle_run (x : Z * list lop) : list Z :=
  let s := lrun (linit (fst x)) (snd x) in [ost_code (lo s); lcnt s; lavail s; lreq s].

(* histories in which no eject is requested while a loss is being booked *)
Fixpoint guarded (s : lst) (os : list lop) : bool :=
  match os with
  | [] => true
  | o :: r => (match o with LEject => negb (mwait s) | _ => true end) && guarded (lstep s o) r
  end.
