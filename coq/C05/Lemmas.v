(* C05/Lemmas.v *)
From Common Require Import Prelude.
From C05 Require Import Model.
Open Scope Z_scope.

(* ---------------------------------------------------------------------------------------------- *)
(* routing *)
Fixpoint hops_ok (g : graph) (p : list Z) : bool :=
  match p with
  | a :: ((b :: _) as r) => memz b (targets g a) && hops_ok g r
  | _ => true
  end.

Lemma last_default (l : list Z) a b : l <> [] -> last l a = last l b.
Proof.
  induction l as [|e l IH]; intros H; [contradiction H; reflexivity|].
  destruct l as [|e' l']; [reflexivity|]. cbn [last]. cbn [last] in IH. apply IH. discriminate.
Qed.

Lemma last_app_ne (q : list Z) r0 rest x : last (q ++ r0 :: rest) x = last (r0 :: rest) x.
Proof.
  induction q as [|e q IHq]; [reflexivity|]. cbn [app]. 
  change (last (e :: q ++ r0 :: rest) x) with (match q ++ r0 :: rest with [] => e | _ :: _ => last (q ++ r0 :: rest) x end).
  destruct (q ++ r0 :: rest) eqn:Z0; [destruct q; discriminate|]. exact IHq.
Qed.

Definition path_from_to (g : graph) (p : list Z) (d t : Z) : Prop :=
  exists rest, p = d :: rest /\ rest <> [] /\ last p d = t /\ hops_ok g p = true.

Lemma find_path_valid g t : forall fuel d p, find_path fuel g d t = Some p -> path_from_to g p d t.
Proof.
  induction fuel as [|fuel IH]; intros d p H; [discriminate|].
  cbn [find_path] in H.
  destruct (memz t (targets g d)) eqn:M.
  - inversion H; subst. exists [t]. repeat split; try discriminate. cbn. rewrite M. reflexivity.
  - assert (G : forall ts, (forall x, In x ts -> memz x (targets g d) = true) ->
        (fix try (ts : list Z) : option (list Z) :=
           match ts with
           | [] => None
           | t0 :: ts' =>
               if is_pf t0 then try ts'
               else match find_path fuel g t0 t with
                    | Some p => Some (d :: p)
                    | None => try ts'
                    end
           end) ts = Some p -> path_from_to g p d t).
    { induction ts as [|t0 ts IHts]; intros Hin Ht; [discriminate|].
      destruct (is_pf t0).
      - apply IHts; [intros; apply Hin; right; assumption | assumption].
      - destruct (find_path fuel g t0 t) as [q|] eqn:Q.
        + inversion Ht; subst. destruct (IH _ _ Q) as [rest [E [NE [L Hh]]]]. subst q.
          exists (t0 :: rest). split; [reflexivity|]. split; [discriminate|]. split.
          * cbn [last]. cbn [last] in L. destruct rest as [|z0 rest]; [contradiction NE; reflexivity|].
            rewrite (last_default (z0 :: rest) d t0) by discriminate. exact L.
          * cbn [hops_ok]. rewrite (Hin t0 (or_introl eq_refl)). cbn [andb]. exact Hh.
        + apply IHts; [intros; apply Hin; right; assumption | assumption]. }
    apply (G (targets g d)); [|assumption].
    intros x Hx. unfold memz. apply existsb_exists. exists x. split; [assumption | apply Z.eqb_refl].
Qed.

(* a request is never dropped: it is served with a chain that ends at the target, or queued, or refused because the
   target is not reachable at all (the AssertionError of the code) *)
Lemma setup_or_queue_cases fuel g av d t :
  match setup_or_queue fuel g av d t with
  | Served p => (t <> d -> exists q rest, p = q ++ rest /\ rest <> [] /\ last p d = t /\ hops_ok g (d :: rest) = true)
  | Queued => find_available fuel g av d [] = None /\ (av d <= 0 \/ d = t)
  | NoRoute => t <> d /\ find_path fuel g d t = None \/ (exists p, find_available fuel g av d [] = Some p)
  end.
Proof.
  unfold setup_or_queue.
  destruct (find_path fuel g d t) as [p|] eqn:P.
  - destruct (find_path_valid _ _ _ _ _ P) as [rest [E [NE [L Hh]]]]. subst p.
    rewrite andb_false_r. cbn [negb].
    destruct ((0 <? av d) && negb (d =? t)) eqn:C.
    + intros _. exists [d], rest. repeat split; assumption.
    + destruct (find_available fuel g av d []) as [q|] eqn:Q.
      * destruct (t =? d) eqn:T.
        -- intros N. apply Z.eqb_eq in T. contradiction.
        -- intros _. exists q, rest. split; [reflexivity|]. split; [assumption|]. split; [|assumption].
           destruct rest as [|r0 rest]; [contradiction NE; reflexivity|].
           rewrite last_app_ne. exact L.
      * split; [reflexivity|].
        apply andb_false_iff in C as [C|C].
        -- left. apply Z.ltb_ge in C. assumption.
        -- right. apply negb_false_iff in C. apply Z.eqb_eq in C. assumption.
  - destruct (t =? d) eqn:T; cbn [negb andb].
    + apply Z.eqb_eq in T. subst t. rewrite Z.eqb_refl. rewrite andb_false_r.
      destruct (find_available fuel g av d []) as [q|] eqn:Q.
      * intros N. contradiction N; reflexivity.
      * split; [reflexivity | right; reflexivity].
    + left. split; [|reflexivity]. intros E. subst. rewrite Z.eqb_refl in T. discriminate.
Qed.

(* ---------------------------------------------------------------------------------------------- *)
(* automaton *)
Definition is_broken (p : phase) : bool :=
  match p with PBrokenState | PBrokenFailed | PBroken => true | _ => false end.

Definition good (mx : Z) (a : astate) : Prop :=
  0 <= tries a /\ (0 < mx -> if is_broken (ph a) then tries a <= mx else tries a < mx).

Ltac crack H :=
  repeat match type of H with
  | context [match ?x with _ => _ end] => destruct x eqn:?; try discriminate H
  end.

Lemma astep_good mx a e a' : good mx a -> astep mx a e = Some a' -> good mx a'.
Proof.
  intros [G1 G2] H. destruct a as [p t]. cbn [tries ph] in *. unfold astep in H. cbn [tries ph] in H.
  destruct p; cbn [is_broken] in G2; crack H; inversion H; subst a'; clear H; unfold good; cbn [tries ph is_broken];
    repeat match goal with
    | E : _ && _ = true |- _ => apply andb_true_iff in E; destruct E
    | E : _ || _ = true |- _ => apply orb_true_iff in E
    | E : (_ =? _) = true |- _ => apply Z.eqb_eq in E
    | E : (_ <? _) = true |- _ => apply Z.ltb_lt in E
    | E : (_ <=? _) = true |- _ => apply Z.leb_le in E
    end; split; try lia; intros M; try (specialize (G2 M)); try lia;
    repeat match goal with E : _ \/ _ |- _ => destruct E end;
    repeat match goal with E : (_ =? _) = true |- _ => apply Z.eqb_eq in E
                         | E : (_ <? _) = true |- _ => apply Z.ltb_lt in E end; lia.
Qed.

Lemma arun_good mx es : forall a a', good mx a -> arun mx a es = Some a' -> good mx a'.
Proof.
  induction es as [|e es IH]; cbn; intros a a' G H; [inversion H; subst; assumption|].
  destruct (astep mx a e) as [a1|] eqn:E; [|discriminate].
  eapply IH; [eapply astep_good; eassumption | assumption].
Qed.

Lemma good_init mx : good mx (mkA PIdle 0).
Proof. split; cbn; [lia | intros; cbn; lia]. Qed.

Lemma attempt_number_bounded_l mx a n a' :
  good mx a -> astep mx a (AAttempt n) = Some a' -> n = tries a /\ 0 <= n /\ (0 < mx -> n < mx).
Proof.
  intros [G1 G2] H. destruct a as [p t]. cbn [tries ph] in *. unfold astep in H. cbn [tries ph] in H.
  destruct p; try discriminate H. destruct (n =? t) eqn:E; [|discriminate]. apply Z.eqb_eq in E. subst n.
  cbn [is_broken] in G2. repeat split; auto.
Qed.

Lemma exhausted_goes_broken_l mx a :
  0 < mx -> tries a = mx - 1 -> (ph a = PEjectingPosted \/ ph a = PAfterFail) ->
  (forall n, astep mx a (AFailed 1 n) = None) /\ exists a', astep mx a (AState 6) = Some a'.
Proof.
  intros M T P. destruct a as [p t]. cbn [tries ph] in *. subst t.
  assert (L1 : (mx - 1 + 1 <? mx) = false) by (apply Z.ltb_ge; lia).
  assert (L2 : (mx =? 0) = false) by (apply Z.eqb_neq; lia).
  assert (L3 : (0 <? mx) = true) by (apply Z.ltb_lt; lia).
  assert (L4 : (mx <=? mx - 1 + 1) = true) by (apply Z.leb_le; lia).
  destruct P as [-> | ->]; (split; [intros n; unfold astep; cbn [tries ph]; rewrite L1, L2; cbn [orb];
    rewrite andb_false_r; reflexivity | unfold astep; cbn [tries ph]; rewrite L3, L4; cbn [andb]; eexists; reflexivity]).
Qed.

Definition may_rest (p : phase) : bool :=
  match p with PIdle | PBroken | PWaitBall | PAttempted => true | _ => false end.

Lemma no_silent_hang_l mx a : 0 <= mx -> may_rest (ph a) = false -> exists e a', astep mx a e = Some a'.
Proof.
  intros M. destruct a as [p t]. cbn [ph]. intros H.
  assert (F : forall k, ((mx =? 0) || (k <? mx)) = false -> (0 <? mx) && (mx <=? k) = true).
  { intros k C. apply orb_false_iff in C as [C1 C2]. apply Z.eqb_neq in C1. apply Z.ltb_ge in C2.
    apply andb_true_iff. split; [apply Z.ltb_lt | apply Z.leb_le]; lia. }
  destruct p; try discriminate H; unfold astep; cbn [tries ph].
  - exists (AAttempt t). rewrite Z.eqb_refl. eexists; reflexivity.
  - exists (AEjecting t). rewrite Z.eqb_refl. eexists; reflexivity.
  - destruct ((mx =? 0) || (t + 1 <? mx)) eqn:C.
    + exists (AFailed 1 (t + 1)). eexists. cbn. rewrite ?Z.eqb_refl. cbn. rewrite ?C. cbn. reflexivity.
    + exists (AState 6). eexists. cbn. rewrite ?(F _ C). reflexivity.
  - exists (AState 5). eexists; reflexivity.
  - exists (AFailed 1 t). rewrite Z.eqb_refl. eexists; reflexivity.
  - exists ACountDec. eexists; reflexivity.
  - exists ACountDec. eexists; reflexivity.
  - destruct ((mx =? 0) || (t + 1 <? mx)) eqn:C.
    + exists (AFailed 1 (t + 1)). eexists. cbn. rewrite ?Z.eqb_refl. cbn. rewrite ?C. cbn. reflexivity.
    + exists (AState 6). eexists. cbn. rewrite ?(F _ C). reflexivity.
  - exists (AState 2). eexists; reflexivity.
  - exists (AState 0). eexists; reflexivity.
  - exists (AFailed 0 t). rewrite Z.eqb_refl. eexists; reflexivity.
  - exists ABroken. eexists; reflexivity.
Qed.
