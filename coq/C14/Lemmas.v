(* C14/Lemmas.v — proofs about the models of Model.v *)
From Common Require Import Prelude.
From C14 Require Import Crc Model.
Open Scope Z_scope.

Arguments is_addr : simpl never.

(* ========================================================================================== *)
(* finite sweeps over bytes, lifted to universally quantified statements                         *)

Definition all_bytes : list Z := map Z.of_nat (seq 0 256).

Lemma in_all_bytes b : is_byte b -> In b all_bytes.
Proof.
  intros [H1 H2]. unfold all_bytes. rewrite <- (Z2Nat.id b) by lia.
  apply in_map. apply in_seq. lia.
Qed.

Lemma byte_cases (P : Z -> bool) : forallb P all_bytes = true -> forall b, is_byte b -> P b = true.
Proof. intros H b Hb. rewrite forallb_forall in H. apply H, in_all_bytes, Hb. Qed.

Lemma byte_cases2 (P : Z -> Z -> bool) :
  forallb (fun a => forallb (P a) all_bytes) all_bytes = true ->
  forall a b, is_byte a -> is_byte b -> P a b = true.
Proof.
  intros H a b Ha Hb.
  pose proof (byte_cases _ H a Ha) as H1. cbv beta in H1.
  exact (byte_cases _ H1 b Hb).
Qed.

Definition tab (i : Z) : Z := nth (Z.to_nat i) crc_table 0.

Lemma crc_table_is_poly07_l : forall i, is_byte i -> tab i = poly07_byte i.
Proof.
  intros i Hi. apply Z.eqb_eq.
  apply (byte_cases (fun i => tab i =? poly07_byte i)); [vm_compute; reflexivity | exact Hi].
Qed.

Lemma crc_table_length_l : length crc_table = 256%nat.
Proof. vm_compute. reflexivity. Qed.

Lemma tab_byte : forall i, is_byte i -> is_byte (tab i).
Proof.
  intros i Hi.
  pose proof (byte_cases (fun i => is_byteb (tab i)) ltac:(vm_compute; reflexivity) i Hi) as H.
  unfold is_byteb in H. apply andb_true_iff in H as [H1 H2].
  apply Z.leb_le in H1. apply Z.ltb_lt in H2. split; assumption.
Qed.

Lemma tab_inj : forall i j, is_byte i -> is_byte j -> tab i = tab j -> i = j.
Proof.
  intros i j Hi Hj E.
  pose proof (byte_cases2 (fun i j => implb (tab i =? tab j) (i =? j))
                          ltac:(vm_compute; reflexivity) i j Hi Hj) as H.
  cbv beta in H. rewrite E, Z.eqb_refl in H. cbn in H. apply Z.eqb_eq in H. exact H.
Qed.

Lemma xor_byte : forall c b, is_byte c -> is_byte b -> is_byte (Z.lxor c b).
Proof.
  intros c b Hc Hb.
  pose proof (byte_cases2 (fun c b => is_byteb (Z.lxor c b)) ltac:(vm_compute; reflexivity) c b Hc Hb) as H.
  unfold is_byteb in H. apply andb_true_iff in H as [H1 H2].
  apply Z.leb_le in H1. apply Z.ltb_lt in H2. split; assumption.
Qed.

Lemma xor_cancel_r : forall c c' b, Z.lxor c b = Z.lxor c' b -> c = c'.
Proof.
  intros c c' b H. apply (f_equal (fun z => Z.lxor z b)) in H.
  rewrite !Z.lxor_assoc, !Z.lxor_nilpotent, !Z.lxor_0_r in H. exact H.
Qed.

Lemma xor_cancel_l : forall c b b', Z.lxor c b = Z.lxor c b' -> b = b'.
Proof. intros c b b' H. rewrite (Z.lxor_comm c b), (Z.lxor_comm c b') in H. eapply xor_cancel_r; eauto. Qed.

Lemma crc_step_tab c b : crc_step c b = tab (Z.lxor c b).
Proof. reflexivity. Qed.

Lemma crc_step_byte c b : is_byte c -> is_byte b -> is_byte (crc_step c b).
Proof. intros. rewrite crc_step_tab. apply tab_byte, xor_byte; assumption. Qed.

Lemma crc_step_inj_c c c' b :
  is_byte c -> is_byte c' -> is_byte b -> crc_step c b = crc_step c' b -> c = c'.
Proof.
  intros Hc Hc' Hb E. rewrite !crc_step_tab in E.
  apply tab_inj in E; try (apply xor_byte; assumption). eapply xor_cancel_r; eauto.
Qed.

Lemma crc_step_inj_b c b b' :
  is_byte c -> is_byte b -> is_byte b' -> crc_step c b = crc_step c b' -> b = b'.
Proof.
  intros Hc Hb Hb' E. rewrite !crc_step_tab in E.
  apply tab_inj in E; try (apply xor_byte; assumption). eapply xor_cancel_l; eauto.
Qed.

Lemma crc_from_cons c b t : crc_from c (b :: t) = crc_from (crc_step c b) t.
Proof. reflexivity. Qed.

Lemma crc_from_app c x y : crc_from c (x ++ y) = crc_from (crc_from c x) y.
Proof. unfold crc_from. apply fold_left_app. Qed.

Lemma crc_from_byte : forall bs c, is_byte c -> Forall is_byte bs -> is_byte (crc_from c bs).
Proof.
  induction bs as [|b t IH]; intros c Hc Hbs; [exact Hc|].
  inversion Hbs; subst. rewrite crc_from_cons. apply IH; [apply crc_step_byte|]; assumption.
Qed.

Lemma crc_from_inj : forall bs c c',
  Forall is_byte bs -> is_byte c -> is_byte c' -> crc_from c bs = crc_from c' bs -> c = c'.
Proof.
  induction bs as [|b t IH]; intros c c' Hbs Hc Hc' E; [exact E|].
  inversion Hbs; subst. rewrite !crc_from_cons in E.
  apply IH in E; try assumption; try (apply crc_step_byte; assumption).
  eapply crc_step_inj_c; eauto.
Qed.

Lemma crc_init_byte : is_byte crc_init.
Proof. unfold is_byte, crc_init. lia. Qed.

Lemma data_corruption_changes_crc : forall pre b x post,
  Forall is_byte (pre ++ b :: post) -> is_byte x -> x <> b ->
  crc8 (pre ++ x :: post) <> crc8 (pre ++ b :: post).
Proof.
  intros pre b x post HF Hx Hne E. unfold crc8 in E.
  rewrite !crc_from_app, !crc_from_cons in E.
  apply Forall_app in HF as [Hpre Hbp]. inversion Hbp; subst.
  assert (Hc : is_byte (crc_from crc_init pre)) by (apply crc_from_byte; [apply crc_init_byte | assumption]).
  apply crc_from_inj in E; try assumption; try (apply crc_step_byte; assumption).
  apply crc_step_inj_b in E; try assumption. contradiction.
Qed.

Lemma frame_crc_ok_snoc body c : frame_crc_ok (body ++ [c]) = (crc8 body =? c).
Proof. unfold frame_crc_ok. rewrite removelast_last, last_last. reflexivity. Qed.

Lemma single_byte_corruption_detected_l :
  (forall pre b x post c,
      Forall is_byte (pre ++ b :: post) -> is_byte x -> x <> b ->
      frame_crc_ok ((pre ++ b :: post) ++ [c]) = true ->
      frame_crc_ok ((pre ++ x :: post) ++ [c]) = false) /\
  (forall body c c', c' <> c ->
      frame_crc_ok (body ++ [c]) = true -> frame_crc_ok (body ++ [c']) = false).
Proof.
  split.
  - intros pre b x post c HF Hx Hne H. rewrite frame_crc_ok_snoc in *.
    apply Z.eqb_eq in H. apply Z.eqb_neq. rewrite <- H.
    apply data_corruption_changes_crc; assumption.
  - intros body c c' Hne H. rewrite frame_crc_ok_snoc in *.
    apply Z.eqb_eq in H. apply Z.eqb_neq. congruence.
Qed.

(* a concrete 7-byte and 11-byte frame, for the satisfiability examples *)
Definition ex_frame7 : bytes := [32; 8; 0; 0; 0; 5] ++ [crc8 [32; 8; 0; 0; 0; 5]].
Definition ex_frame11 : bytes := [33; 25; 1; 2; 3; 4; 5; 6; 7; 8] ++ [crc8 [33; 25; 1; 2; 3; 4; 5; 6; 7; 8]].

(* ========================================================================================== *)
(* OPP framing: the loop refines the byte automaton                                              *)

Lemma afeed_app : forall x st y,
  afeed st (x ++ y) =
  (fst (afeed (fst (afeed st x)) y), snd (afeed st x) ++ snd (afeed (fst (afeed st x)) y)).
Proof.
  induction x as [|a x IH]; intros st y; cbn [afeed app].
  - cbn. destruct (afeed st y); reflexivity.
  - destruct (astep st a) as [st1 o1]. rewrite IH.
    destruct (afeed st1 x) as [st2 o2]. cbn [fst snd].
    destruct (afeed st2 y) as [st3 o3]. cbn [fst snd]. rewrite app_assoc. reflexivity.
Qed.

Definition spec (s : ost) : ast * list bytes := afeed (ainit (snd s)) (fst s).
Definition ext (s : ost) (ms : list bytes) : ast * list bytes := (fst (spec s), ms ++ snd (spec s)).
Definition settled (s : ost) : Prop := snd (spec s) = [].

Lemma ext_nil s : ext s [] = spec s.
Proof. unfold ext. cbn. destruct (spec s); reflexivity. Qed.

Lemma scan_lost : forall buf, afeed ALost buf = afeed ALost (drop_nonaddr buf).
Proof.
  induction buf as [|b t IH]; [reflexivity|].
  cbn [drop_nonaddr]. destruct (is_addr b) eqn:A; [reflexivity|].
  cbn [afeed astep]. rewrite A. rewrite IH. cbn [app].
  destruct (afeed ALost (drop_nonaddr t)); reflexivity.
Qed.

Lemma drop_nonaddr_head : forall buf b t, drop_nonaddr buf = b :: t -> is_addr b = true.
Proof.
  induction buf as [|x u IH]; intros b t H; [discriminate|].
  cbn [drop_nonaddr] in H. destruct (is_addr x) eqn:A.
  - inversion H; subst. exact A.
  - eapply IH; eauto.
Qed.

Lemma drop_nonaddr_length : forall buf, (length (drop_nonaddr buf) <= length buf)%nat.
Proof.
  induction buf as [|x u IH]; [cbn; lia|].
  cbn [drop_nonaddr]. destruct (is_addr x); cbn [length] in *; lia.
Qed.

Lemma lost_addr_idle b t : is_addr b = true -> afeed ALost (b :: t) = afeed AIdle (b :: t).
Proof. intro A. cbn [afeed astep]. rewrite A. reflexivity. Qed.

Lemma cmds_distinct : (cmd_read_matrix_inp =? cmd_read_gen2_inp) = false.
Proof. reflexivity. Qed.

Ltac ucmd := unfold cmd_read_gen2_inp, cmd_read_matrix_inp, cmd_eom in *.

Lemma step_frame7 b0 d1 d2 d3 d4 d5 r : is_addr b0 = true ->
  afeed AIdle (b0 :: 8 :: d1 :: d2 :: d3 :: d4 :: d5 :: r) =
  (fst (afeed AIdle r), [b0; 8; d1; d2; d3; d4; d5] :: snd (afeed AIdle r)).
Proof. intro A. cbn [afeed astep]. rewrite A. cbn. destruct (afeed AIdle r); reflexivity. Qed.

Lemma step_frame11 b0 d1 d2 d3 d4 d5 d6 d7 d8 d9 r : is_addr b0 = true ->
  afeed AIdle (b0 :: 25 :: d1 :: d2 :: d3 :: d4 :: d5 :: d6 :: d7 :: d8 :: d9 :: r) =
  (fst (afeed AIdle r), [b0; 25; d1; d2; d3; d4; d5; d6; d7; d8; d9] :: snd (afeed AIdle r)).
Proof. intro A. cbn [afeed astep]. rewrite A. cbn. destruct (afeed AIdle r); reflexivity. Qed.

Lemma step_other b0 b1 rest : is_addr b0 = true -> (b1 =? 8) = false -> (b1 =? 25) = false ->
  afeed AIdle (b0 :: b1 :: rest) = afeed ALost rest.
Proof.
  intros A C1 C2. cbn [afeed astep]. rewrite A. cbn [astep]. ucmd. rewrite C1, C2. cbn [app].
  destruct (afeed ALost rest); reflexivity.
Qed.

Lemma step_eom b0 t : is_addr b0 = false -> (b0 =? 255) = true -> afeed AIdle (b0 :: t) = afeed AIdle t.
Proof.
  intros A C. cbn [afeed astep]. ucmd. rewrite A, C. cbn [app]. destruct (afeed AIdle t); reflexivity.
Qed.

Lemma step_junk b0 t : is_addr b0 = false -> (b0 =? 255) = false -> afeed AIdle (b0 :: t) = afeed ALost t.
Proof.
  intros A C. cbn [afeed astep]. ucmd. rewrite A, C. cbn [app]. destruct (afeed ALost t); reflexivity.
Qed.

Lemma loop_spec : forall fuel buf lost,
  spec (buf, lost) = ext (fst (opp_loop fuel buf lost)) (snd (opp_loop fuel buf lost)).
Proof.
  induction fuel as [|f IH]; intros buf lost; cbn [opp_loop].
  - cbn [fst snd]. symmetry. apply ext_nil.
  - ucmd.
    destruct (Nat.leb (length buf) 2) eqn:E; [cbn [fst snd]; symmetry; apply ext_nil|].
    destruct lost.
    + destruct (drop_nonaddr buf) as [|b' t'] eqn:D.
      * rewrite <- IH. unfold spec. cbn [fst snd ainit]. rewrite scan_lost, D. reflexivity.
      * rewrite <- IH. unfold spec. cbn [fst snd ainit]. rewrite scan_lost, D.
        apply lost_addr_idle. eapply drop_nonaddr_head; eauto.
    + destruct buf as [|b0 [|b1 rest]]; try (cbn [fst snd]; symmetry; apply ext_nil).
      destruct (is_addr b0) eqn:A.
      * destruct (b1 =? 8) eqn:C1.
        { destruct (Nat.leb 7 (length (b0 :: b1 :: rest))) eqn:L; [|cbn [fst snd]; symmetry; apply ext_nil].
          apply Nat.leb_le in L. apply Z.eqb_eq in C1. subst b1.
          destruct rest as [|d1 [|d2 [|d3 [|d4 [|d5 r]]]]]; cbn [length] in L; try lia.
          cbn [firstn skipn].
          specialize (IH r false). destruct (opp_loop f r false) as [s ms]. cbn [fst snd] in *.
          unfold spec at 1. cbn [fst snd ainit]. rewrite step_frame7 by exact A.
          unfold spec in IH at 1. cbn [fst snd ainit] in IH. rewrite IH.
          unfold ext. cbn [fst snd app]. reflexivity. }
        destruct (b1 =? 25) eqn:C2.
        { destruct (Nat.leb 11 (length (b0 :: b1 :: rest))) eqn:L; [|cbn [fst snd]; symmetry; apply ext_nil].
          apply Nat.leb_le in L. apply Z.eqb_eq in C2. subst b1.
          destruct rest as [|d1 [|d2 [|d3 [|d4 [|d5 [|d6 [|d7 [|d8 [|d9 r]]]]]]]]]; cbn [length] in L; try lia.
          cbn [firstn skipn].
          specialize (IH r false). destruct (opp_loop f r false) as [s ms]. cbn [fst snd] in *.
          unfold spec at 1. cbn [fst snd ainit]. rewrite step_frame11 by exact A.
          unfold spec in IH at 1. cbn [fst snd ainit] in IH. rewrite IH.
          unfold ext. cbn [fst snd app]. reflexivity. }
        rewrite <- IH. unfold spec. cbn [fst snd ainit]. apply step_other; assumption.
      * destruct (b0 =? 255) eqn:C0.
        { rewrite <- IH. unfold spec. cbn [fst snd ainit]. apply step_eom; assumption. }
        { rewrite <- IH. unfold spec. cbn [fst snd ainit]. apply step_junk; assumption. }
Qed.

Ltac crunch :=
  repeat (cbn [afeed astep fst snd app ainit];
          match goal with |- context[if ?c then _ else _] => destruct c end);
  cbn [afeed astep fst snd app ainit]; try reflexivity.

Lemma short_settled : forall buf lost, (length buf <= 2)%nat -> settled (buf, lost).
Proof.
  intros buf lost H. unfold settled, spec. cbn [fst snd].
  destruct buf as [|a [|b [|c t]]]; cbn [length] in H; try lia; destruct lost; crunch.
Qed.

Lemma incomplete7_settled : forall b0 b1 rest,
  is_addr b0 = true -> (b1 =? 8) = true -> (length (b0 :: b1 :: rest) < 7)%nat ->
  settled (b0 :: b1 :: rest, false).
Proof.
  intros b0 b1 rest A C L. unfold settled, spec. cbn [fst snd ainit afeed astep]. rewrite A.
  cbn [astep]. ucmd. rewrite C.
  destruct rest as [|d1 [|d2 [|d3 [|d4 [|d5 r]]]]]; cbn [length] in L; try lia; reflexivity.
Qed.

Lemma incomplete11_settled : forall b0 b1 rest,
  is_addr b0 = true -> (b1 =? 8) = false -> (b1 =? 25) = true ->
  (length (b0 :: b1 :: rest) < 11)%nat ->
  settled (b0 :: b1 :: rest, false).
Proof.
  intros b0 b1 rest A C1 C L. unfold settled, spec. cbn [fst snd ainit afeed astep]. rewrite A.
  cbn [astep]. ucmd. rewrite C1, C.
  destruct rest as [|d1 [|d2 [|d3 [|d4 [|d5 [|d6 [|d7 [|d8 [|d9 r]]]]]]]]]; cbn [length] in L; try lia; reflexivity.
Qed.

Definition mu (buf : bytes) (lost : bool) : nat := (2 * length buf + (if lost then 1 else 0))%nat.

Lemma loop_settled : forall fuel buf lost,
  (mu buf lost < fuel)%nat -> settled (fst (opp_loop fuel buf lost)).
Proof.
  induction fuel as [|f IH]; intros buf lost M; [lia|].
  cbn [opp_loop]. ucmd.
  destruct (Nat.leb (length buf) 2) eqn:E.
  { apply Nat.leb_le in E. cbn [fst]. apply short_settled. exact E. }
  apply Nat.leb_gt in E.
  destruct lost.
  - destruct (drop_nonaddr buf) as [|b' t'] eqn:D.
    + apply IH. unfold mu in *. cbn [length]. lia.
    + apply IH. pose proof (drop_nonaddr_length buf) as DL. rewrite D in DL.
      unfold mu in *. lia.
  - destruct buf as [|b0 [|b1 rest]]; try (cbn [length] in E; lia).
    destruct (is_addr b0) eqn:A.
    + destruct (b1 =? 8) eqn:C1.
      { destruct (Nat.leb 7 (length (b0 :: b1 :: rest))) eqn:L.
        - apply Nat.leb_le in L.
          pose proof (skipn_length 7 (b0 :: b1 :: rest)) as SL.
          specialize (IH (skipn 7 (b0 :: b1 :: rest)) false).
          destruct (opp_loop f (skipn 7 (b0 :: b1 :: rest)) false) as [s ms]. cbn [fst] in *.
          apply IH. unfold mu in *. lia.
        - apply Nat.leb_gt in L. cbn [fst]. apply incomplete7_settled; assumption. }
      destruct (b1 =? 25) eqn:C2.
      { destruct (Nat.leb 11 (length (b0 :: b1 :: rest))) eqn:L.
        - apply Nat.leb_le in L.
          pose proof (skipn_length 11 (b0 :: b1 :: rest)) as SL.
          specialize (IH (skipn 11 (b0 :: b1 :: rest)) false).
          destruct (opp_loop f (skipn 11 (b0 :: b1 :: rest)) false) as [s ms]. cbn [fst] in *.
          apply IH. unfold mu in *. lia.
        - apply Nat.leb_gt in L. cbn [fst]. apply incomplete11_settled; assumption. }
      apply IH. unfold mu in *. cbn [length] in *. lia.
    + destruct (b0 =? 255); apply IH; unfold mu in *; cbn [length] in *; lia.
Qed.

Lemma opp_feed_settled s c : settled (fst (opp_feed s c)).
Proof. unfold opp_feed. apply loop_settled. unfold mu. destruct (snd s); lia. Qed.

Lemma opp_init_settled : settled opp_init.
Proof. reflexivity. Qed.

Lemma feed_aux fuel buf lost :
  settled (fst (opp_loop fuel buf lost)) ->
  afeed (ainit lost) buf = (abs (fst (opp_loop fuel buf lost)), snd (opp_loop fuel buf lost)).
Proof.
  intro S. pose proof (loop_spec fuel buf lost) as H.
  unfold spec at 1 in H. cbn [fst snd] in H. rewrite H. unfold ext.
  unfold settled in S. rewrite S, app_nil_r. reflexivity.
Qed.

Lemma opp_feed_spec s c :
  afeed (ainit (snd s)) (fst s ++ c) = (abs (fst (opp_feed s c)), snd (opp_feed s c)).
Proof.
  pose proof (opp_feed_settled s c) as S. unfold opp_feed in *. cbv zeta in *.
  apply feed_aux. exact S.
Qed.

Lemma opp_chunks_spec : forall chunks s, settled s ->
  afeed (ainit (snd s)) (fst s ++ concat chunks) =
  (abs (fst (opp_feed_chunks s chunks)), snd (opp_feed_chunks s chunks)).
Proof.
  induction chunks as [|c cs IH]; intros s S.
  - cbn [concat opp_feed_chunks fst snd]. rewrite app_nil_r. unfold abs.
    unfold settled, spec in S. destruct (afeed (ainit (snd s)) (fst s)); cbn in *; subst; reflexivity.
  - cbn [concat opp_feed_chunks].
    pose proof (opp_feed_spec s c) as F. pose proof (opp_feed_settled s c) as S1.
    destruct (opp_feed s c) as [s1 m1]. cbn [fst snd] in *.
    specialize (IH s1 S1). destruct (opp_feed_chunks s1 cs) as [s2 m2]. cbn [fst snd] in *.
    unfold settled, spec in S1.
    rewrite app_assoc, afeed_app. rewrite F. cbn [fst snd].
    rewrite afeed_app in IH. rewrite S1 in IH. cbn [app] in IH.
    change (fst (afeed (ainit (snd s1)) (fst s1))) with (abs s1) in IH.
    injection IH as E1 E2. rewrite E1, E2. reflexivity.
Qed.

Lemma chunking_independent_opp_l : forall s c1 c2, settled s -> concat c1 = concat c2 ->
  snd (opp_feed_chunks s c1) = snd (opp_feed_chunks s c2) /\
  abs (fst (opp_feed_chunks s c1)) = abs (fst (opp_feed_chunks s c2)).
Proof.
  intros s c1 c2 S E.
  pose proof (opp_chunks_spec c1 s S) as H1. pose proof (opp_chunks_spec c2 s S) as H2.
  rewrite E in H1. rewrite H1 in H2. inversion H2. split; congruence.
Qed.

(* two-chunk form, for every state (settled or not) *)
Lemma opp_feed_feed_l : forall s a b,
  snd (opp_feed s a) ++ snd (opp_feed (fst (opp_feed s a)) b) = snd (opp_feed s (a ++ b)) /\
  abs (fst (opp_feed (fst (opp_feed s a)) b)) = abs (fst (opp_feed s (a ++ b))).
Proof.
  intros s a b.
  pose proof (opp_feed_spec s a) as F1. pose proof (opp_feed_settled s a) as S1.
  pose proof (opp_feed_spec (fst (opp_feed s a)) b) as F2.
  pose proof (opp_feed_spec s (a ++ b)) as F12.
  unfold settled, spec in S1.
  rewrite app_assoc, afeed_app, F1 in F12. cbn [fst snd] in F12.
  rewrite afeed_app in F2. rewrite S1 in F2. cbn [app] in F2.
  change (fst (afeed (ainit (snd (fst (opp_feed s a)))) (fst (fst (opp_feed s a))))) with (abs (fst (opp_feed s a))) in F2.
  inversion F2 as [[E1 E2]]. inversion F12 as [[E3 E4]].
  split; congruence.
Qed.

(* the raw carried-over buffer is NOT chunking independent (only its abstraction is) *)
Lemma opp_raw_state_chunking_refuted_l :
  exists c1 c2, concat c1 = concat c2 /\
    fst (opp_feed_chunks opp_init c1) <> fst (opp_feed_chunks opp_init c2).
Proof. exists [[0;0;0;0];[0]], [[0;0;0;0;0]]. split; [reflexivity|]. vm_compute. discriminate. Qed.

(* ========================================================================================== *)
(* OPP resynchronisation                                                                         *)

Definition wf (st : ast) : Prop :=
  match st with AFrame _ n => (1 <= n <= 9)%nat | _ => True end.

Definition boundaryb (st : ast) : bool :=
  match st with ALost | AIdle => true | _ => false end.

Lemma astep_wf st b : wf st -> wf (fst (astep st b)).
Proof.
  destruct st as [| |a|acc n]; cbn [astep]; intro W.
  - destruct (is_addr b); exact I.
  - destruct (is_addr b); [exact I|]. destruct (b =? cmd_eom); exact I.
  - destruct (b =? cmd_read_gen2_inp); [cbn; lia|]. destruct (b =? cmd_read_matrix_inp); cbn; [lia|exact I].
  - destruct n as [|[|n]]; cbn in *; try exact I. lia.
Qed.

Lemma afeed_wf : forall bs st, wf st -> wf (fst (afeed st bs)).
Proof.
  induction bs as [|b t IH]; intros st W; [exact W|].
  cbn [afeed]. pose proof (astep_wf st b W) as W1. destruct (astep st b) as [st1 o1]. cbn [fst] in W1.
  specialize (IH st1 W1). destruct (afeed st1 t). exact IH.
Qed.

Lemma abs_wf s : wf (abs s).
Proof. unfold abs. apply afeed_wf. destruct (snd s); exact I. Qed.

Lemma eom_flush : forall st, wf st ->
  boundaryb (fst (afeed st (repeat cmd_eom 10))) = true /\
  (length (snd (afeed st (repeat cmd_eom 10))) <= 1)%nat.
Proof.
  intros st W. destruct st as [| |a|acc n].
  - split; vm_compute; [reflexivity|lia].
  - split; vm_compute; [reflexivity|lia].
  - split; vm_compute; [reflexivity|lia].
  - cbn in W.
    destruct n as [|[|[|[|[|[|[|[|[|[|n]]]]]]]]]]; try lia;
      (split; [vm_compute; reflexivity | vm_compute; lia]).
Qed.

Inductive frame_shape : bytes -> Prop :=
| fs7 a d1 d2 d3 d4 c : is_addr a = true -> frame_shape [a; cmd_read_gen2_inp; d1; d2; d3; d4; c]
| fs11 a d1 d2 d3 d4 d5 d6 d7 d8 c :
    is_addr a = true -> frame_shape [a; cmd_read_matrix_inp; d1; d2; d3; d4; d5; d6; d7; d8; c].

Lemma frame_from_boundary st f :
  boundaryb st = true -> frame_shape f -> afeed st f = (AIdle, [f]).
Proof.
  intros B S. inversion S as [a d1 d2 d3 d4 c A | a d1 d2 d3 d4 d5 d6 d7 d8 c A]; subst;
    destruct st; try discriminate; cbn [afeed astep]; rewrite A; reflexivity.
Qed.

Lemma eoms_idle : forall k, afeed AIdle (repeat cmd_eom k) = (AIdle, []).
Proof.
  induction k as [|k IH]; [reflexivity|].
  cbn [repeat afeed]. replace (astep AIdle cmd_eom) with (AIdle, @nil bytes) by reflexivity.
  rewrite IH. reflexivity.
Qed.

Definition frames_stream (items : list (bytes * nat)) : bytes :=
  concat (map (fun fk => fst fk ++ repeat cmd_eom (snd fk)) items).

Lemma frames_decoded : forall items st,
  boundaryb st = true -> Forall frame_shape (map fst items) ->
  afeed st (frames_stream items) = (AIdle, map fst items) \/ (items = [] /\ afeed st [] = (st, [])).
Proof.
  induction items as [|[f k] t IH]; intros st B F.
  - right. split; reflexivity.
  - left. unfold frames_stream. cbn [map concat fst snd]. fold (frames_stream t).
    inversion F; subst.
    rewrite <- app_assoc, afeed_app, (frame_from_boundary st f B) by assumption. cbn [fst snd].
    rewrite afeed_app, eoms_idle. cbn [fst snd app].
    destruct (IH AIdle eq_refl H2) as [E | [E1 E2]].
    + rewrite E. reflexivity.
    + subst t. reflexivity.
Qed.

Lemma opp_resync_l : forall s chunks items,
  settled s -> Forall frame_shape (map fst items) -> items <> [] ->
  concat chunks = repeat cmd_eom 10 ++ frames_stream items ->
  exists junk, snd (opp_feed_chunks s chunks) = junk ++ map fst items /\ (length junk <= 1)%nat.
Proof.
  intros s chunks items S F NE E.
  pose proof (opp_chunks_spec chunks s S) as H. rewrite E in H.
  rewrite afeed_app in H. fold (spec s) in H.
  unfold settled in S. rewrite S in H. cbn [app] in H.
  rewrite afeed_app in H. change (fst (spec s)) with (abs s) in H.
  destruct (eom_flush (abs s) (abs_wf s)) as [B L].
  destruct (frames_decoded items _ B F) as [D | [D _]]; [|contradiction].
  rewrite D in H. cbn [fst snd] in H. injection H as E1 E2.
  eexists. split; [symmetry; exact E2 | exact L].
Qed.

(* strong resynchronisation ("every valid frame after the noise is decoded") is false: when the data bytes of
   the reports look like an address/command pair the decoder stays out of step for ever. *)
Definition bad_noise : bytes := [32].
Definition bad_frame : bytes := [32; 8; 33; 8; 0; 0] ++ [crc8 [32; 8; 33; 8; 0; 0]].
Definition bad_tail : bytes := [8; 33; 8; 0; 0; crc8 [32; 8; 33; 8; 0; 0]; 255].
Definition bad_window : bytes := [33; 8; 0; 0; crc8 [32; 8; 33; 8; 0; 0]; 255; 32].

Lemma rotate_repeat {A} (a : A) (y : list A) : forall n,
  concat (repeat (a :: y) n) ++ [a] = a :: concat (repeat (y ++ [a]) n).
Proof.
  induction n as [|n IH]; [reflexivity|].
  cbn [repeat concat]. rewrite <- app_assoc, IH. cbn [app]. rewrite <- app_assoc. reflexivity.
Qed.

Lemma bad_period : forall n st, boundaryb st = true ->
  afeed st (concat (repeat (bad_tail ++ [32]) n)) =
  ((match n with O => st | _ => AIdle end), repeat bad_window n).
Proof.
  induction n as [|n IH]; intros st B; [reflexivity|].
  cbn [repeat concat]. rewrite afeed_app.
  assert (E : afeed st (bad_tail ++ [32]) = (AIdle, [bad_window])) by (destruct st; try discriminate; vm_compute; reflexivity).
  rewrite E. cbn [fst snd]. rewrite (IH AIdle eq_refl). cbn [fst snd app].
  destruct n; reflexivity.
Qed.

Lemma Forall_repeat {A} (P : A -> Prop) x n : P x -> Forall P (repeat x n).
Proof. intro H. induction n; cbn; constructor; assumption. Qed.

Lemma opp_strong_resync_refuted_l :
  exists noise f, frame_shape f /\ frame_crc_ok f = true /\
    forall n, Forall (fun m => frame_crc_ok m = false)
                     (snd (afeed AIdle (noise ++ concat (repeat (f ++ [cmd_eom]) n)))).
Proof.
  exists bad_noise, bad_frame. split; [|split].
  - apply (fs7 32 33 8 0 0). reflexivity.
  - vm_compute. reflexivity.
  - intro n.
    assert (H : Forall (fun m => frame_crc_ok m = false)
                  (snd (afeed AIdle ((bad_noise ++ concat (repeat (bad_frame ++ [cmd_eom]) n)) ++ [32])))).
    { rewrite <- app_assoc.
      change (bad_frame ++ [cmd_eom]) with (32 :: bad_tail).
      rewrite rotate_repeat. unfold bad_noise. cbn [app].
      change (32 :: 32 :: concat (repeat (bad_tail ++ [32]) n))
        with ([32; 32] ++ concat (repeat (bad_tail ++ [32]) n)).
      rewrite afeed_app.
      replace (afeed AIdle [32; 32]) with (ALost, @nil bytes) by (vm_compute; reflexivity).
      cbn [fst snd app]. rewrite (bad_period n ALost eq_refl). cbn [snd].
      apply Forall_repeat. vm_compute. reflexivity. }
    rewrite afeed_app in H. cbn [snd] in H. apply Forall_app in H. tauto.
Qed.

(* ========================================================================================== *)
(* OPP switch state                                                                              *)

Lemma bad_crc_no_state_change_l : forall bd f, frame_crc_ok f = false -> apply_frame bd f = (bd, []).
Proof.
  intros bd f H. unfold apply_frame. destruct f as [|a [|c t]]; try reflexivity. rewrite H. reflexivity.
Qed.

Lemma bad_frames_no_state_change_l : forall fs bd,
  Forall (fun f => frame_crc_ok f = false) fs -> apply_frames bd fs = (bd, []).
Proof.
  induction fs as [|f t IH]; intros bd F; [reflexivity|].
  inversion F; subst. cbn [apply_frames]. rewrite bad_crc_no_state_change_l by assumption.
  rewrite IH by assumption. reflexivity.
Qed.

Lemma aget_aset : forall m k k' v,
  aget k (aset k' v m) =
  if k =? k' then match aget k m with Some _ => Some v | None => None end else aget k m.
Proof.
  induction m as [|[k0 v0] t IH]; intros k k' v; cbn [aget aset].
  - destruct (k =? k'); reflexivity.
  - destruct (k' =? k0) eqn:E0; cbn [aget].
    + apply Z.eqb_eq in E0. subst k0. destruct (k =? k') eqn:E; reflexivity.
    + destruct (k =? k0) eqn:E1.
      * apply Z.eqb_eq in E1. subst k0. destruct (k =? k') eqn:E; [|reflexivity].
        apply Z.eqb_eq in E. subst. rewrite Z.eqb_refl in E0. discriminate.
      * apply IH.
Qed.

Definition frame_val (f : bytes) : Z := be_value (removelast (skipn 2 f)) 0.
Definition frame_addr (f : bytes) : Z := hd 0 f.
Definition is_gen2 (f : bytes) : bool :=
  match f with _ :: c :: _ => c =? cmd_read_gen2_inp | _ => false end.
Definition is_other (f : bytes) : bool :=
  match f with _ :: c :: _ => negb (c =? cmd_read_gen2_inp) | _ => false end.

(* the value of board [a] after a list of delivered frames: the last CRC-valid report addressed to it *)
Definition last_inp (a : Z) (fs : list bytes) (old : Z) : Z :=
  fold_left (fun acc f => if frame_crc_ok f && is_gen2 f && (frame_addr f =? a) then frame_val f else acc) fs old.
Definition last_mat (a : Z) (fs : list bytes) (old : Z) : Z :=
  fold_left (fun acc f => if frame_crc_ok f && is_other f && (frame_addr f =? a) then frame_val f else acc) fs old.

Opaque bit_events be_value frame_crc_ok.

Lemma last_report_wins_inp_l : forall fs bd a old,
  aget a (b_inp bd) = Some old ->
  aget a (b_inp (fst (apply_frames bd fs))) = Some (last_inp a fs old).
Proof.
  induction fs as [|f t IH]; intros bd a old H; [exact H|].
  cbn [apply_frames]. unfold last_inp. cbn [fold_left]. fold (last_inp a t).
  destruct (apply_frame bd f) as [bd1 e1] eqn:AF.
  specialize (IH bd1 a). destruct (apply_frames bd1 t) as [bd2 e2] eqn:AFS. cbn [fst] in *.
  unfold apply_frame in AF.
  destruct f as [|a0 [|c rest]].
  - injection AF as <- <-. cbn [is_gen2]. rewrite andb_false_r. cbn [andb]. apply IH. exact H.
  - injection AF as <- <-. cbn [is_gen2]. rewrite andb_false_r. cbn [andb]. apply IH. exact H.
  - destruct (frame_crc_ok (a0 :: c :: rest)) eqn:CRC; [|injection AF as <- <-; cbn [andb]; apply IH; exact H].
    cbn [is_gen2 frame_addr hd andb].
    destruct (c =? cmd_read_gen2_inp) eqn:C.
    + destruct (aget a0 (b_inp bd)) as [old0|] eqn:G.
      * injection AF as <- <-. cbn [b_inp] in *. cbn [andb].
        destruct (a0 =? a) eqn:EA.
        { apply Z.eqb_eq in EA. subst a0. apply IH. rewrite aget_aset, Z.eqb_refl, H.
          unfold frame_val. cbn [skipn]. reflexivity. }
        { apply IH. rewrite aget_aset. rewrite Z.eqb_sym, EA. exact H. }
      * injection AF as <- <-. cbn [andb].
        destruct (a0 =? a) eqn:EA.
        { apply Z.eqb_eq in EA. subst a0. congruence. }
        { apply IH. exact H. }
    + cbn [andb]. destruct (aget a0 (b_mat bd)); injection AF as <- <-; cbn [b_inp]; apply IH; exact H.
Qed.

Lemma last_report_wins_mat_l : forall fs bd a old,
  aget a (b_mat bd) = Some old ->
  aget a (b_mat (fst (apply_frames bd fs))) = Some (last_mat a fs old).
Proof.
  induction fs as [|f t IH]; intros bd a old H; [exact H|].
  cbn [apply_frames]. unfold last_mat. cbn [fold_left]. fold (last_mat a t).
  destruct (apply_frame bd f) as [bd1 e1] eqn:AF.
  specialize (IH bd1 a). destruct (apply_frames bd1 t) as [bd2 e2] eqn:AFS. cbn [fst] in *.
  unfold apply_frame in AF.
  destruct f as [|a0 [|c rest]].
  - injection AF as <- <-. cbn [is_other]. rewrite andb_false_r. cbn [andb]. apply IH. exact H.
  - injection AF as <- <-. cbn [is_other]. rewrite andb_false_r. cbn [andb]. apply IH. exact H.
  - destruct (frame_crc_ok (a0 :: c :: rest)) eqn:CRC; [|injection AF as <- <-; cbn [andb]; apply IH; exact H].
    cbn [is_other frame_addr hd andb].
    destruct (c =? cmd_read_gen2_inp) eqn:C; cbn [negb andb].
    + destruct (aget a0 (b_inp bd)); injection AF as <- <-; cbn [b_mat]; apply IH; exact H.
    + destruct (aget a0 (b_mat bd)) as [old0|] eqn:G.
      * injection AF as <- <-. cbn [b_mat] in *.
        destruct (a0 =? a) eqn:EA.
        { apply Z.eqb_eq in EA. subst a0. apply IH. rewrite aget_aset, Z.eqb_refl, H.
          unfold frame_val. cbn [skipn]. reflexivity. }
        { apply IH. rewrite aget_aset. rewrite Z.eqb_sym, EA. exact H. }
      * injection AF as <- <-.
        destruct (a0 =? a) eqn:EA.
        { apply Z.eqb_eq in EA. subst a0. congruence. }
        { apply IH. exact H. }
Qed.

Transparent bit_events be_value frame_crc_ok.

(* ========================================================================================== *)
(* delimiter framing (FAST / PKONE)                                                              *)

Lemma split_on_app : forall d x y,
  split_on d (x ++ y) =
  (fst (split_on d x) ++ fst (split_on d (snd (split_on d x) ++ y)),
   snd (split_on d (snd (split_on d x) ++ y))).
Proof.
  induction x as [|b t IH]; intros y.
  - cbn. destruct (split_on d y); reflexivity.
  - cbn [app split_on]. rewrite IH.
    destruct (split_on d t) as [m1 r1]. cbn [fst snd].
    destruct (split_on d (r1 ++ y)) as [m2 r2] eqn:E2. cbn [fst snd].
    destruct (b =? d) eqn:BD.
    + cbn [fst snd app]. rewrite E2. reflexivity.
    + destruct m1 as [|m m1'].
      * cbn [fst snd app split_on]. rewrite E2, BD. cbn [fst snd]. destruct m2; reflexivity.
      * cbn [fst snd app]. rewrite E2. reflexivity.
Qed.

Lemma delim_feed_feed_l : forall d buf a b,
  delim_feed d buf (a ++ b) =
  (fst (delim_feed d buf a) ++ fst (delim_feed d (snd (delim_feed d buf a)) b),
   snd (delim_feed d (snd (delim_feed d buf a)) b)).
Proof. intros. unfold delim_feed. rewrite app_assoc. apply split_on_app. Qed.


(* the rest never contains the delimiter and re-splitting it yields nothing *)
Lemma split_on_rest : forall d x, split_on d (snd (split_on d x)) = ([], snd (split_on d x)).
Proof.
  induction x as [|b t IH]; [reflexivity|].
  cbn [split_on]. destruct (split_on d t) as [m r]. cbn [snd] in *.
  destruct (b =? d) eqn:BD; cbn [snd]; [exact IH|].
  destruct m; cbn [snd].
  - cbn [split_on]. rewrite IH, BD. reflexivity.
  - exact IH.
Qed.

Lemma delim_chunks_l : forall d chunks buf,
  split_on d buf = ([], buf) ->
  delim_feed_chunks d buf chunks = split_on d (buf ++ concat chunks).
Proof.
  intros d chunks. induction chunks as [|c cs IH]; intros buf Hb.
  - cbn. rewrite app_nil_r. symmetry. exact Hb.
  - cbn [delim_feed_chunks concat].
    rewrite app_assoc, split_on_app. unfold delim_feed.
    pose proof (split_on_rest d (buf ++ c)) as R.
    destruct (split_on d (buf ++ c)) as [m1 r1]. cbn [fst snd] in *.
    rewrite (IH r1 R). destruct (split_on d (r1 ++ concat cs)); reflexivity.
Qed.

Lemma chunking_independent_delim_l : forall d c1 c2,
  concat c1 = concat c2 -> delim_feed_chunks d [] c1 = delim_feed_chunks d [] c2.
Proof. intros d c1 c2 E. rewrite !delim_chunks_l by reflexivity. rewrite E. reflexivity. Qed.

(* dispatch with a reader that dies at the first undecodable message *)
Lemma dispatch_app : forall a b,
  dispatch (a ++ b) =
  if snd (dispatch a) then dispatch a
  else (fst (dispatch a) ++ fst (dispatch b), snd (dispatch b)).
Proof.
  induction a as [|m t IH]; intro b.
  - cbn. destruct (dispatch b); reflexivity.
  - cbn [app dispatch]. destruct m as [|x m'].
    + apply IH.
    + destruct (decodable (x :: m')); [|reflexivity].
      rewrite IH. destruct (dispatch t) as [o dd]. cbn [fst snd].
      destruct dd; [reflexivity|]. destruct (dispatch b); reflexivity.
Qed.

Lemma reader_chunks_spec : forall d chunks buf,
  split_on d buf = ([], buf) ->
  reader_chunks d buf chunks = dispatch (fst (split_on d (buf ++ concat chunks))).
Proof.
  intros d chunks. induction chunks as [|c cs IH]; intros buf Hb.
  - cbn. rewrite app_nil_r, Hb. reflexivity.
  - cbn [reader_chunks concat]. rewrite app_assoc, split_on_app. unfold delim_feed.
    pose proof (split_on_rest d (buf ++ c)) as R.
    destruct (split_on d (buf ++ c)) as [m1 r1]. cbn [fst snd] in *.
    rewrite dispatch_app. destruct (dispatch m1) as [o dead]. cbn [fst snd].
    destruct dead; [reflexivity|].
    rewrite (IH r1 R). destruct (dispatch (fst (split_on d (r1 ++ concat cs)))); reflexivity.
Qed.

Lemma chunking_independent_reader_l : forall d c1 c2,
  concat c1 = concat c2 -> reader_chunks d [] c1 = reader_chunks d [] c2.
Proof. intros d c1 c2 E. rewrite !reader_chunks_spec by reflexivity. rewrite E. reflexivity. Qed.

(* one undecodable byte ends the reader: later valid messages are never dispatched *)
Lemma noise_kills_reader_l :
  exists noise, forall later, reader_chunks 13 [] [noise; later] = ([], true).
Proof. exists [200; 13]. intro later. reflexivity. Qed.

(* ========================================================================================== *)
(* FAST writer                                                                                   *)

Lemma drain_fixed_paused : forall q u w,
  drain true q (Some u) w = {| w_queue := q; w_paused := Some u; w_written := w |}.
Proof. destruct q as [|[m c] q']; reflexivity. Qed.

(* all messages ever handed to the writer, in order = written ++ still queued *)
Lemma drain_order : forall fixed q p w,
  map fst (w_written (drain fixed q p w)) ++ map fst (w_queue (drain fixed q p w)) = map fst w ++ map fst q.
Proof.
  induction q as [|[m c] q' IH]; intros p w; cbn [drain].
  - reflexivity.
  - destruct p as [u|].
    + destruct fixed; [reflexivity|].
      rewrite IH. rewrite map_app, <- app_assoc. reflexivity.
    + rewrite IH. rewrite map_app, <- app_assoc. reflexivity.
Qed.

Fixpoint enqueued (ops : list wop) : list Z :=
  match ops with
  | [] => []
  | Enq m _ :: t => m :: enqueued t
  | Rx _ :: t => enqueued t
  end.

Lemma wstep_order : forall fixed s op,
  map fst (w_written (wstep fixed s op)) ++ map fst (w_queue (wstep fixed s op)) =
  (map fst (w_written s) ++ map fst (w_queue s)) ++ enqueued [op].
Proof.
  intros fixed s op. destruct op as [m c | h]; cbn [wstep enqueued].
  - rewrite drain_order, map_app, app_assoc. reflexivity.
  - rewrite drain_order, app_nil_r. reflexivity.
Qed.

Lemma enqueued_app a b : enqueued (a ++ b) = enqueued a ++ enqueued b.
Proof. induction a as [|[m c|h] t IH]; cbn; rewrite ?IH; reflexivity. Qed.

Lemma queue_order_preserved_l : forall fixed ops s,
  let s' := fold_left (wstep fixed) ops s in
  map fst (w_written s') ++ map fst (w_queue s') =
  (map fst (w_written s) ++ map fst (w_queue s)) ++ enqueued ops.
Proof.
  intros fixed ops. induction ops as [|op t IH]; intro s; cbn [fold_left].
  - cbn. rewrite app_nil_r. reflexivity.
  - cbv zeta in *. rewrite IH, wstep_order.
    change (op :: t) with ([op] ++ t). rewrite enqueued_app, app_assoc. reflexivity.
Qed.

(* FIXED writer: while paused nothing is written unless the matching confirmation arrives *)
Definition confirms (op : wop) (u : bytes) : bool :=
  match op with Rx h => zs_prefixb h u | Enq _ _ => false end.

Lemma writer_waits_l : forall s op u,
  w_paused s = Some u -> confirms op u = false ->
  w_written (wstep true s op) = w_written s /\ w_paused (wstep true s op) = Some u.
Proof.
  intros s op u P C. destruct op as [m c | h]; cbn [wstep confirms] in *; rewrite P.
  - rewrite drain_fixed_paused. split; reflexivity.
  - rewrite C. rewrite drain_fixed_paused. split; reflexivity.
Qed.

(* FIXED writer: a confirmed message is always the last thing written in a step, and leaves the writer paused *)
Definition confirmed_only_last (ws : list (Z * option bytes)) : Prop :=
  forall pre x post, ws = pre ++ x :: post -> snd x <> None -> post = [].

Lemma drain_fixed_new : forall q p w,
  exists new, w_written (drain true q p w) = w ++ new /\
    Forall (fun x => snd x = None) (removelast new) /\
    (forall u, snd (last new (0, None)) = Some u -> w_paused (drain true q p w) = Some u) /\
    (new = [] -> w_paused (drain true q p w) = p).
Proof.
  induction q as [|[m c] q' IH]; intros p w; cbn [drain].
  - exists []. split; [rewrite app_nil_r; reflexivity|]. split; [constructor|].
    split; [intros u E; cbn in E; discriminate | intros _; reflexivity].
  - destruct p as [u|].
    + exists []. split; [rewrite app_nil_r; reflexivity|]. split; [constructor|].
      split; [intros u' E; cbn in E; discriminate | intros _; reflexivity].
    + destruct c as [u|].
      * rewrite drain_fixed_paused. cbn [w_written w_paused]. exists [(m, Some u)].
        split; [reflexivity|]. split; [cbn; constructor|].
        split; [intros u' E; cbn in E; injection E as ->; reflexivity | intro X; discriminate].
      * destruct (IH None (w ++ [(m, None)])) as [new [E [F [L N]]]].
        exists ((m, None) :: new). split; [rewrite E, <- app_assoc; reflexivity|].
        split.
        { destruct new as [|y new']; [constructor|]. cbn [removelast]. constructor; [reflexivity|exact F]. }
        split.
        { intros u. destruct new as [|y new']; [cbn; discriminate|]. cbn [last]. apply L. }
        { discriminate. }
Qed.

(* LEGACY writer (code as found): the pause never blocks *)
Lemma legacy_writer_never_waits_l :
  exists ops, let s := wrun false ops in
    map fst (w_written s) = [1; 2] /\ w_paused s = Some [65; 65; 58].
Proof. exists [Enq 1 (Some [65; 65; 58]); Enq 2 None]. vm_compute. split; reflexivity. Qed.

Lemma legacy_drain_empties : forall q p w, w_queue (drain false q p w) = [].
Proof. induction q as [|[m c] q' IH]; intros p w; cbn [drain]; [reflexivity|]. destruct p; apply IH. Qed.

(* ========================================================================================== *)
(* FAST switch reports                                                                           *)

Lemma fget_fstep : forall m n op,
  fget n (fstep m op) =
  match fget n m with Some (inv, st) => Some (inv, fupd n inv st op) | None => None end.
Proof.
  induction m as [|[k [inv st]] t IH]; intros n op; [reflexivity|].
  cbn [fstep map fget fst snd]. destruct (n =? k) eqn:E.
  - apply Z.eqb_eq in E. subst k. reflexivity.
  - apply IH.
Qed.

Lemma last_report_wins_fast_l : forall ops m n inv st0,
  fget n m = Some (inv, st0) ->
  fget n (fold_left fstep ops m) = Some (inv, last_fast n inv ops st0).
Proof.
  induction ops as [|op t IH]; intros m n inv st0 H; [exact H|].
  cbn [fold_left]. unfold last_fast. cbn [fold_left]. fold (last_fast n inv t).
  apply IH. rewrite fget_fstep, H. reflexivity.
Qed.

(* a snapshot decides every configured switch on its own: earlier reports are irrelevant *)
Lemma snapshot_decides_l : forall pre bits m n inv st0,
  fget n m = Some (inv, st0) ->
  fget n (fold_left fstep (pre ++ [FSnap bits]) m) =
  Some (inv, Z.lxor (if inv then 1 else 0) (nth (Z.to_nat n) bits 0)).
Proof.
  intros pre bits m n inv st0 H. rewrite (last_report_wins_fast_l _ _ _ _ _ H).
  unfold last_fast. rewrite fold_left_app. reflexivity.
Qed.

(* ========================================================================================== *)
(* satisfiability examples (hypotheses of the theorems in Props.v hold on non-trivial states)     *)

Example ex_frames_crc_ok : frame_crc_ok ex_frame7 = true /\ frame_crc_ok ex_frame11 = true /\
  length ex_frame7 = 7%nat /\ length ex_frame11 = 11%nat /\ Forall is_byte (removelast ex_frame7).
Proof. repeat split; try (vm_compute; reflexivity). vm_compute. repeat constructor; discriminate. Qed.

Example ex_corruption_detected :
  frame_crc_ok ([32; 8; 0; 0; 0; 4] ++ [last ex_frame7 0]) = false.
Proof. vm_compute. reflexivity. Qed.

Example ex_opp_split_frame :
  settled opp_init /\
  snd (opp_feed_chunks opp_init [[32; 8; 0]; [0; 0; 5]; [last ex_frame7 0; 255]]) = [ex_frame7] /\
  snd (opp_feed_chunks opp_init [[0; 77; 33; 25; 1; 2; 3; 4; 5; 6]; [7; 8; last ex_frame11 0] ++ ex_frame7]) =
    [ex_frame11; ex_frame7].
Proof. split; [reflexivity|]. split; vm_compute; reflexivity. Qed.

Example ex_opp_resync :
  frame_shape ex_frame7 /\ frame_shape ex_frame11 /\
  snd (opp_feed_chunks opp_init [[32; 8; 1; 2] ++ repeat 255 10 ++ ex_frame7 ++ [255] ++ ex_frame11]) =
    [[32; 8; 1; 2; 255; 255; 255]] ++ [ex_frame7; ex_frame11].
Proof.
  split; [apply (fs7 32 0 0 0 5); reflexivity|].
  split; [apply (fs11 33 1 2 3 4 5 6 7 8); reflexivity|]. vm_compute. reflexivity.
Qed.

Example ex_last_report :
  let bd := {| b_inp := [(32, 0); (34, 0)]; b_mat := [(33, 0)] |} in
  aget 32 (b_inp bd) = Some 0 /\
  aget 32 (b_inp (fst (apply_frames bd [ex_frame7; [32; 8; 0; 0; 0; 4; 0]; ex_frame11]))) = Some 5 /\
  aget 33 (b_mat (fst (apply_frames bd [ex_frame7; ex_frame11]))) = Some 72623859790382856.
Proof. vm_compute. repeat split; reflexivity. Qed.

Example ex_reader :
  reader_chunks 13 [] [[65; 66]; [58; 13; 13; 67]; [13]] = ([[65; 66; 58]; [67]], false) /\
  reader_chunks 69 [] [[80; 83; 65]; [69; 80]] = ([[80; 83; 65]], false).
Proof. split; reflexivity. Qed.

Example ex_writer_paused :
  let s := wrun true [Enq 1 (Some [65; 65; 58]); Enq 2 None; Rx [66; 66; 58]] in
  w_paused s = Some [65; 65; 58] /\ map fst (w_written s) = [1] /\ map fst (w_queue s) = [2] /\
  map fst (w_written (wstep true s (Rx [65; 65; 58]))) = [1; 2].
Proof. vm_compute. repeat split; reflexivity. Qed.

Example ex_fast_switches :
  let m := [(1, (false, 0)); (3, (true, 0)); (40, (false, 1))] in
  let s := [1; 1; 0; 1] ++ repeat 0 108 in
  fget 3 m = Some (true, 0) /\
  ftrace m [FSnap s; FClosed 3; FOpen 1; FClosed 80; FSnap s] =
    [[1; 0; 0]; [1; 1; 0]; [0; 1; 0]; [0; 1; 0]; [1; 0; 0]].
Proof. vm_compute. split; reflexivity. Qed.
