(* C14/Route2.v — _dispatch_incoming_msg of every FAST processor, complete observable effect of one read sequence:
   which processors are called with which payload, whether a pause (pause_sending(u) before the reads) has been lifted
   (an IGNORED message never lifts it) and whether no_response_waiting has been set (any processed message) *)
From Common Require Import Prelude.
From C14 Require Import Crc Model Links.
Open Scope Z_scope.

Definition lifts (p : fastproc) (u : list Z) (msg : list Z) : bool :=
  negb (existsb (zs_eqb msg) (fast_ignored p)) && zs_prefixb (firstn 3 msg) u.

Definition routedb (p : fastproc) (msg : list Z) : bool :=
  match route p msg with Some _ => true | None => false end.

Definition fast_effect (p : fastproc) (u : list Z) (chunks : list (list Z)) :
  (list (list Z * list Z) * bool) * (bool * bool) :=
  let '(ms, dead) := reader_chunks 13 [] chunks in
  ((routes p ms, dead), (existsb (lifts p u) ms, existsb (routedb p) ms)).

Inductive route_in2 :=
| R2Fast (p : fastproc) (pause : list Z) (chunks : list (list Z))
| R2Pkone (n mx : Z) (chunks : list (list Z)).

Record route_out2 := { r2_calls : list (list Z * list Z); r2_dead : bool; r2_n : Z; r2_ready : bool;
                       r2_resumed : bool; r2_nrw : bool }.

Definition route2_run (i : route_in2) : route_out2 :=
  match i with
  | R2Fast p u chunks =>
      let '((r, dead), (res, nrw)) := fast_effect p u chunks in
      {| r2_calls := r; r2_dead := dead; r2_n := 0; r2_ready := false; r2_resumed := res; r2_nrw := nrw |}
  | R2Pkone n mx chunks =>
      let '(n', rd) := pk_inflight n mx chunks in
      {| r2_calls := []; r2_dead := false; r2_n := n'; r2_ready := rd; r2_resumed := false; r2_nrw := false |}
  end.

Definition route2_out_eqb (a b : route_out2) : bool :=
  list_eqb route_eqb (r2_calls a) (r2_calls b) && Bool.eqb (r2_dead a) (r2_dead b) && (r2_n a =? r2_n b) &&
  Bool.eqb (r2_ready a) (r2_ready b) && Bool.eqb (r2_resumed a) (r2_resumed b) && Bool.eqb (r2_nrw a) (r2_nrw b).
