(* C14/Model.v — executable models (definitions only) of
     - OPP   opp_serial_communicator.py::_parse_msg (length framing, _lost_synch), opp_rs232_intf.py CRC8
             (table TRANSLATED into gen/Crc.v), opp.py::read_gen2_inp_resp / read_matrix_inp_resp
     - FAST  communicators/base.py::parse_incoming_raw_bytes (split on CR) and the writer flow control
             (_socket_writer / pause_sending / _dispatch_incoming_msg / _resume_sending), FIXED variant
             (fixes/C14-fast-writer-wait.patch) and LEGACY variant (code as found)
     - PKONE pkone_serial_communicator.py::_parse_msg (split on 'E')
   Bytes are Z in [0,256).  *)
From Common Require Import Prelude.
From C14 Require Import Crc.
Open Scope Z_scope.

Notation bytes := (list Z) (only parsing).
Definition is_byte (b : Z) : Prop := 0 <= b < 256.
Definition is_byteb (b : Z) : bool := (0 <=? b) && (b <? 256).

(* ------------------------------------------------------------------------------------------ *)
(* CRC8 (opp_rs232_intf.py calc_crc8_whole_msg / calc_crc8_part_msg: same loop)                 *)

Definition crc_step (c b : Z) : Z := nth (Z.to_nat (Z.lxor c b)) crc_table 0.
Definition crc_from (c : Z) (bs : bytes) : Z := fold_left crc_step bs c.
Definition crc8 (bs : bytes) : Z := crc_from crc_init bs.

(* bitwise definition of CRC-8 with polynomial x^8+x^2+x+1 (0x07), one byte *)
Definition poly_shift (c : Z) : Z :=
  if Z.testbit c 7 then Z.land (Z.lxor (Z.shiftl c 1) 7) 255 else Z.land (Z.shiftl c 1) 255.
Definition poly07_byte (c : Z) : Z :=
  poly_shift (poly_shift (poly_shift (poly_shift (poly_shift (poly_shift (poly_shift (poly_shift c))))))).

(* a complete frame as delivered by the framing layer: last byte is the CRC of the others
   (read_gen2_inp_resp: crc over msg[0:6] against msg[6]; read_matrix_inp_resp: msg[0:10] against msg[10];
   the framing layer only ever delivers exactly 7 resp. 11 bytes) *)
Definition frame_crc_ok (f : bytes) : bool := crc8 (removelast f) =? last f 0.

(* ------------------------------------------------------------------------------------------ *)
(* OPP framing: the loop of _parse_msg as written                                               *)

Definition is_addr (b : Z) : bool := Z.land b 224 =? 32.          (* (b & 0xe0) == 0x20 *)

Fixpoint drop_nonaddr (l : bytes) : bytes :=
  match l with
  | [] => []
  | b :: t => if is_addr b then l else drop_nonaddr t
  end.

(* one call of the outer `while strlen > 2` loop per unit of fuel.  State: part_msg, _lost_synch *)
Fixpoint opp_loop (fuel : nat) (buf : bytes) (lost : bool) : (bytes * bool) * list bytes :=
  match fuel with
  | O => ((buf, lost), [])
  | S f =>
      if Nat.leb (length buf) 2 then ((buf, lost), [])
      else if lost then
        (* inner `while strlen > 0` scan; note it runs down to an empty buffer *)
        match drop_nonaddr buf with
        | [] => opp_loop f [] true
        | b' => opp_loop f b' false
        end
      else
        match buf with
        | b0 :: b1 :: rest =>
            if is_addr b0 then
              if b1 =? cmd_read_gen2_inp then
                if Nat.leb 7 (length buf) then
                  let '(s, ms) := opp_loop f (skipn 7 buf) false in (s, firstn 7 buf :: ms)
                else ((buf, lost), [])
              else if b1 =? cmd_read_matrix_inp then
                if Nat.leb 11 (length buf) then
                  let '(s, ms) := opp_loop f (skipn 11 buf) false in (s, firstn 11 buf :: ms)
                else ((buf, lost), [])
              else opp_loop f rest true
            else if b0 =? cmd_eom then opp_loop f (b1 :: rest) false
            else opp_loop f (b1 :: rest) true
        | _ => ((buf, lost), [])
        end
  end.

Notation ost := (list Z * bool)%type (only parsing).
Definition opp_init : ost := ([], false).

Definition opp_feed (s : ost) (chunk : bytes) : ost * list bytes :=
  let buf := fst s ++ chunk in
  opp_loop (2 * length buf + 2) buf (snd s).

Fixpoint opp_feed_chunks (s : ost) (chunks : list bytes) : ost * list bytes :=
  match chunks with
  | [] => (s, [])
  | c :: cs =>
      let '(s1, m1) := opp_feed s c in
      let '(s2, m2) := opp_feed_chunks s1 cs in (s2, m1 ++ m2)
  end.

(* specification automaton: one byte at a time *)
Inductive ast :=
| ALost
| AIdle
| AAddr (a : Z)
| AFrame (acc : bytes) (need : nat).     (* acc reversed; need >= 1 more bytes *)

Definition astep (st : ast) (b : Z) : ast * list bytes :=
  match st with
  | ALost => if is_addr b then (AAddr b, []) else (ALost, [])
  | AIdle => if is_addr b then (AAddr b, [])
             else if b =? cmd_eom then (AIdle, []) else (ALost, [])
  | AAddr a => if b =? cmd_read_gen2_inp then (AFrame [b; a] 5, [])
               else if b =? cmd_read_matrix_inp then (AFrame [b; a] 9, [])
               else (ALost, [])
  | AFrame acc need =>
      match need with
      | S (S n) => (AFrame (b :: acc) (S n), [])
      | _ => (AIdle, [List.rev (b :: acc)])
      end
  end.

Fixpoint afeed (st : ast) (bs : bytes) : ast * list bytes :=
  match bs with
  | [] => (st, [])
  | b :: t =>
      let '(st1, o1) := astep st b in
      let '(st2, o2) := afeed st1 t in (st2, o1 ++ o2)
  end.

Definition ainit (lost : bool) : ast := if lost then ALost else AIdle.
Definition abs (s : ost) : ast := fst (afeed (ainit (snd s)) (fst s)).

(* ------------------------------------------------------------------------------------------ *)
(* OPP input handling: read_gen2_inp_resp / read_matrix_inp_resp after framing                  *)

Fixpoint be_value (bs : bytes) (acc : Z) : Z :=
  match bs with [] => acc | b :: t => be_value t (acc * 256 + b) end.

Definition amap := list (Z * Z).        (* board address -> old_state *)
Fixpoint aget (k : Z) (m : amap) : option Z :=
  match m with [] => None | (k', v) :: t => if k =? k' then Some v else aget k t end.
Fixpoint aset (k v : Z) (m : amap) : amap :=
  match m with [] => [] | (k', v') :: t => if k =? k' then (k', v) :: t else (k', v') :: aset k v t end.

Record boards := { b_inp : amap; b_mat : amap }.

(* switch events: (address, input index, state) for every bit that differs, ascending;
   active low: state 1 when the new bit is 0 *)
Fixpoint bit_events (addr : Z) (old new : Z) (base : Z) (idx : Z) (n : nat) : list (Z * Z * Z) :=
  match n with
  | O => []
  | S n' =>
      let rest := bit_events addr old new base (idx + 1) n' in
      if Bool.eqb (Z.testbit old idx) (Z.testbit new idx) then rest
      else (addr, base + idx, if Z.testbit new idx then 0 else 1) :: rest
  end.

Definition apply_frame (bd : boards) (f : bytes) : boards * list (Z * Z * Z) :=
  match f with
  | a :: c :: data_crc =>
      if frame_crc_ok f then
        let data := removelast data_crc in
        let v := be_value data 0 in
        if c =? cmd_read_gen2_inp then
          match aget a (b_inp bd) with
          | Some old => ({| b_inp := aset a v (b_inp bd); b_mat := b_mat bd |}, bit_events a old v 0 0 32)
          | None => (bd, [])
          end
        else
          match aget a (b_mat bd) with
          | Some old => ({| b_inp := b_inp bd; b_mat := aset a v (b_mat bd) |}, bit_events a old v 32 0 64)
          | None => (bd, [])
          end
      else (bd, [])
  | _ => (bd, [])
  end.

Fixpoint apply_frames (bd : boards) (fs : list bytes) : boards * list (Z * Z * Z) :=
  match fs with
  | [] => (bd, [])
  | f :: t => let '(bd1, e1) := apply_frame bd f in
              let '(bd2, e2) := apply_frames bd1 t in (bd2, e1 ++ e2)
  end.

(* ------------------------------------------------------------------------------------------ *)
(* delimiter framing (FAST: CR = 13, PKONE: 'E' = 69): complete messages and the carried-over rest *)

Fixpoint split_on (d : Z) (bs : bytes) : list bytes * bytes :=
  match bs with
  | [] => ([], [])
  | b :: t =>
      let '(ms, r) := split_on d t in
      if b =? d then ([] :: ms, r)
      else match ms with
           | [] => ([], b :: r)
           | m :: ms' => ((b :: m) :: ms', r)
           end
  end.

Definition delim_feed (d : Z) (buf chunk : bytes) : list bytes * bytes := split_on d (buf ++ chunk).

Fixpoint delim_feed_chunks (d : Z) (buf : bytes) (chunks : list bytes) : list bytes * bytes :=
  match chunks with
  | [] => ([], buf)
  | c :: cs =>
      let '(m1, r1) := delim_feed d buf c in
      let '(m2, r2) := delim_feed_chunks d r1 cs in (m1 ++ m2, r2)
  end.

(* what the reader does with the complete messages: FAST skips empty ones; a message that does not decode
   (model domain: a byte >= 128, see harness) raises out of the reader, which ends the read task: nothing after it
   is dispatched.  PKONE: same shape (empty skipped, msg.decode() raises). *)
Definition decodable (m : bytes) : bool := forallb (fun b => b <? 128) m.

Fixpoint dispatch (ms : list bytes) : list bytes * bool :=     (* dispatched, reader died *)
  match ms with
  | [] => ([], false)
  | m :: t =>
      match m with
      | [] => dispatch t
      | _ => if decodable m then let '(o, d) := dispatch t in (m :: o, d) else ([], true)
      end
  end.

(* reader task fed chunk by chunk; once dead nothing is processed any more *)
Fixpoint reader_chunks (d : Z) (buf : bytes) (chunks : list bytes) : list bytes * bool :=
  match chunks with
  | [] => ([], false)
  | c :: cs =>
      let '(ms, r) := delim_feed d buf c in
      let '(o, dead) := dispatch ms in
      if dead then (o, true)
      else let '(o2, dead2) := reader_chunks d r cs in (o ++ o2, dead2)
  end.

(* ------------------------------------------------------------------------------------------ *)
(* FAST writer flow control.  Messages are identified by a number; a confirmed message carries the header text
   it waits for (pause_sending_until).  An incoming message resumes the writer when
   pause_sending_until.startswith(msg[:3]).                                                       *)

Inductive wop :=
| Enq (m : Z) (confirm : option bytes)      (* send_and_forget / send_with_confirmation *)
| Rx (hdr : bytes).                         (* _dispatch_incoming_msg with msg[:3] = hdr *)

Record wst := { w_queue : list (Z * option bytes);
                w_paused : option bytes;          (* Some u <-> pause_sending_flag set, until = u *)
                w_written : list (Z * option bytes) }.   (* newest last *)

Definition w_init : wst := {| w_queue := []; w_paused := None; w_written := [] |}.

(* the writer task runs until it blocks: on an empty queue, or (FIXED) on the pause *)
Fixpoint drain (fixed : bool) (q : list (Z * option bytes)) (paused : option bytes)
         (written : list (Z * option bytes)) : wst :=
  match q with
  | [] => {| w_queue := []; w_paused := paused; w_written := written |}
  | (m, c) :: q' =>
      match paused with
      | Some u =>
          if fixed then {| w_queue := q; w_paused := paused; w_written := written |}
          else (* LEGACY: `await pause_sending_flag.wait()` returns at once because the flag is set *)
            drain fixed q' (match c with Some u' => Some u' | None => paused end) (written ++ [(m, c)])
      | None => drain fixed q' c (written ++ [(m, c)])
      end
  end.

Definition wstep (fixed : bool) (s : wst) (op : wop) : wst :=
  match op with
  | Enq m c => drain fixed (w_queue s ++ [(m, c)]) (w_paused s) (w_written s)
  | Rx h =>
      let paused' := match w_paused s with
                     | Some u => if zs_prefixb h u then None else Some u
                     | None => None
                     end in
      drain fixed (w_queue s) paused' (w_written s)
  end.

Definition wrun (fixed : bool) (ops : list wop) : wst := fold_left (wstep fixed) ops w_init.

(* per-step trace of what was written, for the correspondence check *)
Fixpoint wtrace (fixed : bool) (s : wst) (ops : list wop) : list (list Z * bool) :=
  match ops with
  | [] => []
  | op :: t =>
      let s' := wstep fixed s op in
      (map fst (skipn (length (w_written s)) (w_written s')),
       match w_paused s' with Some _ => true | None => false end) :: wtrace fixed s' t
  end.

(* ------------------------------------------------------------------------------------------ *)
(* FAST Neuron/Nano switch reports (net_neuron.py): `SA:` snapshots (_process_sa -> update_switches_from_hw_data:
   logical = invert xor raw bit, for every configured switch) and `-L:`/`/L:` (Nano: `-N:`/`/N:`) events
   (_process_switch_closed/_open -> process_switch_by_num(logical=True): logical state 1 / 0, unknown numbers
   ignored).  State: configured switch number -> (invert, logical state), as held by the SwitchController.   *)

Inductive fop :=
| FSnap (bits : list Z)          (* raw bit per switch number, LSB-first per byte, as decoded by _process_sa *)
| FClosed (n : Z)
| FOpen (n : Z).

Definition fupd (n : Z) (inv : bool) (st : Z) (op : fop) : Z :=
  match op with
  | FSnap bits => Z.lxor (if inv then 1 else 0) (nth (Z.to_nat n) bits 0)
  | FClosed k => if k =? n then 1 else st
  | FOpen k => if k =? n then 0 else st
  end.

Definition fsw := list (Z * (bool * Z)).

Definition fstep (m : fsw) (op : fop) : fsw :=
  map (fun e => (fst e, (fst (snd e), fupd (fst e) (fst (snd e)) (snd (snd e)) op))) m.

Fixpoint fget (n : Z) (m : fsw) : option (bool * Z) :=
  match m with [] => None | (k, v) :: t => if n =? k then Some v else fget n t end.

(* what the last report about switch n says, given its state before the reports *)
Definition last_fast (n : Z) (inv : bool) (ops : list fop) (st0 : Z) : Z :=
  fold_left (fun st op => fupd n inv st op) ops st0.

Fixpoint ftrace (m : fsw) (ops : list fop) : list (list Z) :=
  match ops with
  | [] => []
  | op :: t => let m' := fstep m op in map (fun e => snd (snd e)) m' :: ftrace m' t
  end.

Definition fastsw_run (i : fsw * list fop) : list (list Z) := ftrace (fst i) (snd i).
Definition fastsw_out_eqb (a b : list (list Z)) : bool := zss_eqb a b.

(* ------------------------------------------------------------------------------------------ *)
(* glue for the correspondence check *)

Definition ev_eqb (a b : Z * Z * Z) : bool :=
  let '(a1, a2, a3) := a in let '(b1, b2, b3) := b in (a1 =? b1) && (a2 =? b2) && (a3 =? b3).
Definition kv_eqb (a b : Z * Z) : bool := (fst a =? fst b) && (snd a =? snd b).

Record opp_out := { oo_frames : list bytes; oo_events : list (Z * Z * Z); oo_inp : amap; oo_mat : amap;
                    oo_buf : bytes; oo_lost : bool }.

Definition opp_run (i : (amap * amap) * list bytes) : opp_out :=
  let '((inp, mat), chunks) := i in
  let '(s, frames) := opp_feed_chunks opp_init chunks in
  let '(bd, evs) := apply_frames {| b_inp := inp; b_mat := mat |} frames in
  {| oo_frames := frames; oo_events := evs; oo_inp := b_inp bd; oo_mat := b_mat bd;
     oo_buf := fst s; oo_lost := snd s |}.

Definition opp_out_eqb (a b : opp_out) : bool :=
  zss_eqb (oo_frames a) (oo_frames b) && list_eqb ev_eqb (oo_events a) (oo_events b) &&
  list_eqb kv_eqb (oo_inp a) (oo_inp b) && list_eqb kv_eqb (oo_mat a) (oo_mat b) &&
  zs_eqb (oo_buf a) (oo_buf b) && Bool.eqb (oo_lost a) (oo_lost b).

(* delimiter readers: (delimiter, ignored messages, chunks) -> messages handed on, died, carried-over buffer (when
   alive).  PKONE drops the messages listed in ignored_messages ('PWD') after decoding them. *)
Definition reader_run (i : (Z * list bytes) * list bytes) : (list bytes * bool) * bytes :=
  let '((d, ign), chunks) := i in
  let '(o, dead) := reader_chunks d [] chunks in
  (filter (fun m => negb (existsb (zs_eqb m) ign)) o, dead,
   if dead then [] else snd (delim_feed_chunks d [] chunks)).

Definition reader_out_eqb (a b : (list bytes * bool) * bytes) : bool :=
  zss_eqb (fst (fst a)) (fst (fst b)) && Bool.eqb (snd (fst a)) (snd (fst b)) && zs_eqb (snd a) (snd b).

Definition writer_run (i : bool * list wop) : list (list Z * bool) := wtrace (fst i) w_init (snd i).
Definition writer_out_eqb (a b : list (list Z * bool)) : bool :=
  list_eqb (fun x y => zs_eqb (fst x) (fst y) && Bool.eqb (snd x) (snd y)) a b.
