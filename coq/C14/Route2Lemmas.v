From Common Require Import Prelude.
From C14 Require Import Crc Model Lemmas Links Route2.
Open Scope Z_scope.

Lemma fast_effect_chunking_l : forall p u c1 c2, concat c1 = concat c2 -> fast_effect p u c1 = fast_effect p u c2.
Proof. intros p u c1 c2 E. unfold fast_effect. rewrite (chunking_independent_reader_l 13 c1 c2 E). reflexivity. Qed.

(* an ignored message neither reaches a processor nor lifts the pause, whatever the pause header *)
Lemma ignored_message_inert_l : forall p u msg,
  existsb (zs_eqb msg) (fast_ignored p) = true -> route p msg = None /\ lifts p u msg = false.
Proof. intros p u msg H. unfold route, lifts. rewrite H. split; reflexivity. Qed.

Example ex_fast_effect :
  (* Nano, paused until "TN:P": the ignored TN:P does not lift the pause, "TN:1" does *)
  fast_effect PNano [84;78;58;80] [[84;78;58;80;13;45;78;58;48;49;13]] = (([([45;78;58], [48;49])], false), (false, true)) /\
  fast_effect PNano [84;78;58;80] [[84;78;58]; [49;13]] = (([], false), (true, false)) /\
  existsb (zs_eqb [84;78;58;80]) (fast_ignored PNano) = true.
Proof. vm_compute. repeat split; reflexivity. Qed.
