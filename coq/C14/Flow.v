(* C14/Flow.v — executable model (definitions only) of the whole FAST command channel of
   mpf/platforms/fast/communicators/base.py, code as found:

     send_and_forget / send_with_confirmation          -> send_queue.put_nowait
     send_and_wait_for_response                        -> await no_response_waiting; clear; send_with_confirmation
     send_and_wait_for_response_processed              -> done_waiting.clear(); retry loop of
                                                          wait_for(send_and_wait_for_response, timeout); await done_waiting
     done_processing_msg_response                      -> done_waiting.set()
     _dispatch_incoming_msg                            -> IGNORED_MESSAGES, message_processors[msg[:3]](msg[3:]),
                                                          no_response_waiting.set(), _resume_sending when
                                                          pause_sending_until.startswith(msg[:3])
     _socket_writer / pause_sending / _resume_sending  -> [drain false] of Model.v (the writer never blocks)

   One step of the model = one operation of the history, then the asyncio loop runs until it is idle.
   Time is an integer number of 1/64 s.  asyncio.Event semantics used: set() releases ALL current waiters (a later
   clear() does not take a released waiter back); wait() on a set event does not suspend. *)
From Common Require Import Prelude.
From C14 Require Import Crc Model.
Open Scope Z_scope.

(* IGNORED_MESSAGES and message_processors: header -> (does the processor call done_processing_msg_response()) *)
Record fcfg := { f_ignored : list (list Z); f_procs : list (list Z * bool) }.

Inductive xop :=
| XEnq (m : Z) (c : option (list Z))                    (* send_and_forget / send_with_confirmation *)
| XSaw (m : Z) (u : list Z)                             (* task: send_and_wait_for_response(m, u) *)
| XSawp (m : Z) (u : list Z) (tmo : Z) (retries : Z)    (* task: send_and_wait_for_response_processed *)
| XRx (msg : list Z)                                    (* one complete, non-empty, decoded message is dispatched *)
| XAdv (d : Z).                                         (* the clock advances by d/64 s *)

(* a caller suspended in `await self.no_response_waiting.wait()` *)
Record waiter := { wt_m : Z; wt_u : list Z; wt_timed : bool;
                   wt_deadline : Z; wt_tmo : Z; wt_used : Z; wt_max : Z }.

Record xst := { x_queue : list (Z * option (list Z));
                x_paused : option (list Z);
                x_written : list (Z * option (list Z));
                x_nrw : bool;                   (* no_response_waiting.is_set() *)
                x_waiters : list waiter;        (* FIFO *)
                x_dw : bool;                    (* done_waiting.is_set() *)
                x_dwait : list Z;               (* callers suspended in `await self.done_waiting.wait()` *)
                x_fin : list Z;                 (* callers that have returned, in order *)
                x_now : Z }.

Definition xinit : xst :=
  {| x_queue := []; x_paused := None; x_written := []; x_nrw := true; x_waiters := [];
     x_dw := false; x_dwait := []; x_fin := []; x_now := 0 |}.

Definition hdr3 (msg : list Z) : list Z := firstn 3 msg.
Definition ignoredb (cfg : fcfg) (msg : list Z) : bool := existsb (zs_eqb msg) (f_ignored cfg).
Definition proc_of (cfg : fcfg) (msg : list Z) : option bool := assoc_z (hdr3 msg) (f_procs cfg).
(* the message reaches a message processor (and therefore sets no_response_waiting) *)
Definition processedb (cfg : fcfg) (msg : list Z) : bool :=
  negb (ignoredb cfg msg) && match proc_of cfg msg with Some _ => true | None => false end.

(* the writer task runs until it blocks (code as found: until the queue is empty) *)
Definition xdrain (s : xst) : xst :=
  let w := drain false (x_queue s) (x_paused s) (x_written s) in
  {| x_queue := w_queue w; x_paused := w_paused w; x_written := w_written w; x_nrw := x_nrw s;
     x_waiters := x_waiters s; x_dw := x_dw s; x_dwait := x_dwait s; x_fin := x_fin s; x_now := x_now s |}.

(* after its command has been queued, a _processed caller awaits done_waiting *)
Definition await_done (s : xst) (m : Z) : xst :=
  if x_dw s then
    {| x_queue := x_queue s; x_paused := x_paused s; x_written := x_written s; x_nrw := x_nrw s;
       x_waiters := x_waiters s; x_dw := x_dw s; x_dwait := x_dwait s; x_fin := x_fin s ++ [m]; x_now := x_now s |}
  else
    {| x_queue := x_queue s; x_paused := x_paused s; x_written := x_written s; x_nrw := x_nrw s;
       x_waiters := x_waiters s; x_dw := x_dw s; x_dwait := x_dwait s ++ [m]; x_fin := x_fin s; x_now := x_now s |}.

(* send_and_wait_for_response got through its wait: clear the event, queue the command *)
Definition pass_gate (s : xst) (m : Z) (u : list Z) (timed : bool) : xst :=
  let s1 := {| x_queue := x_queue s ++ [(m, Some u)]; x_paused := x_paused s; x_written := x_written s;
               x_nrw := false; x_waiters := x_waiters s; x_dw := x_dw s; x_dwait := x_dwait s;
               x_fin := x_fin s; x_now := x_now s |} in
  if timed then await_done s1 m
  else {| x_queue := x_queue s1; x_paused := x_paused s1; x_written := x_written s1; x_nrw := false;
          x_waiters := x_waiters s1; x_dw := x_dw s1; x_dwait := x_dwait s1; x_fin := x_fin s1 ++ [m];
          x_now := x_now s1 |}.

Definition add_waiter (s : xst) (w : waiter) : xst :=
  {| x_queue := x_queue s; x_paused := x_paused s; x_written := x_written s; x_nrw := x_nrw s;
     x_waiters := x_waiters s ++ [w]; x_dw := x_dw s; x_dwait := x_dwait s; x_fin := x_fin s; x_now := x_now s |}.

(* one attempt of send_and_wait_for_response (first call or a retry) *)
Definition attempt (s : xst) (w : waiter) : xst :=
  if x_nrw s then pass_gate s (wt_m w) (wt_u w) (wt_timed w) else add_waiter s w.

(* no_response_waiting.set(): every suspended caller is released, in order *)
Fixpoint release (ws : list waiter) (s : xst) : xst :=
  match ws with
  | [] => s
  | w :: t => release t (pass_gate s (wt_m w) (wt_u w) (wt_timed w))
  end.

Definition set_nrw (s : xst) : xst :=
  let ws := x_waiters s in
  release ws {| x_queue := x_queue s; x_paused := x_paused s; x_written := x_written s; x_nrw := true;
                x_waiters := []; x_dw := x_dw s; x_dwait := x_dwait s; x_fin := x_fin s; x_now := x_now s |}.

(* done_processing_msg_response() *)
Definition set_dw (s : xst) : xst :=
  {| x_queue := x_queue s; x_paused := x_paused s; x_written := x_written s; x_nrw := x_nrw s;
     x_waiters := x_waiters s; x_dw := true; x_dwait := []; x_fin := x_fin s ++ x_dwait s; x_now := x_now s |}.

Definition clear_dw (s : xst) : xst :=
  {| x_queue := x_queue s; x_paused := x_paused s; x_written := x_written s; x_nrw := x_nrw s;
     x_waiters := x_waiters s; x_dw := false; x_dwait := x_dwait s; x_fin := x_fin s; x_now := x_now s |}.

Definition set_paused (s : xst) (p : option (list Z)) : xst :=
  {| x_queue := x_queue s; x_paused := p; x_written := x_written s; x_nrw := x_nrw s;
     x_waiters := x_waiters s; x_dw := x_dw s; x_dwait := x_dwait s; x_fin := x_fin s; x_now := x_now s |}.

Definition enqueue (s : xst) (m : Z) (c : option (list Z)) : xst :=
  {| x_queue := x_queue s ++ [(m, c)]; x_paused := x_paused s; x_written := x_written s; x_nrw := x_nrw s;
     x_waiters := x_waiters s; x_dw := x_dw s; x_dwait := x_dwait s; x_fin := x_fin s; x_now := x_now s |}.

(* _dispatch_incoming_msg *)
Definition dispatch_msg (cfg : fcfg) (s : xst) (msg : list Z) : xst :=
  if ignoredb cfg msg then s
  else
    let s1 := match proc_of cfg msg with
              | Some calls_done => set_nrw (if calls_done then set_dw s else s)
              | None => s
              end in
    match x_paused s1 with
    | Some u => if zs_prefixb (hdr3 msg) u then set_paused s1 None else s1
    | None => s1
    end.

(* timeouts of wait_for: the earliest deadline of a timed waiter *)
Fixpoint min_deadline (ws : list waiter) : option Z :=
  match ws with
  | [] => None
  | w :: t =>
      if wt_timed w then
        match min_deadline t with
        | Some d => Some (Z.min (wt_deadline w) d)
        | None => Some (wt_deadline w)
        end
      else min_deadline t
  end.

(* take out the first timed waiter whose deadline is t *)
Fixpoint take_due (t : Z) (ws : list waiter) : option waiter * list waiter :=
  match ws with
  | [] => (None, [])
  | w :: r =>
      if wt_timed w && (wt_deadline w =? t) then (Some w, r)
      else let '(o, r') := take_due t r in (o, w :: r')
  end.

Definition set_waiters (s : xst) (ws : list waiter) : xst :=
  {| x_queue := x_queue s; x_paused := x_paused s; x_written := x_written s; x_nrw := x_nrw s;
     x_waiters := ws; x_dw := x_dw s; x_dwait := x_dwait s; x_fin := x_fin s; x_now := x_now s |}.

(* the wait_for around one attempt times out at t: `retries += 1`, next attempt or give up and await done_waiting *)
Definition expire (s : xst) (t : Z) : xst :=
  match take_due t (x_waiters s) with
  | (Some w, rest) =>
      let s1 := set_waiters s rest in
      let used := wt_used w + 1 in
      if (wt_max w =? -1) || (used <=? wt_max w) then
        attempt s1 {| wt_m := wt_m w; wt_u := wt_u w; wt_timed := true; wt_deadline := t + wt_tmo w;
                      wt_tmo := wt_tmo w; wt_used := used; wt_max := wt_max w |}
      else await_done s1 (wt_m w)
  | (None, _) => s
  end.

Fixpoint adv_loop (fuel : nat) (s : xst) (target : Z) : xst :=
  match fuel with
  | O => s
  | S f =>
      match min_deadline (x_waiters s) with
      | Some t => if t <=? target then adv_loop f (xdrain (expire s t)) target else s
      | None => s
      end
  end.

Definition set_now (s : xst) (t : Z) : xst :=
  {| x_queue := x_queue s; x_paused := x_paused s; x_written := x_written s; x_nrw := x_nrw s;
     x_waiters := x_waiters s; x_dw := x_dw s; x_dwait := x_dwait s; x_fin := x_fin s; x_now := t |}.

Definition xpre (cfg : fcfg) (s : xst) (op : xop) : xst :=
  match op with
  | XEnq m c => enqueue s m c
  | XSaw m u =>
      attempt s {| wt_m := m; wt_u := u; wt_timed := false; wt_deadline := 0; wt_tmo := 0; wt_used := 0; wt_max := 0 |}
  | XSawp m u tmo r =>
      let s1 := clear_dw s in
      if (r =? -1) || (0 <=? r) then
        attempt s1 {| wt_m := m; wt_u := u; wt_timed := true; wt_deadline := x_now s + tmo; wt_tmo := tmo;
                      wt_used := 0; wt_max := r |}
      else await_done s1 m
  | XRx msg => dispatch_msg cfg s msg
  | XAdv d =>
      let target := x_now s + d in
      (* every expiry moves one deadline forward by its timeout (>= 1): at most d+1 expiries per waiter *)
      set_now (adv_loop ((Z.to_nat d + 1) * (length (x_waiters s) + 1)) s target) target
  end.

Definition xstep (cfg : fcfg) (s : xst) (op : xop) : xst := xdrain (xpre cfg s op).
Definition xrun (cfg : fcfg) (s : xst) (ops : list xop) : xst := fold_left (xstep cfg) ops s.

(* ---- observation for the correspondence check: per operation
        (newly written ids, callers that returned, pause_sending_until when the flag is set,
         no_response_waiting, done_waiting, send_queue.qsize()) *)
Record xobs := { xo_w : list Z; xo_f : list Z; xo_p : option (list Z); xo_n : bool; xo_d : bool; xo_q : Z }.

Fixpoint xtrace (cfg : fcfg) (s : xst) (ops : list xop) : list xobs :=
  match ops with
  | [] => []
  | op :: t =>
      let s' := xstep cfg s op in
      {| xo_w := map fst (skipn (length (x_written s)) (x_written s'));
         xo_f := skipn (length (x_fin s)) (x_fin s');
         xo_p := x_paused s'; xo_n := x_nrw s'; xo_d := x_dw s';
         xo_q := Z.of_nat (length (x_queue s')) |} :: xtrace cfg s' t
  end.

Definition xobs_eqb (a b : xobs) : bool :=
  zs_eqb (xo_w a) (xo_w b) && zs_eqb (xo_f a) (xo_f b) && option_eqb zs_eqb (xo_p a) (xo_p b) &&
  Bool.eqb (xo_n a) (xo_n b) && Bool.eqb (xo_d a) (xo_d b) && (xo_q a =? xo_q b).

Definition flow_run (i : fcfg * list xop) : list xobs := xtrace (fst i) xinit (snd i).
Definition flow_out_eqb (a b : list xobs) : bool := list_eqb xobs_eqb a b.
