(* C14/FlowInv.v — invariant of the FAST command channel model: callers are blocked in send_and_wait_for_response only
   while no_response_waiting is clear (i.e. while the answer to an earlier query is outstanding) *)
From Common Require Import Prelude.
From C14 Require Import Crc Model Flow FlowLemmas.
Open Scope Z_scope.

Definition winv (s : xst) : Prop := x_waiters s = [] \/ x_nrw s = false.

Lemma winv_same : forall s s', x_waiters s' = x_waiters s -> x_nrw s' = x_nrw s -> winv s -> winv s'.
Proof. intros s s' A B [H|H]; [left|right]; congruence. Qed.

Lemma await_done_nw : forall s m, x_waiters (await_done s m) = x_waiters s /\ x_nrw (await_done s m) = x_nrw s.
Proof. intros. unfold await_done. destruct (x_dw s); split; reflexivity. Qed.

Lemma pass_gate_nrw : forall s m u t, x_nrw (pass_gate s m u t) = false.
Proof.
  intros. unfold pass_gate. destruct t; [|reflexivity].
  match goal with |- x_nrw (await_done ?a ?b) = _ => destruct (await_done_nw a b) as [_ E]; rewrite E end. reflexivity.
Qed.

Lemma winv_attempt : forall s w, winv s -> winv (attempt s w).
Proof.
  intros s w H. unfold attempt. destruct (x_nrw s) eqn:E.
  - right. apply pass_gate_nrw.
  - right. exact E.
Qed.

Lemma release_nrw : forall ws s, ws <> [] -> x_nrw (release ws s) = false.
Proof.
  induction ws as [|w t IH]; intros s H; [contradiction|]. cbn [release].
  destruct t as [|w' t']; [cbn [release]; apply pass_gate_nrw|]. apply IH. discriminate.
Qed.

Lemma winv_set_nrw : forall s, winv (set_nrw s).
Proof.
  intros s. left. unfold set_nrw.
  match goal with |- x_waiters (release ?ws ?st) = _ => destruct (release_keeps ws st) as [A _]; rewrite A end.
  reflexivity.
Qed.

Lemma winv_dispatch : forall cfg s msg, winv s -> winv (dispatch_msg cfg s msg).
Proof.
  intros cfg s msg H. unfold dispatch_msg. destruct (ignoredb cfg msg); [exact H|].
  set (s1 := match proc_of cfg msg with Some c => set_nrw (if c then set_dw s else s) | None => s end).
  assert (E : winv s1) by (unfold s1; destruct (proc_of cfg msg); [apply winv_set_nrw|exact H]).
  destruct (x_paused s1) as [u|]; [|exact E]. destruct (zs_prefixb (hdr3 msg) u); [|exact E].
  eapply winv_same; [| |exact E]; reflexivity.
Qed.

Lemma take_due_nil : forall t, take_due t [] = (None, []).
Proof. reflexivity. Qed.

Lemma winv_expire : forall s t, winv s -> winv (expire s t).
Proof.
  intros s t [H|H]; unfold expire.
  - rewrite H. cbn [take_due]. left. exact H.
  - destruct (take_due t (x_waiters s)) as [[w|] rest]; [|right; exact H].
    assert (E : winv (set_waiters s rest)) by (right; exact H).
    match goal with |- context [if ?c then _ else _] => destruct c end.
    + apply winv_attempt, E.
    + destruct (await_done_nw (set_waiters s rest) (wt_m w)) as [A B]. eapply winv_same; [exact A|exact B|exact E].
Qed.

Lemma winv_xdrain : forall s, winv s -> winv (xdrain s).
Proof. intros s H. rewrite xdrain_eq. eapply winv_same; [| |exact H]; reflexivity. Qed.

Lemma winv_adv_loop : forall fuel s target, winv s -> winv (adv_loop fuel s target).
Proof.
  induction fuel as [|f IH]; intros s target H; cbn [adv_loop]; [exact H|].
  destruct (min_deadline (x_waiters s)) as [t|]; [|exact H]. destruct (t <=? target); [|exact H].
  apply IH, winv_xdrain, winv_expire, H.
Qed.

Lemma winv_xstep : forall cfg s op, winv s -> winv (xstep cfg s op).
Proof.
  intros cfg s op H. unfold xstep. apply winv_xdrain.
  destruct op as [m c|m u|m u tmo r|msg|d]; cbn [xpre].
  - eapply winv_same; [| |exact H]; reflexivity.
  - apply winv_attempt, H.
  - assert (E : winv (clear_dw s)) by (eapply winv_same; [| |exact H]; reflexivity).
    match goal with |- context [if ?c then _ else _] => destruct c end.
    + apply winv_attempt, E.
    + destruct (await_done_nw (clear_dw s) m) as [A B]. eapply winv_same; [exact A|exact B|exact E].
  - apply winv_dispatch, H.
  - eapply winv_same; [| |apply winv_adv_loop, H]; reflexivity.
Qed.

Lemma flow_invariant_l : forall cfg ops,
  let s := xrun cfg xinit ops in
  x_queue s = [] /\ (x_waiters s <> [] -> x_nrw s = false).
Proof.
  intros cfg ops. split.
  - apply xrun_queue_empty. reflexivity.
  - assert (G : forall ops s, winv s -> winv (xrun cfg s ops)).
    { clear. induction ops as [|op t IH]; intros s H; [exact H|]. cbn [xrun fold_left]. apply IH, winv_xstep, H. }
    destruct (G ops xinit (or_introl eq_refl)) as [E|E]; [intros X; contradiction|intros _; exact E].
Qed.

Example ex_flow_invariant :
  let s := xrun cfg_ex xinit [XSaw 1 SA; XSaw 2 SA] in x_waiters s <> [] /\ x_nrw s = false /\ x_queue s = [].
Proof. vm_compute. repeat split; try reflexivity. discriminate. Qed.
