(* C14/Props.v — property theorems only; each closed by [exact] of a lemma of Lemmas.v and followed by
   Print Assumptions (parsed by the check: must be "Closed under the global context").
   Satisfiability examples for the hypotheses are the [ex_*] Examples at the end of Lemmas.v.

   Property C14 in full: (a) decoded messages and switch states depend only on the bytes received, not on the
   split into reads; (b) a malformed / bad-checksum frame never changes a switch state; (c) after line noise the
   decoder resynchronises so that subsequent valid frames are decoded again; (d) after valid reports the switch
   state equals the last report of each board; (e) FAST: nothing is written until the awaited confirmation arrived,
   queued commands keep their order, a lost response is retried rather than blocking for ever.

   (a),(b),(d) hold of the faithful models (theorems below).  (c) is FALSE in full strength for OPP
   ([opp_strong_resync_refuted]; known finding) and holds in the guarded form [opp_resync_partial];
   for FAST/PKONE (c) is false because one undecodable byte ends the reader task ([reader_noise_refuted]; known
   finding).  (e): order holds ([queue_order_preserved]); waiting is FALSE of the code as found
   ([writer_waits_refuted]; known finding) and holds of the candidate repair ([writer_waits_fixed],
   [writer_confirmed_is_last_fixed]); the retry part is not modelled (validated as a known finding on the code). *)
From Common Require Import Prelude.
From C14 Require Import Crc Model Flow Links Lemmas CrcLemmas FlowLemmas FlowInv LinkLemmas OppSwitch Route2 Route2Lemmas.
Open Scope Z_scope.

(* ---- CRC ---- *)
Theorem crc_table_is_poly07 :
  forall i, is_byte i -> nth (Z.to_nat i) crc_table 0 = poly07_byte i.
Proof. exact crc_table_is_poly07_l. Qed.
Print Assumptions crc_table_is_poly07.

(* any change of any single byte (data, address, command or the CRC byte itself) of a frame of ANY length
   (in particular the 7- and 11-byte input frames) is detected *)
Theorem single_byte_corruption_detected :
  (forall pre b x post c,
      Forall is_byte (pre ++ b :: post) -> is_byte x -> x <> b ->
      frame_crc_ok ((pre ++ b :: post) ++ [c]) = true ->
      frame_crc_ok ((pre ++ x :: post) ++ [c]) = false) /\
  (forall body c c', c' <> c ->
      frame_crc_ok (body ++ [c]) = true -> frame_crc_ok (body ++ [c']) = false).
Proof. exact single_byte_corruption_detected_l. Qed.
Print Assumptions single_byte_corruption_detected.

(* ---- OPP framing ---- *)
(* the loop of _parse_msg, fed any chunks, emits exactly what the byte-at-a-time automaton emits on the
   concatenation, and ends in a state with the same abstraction *)
Theorem opp_refines_automaton : forall chunks s, settled s ->
  afeed (ainit (snd s)) (fst s ++ concat chunks) =
  (abs (fst (opp_feed_chunks s chunks)), snd (opp_feed_chunks s chunks)).
Proof. exact opp_chunks_spec. Qed.
Print Assumptions opp_refines_automaton.

Theorem chunking_independent_opp : forall s c1 c2, settled s -> concat c1 = concat c2 ->
  snd (opp_feed_chunks s c1) = snd (opp_feed_chunks s c2) /\
  abs (fst (opp_feed_chunks s c1)) = abs (fst (opp_feed_chunks s c2)).
Proof. exact chunking_independent_opp_l. Qed.
Print Assumptions chunking_independent_opp.

(* feed (feed s a) b ~ feed s (a ++ b), for EVERY state s *)
Theorem opp_feed_feed : forall s a b,
  snd (opp_feed s a) ++ snd (opp_feed (fst (opp_feed s a)) b) = snd (opp_feed s (a ++ b)) /\
  abs (fst (opp_feed (fst (opp_feed s a)) b)) = abs (fst (opp_feed s (a ++ b))).
Proof. exact opp_feed_feed_l. Qed.
Print Assumptions opp_feed_feed.

(* ... but the raw (part_msg, _lost_synch) pair is not chunking independent: only its abstraction is *)
Theorem opp_raw_state_chunking_refuted :
  exists c1 c2, concat c1 = concat c2 /\
    fst (opp_feed_chunks opp_init c1) <> fst (opp_feed_chunks opp_init c2).
Proof. exact opp_raw_state_chunking_refuted_l. Qed.
Print Assumptions opp_raw_state_chunking_refuted.

(* resynchronisation, guarded form: whatever was received before (any state), after ten EOM bytes every
   well-shaped frame (each optionally followed by EOM bytes) is delivered, in order; at most one junk window is
   delivered before them *)
Theorem opp_resync_partial : forall s chunks items,
  settled s -> Forall frame_shape (map fst items) -> items <> [] ->
  concat chunks = repeat cmd_eom 10 ++ frames_stream items ->
  exists junk, snd (opp_feed_chunks s chunks) = junk ++ map fst items /\ (length junk <= 1)%nat.
Proof. exact opp_resync_l. Qed.
Print Assumptions opp_resync_partial.

(* full-strength resynchronisation is false: after one noise byte, arbitrarily many copies of a valid report
   (each followed by EOM) yield no CRC-valid frame at all *)
Theorem opp_strong_resync_refuted :
  exists noise f, frame_shape f /\ frame_crc_ok f = true /\
    forall n, Forall (fun m => frame_crc_ok m = false)
                     (snd (afeed AIdle (noise ++ concat (repeat (f ++ [cmd_eom]) n)))).
Proof. exact opp_strong_resync_refuted_l. Qed.
Print Assumptions opp_strong_resync_refuted.

(* ---- OPP switch state ---- *)
Theorem bad_crc_no_state_change : forall fs bd,
  Forall (fun f => frame_crc_ok f = false) fs -> apply_frames bd fs = (bd, []).
Proof. exact bad_frames_no_state_change_l. Qed.
Print Assumptions bad_crc_no_state_change.

(* for ANY list of delivered frames (valid or not): the state of a configured board is the value of the last
   CRC-valid report addressed to it *)
Theorem last_report_wins_inp : forall fs bd a old,
  aget a (b_inp bd) = Some old ->
  aget a (b_inp (fst (apply_frames bd fs))) = Some (last_inp a fs old).
Proof. exact last_report_wins_inp_l. Qed.
Print Assumptions last_report_wins_inp.

Theorem last_report_wins_mat : forall fs bd a old,
  aget a (b_mat bd) = Some old ->
  aget a (b_mat (fst (apply_frames bd fs))) = Some (last_mat a fs old).
Proof. exact last_report_wins_mat_l. Qed.
Print Assumptions last_report_wins_mat.

(* ---- FAST (d = 13) and PKONE (d = 69) ---- *)
Theorem chunking_independent_delim : forall d c1 c2,
  concat c1 = concat c2 -> delim_feed_chunks d [] c1 = delim_feed_chunks d [] c2.
Proof. exact chunking_independent_delim_l. Qed.
Print Assumptions chunking_independent_delim.

Theorem delim_feed_feed : forall d buf a b,
  delim_feed d buf (a ++ b) =
  (fst (delim_feed d buf a) ++ fst (delim_feed d (snd (delim_feed d buf a)) b),
   snd (delim_feed d (snd (delim_feed d buf a)) b)).
Proof. exact delim_feed_feed_l. Qed.
Print Assumptions delim_feed_feed.

Theorem chunking_independent_reader : forall d c1 c2,
  concat c1 = concat c2 -> reader_chunks d [] c1 = reader_chunks d [] c2.
Proof. exact chunking_independent_reader_l. Qed.
Print Assumptions chunking_independent_reader.

(* resynchronisation after noise is false for the delimiter readers: one undecodable message ends the reader *)
Theorem reader_noise_refuted :
  exists noise, forall later, reader_chunks 13 [] [noise; later] = ([], true).
Proof. exact noise_kills_reader_l. Qed.
Print Assumptions reader_noise_refuted.

(* ---- FAST writer ---- *)
Theorem queue_order_preserved : forall fixed ops s,
  let s' := fold_left (wstep fixed) ops s in
  map fst (w_written s') ++ map fst (w_queue s') =
  (map fst (w_written s) ++ map fst (w_queue s)) ++ enqueued ops.
Proof. exact queue_order_preserved_l. Qed.
Print Assumptions queue_order_preserved.

Theorem writer_waits_refuted :
  exists ops, let s := wrun false ops in
    map fst (w_written s) = [1; 2] /\ w_paused s = Some [65; 65; 58].
Proof. exact legacy_writer_never_waits_l. Qed.
Print Assumptions writer_waits_refuted.

Theorem writer_waits_fixed : forall s op u,
  w_paused s = Some u -> confirms op u = false ->
  w_written (wstep true s op) = w_written s /\ w_paused (wstep true s op) = Some u.
Proof. exact writer_waits_l. Qed.
Print Assumptions writer_waits_fixed.

Theorem writer_confirmed_is_last_fixed : forall q p w,
  exists new, w_written (drain true q p w) = w ++ new /\
    Forall (fun x => snd x = None) (removelast new) /\
    (forall u, snd (last new (0, None)) = Some u -> w_paused (drain true q p w) = Some u) /\
    (new = [] -> w_paused (drain true q p w) = p).
Proof. exact drain_fixed_new. Qed.
Print Assumptions writer_confirmed_is_last_fixed.

(* ---- FAST Neuron/Nano switch reports ---- *)
(* for ANY interleaving of SA: snapshots and -L:/L: events (including a snapshot equal to an earlier one) the
   logical state of a configured switch is what the last report about it says *)
Theorem last_report_wins_fast : forall ops m n inv st0,
  fget n m = Some (inv, st0) ->
  fget n (fold_left fstep ops m) = Some (inv, last_fast n inv ops st0).
Proof. exact last_report_wins_fast_l. Qed.
Print Assumptions last_report_wins_fast.

Theorem fast_snapshot_decides : forall pre bits m n inv st0,
  fget n m = Some (inv, st0) ->
  fget n (fold_left fstep (pre ++ [FSnap bits]) m) =
  Some (inv, Z.lxor (if inv then 1 else 0) (nth (Z.to_nat n) bits 0)).
Proof. exact snapshot_decides_l. Qed.
Print Assumptions fast_snapshot_decides.

(* ---- CRC: two corrupted bytes ---- *)
(* EXACT: xor-errors e1 at one byte and e2 at a byte |mid|+1 positions later (the second may be the CRC byte itself)
   go unnoticed iff e2 is the (distance)-fold table image of e1 *)
Theorem two_byte_corruption_exact : forall pre b1 mid b2 post e1 e2,
  Forall is_byte (pre ++ b1 :: mid ++ b2 :: post) -> is_byte e1 -> is_byte e2 ->
  frame_crc_ok (pre ++ b1 :: mid ++ b2 :: post) = true ->
  (frame_crc_ok (pre ++ Z.lxor b1 e1 :: mid ++ Z.lxor b2 e2 :: post) = true <->
   e2 = titer (S (length mid)) e1).
Proof. exact two_byte_corruption_exact_l. Qed.
Print Assumptions two_byte_corruption_exact.

(* every burst of up to 8 bits across two adjacent bytes is detected (polynomial 0x07) *)
Theorem burst8_detected : forall pre b1 b2 post e1 e2,
  Forall is_byte (pre ++ b1 :: b2 :: post) -> is_byte e1 -> is_byte e2 -> burst8b e1 e2 = true ->
  frame_crc_ok (pre ++ b1 :: b2 :: post) = true ->
  frame_crc_ok (pre ++ Z.lxor b1 e1 :: Z.lxor b2 e2 :: post) = false.
Proof. exact burst8_detected_l. Qed.
Print Assumptions burst8_detected.

(* "any two-byte corruption is detected" is false: a valid 7-byte report and a different, equally valid one that
   differs in two adjacent data bytes (a 9-bit burst, the generator polynomial itself) *)
Theorem two_byte_corruption_refuted :
  exists f f', frame_crc_ok f = true /\ length f = 7%nat /\ length f' = 7%nat /\ f <> f' /\
               firstn 4 f' = firstn 4 f /\ skipn 6 f' = skipn 6 f /\ frame_crc_ok f' = true.
Proof. exact two_byte_corruption_refuted_l. Qed.
Print Assumptions two_byte_corruption_refuted.

(* ---- FAST command channel as a whole (Flow.v; code as found) ---- *)
(* what is written, followed by what is queued, only ever grows at its end: queue order is kept, nothing is
   written that was not queued, for every history of calls, incoming messages and time *)
Theorem flow_order_preserved : forall cfg ops s,
  exists suf, x_written (xrun cfg s ops) ++ x_queue (xrun cfg s ops) = (x_written s ++ x_queue s) ++ suf.
Proof. exact flow_order_l. Qed.
Print Assumptions flow_order_preserved.

(* the writer as found never holds a queued command back *)
Theorem flow_queue_always_drained : forall cfg s op, x_queue (xstep cfg s op) = [].
Proof. exact xstep_queue_empty. Qed.
Print Assumptions flow_queue_always_drained.

(* losing, delaying or duplicating messages that reach no message processor (pure confirmations, ignored and unknown
   messages) changes nothing but the pause state: what is written, which callers returned, who is blocked *)
Theorem flow_confirmations_irrelevant : forall cfg ops,
  let a := xrun cfg xinit ops in
  let b := xrun cfg xinit (erase_unprocessed cfg ops) in
  x_written a = x_written b /\ x_fin a = x_fin b /\ x_waiters a = x_waiters b /\ x_nrw a = x_nrw b /\
  x_dwait a = x_dwait b.
Proof. exact confirmations_irrelevant_l. Qed.
Print Assumptions flow_confirmations_irrelevant.

(* liveness as found: the next message that reaches a processor releases EVERY caller blocked in
   send_and_wait_for_response, and their commands are written in that very step *)
Theorem flow_processed_releases_all : forall cfg s msg,
  processedb cfg msg = true ->
  x_waiters (xstep cfg s (XRx msg)) = [] /\
  forall w, In w (x_waiters s) -> In (wt_m w, Some (wt_u w)) (x_written (xstep cfg s (XRx msg))).
Proof. exact processed_releases_all_l. Qed.
Print Assumptions flow_processed_releases_all.

(* ... which also means the query channel is not serialised: one answer lets two further commands out *)
Theorem flow_one_in_flight_refuted :
  exists ops, let s := xrun cfg_ex xinit ops in
    exists s0, s0 = xrun cfg_ex xinit (removelast ops) /\
      map fst (x_written s0) = [1] /\ map fst (x_written s) = [1; 2; 3] /\ x_paused s = Some SA.
Proof. exact saw_not_serialised_l. Qed.
Print Assumptions flow_one_in_flight_refuted.

(* the retry clause, refuted for ALL parameters: whatever header, timeout and max_retries, a command sent with
   send_and_wait_for_response_processed whose response is lost is written exactly once and its caller never returns,
   however long one waits *)
Theorem flow_lost_response_never_resent : forall cfg m u tmo r ds,
  r = -1 \/ 0 <= r ->
  let s := xrun cfg xinit (XSawp m u tmo r :: map XAdv ds) in
  x_written s = [(m, Some u)] /\ x_fin s = [] /\ x_dwait s = [m] /\ x_queue s = [].
Proof. exact lost_response_never_resent_l. Qed.
Print Assumptions flow_lost_response_never_resent.

(* ... and a command can be dropped without ever being sent *)
Theorem flow_gives_up_unsent_refuted :
  exists ops, let s := xrun cfg_ex xinit ops in
    map fst (x_written s) = [1] /\ x_fin s = [1; 2] /\ x_waiters s = [] /\ x_nrw s = true.
Proof. exact sawp_gives_up_unsent_l. Qed.
Print Assumptions flow_gives_up_unsent_refuted.

(* ---- header tables of all FAST processors, FAST switch reports from bytes, PKONE in-flight counter ---- *)
Theorem chunking_independent_fast_routing : forall p c1 c2,
  concat c1 = concat c2 -> fast_routed p c1 = fast_routed p c2.
Proof. exact fast_routed_chunking_l. Qed.
Print Assumptions chunking_independent_fast_routing.

Theorem chunking_independent_fast_switches : forall sw m c1 c2,
  concat c1 = concat c2 -> fast_e2e sw m c1 = fast_e2e sw m c2.
Proof. exact fast_e2e_chunking_l. Qed.
Print Assumptions chunking_independent_fast_switches.

(* END TO END, bytes to switch states: for any reads whose concatenation is a sequence of complete messages followed
   by an incomplete one (the stream cut anywhere), the state of every configured switch is what the last report among
   the complete messages says; the incomplete message and messages that are not reports contribute nothing *)
Theorem fast_bytes_last_report_wins : forall sw m0 msgs tail chunks n inv st0,
  Forall (good_msg 13) msgs -> ~ In 13 tail -> concat chunks = frame_msgs 13 msgs ++ tail ->
  fget n m0 = Some (inv, st0) ->
  fget n (fast_e2e sw m0 chunks) = Some (inv, last_fast n inv (decode_all sw msgs) st0).
Proof. exact fast_e2e_last_report_l. Qed.
Print Assumptions fast_bytes_last_report_wins.

Theorem fast_nonreport_changes_nothing : forall sw a x b m0,
  fast_decode sw x = None ->
  fold_left fstep (decode_all sw (a ++ x :: b)) m0 = fold_left fstep (decode_all sw (a ++ b)) m0.
Proof. exact fast_nonreport_no_change_l. Qed.
Print Assumptions fast_nonreport_changes_nothing.

Theorem chunking_independent_pkone_inflight : forall n mx c1 c2,
  concat c1 = concat c2 -> pk_inflight n mx c1 = pk_inflight n mx c2.
Proof. exact pk_inflight_chunking_l. Qed.
Print Assumptions chunking_independent_pkone_inflight.

(* invariant of every reachable state of the command channel: the send queue is empty between operations, and callers
   are blocked in send_and_wait_for_response only while no_response_waiting is clear *)
Theorem flow_invariant : forall cfg ops,
  let s := xrun cfg xinit ops in
  x_queue s = [] /\ (x_waiters s <> [] -> x_nrw s = false).
Proof. exact flow_invariant_l. Qed.
Print Assumptions flow_invariant.

(* ---- OPP: from delivered frames / from bytes to the SwitchController ---- *)
(* if the controller agreed (active low) with the card's old state, then after ANY delivered frames - valid, corrupt,
   for other cards, matrix reports - the process_switch_by_num calls leave it equal to the last CRC-valid report *)
Theorem opp_switch_state_last_report : forall fs bd a old i,
  aget a (b_inp bd) = Some old -> 0 <= i < 32 ->
  sw_after (snd (apply_frames bd fs)) a i (active_low old i) = active_low (last_inp a fs old) i.
Proof. exact opp_switch_state_last_report_l. Qed.
Print Assumptions opp_switch_state_last_report.

Theorem opp_bytes_switch_state : forall c1 c2 bd a old i,
  concat c1 = concat c2 -> aget a (b_inp bd) = Some old -> 0 <= i < 32 ->
  let fs1 := snd (opp_feed_chunks opp_init c1) in
  let fs2 := snd (opp_feed_chunks opp_init c2) in
  fs1 = fs2 /\
  sw_after (snd (apply_frames bd fs1)) a i (active_low old i) = active_low (last_inp a fs2 old) i.
Proof. exact opp_bytes_switch_state_l. Qed.
Print Assumptions opp_bytes_switch_state.

(* the complete observable effect of received bytes on the dispatcher of any FAST processor - processor calls, pause
   lifted, no_response_waiting set - does not depend on the split into reads; an IGNORED message is inert *)
Theorem chunking_independent_fast_effect : forall p u c1 c2,
  concat c1 = concat c2 -> fast_effect p u c1 = fast_effect p u c2.
Proof. exact fast_effect_chunking_l. Qed.
Print Assumptions chunking_independent_fast_effect.

Theorem ignored_message_inert : forall p u msg,
  existsb (zs_eqb msg) (fast_ignored p) = true -> route p msg = None /\ lifts p u msg = false.
Proof. exact ignored_message_inert_l. Qed.
Print Assumptions ignored_message_inert.
