(* C14/Props.v — property theorems only; each closed by [exact] of a lemma of Lemmas.v and followed by
   Print Assumptions (parsed by the check: must be "Closed under the global context").
   Satisfiability examples for the hypotheses are the [ex_*] Examples at the end of Lemmas.v.

   Property C14 in full: (a) decoded messages and switch states depend only on the bytes received, not on the
   split into reads; (b) a malformed / bad-checksum frame never changes a switch state; (c) after line noise the
   decoder resynchronises so that subsequent valid frames are decoded again; (d) after valid reports the switch
   state equals the last report of each board; (e) FAST: nothing is written until the awaited confirmation arrived,
   queued commands keep their order, a lost response is retried rather than blocking for ever.

   (a),(b),(d) hold of the faithful models (theorems below).  (c) is FALSE in full strength for OPP
   ([opp_strong_resync_refuted]; known finding) and holds in the guarded form [opp_resync_partial];
   for FAST/PKONE (c) is false because one undecodable byte ends the reader task ([reader_noise_refuted]; known
   finding).  (e): order holds ([queue_order_preserved]); waiting is FALSE of the code as found
   ([writer_waits_refuted]; known finding) and holds of the candidate repair ([writer_waits_fixed],
   [writer_confirmed_is_last_fixed]); the retry part is not modelled (validated as a known finding on the code). *)
From Common Require Import Prelude.
From C14 Require Import Crc Model Lemmas.
Open Scope Z_scope.

(* ---- CRC ---- *)
Theorem crc_table_is_poly07 :
  forall i, is_byte i -> nth (Z.to_nat i) crc_table 0 = poly07_byte i.
Proof. exact crc_table_is_poly07_l. Qed.
Print Assumptions crc_table_is_poly07.

(* any change of any single byte (data, address, command or the CRC byte itself) of a frame of ANY length
   (in particular the 7- and 11-byte input frames) is detected *)
Theorem single_byte_corruption_detected :
  (forall pre b x post c,
      Forall is_byte (pre ++ b :: post) -> is_byte x -> x <> b ->
      frame_crc_ok ((pre ++ b :: post) ++ [c]) = true ->
      frame_crc_ok ((pre ++ x :: post) ++ [c]) = false) /\
  (forall body c c', c' <> c ->
      frame_crc_ok (body ++ [c]) = true -> frame_crc_ok (body ++ [c']) = false).
Proof. exact single_byte_corruption_detected_l. Qed.
Print Assumptions single_byte_corruption_detected.

(* ---- OPP framing ---- *)
(* the loop of _parse_msg, fed any chunks, emits exactly what the byte-at-a-time automaton emits on the
   concatenation, and ends in a state with the same abstraction *)
Theorem opp_refines_automaton : forall chunks s, settled s ->
  afeed (ainit (snd s)) (fst s ++ concat chunks) =
  (abs (fst (opp_feed_chunks s chunks)), snd (opp_feed_chunks s chunks)).
Proof. exact opp_chunks_spec. Qed.
Print Assumptions opp_refines_automaton.

Theorem chunking_independent_opp : forall s c1 c2, settled s -> concat c1 = concat c2 ->
  snd (opp_feed_chunks s c1) = snd (opp_feed_chunks s c2) /\
  abs (fst (opp_feed_chunks s c1)) = abs (fst (opp_feed_chunks s c2)).
Proof. exact chunking_independent_opp_l. Qed.
Print Assumptions chunking_independent_opp.

(* feed (feed s a) b ~ feed s (a ++ b), for EVERY state s *)
Theorem opp_feed_feed : forall s a b,
  snd (opp_feed s a) ++ snd (opp_feed (fst (opp_feed s a)) b) = snd (opp_feed s (a ++ b)) /\
  abs (fst (opp_feed (fst (opp_feed s a)) b)) = abs (fst (opp_feed s (a ++ b))).
Proof. exact opp_feed_feed_l. Qed.
Print Assumptions opp_feed_feed.

(* ... but the raw (part_msg, _lost_synch) pair is not chunking independent: only its abstraction is *)
Theorem opp_raw_state_chunking_refuted :
  exists c1 c2, concat c1 = concat c2 /\
    fst (opp_feed_chunks opp_init c1) <> fst (opp_feed_chunks opp_init c2).
Proof. exact opp_raw_state_chunking_refuted_l. Qed.
Print Assumptions opp_raw_state_chunking_refuted.

(* resynchronisation, guarded form: whatever was received before (any state), after ten EOM bytes every
   well-shaped frame (each optionally followed by EOM bytes) is delivered, in order; at most one junk window is
   delivered before them *)
Theorem opp_resync_partial : forall s chunks items,
  settled s -> Forall frame_shape (map fst items) -> items <> [] ->
  concat chunks = repeat cmd_eom 10 ++ frames_stream items ->
  exists junk, snd (opp_feed_chunks s chunks) = junk ++ map fst items /\ (length junk <= 1)%nat.
Proof. exact opp_resync_l. Qed.
Print Assumptions opp_resync_partial.

(* full-strength resynchronisation is false: after one noise byte, arbitrarily many copies of a valid report
   (each followed by EOM) yield no CRC-valid frame at all *)
Theorem opp_strong_resync_refuted :
  exists noise f, frame_shape f /\ frame_crc_ok f = true /\
    forall n, Forall (fun m => frame_crc_ok m = false)
                     (snd (afeed AIdle (noise ++ concat (repeat (f ++ [cmd_eom]) n)))).
Proof. exact opp_strong_resync_refuted_l. Qed.
Print Assumptions opp_strong_resync_refuted.

(* ---- OPP switch state ---- *)
Theorem bad_crc_no_state_change : forall fs bd,
  Forall (fun f => frame_crc_ok f = false) fs -> apply_frames bd fs = (bd, []).
Proof. exact bad_frames_no_state_change_l. Qed.
Print Assumptions bad_crc_no_state_change.

(* for ANY list of delivered frames (valid or not): the state of a configured board is the value of the last
   CRC-valid report addressed to it *)
Theorem last_report_wins_inp : forall fs bd a old,
  aget a (b_inp bd) = Some old ->
  aget a (b_inp (fst (apply_frames bd fs))) = Some (last_inp a fs old).
Proof. exact last_report_wins_inp_l. Qed.
Print Assumptions last_report_wins_inp.

Theorem last_report_wins_mat : forall fs bd a old,
  aget a (b_mat bd) = Some old ->
  aget a (b_mat (fst (apply_frames bd fs))) = Some (last_mat a fs old).
Proof. exact last_report_wins_mat_l. Qed.
Print Assumptions last_report_wins_mat.

(* ---- FAST (d = 13) and PKONE (d = 69) ---- *)
Theorem chunking_independent_delim : forall d c1 c2,
  concat c1 = concat c2 -> delim_feed_chunks d [] c1 = delim_feed_chunks d [] c2.
Proof. exact chunking_independent_delim_l. Qed.
Print Assumptions chunking_independent_delim.

Theorem delim_feed_feed : forall d buf a b,
  delim_feed d buf (a ++ b) =
  (fst (delim_feed d buf a) ++ fst (delim_feed d (snd (delim_feed d buf a)) b),
   snd (delim_feed d (snd (delim_feed d buf a)) b)).
Proof. exact delim_feed_feed_l. Qed.
Print Assumptions delim_feed_feed.

Theorem chunking_independent_reader : forall d c1 c2,
  concat c1 = concat c2 -> reader_chunks d [] c1 = reader_chunks d [] c2.
Proof. exact chunking_independent_reader_l. Qed.
Print Assumptions chunking_independent_reader.

(* resynchronisation after noise is false for the delimiter readers: one undecodable message ends the reader *)
Theorem reader_noise_refuted :
  exists noise, forall later, reader_chunks 13 [] [noise; later] = ([], true).
Proof. exact noise_kills_reader_l. Qed.
Print Assumptions reader_noise_refuted.

(* ---- FAST writer ---- *)
Theorem queue_order_preserved : forall fixed ops s,
  let s' := fold_left (wstep fixed) ops s in
  map fst (w_written s') ++ map fst (w_queue s') =
  (map fst (w_written s) ++ map fst (w_queue s)) ++ enqueued ops.
Proof. exact queue_order_preserved_l. Qed.
Print Assumptions queue_order_preserved.

Theorem writer_waits_refuted :
  exists ops, let s := wrun false ops in
    map fst (w_written s) = [1; 2] /\ w_paused s = Some [65; 65; 58].
Proof. exact legacy_writer_never_waits_l. Qed.
Print Assumptions writer_waits_refuted.

Theorem writer_waits_fixed : forall s op u,
  w_paused s = Some u -> confirms op u = false ->
  w_written (wstep true s op) = w_written s /\ w_paused (wstep true s op) = Some u.
Proof. exact writer_waits_l. Qed.
Print Assumptions writer_waits_fixed.

Theorem writer_confirmed_is_last_fixed : forall q p w,
  exists new, w_written (drain true q p w) = w ++ new /\
    Forall (fun x => snd x = None) (removelast new) /\
    (forall u, snd (last new (0, None)) = Some u -> w_paused (drain true q p w) = Some u) /\
    (new = [] -> w_paused (drain true q p w) = p).
Proof. exact drain_fixed_new. Qed.
Print Assumptions writer_confirmed_is_last_fixed.

(* ---- FAST Neuron/Nano switch reports ---- *)
(* for ANY interleaving of SA: snapshots and -L:/L: events (including a snapshot equal to an earlier one) the
   logical state of a configured switch is what the last report about it says *)
Theorem last_report_wins_fast : forall ops m n inv st0,
  fget n m = Some (inv, st0) ->
  fget n (fold_left fstep ops m) = Some (inv, last_fast n inv ops st0).
Proof. exact last_report_wins_fast_l. Qed.
Print Assumptions last_report_wins_fast.

Theorem fast_snapshot_decides : forall pre bits m n inv st0,
  fget n m = Some (inv, st0) ->
  fget n (fold_left fstep (pre ++ [FSnap bits]) m) =
  Some (inv, Z.lxor (if inv then 1 else 0) (nth (Z.to_nat n) bits 0)).
Proof. exact snapshot_decides_l. Qed.
Print Assumptions fast_snapshot_decides.
