(* C14/Links.v — executable models (definitions only) of further pieces of the anchored serial links:
     - the header tables of all FAST processors (message_processors keys + IGNORED_MESSAGES of
       communicators/net_neuron.py, net_nano.py, net_retro.py, exp.py, dmd.py, seg.py, aud.py, rgb.py, emu.py) and the
       routing done by base.py::_dispatch_incoming_msg (whole message ignored / msg[:3] looked up / msg[3:] handed on)
     - FAST switch reports END TO END: bytes -> parse_incoming_raw_bytes -> _dispatch_incoming_msg ->
       net_neuron.py::_process_sa (msg.split(','), bytearray.fromhex, bit i of byte k = switch 8k+i) /
       _process_switch_closed/_open (int(msg, 16)) -> the switch-report model of Model.v
     - PKONE pkone_serial_communicator.py::_parse_msg bookkeeping of messages_in_flight / send_ready            *)
From Common Require Import Prelude.
From C14 Require Import Crc Model.
Open Scope Z_scope.

(* ---- FAST header tables ---- *)
Inductive fastproc := PNeuron | PNano | PRetro | PExp | PDmd | PSeg | PAud | PRgb | PEmu.

Definition h3 (a b c : Z) : list Z := [a; b; c].
Definition base_headers : list (list Z) := [h3 88 88 58; h3 73 68 58].                       (* XX: ID: *)
Definition net_headers (sw : Z) (drv : Z) : list (list Z) :=
  base_headers ++ [h3 83 65 58; h3 67 72 58; h3 33 66 58; h3 17 17 33; h3 78 78 58;         (* SA: CH: !B: ^Q^Q! NN: *)
                   h3 68 drv 58; h3 83 sw 58; h3 47 sw 58; h3 45 sw 58].                     (* D?: S?: /?: -?: *)

Definition fast_headers (p : fastproc) : list (list Z) :=
  match p with
  | PNeuron | PRetro => net_headers 76 76                  (* L *)
  | PNano => net_headers 78 78                             (* N *)
  | PExp => base_headers ++ [h3 66 82 58]                  (* BR: *)
  | PRgb => base_headers ++ [h3 33 66 58]                  (* !B: *)
  | PDmd | PSeg | PAud | PEmu => base_headers
  end.

Definition fast_ignored (p : fastproc) : list (list Z) :=
  match p with
  | PNeuron => [[87;68;58;80]; [84;76;58;80]]                                   (* WD:P TL:P *)
  | PNano => [[87;68;58;80]; [84;78;58;80]]                                     (* WD:P TN:P *)
  | PRetro => [[87;68;58;80]; [84;76;58;80]; [76;49;58;80]; [71;73;58;80]]      (* WD:P TL:P L1:P GI:P *)
  | PExp => [[88;88;58;70]]                                                     (* XX:F *)
  | PAud => [[65;86;58]; [65;83;58]; [65;72;58]; [65;77;58]]                    (* AV: AS: AH: AM: (whole message) *)
  | PRgb => [[82;88;58;80]]                                                     (* RX:P *)
  | PDmd | PSeg | PEmu => []
  end.

(* _dispatch_incoming_msg: which processor gets which payload *)
Definition route (p : fastproc) (msg : list Z) : option (list Z * list Z) :=
  if existsb (zs_eqb msg) (fast_ignored p) then None
  else if existsb (zs_eqb (firstn 3 msg)) (fast_headers p) then Some (firstn 3 msg, skipn 3 msg)
  else None.

Fixpoint routes (p : fastproc) (ms : list (list Z)) : list (list Z * list Z) :=
  match ms with
  | [] => []
  | m :: t => match route p m with Some r => r :: routes p t | None => routes p t end
  end.

(* bytes in, processor calls out *)
Definition fast_routed (p : fastproc) (chunks : list (list Z)) : list (list Z * list Z) * bool :=
  let '(ms, dead) := reader_chunks 13 [] chunks in (routes p ms, dead).

(* ---- FAST switch reports from bytes ---- *)
Definition hexval (c : Z) : option Z :=
  if (48 <=? c) && (c <=? 57) then Some (c - 48)
  else if (65 <=? c) && (c <=? 70) then Some (c - 55)
  else if (97 <=? c) && (c <=? 102) then Some (c - 87)
  else None.

Fixpoint hexbytes (l : list Z) : option (list Z) :=
  match l with
  | [] => Some []
  | a :: b :: t =>
      match hexval a, hexval b, hexbytes t with
      | Some x, Some y, Some r => Some (16 * x + y :: r)
      | _, _, _ => None
      end
  | _ => None
  end.

Fixpoint hexnum (l : list Z) (acc : Z) : option Z :=
  match l with
  | [] => Some acc
  | a :: t => match hexval a with Some x => hexnum t (16 * acc + x) | None => None end
  end.

Definition byte_bits (b : Z) : list Z :=
  map (fun i => if Z.testbit b i then 1 else 0) [0; 1; 2; 3; 4; 5; 6; 7].
Fixpoint bits_of (bs : list Z) : list Z :=
  match bs with [] => [] | b :: t => byte_bits b ++ bits_of t end.

(* the text after the single comma of an SA: payload *)
Fixpoint after_comma (l : list Z) : option (list Z) :=
  match l with
  | [] => None
  | c :: t => if c =? 44 then (if existsb (Z.eqb 44) t then None else Some t) else after_comma t
  end.

(* sw = the letter of the switch command: 'L' (76) Neuron/Retro, 'N' (78) Nano.  None = not a switch report
   (or, for the three report headers, a payload outside the domain "one comma + hex pairs" / "hex number") *)
Definition fast_decode (sw : Z) (msg : list Z) : option fop :=
  let h := firstn 3 msg in
  let pl := skipn 3 msg in
  if zs_eqb h [83; 65; 58] then
    match after_comma pl with
    | Some hx => match hexbytes hx with Some bs => Some (FSnap (bits_of bs)) | None => None end
    | None => None
    end
  else if zs_eqb h [45; sw; 58] then
    match pl with [] => None | _ => match hexnum pl 0 with Some n => Some (FClosed n) | None => None end end
  else if zs_eqb h [47; sw; 58] then
    match pl with [] => None | _ => match hexnum pl 0 with Some n => Some (FOpen n) | None => None end end
  else None.

Fixpoint decode_all (sw : Z) (ms : list (list Z)) : list fop :=
  match ms with
  | [] => []
  | m :: t => match fast_decode sw m with Some op => op :: decode_all sw t | None => decode_all sw t end
  end.

(* switch states held by the SwitchController after the reads [chunks] *)
Definition fast_e2e (sw : Z) (m0 : fsw) (chunks : list (list Z)) : fsw :=
  fold_left fstep (decode_all sw (fst (reader_chunks 13 [] chunks))) m0.

Definition states_of (m : fsw) : list Z := map (fun e => snd (snd e)) m.

(* correspondence: the states after every read *)
Definition faste2e_run (i : fsw * list (list Z)) : list (list Z) :=
  let '(m0, chunks) := i in
  map (fun k => states_of (fast_e2e 76 m0 (firstn k chunks))) (seq 1 (length chunks)).

(* ---- PKONE: every delimiter decrements messages_in_flight (reset to 0 below 0); send_ready is set when the
        decremented value is <= max_messages_in_flight ---- *)
Fixpoint pk_flow (k : nat) (n mx : Z) (ready : bool) : Z * bool :=
  match k with
  | O => (n, ready)
  | S k' => let v := n - 1 in pk_flow k' (if v <? 0 then 0 else v) mx (ready || (v <=? mx))
  end.

Definition count_delim (d : Z) (bs : list Z) : nat := length (filter (Z.eqb d) bs).

Definition pk_inflight (n mx : Z) (chunks : list (list Z)) : Z * bool :=
  fold_left (fun st c => pk_flow (count_delim 69 c) (fst st) mx (snd st)) chunks (n, false).

(* glue for the correspondence check of suite `route` *)
Definition route_eqb (a b : list Z * list Z) : bool := zs_eqb (fst a) (fst b) && zs_eqb (snd a) (snd b).

Inductive route_in :=
| RFast (p : fastproc) (chunks : list (list Z))
| RPkone (n mx : Z) (chunks : list (list Z)).

Record route_out := { ro_calls : list (list Z * list Z); ro_dead : bool; ro_n : Z; ro_ready : bool }.

Definition route_run (i : route_in) : route_out :=
  match i with
  | RFast p chunks => let '(r, dead) := fast_routed p chunks in
                      {| ro_calls := r; ro_dead := dead; ro_n := 0; ro_ready := false |}
  | RPkone n mx chunks => let '(n', rd) := pk_inflight n mx chunks in
                          {| ro_calls := []; ro_dead := false; ro_n := n'; ro_ready := rd |}
  end.

Definition route_out_eqb (a b : route_out) : bool :=
  list_eqb route_eqb (ro_calls a) (ro_calls b) && Bool.eqb (ro_dead a) (ro_dead b) && (ro_n a =? ro_n b) &&
  Bool.eqb (ro_ready a) (ro_ready b).
