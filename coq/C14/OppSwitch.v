(* C14/OppSwitch.v — OPP, from delivered frames to the SwitchController: the process_switch_by_num calls made by
   read_gen2_inp_resp keep the controller's view equal (active low) to the last CRC-valid report of the card *)
From Common Require Import Prelude.
From C14 Require Import Crc Model Lemmas.
Open Scope Z_scope.

(* the SwitchController's state of switch (card address a, input i) under a sequence of process_switch_by_num calls *)
Definition sw_apply (a i : Z) (st : Z) (ev : Z * Z * Z) : Z :=
  let '(a', i', s) := ev in if (a' =? a) && (i' =? i) then s else st.
Definition sw_after (evs : list (Z * Z * Z)) (a i st0 : Z) : Z := fold_left (sw_apply a i) evs st0.
Definition active_low (v i : Z) : Z := if Z.testbit v i then 0 else 1.

Lemma sw_after_app : forall x y a i st, sw_after (x ++ y) a i st = sw_after y a i (sw_after x a i st).
Proof. intros. unfold sw_after. apply fold_left_app. Qed.

Lemma bit_events_track : forall n addr old new base idx a i st,
  sw_after (bit_events addr old new base idx n) a i st =
  if (addr =? a) && (base + idx <=? i) && (i <? base + idx + Z.of_nat n) &&
     negb (Bool.eqb (Z.testbit old (i - base)) (Z.testbit new (i - base)))
  then active_low new (i - base) else st.
Proof.
  induction n as [|n IH]; intros addr old new base idx a i st.
  - cbn [bit_events sw_after fold_left].
    destruct (addr =? a); cbn [andb]; [|reflexivity].
    destruct (base + idx <=? i) eqn:E1; cbn [andb]; [|reflexivity].
    destruct (i <? base + idx + Z.of_nat 0) eqn:E2; cbn [andb]; [|reflexivity].
    apply Z.leb_le in E1. apply Z.ltb_lt in E2. lia.
  - cbn [bit_events].
    assert (R : forall st', sw_after (bit_events addr old new base (idx + 1) n) a i st' =
                if (addr =? a) && (base + (idx + 1) <=? i) && (i <? base + (idx + 1) + Z.of_nat n) &&
                   negb (Bool.eqb (Z.testbit old (i - base)) (Z.testbit new (i - base)))
                then active_low new (i - base) else st') by (intros; apply IH).
    unfold sw_after in *.
    destruct (Z.eq_dec i (base + idx)) as [Hi|Hi].
    + (* the bit handled in this iteration *)
      assert (Ei : i - base = idx) by lia.
      assert (C1 : (base + idx <=? i) = true) by (apply Z.leb_le; lia).
      assert (C2 : (i <? base + idx + Z.of_nat (S n)) = true) by (apply Z.ltb_lt; lia).
      assert (C3 : (base + (idx + 1) <=? i) = false) by (apply Z.leb_gt; lia).
      rewrite C1, C2, Ei. destruct (Bool.eqb (Z.testbit old idx) (Z.testbit new idx)) eqn:B.
      * rewrite R, C3. destruct (addr =? a); cbn [andb negb]; reflexivity.
      * cbn [fold_left sw_apply].
        rewrite R, C3. replace (base + idx =? i) with true by (symmetry; apply Z.eqb_eq; lia).
        destruct (addr =? a); cbn [andb negb]; unfold active_low; reflexivity.
    + (* another bit: this iteration does not touch it, and the range test agrees *)
      assert (C : ((base + idx <=? i) && (i <? base + idx + Z.of_nat (S n))) =
                  ((base + (idx + 1) <=? i) && (i <? base + (idx + 1) + Z.of_nat n))).
      { destruct (base + idx <=? i) eqn:E1; destruct (base + (idx + 1) <=? i) eqn:E2;
          destruct (i <? base + idx + Z.of_nat (S n)) eqn:E3; destruct (i <? base + (idx + 1) + Z.of_nat n) eqn:E4;
          try reflexivity; exfalso;
          repeat match goal with
                 | H : (_ <=? _) = true |- _ => apply Z.leb_le in H
                 | H : (_ <=? _) = false |- _ => apply Z.leb_gt in H
                 | H : (_ <? _) = true |- _ => apply Z.ltb_lt in H
                 | H : (_ <? _) = false |- _ => apply Z.ltb_ge in H
                 end; lia. }
      rewrite <- !andb_assoc. rewrite (andb_assoc (base + idx <=? i)), C. rewrite <- !andb_assoc.
      destruct (Bool.eqb (Z.testbit old idx) (Z.testbit new idx)).
      * rewrite R, <- !andb_assoc. reflexivity.
      * cbn [fold_left sw_apply].
        assert (N : (base + idx =? i) = false) by (apply Z.eqb_neq; lia).
        rewrite N, andb_false_r. rewrite R, <- !andb_assoc. reflexivity.
Qed.

Lemma active_low_same : forall old new i,
  Bool.eqb (Z.testbit old i) (Z.testbit new i) = true -> active_low old i = active_low new i.
Proof. intros old new i H. apply eqb_prop in H. unfold active_low. rewrite H. reflexivity. Qed.

Transparent frame_crc_ok bit_events be_value.

Lemma apply_frame_tracks_inp : forall bd f a old i,
  aget a (b_inp bd) = Some old -> 0 <= i < 32 ->
  exists old', aget a (b_inp (fst (apply_frame bd f))) = Some old' /\
               sw_after (snd (apply_frame bd f)) a i (active_low old i) = active_low old' i.
Proof.
  intros bd f a old i G Hi. unfold apply_frame.
  destruct f as [|a0 [|c rest]]; try (exists old; split; [exact G|reflexivity]).
  destruct (frame_crc_ok (a0 :: c :: rest)); [|exists old; split; [exact G|reflexivity]].
  set (v := be_value (removelast rest) 0).
  destruct (c =? cmd_read_gen2_inp).
  - destruct (aget a0 (b_inp bd)) as [o|] eqn:G0; [|exists old; split; [exact G|reflexivity]].
    cbn [fst snd b_inp]. rewrite aget_aset, bit_events_track.
    destruct (a =? a0) eqn:E.
    + apply Z.eqb_eq in E. subst a0. rewrite G0 in G. inversion G; subst o. rewrite G0.
      exists v. split; [reflexivity|]. rewrite Z.eqb_refl. cbn [andb].
      replace (0 + 0 <=? i) with true by (symmetry; apply Z.leb_le; lia).
      replace (i <? 0 + 0 + Z.of_nat 32) with true by (symmetry; apply Z.ltb_lt; lia).
      cbn [andb]. rewrite Z.sub_0_r.
      destruct (Bool.eqb (Z.testbit old i) (Z.testbit v i)) eqn:B; cbn [negb]; [|reflexivity].
      apply active_low_same, B.
    + exists old. split; [exact G|]. rewrite Z.eqb_sym, E. reflexivity.
  - destruct (aget a0 (b_mat bd)) as [o|]; [|exists old; split; [exact G|reflexivity]].
    cbn [fst snd b_inp]. exists old. split; [exact G|]. rewrite bit_events_track.
    replace (32 + 0 <=? i) with false by (symmetry; apply Z.leb_gt; lia).
    rewrite andb_false_r. reflexivity.
Qed.

Lemma apply_frames_tracks_inp : forall fs bd a old i,
  aget a (b_inp bd) = Some old -> 0 <= i < 32 ->
  exists old', aget a (b_inp (fst (apply_frames bd fs))) = Some old' /\
               sw_after (snd (apply_frames bd fs)) a i (active_low old i) = active_low old' i.
Proof.
  induction fs as [|f t IH]; intros bd a old i G Hi.
  - exists old. split; [exact G|reflexivity].
  - cbn [apply_frames].
    destruct (apply_frame_tracks_inp bd f a old i G Hi) as (o1 & G1 & S1).
    destruct (apply_frame bd f) as [bd1 e1]. cbn [fst snd] in *.
    destruct (IH bd1 a o1 i G1 Hi) as (o2 & G2 & S2).
    destruct (apply_frames bd1 t) as [bd2 e2]. cbn [fst snd] in *.
    exists o2. split; [exact G2|]. rewrite sw_after_app, S1. exact S2.
Qed.

(* END TO END for an OPP input card: if the SwitchController agreed with the card's old state (active low), then after
   ANY delivered frames (valid, corrupt, for other cards, matrix reports) it agrees with the last CRC-valid report *)
Lemma opp_switch_state_last_report_l : forall fs bd a old i,
  aget a (b_inp bd) = Some old -> 0 <= i < 32 ->
  sw_after (snd (apply_frames bd fs)) a i (active_low old i) = active_low (last_inp a fs old) i.
Proof.
  intros fs bd a old i G Hi.
  destruct (apply_frames_tracks_inp fs bd a old i G Hi) as (o & Go & So).
  rewrite (last_report_wins_inp_l fs bd a old G) in Go. inversion Go; subst o. exact So.
Qed.

(* from bytes: the same for any reads, via the framing refinement *)
Lemma opp_bytes_switch_state_l : forall c1 c2 bd a old i,
  concat c1 = concat c2 -> aget a (b_inp bd) = Some old -> 0 <= i < 32 ->
  let fs1 := snd (opp_feed_chunks opp_init c1) in
  let fs2 := snd (opp_feed_chunks opp_init c2) in
  fs1 = fs2 /\
  sw_after (snd (apply_frames bd fs1)) a i (active_low old i) = active_low (last_inp a fs2 old) i.
Proof.
  intros c1 c2 bd a old i E G Hi fs1 fs2.
  destruct (chunking_independent_opp_l opp_init c1 c2 opp_init_settled E) as [F _].
  split; [exact F|]. fold fs1 fs2 in F. rewrite <- F. apply opp_switch_state_last_report_l; assumption.
Qed.

Example ex_opp_switch :
  let bd := {| b_inp := [(32, 4294967295)]; b_mat := [] |} in
  let fs := [ex_frame7; [32; 8; 0; 0; 0; 4; 0]] in
  frame_crc_ok ex_frame7 = true /\ frame_crc_ok [32; 8; 0; 0; 0; 4; 0] = false /\
  last_inp 32 fs 4294967295 = 5 /\
  sw_after (snd (apply_frames bd fs)) 32 1 (active_low 4294967295 1) = 1 /\
  sw_after (snd (apply_frames bd fs)) 32 0 (active_low 4294967295 0) = 0.
Proof. vm_compute. repeat split; reflexivity. Qed.
