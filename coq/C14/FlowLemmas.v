(* C14/FlowLemmas.v — proofs about the FAST command channel model (Flow.v) *)
From Common Require Import Prelude.
From C14 Require Import Crc Model Flow.
Open Scope Z_scope.

(* ---- the writer as found never holds anything back ---- *)
Definition last_conf (q : list (Z * option (list Z))) (p : option (list Z)) : option (list Z) :=
  fold_left (fun p x => match snd x with Some u => Some u | None => p end) q p.

Lemma drain_false_eq : forall q p w,
  drain false q p w = {| w_queue := []; w_paused := last_conf q p; w_written := w ++ q |}.
Proof.
  induction q as [|[m c] q IH]; intros p w; cbn [drain last_conf fold_left snd].
  - rewrite app_nil_r. reflexivity.
  - destruct p as [u|].
    + rewrite IH. unfold last_conf. rewrite <- app_assoc. reflexivity.
    + rewrite IH. unfold last_conf. rewrite <- app_assoc. destruct c; reflexivity.
Qed.

Lemma xdrain_eq : forall s,
  xdrain s = {| x_queue := []; x_paused := last_conf (x_queue s) (x_paused s);
                x_written := x_written s ++ x_queue s; x_nrw := x_nrw s; x_waiters := x_waiters s;
                x_dw := x_dw s; x_dwait := x_dwait s; x_fin := x_fin s; x_now := x_now s |}.
Proof. intros s. unfold xdrain. rewrite drain_false_eq. reflexivity. Qed.

Lemma xstep_queue_empty : forall cfg s op, x_queue (xstep cfg s op) = [].
Proof. intros. unfold xstep. rewrite xdrain_eq. reflexivity. Qed.

Lemma xrun_queue_empty : forall cfg ops s, x_queue s = [] -> x_queue (xrun cfg s ops) = [].
Proof.
  intros cfg ops. induction ops as [|op t IH]; intros s H; cbn [xrun fold_left]; [exact H|].
  apply IH. apply xstep_queue_empty.
Qed.

(* ---- order: written ++ queue only ever grows at its end ---- *)
Definition pend (s : xst) := x_written s ++ x_queue s.
Definition ext (s s' : xst) : Prop := exists suf, pend s' = pend s ++ suf.

Lemma ext_refl : forall s, ext s s.
Proof. intros s. exists []. rewrite app_nil_r. reflexivity. Qed.
Lemma ext_trans : forall a b c, ext a b -> ext b c -> ext a c.
Proof. intros a b c [x Hx] [y Hy]. exists (x ++ y). rewrite Hy, Hx, app_assoc. reflexivity. Qed.
Lemma ext_same : forall s s', pend s' = pend s -> ext s s'.
Proof. intros s s' H. exists []. rewrite app_nil_r. exact H. Qed.

Lemma ext_await_done : forall s m, ext s (await_done s m).
Proof. intros s m. apply ext_same. unfold await_done. destruct (x_dw s); reflexivity. Qed.

Lemma ext_pass_gate : forall s m u t, ext s (pass_gate s m u t).
Proof.
  intros s m u t. unfold pass_gate. destruct t.
  - eapply ext_trans; [|apply ext_await_done]. exists [(m, Some u)]. unfold pend; cbn. apply app_assoc.
  - exists [(m, Some u)]. unfold pend; cbn. apply app_assoc.
Qed.

Lemma ext_attempt : forall s w, ext s (attempt s w).
Proof. intros s w. unfold attempt. destruct (x_nrw s); [apply ext_pass_gate|apply ext_same; reflexivity]. Qed.

Lemma ext_release : forall ws s, ext s (release ws s).
Proof.
  induction ws as [|w t IH]; intros s; cbn [release]; [apply ext_refl|].
  eapply ext_trans; [apply ext_pass_gate|apply IH].
Qed.

Lemma ext_set_nrw : forall s, ext s (set_nrw s).
Proof. intros s. unfold set_nrw. eapply ext_trans; [|apply ext_release]. apply ext_same. reflexivity. Qed.

Lemma ext_dispatch : forall cfg s msg, ext s (dispatch_msg cfg s msg).
Proof.
  intros cfg s msg. unfold dispatch_msg. destruct (ignoredb cfg msg); [apply ext_refl|].
  set (s1 := match proc_of cfg msg with Some c => set_nrw (if c then set_dw s else s) | None => s end).
  assert (E : ext s s1).
  { unfold s1. destruct (proc_of cfg msg) as [[|]|].
    - eapply ext_trans; [|apply ext_set_nrw]. apply ext_same. reflexivity.
    - apply ext_set_nrw.
    - apply ext_refl. }
  destruct (x_paused s1) as [u|]; [|exact E].
  destruct (zs_prefixb (hdr3 msg) u); [|exact E].
  eapply ext_trans; [exact E|]. apply ext_same. reflexivity.
Qed.

Lemma ext_xdrain : forall s, ext s (xdrain s).
Proof. intros s. apply ext_same. rewrite xdrain_eq. unfold pend; cbn. rewrite app_nil_r. reflexivity. Qed.

Lemma ext_expire : forall s t, ext s (expire s t).
Proof.
  intros s t. unfold expire. destruct (take_due t (x_waiters s)) as [[w|] rest]; [|apply ext_refl].
  match goal with |- context [if ?c then _ else _] => destruct c end.
  - eapply ext_trans; [|apply ext_attempt]. apply ext_same. reflexivity.
  - eapply ext_trans; [|apply ext_await_done]. apply ext_same. reflexivity.
Qed.

Lemma ext_adv_loop : forall fuel s target, ext s (adv_loop fuel s target).
Proof.
  induction fuel as [|f IH]; intros s target; cbn [adv_loop]; [apply ext_refl|].
  destruct (min_deadline (x_waiters s)) as [t|]; [|apply ext_refl].
  destruct (t <=? target); [|apply ext_refl].
  eapply ext_trans; [apply ext_expire|]. eapply ext_trans; [apply ext_xdrain|]. apply IH.
Qed.

Lemma ext_xpre : forall cfg s op, ext s (xpre cfg s op).
Proof.
  intros cfg s op. destruct op as [m c|m u|m u tmo r|msg|d]; cbn [xpre].
  - exists [(m, c)]. unfold pend; cbn. apply app_assoc.
  - apply ext_attempt.
  - match goal with |- context [if ?c then _ else _] => destruct c end.
    + eapply ext_trans; [|apply ext_attempt]. apply ext_same. reflexivity.
    + eapply ext_trans; [|apply ext_await_done]. apply ext_same. reflexivity.
  - apply ext_dispatch.
  - eapply ext_trans; [apply ext_adv_loop|]. apply ext_same. reflexivity.
Qed.

Lemma ext_xstep : forall cfg s op, ext s (xstep cfg s op).
Proof. intros. unfold xstep. eapply ext_trans; [apply ext_xpre|apply ext_xdrain]. Qed.

Lemma flow_order_l : forall cfg ops s,
  exists suf, x_written (xrun cfg s ops) ++ x_queue (xrun cfg s ops) = (x_written s ++ x_queue s) ++ suf.
Proof.
  intros cfg ops. induction ops as [|op t IH]; intros s; cbn [xrun fold_left].
  - exists []. rewrite app_nil_r. reflexivity.
  - destruct (IH (xstep cfg s op)) as [y Hy]. destruct (ext_xstep cfg s op) as [x Hx].
    exists (x ++ y). unfold xrun in Hy. rewrite Hy. unfold pend in Hx. rewrite Hx, app_assoc. reflexivity.
Qed.

(* ---- the pause state never influences anything else ---- *)
Definition forget (s : xst) : xst := set_paused s None.
Definition eqp (s1 s2 : xst) : Prop := forget s1 = forget s2.

Ltac eqp_crush :=
  match goal with
  | H : eqp ?a ?b |- _ =>
      destruct a, b; unfold eqp, forget, set_paused in H; cbn in H; injection H as; subst
  end.

Lemma eqp_refl : forall s, eqp s s. Proof. reflexivity. Qed.
Lemma eqp_trans : forall a b c, eqp a b -> eqp b c -> eqp a c.
Proof. unfold eqp; intros; congruence. Qed.
Lemma eqp_sym : forall a b, eqp a b -> eqp b a.
Proof. unfold eqp; intros; congruence. Qed.

Lemma eqp_fields : forall a b, eqp a b ->
  x_queue a = x_queue b /\ x_written a = x_written b /\ x_nrw a = x_nrw b /\ x_waiters a = x_waiters b /\
  x_dw a = x_dw b /\ x_dwait a = x_dwait b /\ x_fin a = x_fin b /\ x_now a = x_now b.
Proof. intros a b H. eqp_crush. cbn. repeat split; reflexivity. Qed.

Lemma eqp_await_done : forall a b m, eqp a b -> eqp (await_done a m) (await_done b m).
Proof. intros a b m H. eqp_crush. unfold await_done; cbn. destruct x_dw0; reflexivity. Qed.

Lemma eqp_pass_gate : forall a b m u t, eqp a b -> eqp (pass_gate a m u t) (pass_gate b m u t).
Proof.
  intros a b m u t H. unfold pass_gate. destruct t.
  - apply eqp_await_done. eqp_crush. reflexivity.
  - eqp_crush. reflexivity.
Qed.

Lemma eqp_attempt : forall a b w, eqp a b -> eqp (attempt a w) (attempt b w).
Proof.
  intros a b w H. unfold attempt. destruct (eqp_fields a b H) as (_ & _ & E & _). rewrite E.
  destruct (x_nrw b); [apply eqp_pass_gate; exact H|]. eqp_crush. reflexivity.
Qed.

Lemma eqp_release : forall ws a b, eqp a b -> eqp (release ws a) (release ws b).
Proof. induction ws as [|w t IH]; intros a b H; cbn [release]; [exact H|]. apply IH, eqp_pass_gate, H. Qed.

Lemma eqp_set_nrw : forall a b, eqp a b -> eqp (set_nrw a) (set_nrw b).
Proof.
  intros a b H. unfold set_nrw. destruct (eqp_fields a b H) as (_ & _ & _ & E & _). rewrite E.
  apply eqp_release. eqp_crush. reflexivity.
Qed.

Lemma eqp_set_dw : forall a b, eqp a b -> eqp (set_dw a) (set_dw b).
Proof. intros a b H. eqp_crush. reflexivity. Qed.

Lemma eqp_set_paused_l : forall a p, eqp (set_paused a p) a.
Proof. intros a p. destruct a. reflexivity. Qed.

Lemma eqp_dispatch : forall cfg a b msg, eqp a b -> eqp (dispatch_msg cfg a msg) (dispatch_msg cfg b msg).
Proof.
  intros cfg a b msg H. unfold dispatch_msg. destruct (ignoredb cfg msg); [exact H|].
  set (a1 := match proc_of cfg msg with Some c => set_nrw (if c then set_dw a else a) | None => a end).
  set (b1 := match proc_of cfg msg with Some c => set_nrw (if c then set_dw b else b) | None => b end).
  assert (E : eqp a1 b1).
  { unfold a1, b1. destruct (proc_of cfg msg) as [[|]|].
    - apply eqp_set_nrw, eqp_set_dw, H.
    - apply eqp_set_nrw, H.
    - exact H. }
  assert (Ea : eqp (match x_paused a1 with
                    | Some u => if zs_prefixb (hdr3 msg) u then set_paused a1 None else a1
                    | None => a1 end) a1).
  { destruct (x_paused a1) as [u|]; [|apply eqp_refl].
    destruct (zs_prefixb (hdr3 msg) u); [apply eqp_set_paused_l|apply eqp_refl]. }
  assert (Eb : eqp (match x_paused b1 with
                    | Some u => if zs_prefixb (hdr3 msg) u then set_paused b1 None else b1
                    | None => b1 end) b1).
  { destruct (x_paused b1) as [u|]; [|apply eqp_refl].
    destruct (zs_prefixb (hdr3 msg) u); [apply eqp_set_paused_l|apply eqp_refl]. }
  eapply eqp_trans; [exact Ea|]. eapply eqp_trans; [exact E|]. apply eqp_sym, Eb.
Qed.

Lemma eqp_xdrain : forall a b, eqp a b -> eqp (xdrain a) (xdrain b).
Proof. intros a b H. rewrite !xdrain_eq. eqp_crush. reflexivity. Qed.

Lemma eqp_expire : forall a b t, eqp a b -> eqp (expire a t) (expire b t).
Proof.
  intros a b t H. unfold expire. destruct (eqp_fields a b H) as (_ & _ & _ & E & _). rewrite E.
  destruct (take_due t (x_waiters b)) as [[w|] rest]; [|exact H].
  assert (E1 : eqp (set_waiters a rest) (set_waiters b rest)) by (eqp_crush; reflexivity).
  match goal with |- context [if ?c then _ else _] => destruct c end.
  - apply eqp_attempt, E1.
  - apply eqp_await_done, E1.
Qed.

Lemma eqp_adv_loop : forall fuel a b target, eqp a b -> eqp (adv_loop fuel a target) (adv_loop fuel b target).
Proof.
  induction fuel as [|f IH]; intros a b target H; cbn [adv_loop]; [exact H|].
  destruct (eqp_fields a b H) as (_ & _ & _ & E & _). rewrite E.
  destruct (min_deadline (x_waiters b)) as [t|]; [|exact H].
  destruct (t <=? target); [|exact H].
  apply IH, eqp_xdrain, eqp_expire, H.
Qed.

Lemma eqp_xpre : forall cfg a b op, eqp a b -> eqp (xpre cfg a op) (xpre cfg b op).
Proof.
  intros cfg a b op H. destruct op as [m c|m u|m u tmo r|msg|d]; cbn [xpre].
  - eqp_crush. reflexivity.
  - apply eqp_attempt, H.
  - destruct (eqp_fields a b H) as (_ & _ & _ & _ & _ & _ & _ & En). rewrite En.
    assert (E1 : eqp (clear_dw a) (clear_dw b)) by (eqp_crush; reflexivity).
    match goal with |- context [if ?c then _ else _] => destruct c end.
    + apply eqp_attempt, E1.
    + apply eqp_await_done, E1.
  - apply eqp_dispatch, H.
  - destruct (eqp_fields a b H) as (_ & _ & _ & Ew & _ & _ & _ & En). rewrite En, Ew.
    pose proof (eqp_adv_loop ((Z.to_nat d + 1) * (length (x_waiters b) + 1)) a b (x_now b + d) H) as E1.
    revert E1. generalize (adv_loop ((Z.to_nat d + 1) * (length (x_waiters b) + 1)) a (x_now b + d)).
    generalize (adv_loop ((Z.to_nat d + 1) * (length (x_waiters b) + 1)) b (x_now b + d)).
    intros y x E1. clear H. rename E1 into H. eqp_crush. reflexivity.
Qed.

Lemma eqp_xstep : forall cfg a b op, eqp a b -> eqp (xstep cfg a op) (xstep cfg b op).
Proof. intros. unfold xstep. apply eqp_xdrain, eqp_xpre. assumption. Qed.

Lemma xdrain_idle : forall s, x_queue s = [] -> xdrain s = s.
Proof. intros s H. rewrite xdrain_eq. destruct s; cbn in *. subst. cbn. rewrite app_nil_r. reflexivity. Qed.

(* a message that reaches no message processor (a pure confirmation, an ignored or an unknown message) changes
   nothing but the pause state *)
Lemma unprocessed_only_pause : forall cfg s msg,
  processedb cfg msg = false -> x_queue s = [] -> eqp (xstep cfg s (XRx msg)) s.
Proof.
  intros cfg s msg P Q. unfold xstep. cbn [xpre]. unfold dispatch_msg. unfold processedb in P.
  destruct (ignoredb cfg msg); cbn [negb andb] in P.
  - rewrite xdrain_idle by exact Q. apply eqp_refl.
  - destruct (proc_of cfg msg); [discriminate|].
    destruct (x_paused s) as [u|]; [|rewrite xdrain_idle by exact Q; apply eqp_refl].
    destruct (zs_prefixb (hdr3 msg) u); [|rewrite xdrain_idle by exact Q; apply eqp_refl].
    rewrite xdrain_idle by (destruct s; exact Q). apply eqp_set_paused_l.
Qed.

(* the history with every such message removed *)
Fixpoint erase_unprocessed (cfg : fcfg) (ops : list xop) : list xop :=
  match ops with
  | [] => []
  | XRx msg :: t => if processedb cfg msg then XRx msg :: erase_unprocessed cfg t else erase_unprocessed cfg t
  | op :: t => op :: erase_unprocessed cfg t
  end.

Lemma confirmations_irrelevant_gen : forall cfg ops s1 s2,
  eqp s1 s2 -> x_queue s1 = [] -> x_queue s2 = [] ->
  eqp (xrun cfg s1 ops) (xrun cfg s2 (erase_unprocessed cfg ops)).
Proof.
  intros cfg ops. induction ops as [|op t IH]; intros s1 s2 E Q1 Q2; [exact E|].
  assert (Step : eqp (xrun cfg (xstep cfg s1 op) t) (xrun cfg (xstep cfg s2 op) (erase_unprocessed cfg t))).
  { apply IH; [apply eqp_xstep, E|apply xstep_queue_empty|apply xstep_queue_empty]. }
  destruct op as [m c|m u|m u tmo r|msg|d]; cbn [erase_unprocessed]; try exact Step.
  destruct (processedb cfg msg) eqn:P; [exact Step|].
  change (xrun cfg s1 (XRx msg :: t)) with (xrun cfg (xstep cfg s1 (XRx msg)) t).
  apply IH; [|apply xstep_queue_empty|exact Q2].
  eapply eqp_trans; [apply unprocessed_only_pause; assumption|exact E].
Qed.

Lemma confirmations_irrelevant_l : forall cfg ops,
  let a := xrun cfg xinit ops in
  let b := xrun cfg xinit (erase_unprocessed cfg ops) in
  x_written a = x_written b /\ x_fin a = x_fin b /\ x_waiters a = x_waiters b /\ x_nrw a = x_nrw b /\
  x_dwait a = x_dwait b.
Proof.
  intros cfg ops a b.
  destruct (eqp_fields a b (confirmations_irrelevant_gen cfg ops xinit xinit (eqp_refl _) eq_refl eq_refl))
    as (_ & Hw & Hn & Hwt & _ & Hd & Hf & _).
  repeat split; assumption.
Qed.

(* ---- liveness as found: the next processed message releases every blocked caller ---- *)
Lemma await_done_keeps : forall s m,
  x_waiters (await_done s m) = x_waiters s /\ x_queue (await_done s m) = x_queue s.
Proof. intros s m. unfold await_done. destruct (x_dw s); split; reflexivity. Qed.

Lemma pass_gate_keeps : forall s m u t,
  x_waiters (pass_gate s m u t) = x_waiters s /\ x_queue (pass_gate s m u t) = x_queue s ++ [(m, Some u)].
Proof.
  intros s m u t. unfold pass_gate. destruct t.
  - destruct (await_done_keeps
                {| x_queue := x_queue s ++ [(m, Some u)]; x_paused := x_paused s; x_written := x_written s;
                   x_nrw := false; x_waiters := x_waiters s; x_dw := x_dw s; x_dwait := x_dwait s;
                   x_fin := x_fin s; x_now := x_now s |} m) as [A B].
    rewrite A, B. split; reflexivity.
  - split; reflexivity.
Qed.

Lemma release_keeps : forall ws s,
  x_waiters (release ws s) = x_waiters s /\
  x_queue (release ws s) = x_queue s ++ map (fun w => (wt_m w, Some (wt_u w))) ws.
Proof.
  induction ws as [|w t IH]; intros s; cbn [release map].
  - rewrite app_nil_r. split; reflexivity.
  - destruct (IH (pass_gate s (wt_m w) (wt_u w) (wt_timed w))) as [A B].
    destruct (pass_gate_keeps s (wt_m w) (wt_u w) (wt_timed w)) as [C D].
    rewrite A, B, C, D, <- app_assoc. split; reflexivity.
Qed.

Lemma processed_releases_all_l : forall cfg s msg,
  processedb cfg msg = true ->
  x_waiters (xstep cfg s (XRx msg)) = [] /\
  forall w, In w (x_waiters s) -> In (wt_m w, Some (wt_u w)) (x_written (xstep cfg s (XRx msg))).
Proof.
  intros cfg s msg P. unfold processedb in P. apply andb_true_iff in P as [P1 P2].
  unfold xstep. cbn [xpre]. rewrite xdrain_eq. cbn [x_waiters x_written]. unfold dispatch_msg.
  destruct (ignoredb cfg msg); [discriminate|]. destruct (proc_of cfg msg) as [c|]; [|discriminate].
  set (s0 := if c then set_dw s else s).
  assert (W0 : x_waiters s0 = x_waiters s) by (unfold s0; destruct c; reflexivity).
  assert (R : x_waiters (set_nrw s0) = [] /\
              x_queue (set_nrw s0) = x_queue s0 ++ map (fun w => (wt_m w, Some (wt_u w))) (x_waiters s)).
  { unfold set_nrw. rewrite W0.
    match goal with |- context [release ?ws ?st] => destruct (release_keeps ws st) as [A B] end.
    rewrite A, B. split; reflexivity. }
  destruct R as [RA RB].
  assert (K : forall s2, (x_waiters s2 = x_waiters (set_nrw s0) /\ x_queue s2 = x_queue (set_nrw s0) /\
                          x_written s2 = x_written (set_nrw s0)) ->
              x_waiters s2 = [] /\
              forall w, In w (x_waiters s) -> In (wt_m w, Some (wt_u w)) (x_written s2 ++ x_queue s2)).
  { intros s2 (A & B & C). rewrite A, B, RA, RB. split; [reflexivity|]. intros w Hw.
    apply in_or_app. right. apply in_or_app. right.
    apply in_map with (f := fun w => (wt_m w, Some (wt_u w))) in Hw. exact Hw. }
  destruct (x_paused (set_nrw s0)) as [u|]; [|apply K; repeat split].
  destruct (zs_prefixb (hdr3 msg) u); apply K; repeat split.
Qed.

(* ---- witnesses ---- *)
Definition cfg_ex : fcfg :=
  {| f_ignored := [[87;68;58;80]]; f_procs := [([83;65;58], true); ([45;76;58], false)] |}.   (* WD:P; SA: -L: *)
Definition SA := [83;65;58].
Definition SLP := [83;76;58;80].

(* one answer lets two further confirmed commands out at once: no "one unconfirmed command in flight" *)
Lemma saw_not_serialised_l :
  exists ops, let s := xrun cfg_ex xinit ops in
    exists s0, s0 = xrun cfg_ex xinit (removelast ops) /\
      map fst (x_written s0) = [1] /\ map fst (x_written s) = [1; 2; 3] /\ x_paused s = Some SA.
Proof.
  exists [XSaw 1 SA; XSaw 2 SA; XSaw 3 SA; XRx (SA ++ [48])].
  eexists; split; [reflexivity|]. vm_compute. repeat split; reflexivity.
Qed.

(* the retry clause is false of the code as found: whatever timeout and max_retries, a command whose response is
   lost is written exactly once and its caller never returns, however much time passes *)
Lemma adv_idle : forall cfg s d, x_waiters s = [] -> x_queue s = [] ->
  xstep cfg s (XAdv d) = set_now s (x_now s + d).
Proof.
  intros cfg s d W Q. unfold xstep. cbn [xpre].
  assert (A : forall fuel, adv_loop fuel s (x_now s + d) = s).
  { intros fuel. destruct fuel; cbn [adv_loop]; [reflexivity|]. rewrite W. reflexivity. }
  rewrite A. apply xdrain_idle. destruct s; exact Q.
Qed.

Lemma lost_response_never_resent_l : forall cfg m u tmo r ds,
  r = -1 \/ 0 <= r ->
  let s := xrun cfg xinit (XSawp m u tmo r :: map XAdv ds) in
  x_written s = [(m, Some u)] /\ x_fin s = [] /\ x_dwait s = [m] /\ x_queue s = [].
Proof.
  intros cfg m u tmo r ds Hr.
  assert (C : (r =? -1) || (0 <=? r) = true).
  { destruct Hr as [->|H]; [reflexivity|]. apply orb_true_iff. right. apply Z.leb_le. exact H. }
  cbn [xrun fold_left].
  assert (F : xstep cfg xinit (XSawp m u tmo r) =
              {| x_queue := []; x_paused := Some u; x_written := [(m, Some u)]; x_nrw := false; x_waiters := [];
                 x_dw := false; x_dwait := [m]; x_fin := []; x_now := 0 |}).
  { unfold xstep. cbn [xpre]. rewrite C. rewrite xdrain_eq. reflexivity. }
  rewrite F. clear F.
  assert (G : forall ds s, x_waiters s = [] -> x_queue s = [] ->
              let s' := fold_left (xstep cfg) (map XAdv ds) s in
              x_written s' = x_written s /\ x_fin s' = x_fin s /\ x_dwait s' = x_dwait s /\ x_queue s' = []).
  { clear. induction ds as [|d t IH]; intros s W Q; cbn [map fold_left].
    - repeat split; try reflexivity. exact Q.
    - rewrite adv_idle by assumption.
      destruct (IH (set_now s (x_now s + d))) as (A & B & D & E); [exact W|exact Q|].
      repeat split; assumption. }
  destruct (G ds {| x_queue := []; x_paused := Some u; x_written := [(m, Some u)]; x_nrw := false; x_waiters := [];
                    x_dw := false; x_dwait := [m]; x_fin := []; x_now := 0 |} eq_refl eq_refl) as (A & B & D & E).
  repeat split; assumption.
Qed.

(* ... and a _processed command can be dropped altogether: both timeouts run out while the answer to an EARLIER
   query is outstanding, the caller goes on to await done_waiting, the command is never queued *)
Lemma sawp_gives_up_unsent_l :
  exists ops, let s := xrun cfg_ex xinit ops in
    map fst (x_written s) = [1] /\ x_fin s = [1; 2] /\ x_waiters s = [] /\ x_nrw s = true.
Proof.
  exists [XSaw 1 SA; XSawp 2 SA 65 1; XAdv 192; XRx (SA ++ [48]); XRx (SA ++ [48]); XAdv 640].
  vm_compute. repeat split; reflexivity.
Qed.

(* ---- satisfiability examples ---- *)
Example ex_flow_confirmations_irrelevant :
  let ops := [XEnq 1 (Some SLP); XSaw 2 SA; XRx SLP; XRx (SA ++ [48]); XSaw 3 SA; XRx SLP] in
  erase_unprocessed cfg_ex ops = [XEnq 1 (Some SLP); XSaw 2 SA; XRx (SA ++ [48]); XSaw 3 SA] /\
  map fst (x_written (xrun cfg_ex xinit ops)) = [1; 2; 3].
Proof. vm_compute. split; reflexivity. Qed.

Example ex_flow_processed_releases :
  let s := xrun cfg_ex xinit [XSaw 1 SA; XSaw 2 SA] in
  processedb cfg_ex (SA ++ [48]) = true /\ length (x_waiters s) = 1%nat /\
  map fst (x_written (xstep cfg_ex s (XRx (SA ++ [48])))) = [1; 2].
Proof. vm_compute. repeat split; reflexivity. Qed.

Example ex_flow_lost_response :
  let s := xrun cfg_ex xinit (XSawp 7 SA 65 2 :: map XAdv [640; 640]) in
  x_written s = [(7, Some SA)] /\ x_fin s = [].
Proof. vm_compute. split; reflexivity. Qed.

Example ex_flow_order :
  let s := xrun cfg_ex xinit [XEnq 1 None; XSaw 2 SA; XSaw 3 SA] in
  x_written s ++ x_queue s = [(1, None); (2, Some SA)] /\ length (x_waiters s) = 1%nat.
Proof. vm_compute. split; reflexivity. Qed.
