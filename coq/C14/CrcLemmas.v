(* C14/CrcLemmas.v — linearity of the translated CRC-8 table and the exact characterisation of two-byte corruption *)
From Common Require Import Prelude.
From C14 Require Import Crc Model Lemmas.
Open Scope Z_scope.

Lemma tab_linear : forall a b, is_byte a -> is_byte b -> tab (Z.lxor a b) = Z.lxor (tab a) (tab b).
Proof.
  intros a b Ha Hb. apply Z.eqb_eq.
  apply (byte_cases2 (fun a b => tab (Z.lxor a b) =? Z.lxor (tab a) (tab b))); [vm_compute; reflexivity| |]; assumption.
Qed.

Lemma tab_zero : tab 0 = 0.
Proof. vm_compute. reflexivity. Qed.

Lemma zero_byte : is_byte 0. Proof. unfold is_byte; lia. Qed.

Lemma tab_eq_zero : forall e, is_byte e -> tab e = 0 -> e = 0.
Proof. intros e He H. apply tab_inj; [exact He|exact zero_byte|]. rewrite tab_zero. exact H. Qed.

(* the error syndrome travels through the remaining bytes by repeated table look-ups *)
Fixpoint titer (n : nat) (e : Z) : Z := match n with O => e | S k => titer k (tab e) end.

Lemma titer_byte : forall n e, is_byte e -> is_byte (titer n e).
Proof. induction n as [|n IH]; intros e He; cbn [titer]; [exact He|]. apply IH, tab_byte, He. Qed.

Lemma titer_zero : forall n, titer n 0 = 0.
Proof. induction n as [|n IH]; cbn [titer]; [reflexivity|]. rewrite tab_zero. exact IH. Qed.

Lemma titer_eq_zero : forall n e, is_byte e -> titer n e = 0 -> e = 0.
Proof.
  induction n as [|n IH]; intros e He H; cbn [titer] in H; [exact H|].
  apply tab_eq_zero; [exact He|]. apply IH; [apply tab_byte, He|exact H].
Qed.

Lemma titer_succ_r : forall n e, titer (S n) e = tab (titer n e).
Proof. induction n as [|n IH]; intros e; [reflexivity|]. change (titer (S (S n)) e) with (titer (S n) (tab e)). rewrite IH. reflexivity. Qed.

Lemma xor3_swap : forall c e b, Z.lxor (Z.lxor c e) b = Z.lxor (Z.lxor c b) e.
Proof. intros. rewrite !Z.lxor_assoc, (Z.lxor_comm e b). reflexivity. Qed.

Lemma crc_from_xor : forall bs c e, Forall is_byte bs -> is_byte c -> is_byte e ->
  crc_from (Z.lxor c e) bs = Z.lxor (crc_from c bs) (titer (length bs) e).
Proof.
  induction bs as [|b t IH]; intros c e Hb Hc He; [reflexivity|].
  inversion Hb; subst. rewrite !crc_from_cons, !crc_step_tab. cbn [length titer].
  rewrite xor3_swap, tab_linear by (try apply xor_byte; assumption).
  apply IH; try assumption; apply tab_byte; try apply xor_byte; assumption.
Qed.

Lemma lxor_eq_self : forall a d, Z.lxor a d = a <-> d = 0.
Proof.
  intros a d. split; intros H.
  - apply (f_equal (Z.lxor a)) in H. rewrite <- Z.lxor_assoc, Z.lxor_nilpotent, Z.lxor_0_l in H. exact H.
  - subst. apply Z.lxor_0_r.
Qed.

Lemma lxor_eq_zero : forall a b, Z.lxor a b = 0 <-> a = b.
Proof. intros. apply Z.lxor_eq_0_iff. Qed.

(* the CRC of a frame with xor-errors e1 (at b1) and e2 (at b2, |mid|+1 bytes later) *)
Lemma crc_two_errors : forall pre b1 mid b2 post e1 e2 c,
  Forall is_byte (pre ++ b1 :: mid ++ b2 :: post) -> is_byte e1 -> is_byte e2 -> is_byte c ->
  crc_from c (pre ++ Z.lxor b1 e1 :: mid ++ Z.lxor b2 e2 :: post) =
  Z.lxor (crc_from c (pre ++ b1 :: mid ++ b2 :: post))
         (titer (S (length post)) (Z.lxor (titer (S (length mid)) e1) e2)).
Proof.
  intros pre b1 mid b2 post e1 e2 c HF He1 He2 Hc.
  apply Forall_app in HF as [Hpre H1]. inversion H1 as [|? ? Hb1 H2]; subst.
  apply Forall_app in H2 as [Hmid H3]. inversion H3 as [|? ? Hb2 Hpost]; subst.
  rewrite !crc_from_app, !crc_from_cons, !crc_from_app, !crc_from_cons, !crc_step_tab.
  set (c0 := crc_from c pre).
  assert (Hc0 : is_byte c0) by (apply crc_from_byte; assumption).
  rewrite <- (Z.lxor_assoc c0 b1 e1), (tab_linear (Z.lxor c0 b1) e1) by (try apply xor_byte; assumption).
  set (c1 := tab (Z.lxor c0 b1)).
  assert (Hc1 : is_byte c1) by (apply tab_byte, xor_byte; assumption).
  rewrite (crc_from_xor mid c1 (tab e1)) by (try assumption; apply tab_byte; assumption).
  set (c2 := crc_from c1 mid).
  assert (Hc2 : is_byte c2) by (apply crc_from_byte; assumption).
  change (titer (length mid) (tab e1)) with (titer (S (length mid)) e1).
  set (d2 := titer (S (length mid)) e1).
  assert (Hd2 : is_byte d2) by (apply titer_byte; assumption).
  replace (Z.lxor (Z.lxor c2 d2) (Z.lxor b2 e2)) with (Z.lxor (Z.lxor c2 b2) (Z.lxor d2 e2)).
  2:{ rewrite !Z.lxor_assoc. f_equal. rewrite <- !Z.lxor_assoc, (Z.lxor_comm b2 d2). reflexivity. }
  rewrite (tab_linear (Z.lxor c2 b2) (Z.lxor d2 e2)) by (apply xor_byte; assumption).
  rewrite (crc_from_xor post) by (try assumption; apply tab_byte, xor_byte; assumption).
  reflexivity.
Qed.

Lemma frame_crc_ok_zero : forall f, f <> [] -> Forall is_byte f -> frame_crc_ok f = (crc8 f =? 0).
Proof.
  intros f Hne HF. destruct (exists_last Hne) as (body & c & ->).
  apply Forall_app in HF as [Hb Hc]. inversion Hc; subst.
  rewrite frame_crc_ok_snoc. unfold crc8. rewrite crc_from_app, crc_from_cons, crc_step_tab. cbn [crc_from fold_left].
  assert (Hx : is_byte (crc_from crc_init body)) by (apply crc_from_byte; [apply crc_init_byte|assumption]).
  destruct (crc_from crc_init body =? c) eqn:E.
  - apply Z.eqb_eq in E. rewrite E, Z.lxor_nilpotent, tab_zero. reflexivity.
  - symmetry. apply Z.eqb_neq. intros H. apply Z.eqb_neq in E. apply E.
    apply tab_eq_zero in H; [|apply xor_byte; assumption]. apply (proj1 (lxor_eq_zero _ _)). exact H.
Qed.

Lemma app_cons_not_nil {A} (x : list A) a y : x ++ a :: y <> [].
Proof. destruct x; discriminate. Qed.

Lemma forall_bytes_xor : forall pre b1 mid b2 post e1 e2,
  Forall is_byte (pre ++ b1 :: mid ++ b2 :: post) -> is_byte e1 -> is_byte e2 ->
  Forall is_byte (pre ++ Z.lxor b1 e1 :: mid ++ Z.lxor b2 e2 :: post).
Proof.
  intros pre b1 mid b2 post e1 e2 HF He1 He2.
  apply Forall_app in HF as [Hpre H1]. inversion H1 as [|? ? Hb1 H2]; subst.
  apply Forall_app in H2 as [Hmid H3]. inversion H3 as [|? ? Hb2 Hpost]; subst.
  apply Forall_app; split; [assumption|]. constructor; [apply xor_byte; assumption|].
  apply Forall_app; split; [assumption|]. constructor; [apply xor_byte; assumption|assumption].
Qed.

(* EXACT statement for two corrupted bytes of a frame (the second one may be the CRC byte itself: post = []):
   the corruption goes unnoticed iff the second error pattern is the (distance)-fold table image of the first *)
Lemma two_byte_corruption_exact_l : forall pre b1 mid b2 post e1 e2,
  Forall is_byte (pre ++ b1 :: mid ++ b2 :: post) -> is_byte e1 -> is_byte e2 ->
  frame_crc_ok (pre ++ b1 :: mid ++ b2 :: post) = true ->
  (frame_crc_ok (pre ++ Z.lxor b1 e1 :: mid ++ Z.lxor b2 e2 :: post) = true <->
   e2 = titer (S (length mid)) e1).
Proof.
  intros pre b1 mid b2 post e1 e2 HF He1 He2 Hok.
  rewrite frame_crc_ok_zero in Hok by (try apply app_cons_not_nil; assumption).
  rewrite frame_crc_ok_zero by (try apply app_cons_not_nil; apply forall_bytes_xor; assumption).
  apply Z.eqb_eq in Hok. unfold crc8 in *.
  rewrite crc_two_errors by (try assumption; apply crc_init_byte). rewrite Hok, Z.lxor_0_l.
  assert (Hd : is_byte (Z.lxor (titer (S (length mid)) e1) e2)) by (apply xor_byte; [apply titer_byte|]; assumption).
  split; intros H.
  - apply Z.eqb_eq in H. apply titer_eq_zero in H; [|exact Hd]. apply (proj1 (lxor_eq_zero _ _)) in H. symmetry. exact H.
  - subst e2. rewrite Z.lxor_nilpotent, titer_zero. reflexivity.
Qed.

(* a burst error: all flipped bits of the 16-bit word e1:e2 lie within a window of 8 consecutive bits *)
Definition burst8b (e1 e2 : Z) : bool :=
  let v := e1 * 256 + e2 in
  negb (v =? 0) && existsb (fun k => (v mod 2 ^ k =? 0) && (v / 2 ^ k <? 256)) [0; 1; 2; 3; 4; 5; 6; 7; 8].

Lemma burst8_not_tab : forall e1 e2, is_byte e1 -> is_byte e2 -> burst8b e1 e2 = true -> e2 <> tab e1.
Proof.
  intros e1 e2 H1 H2 B E.
  pose proof (byte_cases2 (fun e1 e2 => implb (burst8b e1 e2) (negb (e2 =? tab e1)))
                          ltac:(vm_compute; reflexivity) e1 e2 H1 H2) as H.
  cbv beta in H. rewrite B in H. cbn [implb] in H. apply negb_true_iff, Z.eqb_neq in H. contradiction.
Qed.

(* every burst of up to 8 bits across two adjacent bytes (incl. last data byte + CRC byte) is detected *)
Lemma burst8_detected_l : forall pre b1 b2 post e1 e2,
  Forall is_byte (pre ++ b1 :: b2 :: post) -> is_byte e1 -> is_byte e2 -> burst8b e1 e2 = true ->
  frame_crc_ok (pre ++ b1 :: b2 :: post) = true ->
  frame_crc_ok (pre ++ Z.lxor b1 e1 :: Z.lxor b2 e2 :: post) = false.
Proof.
  intros pre b1 b2 post e1 e2 HF H1 H2 B Hok.
  destruct (frame_crc_ok (pre ++ Z.lxor b1 e1 :: Z.lxor b2 e2 :: post)) eqn:E; [|reflexivity].
  exfalso. apply (two_byte_corruption_exact_l pre b1 [] b2 post e1 e2 HF H1 H2 Hok) in E.
  cbn [length titer] in E. exact (burst8_not_tab e1 e2 H1 H2 B E).
Qed.

(* ... but two corrupted bytes in general are NOT detected (a 9-bit burst: the generator polynomial 0x107 itself) *)
Lemma two_byte_corruption_refuted_l :
  exists f f', frame_crc_ok f = true /\ length f = 7%nat /\ length f' = 7%nat /\ f <> f' /\
               firstn 4 f' = firstn 4 f /\ skipn 6 f' = skipn 6 f /\ frame_crc_ok f' = true.
Proof.
  exists ex_frame7, [32; 8; 0; 0; 1; 2; crc8 [32; 8; 0; 0; 0; 5]].
  vm_compute. repeat split; try reflexivity. discriminate.
Qed.

Example ex_two_byte_exact :
  let f := ex_frame7 in
  frame_crc_ok f = true /\ titer 1 1 = 7 /\ titer 3 16 = 162 /\
  frame_crc_ok [32; 8; Z.lxor 0 16; 0; 0; Z.lxor 5 162; nth 6 f 0] = true /\
  frame_crc_ok [32; 8; Z.lxor 0 16; 0; 0; Z.lxor 5 163; nth 6 f 0] = false.
Proof. vm_compute. repeat split; reflexivity. Qed.

Example ex_burst8 : burst8b 1 128 = true /\ burst8b 1 1 = false /\ burst8b 1 7 = false /\
  frame_crc_ok [32; 8; 0; 0; Z.lxor 0 1; Z.lxor 5 128; nth 6 ex_frame7 0] = false.
Proof. vm_compute. repeat split; reflexivity. Qed.
