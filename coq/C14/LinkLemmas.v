(* C14/LinkLemmas.v — proofs about Links.v *)
From Common Require Import Prelude.
From C14 Require Import Crc Model Lemmas Links.
Open Scope Z_scope.

Lemma fast_routed_chunking_l : forall p c1 c2, concat c1 = concat c2 -> fast_routed p c1 = fast_routed p c2.
Proof. intros p c1 c2 E. unfold fast_routed. rewrite (chunking_independent_reader_l 13 c1 c2 E). reflexivity. Qed.

Lemma fast_e2e_chunking_l : forall sw m c1 c2, concat c1 = concat c2 -> fast_e2e sw m c1 = fast_e2e sw m c2.
Proof. intros sw m c1 c2 E. unfold fast_e2e. rewrite (chunking_independent_reader_l 13 c1 c2 E). reflexivity. Qed.

(* ---- a stream of complete messages followed by a partial one ---- *)
Definition frame_msgs (d : Z) (msgs : list (list Z)) : list Z := concat (map (fun m => m ++ [d]) msgs).

Lemma split_on_nodelim : forall d tail, ~ In d tail -> split_on d tail = ([], tail).
Proof.
  induction tail as [|b t IH]; intros H; [reflexivity|].
  cbn [split_on]. rewrite IH by (intros X; apply H; right; exact X).
  destruct (b =? d) eqn:E; [|reflexivity]. apply Z.eqb_eq in E. exfalso. apply H. left. exact E.
Qed.

Lemma split_on_msg : forall d m X, ~ In d m ->
  split_on d (m ++ d :: X) = (m :: fst (split_on d X), snd (split_on d X)).
Proof.
  induction m as [|b t IH]; intros X H.
  - cbn [app split_on]. destruct (split_on d X). rewrite Z.eqb_refl. reflexivity.
  - cbn [app split_on]. rewrite IH by (intros Y; apply H; right; exact Y).
    destruct (b =? d) eqn:E; [|reflexivity]. apply Z.eqb_eq in E. exfalso. apply H. left. exact E.
Qed.

Lemma split_on_frames : forall d msgs tail,
  Forall (fun m => ~ In d m) msgs -> ~ In d tail ->
  split_on d (frame_msgs d msgs ++ tail) = (msgs, tail).
Proof.
  induction msgs as [|m t IH]; intros tail HF HT.
  - apply split_on_nodelim, HT.
  - inversion HF; subst. unfold frame_msgs. cbn [map concat]. rewrite <- !app_assoc. cbn [app].
    rewrite split_on_msg by assumption. fold (frame_msgs d t). rewrite IH by assumption. reflexivity.
Qed.

Definition good_msg (d : Z) (m : list Z) : Prop := m <> [] /\ decodable m = true /\ ~ In d m.

Lemma dispatch_good : forall d msgs, Forall (good_msg d) msgs -> dispatch msgs = (msgs, false).
Proof.
  induction msgs as [|m t IH]; intros H; [reflexivity|].
  inversion H as [|? ? (N & D & _) HT]; subst. cbn [dispatch]. destruct m; [contradiction|].
  rewrite D, IH by assumption. reflexivity.
Qed.

Lemma reader_frames : forall d msgs tail chunks,
  Forall (good_msg d) msgs -> ~ In d tail -> concat chunks = frame_msgs d msgs ++ tail ->
  reader_chunks d [] chunks = (msgs, false).
Proof.
  intros d msgs tail chunks HF HT E.
  rewrite reader_chunks_spec by reflexivity. cbn [app]. rewrite E, split_on_frames; try assumption.
  - apply (dispatch_good d), HF.
  - eapply Forall_impl; [|exact HF]. intros m (_ & _ & X). exact X.
Qed.

(* END TO END: whatever the reads, and wherever the stream is cut (tail = the bytes of an incomplete message), the
   switch states are those obtained by applying the reports among the complete messages, in order; messages that are
   not reports contribute nothing *)
Lemma fast_e2e_cut_l : forall sw m0 msgs tail chunks,
  Forall (good_msg 13) msgs -> ~ In 13 tail -> concat chunks = frame_msgs 13 msgs ++ tail ->
  fast_e2e sw m0 chunks = fold_left fstep (decode_all sw msgs) m0.
Proof.
  intros sw m0 msgs tail chunks HF HT E. unfold fast_e2e.
  rewrite (reader_frames 13 msgs tail chunks HF HT E). reflexivity.
Qed.

Lemma fast_e2e_last_report_l : forall sw m0 msgs tail chunks n inv st0,
  Forall (good_msg 13) msgs -> ~ In 13 tail -> concat chunks = frame_msgs 13 msgs ++ tail ->
  fget n m0 = Some (inv, st0) ->
  fget n (fast_e2e sw m0 chunks) = Some (inv, last_fast n inv (decode_all sw msgs) st0).
Proof.
  intros sw m0 msgs tail chunks n inv st0 HF HT E G.
  rewrite (fast_e2e_cut_l sw m0 msgs tail chunks HF HT E). apply last_report_wins_fast_l, G.
Qed.

Lemma decode_all_app : forall sw a b, decode_all sw (a ++ b) = decode_all sw a ++ decode_all sw b.
Proof.
  induction a as [|m t IH]; intros b; [reflexivity|].
  cbn [app decode_all]. rewrite IH. destruct (fast_decode sw m); reflexivity.
Qed.

(* a message that is not a (well-formed) report changes no switch state, wherever it is inserted *)
Lemma fast_nonreport_no_change_l : forall sw a x b m0,
  fast_decode sw x = None ->
  fold_left fstep (decode_all sw (a ++ x :: b)) m0 = fold_left fstep (decode_all sw (a ++ b)) m0.
Proof.
  intros sw a x b m0 H. rewrite !decode_all_app. cbn [decode_all]. rewrite H. reflexivity.
Qed.

(* ---- PKONE messages_in_flight ---- *)
Lemma pk_flow_add : forall a b n mx r,
  pk_flow (a + b) n mx r = pk_flow b (fst (pk_flow a n mx r)) mx (snd (pk_flow a n mx r)).
Proof.
  induction a as [|a IH]; intros b n mx r; [reflexivity|].
  cbn [Nat.add pk_flow]. apply IH.
Qed.

Lemma count_delim_app : forall d a b, count_delim d (a ++ b) = (count_delim d a + count_delim d b)%nat.
Proof. intros. unfold count_delim. rewrite filter_app, app_length. reflexivity. Qed.

Lemma pk_inflight_spec : forall chunks n mx r,
  fold_left (fun st c => pk_flow (count_delim 69 c) (fst st) mx (snd st)) chunks (n, r) =
  pk_flow (count_delim 69 (concat chunks)) n mx r.
Proof.
  induction chunks as [|c t IH]; intros n mx r; [reflexivity|].
  cbn [fold_left concat fst snd]. rewrite count_delim_app, pk_flow_add.
  destruct (pk_flow (count_delim 69 c) n mx r) as [n1 r1]. apply IH.
Qed.

Lemma pk_inflight_chunking_l : forall n mx c1 c2, concat c1 = concat c2 -> pk_inflight n mx c1 = pk_inflight n mx c2.
Proof. intros n mx c1 c2 E. unfold pk_inflight. rewrite !pk_inflight_spec, E. reflexivity. Qed.

(* the counter never goes below zero and ends at max(0, n - number of delimiters) *)
Lemma pk_flow_value : forall k n mx r, 0 <= n -> fst (pk_flow k n mx r) = Z.max 0 (n - Z.of_nat k).
Proof.
  induction k as [|k IH]; intros n mx r H.
  - cbn [pk_flow fst]. lia.
  - cbn [pk_flow]. destruct (n - 1 <? 0) eqn:E.
    + apply Z.ltb_lt in E. rewrite IH by lia. lia.
    + apply Z.ltb_ge in E. rewrite IH by lia. lia.
Qed.

(* ---- examples ---- *)
Definition ex_fsw : fsw := [(0, (false, 0)); (1, (true, 1)); (11, (false, 0))].
Definition ex_msgs : list (list Z) :=
  [[83;65;58;48;50;44;48;49;48;56];      (* SA:02,0108  -> switch 0 and switch 11 active *)
   [87;68;58;80];                        (* WD:P *)
   [47;76;58;48;66]].                    (* /L:0B *)

Example ex_fast_e2e :
  Forall (good_msg 13) ex_msgs /\
  decode_all 76 ex_msgs = [FSnap [1;0;0;0;0;0;0;0; 0;0;0;1;0;0;0;0]; FOpen 11] /\
  states_of (fast_e2e 76 ex_fsw [[83;65]; [58;48;50;44;48;49;48;56;13;87]; [68;58;80;13;47;76;58;48;66;13;45;76]]) = [1; 1; 0] /\
  states_of (fast_e2e 76 ex_fsw [frame_msgs 13 (firstn 1 ex_msgs)]) = [1; 1; 1].
Proof.
  split.
  - repeat constructor; try discriminate; intros X; cbn in X; repeat (destruct X as [X|X]; [discriminate|]); exact X.
  - vm_compute. repeat split; reflexivity.
Qed.

Example ex_routes :
  fast_routed PNeuron [[87;68;58;80;13;45;76;58]; [48;66;13;88;88;58;70;13;90;90;58;49;13]] =
    ([([45;76;58], [48;66]); ([88;88;58], [70])], false) /\
  fast_routed PExp [[87;68;58;80;13;45;76;58]; [48;66;13;88;88;58;70;13;66;82;58;80;13]] = ([([66;82;58], [80])], false) /\
  fast_routed PNano [[45;78;58;48;49;13;45;76;58;48;49;13]] = ([([45;78;58], [48;49])], false).
Proof. vm_compute. repeat split; reflexivity. Qed.

Example ex_pk_inflight :
  pk_inflight 3 1 [[80;83;87;69;80]; [87;68;69;69]] = (0, true) /\ pk_inflight 5 1 [[80;69]] = (4, false).
Proof. vm_compute. split; reflexivity. Qed.
