(* C18/Props.v — property theorems only.  Each is closed by [exact] of a lemma from Lemmas.v and followed by
   Print Assumptions (parsed by the check: must be "Closed under the global context").  The satisfiability
   Examples stand beside the lemmas in Lemmas.v (names *_ex).

   Property C18: for any sequence of count or step events, enable, disable, reset, restart and timeout, a
   counter's value equals its start value plus the number of hits accepted while enabled and outside its
   multiple-hit window times its interval in its direction, an accrual advances on its configured steps in any
   order and a sequence only in strict order.  Each posts its hit events once per accepted hit and its
   completion event exactly once per completion, at the moment the goal is reached, and then resets or disables
   as configured.

   Vocabulary (Model.v): [exec c s h] runs a history h : list (instant * op) — the external operations AND the
   expiries of the block's two delays (FireTimeout, FireWindow), at arbitrary instants; every theorem below
   quantifies over all such histories, so over every timing.  [timed_run_refines_exec] shows that the run the
   correspondence check compares with the real code (delays fire when the clock passes their deadline) is such
   a history.  [accepted c s o]: the hit arrives while enabled and (counter) outside the window / (accrual) on
   a step not yet done / (sequence) on the current step.  [completes c s o]: the block is not completed and the
   operation reaches the goal.  [ghost] is the bookkeeping of the formula: (base, n) with n the number of
   accepted hits since the last reset (explicit, by timeout, or on completion with reset_on_complete). *)
From Common Require Import Prelude.
From Coq Require Import Permutation.
From Coq Require Import Sorted.
From C18 Require Import Model Lemmas Extra Delayed MBlock.
Open Scope Z_scope.

(* value = start + hit_value * (accepted hits since the last reset); hit_value = +-|interval| by direction.
   With the control events add/subtract/jump (outside the property's operation list) the base moves with them. *)
Theorem counter_value_formula :
  forall (c : cfg) (h : list (Z * op)),
    ckind c = KCounter ->
    let s := fst (exec c (init c) h) in
    let bn := ghost c (init c) h (start c, 0) in
    value s = fst bn + hit_value c * snd bn /\ 0 <= snd bn /\
    (no_control h = true -> value s = start c + hit_value c * snd bn).
Proof. exact counter_value_formula_l. Qed.
Print Assumptions counter_value_formula.

(* hit events: exactly one logicblock_<n>_hit per accepted hit, none otherwise (all three kinds) *)
Theorem hit_events_once_per_accepted_hit :
  forall c t s o, count_ev is_hit_ev (snd (step c t s o)) = if accepted c s o then 1%nat else 0%nat.
Proof. exact step_hit_events. Qed.
Print Assumptions hit_events_once_per_accepted_hit.

Theorem hit_events_count_along_history :
  forall c h s, count_ev is_hit_ev (snd (exec c s h)) = n_accepted c s h.
Proof. exact exec_hit_events. Qed.
Print Assumptions hit_events_count_along_history.

(* hits while disabled / inside the window / on the wrong sequence step change nothing and post nothing *)
Theorem rejected_hit_is_noop :
  forall c t s o, ckind c <> KAccrual -> (o = Count \/ exists k, o = Hit k) -> accepted c s o = false ->
    step c t s o = (s, []).
Proof. exact rejected_hit_noop. Qed.
Print Assumptions rejected_hit_is_noop.

(* completion: one event exactly at the operation that reaches the goal of a not yet completed block ... *)
Theorem complete_once :
  forall c t s o,
    count_ev is_complete_ev (snd (step c t s o)) = if completes c s o then 1%nat else 0%nat.
Proof. exact step_complete_events. Qed.
Print Assumptions complete_once.

(* ... followed by the configured reset / disable *)
Theorem complete_then_reset_or_disable :
  forall c t s o,
    completes c s o = true ->
    let s' := fst (step c t s o) in
    completed s' = negb (roc c) /\
    enabled s' = enabled s && negb (doc c) /\
    (roc c = true -> value s' = start_value c /\ steps s' = start_steps c) /\
    tmo s' = (if doc c then None else if roc c && (0 <? timeout c) then Some (t + timeout c) else None).
Proof. exact step_completes_state. Qed.
Print Assumptions complete_then_reset_or_disable.

(* ... and never a second time until the block is reset *)
Theorem complete_once_until_reset :
  forall c h s,
    roc c = false -> forallb (fun to => negb (is_reset_op (snd to))) h = true ->
    (count_ev is_complete_ev (snd (exec c s h)) <= 1)%nat /\
    (completed s = true -> count_ev is_complete_ev (snd (exec c s h)) = 0%nat).
Proof. intros c h s. exact (complete_once_l c h s). Qed.
Print Assumptions complete_once_until_reset.

(* "at the moment the goal is reached": for the property's operations (no add/subtract/jump) the accepted hit
   that takes the value from short of the goal to the goal always posts the completion event *)
Theorem goal_transition_completes :
  forall c h t, ckind c = KCounter -> no_control h = true ->
    let s := fst (exec c (init c) h) in
    accepted c s Count = true ->
    reached c (value s) = false -> reached c (value s + hit_value c) = true ->
    count_ev is_complete_ev (snd (step c t s Count)) = 1%nat.
Proof. exact goal_transition_completes_l. Qed.
Print Assumptions goal_transition_completes.

(* the guard [no_control] is needed: after a jump back below the goal of a completed, un-reset counter the
   second arrival at the goal is silent.  (Control events are outside the property's operation list; recorded
   as an observation in NOTES.md, replayed on the code by corpus/C18/blocks.1.json.) *)
Theorem control_ops_break_goal_transition :
  exists c h t, ckind c = KCounter /\
    let s := fst (exec c (init c) h) in
    accepted c s Count = true /\
    reached c (value s) = false /\ reached c (value s + hit_value c) = true /\
    count_ev is_complete_ev (snd (step c t s Count)) = 0%nat.
Proof. exact control_ops_break_goal_transition_l. Qed.
Print Assumptions control_ops_break_goal_transition.

(* accrual: steps in ANY order (and with repetitions); the completion event comes with the hit that sets the
   last missing step, not before *)
Theorem accrual_any_order :
  forall c tks t k s,
    ckind c = KAccrual -> enabled s = true -> completed s = false ->
    all_true (mark (map snd tks) (steps s)) = false ->
    all_true (mark (map snd tks ++ [k]) (steps s)) = true ->
    let r := exec c s (hits_of tks) in
    steps (fst r) = mark (map snd tks) (steps s) /\
    count_ev is_complete_ev (snd r) = 0%nat /\
    count_ev is_complete_ev (snd (step c t (fst r) (Hit k))) = 1%nat.
Proof. exact accrual_any_order_l. Qed.
Print Assumptions accrual_any_order.

Theorem accrual_order_irrelevant :
  forall ks ks', Permutation ks ks' -> forall l, mark ks l = mark ks' l.
Proof. exact mark_perm. Qed.
Print Assumptions accrual_order_irrelevant.

Theorem accrual_complete_iff_all_steps :
  forall n ks, all_true (mark ks (repeat false n)) = true <-> (forall i, (i < n)%nat -> In i ks).
Proof. exact accrual_complete_iff_all_steps_l. Qed.
Print Assumptions accrual_complete_iff_all_steps.

(* sequence: the position only advances on a hit of the current step; any other step is a no-op; the
   completion event comes with the hit of the last step *)
Theorem sequence_strict_order :
  forall c tks t k s,
    ckind c = KSequence -> enabled s = true -> completed s = false ->
    seq_adv (value s) (map snd tks) < Z.of_nat (nsteps c) ->
    let r := exec c s (hits_of tks) in
    value (fst r) = seq_adv (value s) (map snd tks) /\
    count_ev is_complete_ev (snd r) = 0%nat /\
    (Z.of_nat k = value (fst r) -> Z.of_nat (nsteps c) <= value (fst r) + 1 ->
     count_ev is_complete_ev (snd (step c t (fst r) (Hit k))) = 1%nat) /\
    (Z.of_nat k <> value (fst r) -> step c t (fst r) (Hit k) = (fst r, [])).
Proof. exact sequence_strict_order_l. Qed.
Print Assumptions sequence_strict_order.

(* hit window: the flag is set exactly while the window delay is pending; the delay is (re)armed only by an
   accepted hit, for now + window, and only its expiry clears the flag: the window always reopens *)
Theorem window_flag_iff_delay_pending :
  forall c h, ignore (fst (exec c (init c) h)) = isSome (win (fst (exec c (init c) h))).
Proof. exact window_invariant_l. Qed.
Print Assumptions window_flag_iff_delay_pending.

Theorem window_opens_and_closes :
  forall c t s o,
    let s' := fst (step c t s o) in
    (win s' = if opens_window c s o then Some (t + window c)
              else match o with FireWindow => None | _ => win s end) /\
    (ignore s' = if opens_window c s o then true
                 else match o with FireWindow => false | _ => ignore s end).
Proof. exact window_step_l. Qed.
Print Assumptions window_opens_and_closes.

(* timeout: posts <n>_timeout, resets, and re-arms itself *)
Theorem timeout_resets :
  forall c t s,
    let '(s', es) := step c t s FireTimeout in
    value s' = start_value c /\ steps s' = start_steps c /\ completed s' = false /\
    enabled s' = enabled s /\
    tmo s' = (if 0 <? timeout c then Some (t + timeout c) else None) /\
    es = [ETimeout; EUpdated (start_value c) (start_steps c) (enabled s)].
Proof. exact timeout_resets_l. Qed.
Print Assumptions timeout_resets.

(* the timed run compared with the real code is an execution of a history (the groups' operations plus delay
   expiries, each fired only when due: Lemmas.next_due_sound / advance_exec) *)
Theorem timed_run_refines_exec :
  forall c groups now s,
    exists h, fst (trun_aux c now s groups) = fst (exec c s h) /\
              events_of (snd (trun_aux c now s groups)) = snd (exec c s h).
Proof. intros c groups now s. exact (timed_run_refines_exec_l c groups now s). Qed.
Print Assumptions timed_run_refines_exec.

(* ================================================================================================ *)
(* value formula per direction and for any interval (the sign of count_interval is overridden by the direction,
   interval 0 never moves the counter) *)
Theorem hit_value_direction :
  forall c,
    hit_value c = (if down c then - Z.abs (interval c) else Z.abs (interval c)) /\
    (down c = true -> hit_value c <= 0) /\ (down c = false -> 0 <= hit_value c) /\
    hit_value (mkCfg (ckind c) (nsteps c) (down c) (- interval c) (start c) (goal c) (roc c) (doc c) (window c)
                     (timeout c) (boot_enabled c)) = hit_value c.
Proof. exact hit_value_direction_l. Qed.
Print Assumptions hit_value_direction.

Theorem counter_value_by_direction :
  forall c h,
    ckind c = KCounter -> no_control h = true ->
    let s := fst (exec c (init c) h) in
    let n := snd (ghost c (init c) h (start c, 0)) in
    0 <= n /\
    (down c = false -> value s = start c + Z.abs (interval c) * n) /\
    (down c = true -> value s = start c - Z.abs (interval c) * n) /\
    (interval c = 0 -> value s = start c).
Proof. exact counter_value_by_direction_l. Qed.
Print Assumptions counter_value_by_direction.

(* hit window boundary in the timed run: a hit at instant t while the window (deadline w) is open is counted iff
   w <= t — a hit exactly at the window end counts, because the window's delay is due and fires first *)
Theorem window_boundary :
  forall c now s w t,
    ckind c = KCounter -> enabled s = true -> ignore s = true -> win s = Some w -> tmo s = None ->
    count_ev is_hit_ev (events_of (snd (trun_aux c now s [(t, [Count])]))) = if w <=? t then 1%nat else 0%nat.
Proof. exact window_boundary_l. Qed.
Print Assumptions window_boundary.

(* ... in the other order at that instant (hit handled before the expiry) the hit is ignored *)
Theorem window_boundary_other_order :
  forall c s w,
    ckind c = KCounter -> ignore s = true ->
    snd (exec c s [(w, Count); (w, FireWindow)]) = [] /\ value (fst (exec c s [(w, Count); (w, FireWindow)])) = value s.
Proof. exact window_boundary_other_order_l. Qed.
Print Assumptions window_boundary_other_order.

(* one event bound to steps k and k+1 of a sequence (handlers run in descending step order): exactly one step *)
Theorem sequence_shared_event_one_step :
  forall c t s k,
    ckind c = KSequence -> enabled s = true -> value s = Z.of_nat k ->
    let r := apply_ops c t s [Hit (S k); Hit k] in
    count_ev is_hit_ev (snd r) = 1%nat /\
    (Z.of_nat k + 1 < Z.of_nat (nsteps c) -> value (fst r) = Z.of_nat k + 1 /\ count_ev is_complete_ev (snd r) = 0%nat).
Proof. exact sequence_shared_event_l. Qed.
Print Assumptions sequence_shared_event_one_step.

(* ================================================================================================ *)
(* delayed control events (Delayed.v): every posted event is delivered exactly once, at post time + delay ... *)
Theorem delivery_each_post_once :
  forall ps, Permutation (dgroups ps) (flat_map post_groups ps).
Proof. exact dgroups_perm. Qed.
Print Assumptions delivery_each_post_once.

(* ... in the order of the due instants ... *)
Theorem delivery_in_time_order :
  forall ps, StronglySorted gle (dgroups ps).
Proof. exact dgroups_sorted. Qed.
Print Assumptions delivery_in_time_order.

(* ... a new delivery goes behind everything that is due no later (posting order preserved at equal instants) *)
Theorem delivery_order_preserved :
  forall d ops g, StronglySorted gle g ->
    insert d ops g = filter (fun x => fst x <=? d) g ++ (d, ops) :: filter (fun x => negb (fst x <=? d)) g.
Proof. exact insert_spec. Qed.
Print Assumptions delivery_order_preserved.

(* ... so as many operations of every sort are delivered as were posted: none replaces another *)
Theorem delivered_count :
  forall p ps, n_ops p (dgroups ps) = posted p ps.
Proof. exact delivered_count_l. Qed.
Print Assumptions delivered_count.

(* end to end: an always-enabled counter without window, timeout and goal counts every posted hit and posts one hit
   event for each, whatever the delays of the count events and however close together they are posted *)
Theorem delayed_counter_counts_every_post :
  forall c ps,
    plain_counter c -> count_posts ps ->
    let r := trun_aux c 0 (init c) (dgroups ps) in
    value (fst r) = start c + hit_value c * Z.of_nat (length ps) /\
    count_ev is_hit_ev (events_of (snd r)) = length ps.
Proof. exact delayed_counter_counts_every_post_l. Qed.
Print Assumptions delayed_counter_counts_every_post.

(* the run with delayed control events is an execution of a history: all theorems over histories apply to it *)
Theorem delayed_run_refines_exec :
  forall c ps,
    exists h, fst (trun_aux c 0 (init c) (dgroups ps)) = fst (exec c (init c) h) /\
              events_of (snd (trun_aux c 0 (init c) (dgroups ps))) = snd (exec c (init c) h).
Proof. exact delayed_run_refines_exec_l. Qed.
Print Assumptions delayed_run_refines_exec.

(* ================================================================================================ *)
(* blocks configured in a mode (MBlock.v) *)

(* while the mode is not running nothing happens and nothing is posted *)
Theorem mode_stopped_ignores_ops :
  forall mc t ms o, mrun ms = None -> mstep mc t ms (MOp o) = (ms, []).
Proof. exact mode_stopped_ignores_ops_l. Qed.
Print Assumptions mode_stopped_ignores_ops.

(* while it runs an operation is exactly the block's step under the current template values: every per-step theorem
   above (hit events, completion once, reset/disable on complete, window) holds for mode-level blocks *)
Theorem mode_running_is_block_step :
  forall mc t ms s o, mrun ms = Some s ->
    mstep mc t ms (MOp o) = (mkMS (mcur ms) (Some (fst (step (mcur ms) t s o))) (msaved ms), snd (step (mcur ms) t s o)).
Proof. exact mode_running_is_block_step_l. Qed.
Print Assumptions mode_running_is_block_step.

(* mode stop: no events; the state is dropped, or kept in the player with persist_state — value, steps, enabled and
   completed unchanged, both delays cancelled and the hit window closed *)
Theorem mode_stop_drops_or_keeps_state :
  forall mc t ms s, mrun ms = Some s ->
    let r := mstep mc t ms MStop in
    mrun (fst r) = None /\ snd r = [] /\
    msaved (fst r) = (if mpersist mc then Some (drop_delays s) else None) /\
    value (drop_delays s) = value s /\ steps (drop_delays s) = steps s /\ enabled (drop_delays s) = enabled s /\
    completed (drop_delays s) = completed s /\ ignore (drop_delays s) = false /\
    tmo (drop_delays s) = None /\ win (drop_delays s) = None.
Proof. exact mode_stop_l. Qed.
Print Assumptions mode_stop_drops_or_keeps_state.

(* mode start: a kept state is used again as it is (one update event, no enable, no timeout); otherwise a fresh state
   at the start value, enabled iff start_enabled (default: no enable_events), the timeout armed iff enabled *)
Theorem mode_start_fresh_or_restored :
  forall mc t ms, mrun ms = None ->
    let r := mstep mc t ms MStart in
    let c := mcur ms in
    match restore mc ms with
    | Some s => mrun (fst r) = Some s /\ snd r = [upd s]
    | None =>
        exists s, mrun (fst r) = Some s /\
          value s = start_value c /\ steps s = start_steps c /\ completed s = false /\ ignore s = false /\ win s = None /\
          enabled s = eff_start mc /\
          tmo s = (if eff_start mc && (0 <? timeout c) then Some (t + timeout c) else None) /\
          snd r = (if eff_start mc then [EUpdated (start_value c) (start_steps c) true] else [])
                  ++ [EUpdated (start_value c) (start_steps c) (eff_start mc)]
    end.
Proof. exact mode_start_l. Qed.
Print Assumptions mode_start_fresh_or_restored.

Theorem mode_restart :
  forall mc t t' ms s, mrun ms = Some s ->
    let m1 := fst (mstep mc t ms MStop) in
    let r := mstep mc t' m1 MStart in
    if mpersist mc
    then mrun (fst r) = Some (drop_delays s) /\ snd r = [EUpdated (value s) (steps s) (enabled s)]
    else exists s', mrun (fst r) = Some s' /\ value s' = start_value (mcur ms) /\ steps s' = start_steps (mcur ms) /\
                    completed s' = false /\ enabled s' = eff_start mc.
Proof. exact mode_restart_l. Qed.
Print Assumptions mode_restart.

(* value formula over every mode-level history (starts, stops, operations while running or not, changing
   starting_count / count_complete_value templates) *)
Theorem mode_counter_value_formula :
  forall mc c h,
    ckind c = KCounter ->
    let m := fst (mexec mc (mkMS c None None) h) in
    let bn := mghost mc (mkMS c None None) h (start c, 0) in
    forall s, mrun m = Some s -> value s = fst bn + hit_value c * snd bn.
Proof. exact mode_counter_value_formula_l. Qed.
Print Assumptions mode_counter_value_formula.

(* hit and completion events of a mode-level history: one per accepted hit / per completion, only while running *)
Theorem mode_hit_events :
  forall mc t ms o,
    count_ev is_hit_ev (snd (mstep mc t ms o)) =
    match o, mrun ms with
    | MOp o', Some s => if accepted (mcur ms) s o' then 1%nat else 0%nat
    | _, _ => 0%nat
    end.
Proof. exact mstep_hit_events. Qed.
Print Assumptions mode_hit_events.

Theorem mode_complete_once :
  forall mc t ms o,
    count_ev is_complete_ev (snd (mstep mc t ms o)) =
    match o, mrun ms with
    | MOp o', Some s => if completes (mcur ms) s o' then 1%nat else 0%nat
    | _, _ => 0%nat
    end.
Proof. exact mstep_complete_events. Qed.
Print Assumptions mode_complete_once.

(* count_complete_value is re-evaluated: after the template's value changed the next operation is judged against it *)
Theorem goal_template_reevaluated :
  forall mc t ms s g o,
    mrun ms = Some s ->
    let m1 := fst (mstep mc t ms (MSetGoal g)) in
    mrun m1 = Some s /\ goal (mcur m1) = Some g /\
    count_ev is_complete_ev (snd (mstep mc t m1 (MOp o))) =
      (if completes (set_goal (mcur ms) (Some g)) s o then 1%nat else 0%nat).
Proof. exact goal_reevaluated_l. Qed.
Print Assumptions goal_template_reevaluated.

Theorem mode_timed_run_refines_mexec :
  forall mc groups now ms,
    exists h, fst (mtrun_aux mc now ms groups) = fst (mexec mc ms h) /\
              mevents_of (snd (mtrun_aux mc now ms groups)) = snd (mexec mc ms h).
Proof. intros mc groups now ms. exact (mode_timed_run_refines_mexec_l mc groups now ms). Qed.
Print Assumptions mode_timed_run_refines_mexec.
